package main

// Part of engine `resp` (C12): the composite helper Client.Signer / cryptoSigner.Sign of
// kmipclient/sign_verify.go — the one place of kmipclient/*.go outside client.go where the CONTENT of response
// payloads is interpreted (2–3 GetAttributes exchanges, one Get, then one Sign per signature).
//
// The server is a script: the list of its answers to the successive requests (exhausted = the connection
// is closed / the transport fails). An answer is an abstract round trip (cliRT) plus the content the helper
// reads in the payload (attributes, key material kind, signature length). As for the other lines, the
// protocol line is built from what Client.Roundtrip RETURNED (observed by the pass-through middleware).
//
// Line format: see lean/Driver/Client.lean (`resp.signer`).
//
// Oracle (independent of the model): neither Signer, nor Public, nor Sign panics; Signer / Sign succeed only
// when every exchange they made was answered by a single successful item carrying the response payload of
// the requested operation; the error of a call whose last exchange was a failed item carries status,
// reason and message; a returned signature is the server's signature data, or — for an ECDSA key and a
// signature of twice the coordinate size — its ASN.1 DER form (r, s equal to the two halves).

import (
	"context"
	"crypto"
	"crypto/ecdsa"
	"crypto/ed25519"
	"crypto/elliptic"
	"crypto/rand"
	"crypto/rsa"
	"crypto/x509"
	"encoding/asn1"
	"fmt"
	"math/big"
	"strconv"
	"strings"
	"sync"
	"time"

	kmip "github.com/ovh/kmip-go"
	"github.com/ovh/kmip-go/payloads"

	"verifharness/internal/rng"
)

const (
	sgOpGetAttributes = uint32(kmip.OperationGetAttributes)
	sgOpSign          = uint32(kmip.OperationSign)
)

// sgAttr is one attribute of a GetAttributes response: kind T (object type), G (algorithm), L (link),
// M (usage mask), O (another name); foreign: the value has a Go type that does not belong to the name.
type sgAttr struct {
	kind    byte
	foreign bool
	n       uint32 // T, G, M: the value; L: the link type
	hasID   bool   // L: LinkedObjectIdentifier not empty
}

func (a sgAttr) String() string {
	if a.kind == 'O' {
		return "O"
	}
	if a.foreign {
		return string(a.kind) + "f"
	}
	if a.kind == 'L' {
		b := 0
		if a.hasID {
			b = 1
		}
		return fmt.Sprintf("L%dx%d", a.n, b)
	}
	return string(a.kind) + strconv.FormatUint(uint64(a.n), 10)
}

// sgCont is the content of the first item's payload, as far as the helper reads it.
type sgCont struct {
	kind  byte // '-', 'A', 'K', 'S'
	attrs []sgAttr
	key   string // K: r | e<n> | o | x
	flav  int    // K: which concrete representation (not part of the line)
	sig   int    // S: length
}

func (c sgCont) String() string {
	switch c.kind {
	case 'A':
		parts := make([]string, len(c.attrs))
		for i, a := range c.attrs {
			parts[i] = a.String()
		}
		return "A" + strings.Join(parts, ".")
	case 'K':
		return "K" + c.key
	case 'S':
		return "S" + strconv.Itoa(c.sig)
	}
	return "-"
}

type sgEx struct {
	rt   cliRT
	cont sgCont
}

func (e sgEx) String() string { return e.rt.String() + "~" + e.cont.String() }

func sgScriptStr(script []sgEx) string {
	if len(script) == 0 {
		return "-"
	}
	parts := make([]string, len(script))
	for i, e := range script {
		parts[i] = e.String()
	}
	return strings.Join(parts, ";")
}

// ---------------------------------------------------------------------------------------------
// key material fixtures (generated once per run; the values do not matter)

var (
	sgKeysOnce sync.Once
	sgRSA      *rsa.PrivateKey
	sgEC       = map[int]*ecdsa.PrivateKey{}
	sgEd       ed25519.PublicKey
)

func sgInitKeys() {
	sgKeysOnce.Do(func() {
		var err error
		if sgRSA, err = rsa.GenerateKey(rand.Reader, 1024); err != nil {
			panic(err)
		}
		for _, c := range []elliptic.Curve{elliptic.P224(), elliptic.P256(), elliptic.P384(), elliptic.P521()} {
			k, err := ecdsa.GenerateKey(c, rand.Reader)
			if err != nil {
				panic(err)
			}
			sgEC[(c.Params().BitSize+7)/8] = k
		}
		if sgEd, _, err = ed25519.GenerateKey(rand.Reader); err != nil {
			panic(err)
		}
	})
}

func sgPublicKeyObject(format kmip.KeyFormatType, alg kmip.CryptographicAlgorithm, raw []byte) *kmip.PublicKey {
	return &kmip.PublicKey{KeyBlock: kmip.KeyBlock{KeyFormatType: format, CryptographicAlgorithm: alg, CryptographicLength: 256,
		KeyValue: &kmip.KeyValue{Plain: &kmip.PlainKeyValue{KeyMaterial: kmip.KeyMaterial{Bytes: &raw}}}}}
}

// sgGetPayload builds a Get response whose PublicKey() result is of the kind `key`.
func sgGetPayload(key string, flav int) *payloads.GetResponsePayload {
	sgInitKeys()
	pl := &payloads.GetResponsePayload{ObjectType: kmip.ObjectTypePublicKey, UniqueIdentifier: "pub-1"}
	switch {
	case key == "r":
		if flav%2 == 0 {
			der, _ := x509.MarshalPKIXPublicKey(&sgRSA.PublicKey)
			pl.Object = sgPublicKeyObject(kmip.KeyFormatTypeX_509, kmip.CryptographicAlgorithmRSA, der)
		} else {
			pl.Object = sgPublicKeyObject(kmip.KeyFormatTypePKCS_1, kmip.CryptographicAlgorithmRSA, x509.MarshalPKCS1PublicKey(&sgRSA.PublicKey))
		}
	case strings.HasPrefix(key, "e"):
		n, _ := strconv.Atoi(key[1:])
		k := sgEC[n]
		if k == nil {
			k = sgEC[32]
		}
		der, _ := x509.MarshalPKIXPublicKey(&k.PublicKey)
		pl.Object = sgPublicKeyObject(kmip.KeyFormatTypeX_509, kmip.CryptographicAlgorithmEC, der)
	case key == "o":
		der, _ := x509.MarshalPKIXPublicKey(sgEd)
		pl.Object = sgPublicKeyObject(kmip.KeyFormatTypeX_509, kmip.CryptographicAlgorithmEC, der)
	default: // "x": PublicKey() returns an error
		switch flav % 3 {
		case 0: // not a public key object at all
			pl.ObjectType = kmip.ObjectTypeSecretData
			pl.Object = cliSecret()
		case 1: // unparsable material
			pl.Object = sgPublicKeyObject(kmip.KeyFormatTypeX_509, kmip.CryptographicAlgorithmRSA, []byte{0x30, 0x03, 0x02, 0x01})
		default: // a format PublicKey() does not support
			pl.Object = sgPublicKeyObject(kmip.KeyFormatTypeRaw, kmip.CryptographicAlgorithmRSA, []byte{1, 2, 3})
		}
	}
	return pl
}

func sgAttrConcrete(a sgAttr) kmip.Attribute {
	var foreign any = "a text where another type is expected"
	switch a.kind {
	case 'T':
		if a.foreign {
			return kmip.Attribute{AttributeName: kmip.AttributeNameObjectType, AttributeValue: foreign}
		}
		return kmip.Attribute{AttributeName: kmip.AttributeNameObjectType, AttributeValue: kmip.ObjectType(a.n)}
	case 'G':
		if a.foreign {
			return kmip.Attribute{AttributeName: kmip.AttributeNameCryptographicAlgorithm, AttributeValue: int32(4)}
		}
		return kmip.Attribute{AttributeName: kmip.AttributeNameCryptographicAlgorithm, AttributeValue: kmip.CryptographicAlgorithm(a.n)}
	case 'L':
		if a.foreign {
			return kmip.Attribute{AttributeName: kmip.AttributeNameLink, AttributeValue: nil}
		}
		id := ""
		if a.hasID {
			id = "linked-1"
		}
		return kmip.Attribute{AttributeName: kmip.AttributeNameLink, AttributeValue: kmip.Link{LinkType: kmip.LinkType(a.n), LinkedObjectIdentifier: id}}
	case 'M':
		if a.foreign {
			return kmip.Attribute{AttributeName: kmip.AttributeNameCryptographicUsageMask, AttributeValue: int32(1)}
		}
		return kmip.Attribute{AttributeName: kmip.AttributeNameCryptographicUsageMask, AttributeValue: kmip.CryptographicUsageMask(a.n)}
	}
	return kmip.Attribute{AttributeName: kmip.AttributeNameName, AttributeValue: kmip.Name{NameValue: "n", NameType: kmip.NameTypeUninterpretedTextString}}
}

// concrete builds the response message of an exchange: the abstract round trip, with the content placed in
// every payload of the matching response type.
func (e sgEx) concrete(version cliVer) *kmip.ResponseMessage {
	msg := e.rt.concrete(version)
	for i := range msg.BatchItem {
		switch pl := msg.BatchItem[i].ResponsePayload.(type) {
		case *payloads.GetAttributesResponsePayload:
			if e.cont.kind == 'A' {
				pl.UniqueIdentifier = "id-1"
				pl.Attribute = nil
				for _, a := range e.cont.attrs {
					pl.Attribute = append(pl.Attribute, sgAttrConcrete(a))
				}
			}
		case *payloads.GetResponsePayload:
			if e.cont.kind == 'K' {
				msg.BatchItem[i].ResponsePayload = sgGetPayload(e.cont.key, e.cont.flav)
			}
		case *payloads.SignResponsePayload:
			if e.cont.kind == 'S' {
				pl.UniqueIdentifier = "priv-1"
				pl.SignatureData = make([]byte, e.cont.sig)
				for k := range pl.SignatureData {
					pl.SignatureData[k] = byte(k*7 + 1)
				}
			}
		}
	}
	return msg
}

// sgAbstractCont reads the content back from what the client received.
func sgAbstractCont(resp *kmip.ResponseMessage) sgCont {
	if resp == nil || len(resp.BatchItem) == 0 {
		return sgCont{kind: '-'}
	}
	switch pl := resp.BatchItem[0].ResponsePayload.(type) {
	case *payloads.GetAttributesResponsePayload:
		c := sgCont{kind: 'A'}
		for _, at := range pl.Attribute {
			switch at.AttributeName {
			case kmip.AttributeNameObjectType:
				v, ok := at.AttributeValue.(kmip.ObjectType)
				c.attrs = append(c.attrs, sgAttr{kind: 'T', foreign: !ok, n: uint32(v)})
			case kmip.AttributeNameCryptographicAlgorithm:
				v, ok := at.AttributeValue.(kmip.CryptographicAlgorithm)
				c.attrs = append(c.attrs, sgAttr{kind: 'G', foreign: !ok, n: uint32(v)})
			case kmip.AttributeNameLink:
				v, ok := at.AttributeValue.(kmip.Link)
				c.attrs = append(c.attrs, sgAttr{kind: 'L', foreign: !ok, n: uint32(v.LinkType), hasID: v.LinkedObjectIdentifier != ""})
			case kmip.AttributeNameCryptographicUsageMask:
				v, ok := at.AttributeValue.(kmip.CryptographicUsageMask)
				c.attrs = append(c.attrs, sgAttr{kind: 'M', foreign: !ok, n: uint32(v)})
			default:
				c.attrs = append(c.attrs, sgAttr{kind: 'O'})
			}
		}
		return c
	case *payloads.GetResponsePayload:
		// the model takes the result of PublicKey() (payloads/get.go, objects.go: C14's area) as an input
		type res struct {
			k   crypto.PublicKey
			err error
		}
		r, p := guard("GetResponsePayload.PublicKey", func() res { k, err := pl.PublicKey(); return res{k, err} })
		c := sgCont{kind: 'K', key: "x"}
		if p == "" && r.err == nil {
			switch k := r.k.(type) {
			case *rsa.PublicKey:
				c.key = "r"
			case *ecdsa.PublicKey:
				c.key = "e" + strconv.Itoa((k.Curve.Params().BitSize+7)/8)
			default:
				c.key = "o"
			}
		}
		return c
	case *payloads.SignResponsePayload:
		return sgCont{kind: 'S', sig: len(pl.SignatureData)}
	}
	return sgCont{kind: '-'}
}

// ---------------------------------------------------------------------------------------------
// one case

// sgSnap is what the middleware keeps of a response at the moment the client receives it.
type sgSnap struct {
	cont sgCont
	sig  []byte
}

type sgOpts struct {
	code string // nil | h0 | h1 | p<hash><salt>
	opts crypto.SignerOpts
}

func sgSignOpts(r *rng.R, code string) sgOpts {
	good := []crypto.Hash{crypto.SHA256, crypto.SHA384, crypto.SHA512}
	bad := []crypto.Hash{crypto.SHA1, crypto.SHA224, crypto.MD5, crypto.SHA3_256}
	switch code {
	case "nil":
		return sgOpts{code, nil}
	case "h0":
		return sgOpts{code, rng.Pick(r, bad)}
	case "h1":
		return sgOpts{code, rng.Pick(r, good)}
	}
	h := rng.Pick(r, good)
	if code[1] == '0' {
		h = rng.Pick(r, bad)
	}
	salt := rng.Pick(r, []int{rsa.PSSSaltLengthAuto, rsa.PSSSaltLengthEqualsHash, 20, 32, 1 << 40})
	if code[2] == '0' {
		salt = rng.Pick(r, []int{-2, -7, -1 << 40})
	}
	return sgOpts{code, &rsa.PSSOptions{Hash: h, SaltLength: salt}}
}

type sgCase struct {
	ids    string // p | u | b | n
	opts   sgOpts
	script []sgEx
	inject bool
}

var sgDigests = map[crypto.Hash]int{crypto.SHA256: 32, crypto.SHA384: 48, crypto.SHA512: 64}

func runSignerCase(env *respEnv, sc sgCase) {
	ctx := env.ctx
	cl, obs, ep := env.client(sc.inject)
	if cl == nil {
		return
	}
	mode := "wire"
	var mu sync.Mutex
	next := 0
	take := func() *sgEx {
		mu.Lock()
		defer mu.Unlock()
		if next >= len(sc.script) {
			next++
			return nil
		}
		e := &sc.script[next]
		next++
		return e
	}
	if sc.inject {
		mode = "inject"
		obs.setInject(func(req *kmip.RequestMessage) (*kmip.ResponseMessage, error, bool) {
			e := take()
			if e == nil || e.rt.fail {
				return nil, errCliInjected, true
			}
			return e.concrete(req.Header.ProtocolVersion), nil, true
		})
	} else {
		ep.setHandler(func(req *kmip.RequestMessage) *kmip.ResponseMessage {
			e := take()
			if e == nil || e.rt.fail {
				return nil
			}
			return e.concrete(req.Header.ProtocolVersion)
		})
	}
	// Sign rewrites SignatureData of the response it received: the content is read when the response is observed
	obs.mu.Lock()
	obs.snap = func(resp *kmip.ResponseMessage) any {
		c := sgAbstractCont(resp)
		if c.kind == 'S' {
			return sgSnap{c, append([]byte(nil), resp.BatchItem[0].ResponsePayload.(*payloads.SignResponsePayload).SignatureData...)}
		}
		return sgSnap{cont: c}
	}
	obs.mu.Unlock()
	defer func() { obs.mu.Lock(); obs.snap = nil; obs.mu.Unlock() }()
	priv, pub := "", ""
	if sc.ids == "p" || sc.ids == "b" {
		priv = "priv-1"
	}
	if sc.ids == "u" || sc.ids == "b" {
		pub = "pub-1"
	}
	prefix := "resp.signer " + sc.ids + " " + sc.opts.code + " "
	ctx.current = prefix + sgScriptStr(sc.script) + " (" + mode + ")"

	type signerRes struct {
		s   crypto.Signer
		err error
	}
	cctx, cancel := context.WithTimeout(context.Background(), 10*time.Second)
	sr, pnSigner := guard("Signer", func() signerRes {
		s, err := cl.Signer(cctx, priv, pub)
		return signerRes{s, err}
	})
	cancel()
	evSigner := obs.take()
	type signRes struct {
		sig []byte
		err error
	}
	var gr signRes
	pnSign := ""
	var evSign []cliObsEv
	var pubKey crypto.PublicKey
	if pnSigner == "" && sr.err == nil {
		var pp string
		pubKey, pp = guard("Public", func() crypto.PublicKey { return sr.s.Public() })
		if pp != "" {
			cliViolate(ctx, "C12", "no-panic", "signer:public-panic "+panicKey(pp), "crypto.Signer.Public panicked: "+pp, ctx.current)
		}
		n := 32
		if sc.opts.opts != nil {
			if k, ok := sgDigests[sc.opts.opts.HashFunc()]; ok {
				n = k
			}
		}
		gr, pnSign = guard("Sign", func() signRes {
			sig, err := sr.s.Sign(rand.Reader, make([]byte, n), sc.opts.opts)
			return signRes{sig, err}
		})
		evSign = obs.take()
	}
	if !sc.inject {
		ep.takeSeen()
	}
	events := append(append([]cliObsEv(nil), evSigner...), evSign...)

	// the exchanges as the client saw them
	var seen []sgEx
	dead := false
	for _, ev := range events {
		a, err := cliAbstract(ev.resp, ev.err)
		if err != nil {
			ctx.Res.Fail("resp.signer: " + err.Error())
			return
		}
		x := sgEx{rt: a, cont: sgCont{kind: '-'}}
		if sn, ok := ev.snap.(sgSnap); ok && !a.fail {
			x.cont = sn.cont
		} else if a.fail {
			dead = true
		}
		seen = append(seen, x)
	}
	if !sc.inject && (dead || pnSigner != "" || pnSign != "") {
		env.dropWire()
	}
	line := prefix + sgScriptStr(seen)
	ctx.current = line
	if !sc.inject && sgScriptStr(seen) != sgScriptStr(sc.script[:min(len(seen), len(sc.script))]) {
		ctx.Res.Count("resp.wire-normalised")
	}

	// ---- the real code's answer
	items := func(evs []cliObsEv) []cliItem {
		if len(evs) == 0 {
			return nil
		}
		a, _ := cliAbstract(evs[len(evs)-1].resp, evs[len(evs)-1].err)
		return a.items
	}
	// attribute values of a foreign Go type cannot come from a server (Attribute.TagDecodeTTLV types the value
	// from the name): a panic on such a fabricated response is compared with the model but is not a violation
	wireTyped := true
	for _, x := range seen {
		for _, a := range x.cont.attrs {
			if a.foreign {
				wireTyped = false
			}
		}
	}
	panicViolation := func(key, detail string) {
		if wireTyped {
			cliViolate(ctx, "C12", "no-panic", key, detail, line)
		} else {
			ctx.Res.Count("signer.note=panic-on-fabricated-untyped-attribute-value")
		}
	}
	var impl string
	switch {
	case pnSigner != "":
		impl = "signer panic"
		panicViolation("signer:panic "+panicKey(pnSigner), "Client.Signer panicked: "+pnSigner)
	case sr.err != nil:
		impl = "signer " + cliErrAnswer(sr.err, items(evSigner))
	case pnSign != "":
		impl = "sign panic"
		key := "sign:panic " + panicKey(pnSign)
		if strings.Contains(pnSign, "not *ecdsa.PublicKey") {
			key = "sign:ecdsa-key-assertion-panic" // one key whatever the type of the key material
		}
		panicViolation(key, "crypto.Signer.Sign panicked after Client.Signer accepted the server's answers: "+pnSign)
	case gr.err != nil:
		impl = "sign " + cliErrAnswer(gr.err, items(evSign))
	default:
		conv := 0 // 1: the signature returned is not byte for byte the server's signature data
		if n := len(evSign); n > 0 {
			if sn, ok := evSign[n-1].snap.(sgSnap); ok && sn.cont.kind == 'S' && string(sn.sig) != string(gr.sig) {
				conv = 1
			}
		}
		impl = fmt.Sprintf("ok conv=%d used=%d", conv, len(seen))
	}

	// ---- oracle C12
	accepted := func(ev cliObsEv, x sgEx) string {
		if x.rt.fail {
			return "the round trip failed"
		}
		if x.rt.hdr != 1 || len(x.rt.items) != 1 {
			return fmt.Sprintf("header count %d, %d items", x.rt.hdr, len(x.rt.items))
		}
		it := x.rt.items[0]
		if it.status != 0 {
			return fmt.Sprintf("status 0x%X", it.status)
		}
		if len(ev.seen.ops) != 1 {
			return fmt.Sprintf("the request carried %d items", len(ev.seen.ops))
		}
		if want := (cliPl{kind: 'r', op: ev.seen.ops[0]}); it.pl != want {
			return "payload " + it.pl.String() + " for requested operation " + strconv.FormatUint(uint64(ev.seen.ops[0]), 10)
		}
		return ""
	}
	checkAll := func(what string, evs []cliObsEv, off int) {
		for i, ev := range evs {
			if why := accepted(ev, seen[off+i]); why != "" {
				cliViolate(ctx, "C12", "success-needs-conforming-exchanges", "signer:nonconforming-exchange-accepted",
					fmt.Sprintf("%s succeeded although exchange %d was not a conforming success response: %s", what, off+i, why), line)
			}
		}
	}
	lastFailed := func(what string, err error, evs []cliObsEv, off int) {
		if len(evs) == 0 {
			return
		}
		x := seen[off+len(evs)-1]
		if x.rt.fail || x.rt.hdr != 1 || len(x.rt.items) != 1 || x.rt.items[0].status == 0 {
			return
		}
		if miss := cliCarries(err.Error(), x.rt.items[0]); miss != "" {
			it := x.rt.items[0]
			cliViolate(ctx, "C12", "failed-item-surfaced", "signer:error-lacks-"+miss,
				fmt.Sprintf("%s: failed item (status 0x%X, reason 0x%X, message %q) is reported as %q", what, it.status, it.reason, it.msg, err.Error()), line)
		}
	}
	if pnSigner == "" {
		if sr.err == nil {
			checkAll("Signer", evSigner, 0)
			if len(evSigner) < 3 {
				cliViolate(ctx, "C12", "success-needs-conforming-exchanges", "signer:accepted-without-exchanges",
					fmt.Sprintf("Signer succeeded after %d exchanges (at least two GetAttributes and one Get are needed)", len(evSigner)), line)
			}
			if pnSign == "" {
				if gr.err == nil {
					checkAll("Sign", evSign, len(evSigner))
					if len(evSign) != 1 {
						cliViolate(ctx, "C12", "success-needs-conforming-exchanges", "signer:accepted-without-exchanges",
							fmt.Sprintf("Sign succeeded after %d exchanges", len(evSign)), line)
					} else if why := sgSignatureOK(gr.sig, evSign[0].snap, pubKey); why != "" {
						cliViolate(ctx, "C12", "payload-content", "sign:signature-altered", why, line)
					}
				} else {
					lastFailed("Sign", gr.err, evSign, len(evSigner))
				}
			}
		} else {
			lastFailed("Signer", sr.err, evSigner, 0)
		}
	}
	ctx.Add(line, impl, len(seen) > 0, "C12")
	ctx.Res.Count("resp.api=signer")
	ctx.Res.Count("resp.mode=" + mode)
	ctx.Res.Count("signer.ids=" + sc.ids)
	ctx.Res.Count("signer.opts=" + sc.opts.code)
	ctx.Res.Count("signer.outcome=" + strings.Join(strings.Fields(impl)[:2], "-"))
	// which (announced algorithm, key kind) pair reached the end of Signer's exchanges
	alg, key := "", ""
	for _, x := range seen {
		if x.cont.kind == 'A' && alg == "" {
			for _, a := range x.cont.attrs {
				if a.kind == 'G' && !a.foreign {
					alg = strconv.FormatUint(uint64(a.n), 10)
					break
				}
			}
		}
		if x.cont.kind == 'K' {
			key = x.cont.key
			if strings.HasPrefix(key, "e") {
				key = "e"
			}
		}
	}
	if key != "" {
		ctx.Res.Count("signer.alg-key=" + alg + "/" + key + "/" + mode)
	}
}

// sgSignatureOK: the returned signature is the server's, or its DER form for a raw ECDSA signature.
func sgSignatureOK(sig []byte, snap any, pub crypto.PublicKey) string {
	sn, ok := snap.(sgSnap)
	if !ok || sn.cont.kind != 'S' {
		return ""
	}
	pl := struct{ SignatureData []byte }{sn.sig}
	if string(sig) == string(pl.SignatureData) {
		return ""
	}
	ek, ok := pub.(*ecdsa.PublicKey)
	if !ok {
		return fmt.Sprintf("the signature returned (%d bytes) is not the server's signature data (%d bytes) although the key is a %T", len(sig), len(pl.SignatureData), pub)
	}
	n := (ek.Curve.Params().BitSize + 7) / 8
	if len(pl.SignatureData) != 2*n {
		return fmt.Sprintf("the signature returned differs from the server's %d bytes, which are not a raw r‖s pair for a %d-byte curve", len(pl.SignatureData), n)
	}
	var rs struct{ R, S *big.Int }
	rest, err := asn1.Unmarshal(sig, &rs)
	if err != nil || len(rest) != 0 {
		return "the converted signature is not an ASN.1 SEQUENCE of two INTEGERs"
	}
	if rs.R.Cmp(new(big.Int).SetBytes(pl.SignatureData[:n])) != 0 || rs.S.Cmp(new(big.Int).SetBytes(pl.SignatureData[n:])) != 0 {
		return "the converted signature does not hold the r and s of the server's raw signature"
	}
	return ""
}

// ---------------------------------------------------------------------------------------------
// generators

var (
	sgOTPub   = uint32(kmip.ObjectTypePublicKey)
	sgOTPriv  = uint32(kmip.ObjectTypePrivateKey)
	sgLnkPub  = uint32(kmip.LinkTypePublicKeyLink)
	sgLnkPriv = uint32(kmip.LinkTypePrivateKeyLink)
	sgSign    = uint32(kmip.CryptographicUsageSign)
	sgVerify  = uint32(kmip.CryptographicUsageVerify)
	sgAlgRSA  = uint32(kmip.CryptographicAlgorithmRSA)
	sgAlgEC   = uint32(kmip.CryptographicAlgorithmEC)
	sgAlgECDS = uint32(kmip.CryptographicAlgorithmECDSA)
	sgAlgAES  = uint32(kmip.CryptographicAlgorithmAES)
)

func sgOK(op uint32, c sgCont) sgEx {
	return sgEx{rt: cliRT{hdr: 1, items: []cliItem{{op: op, pl: cliPl{kind: 'r', op: op}}}}, cont: c}
}

// sgPrivAttrs / sgPubAttrs: the attributes of a consistent key pair of algorithm alg (0: not announced).
func sgPrivAttrs(alg uint32) []sgAttr {
	as := []sgAttr{{kind: 'T', n: sgOTPriv}}
	if alg != 0 {
		as = append(as, sgAttr{kind: 'G', n: alg})
	}
	return append(as, sgAttr{kind: 'L', n: sgLnkPub, hasID: true}, sgAttr{kind: 'M', n: sgSign})
}

func sgPubAttrs(alg uint32) []sgAttr {
	as := []sgAttr{{kind: 'T', n: sgOTPub}}
	if alg != 0 {
		as = append(as, sgAttr{kind: 'G', n: alg})
	}
	return append(as, sgAttr{kind: 'L', n: sgLnkPriv, hasID: true}, sgAttr{kind: 'M', n: sgVerify})
}

// sgBase is the script of a server answering consistently for the id mode.
func sgBase(ids string, algPriv, algPub uint32, key string, sig int) []sgEx {
	ga := func(as []sgAttr) sgEx { return sgOK(sgOpGetAttributes, sgCont{kind: 'A', attrs: as}) }
	var s []sgEx
	switch ids {
	case "p", "b":
		s = append(s, ga(sgPrivAttrs(algPriv)), ga(sgPubAttrs(algPub)))
	case "u":
		s = append(s, ga(sgPubAttrs(algPub)), ga(sgPrivAttrs(algPriv)))
	}
	return append(s, sgOK(cliOpGet, sgCont{kind: 'K', key: key}), sgOK(sgOpSign, sgCont{kind: 'S', sig: sig}))
}

func sgClone(s []sgEx) []sgEx {
	out := make([]sgEx, len(s))
	for i, e := range s {
		out[i] = e
		out[i].rt.items = append([]cliItem(nil), e.rt.items...)
		out[i].cont.attrs = append([]sgAttr(nil), e.cont.attrs...)
	}
	return out
}

// sgBadShapes: answers that are not a conforming success response of the requested operation.
func sgBadShapes(op uint32, inject bool) []cliRT {
	right := cliPl{kind: 'r', op: op}
	other := cliOpLocate
	out := []cliRT{
		{fail: true},
		{hdr: 1},
		{hdr: 0, items: []cliItem{{op: op, pl: right}}},
		{hdr: 2, items: []cliItem{{op: op, pl: right}}},
		{hdr: 2, items: []cliItem{{op: op, pl: right}, {op: op, pl: right}}},
		{hdr: 1, items: []cliItem{{op: op, status: 1, reason: 1, msg: "boom: x=1", pl: cliPl{kind: 'n'}}}},
		{hdr: 1, items: []cliItem{{op: op, status: 1, reason: 0x99, pl: right}}},
		{hdr: 1, items: []cliItem{{op: op, status: 2, reason: 0, msg: "later", pl: cliPl{kind: 'n'}}}},
		{hdr: 1, items: []cliItem{{op: op, status: 7, reason: 5, pl: cliPl{kind: 'n'}}}},
		{hdr: 1, items: []cliItem{{op: op, pl: cliPl{kind: 'n'}}}},
		{hdr: 1, items: []cliItem{{op: other, pl: cliPl{kind: 'r', op: other}}}},
		{hdr: 1, items: []cliItem{{op: cliOpUnknown, pl: cliPl{kind: 'u', op: cliOpUnknown}}}},
	}
	if inject {
		out = append(out,
			cliRT{hdr: 1, items: []cliItem{{op: op, pl: cliPl{kind: 'q', op: op}}}},
			cliRT{hdr: 1, items: []cliItem{{op: op, pl: cliPl{kind: 'u', op: op}}}},
			cliRT{hdr: 1, items: []cliItem{{op: op, pl: cliPl{kind: 'r', op: other}}}},
			cliRT{hdr: 1, items: []cliItem{{op: other, pl: right}}})
	}
	return out
}

func sgExchangeOp(ids string, i, n int) uint32 {
	switch {
	case i == n-1:
		return sgOpSign
	case i == n-2:
		return cliOpGet
	}
	return sgOpGetAttributes
}

func runSignerCases(env *respEnv) {
	ctx := env.ctx
	r := ctx.R
	h1 := func() sgOpts { return sgSignOpts(r, "h1") }
	algs := []uint32{sgAlgRSA, sgAlgEC, sgAlgECDS, 0}
	keys := []string{"r", "e28", "e32", "e48", "e66", "o", "x"}
	rawLen := map[string]int{"e28": 56, "e32": 64, "e48": 96, "e66": 132}
	for _, inject := range []bool{true, false} {
		// (a) announced algorithm x key material kind x id mode: consistent attributes, any key material
		for _, ids := range []string{"p", "u", "b"} {
			for _, alg := range algs {
				for _, key := range keys {
					sig := 70
					if n, ok := rawLen[key]; ok && r.Chance(1, 2) {
						sig = n
					}
					s := sgBase(ids, alg, alg, key, sig)
					s[len(s)-2].cont.flav = r.Intn(6)
					runSignerCase(env, sgCase{ids: ids, opts: h1(), script: s, inject: inject})
				}
			}
		}
		// no id at all: nothing is sent
		runSignerCase(env, sgCase{ids: "n", opts: h1(), script: sgBase("p", sgAlgRSA, sgAlgRSA, "r", 70), inject: inject})
		// (b) every exchange position x every non-conforming answer
		for _, ids := range []string{"p", "u", "b"} {
			base := sgBase(ids, sgAlgEC, sgAlgEC, "e32", 64)
			for i := range base {
				for _, bad := range sgBadShapes(sgExchangeOp(ids, i, len(base)), inject) {
					s := sgClone(base)
					s[i].rt = bad
					runSignerCase(env, sgCase{ids: ids, opts: h1(), script: s, inject: inject})
				}
				// the script ends here: the server closes the connection
				runSignerCase(env, sgCase{ids: ids, opts: h1(), script: sgClone(base)[:i], inject: inject})
			}
		}
		// (c) attribute variations, at each GetAttributes position
		type variation func(as []sgAttr, isPriv bool) []sgAttr
		replace := func(kind byte, with ...sgAttr) variation {
			return func(as []sgAttr, _ bool) []sgAttr {
				var out []sgAttr
				done := false
				for _, a := range as {
					if a.kind == kind && !done {
						out = append(out, with...)
						done = true
						continue
					}
					out = append(out, a)
				}
				if !done {
					out = append(out, with...)
				}
				return out
			}
		}
		variations := []variation{
			replace('T'), replace('T', sgAttr{kind: 'T', n: uint32(kmip.ObjectTypeSymmetricKey)}),
			func(as []sgAttr, isPriv bool) []sgAttr { // the object type of the OTHER key
				ot := sgOTPriv
				if isPriv {
					ot = sgOTPub
				}
				return replace('T', sgAttr{kind: 'T', n: ot})(as, isPriv)
			},
			replace('G'), replace('G', sgAttr{kind: 'G', n: sgAlgAES}), replace('G', sgAttr{kind: 'G', n: sgAlgRSA}),
			replace('G', sgAttr{kind: 'G', n: sgAlgECDS}), replace('G', sgAttr{kind: 'G', n: sgAlgEC}, sgAttr{kind: 'G', n: sgAlgRSA}),
			replace('G', sgAttr{kind: 'G', n: sgAlgEC}, sgAttr{kind: 'G', n: sgAlgEC}), replace('G', sgAttr{kind: 'G', n: 0}),
			replace('L'), replace('L', sgAttr{kind: 'L', n: sgLnkPub, hasID: true}), replace('L', sgAttr{kind: 'L', n: sgLnkPriv, hasID: true}),
			replace('L', sgAttr{kind: 'L', n: sgLnkPub}), replace('L', sgAttr{kind: 'L', n: sgLnkPriv}),
			replace('L', sgAttr{kind: 'L', n: uint32(kmip.LinkTypeCertificateLink), hasID: true}),
			replace('L', sgAttr{kind: 'L', n: sgLnkPub, hasID: true}, sgAttr{kind: 'L', n: sgLnkPub}),
			replace('L', sgAttr{kind: 'L', n: sgLnkPriv, hasID: true}, sgAttr{kind: 'L', n: sgLnkPriv}),
			replace('M'), replace('M', sgAttr{kind: 'M', n: 0}), replace('M', sgAttr{kind: 'M', n: sgSign}), replace('M', sgAttr{kind: 'M', n: sgVerify}),
			replace('M', sgAttr{kind: 'M', n: sgSign | sgVerify}), replace('M', sgAttr{kind: 'M', n: uint32(kmip.CryptographicUsageEncrypt)}),
			replace('M', sgAttr{kind: 'M', n: 0x80000000 | sgSign | sgVerify}),
			func(as []sgAttr, _ bool) []sgAttr { return nil },
			func(as []sgAttr, _ bool) []sgAttr {
				return append([]sgAttr{{kind: 'O'}}, append(as, sgAttr{kind: 'O'})...)
			},
			func(as []sgAttr, _ bool) []sgAttr { // reversed order
				out := make([]sgAttr, len(as))
				for i, a := range as {
					out[len(as)-1-i] = a
				}
				return out
			},
		}
		if inject {
			for _, k := range []byte{'T', 'G', 'L', 'M'} {
				variations = append(variations, replace(k, sgAttr{kind: k, foreign: true}))
			}
			// an untyped value AFTER an attribute that already makes the helper refuse
			variations = append(variations, func(as []sgAttr, _ bool) []sgAttr {
				return append([]sgAttr{{kind: 'G', n: sgAlgAES}}, sgAttr{kind: 'M', foreign: true})
			})
		}
		for _, ids := range []string{"p", "u", "b"} {
			for _, alg := range []uint32{sgAlgRSA, sgAlgEC} {
				key, sig := "r", 128
				if alg == sgAlgEC {
					key, sig = "e32", 64
				}
				base := sgBase(ids, alg, alg, key, sig)
				for i := 0; i < len(base)-2; i++ {
					isPriv := len(base[i].cont.attrs) > 0 && base[i].cont.attrs[0].n == sgOTPriv
					for _, v := range variations {
						s := sgClone(base)
						s[i].cont.attrs = v(s[i].cont.attrs, isPriv)
						runSignerCase(env, sgCase{ids: ids, opts: h1(), script: s, inject: inject})
					}
				}
			}
		}
		// (d) the caller's options and the signature length
		for _, code := range []string{"nil", "h0", "h1", "p00", "p01", "p10", "p11"} {
			for _, alg := range []uint32{sgAlgRSA, sgAlgEC, sgAlgECDS, 0} {
				key := "r"
				if alg == sgAlgEC || alg == sgAlgECDS {
					key = "e32"
				}
				runSignerCase(env, sgCase{ids: "p", opts: sgSignOpts(r, code), script: sgBase("p", alg, alg, key, 64), inject: inject})
			}
		}
		for _, key := range []string{"e28", "e32", "e48", "e66", "r"} {
			for _, sig := range []int{0, 1, 55, 56, 57, 63, 64, 65, 70, 72, 95, 96, 97, 128, 131, 132, 133, 256} {
				alg := sgAlgEC
				if r.Chance(1, 3) {
					alg = sgAlgECDS
				}
				if key == "r" && r.Chance(1, 2) {
					alg = sgAlgRSA
				}
				runSignerCase(env, sgCase{ids: rng.Pick(r, []string{"p", "u", "b"}), opts: h1(), script: sgBase("p", alg, alg, key, sig), inject: inject})
			}
		}
		// (e) random combinations
		codes := []string{"nil", "h0", "h1", "h1", "h1", "p01", "p10", "p11", "p11"}
		for k := 0; k < ctx.N(300, 6000); k++ {
			ids := rng.Pick(r, []string{"p", "u", "b"})
			key := rng.Pick(r, keys)
			s := sgBase(ids, rng.Pick(r, algs), rng.Pick(r, algs), key, rng.Pick(r, []int{0, 56, 64, 70, 96, 132}))
			s[len(s)-2].cont.flav = r.Intn(6)
			for m := r.Intn(3); m > 0; m-- {
				i := r.Intn(len(s))
				switch {
				case r.Chance(1, 2) && i < len(s)-2:
					isPriv := len(s[i].cont.attrs) > 0 && s[i].cont.attrs[0].n == sgOTPriv
					s[i].cont.attrs = rng.Pick(r, variations)(s[i].cont.attrs, isPriv)
				case r.Chance(1, 2):
					s[i].rt = rng.Pick(r, sgBadShapes(sgExchangeOp(ids, i, len(s)), inject))
				default:
					s = append(s[:i+1], s[i:]...) // an answer repeated: the next request gets the previous answer
				}
			}
			runSignerCase(env, sgCase{ids: ids, opts: sgSignOpts(r, rng.Pick(r, codes)), script: s, inject: inject})
		}
	}
	// coverage floors: every (announced algorithm, key kind) pair reached the Get exchange on both transports
	for _, mode := range []string{"wire", "inject"} {
		for _, alg := range []string{"4", "6", "26", ""} {
			for _, key := range []string{"r", "e", "o", "x"} {
				k := "signer.alg-key=" + alg + "/" + key + "/" + mode
				if ctx.Res.Distribution[k] == 0 {
					ctx.Res.Fail("resp: input class never exercised: " + k)
				}
			}
		}
	}
}

// sgReplay evaluates one `resp.signer` line (in-process transport).
func sgReplay(env *respEnv, f []string) {
	if len(f) != 4 {
		return
	}
	sc := sgCase{ids: f[1], inject: true}
	sc.opts = sgSignOpts(env.ctx.R, f[2])
	if f[3] != "-" {
		for _, es := range strings.Split(f[3], ";") {
			rts, cs, ok := strings.Cut(es, "~")
			if !ok {
				return
			}
			rt, err := cliParseRT(rts)
			if err != nil {
				return
			}
			c := sgCont{kind: '-'}
			switch {
			case strings.HasPrefix(cs, "A"):
				c.kind = 'A'
				if cs != "A" {
					for _, as := range strings.Split(cs[1:], ".") {
						a := sgAttr{kind: as[0]}
						switch {
						case as == "O":
						case strings.HasSuffix(as, "f"):
							a.foreign = true
						case a.kind == 'L':
							lt, id, _ := strings.Cut(as[1:], "x")
							n, _ := strconv.ParseUint(lt, 10, 32)
							a.n, a.hasID = uint32(n), id == "1"
						default:
							n, _ := strconv.ParseUint(as[1:], 10, 32)
							a.n = uint32(n)
						}
						c.attrs = append(c.attrs, a)
					}
				}
			case strings.HasPrefix(cs, "K"):
				c.kind, c.key = 'K', cs[1:]
			case strings.HasPrefix(cs, "S"):
				c.kind = 'S'
				c.sig, _ = strconv.Atoi(cs[1:])
			}
			sc.script = append(sc.script, sgEx{rt: rt, cont: c})
		}
	}
	runSignerCase(env, sc)
}
