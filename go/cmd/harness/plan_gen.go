package main

import (
	"fmt"
	"math/big"
	"reflect"
	"time"

	kmip "github.com/ovh/kmip-go"
	"github.com/ovh/kmip-go/payloads"
	"github.com/ovh/kmip-go/ttlv"

	"verifharness/internal/rng"
	"verifharness/internal/schema"
	"verifharness/internal/tree"
)

// popCfg steers the reflective populator.
type popCfg struct {
	r        *rng.R
	s        *schema.Schema
	fill     int // 0 = only required, 1 = random subset, 2 = everything
	textMode int // 0: arbitrary strings; 1: JSON-representable (valid UTF-8); 2: XML-representable
	depth    int
	// respectGating: populate a version-gated field only when the header's version (ver) is in range,
	// i.e. generate messages that are well-formed at their own protocol version.
	respectGating bool
	ver           *kmip.ProtocolVersion
	extTags       bool // opaque generic trees use extension-range tags only
	// strGen, when set, replaces the built-in text string generator (the text engine draws from a wider alphabet
	// and longer lengths); nil = the built-in one, whose random stream the other engines depend on.
	strGen func() string

	// --- used by the plan engine only; the zero values keep the generator (and its random stream) as before ---
	// size: 0 small (slices <= 3, strings <= 11 runes, byte strings <= 19 bytes, big integers <= 300 bits);
	// 1 medium (slices/batches up to 16, strings and byte strings up to 300 bytes, big integers up to 4096 bits);
	// 2 large (slices/batches 17..200, strings and byte strings up to 70000 bytes, big integers up to 65536 bits),
	// within budget so that one message stays below ~1 MiB.
	size   int
	budget int
	// cyc: enumerated choices (operation, object type, key format, attribute name, credential type) are taken
	// round-robin across the run instead of at random, so that every registered one is reached by construction.
	cyc *cycler
	// note: coverage counter hook (what was actually populated).
	note func(string)
	// wideVersions: header versions beyond 1.0..1.4 (majors/minors up to 11, negative components).
	wideVersions bool

	// directed coverage (nil = random): the operation of the FIRST batch item of the message is
	// Ops[*opSeq mod #ops]; standard attribute names are taken in turn (*attrSeq is advanced)
	opSeq   *int
	attrSeq *int
	opUsed  bool
	// forceVer: the header's protocol version (the first ProtocolVersion populated) is this one
	forceVer *kmip.ProtocolVersion
}

// cycler hands out round-robin indices per choice class.
type cycler struct{ n map[string]int }

func (c *cycler) next(class string, mod int) int {
	if c.n == nil {
		c.n = map[string]int{}
	}
	i := c.n[class]
	c.n[class] = i + 1
	return i % mod
}

func (p *popCfg) count(key string) {
	if p.note != nil {
		p.note(key)
	}
}

// pick: index below n for an enumerated choice of the given class.
func (p *popCfg) pick(class string, n int) int {
	if p.cyc != nil {
		return p.cyc.next(class, n)
	}
	return p.r.Intn(n)
}

func (p *popCfg) spend(n int) bool {
	if p.budget >= n {
		p.budget -= n
		return true
	}
	return false
}

// seqLen: number of elements of a populated slice / batch (>= 1).
func (p *popCfg) seqLen() int {
	r := p.r
	n := 1 + r.Intn(3)
	switch p.size {
	case 1:
		if r.Chance(1, 3) {
			n = 4 + r.Intn(13)
		}
	case 2:
		if r.Chance(1, 3) {
			if m := 17 + r.Intn(184); p.spend(m) {
				n = m
			}
		} else if r.Chance(1, 3) {
			n = 4 + r.Intn(13)
		}
	}
	return n
}

func lenBucket(n int) string {
	switch {
	case n == 0:
		return "0"
	case n <= 3:
		return "1-3"
	case n <= 16:
		return "4-16"
	default:
		return "17+"
	}
}

func sizeBucket(n int) string {
	switch {
	case n < 20:
		return "<20"
	case n < 300:
		return "20-299"
	case n < 4096:
		return "300-4095"
	default:
		return "4096+"
	}
}

// dataLen: length of a populated string / byte string for the size levels >= 1 (-1: use the small generator).
func (p *popCfg) dataLen() int {
	r := p.r
	switch p.size {
	case 1:
		if r.Chance(1, 4) {
			return 12 + r.Intn(289)
		}
	case 2:
		if r.Chance(1, 6) {
			n := rng.Pick(r, []int{300, 511, 512, 513, 4095, 4096, 4097, 8191, 8192, 8193, 65535, 65536, 65537, 70000})
			n += r.Intn(3) - 1
			if r.Bool() {
				n = 300 + r.Intn(20000)
			}
			if p.spend(n/64 + 1) {
				return n
			}
		} else if r.Chance(1, 4) {
			return 12 + r.Intn(289)
		}
	}
	return -1
}

// fillOthers populates reflectively every exported, encodable field of the struct v that is not listed in
// handled: the hand-written populators below set the fields their codecs know; a field added to such a struct
// later is then populated (and must round-trip) without anyone touching this file.
func (p *popCfg) fillOthers(v reflect.Value, handled ...string) {
	t := v.Type()
next:
	for i := 0; i < t.NumField(); i++ {
		f := t.Field(i)
		if !f.IsExported() {
			continue
		}
		if tag, _ := f.Tag.Lookup("ttlv"); tag == "-" {
			continue
		}
		for _, h := range handled {
			if h == f.Name {
				continue next
			}
		}
		if p.gatedOut(t, f.Name) {
			continue
		}
		p.count("other-field." + t.Name() + "." + f.Name)
		p.populate(v.Field(i))
	}
}

// pickOp: the registered operation of the next generated batch item (directed: the FIRST item of the message
// takes Ops[*opSeq mod #ops]; otherwise round-robin or random per class, see pick).
func (p *popCfg) pickOp(class string) schema.OpEntry {
	if p.opSeq != nil && !p.opUsed {
		p.opUsed = true
		n := len(p.s.Ops)
		return p.s.Ops[((*p.opSeq)%n+n)%n]
	}
	return p.s.Ops[p.pick(class, len(p.s.Ops))]
}

func (p *popCfg) gatedOut(t reflect.Type, fieldName string) bool {
	if !p.respectGating || p.ver == nil {
		return false
	}
	id, ok := p.s.StructIDOf(t)
	if !ok {
		return false
	}
	for _, f := range p.s.Structs[id].Fields {
		if f.GoName != fieldName || !f.HasRange {
			continue
		}
		lt := func(aMaj, aMin, bMaj, bMin int) bool { return aMaj < bMaj || (aMaj == bMaj && aMin < bMin) }
		vMaj, vMin := int(p.ver.ProtocolVersionMajor), int(p.ver.ProtocolVersionMinor)
		if f.HasStart && lt(vMaj, vMin, f.StartMajor, f.StartMinor) {
			return true
		}
		if f.HasEnd && lt(f.EndMajor, f.EndMinor, vMaj, vMin) {
			return true
		}
	}
	return false
}

var tTime = reflect.TypeFor[time.Time]()
var tDuration = reflect.TypeFor[time.Duration]()
var tBigInt = reflect.TypeFor[big.Int]()
var tValue = reflect.TypeFor[ttlv.Value]()
var tTStruct = reflect.TypeFor[ttlv.Struct]()

var keyFormats = []kmip.KeyFormatType{
	kmip.KeyFormatTypeRaw, kmip.KeyFormatTypeOpaque, kmip.KeyFormatTypePKCS_1, kmip.KeyFormatTypePKCS_8, kmip.KeyFormatTypeX_509,
	kmip.KeyFormatTypeECPrivateKey, kmip.KeyFormatTypeTransparentSymmetricKey, kmip.KeyFormatTypeTransparentRSAPrivateKey,
	kmip.KeyFormatTypeTransparentRSAPublicKey, kmip.KeyFormatTypeTransparentECDSAPrivateKey, kmip.KeyFormatTypeTransparentECDSAPublicKey,
	kmip.KeyFormatTypeTransparentECPrivateKey, kmip.KeyFormatTypeTransparentECPublicKey,
}

func (p *popCfg) want() bool {
	switch p.fill {
	case 0:
		return false
	case 2:
		return true
	}
	return p.r.Bool()
}

func (p *popCfg) genString() string {
	if p.strGen != nil {
		return p.strGen()
	}
	r := p.r
	if p.size > 0 {
		if n := p.dataLen(); n >= 0 {
			b := make([]byte, n)
			for i := range b {
				b[i] = byte('a' + r.Intn(26))
			}
			// a few multi-byte runes and markup characters, still n bytes of valid UTF-8
			for k := 0; k+4 < n && k < 40; k += 9 {
				copy(b[k:], rng.Pick(r, []string{"é", "€", "<", "&", "ß"}))
			}
			if p.textMode == 0 && r.Chance(1, 4) {
				// a Go string is a byte sequence: invalid UTF-8 and NUL travel unchanged in binary TTLV
				b[r.Intn(n)] = rng.Pick(r, []byte{0xFF, 0xC0, 0x80, 0x00})
				p.count("text.invalid-utf8")
			}
			p.count("text." + sizeBucket(n))
			return string(b)
		}
	}
	n := r.Intn(12)
	if r.Chance(1, 6) {
		n = 0
	}
	if p.want() && n == 0 {
		n = 1 + r.Intn(5)
	}
	var rs []rune
	for i := 0; i < n; i++ {
		switch r.Intn(8) {
		case 0:
			rs = append(rs, rune(0x20+r.Intn(0x5F))) // printable ASCII incl. markup characters
		case 1:
			rs = append(rs, rng.Pick(r, []rune{'<', '>', '&', '"', '\'', '\\', '/', ' ', 'é', 'ß', '€', '漢', '😀'}))
		case 2:
			if p.textMode != 2 {
				rs = append(rs, rune(r.Intn(0x20))) // control characters
			} else {
				rs = append(rs, rng.Pick(r, []rune{'\t', '\n', '\r', 'x'}))
			}
		default:
			rs = append(rs, rune('a'+r.Intn(26)))
		}
	}
	return string(rs)
}

func (p *popCfg) genTime() time.Time {
	t := p.genInstant()
	if p.cyc != nil {
		// plan engine: the same instant in various zones (the wire format carries the instant only); no random draw
		zones := []*time.Location{time.UTC, time.FixedZone("+0530", 19800), time.Local, time.FixedZone("-0930", -34200)}
		t = t.In(zones[p.cyc.next("time.zone", len(zones))])
	}
	return t
}

func (p *popCfg) genInstant() time.Time {
	r := p.r
	if p.size > 0 && r.Chance(1, 6) {
		// whole seconds over the full int64 range of the wire format (years far outside 1..9999)
		p.count("date.extreme")
		return time.Unix(rng.Pick(r, []int64{1 << 62, -(1 << 62), 1<<63 - 1, -(1 << 63), 253402300800, -62135596801, 1 << 32, -(1 << 31) - 1}), 0)
	}
	switch r.Intn(4) {
	case 0:
		return time.Unix(int64(r.Intn(2000000000)), 0)
	case 1:
		return time.Unix(rng.Pick(r, []int64{0, 1, -1, 253402300799, -62135596800, 4102444800, 951782400}), 0)
	default:
		// years 1..9999
		return time.Unix(-62135596800+int64(r.U64()%315537897600), 0)
	}
}

// populate fills v (settable) with a random conforming value of its type.
func (p *popCfg) populate(v reflect.Value) {
	t := v.Type()
	r := p.r
	p.depth++
	defer func() { p.depth-- }()
	// special cases first
	switch x := v.Addr().Interface().(type) {
	case *kmip.RequestBatchItem:
		p.popRequestItem(x)
		return
	case *kmip.ResponseBatchItem:
		p.popResponseItem(x)
		return
	case *kmip.Attribute:
		p.popAttribute(x)
		return
	case *kmip.Credential:
		p.popCredential(x)
		return
	case *kmip.KeyBlock:
		p.popKeyBlock(x)
		return
	case *payloads.GetResponsePayload:
		x.ObjectType, x.Object = p.genObject()
		x.UniqueIdentifier = p.genString()
		p.fillOthers(v, "ObjectType", "Object", "UniqueIdentifier")
		return
	case *payloads.RegisterRequestPayload:
		x.ObjectType, x.Object = p.genObject()
		p.populate(reflect.ValueOf(&x.TemplateAttribute).Elem())
		p.fillOthers(v, "ObjectType", "Object", "TemplateAttribute")
		return
	case *payloads.ExportResponsePayload:
		x.ObjectType, x.Object = p.genObject()
		x.UniqueIdentifier = p.genString()
		p.populate(reflect.ValueOf(&x.Attribute).Elem())
		p.fillOthers(v, "ObjectType", "Object", "UniqueIdentifier", "Attribute")
		return
	case *payloads.ImportRequestPayload:
		x.UniqueIdentifier = p.genString()
		x.ReplaceExisting = p.want()
		if p.want() {
			x.KeyWrapType = kmip.KeyWrapType(1 + r.Intn(2))
		}
		var ot kmip.ObjectType
		ot, x.Object = p.genObject()
		// the decoder finds the object's type in the first "Object Type" attribute
		n := r.Intn(3)
		if p.size > 0 && r.Bool() {
			n = p.seqLen()
		}
		for i := 0; i < n; i++ {
			var a kmip.Attribute
			p.popAttribute(&a)
			if a.AttributeName != kmip.AttributeNameObjectType {
				x.Attribute = append(x.Attribute, a)
			}
		}
		x.Attribute = append(x.Attribute, kmip.Attribute{AttributeName: kmip.AttributeNameObjectType, AttributeValue: ot})
		if p.cyc != nil && len(x.Attribute) > 1 {
			// plan engine: the Object Type attribute stands at every position of the list in turn (first, middle, last)
			at := p.cyc.next("import.objtype-pos", len(x.Attribute))
			last := len(x.Attribute) - 1
			ota := x.Attribute[last]
			copy(x.Attribute[at+1:], x.Attribute[at:last])
			x.Attribute[at] = ota
			switch {
			case at == 0:
				p.count("import.objtype.first")
			case at < last:
				p.count("import.objtype.middle")
			}
		}
		p.count("slice." + lenBucket(len(x.Attribute)))
		p.fillOthers(v, "UniqueIdentifier", "ReplaceExisting", "KeyWrapType", "Attribute", "Object")
		return
	case *kmip.UnknownPayload:
		*x = *kmip.NewUnknownPayload(x.Operation(), p.genTTLVStruct()...)
		return
	case *kmip.RequestMessage:
		p.populate(reflect.ValueOf(&x.Header).Elem())
		n := 1 + r.Intn(3)
		if r.Chance(1, 10) {
			n = 0
		}
		if p.size > 0 {
			n = p.seqLen()
		}
		p.count("batch.req." + lenBucket(n))
		x.BatchItem = nil
		for i := 0; i < n; i++ {
			var bi kmip.RequestBatchItem
			p.popRequestItem(&bi)
			x.BatchItem = append(x.BatchItem, bi)
		}
		x.Header.BatchCount = int32(n)
		p.fillOthers(v, "Header", "BatchItem")
		return
	case *kmip.ResponseMessage:
		p.populate(reflect.ValueOf(&x.Header).Elem())
		n := 1 + r.Intn(3)
		if p.size > 0 {
			n = p.seqLen()
		}
		p.count("batch.resp." + lenBucket(n))
		x.BatchItem = nil
		for i := 0; i < n; i++ {
			var bi kmip.ResponseBatchItem
			p.popResponseItem(&bi)
			x.BatchItem = append(x.BatchItem, bi)
		}
		x.Header.BatchCount = int32(n)
		p.fillOthers(v, "Header", "BatchItem")
		return
	case *kmip.ProtocolVersion:
		x.ProtocolVersionMajor = 1
		x.ProtocolVersionMinor = int32(r.Intn(5))
		if r.Chance(1, 12) {
			x.ProtocolVersionMajor = int32(r.Intn(3))
			x.ProtocolVersionMinor = int32(r.Intn(7))
		}
		if p.wideVersions && r.Chance(1, 10) {
			// beyond the specified versions: two-digit components (a textual "1.10" < "1.9" comparison would show),
			// major >= 3, and negative components (the Go fields are int32)
			x.ProtocolVersionMajor = rng.Pick(r, []int32{1, 1, 2, 3, 9, 10, 11, -1})
			x.ProtocolVersionMinor = rng.Pick(r, []int32{0, 5, 7, 9, 10, 11, 100, -1})
		}
		if p.ver == nil && p.forceVer != nil {
			*x = *p.forceVer
		}
		if p.ver == nil {
			v := *x
			p.ver = &v // the first ProtocolVersion populated is the header's
			if x.ProtocolVersionMajor == 1 && x.ProtocolVersionMinor >= 0 && x.ProtocolVersionMinor <= 4 {
				p.count(fmt.Sprintf("ver.1.%d", x.ProtocolVersionMinor))
			} else {
				p.count("ver.other")
			}
		}
		return
	}
	switch t {
	case tTime:
		v.Set(reflect.ValueOf(p.genTime()))
		return
	case tDuration:
		v.SetInt(int64(time.Duration(uint32(r.U64())>>uint(r.Intn(32))) * time.Second))
		return
	case tBigInt:
		bits := 300
		if p.size == 1 && r.Chance(2, 3) {
			bits = 4096
		} else if p.size == 2 {
			bits = 4096
			if p.spend(40) {
				bits = 65536
			}
		}
		b := tree.GenBig(r, bits)
		if p.size > 0 {
			p.count("big.bits." + sizeBucket(b.BitLen()))
		}
		v.Set(reflect.ValueOf(*b))
		return
	case tValue:
		v.Set(reflect.ValueOf(toValue(tree.Gen(r, p.treeOpts(), 1))))
		return
	case tTStruct:
		v.Set(reflect.ValueOf(ttlv.Struct(p.genTTLVStruct())))
		return
	}
	if ttlv.VerifIsEnum(t) {
		v.SetUint(uint64(p.genEnum(t)))
		return
	}
	if ttlv.VerifIsBitmask(t) {
		switch r.Intn(6) {
		case 0:
			v.SetInt(int64(int32(1) << uint(r.Intn(32)))) // single flag, bit 31 included
		case 1:
			v.SetInt(int64(r.Intn(0x100000)))
		case 2:
			v.SetInt(int64(rng.Pick(r, []int32{0, -1, -2147483648, 0x7FFFFFFF, 1, 0x000FFFFF}))) // zero, all bits, high bit
		default:
			v.SetInt(int64(int32(r.U64()))) // any 32-bit pattern, unnamed bits included
		}
		return
	}
	switch t.Kind() {
	case reflect.Int8, reflect.Int16, reflect.Int32:
		if r.Bool() {
			v.SetInt(rng.Pick(r, int32Edges))
		} else {
			v.SetInt(int64(int32(r.U64())))
		}
		if p.want() && v.Int() == 0 {
			v.SetInt(7)
		}
	case reflect.Int64:
		v.SetInt(int64(r.U64()) >> uint(r.Intn(64)))
		if r.Chance(1, 4) {
			v.SetInt(-v.Int())
		}
	case reflect.Uint8, reflect.Uint16, reflect.Uint32:
		v.SetUint(uint64(r.Intn(200)))
	case reflect.Bool:
		v.SetBool(r.Bool() || p.fill == 2)
	case reflect.String:
		v.SetString(p.genString())
	case reflect.Slice:
		if t.Elem().Kind() == reflect.Uint8 {
			if p.want() || r.Bool() {
				n := r.Intn(20)
				if p.fill == 2 && n == 0 {
					n = 3
				}
				if p.size > 0 {
					if m := p.dataLen(); m >= 0 {
						n = m
					}
					p.count("bytes." + sizeBucket(n))
				}
				v.SetBytes(r.Bytes(n))
			}
			return
		}
		n := 0
		if p.want() && p.depth < 12 {
			n = 1 + r.Intn(3)
			if p.size > 0 {
				n = p.seqLen()
			}
		}
		if p.size > 0 || p.note != nil {
			p.count("slice." + lenBucket(n))
		}
		sl := reflect.MakeSlice(t, 0, n)
		for i := 0; i < n; i++ {
			e := reflect.New(t.Elem()).Elem()
			p.populate(e)
			sl = reflect.Append(sl, e)
		}
		if n > 0 {
			v.Set(sl)
		}
	case reflect.Pointer:
		if p.want() && p.depth < 12 {
			e := reflect.New(t.Elem())
			p.populate(e.Elem())
			v.Set(e)
		}
	case reflect.Struct:
		for i := 0; i < t.NumField(); i++ {
			f := t.Field(i)
			if !f.IsExported() {
				continue
			}
			if tag, _ := f.Tag.Lookup("ttlv"); tag == "-" {
				continue
			}
			if p.gatedOut(t, f.Name) {
				continue
			}
			p.populate(v.Field(i))
			// a generic ttlv.Value held in a tagged field travels under the field's tag
			if id, ok := p.s.StructIDOf(t); ok {
				for _, sf := range p.s.Structs[id].Fields {
					if sf.GoName != f.Name || sf.Tag == 0 {
						continue
					}
					switch fv := v.Field(i).Addr().Interface().(type) {
					case **ttlv.Value:
						if *fv != nil {
							(*fv).Tag = sf.Tag
						}
					case *ttlv.Value:
						fv.Tag = sf.Tag
					}
				}
			}
		}
	case reflect.Interface:
		// only reachable through special-cased parents
	default:
		panic(fmt.Sprintf("populate: unsupported type %s", t))
	}
}

var int32Edges = []int64{0, 1, -1, 127, 128, -128, 255, 256, 32767, -32768, 65535, 2147483647, -2147483648}

func (p *popCfg) genEnum(t reflect.Type) uint32 {
	r := p.r
	tag, _ := ttlv.VerifTagForType(t)
	var vals []uint32
	for v := range ttlv.EnumValuesByTag(tag) {
		vals = append(vals, v)
	}
	switch {
	case len(vals) > 0 && r.Chance(5, 6):
		// map iteration order is random: sort-free deterministic pick by minimum distance to a random target
		target := uint32(r.Intn(len(vals) + 2))
		best := vals[0]
		for _, x := range vals {
			if absDiff(x, target) < absDiff(best, target) || (absDiff(x, target) == absDiff(best, target) && x < best) {
				best = x
			}
		}
		return best
	case r.Bool():
		return uint32(0x80000000) + uint32(r.Intn(16)) // extension range
	default:
		return uint32(r.U64())
	}
}

func absDiff(a, b uint32) uint32 {
	if a > b {
		return a - b
	}
	return b - a
}

// treeOpts: shape of the opaque generic trees (ttlv.Value / ttlv.Struct fields, custom attributes, unknown payloads).
func (p *popCfg) treeOpts() tree.GenOpts {
	o := tree.GenOpts{MaxDepth: 2, MaxChildren: 3, MaxData: 12, MaxBigBits: 100, TextMode: p.textMode, ExtTags: p.extTags}
	if p.size > 0 && p.r.Chance(1, 3) && p.spend(20) {
		o.MaxDepth, o.MaxChildren, o.MaxData, o.MaxBigBits = 4, 8, 400, 2048
	}
	return o
}

func (p *popCfg) genTTLVStruct() []ttlv.Value {
	n := p.r.Intn(4)
	if p.size > 0 && p.r.Chance(1, 4) {
		n = p.seqLen()
	}
	var out []ttlv.Value
	for i := 0; i < n; i++ {
		out = append(out, toValue(tree.Gen(p.r, p.treeOpts(), 1)))
	}
	return out
}

func (p *popCfg) genObject() (kmip.ObjectType, kmip.Object) {
	objs := p.s.Objects
	o := objs[p.pick("object", len(objs))]
	p.count(fmt.Sprintf("object.%d", o.ObjectType))
	obj, err := kmip.NewObjectForType(kmip.ObjectType(o.ObjectType))
	if err != nil {
		panic(err)
	}
	p.populate(reflect.ValueOf(obj).Elem())
	return kmip.ObjectType(o.ObjectType), obj
}

func (p *popCfg) popRequestItem(x *kmip.RequestBatchItem) {
	r := p.r
	*x = kmip.RequestBatchItem{}
	directed := p.opSeq != nil && !p.opUsed
	if !directed && r.Chance(1, 8) {
		// operation unknown to the library: opaque payload
		op := kmip.Operation(0x2C + r.Intn(20))
		if r.Bool() {
			op = kmip.Operation(uint32(r.U64()) | 0x100)
		}
		op = p.unregisteredOp("op.req.unregistered", op)
		pl := kmip.NewUnknownPayload(op, p.genTTLVStruct()...)
		x.Operation, x.RequestPayload = op, pl
		p.count("op.req.unknown")
	} else {
		op := p.pickOp("op.req")
		pl := kmip.VerifNewRequestPayload(kmip.Operation(op.Op))
		p.populate(reflect.ValueOf(pl).Elem())
		x.Operation, x.RequestPayload = kmip.Operation(op.Op), pl
		p.count(fmt.Sprintf("op.req.%d", op.Op))
	}
	if p.want() {
		x.UniqueBatchItemID = r.Bytes(1 + r.Intn(8))
	}
	if p.want() {
		x.MessageExtension = &kmip.MessageExtension{VendorIdentification: p.genString(), CriticalityIndicator: r.Bool(), VendorExtension: p.genTTLVStruct()}
		p.count("msgext.req")
	}
	p.fillOthers(reflect.ValueOf(x).Elem(), "Operation", "UniqueBatchItemID", "RequestPayload", "MessageExtension")
}

// unregisteredOp (plan engine only; no random draw): every other unknown operation is a STANDARD operation code
// for which the library registers no payload type (a gap of the registry below its highest code), in turn.
func (p *popCfg) unregisteredOp(class string, op kmip.Operation) kmip.Operation {
	if p.cyc == nil {
		return op
	}
	known := map[uint32]bool{}
	top := uint32(0)
	for _, o := range p.s.Ops {
		known[uint32(o.Op)] = true
		top = max(top, uint32(o.Op))
	}
	var gaps []uint32
	for c := uint32(1); c < top; c++ {
		if !known[c] {
			gaps = append(gaps, c)
		}
	}
	k := p.cyc.next(class, 2*len(gaps)+1)
	if k%2 == 0 || len(gaps) == 0 {
		return op
	}
	p.count(fmt.Sprintf("op.gap.%d", gaps[k/2]))
	return kmip.Operation(gaps[k/2])
}

func (p *popCfg) popResponseItem(x *kmip.ResponseBatchItem) {
	r := p.r
	*x = kmip.ResponseBatchItem{}
	directed := p.opSeq != nil && !p.opUsed
	failed := !directed && r.Chance(1, 4)
	if !directed && r.Chance(1, 8) {
		op := kmip.Operation(0x2C + r.Intn(20))
		op = p.unregisteredOp("op.resp.unregistered", op)
		x.Operation = op
		if !failed {
			x.ResponsePayload = kmip.NewUnknownPayload(op, p.genTTLVStruct()...)
			p.count("op.resp.unknown")
		}
	} else if !(failed && r.Chance(1, 3)) {
		op := p.pickOp("op.resp")
		x.Operation = kmip.Operation(op.Op)
		if !failed {
			pl := kmip.VerifNewResponsePayload(kmip.Operation(op.Op))
			p.populate(reflect.ValueOf(pl).Elem())
			x.ResponsePayload = pl
			p.count(fmt.Sprintf("op.resp.%d", op.Op))
		}
	}
	if failed {
		x.ResultStatus = kmip.ResultStatus(1 + r.Intn(3))
		x.ResultReason = kmip.ResultReason(p.genEnum(reflect.TypeFor[kmip.ResultReason]()))
		x.ResultMessage = p.genString()
	} else if r.Chance(1, 10) {
		x.ResultReason = kmip.ResultReason(1 + r.Intn(10))
	}
	if p.want() {
		x.UniqueBatchItemID = r.Bytes(1 + r.Intn(8))
	}
	if p.want() && r.Chance(1, 3) {
		x.AsynchronousCorrelationValue = r.Bytes(1 + r.Intn(8))
	}
	if p.want() {
		x.MessageExtension = &kmip.MessageExtension{VendorIdentification: p.genString(), CriticalityIndicator: r.Bool(), VendorExtension: p.genTTLVStruct()}
		p.count("msgext.resp")
	}
	if failed {
		p.count("resp.failed")
	}
	p.fillOthers(reflect.ValueOf(x).Elem(), "Operation", "UniqueBatchItemID", "ResultStatus", "ResultReason", "ResultMessage",
		"AsynchronousCorrelationValue", "ResponsePayload", "MessageExtension")
}

func (p *popCfg) popAttribute(x *kmip.Attribute) {
	r := p.r
	*x = kmip.Attribute{}
	switch {
	case r.Chance(1, 8): // custom attribute: any TTLV value
		x.AttributeName = kmip.AttributeName(rng.Pick(r, []string{"x-", "y-"}) + p.genString())
		av := toValue(tree.Gen(r, p.treeOpts(), 1))
		av.Tag = kmip.TagAttributeValue // a generic value travels under the Attribute Value tag
		x.AttributeValue = av
		p.count("attr.custom")
	case r.Chance(1, 12): // name unknown to the library
		x.AttributeName = kmip.AttributeName("Vendor " + p.genString())
		av := toValue(tree.Gen(r, p.treeOpts(), 1))
		av.Tag = kmip.TagAttributeValue
		x.AttributeValue = av
		p.count("attr.unknown")
	default:
		a := p.s.Attrs[p.pick("attr", len(p.s.Attrs))]
		if p.attrSeq != nil {
			a = p.s.Attrs[*p.attrSeq%len(p.s.Attrs)]
			*p.attrSeq++
		}
		p.count("attr.name." + a.Name)
		x.AttributeName = kmip.AttributeName(a.Name)
		var ty reflect.Type
		for _, at := range kmip.VerifDumpAttrTypes() {
			if string(at.Name) == a.Name {
				ty = at.Type
			}
		}
		val := reflect.New(ty).Elem()
		p.populate(val)
		x.AttributeValue = val.Interface()
	}
	if p.want() {
		i := int32(r.Intn(5))
		x.AttributeIndex = &i
		p.count("attr.index")
	}
	p.fillOthers(reflect.ValueOf(x).Elem(), "AttributeName", "AttributeIndex", "AttributeValue")
}

func (p *popCfg) popCredential(x *kmip.Credential) {
	_ = p.r
	*x = kmip.Credential{}
	ct := p.pick("credential", 3)
	p.count(fmt.Sprintf("credential.%d", ct+1))
	defer p.fillOthers(reflect.ValueOf(x).Elem(), "CredentialType", "CredentialValue")
	switch ct {
	case 0:
		x.CredentialType = kmip.CredentialTypeUsernameAndPassword
		x.CredentialValue.UserPassword = &kmip.CredentialValueUserPassword{}
		p.populate(reflect.ValueOf(x.CredentialValue.UserPassword).Elem())
	case 1:
		x.CredentialType = kmip.CredentialTypeDevice
		x.CredentialValue.Device = &kmip.CredentialValueDevice{}
		p.populate(reflect.ValueOf(x.CredentialValue.Device).Elem())
	case 2:
		x.CredentialType = kmip.CredentialTypeAttestation
		x.CredentialValue.Attestation = &kmip.CredentialValueAttestation{}
		p.populate(reflect.ValueOf(x.CredentialValue.Attestation).Elem())
	}
}

func (p *popCfg) popKeyBlock(x *kmip.KeyBlock) {
	r := p.r
	*x = kmip.KeyBlock{}
	x.KeyFormatType = keyFormats[p.pick("keyfmt", len(keyFormats))]
	defer p.fillOthers(reflect.ValueOf(x).Elem(), "KeyFormatType", "KeyCompressionType", "KeyValue", "CryptographicAlgorithm", "CryptographicLength", "KeyWrappingData")
	if p.want() {
		x.KeyCompressionType = kmip.KeyCompressionType(1 + r.Intn(4))
	}
	if p.want() {
		x.CryptographicAlgorithm = kmip.CryptographicAlgorithm(1 + r.Intn(30))
	}
	if p.want() {
		x.CryptographicLength = int32(1 + r.Intn(4096))
	}
	if p.want() && p.depth < 10 {
		x.KeyWrappingData = &kmip.KeyWrappingData{}
		p.populate(reflect.ValueOf(x.KeyWrappingData).Elem())
	}
	if r.Chance(1, 8) {
		p.count("keyfmt.no-value")
		return // metadata only: no key value
	}
	kv := &kmip.KeyValue{}
	x.KeyValue = kv
	if r.Chance(1, 5) {
		n := r.Intn(24)
		if p.size > 0 {
			if m := p.dataLen(); m >= 0 {
				n = m
			}
		}
		b := r.Bytes(n)
		kv.Wrapped = &b
		p.count("keyfmt.wrapped")
		return
	}
	p.count(fmt.Sprintf("keyfmt.plain.%d", uint32(x.KeyFormatType)))
	kv.Plain = &kmip.PlainKeyValue{}
	km := &kv.Plain.KeyMaterial
	switch x.KeyFormatType {
	case kmip.KeyFormatTypeTransparentSymmetricKey:
		km.TransparentSymmetricKey = &kmip.TransparentSymmetricKey{}
		p.populate(reflect.ValueOf(km.TransparentSymmetricKey).Elem())
	case kmip.KeyFormatTypeTransparentRSAPrivateKey:
		km.TransparentRSAPrivateKey = &kmip.TransparentRSAPrivateKey{}
		p.populate(reflect.ValueOf(km.TransparentRSAPrivateKey).Elem())
	case kmip.KeyFormatTypeTransparentRSAPublicKey:
		km.TransparentRSAPublicKey = &kmip.TransparentRSAPublicKey{}
		p.populate(reflect.ValueOf(km.TransparentRSAPublicKey).Elem())
	case kmip.KeyFormatTypeTransparentECDSAPrivateKey:
		km.TransparentECDSAPrivateKey = &kmip.TransparentECDSAPrivateKey{}
		p.populate(reflect.ValueOf(km.TransparentECDSAPrivateKey).Elem())
	case kmip.KeyFormatTypeTransparentECDSAPublicKey:
		km.TransparentECDSAPublicKey = &kmip.TransparentECDSAPublicKey{}
		p.populate(reflect.ValueOf(km.TransparentECDSAPublicKey).Elem())
	case kmip.KeyFormatTypeTransparentECPrivateKey:
		km.TransparentECPrivateKey = &kmip.TransparentECPrivateKey{}
		p.populate(reflect.ValueOf(km.TransparentECPrivateKey).Elem())
	case kmip.KeyFormatTypeTransparentECPublicKey:
		km.TransparentECPublicKey = &kmip.TransparentECPublicKey{}
		p.populate(reflect.ValueOf(km.TransparentECPublicKey).Elem())
	default:
		n := r.Intn(40)
		if p.size > 0 {
			if m := p.dataLen(); m >= 0 {
				n = m
			}
			p.count("bytes." + sizeBucket(n))
		}
		b := r.Bytes(n)
		km.Bytes = &b
	}
	if p.want() && p.depth < 8 {
		n := 1 + r.Intn(2)
		if p.size > 0 {
			n = p.seqLen()
		}
		p.count("keyattrs." + lenBucket(n))
		for i := 0; i < n; i++ {
			var a kmip.Attribute
			p.popAttribute(&a)
			kv.Plain.Attribute = append(kv.Plain.Attribute, a)
		}
	}
}
