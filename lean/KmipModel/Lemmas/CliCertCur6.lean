/-
  Certificate obligations, parts 48..55 of 64 of the `current` client system (kernel evaluation; 8 modules
  so that lake checks them in parallel; small parts keep the kernel's memory small).
  Assembled in `Lemmas/CliCert.lean`.
-/
import KmipModel.Model.CliConn
import KmipModel.Gen.CertCliConn
namespace Kmip.CliCert
open Kmip.CliLts Kmip.CliConn Kmip.Gen.CertCliConn

theorem cuClosed48 : partClosed (sys current) codec certCurrent cuP48 = true := by decide +kernel
theorem cuSafe48 : partSafe codec (badPartial current) cuP48 = true := by decide +kernel
theorem cuClosed49 : partClosed (sys current) codec certCurrent cuP49 = true := by decide +kernel
theorem cuSafe49 : partSafe codec (badPartial current) cuP49 = true := by decide +kernel
theorem cuClosed50 : partClosed (sys current) codec certCurrent cuP50 = true := by decide +kernel
theorem cuSafe50 : partSafe codec (badPartial current) cuP50 = true := by decide +kernel
theorem cuClosed51 : partClosed (sys current) codec certCurrent cuP51 = true := by decide +kernel
theorem cuSafe51 : partSafe codec (badPartial current) cuP51 = true := by decide +kernel
theorem cuClosed52 : partClosed (sys current) codec certCurrent cuP52 = true := by decide +kernel
theorem cuSafe52 : partSafe codec (badPartial current) cuP52 = true := by decide +kernel
theorem cuClosed53 : partClosed (sys current) codec certCurrent cuP53 = true := by decide +kernel
theorem cuSafe53 : partSafe codec (badPartial current) cuP53 = true := by decide +kernel
theorem cuClosed54 : partClosed (sys current) codec certCurrent cuP54 = true := by decide +kernel
theorem cuSafe54 : partSafe codec (badPartial current) cuP54 = true := by decide +kernel
theorem cuClosed55 : partClosed (sys current) codec certCurrent cuP55 = true := by decide +kernel
theorem cuSafe55 : partSafe codec (badPartial current) cuP55 = true := by decide +kernel

end Kmip.CliCert
