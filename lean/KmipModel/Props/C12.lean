/-
  C12 — the client turns every protocol-violating server response into an error.

  Model: `Model/ClientResp.lean` (`BatchOpt`, `Request`, `Executor.ExecContext`, `BatchResult.Unwrap`,
  `ResponseBatchItem.Err`, `EnumStr`) and `Model/Negotiate.lean` (`negotiateVersion`, the discovery
  exchange of `Dial`). Every statement quantifies over EVERY abstract response: any header count
  (negative included), any number of items, any operation / status / reason codes (unknown values
  included), any message, payload absent or of any Go type.

  History: before /repo commit 3ff9e72 the statement was FALSE of `Batch…Unwrap` — `BatchOpt` only compared
  counts, so a successful item without payload, or carrying the payload of another operation, was handed
  to the caller as success (`old_batch_*` below, about the explicit OLD variant `batchUnwrapOld`). With the
  per-item check now in `BatchOpt` the full statement `C12_batch_full` is proved (`batch_full`).
-/
import KmipModel.Lemmas.ClientRespLemmas
import KmipModel.Lemmas.NegoLemmas
import KmipModel.Lemmas.ClientSignerLemmas
namespace Kmip.C12
open Kmip.Resp

/-! ### 1. no client call panics -/

theorem request_never_panics (t : Tables) (reqOp : Nat) (rt : RoundTrip) : request t reqOp rt ≠ .panic :=
  request_ne_panic t reqOp rt

theorem exec_never_panics (t : Tables) (reqOp : Nat) (buildOk : Bool) (rt : RoundTrip) :
    exec t reqOp buildOk rt ≠ .panic :=
  exec_ne_panic t reqOp buildOk rt

theorem batch_never_panics (t : Tables) (reqOps : List Nat) (rt : RoundTrip) :
    batchUnwrap t reqOps rt ≠ .panic :=
  batchUnwrap_ne_panic t reqOps rt

theorem discovery_never_panics (t : Tables) (C : List Ver) (rt : RoundTrip) : Nego.negotiate t C rt ≠ .panic :=
  Nego.negotiate_ne_panic t C rt

/-! ### 2. success means: the payload type of the requested operation -/

/-- `Client.Request`: success exactly on a well-formed one-item success response whose payload belongs to
    the requested operation; that payload is what is returned. -/
theorem request_ok (t : Tables) (reqOp : Nat) (rt : RoundTrip) (p : Payload) :
    request t reqOp rt = .ok p ↔
      ∃ bi, rt = .msg 1 [bi] ∧ bi.status = statusSuccess ∧ bi.payload = some p ∧ p.operation = reqOp :=
  request_ok_iff t reqOp rt p

/-- For every response a server can put on the wire, `Request` returns the response type registered
    for the requested operation (an `UnknownPayload` of that operation when none is registered), or an
    error. -/
theorem request_result (reg : List Nat) (t : Tables) (reqOp : Nat) (rt : RoundTrip) (hw : WireShaped reg rt) :
    request t reqOp rt = .ok (respKind reg reqOp) ∨ ∃ e, request t reqOp rt = .err e := by
  cases h : request t reqOp rt with
  | panic => exact absurd h (request_ne_panic t reqOp rt)
  | err e => exact .inr ⟨e, rfl⟩
  | ok p =>
    refine .inl ?_
    obtain ⟨bi, hrt, _, hp, hop⟩ := (request_ok_iff t reqOp rt p).1 h
    subst hrt
    have hk := (hw bi (List.mem_cons_self ..) p hp).2
    have hbo : bi.op = reqOp := by
      rw [hk] at hop
      unfold respKind at hop
      split at hop <;> exact hop
    rw [hk, hbo]

/-- Every typed `Exec` (`Executor[Req, Resp].ExecContext`), for EVERY response — wire-shaped or
    fabricated in-process: the response type of the requested operation, or an error. -/
theorem exec_result (t : Tables) (reqOp : Nat) (buildOk : Bool) (rt : RoundTrip) :
    exec t reqOp buildOk rt = .ok (.resp reqOp) ∨ ∃ e, exec t reqOp buildOk rt = .err e := by
  cases h : exec t reqOp buildOk rt with
  | panic => exact absurd h (exec_ne_panic t reqOp buildOk rt)
  | err e => exact .inr ⟨e, rfl⟩
  | ok p => rw [((exec_ok_iff t reqOp buildOk rt p).1 h).2.1]; exact .inl rfl

theorem exec_ok (t : Tables) (reqOp : Nat) (buildOk : Bool) (rt : RoundTrip) (p : Payload) :
    exec t reqOp buildOk rt = .ok p ↔
      (buildOk = true ∧ p = .resp reqOp ∧
        ∃ bi, rt = .msg 1 [bi] ∧ bi.status = statusSuccess ∧ bi.payload = some (.resp reqOp)) :=
  exec_ok_iff t reqOp buildOk rt p

/-- never `ok` of another operation. -/
theorem never_ok_of_another_operation (t : Tables) (reqOp : Nat) (rt : RoundTrip) (p : Payload)
    (hp : p.operation ≠ reqOp) :
    request t reqOp rt ≠ .ok p ∧ exec t reqOp true rt ≠ .ok p := by
  constructor
  · intro h
    obtain ⟨_, _, _, _, hop⟩ := (request_ok_iff t reqOp rt p).1 h
    exact hp hop
  · intro h
    have := ((exec_ok_iff t reqOp true rt p).1 h).2.1
    rw [this] at hp
    exact hp rfl

/-- non-vacuity: a conforming answer is accepted. -/
example : exec pinnedTables 0x12 true
    (.msg 1 [{ op := 0x12, status := 0, reason := 0, msg := [], payload := some (.resp 0x12) }]) =
    .ok (.resp 0x12) := by decide

example : WireShaped pinnedOps
    (.msg 1 [{ op := 0x12, status := 0, reason := 0, msg := [], payload := some (.resp 0x12) }]) := by
  intro bi hbi p hp
  simp only [List.mem_cons, List.not_mem_nil, or_false] at hbi
  subst hbi
  simp only [Option.some.injEq] at hp
  subst hp
  decide

/-! ### 3. each class of violation is an error -/

/-- wrong header count or wrong number of items. -/
theorem wrong_counts (t : Tables) (reqOp : Nat) (h : Int) (items : List Item) (hc : h ≠ 1 ∨ items.length ≠ 1) :
    request t reqOp (.msg h items) = .err .countMismatch ∧
    exec t reqOp true (.msg h items) = .err .countMismatch :=
  ⟨request_counts t reqOp h items hc, exec_err_of_request _ _ _ _ (request_counts t reqOp h items hc)⟩

/-- success item without payload. -/
theorem missing_payload (t : Tables) (reqOp : Nat) (bi : Item) (hs : bi.status = statusSuccess)
    (hp : bi.payload = none) :
    request t reqOp (.msg 1 [bi]) = .err (.joined [.missingAt 0]) ∧
    exec t reqOp true (.msg 1 [bi]) = .err (.joined [.missingAt 0]) :=
  ⟨request_missing t reqOp bi hs hp, exec_err_of_request _ _ _ _ (request_missing t reqOp bi hs hp)⟩

/-- success item carrying the payload of another operation. -/
theorem foreign_payload (t : Tables) (reqOp : Nat) (bi : Item) (p : Payload) (hs : bi.status = statusSuccess)
    (hp : bi.payload = some p) (hop : p.operation ≠ reqOp) :
    request t reqOp (.msg 1 [bi]) =
      .err (.joined [.wrongOperationAt (enumStr t.ops p.operation) (enumStr t.ops reqOp) 0]) ∧
    exec t reqOp true (.msg 1 [bi]) =
      .err (.joined [.wrongOperationAt (enumStr t.ops p.operation) (enumStr t.ops reqOp) 0]) :=
  ⟨request_foreign t reqOp bi p hs hp hop, exec_err_of_request _ _ _ _ (request_foreign t reqOp bi p hs hp hop)⟩

/-- a payload of the right operation but not of its response type (an `UnknownPayload`, a request
    payload) fails the type assertion of the typed call. -/
theorem wrong_go_type (t : Tables) (reqOp : Nat) (bi : Item) (p : Payload) (hs : bi.status = statusSuccess)
    (hp : bi.payload = some p) (hop : p.operation = reqOp) (hty : p ≠ .resp reqOp) :
    exec t reqOp true (.msg 1 [bi]) = .err .wrongType := by
  have : request t reqOp (.msg 1 [bi]) = .ok p := (request_ok_iff _ _ _ _).2 ⟨bi, rfl, hs, hp, hop⟩
  simp [exec, this, hty]

/-- A failed item — any status other than Success (OperationFailed, Pending, Undone, unknown values), any
    reason (unknown values included), any operation field, payload or not — is returned as an error
    built from the item's operation, status, reason and message. -/
theorem failed_item (t : Tables) (reqOp : Nat) (bi : Item) (hs : bi.status ≠ statusSuccess) :
    request t reqOp (.msg 1 [bi]) =
      .err (.item (enumStr t.ops bi.op) (enumStr t.status bi.status) (enumStr t.reasons bi.reason) bi.msg) ∧
    exec t reqOp true (.msg 1 [bi]) =
      .err (.item (enumStr t.ops bi.op) (enumStr t.status bi.status) (enumStr t.reasons bi.reason) bi.msg) :=
  ⟨request_failed t reqOp bi hs, exec_err_of_request _ _ _ _ (request_failed t reqOp bi hs)⟩

/-- The error value determines the server's status, reason and message: `EnumStr` renders a registered
    value by its name and any other value by its hex form, and no two values share a name. -/
theorem failed_item_error_determines (t : Tables) (hst : NameInj t.status) (hre : NameInj t.reasons)
    (reqOp reqOp' : Nat) (bi bi' : Item) (hs : bi.status ≠ statusSuccess) (hs' : bi'.status ≠ statusSuccess)
    (h : request t reqOp (.msg 1 [bi]) = request t reqOp' (.msg 1 [bi'])) :
    bi.status = bi'.status ∧ bi.reason = bi'.reason ∧ bi.msg = bi'.msg := by
  rw [request_failed t reqOp bi hs, request_failed t reqOp' bi' hs'] at h
  simp only [Res.err.injEq, Err.item.injEq] at h
  exact ⟨enumStr_inj hst h.2.1, enumStr_inj hre h.2.2.1, h.2.2.2⟩

/-- the registries of the current tree have no repeated name. -/
theorem std_tables_injective :
    NameInj stdTables.status ∧ NameInj stdTables.reasons ∧ NameInj stdTables.ops :=
  ⟨liveStatus_inj, liveReasons_inj, liveOps_inj⟩

/-- unknown enumeration values are rendered in hex, known ones by name. -/
example : request pinnedTables 0x12 (.msg 1 [{ op := 0x12, status := 7, reason := 0x99, msg := [104, 105], payload := none }]) =
    .err (.item (.name 4711737631466157157) (.hex 7) (.hex 0x99) [104, 105]) := by decide +kernel

example : request pinnedTables 0x12 (.msg 1 [{ op := 0, status := 1, reason := 1, msg := [], payload := none }]) =
    .err (.item (.hex 0) (.name 412471119143380974025018302853309796) (.name 22733120087395224772922404452) []) := by
  decide +kernel

/-! ### 4. batches -/

/-- `Batch` / `BatchOpt` / `.Then(…).Exec()` followed by `Unwrap`, for every response. The call succeeds
    exactly when the header count and the number of items equal the number of requested operations and
    every successful item carries a payload of the operation requested at its position (`Conforms`); the
    payloads come back positionally; the joined error of `Unwrap` lists exactly the `Err()` of the
    non-successful items, in order. -/
theorem batch_ok (t : Tables) (reqOps : List Nat) (rt : RoundTrip) (ps : List (Option Payload)) (es : List Err) :
    batchUnwrap t reqOps rt = .ok (ps, es) ↔
      ∃ items, rt = .msg (items.length : Int) items ∧ Conforms items reqOps ∧
        ps = items.map (·.payload) ∧ es = items.filterMap (·.err t) := by
  rw [batchUnwrap_ok_iff]
  constructor
  · intro ⟨items, h1, h2, h3⟩
    refine ⟨items, h1, h2, ?_, ?_⟩
    · rw [← unwrap_fst t items, ← h3]
    · rw [← unwrap_snd t items, ← h3]
  · intro ⟨items, h1, h2, h3, h4⟩
    refine ⟨items, h1, h2, ?_⟩
    rw [h3, h4, ← unwrap_fst t items, ← unwrap_snd t items]

theorem batch_wrong_counts (t : Tables) (reqOps : List Nat) (h : Int) (items : List Item)
    (hc : h ≠ (items.length : Int) ∨ items.length ≠ reqOps.length) :
    batchUnwrap t reqOps (.msg h items) = .err .countMismatch := by
  simp [batchUnwrap, batchOpt_err t reqOps h items hc]

/-- right counts, but some successful item has no payload or the payload of another operation than the
    one requested at its position: the whole response is refused … -/
theorem batch_violation_refused (t : Tables) (reqOps : List Nat) (items : List Item)
    (hl : items.length = reqOps.length) (hn : ¬ Conforms items reqOps) :
    ∃ es, batchUnwrap t reqOps (.msg (items.length : Int) items) = .err (.joined es) := by
  obtain ⟨es, he⟩ := batchOpt_refuses t reqOps items hl hn
  exact ⟨es, by simp [batchUnwrap, he]⟩

/-- … and the error still carries status, reason and message of every failed item. -/
theorem batch_refused_reports_failed_items (t : Tables) (reqOps : List Nat) (rt : RoundTrip) (es : List ItemErr)
    (h : batchUnwrap t reqOps rt = .err (.joined es)) :
    ∀ hc items, rt = .msg hc items → ∀ bi, bi ∈ items → bi.status ≠ statusSuccess →
      ItemErr.item (enumStr t.ops bi.op) (enumStr t.status bi.status) (enumStr t.reasons bi.reason) bi.msg ∈ es := by
  have hb : batchOpt t reqOps rt = .err (.joined es) := by
    unfold batchUnwrap at h
    cases hb : batchOpt t reqOps rt with
    | ok items => rw [hb] at h; cases h
    | panic => rw [hb] at h; cases h
    | err e => rw [hb] at h; simpa using h
  obtain ⟨hc, items, hrt, _, _, hrep⟩ := batchOpt_joined t reqOps rt es hb
  intro hc' items' heq
  rw [hrt] at heq
  cases heq
  exact hrep

/-- every failed item of an accepted batch is surfaced by `Unwrap`, with its status, reason and message. -/
theorem batch_failed_item_surfaced (t : Tables) (reqOps : List Nat) (rt : RoundTrip)
    (ps : List (Option Payload)) (es : List Err) (h : batchUnwrap t reqOps rt = .ok (ps, es)) :
    (es = [] ↔ ∀ h' items, rt = .msg h' items → ∀ bi, bi ∈ items → bi.status = statusSuccess) ∧
    ∀ h' items, rt = .msg h' items → ∀ bi, bi ∈ items → bi.status ≠ statusSuccess →
      Err.item (enumStr t.ops bi.op) (enumStr t.status bi.status) (enumStr t.reasons bi.reason) bi.msg ∈ es := by
  obtain ⟨items, hrt, _, _, hes⟩ := (batch_ok t reqOps rt ps es).1 h
  subst hrt
  constructor
  · rw [hes, ← unwrap_snd, unwrap_no_error_iff]
    constructor
    · intro hall h' its heq
      cases heq
      exact hall
    · intro hall; exact hall _ _ rfl
  · intro h' its heq bi hbi hs
    cases heq
    rw [hes, List.mem_filterMap]
    exact ⟨bi, hbi, Item.err_of_failed t bi hs⟩

/-- The property as stated, for batches: an accepted batch without error returns, at each position, the
    response type of the operation requested at that position. -/
def C12_batch_full (reg : List Nat) : Prop :=
  ∀ (t : Tables) (reqOps : List Nat) (rt : RoundTrip) (ps : List (Option Payload)),
    WireShaped reg rt → batchUnwrap t reqOps rt = .ok (ps, []) →
      ps = reqOps.map (fun o => some (respKind reg o))

/-- … holds of the current code, for every registry, every batch length and every response. -/
theorem batch_full (reg : List Nat) : C12_batch_full reg := by
  intro t reqOps rt ps hw h
  obtain ⟨items, hrt, hconf, hps, hes⟩ := (batch_ok t reqOps rt ps []).1 h
  subst hrt
  have hall : ∀ bi, bi ∈ items → bi.status = statusSuccess := by
    rw [← unwrap_no_error_iff t, unwrap_snd, ← hes]
  rw [hps]
  exact conforms_payloads reg items reqOps hconf hall (fun bi hbi p hp => hw bi hbi p hp)

/-- without any assumption on the shape (responses fabricated in-process included): payloads of the
    requested operations, position by position — never a payload of another operation, never nil. -/
theorem batch_operations (t : Tables) (reqOps : List Nat) (rt : RoundTrip) (ps : List (Option Payload))
    (h : batchUnwrap t reqOps rt = .ok (ps, [])) : PayloadsOf ps reqOps := by
  obtain ⟨items, hrt, hconf, hps, hes⟩ := (batch_ok t reqOps rt ps []).1 h
  have hall : ∀ bi, bi ∈ items → bi.status = statusSuccess := by
    rw [← unwrap_no_error_iff t, unwrap_snd, ← hes]
  rw [hps]
  exact conforms_operations items reqOps hconf hall

/-- non-vacuity: a conforming two-item answer is accepted. -/
example : batchUnwrap pinnedTables [0x12, 0x14]
    (.msg 2 [{ op := 0x12, status := 0, reason := 0, msg := [], payload := some (.resp 0x12) },
             { op := 0x14, status := 0, reason := 0, msg := [], payload := some (.resp 0x14) }]) =
    .ok ([some (.resp 0x12), some (.resp 0x14)], []) := by decide

/-- the two former counterexamples are now refused; a failed item next to the violation is still reported. -/
example : batchUnwrap pinnedTables [0x12]
    (.msg 1 [{ op := 0x12, status := 0, reason := 0, msg := [], payload := none }]) =
    .err (.joined [.missingAt 0]) := by decide

example : batchUnwrap pinnedTables [0x12, 0x14]
    (.msg 2 [{ op := 0x12, status := 1, reason := 0x99, msg := [104], payload := none },
             { op := 0xA, status := 0, reason := 0, msg := [], payload := some (.resp 0xA) }]) =
    .err (.joined [.item (.name 4711737631466157157) (.name 412471119143380974025018302853309796) (.hex 0x99) [104],
                   .wrongOperationAt (.name 4679028) (.name 19251844965625721) 1]) := by decide +kernel

/-! #### what commit 3ff9e72 repaired: the OLD `BatchOpt` (counts only) -/

/-- OLD code, counterexample 1: Activate requested; one successful item WITHOUT payload was accepted,
    `Unwrap` returned `[nil], nil`. -/
theorem old_batch_missing_payload_accepted (t : Tables) :
    batchUnwrapOld t [0x12] (.msg 1 [{ op := 0x12, status := 0, reason := 0, msg := [], payload := none }]) =
      .ok ([none], []) := by
  simp [batchUnwrapOld, batchOptOld, unwrap, Item.err, statusSuccess]

/-- OLD code, counterexample 2: Activate requested; a successful Get item with a Get response payload was
    accepted, `Unwrap` returned the Get payload without error. -/
theorem old_batch_foreign_payload_accepted (t : Tables) :
    batchUnwrapOld t [0x12] (.msg 1 [{ op := 0xA, status := 0, reason := 0, msg := [], payload := some (.resp 0xA) }]) =
      .ok ([some (.resp 0xA)], []) := by
  simp [batchUnwrapOld, batchOptOld, unwrap, Item.err, statusSuccess]

/-- the full statement was false of the OLD code, whatever the registry. -/
theorem old_batch_full_false (reg : List Nat) :
    ¬ ∀ (t : Tables) (reqOps : List Nat) (rt : RoundTrip) (ps : List (Option Payload)),
      WireShaped reg rt → batchUnwrapOld t reqOps rt = .ok (ps, []) →
        ps = reqOps.map (fun o => some (respKind reg o)) := by
  intro h
  have := h stdTables [0x12] (.msg 1 [{ op := 0x12, status := 0, reason := 0, msg := [], payload := none }]) [none]
    (by intro bi hbi p hp
        simp only [List.mem_cons, List.not_mem_nil, or_false] at hbi
        subst hbi
        simp at hp)
    (old_batch_missing_payload_accepted stdTables)
  simp at this

/-! ### 5. the discovery exchange of `Dial` -/

/-- `Dial` adopts a version only from a one-item response (header count 1) that is either the
    "operation not supported" failure (fallback to 1.0 when configured) or a success carrying a
    DiscoverVersions RESPONSE payload; every other response — wrong counts, failures, missing payload,
    payload of another operation or type — is an error, never a panic. -/
theorem discovery_ok (t : Tables) (C : List Ver) (rt : RoundTrip) (v : Ver) (h : Nego.negotiate t C rt = .ok v) :
    ∃ bi, rt = .msg 1 [bi] ∧
      ((bi.status = statusFailed ∧ bi.reason = reasonNotSupported ∧ v = Nego.v10 ∧ Nego.v10 ∈ C) ∨
       (bi.status = statusSuccess ∧ bi.payload = some (.resp opDiscover) ∧ v ∈ bi.vers ∧ v ∈ C)) := by
  obtain ⟨bi, hrt, hc⟩ := Nego.negotiate_ok t C rt v h
  refine ⟨bi, hrt, ?_⟩
  rcases hc with hc | ⟨_, hs, hp, hm⟩
  · exact .inl hc
  · exact .inr ⟨hs, hp, hm.2.1, hm.1⟩

theorem discovery_wrong_counts (t : Tables) (C : List Ver) (h : Int) (items : List Item)
    (hc : h ≠ 1 ∨ items.length ≠ 1) : Nego.negotiate t C (.msg h items) = .err .negoCount :=
  Nego.negotiate_counts t C h items hc

theorem discovery_failed_item (t : Tables) (C : List Ver) (bi : Item) (hs : bi.status ≠ statusSuccess)
    (hn : ¬ (bi.status = statusFailed ∧ bi.reason = reasonNotSupported)) :
    Nego.negotiate t C (.msg 1 [bi]) =
      .err (.item (enumStr t.ops bi.op) (enumStr t.status bi.status) (enumStr t.reasons bi.reason) bi.msg) := by
  rw [Nego.negotiate_msg_one]
  simp [Nego.negotiateItem, hn, Item.err, hs]

theorem discovery_bad_payload (t : Tables) (C : List Ver) (bi : Item) (hs : bi.status = statusSuccess)
    (hp : bi.payload ≠ some (.resp opDiscover)) :
    Nego.negotiate t C (.msg 1 [bi]) = .err .negoPayload := by
  cases h : Nego.negotiate t C (.msg 1 [bi]) with
  | panic => exact absurd h (Nego.negotiate_ne_panic t C _)
  | ok v =>
    obtain ⟨bi', hrt, hc⟩ := Nego.negotiate_ok t C _ v h
    simp only [RoundTrip.msg.injEq, List.cons.injEq, and_true, true_and] at hrt
    subst hrt
    rcases hc with ⟨h1, _⟩ | ⟨_, _, h3, _⟩
    · rw [hs] at h1; cases h1
    · exact absurd h3 hp
  | err e =>
    rw [Nego.negotiate_msg_one] at h
    unfold Nego.negotiateItem at h
    have hns : ¬ (bi.status = statusFailed ∧ bi.reason = reasonNotSupported) := by
      intro ⟨h1, _⟩; rw [hs] at h1; cases h1
    rw [if_neg hns, (Item.err_eq_none t bi).2 hs] at h
    simp only at h
    split at h
    · rename_i heq; exact absurd heq hp
    · exact h ▸ rfl

/-! ### 6. the composite helper `Client.Signer` / `cryptoSigner.Sign` (kmipclient/sign_verify.go)

  The only code of kmipclient/*.go outside client.go that interprets the CONTENT of response payloads.
  The server is a script (the list of its answers to the successive requests), universally quantified.
  `Signer.WireTyped script`: every attribute value has the Go type belonging to its attribute name — what
  the wire decoder guarantees for any server. `Variant` says which type assertions the code checks;
  `Signer.currentCode` is the tree under verification. -/

open Kmip.Signer in
/-- The property for the helper: against every server, neither `Signer` nor a following `Sign` panics. -/
def C12_signer_full (v : Signer.Variant) : Prop :=
  ∀ (t : Tables) (priv pub : Bool) (o : Signer.SignOpts) (script : List Signer.Answer), Signer.WireTyped script →
    Signer.signerThenSign v t priv pub o script ≠ .signerPanic ∧
    Signer.signerThenSign v t priv pub o script ≠ .signPanic

/-- the witness: a server whose two GetAttributes answers announce an EC key pair while its Get answer
    carries an RSA public key (four accepted responses of the requested operations). -/
def signerWitness : List Signer.Answer :=
  let okItem (op : Nat) : RoundTrip := .msg 1 [{ op := op, status := 0, reason := 0, msg := [], payload := some (.resp op) }]
  [ { rt := okItem 0xB, attrs := [.objectType (some 4), .alg (some 0x1A), .link (some (0x102, true)), .mask (some 1)] },
    { rt := okItem 0xB, attrs := [.objectType (some 3), .alg (some 0x1A), .mask (some 2)] },
    { rt := okItem 0xA, key := some .rsa },
    { rt := okItem 0x21, sigLen := 3 } ]

theorem signerWitness_wireTyped : Signer.WireTyped signerWitness := by
  intro a ha x hx
  simp only [signerWitness, List.mem_cons, List.not_mem_nil, or_false] at ha
  rcases ha with rfl | rfl | rfl | rfl <;> simp at hx <;> (try rcases hx with rfl | rfl | rfl | rfl) <;>
    (try rcases hx with rfl | rfl | rfl) <;> rfl

/-- with the unchecked assertion of `Sign` (`c.publicKey.(*ecdsa.PublicKey)`), `Signer` accepts the
    inconsistent answers and `Sign` panics. -/
theorem signer_unchecked_witness :
    Signer.signerThenSign Signer.unchecked pinnedTables true false (.hash true) signerWitness = .signPanic := by
  decide

/-- `C12_signer_full` is FALSE of the unchecked variant … -/
theorem signer_unchecked_full_false : ¬ C12_signer_full Signer.unchecked := by
  intro h
  exact (h pinnedTables true false (.hash true) signerWitness signerWitness_wireTyped).2 signer_unchecked_witness

/-- … which was the code before the repair of finding `sign:ecdsa-key-assertion-panic`; the tree under
    verification has the checked assertions. -/
theorem signer_current_code : Signer.currentCode = Signer.checked := rfl

/-- `Signer` itself never panics against a real server, in either variant … -/
theorem signer_never_panics_on_wire (v : Signer.Variant) (t : Tables) (priv pub : Bool) (script : List Signer.Answer)
    (hw : Signer.WireTyped script) : Signer.signer v t priv pub script ≠ .panic :=
  Signer.signer_ne_panic v t priv pub script (.inr hw)

/-- … and `Sign` panics EXACTLY when nothing checks the key kind, the Sign response is accepted, the
    attributes announced EC / ECDSA and the key material is not an ECDSA key. -/
theorem sign_panics_iff (v : Signer.Variant) (t : Tables) (s : Signer.SignerVal) (o : Signer.SignOpts)
    (script : List Signer.Answer) :
    Signer.sign v t s o script = .panic ↔
      (v.checkedKey = false ∧ Signer.signPre s.alg o = true ∧ Signer.Accepted Signer.opSign (Signer.nextAnswer script).1 ∧
        (s.alg = Signer.algEC ∨ s.alg = Signer.algECDSA) ∧ ∀ n, s.key ≠ .ecdsa n) :=
  Signer.sign_panic_iff v t s o script

/-- With checked assertions (the code since /repo 83126bc: `signer_current_code`) the helper never panics, for EVERY script — responses
    fabricated in-process, with attribute values of foreign Go types, included. -/
theorem signer_checked_never_panics (t : Tables) (priv pub : Bool) (o : Signer.SignOpts) (script : List Signer.Answer) :
    Signer.signerThenSign Signer.checked t priv pub o script ≠ .signerPanic ∧
    Signer.signerThenSign Signer.checked t priv pub o script ≠ .signPanic := by
  unfold Signer.signerThenSign
  cases hs : Signer.signer Signer.checked t priv pub script with
  | panic => exact absurd hs (Signer.signer_ne_panic _ t priv pub script (.inl rfl))
  | err e => simp
  | ok r =>
    obtain ⟨s, rest⟩ := r
    simp only
    cases hg : Signer.sign Signer.checked t s o rest with
    | panic => exact absurd hg (Signer.sign_ne_panic_of_checked _ t s o rest rfl)
    | err e => simp
    | ok c => simp

theorem signer_checked_full : C12_signer_full Signer.checked :=
  fun t priv pub o script _ => signer_checked_never_panics t priv pub o script

/-- the full statement holds of the tree under verification. -/
theorem C12_signer_full_holds : C12_signer_full Signer.currentCode := signer_checked_full

/-- `Signer` succeeds only when EVERY exchange it made was accepted — two GetAttributes
    responses, then one Get response, each a single successful item carrying the response payload of the
    requested operation — and the key material was parsed (checked variant: and is of the announced kind). -/
theorem signer_ok_only_from_accepted (v : Signer.Variant) (t : Tables) (priv pub : Bool) (script : List Signer.Answer)
    (s : Signer.SignerVal) (rest : List Signer.Answer) (h : Signer.signer v t priv pub script = .ok (s, rest)) :
    ∃ gas g, script = gas ++ g :: rest ∧ gas.length = 2 ∧
      (∀ a ∈ gas, Signer.Accepted Signer.opGetAttributes a) ∧ Signer.Accepted Signer.opGet g ∧ g.key = some s.key ∧
      (v.checkedKey = true → Signer.keyMatches s.alg s.key = true) :=
  Signer.signer_ok v t priv pub script s rest h

/-- a signature is only returned from an accepted Sign response. -/
theorem sign_ok_only_from_accepted (v : Signer.Variant) (t : Tables) (s : Signer.SignerVal) (o : Signer.SignOpts)
    (script : List Signer.Answer) (c : Bool) (h : Signer.sign v t s o script = .ok c) :
    Signer.signPre s.alg o = true ∧ Signer.Accepted Signer.opSign (Signer.nextAnswer script).1 :=
  Signer.sign_ok v t s o script c h

/-- a failed item in answer to the Sign request is returned as an error carrying status, reason, message. -/
theorem sign_failed_item (v : Signer.Variant) (t : Tables) (s : Signer.SignerVal) (o : Signer.SignOpts)
    (a : Signer.Answer) (rest : List Signer.Answer) (bi : Item) (hpre : Signer.signPre s.alg o = true)
    (hrt : a.rt = .msg 1 [bi]) (hs : bi.status ≠ statusSuccess) :
    Signer.sign v t s o (a :: rest) =
      .err (.exec (.item (enumStr t.ops bi.op) (enumStr t.status bi.status) (enumStr t.reasons bi.reason) bi.msg)) :=
  Signer.sign_failed v t s o a rest bi hpre hrt hs

/-- non-vacuity: consistent answers (EC attributes, P-256 key, raw 64-byte signature) give a converted
    signature; an RSA pair gives the signature as is. -/
example : Signer.signerThenSign Signer.unchecked pinnedTables true false (.hash true)
    [ signerWitness[0]!, signerWitness[1]!, { signerWitness[2]! with key := some (.ecdsa 32) },
      { signerWitness[3]! with sigLen := 64 } ] = .signed true := by decide

example : Signer.signerThenSign Signer.checked pinnedTables true false (.hash true) signerWitness =
    .signerErr .helper := by decide

end Kmip.C12
