/-
  Lemmas about the registry model (`Model/Registry.lean`): soundness of the table checkers, packing of
  names, Go number parsing/formatting, tokenisers, and the text round trips of enumerations, tags and
  bit masks. Everything here is generic in the tables; `Props/C17` instantiates it on `Gen.*`.
-/
import KmipModel.Model.Registry
namespace Kmip.Reg

/-! ## association lists -/

theorem lookup_mem {k v : Nat} {t : Table} (h : lookup k t = some v) : (k, v) ∈ t := by
  induction t with
  | nil => simp [lookup] at h
  | cons p t ih =>
    obtain ⟨a, b⟩ := p
    simp only [lookup] at h
    by_cases hk : (a == k) = true
    · simp [hk] at h
      have : a = k := by simpa using hk
      subst this; subst h
      exact List.mem_cons_self
    · simp [hk] at h
      exact List.mem_cons_of_mem _ (ih h)

theorem hasKey_false {k : Nat} {t : Table} (h : hasKey k t = false) : ∀ v, (k, v) ∉ t := by
  intro v hm
  have : hasKey k t = true := by
    unfold hasKey
    exact List.any_eq_true.mpr ⟨(k, v), hm, by simp⟩
  simp [this] at h

theorem hasVal_false {v : Nat} {t : Table} (h : hasVal v t = false) : ∀ k, (k, v) ∉ t := by
  intro k hm
  have : hasVal v t = true := by
    unfold hasVal
    exact List.any_eq_true.mpr ⟨(k, v), hm, by simp⟩
  simp [this] at h

/-- in a table without duplicate key, membership is what `lookup` answers. -/
theorem lookup_of_mem {t : Table} (hn : keysNodup t = true) {k v : Nat} (hm : (k, v) ∈ t) :
    lookup k t = some v := by
  induction t with
  | nil => simp at hm
  | cons p t ih =>
    obtain ⟨a, b⟩ := p
    simp only [keysNodup, Bool.and_eq_true, Bool.not_eq_true'] at hn
    simp only [lookup]
    rcases List.mem_cons.mp hm with h | h
    · have h1 : k = a := congrArg Prod.fst h
      have h2 : v = b := congrArg Prod.snd h
      subst h1; subst h2; simp
    · have hak : a ≠ k := by
        intro e; subst e
        exact hasKey_false hn.1 v h
      have : (a == k) = false := by simpa using hak
      simp [this, ih hn.2 h]

theorem keysNodup_unique {t : Table} (hn : keysNodup t = true) {k v w : Nat}
    (h1 : (k, v) ∈ t) (h2 : (k, w) ∈ t) : v = w := by
  have a := lookup_of_mem hn h1
  have b := lookup_of_mem hn h2
  rw [a] at b
  exact Option.some.inj b

theorem valsNodup_unique {t : Table} (hn : valsNodup t = true) {k l v : Nat}
    (h1 : (k, v) ∈ t) (h2 : (l, v) ∈ t) : k = l := by
  induction t with
  | nil => simp at h1
  | cons p t ih =>
    obtain ⟨a, b⟩ := p
    simp only [valsNodup, Bool.and_eq_true, Bool.not_eq_true'] at hn
    rcases List.mem_cons.mp h1 with e1 | e1 <;> rcases List.mem_cons.mp h2 with e2 | e2
    · have := congrArg Prod.fst e1; have := congrArg Prod.fst e2; simp_all
    · have hb : v = b := congrArg Prod.snd e1
      subst hb
      exact absurd e2 (hasVal_false hn.1 l)
    · have hb : v = b := congrArg Prod.snd e2
      subst hb
      exact absurd e1 (hasVal_false hn.1 k)
    · exact ih hn.2 e1 e2

theorem inverseOf_spec {a b : Table} (h : inverseOf a b = true) {x y : Nat} (hm : (x, y) ∈ a) :
    lookup y b = some x := by
  unfold inverseOf at h
  have := List.all_eq_true.mp h (x, y) hm
  simp only at this
  cases hl : lookup y b with
  | none => simp [hl] at this
  | some z =>
    simp only [hl] at this
    have : z = x := by simpa using this
    subst this; rfl

/-- the parts of `bijective`. -/
theorem bijective_parts {a b : Table} (h : bijective a b = true) :
    keysNodup a = true ∧ valsNodup b = true ∧ inverseOf a b = true ∧ inverseOf b a = true ∧
    a.length = b.length := by
  simp only [bijective, Bool.and_eq_true, beq_iff_eq] at h
  exact ⟨h.1.1.1.1, h.1.1.1.2, h.1.1.2, h.1.2, h.2⟩

theorem bijective_of_parts {a b : Table} (h1 : keysNodup a = true) (h2 : valsNodup b = true)
    (h3 : inverseOf a b = true) (h4 : inverseOf b a = true) (h5 : (a.length == b.length) = true) :
    bijective a b = true := by
  simp [bijective, h1, h2, h3, h4, h5]

/-- SOUNDNESS of `bijective`: the reverse table answers `name ↦ num` exactly when the forward table
    answers `num ↦ name`. -/
theorem bijective_sound {byNum byName : Table} (h : bijective byNum byName = true) (name num : Nat) :
    lookup name byName = some num ↔ lookup num byNum = some name := by
  obtain ⟨_, _, h3, h4, _⟩ := bijective_parts h
  exact ⟨fun hl => inverseOf_spec h4 (lookup_mem hl), fun hl => inverseOf_spec h3 (lookup_mem hl)⟩

/-- a name denotes one number only, and a number has one name only — in BOTH tables. -/
theorem bijective_num_unique {byNum byName : Table} (h : bijective byNum byName = true)
    {n m name : Nat} (h1 : lookup n byNum = some name) (h2 : lookup m byNum = some name) : n = m := by
  have a := (bijective_sound h name n).mpr h1
  have b := (bijective_sound h name m).mpr h2
  rw [a] at b
  exact Option.some.inj b

theorem bijective_name_unique {byNum byName : Table} (h : bijective byNum byName = true)
    {s t num : Nat} (h1 : lookup s byName = some num) (h2 : lookup t byName = some num) : s = t := by
  have a := (bijective_sound h s num).mp h1
  have b := (bijective_sound h t num).mp h2
  rw [a] at b
  exact Option.some.inj b

/-- every ENTRY of either table is found by `lookup` (no entry is shadowed by a duplicate). -/
theorem bijective_entry_byNum {byNum byName : Table} (h : bijective byNum byName = true)
    {num name : Nat} (hm : (num, name) ∈ byNum) : lookup num byNum = some name :=
  lookup_of_mem (bijective_parts h).1 hm

theorem bijective_entry_byName {byNum byName : Table} (h : bijective byNum byName = true)
    {num name : Nat} (hm : (name, num) ∈ byName) : lookup name byName = some num :=
  (bijective_sound h name num).mpr (inverseOf_spec (bijective_parts h).2.2.2.1 hm)

/-- no name occurs twice in the forward table, no name twice as a key of the reverse table. -/
theorem bijective_names_nodup {byNum byName : Table} (h : bijective byNum byName = true)
    {n m name : Nat} (h1 : (n, name) ∈ byNum) (h2 : (m, name) ∈ byNum) : n = m :=
  bijective_num_unique h (bijective_entry_byNum h h1) (bijective_entry_byNum h h2)

theorem bijective_keys_byName {byNum byName : Table} (h : bijective byNum byName = true)
    {n m name : Nat} (h1 : (name, n) ∈ byName) (h2 : (name, m) ∈ byName) : n = m := by
  have a := bijective_entry_byName h h1
  have b := bijective_entry_byName h h2
  rw [a] at b
  exact Option.some.inj b

/-! ## agreement with the pinned tables -/

theorem memPair_iff {p : Nat × Nat} {t : Table} : memPair p t = true ↔ p ∈ t := by
  unfold memPair
  rw [List.any_eq_true]
  constructor
  · rintro ⟨q, hq, he⟩
    simp only [Bool.and_eq_true, beq_iff_eq] at he
    have : q = p := Prod.ext he.1 he.2
    subst this; exact hq
  · intro h
    exact ⟨p, h, by simp⟩

theorem subTable_spec {a b : Table} (h : subTable a b = true) : ∀ p, p ∈ a → p ∈ b := by
  intro p hp
  exact memPair_iff.mp (List.all_eq_true.mp h p hp)

theorem pairListEq_eq : ∀ {a b : Table}, pairListEq a b = true → a = b
  | [], [], _ => rfl
  | [], _ :: _, h => by simp [pairListEq] at h
  | _ :: _, [], h => by simp [pairListEq] at h
  | p :: s, q :: t, h => by
    simp only [pairListEq, Bool.and_eq_true, beq_iff_eq] at h
    have e : p = q := Prod.ext h.1.1 h.1.2
    rw [e, pairListEq_eq h.2]

/-- SOUNDNESS of `agrees`: the two tables contain the same pairs (nothing missing, nothing extra, same
    numbers, same names). -/
theorem agrees_sound {pinned gen : Table} (h : agrees pinned gen = true) (p : Nat × Nat) :
    p ∈ pinned ↔ p ∈ gen := by
  unfold agrees at h
  rcases Bool.or_eq_true _ _ |>.mp h with h | h
  · rw [pairListEq_eq h]
  · simp only [Bool.and_eq_true] at h
    exact ⟨subTable_spec h.1.1 p, subTable_spec h.1.2 p⟩

theorem agrees_length {pinned gen : Table} (h : agrees pinned gen = true) :
    pinned.length = gen.length := by
  unfold agrees at h
  rcases Bool.or_eq_true _ _ |>.mp h with h | h
  · rw [pairListEq_eq h]
  · simp only [Bool.and_eq_true, beq_iff_eq] at h
    exact h.2

/-- … hence, for tables without duplicate key, the same answers to every question. -/
theorem agrees_lookup {pinned gen : Table} (h : agrees pinned gen = true)
    (hp : keysNodup pinned = true) (hg : keysNodup gen = true) (k : Nat) :
    lookup k pinned = lookup k gen := by
  cases h1 : lookup k pinned with
  | some v =>
    exact (lookup_of_mem hg ((agrees_sound h (k, v)).mp (lookup_mem h1))).symm
  | none =>
    cases h2 : lookup k gen with
    | none => rfl
    | some v =>
      have := lookup_of_mem hp ((agrees_sound h (k, v)).mpr (lookup_mem h2))
      rw [h1] at this; cases this

/-- a table is functional when a key has one value only. -/
def Functional (t : Table) : Prop := ∀ k v w, (k, v) ∈ t → (k, w) ∈ t → v = w

theorem lookup_isSome_of_mem {t : Table} {k v : Nat} (hm : (k, v) ∈ t) : ∃ w, lookup k t = some w := by
  induction t with
  | nil => simp at hm
  | cons p t ih =>
    obtain ⟨a, b⟩ := p
    simp only [lookup]
    by_cases hk : (a == k) = true
    · exact ⟨b, by simp [hk]⟩
    · rcases List.mem_cons.mp hm with h | h
      · have : k = a := congrArg Prod.fst h
        subst this; simp at hk
      · obtain ⟨w, hw⟩ := ih h
        exact ⟨w, by simp [hk, hw]⟩

theorem lookup_of_mem_functional {t : Table} (hf : Functional t) {k v : Nat} (hm : (k, v) ∈ t) :
    lookup k t = some v := by
  obtain ⟨w, hw⟩ := lookup_isSome_of_mem hm
  rw [hw, hf k w v (lookup_mem hw) hm]

/-- tables with the same pairs, one of them functional, answer every question alike. -/
theorem agrees_lookup_functional {pinned gen : Table} (h : agrees pinned gen = true)
    (hg : Functional gen) (k : Nat) : lookup k pinned = lookup k gen := by
  have hp : Functional pinned := fun k v w h1 h2 =>
    hg k v w ((agrees_sound h _).mp h1) ((agrees_sound h _).mp h2)
  cases h1 : lookup k pinned with
  | some v => exact (lookup_of_mem_functional hg ((agrees_sound h (k, v)).mp (lookup_mem h1))).symm
  | none =>
    cases h2 : lookup k gen with
    | none => rfl
    | some v =>
      have := lookup_of_mem_functional hp ((agrees_sound h (k, v)).mpr (lookup_mem h2))
      rw [h1] at this; cases this

theorem bijective_functional_byNum {a b : Table} (h : bijective a b = true) : Functional a :=
  fun _ _ _ h1 h2 => keysNodup_unique (bijective_parts h).1 h1 h2

theorem bijective_functional_byName {a b : Table} (h : bijective a b = true) : Functional b :=
  fun _ _ _ h1 h2 => bijective_keys_byName h h1 h2

theorem optIs_of_eq {o : Option Nat} {v : Nat} (h : o = some v) : optIs o v = true := by
  subst h; simp [optIs]

/-! ### indexes -/

theorem findEnum_mem {ix : EnumIndex} {tag : Nat} {x : Table × Table} (h : findEnum tag ix = some x) :
    (tag, x.1, x.2) ∈ ix := by
  induction ix with
  | nil => simp [findEnum] at h
  | cons e r ih =>
    obtain ⟨t, bv, bn⟩ := e
    simp only [findEnum] at h
    by_cases ht : (t == tag) = true
    · simp only [ht, if_true, Option.some.injEq] at h
      have : t = tag := by simpa using ht
      subst this; subst h
      exact List.mem_cons_self
    · simp only [ht] at h
      exact List.mem_cons_of_mem _ (ih h)

theorem findMask_mem {ix : MaskIndex} {tag : Nat} {x : List Nat × Table} (h : findMask tag ix = some x) :
    (tag, x.1, x.2) ∈ ix := by
  induction ix with
  | nil => simp [findMask] at h
  | cons e r ih =>
    obtain ⟨t, ns, bn⟩ := e
    simp only [findMask] at h
    by_cases ht : (t == tag) = true
    · simp only [ht, if_true, Option.some.injEq] at h
      have : t = tag := by simpa using ht
      subst this; subst h
      exact List.mem_cons_self
    · simp only [ht] at h
      exact List.mem_cons_of_mem _ (ih h)

/-- a property of every registered enumeration holds of `enumNames[tag]`/`enumsByName[tag]` for EVERY
    tag (an unregistered tag reads as two empty maps). -/
theorem enum_forall {ix : EnumIndex} {P : Table → Table → Prop} (h0 : P [] [])
    (h : ∀ e ∈ ix, P e.2.1 e.2.2) (tag : Nat) : P (enumByValue ix tag) (enumByName ix tag) := by
  unfold enumByValue enumByName
  cases hf : findEnum tag ix with
  | none => exact h0
  | some x => exact h _ (findEnum_mem hf)

theorem mask_forall {ix : MaskIndex} {P : List Nat → Table → Prop} (h0 : P [] [])
    (h : ∀ e ∈ ix, P e.2.1 e.2.2) (tag : Nat) : P (maskNames ix tag) (maskByName ix tag) := by
  unfold maskNames maskByName
  cases hf : findMask tag ix with
  | none => exact h0
  | some x => exact h _ (findMask_mem hf)

/-- SOUNDNESS of `agreesEnums`: outside the listed exceptions, every enumeration has the same tables on
    both sides (a tag registered on one side only makes the check fail). -/
theorem agreesEnums_sound {ex : List Nat} {p g : EnumIndex} (h : agreesEnums ex p g = true)
    (tag : Nat) (hx : ex.contains tag = false) :
    agrees (enumByValue p tag) (enumByValue g tag) = true ∧
      agrees (enumByName p tag) (enumByName g tag) = true := by
  simp only [agreesEnums, Bool.and_eq_true, List.all_eq_true] at h
  obtain ⟨⟨⟨⟨hp, hg⟩, _⟩, _⟩, _⟩ := h
  unfold enumByValue enumByName
  cases hfp : findEnum tag p with
  | some x =>
    have := hp _ (findEnum_mem hfp)
    simp only at this
    cases hfg : findEnum tag g with
    | none => simp [hfg] at this
    | some y =>
      obtain ⟨bv, bn⟩ := y
      simp only [hfg, hx, Bool.false_or, Bool.and_eq_true] at this
      exact this
  | none =>
    cases hfg : findEnum tag g with
    | none => exact ⟨rfl, rfl⟩
    | some y =>
      have := hg _ (findEnum_mem hfg)
      simp [hfp] at this

theorem natListEq_eq : ∀ {a b : List Nat}, natListEq a b = true → a = b
  | [], [], _ => rfl
  | [], _ :: _, h => by simp [natListEq] at h
  | _ :: _, [], h => by simp [natListEq] at h
  | x :: s, y :: t, h => by
    simp only [natListEq, Bool.and_eq_true, beq_iff_eq] at h
    rw [h.1, natListEq_eq h.2]

/-- SOUNDNESS of `agreesMasks`: same flag names in the same bit positions, same reverse table. -/
theorem agreesMasks_sound {p g : MaskIndex} (h : agreesMasks p g = true) (tag : Nat) :
    maskNames p tag = maskNames g tag ∧ agrees (maskByName p tag) (maskByName g tag) = true := by
  simp only [agreesMasks, Bool.and_eq_true, List.all_eq_true] at h
  obtain ⟨⟨⟨⟨hp, hg⟩, _⟩, _⟩, _⟩ := h
  unfold maskNames maskByName
  cases hfp : findMask tag p with
  | some x =>
    have := hp _ (findMask_mem hfp)
    simp only at this
    cases hfg : findMask tag g with
    | none => simp [hfg] at this
    | some y =>
      obtain ⟨ns, bn⟩ := y
      simp only [hfg, Bool.and_eq_true] at this
      exact ⟨natListEq_eq this.1, this.2⟩
  | none =>
    cases hfg : findMask tag g with
    | none => exact ⟨rfl, rfl⟩
    | some y =>
      have := hg _ (findMask_mem hfg)
      simp [hfp] at this

/-! ## packed names -/

def packFrom (a : Nat) (bs : List Nat) : Nat := bs.foldl (fun a b => a * 256 + b) a

theorem pack_eq_packFrom (bs : List Nat) : pack bs = packFrom 1 bs := rfl

theorem packFrom_ge (bs : List Nat) : ∀ a, a * 2 ^ bs.length ≤ packFrom a bs := by
  induction bs with
  | nil => intro a; simp [packFrom]
  | cons b bs ih =>
    intro a
    have := ih (a * 256 + b)
    simp only [packFrom, List.foldl_cons, List.length_cons] at this ⊢
    have h2 : a * 2 ^ (bs.length + 1) ≤ (a * 256 + b) * 2 ^ bs.length := by
      rw [Nat.pow_succ, Nat.add_mul]
      have : a * (2 ^ bs.length * 2) ≤ a * 256 * 2 ^ bs.length := by
        rw [Nat.mul_assoc, Nat.mul_comm 256]
        exact Nat.mul_le_mul_left a (Nat.mul_le_mul_left _ (by decide))
      omega
    omega

theorem pack_ge (bs : List Nat) : 2 ^ bs.length ≤ pack bs := by
  have := packFrom_ge bs 1
  rw [pack_eq_packFrom]; omega

theorem pack_pos (bs : List Nat) : 1 ≤ pack bs :=
  Nat.le_trans (Nat.one_le_two_pow) (pack_ge bs)

theorem unpackAux_packFrom (bs : List Nat) (hb : ∀ b ∈ bs, b < 256) :
    ∀ (a fuel : Nat) (acc : List Nat), 1 ≤ a → bs.length ≤ fuel →
      unpackAux fuel (packFrom a bs) acc = unpackAux (fuel - bs.length) a (bs ++ acc) := by
  induction bs with
  | nil => intro a fuel acc _ _; simp [packFrom]
  | cons b bs ih =>
    intro a fuel acc ha hf
    have hb' : ∀ x ∈ bs, x < 256 := fun x hx => hb x (List.mem_cons_of_mem _ hx)
    have hlt : b < 256 := hb b List.mem_cons_self
    simp only [List.length_cons] at hf
    have := ih hb' (a * 256 + b) fuel acc (by omega) (by omega)
    simp only [packFrom, List.foldl_cons] at this ⊢
    rw [this]
    obtain ⟨f, hfe⟩ : ∃ f, fuel - bs.length = f + 1 := ⟨fuel - bs.length - 1, by omega⟩
    have h1 : ¬ (a * 256 + b ≤ 1) := by omega
    have h2 : (a * 256 + b) / 256 = a := by omega
    have h3 : (a * 256 + b) % 256 = b := by omega
    rw [hfe]
    simp only [unpackAux, h1, if_false, h2, h3, List.length_cons]
    have : fuel - (bs.length + 1) = f := by omega
    rw [this]
    simp

theorem unpackAux_one (fuel : Nat) (acc : List Nat) : unpackAux fuel 1 acc = acc := by
  cases fuel <;> simp [unpackAux]

/-- `unpack` inverts `pack` on byte strings. -/
theorem unpack_pack (bs : List Nat) (hb : ∀ b ∈ bs, b < 256) : unpack (pack bs) = bs := by
  unfold unpack
  have hge := pack_ge bs
  have hne : pack bs ≠ 0 := by have := pack_pos bs; omega
  have hl : bs.length ≤ (pack bs).log2 := (Nat.le_log2 hne).mpr hge
  rw [pack_eq_packFrom] at hl ⊢
  rw [unpackAux_packFrom bs hb 1 _ [] (Nat.le_refl 1) (by omega), unpackAux_one]
  simp

/-- distinct byte strings have distinct packings. -/
theorem pack_injective {a b : List Nat} (ha : ∀ x ∈ a, x < 256) (hb : ∀ x ∈ b, x < 256)
    (h : pack a = pack b) : a = b := by
  rw [← unpack_pack a ha, ← unpack_pack b hb, h]

theorem validName_eq {n : Nat} (h : validName n = true) : pack (unpack n) = n := by
  simpa [validName] using h

/-! ## numbers -/

theorem parseDigits_append (base : Nat) (xs ys : List Nat) (acc : Nat) :
    parseDigits base (xs ++ ys) acc =
      match parseDigits base xs acc with
      | some a => parseDigits base ys a
      | none => none := by
  induction xs generalizing acc with
  | nil => simp [parseDigits]
  | cons c cs ih =>
    simp only [List.cons_append, parseDigits]
    cases digitVal c with
    | none => rfl
    | some d =>
      simp only
      by_cases hd : d < base
      · simp only [hd, if_true]; exact ih _
      · simp only [hd, if_false]

theorem digitVal_hexDigit : ∀ d, d < 16 → digitVal (hexDigit d) = some d := by decide

theorem hexDigit_range : ∀ d, d < 16 → 48 ≤ hexDigit d ∧ hexDigit d ≤ 70 := by decide

theorem hexStep_aux (acc v k : Nat) :
    (acc * 16 ^ k + v / 16 % 16 ^ k) * 16 + v % 16 = acc * (16 ^ k * 16) + v % (16 ^ k * 16) := by
  have : v % (16 ^ k * 16) = v % 16 + 16 * (v / 16 % 16 ^ k) := by
    rw [Nat.mul_comm (16 ^ k) 16, Nat.mod_mul]
  rw [this, Nat.add_mul, Nat.mul_assoc]
  omega

theorem parseDigits_hexFixed (k v acc : Nat) :
    parseDigits 16 (hexFixed k v) acc = some (acc * 16 ^ k + v % 16 ^ k) := by
  induction k generalizing v acc with
  | zero => simp [hexFixed, parseDigits, Nat.mod_one]
  | succ k ih =>
    have hd : v % 16 < 16 := Nat.mod_lt _ (by decide)
    simp only [hexFixed]
    rw [parseDigits_append, ih]
    simp only [parseDigits, digitVal_hexDigit _ hd, hd, if_true]
    congr 1
    rw [Nat.pow_succ, hexStep_aux]

theorem hexFixed_length (k v : Nat) : (hexFixed k v).length = k := by
  induction k generalizing v with
  | zero => simp [hexFixed]
  | succ k ih => simp [hexFixed, ih]

theorem hexFixed_range (k v : Nat) : ∀ c ∈ hexFixed k v, 48 ≤ c ∧ c ≤ 70 := by
  induction k generalizing v with
  | zero => simp [hexFixed]
  | succ k ih =>
    intro c hc
    simp only [hexFixed, List.mem_append, List.mem_singleton] at hc
    rcases hc with hc | hc
    · exact ih _ c hc
    · subst hc; exact hexDigit_range _ (Nat.mod_lt _ (by decide))

theorem fmtHex_of_lt {w v : Nat} (h : v < 16 ^ w) : fmtHex w v = hexFixed w v := by
  simp [fmtHex, h]

/-- `ParseUint(fmt("%08X", v), 16, 32) = v` for every 32-bit `v`. -/
theorem parseUint_hex8 {v : Nat} (hv : v < 2 ^ 32) : parseUint 16 32 (fmtHex 8 v) = some v := by
  have h16 : v < 16 ^ 8 := by simpa using hv
  rw [fmtHex_of_lt h16]
  have hne : hexFixed 8 v ≠ [] := by
    intro h
    have := hexFixed_length 8 v
    rw [h] at this; simp at this
  unfold parseUint
  have hp := parseDigits_hexFixed 8 v 0
  rw [Nat.mod_eq_of_lt h16, Nat.zero_mul, Nat.zero_add] at hp
  cases hx : hexFixed 8 v with
  | nil => exact absurd hx hne
  | cons c cs =>
    rw [hx] at hp
    simp only [hp, hv, if_true]

theorem parseUint_hexFixed {k v bits : Nat} (hk : 0 < k) (hv : v < 16 ^ k) (hb : v < 2 ^ bits) :
    parseUint 16 bits (hexFixed k v) = some v := by
  have hp := parseDigits_hexFixed k v 0
  rw [Nat.mod_eq_of_lt hv, Nat.zero_mul, Nat.zero_add] at hp
  unfold parseUint
  cases hx : hexFixed k v with
  | nil =>
    have := hexFixed_length k v
    rw [hx] at this; simp at this; omega
  | cons c cs =>
    rw [hx] at hp
    simp only [hp, hb, if_true]

theorem parseInt_hexFixed {k v : Nat} (hk : 0 < k) (hv : v < 16 ^ k) (h31 : v < 2 ^ 31) :
    parseInt 16 32 (hexFixed k v) = some (v : Int) := by
  have hp := parseDigits_hexFixed k v 0
  rw [Nat.mod_eq_of_lt hv, Nat.zero_mul, Nat.zero_add] at hp
  cases hx : hexFixed k v with
  | nil =>
    have := hexFixed_length k v
    rw [hx] at this; simp at this; omega
  | cons c cs =>
    have hc := hexFixed_range k v c (by rw [hx]; exact List.mem_cons_self)
    have h43 : (c == 43) = false := by simp; omega
    have h45 : (c == 45) = false := by simp; omega
    rw [hx] at hp
    simp only [parseInt, h43, h45, Bool.or_self, Bool.false_eq_true, if_false]
    rw [hp]
    have : v < 2 ^ (32 - 1) := h31
    simp [this]

/-! ## clean names -/

structure CleanFacts (n : Nat) : Prop where
  valid : pack (unpack n) = n
  ne : unpack n ≠ []
  chars : ∀ c ∈ unpack n, c < 128 ∧ isSpace c = false ∧ c ≠ 124
  no0x : startsWith0x (unpack n) = false
  noUint : parseUint 10 32 (unpack n) = none
  noInt : parseInt 10 32 (unpack n) = none
  notTTLV : n ≠ 0x0154544C56

theorem cleanName_facts {n : Nat} (h : cleanName n = true) : CleanFacts n := by
  simp only [cleanName, Bool.and_eq_true, Bool.not_eq_true', List.all_eq_true, bne_iff_ne, ne_eq,
    Option.isNone_iff_eq_none, decide_eq_true_eq] at h
  obtain ⟨⟨⟨⟨⟨⟨h1, h2⟩, h3⟩, h4⟩, h5⟩, h6⟩, h7⟩ := h
  refine ⟨validName_eq h1, ?_, ?_, h4, h5, h6, h7⟩
  · intro e; rw [e] at h2; simp at h2
  · intro c hc
    have := h3 c hc
    exact ⟨this.1.1, this.1.2, this.2⟩

theorem cleanNames_lookup {t : Table} (h : cleanNames t = true) {k n : Nat}
    (hl : lookup k t = some n) : cleanName n = true :=
  List.all_eq_true.mp h (k, n) (lookup_mem hl)

theorem unpack_emptyName : unpack emptyName = [] := by decide

theorem clean_ne_empty {n : Nat} (h : CleanFacts n) : (n == emptyName) = false := by
  have : n ≠ emptyName := by
    intro e; subst e
    exact h.ne unpack_emptyName
  simpa using this

theorem not_space_ne_32 {c : Nat} (h : isSpace c = false) : c ≠ 32 := by
  intro e; subst e; simp [isSpace] at h

/-! ## enumerations: text round trip -/

theorem enumFromTextReader_name (byName : Table) {bs : List Nat} (h0 : startsWith0x bs = false)
    (hu : parseUint 10 32 bs = none) : enumFromTextReader byName bs = lookup (pack bs) byName := by
  unfold enumFromTextReader
  split
  · simp [startsWith0x] at h0
  · simp [hu]

theorem filter32_self {bs : List Nat} (hs : ∀ c ∈ bs, c ≠ 32) : bs.filter (· != 32) = bs :=
  List.filter_eq_self.mpr (by intro c hc; simpa using hs c hc)

theorem enumFromTextUnmarshal_name (byName : Table) {bs : List Nat} (hs : ∀ c ∈ bs, c ≠ 32)
    (h0 : startsWith0x bs = false) (hu : parseUint 10 32 bs = none) :
    enumFromTextUnmarshal byName bs = lookup (pack bs) byName := by
  have hnum : enumUnmarshalNum bs = none := by
    unfold enumUnmarshalNum
    split
    · simp [startsWith0x] at h0
    · simp [startsWith0x] at h0
    · exact hu
  unfold enumFromTextUnmarshal
  simp only [filter32_self hs, hnum]

theorem hex0x_ne32 (w v : Nat) (hv : v < 16 ^ w) : ∀ c ∈ hex0x w v, c ≠ 32 := by
  intro c hc
  simp only [hex0x, List.mem_cons] at hc
  rcases hc with h | h | h
  · omega
  · omega
  · rw [fmtHex_of_lt hv] at h
    have := hexFixed_range w v c h
    omega

/-- the text of ANY 32-bit enumeration value — registered or not — is read back as that value by the
    XML and JSON readers. -/
theorem enumReader_roundtrip {byValue byName : Table} (hb : bijective byValue byName = true)
    (hc : cleanNames byValue = true) {v : Nat} (hv : v < 2 ^ 32) :
    enumFromTextReader byName (enumToText byValue v) = some v := by
  have hhex : enumFromTextReader byName (hex0x 8 v) = some v := by
    simp only [hex0x, enumFromTextReader]
    exact parseUint_hex8 hv
  unfold enumToText
  cases hl : lookup v byValue with
  | none => exact hhex
  | some n =>
    have f := cleanName_facts (cleanNames_lookup hc hl)
    simp only [clean_ne_empty f, Bool.false_eq_true, if_false]
    rw [enumFromTextReader_name byName f.no0x f.noUint, f.valid]
    exact (bijective_sound hb n v).mpr hl

/-- … and by `UnmarshalText` of the enumeration types. -/
theorem enumUnmarshal_roundtrip {byValue byName : Table} (hb : bijective byValue byName = true)
    (hc : cleanNames byValue = true) {v : Nat} (hv : v < 2 ^ 32) :
    enumFromTextUnmarshal byName (enumToText byValue v) = some v := by
  have h16 : v < 16 ^ 8 := by simpa using hv
  have hhex : enumFromTextUnmarshal byName (hex0x 8 v) = some v := by
    unfold enumFromTextUnmarshal
    simp only [filter32_self (hex0x_ne32 8 v h16)]
    simp only [hex0x, enumUnmarshalNum, parseUint_hex8 hv]
  unfold enumToText
  cases hl : lookup v byValue with
  | none => exact hhex
  | some n =>
    have f := cleanName_facts (cleanNames_lookup hc hl)
    simp only [clean_ne_empty f, Bool.false_eq_true, if_false]
    rw [enumFromTextUnmarshal_name byName (fun c hc => not_space_ne_32 (f.chars c hc).2.1) f.no0x
      f.noUint, f.valid]
    exact (bijective_sound hb n v).mpr hl

/-! ## tags: text round trip -/

theorem tagFromText_name (tagByName : Table) {bs : List Nat} (hne : bs ≠ [])
    (h0 : startsWith0x bs = false) :
    tagFromText tagByName bs = match lookup (pack bs) tagByName with
      | some t => (t : Int)
      | none => 0 := by
  unfold tagFromText
  split
  · exact absurd rfl hne
  · simp [startsWith0x] at h0
  · rfl

/-- the text of ANY 24-bit tag — registered or not — is read back as that tag (`TagString`, the XML
    element name / `tag` attribute; `xmlReader.Tag`, `jsonReader.Tag`). -/
theorem tag_roundtrip {tagNames tagByName : Table} (hb : bijective tagNames tagByName = true)
    (hc : cleanNames tagNames = true) {t : Nat} (ht : t < 2 ^ 24) :
    tagFromText tagByName (tagToText tagNames t) = (t : Int) := by
  have h16 : t < 16 ^ 6 := by simpa using ht
  have hhex : tagFromText tagByName (hex0x 6 t) = (t : Int) := by
    simp only [hex0x, tagFromText, fmtHex_of_lt h16]
    rw [parseUint_hexFixed (by decide) h16 ht]
  unfold tagToText
  cases hl : lookup t tagNames with
  | none => exact hhex
  | some n =>
    have f := cleanName_facts (cleanNames_lookup hc hl)
    simp only
    rw [tagFromText_name tagByName f.ne f.no0x, f.valid, (bijective_sound hb n t).mpr hl]

theorem tagXml_eq {tagNames : Table} (hc : cleanNames tagNames = true) (t : Nat) :
    tagToTextXml tagNames t = tagToText tagNames t := by
  unfold tagToTextXml tagToText
  cases hl : lookup t tagNames with
  | none => rfl
  | some n => simp only [clean_ne_empty (cleanName_facts (cleanNames_lookup hc hl)), Bool.false_eq_true, if_false]

/-- what `Tag()` answers is 0 or a 24-bit number, whatever the text (since /repo a1c0e70). -/
theorem tagFromText_range {tagByName : Table} (hb : ∀ p ∈ tagByName, p.2 < 2 ^ 24) (s : List Nat) :
    0 ≤ tagFromText tagByName s ∧ tagFromText tagByName s < 16777216 := by
  unfold tagFromText
  split
  · omega
  · split
    · rename_i n hn
      unfold parseUint at hn
      split at hn
      · cases hn
      · split at hn
        · split at hn
          · simp only [Option.some.injEq] at hn; subst hn
            rename_i hlt; simp at hlt; omega
          · cases hn
        · cases hn
    · omega
  · split
    · rename_i t ht
      have := hb _ (lookup_mem ht)
      simp at this; omega
    · omega

/-! ## bit masks: the writer loop as a list of parts -/

/-- `strings.Join(parts, sep)`. -/
def joinSep (sep : List Nat) : List (List Nat) → List Nat
  | [] => []
  | [p] => p
  | p :: q :: r => p ++ sep ++ joinSep sep (q :: r)

/-- iteration `i` of the writer loop emits something. -/
def maskWritten (names : List Nat) (v i : Nat) : Bool :=
  bitSet v i && !(decide (i < names.length) && names.getD i emptyName == emptyName)

/-- … namely the flag name, or the hexadecimal form of the unnamed bit. -/
def maskPartText (names : List Nat) (i : Nat) : List Nat :=
  if i < names.length then unpack (names.getD i emptyName) else hex0x 8 (2 ^ i)

def maskParts (names : List Nat) (v : Nat) : Nat → Nat → List (List Nat)
  | 0, _ => []
  | n + 1, i =>
    if maskWritten names v i then maskPartText names i :: maskParts names v n (i + 1)
    else maskParts names v n (i + 1)

theorem maskLoop_eq (names sep : List Nat) (v : Nat) : ∀ (n i : Nat) (wrote : Bool) (dst : List Nat),
    maskLoop names sep v n i wrote dst =
      match maskParts names v n i with
      | [] => dst
      | p :: ps => (if wrote then dst ++ sep else dst) ++ joinSep sep (p :: ps) := by
  intro n
  induction n with
  | zero => intro i wrote dst; simp [maskLoop, maskParts]
  | succ n ih =>
    intro i wrote dst
    cases hb : bitSet v i with
    | false =>
      have hw : maskWritten names v i = false := by simp [maskWritten, hb]
      simp only [maskLoop, maskParts, hb, hw, Bool.not_false, if_true, Bool.false_eq_true, if_false]
      exact ih _ _ _
    | true =>
      cases hg : (decide (i < names.length) && names.getD i emptyName == emptyName) with
      | true =>
        have hw : maskWritten names v i = false := by unfold maskWritten; rw [hb, hg]; rfl
        simp only [maskLoop, maskParts, hb, hg, hw, Bool.not_true, Bool.false_eq_true, if_false, if_true]
        exact ih _ _ _
      | false =>
        have hw : maskWritten names v i = true := by unfold maskWritten; rw [hb, hg]; rfl
        have htxt : ∀ d : List Nat,
            (if i < names.length then d ++ unpack (names.getD i emptyName) else d ++ hex0x 8 (2 ^ i)) =
              d ++ maskPartText names i := by
          intro d; unfold maskPartText; split <;> rfl
        simp only [maskLoop, maskParts, hb, hg, hw, Bool.not_true, Bool.false_eq_true, if_false, if_true,
          htxt]
        rw [ih]
        cases maskParts names v n (i + 1) with
        | nil => simp [joinSep]
        | cons q qs => simp [joinSep, List.append_assoc]

theorem bitSet_zero (i : Nat) : bitSet 0 i = false := by simp [bitSet]

theorem maskParts_zero (names : List Nat) : ∀ n i, maskParts names 0 n i = [] := by
  intro n
  induction n with
  | zero => intro i; rfl
  | succ n ih => intro i; simp [maskParts, maskWritten, bitSet_zero, ih]

/-- the writer produces the parts joined by the separator. -/
theorem maskToText_eq (names sep : List Nat) (v : Nat) :
    maskToText names sep v = joinSep sep (maskParts names v 32 0) := by
  unfold maskToText
  by_cases h0 : v = 0
  · subst h0; simp [maskParts_zero, joinSep]
  · have : (v == 0) = false := by simpa using h0
    simp only [this, Bool.false_eq_true, if_false]
    rw [maskLoop_eq]
    cases maskParts names v 32 0 with
    | nil => simp [joinSep]
    | cons p ps => simp

/-! ## tokenisers -/

/-- a part as the writer emits it: non-empty, without white space and without `|`. -/
def IsTok (p : List Nat) : Prop := p ≠ [] ∧ ∀ c ∈ p, isSpace c = false ∧ c ≠ 124

theorem fieldsAux_tok (tok : List Nat) (h : ∀ c ∈ tok, isSpace c = false) :
    ∀ (rest cur : List Nat), fieldsAux (tok ++ rest) cur = fieldsAux rest (cur ++ tok) := by
  induction tok with
  | nil => intro rest cur; simp
  | cons c cs ih =>
    intro rest cur
    have hc : isSpace c = false := h c List.mem_cons_self
    simp only [List.cons_append, fieldsAux, hc, Bool.false_eq_true, if_false]
    rw [ih (fun x hx => h x (List.mem_cons_of_mem _ hx))]
    simp

theorem fields_join : ∀ (ps : List (List Nat)) (p : List Nat), (∀ q ∈ p :: ps, IsTok q) →
    fieldsAux (joinSep [32] (p :: ps)) [] = p :: ps := by
  intro ps
  induction ps with
  | nil =>
    intro p h
    have hp := h p List.mem_cons_self
    have := fieldsAux_tok p (fun c hc => (hp.2 c hc).1) [] []
    simp only [List.append_nil, List.nil_append] at this
    simp only [joinSep, this, fieldsAux]
    have : p.isEmpty = false := by cases p with | nil => exact absurd rfl hp.1 | cons _ _ => rfl
    simp [this]
  | cons q r ih =>
    intro p h
    have hp := h p List.mem_cons_self
    have hne : p.isEmpty = false := by cases p with | nil => exact absurd rfl hp.1 | cons _ _ => rfl
    simp only [joinSep, List.append_assoc, List.singleton_append]
    rw [fieldsAux_tok p (fun c hc => (hp.2 c hc).1)]
    have hs : isSpace 32 = true := by decide
    simp only [List.nil_append, fieldsAux, hs, if_true, hne, Bool.false_eq_true, if_false]
    rw [ih q (fun x hx => h x (List.mem_cons_of_mem _ hx))]

theorem fields_joinSep (ps : List (List Nat)) (h : ∀ q ∈ ps, IsTok q) :
    fields (joinSep [32] ps) = ps := by
  cases ps with
  | nil => simp [fields, joinSep, fieldsAux]
  | cons p ps => exact fields_join ps p h

theorem dropWhile_nospace {l : List Nat} (h : ∀ c ∈ l, isSpace c = false) :
    l.dropWhile isSpace = l := by
  cases l with
  | nil => rfl
  | cons c cs => simp [List.dropWhile, h c List.mem_cons_self]

theorem dropWhile_spaces (l m : List Nat) (h : ∀ c ∈ l, isSpace c = true) :
    (l ++ m).dropWhile isSpace = m.dropWhile isSpace := by
  induction l with
  | nil => rfl
  | cons c cs ih =>
    simp only [List.cons_append, List.dropWhile, h c List.mem_cons_self]
    exact ih (fun x hx => h x (List.mem_cons_of_mem _ hx))

/-- `TrimSpace` removes exactly the white space around a part. -/
theorem dropWhile_all_spaces (r : List Nat) (hr : ∀ c ∈ r, isSpace c = true) :
    r.dropWhile isSpace = [] := by
  have := dropWhile_spaces r [] hr
  simpa using this

theorem trim_pad (l p r : List Nat) (hl : ∀ c ∈ l, isSpace c = true) (hr : ∀ c ∈ r, isSpace c = true)
    (hp : ∀ c ∈ p, isSpace c = false) : trim (l ++ p ++ r) = p := by
  unfold trim
  rw [List.append_assoc, dropWhile_spaces l _ hl]
  cases p with
  | nil =>
    simp only [List.nil_append]
    rw [dropWhile_all_spaces r hr]
    rfl
  | cons c cs =>
    have h1 : (c :: cs ++ r).dropWhile isSpace = c :: cs ++ r := by
      simp [hp c List.mem_cons_self]
    rw [h1, List.reverse_append,
      dropWhile_spaces r.reverse _ (by intro x hx; exact hr x (List.mem_reverse.mp hx)),
      dropWhile_nospace (by intro x hx; exact hp x (List.mem_reverse.mp hx)), List.reverse_reverse]

theorem trim_tok {p : List Nat} (hp : ∀ c ∈ p, isSpace c = false) : trim p = p := by
  have := trim_pad [] p [] (by simp) (by simp) hp
  simpa using this

theorem map_trim_toks {ps : List (List Nat)} (h : ∀ q ∈ ps, IsTok q) : ps.map trim = ps := by
  induction ps with
  | nil => rfl
  | cons p ps ih =>
    simp only [List.map_cons]
    rw [trim_tok (fun c hc => ((h p List.mem_cons_self).2 c hc).1),
      ih (fun q hq => h q (List.mem_cons_of_mem _ hq))]

theorem splitOnAux_seg (d : Nat) (seg : List Nat) (h : ∀ c ∈ seg, c ≠ d) :
    ∀ (rest cur : List Nat), splitOnAux d (seg ++ rest) cur = splitOnAux d rest (cur ++ seg) := by
  induction seg with
  | nil => intro rest cur; simp
  | cons c cs ih =>
    intro rest cur
    have hc : (c == d) = false := by simpa using h c List.mem_cons_self
    simp only [List.cons_append, splitOnAux, hc, Bool.false_eq_true, if_false]
    rw [ih (fun x hx => h x (List.mem_cons_of_mem _ hx))]
    simp

theorem split_join : ∀ (ps : List (List Nat)) (p : List Nat), (∀ q ∈ p :: ps, IsTok q) →
    splitOnAux 124 (joinSep [124] (p :: ps)) [] = p :: ps := by
  intro ps
  induction ps with
  | nil =>
    intro p h
    have hp := h p List.mem_cons_self
    have := splitOnAux_seg 124 p (fun c hc => (hp.2 c hc).2) [] []
    simp only [List.append_nil, List.nil_append] at this
    simp [joinSep, this, splitOnAux]
  | cons q r ih =>
    intro p h
    have hp := h p List.mem_cons_self
    simp only [joinSep, List.append_assoc, List.singleton_append]
    rw [splitOnAux_seg 124 p (fun c hc => (hp.2 c hc).2)]
    simp only [List.nil_append, splitOnAux, beq_self_eq_true, if_true]
    rw [ih q (fun x hx => h x (List.mem_cons_of_mem _ hx))]

/-- `" | "`-separated text: split on `|`, trim. -/
theorem split3_join : ∀ (ps : List (List Nat)) (p cur : List Nat), (∀ q ∈ p :: ps, IsTok q) →
    (∀ c ∈ cur, isSpace c = true) →
    (splitOnAux 124 (joinSep [32, 124, 32] (p :: ps)) cur).map trim = p :: ps := by
  intro ps
  induction ps with
  | nil =>
    intro p cur h hcur
    have hp := h p List.mem_cons_self
    have := splitOnAux_seg 124 p (fun c hc => (hp.2 c hc).2) [] cur
    simp only [List.append_nil] at this
    simp only [joinSep, this, splitOnAux, List.map_cons, List.map_nil]
    have := trim_pad cur p [] hcur (by simp) (fun c hc => (hp.2 c hc).1)
    simp only [List.append_nil] at this
    rw [this]
  | cons q r ih =>
    intro p cur h hcur
    have hp := h p List.mem_cons_self
    simp only [joinSep, List.append_assoc, List.cons_append, List.nil_append]
    rw [splitOnAux_seg 124 p (fun c hc => (hp.2 c hc).2)]
    have h32 : (32 == 124) = false := by decide
    simp only [splitOnAux, h32, Bool.false_eq_true, if_false, beq_self_eq_true, if_true, List.map_cons,
      List.nil_append]
    have := trim_pad cur p [32] hcur (by simp [isSpace]) (fun c hc => (hp.2 c hc).1)
    rw [this]
    rw [ih q [32] (fun x hx => h x (List.mem_cons_of_mem _ hx)) (by simp [isSpace])]

theorem tok_no_bar {p : List Nat} (h : IsTok p) : p.contains 124 = false := by
  cases hc : p.contains 124 with
  | false => rfl
  | true =>
    have := List.contains_iff_mem.mp hc
    exact absurd rfl (h.2 124 this).2

theorem join3_has_bar (p q : List Nat) (r : List (List Nat)) :
    (joinSep [32, 124, 32] (p :: q :: r)).contains 124 = true := by
  apply List.contains_iff_mem.mpr
  simp [joinSep]

theorem filter_nonempty_toks {ps : List (List Nat)} (h : ∀ q ∈ ps, IsTok q) :
    ps.filter (fun p => !p.isEmpty) = ps := by
  apply List.filter_eq_self.mpr
  intro q hq
  cases q with
  | nil => exact absurd rfl (h [] hq).1
  | cons _ _ => rfl

/-! ## bit masks: reading the parts back -/

theorem hexBody_none (u : Bool) {bs : List Nat} (h : startsWith0x bs = false) : hexBody u bs = none := by
  unfold hexBody
  split
  · simp [startsWith0x] at h
  · simp [startsWith0x] at h
  · rfl

theorem maskPart_name (u : Bool) (byName : Table) {n : Nat} (f : CleanFacts n) :
    maskPart u byName (unpack n) = lookup n byName := by
  unfold maskPart
  rw [hexBody_none u f.no0x]
  simp only [f.noInt, f.valid]

theorem toU32_nat {x : Nat} (h : x < 2 ^ 32) : toU32 (x : Int) = x := by
  unfold toU32; omega

/-- an unnamed bit is read back from its hexadecimal form by every reader. -/
theorem maskPart_hex (u : Bool) (byName : Table) {i : Nat} (hi : i < 32) :
    maskPart u byName (hex0x 8 (2 ^ i)) = some (2 ^ i) := by
  have h32 : 2 ^ i < 2 ^ 32 := Nat.pow_lt_pow_right (by decide) hi
  have hb : hexBody u (hex0x 8 (2 ^ i)) = some (fmtHex 8 (2 ^ i)) := by simp [hex0x, hexBody]
  unfold maskPart
  rw [hb]
  exact parseUint_hex8 h32

theorem flagsOk_spec (byName : Table) : ∀ (names : List Nat) (k : Nat), flagsOk byName k names = true →
    ∀ j, j < names.length → names.getD j emptyName ≠ emptyName →
      lookup (names.getD j emptyName) byName = some (2 ^ (k + j)) := by
  intro names
  induction names with
  | nil => intro k _ j hj; simp at hj
  | cons n t ih =>
    intro k h j hj hne
    simp only [flagsOk, Bool.and_eq_true, Bool.or_eq_true] at h
    cases j with
    | zero =>
      simp only [List.getD_cons_zero] at hne ⊢
      rcases h.1 with h1 | h1
      · exact absurd (by simpa using h1) hne
      · cases hl : lookup n byName with
        | none => simp [hl] at h1
        | some f =>
          simp only [hl] at h1
          have : f = 2 ^ k := by simpa using h1
          simp [this]
    | succ j =>
      simp only [List.getD_cons_succ] at hne ⊢
      have := ih (k + 1) h.2 j (by simpa using hj) hne
      rw [this]
      congr 2; omega

theorem lor_pow {acc i : Nat} (h : acc < 2 ^ i) : acc ||| 2 ^ i = acc + 2 ^ i := by
  have := Nat.two_pow_add_eq_or_of_lt h 1
  rw [Nat.mul_one] at this
  rw [Nat.or_comm, ← this, Nat.add_comm]

theorem window_succ (v i n : Nat) :
    v / 2 ^ i % 2 ^ (n + 1) * 2 ^ i = v / 2 ^ i % 2 * 2 ^ i + v / 2 ^ (i + 1) % 2 ^ n * 2 ^ (i + 1) := by
  have h1 : (2 : Nat) ^ (n + 1) = 2 * 2 ^ n := by rw [Nat.pow_succ, Nat.mul_comm]
  have h2 : v / 2 ^ (i + 1) = v / 2 ^ i / 2 := by rw [Nat.pow_succ, Nat.div_div_eq_div_mul]
  rw [h1, Nat.mod_mul, h2, Nat.add_mul, Nat.pow_succ]
  congr 1
  ac_rfl

/-- hypotheses on a mask registration under which its texts are read back. -/
structure MaskOk (names : List Nat) (byName : Table) : Prop where
  flags : ∀ j, j < names.length → lookup (names.getD j emptyName) byName = some (2 ^ j)
  clean : ∀ j, j < names.length → CleanFacts (names.getD j emptyName)

theorem maskOk_of_checks {names : List Nat} {byName : Table} (hw : maskWF names byName = true)
    (hc : names.all cleanName = true) : MaskOk names byName := by
  simp only [maskWF, Bool.and_eq_true] at hw
  have hcl : ∀ j, j < names.length → CleanFacts (names.getD j emptyName) := by
    intro j hj
    apply cleanName_facts
    have hm : names.getD j emptyName ∈ names := by
      rw [List.getD_eq_getElem?_getD, List.getElem?_eq_getElem hj]
      simp
    exact List.all_eq_true.mp hc _ hm
  refine ⟨?_, hcl⟩
  intro j hj
  have := flagsOk_spec byName names 0 hw.1.2 j hj (by
    intro e
    have := clean_ne_empty (hcl j hj)
    rw [e] at this
    simp at this)
  simpa using this

theorem bitSet_ge {v i : Nat} (h : bitSet v i = true) : 2 ^ i ≤ v := by
  simp only [bitSet, beq_iff_eq] at h
  have hpos : 0 < 2 ^ i := Nat.two_pow_pos i
  have : 1 ≤ v / 2 ^ i := by
    apply Nat.pos_of_ne_zero
    intro e
    rw [e] at h
    simp at h
  exact (Nat.le_div_iff_mul_le hpos).mp this |> fun h => by simpa using h

theorem maskParts_toks {names : List Nat} {byName : Table} (ok : MaskOk names byName) (v : Nat) :
    ∀ n i, i + n ≤ 32 → ∀ q ∈ maskParts names v n i, IsTok q := by
  intro n
  induction n with
  | zero => intro i _ q hq; simp [maskParts] at hq
  | succ n ih =>
    intro i hin q hq
    simp only [maskParts] at hq
    split at hq
    · rcases List.mem_cons.mp hq with e | e
      · subst e
        unfold maskPartText
        split
        · rename_i hlt
          have f := ok.clean i hlt
          exact ⟨f.ne, fun c hc => ⟨(f.chars c hc).2.1, (f.chars c hc).2.2⟩⟩
        · have hi : i < 32 := by omega
          exact hexTok i hi
      · exact ih (i + 1) (by omega) q e
    · exact ih (i + 1) (by omega) q hq
where
  hexTok : ∀ i, i < 32 → IsTok (hex0x 8 (2 ^ i)) := by
    intro i hi
    have h16 : 2 ^ i < 16 ^ 8 := by
      have : (16 : Nat) ^ 8 = 2 ^ 32 := by decide
      have := Nat.pow_lt_pow_right (a := 2) (by decide) hi
      omega
    refine ⟨by simp [hex0x], ?_⟩
    intro c hc
    simp only [hex0x, List.mem_cons] at hc
    rcases hc with h | h | h
    · subst h; decide
    · subst h; decide
    · rw [fmtHex_of_lt h16] at h
      have := hexFixed_range 8 _ c h
      constructor
      · simp only [isSpace, Bool.or_eq_false_iff, Bool.and_eq_false_iff, beq_eq_false_iff_ne, ne_eq,
          decide_eq_false_iff_not, Nat.not_le]
        omega
      · omega

/-- reading the parts of the bits `i … i+n-1` of `v` on top of the lower bits. -/
theorem maskFold_parts {names : List Nat} {byName : Table} (ok : MaskOk names byName) (u : Bool)
    {v : Nat} : ∀ (n i acc : Nat), i + n ≤ 32 → acc < 2 ^ i →
    maskFold u byName (maskParts names v n i) acc = some (acc + v / 2 ^ i % 2 ^ n * 2 ^ i) := by
  intro n
  induction n with
  | zero => intro i acc _ _; simp [maskParts, maskFold, Nat.mod_one]
  | succ n ih =>
    intro i acc hin hacc
    have hlt2 : v / 2 ^ i % 2 < 2 := Nat.mod_lt _ (by decide)
    have hpow : (2 : Nat) ^ (i + 1) = 2 ^ i * 2 := by rw [Nat.pow_succ]
    rw [window_succ]
    simp only [maskParts]
    cases hb : bitSet v i with
    | false =>
      have hw : maskWritten names v i = false := by simp [maskWritten, hb]
      have hbit : v / 2 ^ i % 2 = 0 := by
        simp only [bitSet, beq_eq_false_iff_ne, ne_eq] at hb; omega
      simp only [hw, Bool.false_eq_true, if_false]
      rw [ih (i + 1) acc (by omega) (by omega), hbit]
      simp
    | true =>
      have hbit : v / 2 ^ i % 2 = 1 := by simpa [bitSet] using hb
      have hgap : (decide (i < names.length) && names.getD i emptyName == emptyName) = false := by
        by_cases hlt : i < names.length
        · have := clean_ne_empty (ok.clean i hlt)
          rw [this]; simp
        · have : decide (i < names.length) = false := by simpa using hlt
          rw [this]; rfl
      have hw : maskWritten names v i = true := by unfold maskWritten; rw [hb, hgap]; rfl
      have hpart : maskPart u byName (maskPartText names i) = some (2 ^ i) := by
        unfold maskPartText
        split
        · rename_i hlt
          rw [maskPart_name u byName (ok.clean i hlt), ok.flags i hlt]
        · exact maskPart_hex u byName (by omega)
      simp only [hw, if_true, maskFold, hpart]
      rw [lor_pow hacc, ih (i + 1) (acc + 2 ^ i) (by omega) (by omega), hbit]
      congr 1
      omega

/-- the fold over all 32 positions recovers `v`. -/
theorem maskFold_all {names : List Nat} {byName : Table} (ok : MaskOk names byName) (u : Bool)
    {v : Nat} (hv : v < 2 ^ 32) :
    maskFold u byName (maskParts names v 32 0) 0 = some v := by
  rw [maskFold_parts ok u 32 0 0 (by decide) (by decide)]
  have : v % 2 ^ 32 = v := Nat.mod_eq_of_lt hv
  simp [this]

/-! ## bit masks: the three round trips
    every 32-bit value, in the three forms. -/

theorem maskXml_roundtrip {names : List Nat} {byName : Table} (ok : MaskOk names byName)
    {v : Nat} (hv : v < 2 ^ 32) :
    maskFromTextXml byName (maskToText names [32] v) = some v := by
  have ht := maskParts_toks ok v 32 0 (by decide)
  unfold maskFromTextXml
  rw [maskToText_eq, fields_joinSep _ ht, map_trim_toks ht]
  exact maskFold_all ok false hv

theorem maskJson_roundtrip {names : List Nat} {byName : Table} (ok : MaskOk names byName)
    {v : Nat} (hv : v < 2 ^ 32) :
    maskFromTextJson byName (maskToText names [124] v) = some v := by
  have ht := maskParts_toks ok v 32 0 (by decide)
  have hall := maskFold_all ok false hv
  unfold maskFromTextJson
  rw [maskToText_eq]
  cases hp : maskParts names v 32 0 with
  | nil =>
    rw [hp] at hall
    simpa [joinSep, splitOn, splitOnAux, trim, maskFold] using hall
  | cons p ps =>
    rw [hp] at ht hall
    have : splitOn 124 (joinSep [124] (p :: ps)) = p :: ps := split_join ps p ht
    rw [this, map_trim_toks ht, filter_nonempty_toks ht]
    exact hall

theorem maskUnmarshal_roundtrip {names : List Nat} {byName : Table} (ok : MaskOk names byName)
    {v : Nat} (hv : v < 2 ^ 32) :
    maskFromTextUnmarshal byName (maskToText names [32, 124, 32] v) = some v := by
  have ht := maskParts_toks ok v 32 0 (by decide)
  have hall := maskFold_all ok true hv
  unfold maskFromTextUnmarshal
  rw [maskToText_eq]
  cases hp : maskParts names v 32 0 with
  | nil =>
    rw [hp] at hall
    simpa [joinSep, fields, fieldsAux, maskFold] using hall
  | cons p ps =>
    rw [hp] at ht hall
    cases ps with
    | nil =>
      have hp1 := ht p List.mem_cons_self
      have hf : fields p = [p] := by
        have := fields_joinSep [p] ht
        simpa [joinSep] using this
      simp only [joinSep, tok_no_bar hp1, Bool.false_eq_true, if_false, hf]
      rw [map_trim_toks ht, filter_nonempty_toks ht]
      exact hall
    | cons q r =>
      simp only [join3_has_bar, if_true]
      have : (splitOn 124 (joinSep [32, 124, 32] (p :: q :: r))).map trim = p :: q :: r :=
        split3_join (q :: r) p [] ht (by simp)
      rw [this, filter_nonempty_toks ht]
      exact hall

/-! ## the pin as a lower bound: `subTable`, `coversEnums`, `coversMasks`, `coversRegistry` -/

theorem subSeq_spec : ∀ {p g : Table}, subSeq p g = true → ∀ x, x ∈ p → x ∈ g
  | [], _, _, x, hx => by simp at hx
  | _ :: _, [], h, _, _ => by simp [subSeq] at h
  | a :: s, b :: t, h, x, hx => by
    unfold subSeq at h
    by_cases he : (a.1 == b.1 && a.2 == b.2) = true
    · rw [if_pos he] at h
      simp only [Bool.and_eq_true, beq_iff_eq] at he
      have e : a = b := Prod.ext he.1 he.2
      rcases List.mem_cons.mp hx with hx | hx
      · rw [hx, e]; exact List.mem_cons_self
      · exact List.mem_cons_of_mem _ (subSeq_spec h x hx)
    · rw [if_neg he] at h
      exact List.mem_cons_of_mem _ (subSeq_spec h x hx)

/-- SOUNDNESS of `covers`: every pinned pair is a live pair. -/
theorem covers_spec {p g : Table} (h : covers p g = true) : ∀ x, x ∈ p → x ∈ g := by
  unfold covers at h
  rcases Bool.or_eq_true _ _ |>.mp h with h | h
  · exact subSeq_spec h
  · exact subTable_spec h

/-- a pinned question keeps its answer in a live table that contains the pinned pairs and is a function. -/
theorem covers_lookup {p g : Table} (h : covers p g = true) (hg : Functional g) {k v : Nat}
    (hl : lookup k p = some v) : lookup k g = some v :=
  lookup_of_mem_functional hg (covers_spec h _ (lookup_mem hl))

theorem keysNodup_functional {t : Table} (h : keysNodup t = true) : Functional t :=
  fun _ _ _ h1 h2 => keysNodup_unique h h1 h2

/-- SOUNDNESS of `coversEnums`: for EVERY tag, every pinned pair of the two tables is a live pair. -/
theorem coversEnums_sound {p g : EnumIndex} (h : coversEnums p g = true) (tag : Nat) :
    (∀ x, x ∈ enumByValue p tag → x ∈ enumByValue g tag) ∧
    (∀ x, x ∈ enumByName p tag → x ∈ enumByName g tag) := by
  unfold coversEnums at h
  have hall := List.all_eq_true.mp h
  cases hf : findEnum tag p with
  | none => simp [enumByValue, enumByName, hf]
  | some x =>
    have := hall _ (findEnum_mem hf)
    simp only [Bool.and_eq_true] at this
    have e1 : enumByValue p tag = x.1 := by simp [enumByValue, hf]
    have e2 : enumByName p tag = x.2 := by simp [enumByName, hf]
    rw [e1, e2]
    exact ⟨covers_spec this.1, covers_spec this.2⟩

theorem natPrefix_getD : ∀ {p l : List Nat}, natPrefix p l = true → ∀ i, i < p.length →
    l.getD i emptyName = p.getD i emptyName ∧ i < l.length
  | [], _, _, i, hi => by simp at hi
  | _ :: _, [], h, _, _ => by simp [natPrefix] at h
  | a :: s, b :: t, h, i, hi => by
    simp only [natPrefix, Bool.and_eq_true, beq_iff_eq] at h
    cases i with
    | zero => simp [h.1]
    | succ j =>
      have := natPrefix_getD h.2 j (by simpa using hi)
      simp only [List.getD_eq_getElem?_getD, List.getElem?_cons_succ, List.length_cons] at this ⊢
      exact ⟨this.1, by omega⟩

/-- SOUNDNESS of `coversMasks`: for EVERY tag, pinned flag `i` is live flag `i` under the same name, and
    every pinned pair of the reverse table is a live pair. -/
theorem coversMasks_sound {p g : MaskIndex} (h : coversMasks p g = true) (tag : Nat) :
    (∀ i, i < (maskNames p tag).length →
      (maskNames g tag).getD i emptyName = (maskNames p tag).getD i emptyName ∧
      i < (maskNames g tag).length) ∧
    (∀ x, x ∈ maskByName p tag → x ∈ maskByName g tag) := by
  unfold coversMasks at h
  have hall := List.all_eq_true.mp h
  cases hf : findMask tag p with
  | none => simp [maskNames, maskByName, hf]
  | some x =>
    have := hall _ (findMask_mem hf)
    simp only [Bool.and_eq_true] at this
    have e1 : maskNames p tag = x.1 := by simp [maskNames, hf]
    have e2 : maskByName p tag = x.2 := by simp [maskByName, hf]
    rw [e1, e2]
    exact ⟨natPrefix_getD this.1, covers_spec this.2⟩

theorem coversRegistry_parts {pT gT pN gN : Table} {pE gE : EnumIndex} {pM gM : MaskIndex}
    {pET gET pMT gMT : Table} :
    coversRegistry pT gT pN gN pE gE pM gM pET gET pMT gMT = true ↔
    (covers pT gT = true ∧ covers pN gN = true ∧ coversEnums pE gE = true ∧
     coversMasks pM gM = true ∧ covers pET gET = true ∧ covers pMT gMT = true) := by
  simp only [coversRegistry, Bool.and_eq_true]
  constructor
  · rintro ⟨⟨⟨⟨⟨a, b⟩, c⟩, d⟩, e⟩, f⟩; exact ⟨a, b, c, d, e, f⟩
  · rintro ⟨a, b, c, d, e, f⟩; exact ⟨⟨⟨⟨⟨a, b⟩, c⟩, d⟩, e⟩, f⟩

/-- what the information flag `equalsRegistry` means when it is true. -/
theorem equalsRegistry_sound {pT gT pN gN : Table} {pE gE : EnumIndex} {pM gM : MaskIndex}
    {pET gET pMT gMT : Table} (h : equalsRegistry pT gT pN gN pE gE pM gM pET gET pMT gMT = true) :
    (∀ x, x ∈ pT ↔ x ∈ gT) ∧ (∀ x, x ∈ pN ↔ x ∈ gN) ∧
    (∀ tag, agrees (enumByValue pE tag) (enumByValue gE tag) = true ∧
            agrees (enumByName pE tag) (enumByName gE tag) = true) ∧
    (∀ tag, maskNames pM tag = maskNames gM tag ∧ agrees (maskByName pM tag) (maskByName gM tag) = true) ∧
    (∀ x, x ∈ pET ↔ x ∈ gET) ∧ (∀ x, x ∈ pMT ↔ x ∈ gMT) := by
  simp only [equalsRegistry, Bool.and_eq_true] at h
  obtain ⟨⟨⟨⟨⟨a, b⟩, c⟩, d⟩, e⟩, f⟩ := h
  exact ⟨agrees_sound a, agrees_sound b, fun tag => agreesEnums_sound c tag rfl,
    agreesMasks_sound d, agrees_sound e, agrees_sound f⟩

/-! ## Go type ↦ tag maps -/

theorem hasKey_true {k : Nat} {t : Table} (h : hasKey k t = true) : ∃ v, lookup k t = some v := by
  unfold hasKey at h
  obtain ⟨q, hq, he⟩ := List.any_eq_true.mp h
  have : q.1 = k := by simpa using he
  obtain ⟨a, b⟩ := q
  subst this
  exact lookup_isSome_of_mem hq

theorem hasVal_true {v : Nat} {t : Table} (h : hasVal v t = true) : ∃ k, (k, v) ∈ t := by
  unfold hasVal at h
  obtain ⟨q, hq, he⟩ := List.any_eq_true.mp h
  have : q.2 = v := by simpa using he
  obtain ⟨a, b⟩ := q
  subst this
  exact ⟨a, hq⟩

/-- what `typesWF` establishes about a type table (`ttlv.enums` or `ttlv.bitmasks`). -/
structure TypesOk (types typeTags tagNames : Table) (tabTags : List Nat) : Prop where
  /-- a registered type has ONE tag, equal to its default tag (`getTagForType`), registered and non-zero -/
  tag : ∀ ty t, lookup ty types = some t →
    lookup ty typeTags = some t ∧ (∃ n, lookup t tagNames = some n) ∧ 0 < t
  /-- two types never share a table -/
  inj : ∀ ty ty' t, lookup ty types = some t → lookup ty' types = some t → ty = ty'
  /-- every table belongs to a type -/
  onto : ∀ t, t ∈ tabTags → ∃ ty, lookup ty types = some t
  fn : Functional types

theorem typesWF_sound {types typeTags tagNames : Table} {tabTags : List Nat}
    (h : typesWF types typeTags tagNames tabTags = true) : TypesOk types typeTags tagNames tabTags := by
  simp only [typesWF, Bool.and_eq_true] at h
  obtain ⟨⟨⟨⟨hk, hv⟩, _⟩, hall⟩, hon⟩ := h
  refine ⟨?_, ?_, ?_, keysNodup_functional hk⟩
  · intro ty t hl
    have := List.all_eq_true.mp hall _ (lookup_mem hl)
    simp only [Bool.and_eq_true, decide_eq_true_eq] at this
    obtain ⟨⟨h1, h2⟩, h3⟩ := this
    refine ⟨?_, hasKey_true h2, h3⟩
    cases hl2 : lookup ty typeTags with
    | none => simp [optIs, hl2] at h1
    | some z =>
      simp only [optIs, hl2, beq_iff_eq] at h1
      rw [h1]
  · intro ty ty' t h1 h2
    exact valsNodup_unique hv (lookup_mem h1) (lookup_mem h2)
  · intro t ht
    obtain ⟨ty, hm⟩ := hasVal_true (List.all_eq_true.mp hon t ht)
    exact ⟨ty, lookup_of_mem hk hm⟩

/-- the table tag used for a typed value is the type's own tag, whatever the element tag. -/
theorem effTag_typeTag {types typeTags tagNames : Table} {tabTags : List Nat}
    (ok : TypesOk types typeTags tagNames tabTags) {ty t : Nat} (h : lookup ty types = some t)
    (elem : Nat) : effTag (typeTag typeTags ty) elem = t := by
  obtain ⟨h1, _, h3⟩ := ok.tag ty t h
  have : (t == 0) = false := by
    cases t with
    | zero => omega
    | succ n => rfl
  simp [effTag, typeTag, h1, this]

end Kmip.Reg
