package main

// Part of engine `resp` (C12): EVERY fluent request builder of kmipclient is executed, not only Activate / Get /
// Destroy. The builders are found by reflection on *kmipclient.Client: a method whose result — directly or
// after at most two further builder calls with synthesised arguments (`Create().AES(…)`, `Sign(id).Data(…)`,
// `Register().Secret(…)`) — has a method `ExecContext(context.Context) (T, error)` with T a
// kmip.OperationPayload. Nothing else of the builder API is assumed (no RequestPayload(), no Build()): the
// operation a builder requests is read from the request message it sends, and the Go type it returns on
// success is compared with the response type registered for THAT operation. A builder that shadows
// Executor.ExecContext with its own conversion of the response is therefore executed against every one-item
// response shape like the generic one.

import (
	"context"
	"crypto"
	"crypto/ecdsa"
	"crypto/rsa"
	"fmt"
	"reflect"
	"sort"
	"strings"

	kmip "github.com/ovh/kmip-go"
	"github.com/ovh/kmip-go/kmipclient"
)

var (
	bdCtxType     = reflect.TypeFor[context.Context]()
	bdErrType     = reflect.TypeFor[error]()
	bdPayloadType = reflect.TypeFor[kmip.OperationPayload]()
)

// bdIsExecutor: v has ExecContext(context.Context) (T, error) with T implementing kmip.OperationPayload.
func bdIsExecutor(t reflect.Type) bool {
	m, ok := t.MethodByName("ExecContext")
	if !ok {
		return false
	}
	mt := m.Type // receiver is in(0)
	return mt.NumIn() == 2 && mt.In(1) == bdCtxType && !mt.IsVariadic() && mt.NumOut() == 2 &&
		mt.Out(1) == bdErrType && mt.Out(0).Implements(bdPayloadType)
}

// bdArg synthesises an argument of type t (ok=false: no sensible value).
func bdArg(t reflect.Type) (reflect.Value, bool) {
	sgInitKeys()
	switch t {
	case reflect.TypeFor[string]():
		return reflect.ValueOf("id-1"), true
	case reflect.TypeFor[[]byte]():
		return reflect.ValueOf([]byte("0123456789abcdef")), true
	case reflect.TypeFor[kmip.AttributeName]():
		return reflect.ValueOf(kmip.AttributeNameName), true
	case reflect.TypeFor[kmip.Object]():
		return reflect.ValueOf(kmip.Object(cliSecret())), true
	case reflect.TypeFor[*rsa.PrivateKey]():
		return reflect.ValueOf(sgRSA), true
	case reflect.TypeFor[*rsa.PublicKey]():
		return reflect.ValueOf(&sgRSA.PublicKey), true
	case reflect.TypeFor[*ecdsa.PrivateKey]():
		return reflect.ValueOf(sgEC[32]), true
	case reflect.TypeFor[*ecdsa.PublicKey]():
		return reflect.ValueOf(&sgEC[32].PublicKey), true
	case reflect.TypeFor[crypto.PrivateKey]():
		return reflect.ValueOf(sgRSA).Convert(t), true
	case reflect.TypeFor[crypto.PublicKey]():
		return reflect.ValueOf(&sgRSA.PublicKey).Convert(t), true
	case reflect.TypeFor[kmip.ObjectType]():
		return reflect.ValueOf(kmip.ObjectTypeSymmetricKey), true
	case reflect.TypeFor[kmip.CryptographicAlgorithm]():
		return reflect.ValueOf(kmip.CryptographicAlgorithmAES), true
	case reflect.TypeFor[kmip.CryptographicUsageMask]():
		return reflect.ValueOf(kmip.CryptographicUsageEncrypt), true
	case reflect.TypeFor[kmip.SecretDataType]():
		return reflect.ValueOf(kmip.SecretDataTypePassword), true
	case reflect.TypeFor[kmip.RecommendedCurve]():
		return reflect.ValueOf(kmip.RecommendedCurveP_256), true
	}
	switch t.Kind() {
	case reflect.Int, reflect.Int32, reflect.Int64:
		return reflect.ValueOf(256).Convert(t), true
	case reflect.Uint32, reflect.Bool, reflect.Struct:
		return reflect.Zero(t), true
	case reflect.Interface:
		if t.NumMethod() == 0 {
			return reflect.ValueOf("v").Convert(t), true
		}
	}
	return reflect.Value{}, false
}

// bdCall calls method m of v with synthesised arguments (variadic tail empty).
func bdCall(v reflect.Value, m reflect.Method) (reflect.Value, bool) {
	mt := m.Type
	n := mt.NumIn()
	if mt.IsVariadic() {
		n--
	}
	args := []reflect.Value{}
	for i := 1; i < n; i++ {
		a, ok := bdArg(mt.In(i))
		if !ok {
			return reflect.Value{}, false
		}
		args = append(args, a)
	}
	type res struct {
		v  reflect.Value
		ok bool
	}
	r, p := guard("builder "+m.Name, func() res {
		out := v.Method(m.Index).Call(args)
		if len(out) != 1 {
			return res{}
		}
		return res{out[0], true}
	})
	if p != "" {
		return reflect.Value{}, false // a synthetic argument the builder does not like: not a response
	}
	return r.v, r.ok
}

type bdExecutor struct {
	path string // Client method and the further builder calls
	v    reflect.Value
}

// bdFind explores the builder values reachable from v (depth further calls allowed).
func bdFind(path string, v reflect.Value, depth int, out *[]bdExecutor, seen map[string]bool) {
	t := v.Type()
	if bdIsExecutor(t) {
		key := strings.SplitN(path, ".", 2)[0] + "|" + t.String()
		if !seen[key] {
			seen[key] = true
			*out = append(*out, bdExecutor{path, v})
		}
		return
	}
	if depth == 0 || t.Kind() == reflect.Pointer || t.PkgPath() != reflect.TypeFor[kmipclient.Client]().PkgPath() {
		return
	}
	for i := 0; i < t.NumMethod(); i++ {
		m := t.Method(i)
		if m.Type.NumOut() != 1 || m.Type.Out(0) == t {
			continue
		}
		if r, ok := bdCall(v, m); ok {
			bdFind(path+"."+m.Name, r, depth-1, out, seen)
		}
	}
}

// respBuilderAPIs returns one respAPI per fluent executor found; the requested operation is learnt from a
// probe call (the request the builder sends while the transport fails).
func respBuilderAPIs(env *respEnv) []*respAPI {
	cl, obs, _ := env.client(true)
	if cl == nil {
		return nil
	}
	cv := reflect.ValueOf(cl)
	var found []bdExecutor
	seen := map[string]bool{}
	for i := 0; i < cv.NumMethod(); i++ {
		m := cv.Type().Method(i)
		if m.Type.NumOut() != 1 || m.Type.Out(0).Kind() == reflect.Pointer {
			continue
		}
		if r, ok := bdCall(cv, m); ok {
			bdFind(m.Name, r, 2, &found, seen)
		}
	}
	sort.Slice(found, func(i, j int) bool { return found[i].path < found[j].path })
	var apis []*respAPI
	methods := map[string]bool{}
	for _, ex := range found {
		ex := ex
		call := func(_ *kmipclient.Client, ctx context.Context) respOutcome {
			out := ex.v.MethodByName("ExecContext").Call([]reflect.Value{reflect.ValueOf(ctx)})
			if err, _ := out[1].Interface().(error); err != nil {
				return respOutcome{err: err}
			}
			p, _ := out[0].Interface().(kmip.OperationPayload)
			if out[0].Kind() == reflect.Pointer && out[0].IsNil() {
				p = nil
			}
			return respOutcome{single: p}
		}
		// probe
		obs.setInject(func(req *kmip.RequestMessage) (*kmip.ResponseMessage, error, bool) { return nil, errCliInjected, true })
		_, pn := guard("probe "+ex.path, func() respOutcome { return call(cl, context.Background()) })
		evs := obs.take()
		if pn != "" {
			cliViolate(env.ctx, "C12", "no-panic", "exec:panic "+panicKey(pn), ex.path+".ExecContext panicked on a failed round trip: "+pn, "#builder "+ex.path)
			continue
		}
		if len(evs) != 1 || len(evs[0].seen.ops) != 1 {
			env.ctx.Res.Count("resp.builder-not-sent") // the synthetic arguments made the builder refuse
			continue
		}
		op := evs[0].seen.ops[0]
		apis = append(apis, &respAPI{name: "builder:" + ex.path, kind: "exec", reqOps: []uint32{op}, call: call})
		methods[strings.SplitN(ex.path, ".", 2)[0]] = true
		env.ctx.Add("#builder "+ex.path, fmt.Sprintf("op=0x%X type=%v", op, ex.v.Type()), false, "C12")
	}
	env.ctx.Add("#builders-executed", fmt.Sprint(len(methods)), false, "C12")
	if len(methods) < 15 { // a floor against vacuity, far below the 26 builders of today
		env.ctx.Res.Fail(fmt.Sprintf("resp: only %d fluent builders of *kmipclient.Client could be executed (found: %v)", len(methods), methods))
	}
	return apis
}
