/-
  Certificate obligations, parts 2..3 of 16 of the `current` client system (kernel evaluation; 8 modules
  so that lake checks them in parallel). Assembled in `Lemmas/CliCert.lean`.
-/
import KmipModel.Model.CliConn
import KmipModel.Gen.CertCliConn
namespace Kmip.CliCert
open Kmip.CliLts Kmip.CliConn Kmip.Gen.CertCliConn

theorem cuClosed2 : partClosed (sys current) codec certCurrent cuP2 = true := by decide +kernel
theorem cuSafe2 : partSafe codec (bad current) cuP2 = true := by decide +kernel
theorem cuClosed3 : partClosed (sys current) codec certCurrent cuP3 = true := by decide +kernel
theorem cuSafe3 : partSafe codec (bad current) cuP3 = true := by decide +kernel

end Kmip.CliCert
