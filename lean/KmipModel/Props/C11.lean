/-
  C11 — the client survives connection faults at every point of an exchange.

  Same system and same certificate as C10 (`Kmip.CliConn.sys current`, `certCurrent`). The fault injector of
  the model may fail ANY read of the read loop (retryable io.EOF / closed, or fatal reset), ANY write of
  the write loop (also: short write), ANY dial, at any time and any number of times; the server may
  answer late or never; the caller's context may be cancelled at any step; `Close()` runs concurrently
  with everything (it does not take the mutex). Version negotiation is an ordinary call followed, on
  failure, by `Close()`, so `DialContext` is covered by the same runs.

  BYTE LEVEL. "A complete valid response or an error, never a partial or corrupted one" is the framing
  theorem of C07 (`never_partial_response` below restates it): `Stream.Recv` yields exactly the bytes
  of one frame or an error, whatever the transport does; the read loop turns every error into
  `terminate`. The state machine therefore only distinguishes "a whole response" from "an error".

  HISTORY. Two defects found with this model have been repaired in the code and are now witnesses about
  OLD parameter valuations: `old_close_race_leaks_goroutines` (before 9b690e3 `reconnect` could install
  a connection after `Close()` had read `c.conn`; it was never closed) and `old_recovers_needs_settled`
  (before 2c3eae7 the write loop reported a failed write before terminating the connection, so the call
  issued right after the failed one could still fail with the same error).

  PROGRESS. `progress` = the steps of the client's goroutines, of the transport completing a write and of the
  server answering (nothing fails, nobody cancels or closes). Every progress step of every reachable state
  strictly decreases the ranking function `measure` (`progress_terminates`): between two disturbances the system
  comes to rest after boundedly many steps, so the quiescence statements below (`no_stuck`, `no_hang`) are
  statements about states that ARE reached. `clean_call_succeeds`: a call during which nothing fails returns
  its response on every maximal run of progress steps — it is never blocked, never ends in an error.

  RETRY BUDGET. `current.retries` (the `retry := 3` of `doRountrip`) is a parameter; the harness observes the
  budget of the real code (a call whose every connection is dropped: number of request messages on the wire) and
  compares it with the model's (`lts.budget`), and runs every scenario under the observed budget.

  Scope as for C10: theorems about the modelled (fused, see C10) state machine; goroutine reclamation, sockets
  and the Go scheduler are observed by the harness (`lts.cli`), not proved. Dials always return (success or
  failure); a dial that blocks until its context ends is exercised by the harness only.
-/
import KmipModel.Lemmas.CliCert
import KmipModel.Lemmas.CliProgress
import KmipModel.Props.C07
namespace Kmip.C11
open Kmip.CliLts Kmip.CliConn Kmip.Gen.CertCliConn

theorem cliconn_closed : closedUnder (sys current) codec certCurrent := CliCert.current_closed

/-- 1. No panic: neither a send on a closed channel nor a nil dereference in `Close`. -/
theorem no_crash {s : St} (h : Reachable (sys current) s) : s.panic = 0 := by
  have := (CliCert.current_good h).panic
  simpa [badPanic] using this

/-- 2. A pending call never hangs once it has a reason to return: whenever the caller's context is
    done or the connection's context is cancelled, some step of the client's own goroutines is enabled
    (no waiting for the peer). -/
theorem no_hang {s : St} (h : Reachable (sys current) s) (hk : kActive s = true)
    (hr : s.kctx = true ∨ (s.has = true ∧ s.cause ≠ 0)) : stepInt current s ≠ [] := by
  have hb := (CliCert.current_good h).hang
  intro he
  have : badHang current s = true := by
    simp only [badHang, quiescent, hk, he, List.isEmpty_nil, Bool.and_true, Bool.true_and,
      Bool.or_eq_true, Bool.and_eq_true, bne_iff_ne]
    rcases hr with h1 | ⟨h1, h2⟩
    · exact Or.inl h1
    · exact Or.inr ⟨h1, h2⟩
  rw [this] at hb; cases hb

/-- 3. A single call hands its request to a writer at most `retries + 1` times … -/
theorem transmissions_le_budget {s : St} (h : Reachable (sys current) s) : s.ntx ≤ current.retries + 1 := by
  have := (CliCert.current_good h).tx
  simpa [badTx] using this

/-- … and the budget of the model (which the harness compares with the one it observes on the real code)
    is four transmissions. -/
theorem budget_is_four : current.retries + 1 = 4 := rfl

theorem transmissions_le_4 {s : St} (h : Reachable (sys current) s) : s.ntx ≤ 4 :=
  budget_is_four ▸ transmissions_le_budget h

/-- 4. Once the client is closed, calls fail and do not dial: a call that takes the mutex after
    `Close()` has set `c.closed` neither returns a response nor reaches the dial. -/
theorem closed_stays_closed {s : St} (h : Reachable (sys current) s) (hb : s.born = true) :
    s.kp ≠ .retOk ∧ s.kp ≠ .rc5 := by
  have := (CliCert.current_good h).afterClose
  simp only [badAfterClose, hb, Bool.true_and, Bool.or_eq_false_iff, beq_eq_false_iff_ne] at this
  exact this

/-- 5. Recovery. A call that starts on an open client while the read loop is not in the middle of
    processing a failed `Recv` on a live connection (`settled`: not between the failed `Recv` and the `cancel`
    of its `terminate` — a call that starts there overlaps the detection of the fault), and during which no
    fault, no cancellation and no `Close()` occurs (`clean`), does not end in an error, whatever state
    the previous faults left behind — dead connection, nil connection, late responses, a write error
    just reported to the previous call. `recovers_needs_settled` shows that the precondition on the read
    loop cannot be dropped. -/
theorem recovers {s : St} (h : Reachable (sys current) s) (hc : s.clean = true) : s.kp ≠ .retErr := by
  have := (CliCert.current_good h).recover
  simpa [badRecover, hc] using this

/-- 5b. … it is never blocked: as long as it has not returned, some step of the client's own goroutines is
    enabled, or a write is in progress, or the server owes an answer. -/
theorem clean_call_not_blocked {s : St} (h : Reachable (sys current) s) (hc : s.clean = true)
    (hk : kActive s = true) : progress current s ≠ [] := by
  have hb := (CliCert.current_good h).blocked
  simp only [badCleanBlocked, hc, hk, Bool.true_and, Bool.or_eq_false_iff] at hb
  intro he
  rw [he] at hb
  exact absurd hb.1 (by decide)

/-- 5c. … and it SUCCEEDS: from any reachable state with a clean call in progress, every maximal run of
    progress steps (any interleaving of the client's goroutines, the transport and the server) ends with the
    call returning a response — its own, by `C10.no_stale_delivery` — after at most `measure s` steps. -/
theorem clean_call_succeeds {s : St} (h : Reachable (sys current) s) (hc : s.clean = true)
    (hk : kActive s = true) : CliCert.Succeeds current s :=
  CliCert.clean_succeeds h hc hk

/-- 5d. Progress terminates: every progress step of every reachable state decreases `measure`; no run of
    progress steps from a reachable state is longer than its measure. (So the states "in which nothing can
    move" of `no_stuck` / `no_hang` / `abandoned_conn_drains` are reached whenever the environment pauses.) -/
theorem progress_terminates {s : St} (h : Reachable (sys current) s) :
    (∀ t ∈ progress current s, measure t < measure s) ∧ ∀ n, CliCert.Run current s n → n ≤ measure s :=
  ⟨fun _ ht => CliCert.measure_decreases h ht, fun _ hr => CliCert.run_bounded hr h⟩

/-- 6a. Goroutines of the current connection, in full: when nothing is running (no call, no `Close()`
    in progress, no enabled step of the client's goroutines) and the connection has been cancelled or
    the client closed, the read loop and the write loop have ended. -/
theorem no_stuck {s : St} (h : Reachable (sys current) s) : badStuck current s = false :=
  (CliCert.current_good h).stuck

/-- the full statement of "a closed client / a cancelled connection leaves no goroutine behind". -/
def C11_no_stuck_full : Prop := ∀ s, Reachable (sys current) s → badStuck current s = false

theorem no_stuck_full : C11_no_stuck_full := fun _ h => no_stuck h

/-- no connection is ever installed (and kept) after `Close()` has set `c.closed`. -/
theorem no_conn_after_close {s : St} (h : Reachable (sys current) s) : s.raced = false :=
  (CliCert.current_good h).raced

/-- 6b. Hand-off. Whenever `reconnect` drops a connection (`c.conn = nil`), that connection is closed
    and either fully terminated or inside the `terminate` of a `Close()` that holds a pointer to it. -/
theorem handoff_ok {s : St} (h : Reachable (sys current) s) (hk : s.kp = .rc4) (hh : s.has = true) :
    handoffOk s = true := by
  have := (CliCert.current_good h).handoff
  simpa [badHandoff, hk, hh] using this

/-- 6c. Goroutines of every connection the client has let go of, however many there are: from the
    hand-off state on, in every state of the let-go connection in which none of its goroutines (nor
    the `Close()` still holding it) can move, both loops have ended; and it never panics. -/
theorem abandoned_conn_drains {s : St} (h : Reachable (sys current) s) (hk : s.kp = .rc4)
    (hh : s.has = true) {d : Option St}
    (hd : Reachable (CliDrain.sysAt current (norm current (CliDrain.proj s))) d) :
    CliDrain.bad current d = false :=
  CliCert.drain_inv
    (CliDrain.reachable_of_sysAt (CliDrain.start_mem current s (handoff_ok h hk hh)) hd)

/-- 7. Byte level (C07): a response cut anywhere never yields a message, for every read schedule;
    a complete frame yields exactly that frame and leaves the following bytes untouched. -/
theorem never_partial_response (max : Nat) (m : Bytes) (hm : Framed m) :
    (∀ (k : Nat) (sched : List ReadEv), k < m.length →
      ∀ bs, (recv max { wire := m.take k, sched := sched }).res ≠ .msg bs) ∧
    (∀ (rest : Bytes) (sched : List ReadEv), (max = 0 ∨ m.length ≤ max) → Progressive sched →
      (∀ ev ∈ sched, ev.withErr = false) →
      (recv max { wire := m ++ rest, sched := sched }).res = .msg m) :=
  ⟨fun k sched hk => C07.recv_truncated max m k sched hm hk,
   fun rest sched hmax hp he => by
     obtain ⟨_, h, _⟩ := C07.recv_exact max m rest sched hm hmax hp he
     exact h⟩

/-! ### non-vacuity -/

/-- a clean call that succeeds. -/
example : ∃ s, Reachable (sys current) s ∧ s.clean = true ∧ s.kp = .retOk :=
  ⟨endOf (sys current) [0, 0, 0, 0, 0, 0, 0, 0, 0, 0, 2, 0, 0, 3, 0, 0],
    reachable_endOf _ (by decide +kernel), by decide +kernel, by decide +kernel⟩

/-- a clean call in progress (waiting for the server's answer): `clean_call_succeeds` applies to it. -/
example : ∃ s, Reachable (sys current) s ∧ s.clean = true ∧ kActive s = true ∧ s.kp = .k6 :=
  ⟨endOf (sys current) [0, 0, 0, 0, 0, 0, 0, 0, 0, 0, 2, 0, 0],
    reachable_endOf _ (by decide +kernel), by decide +kernel, by decide +kernel, by decide +kernel⟩

/-- a call that uses up its budget: four transmissions, then an error. -/
example : ∃ s, Reachable (sys current) s ∧ s.ntx = 4 ∧ s.kp = .retErr :=
  ⟨endOf (sys current) [0, 0, 0, 0, 0, 1, 4, 1, 0, 0, 0, 0, 0, 0, 1, 4, 1, 0, 0, 0, 0, 0, 0, 1, 4, 1, 0,
      0, 0, 0, 0, 0, 0, 0, 1, 0, 4, 1, 0],
    reachable_endOf _ (by decide +kernel), by decide +kernel, by decide +kernel⟩

/-- a call on a closed client fails. -/
example : ∃ s, Reachable (sys current) s ∧ s.born = true ∧ s.kp = .retErr :=
  ⟨endOf (sys current) [1, 1, 0], reachable_endOf _ (by decide +kernel), by decide +kernel,
    by decide +kernel⟩

/-- a hand-off does occur (a connection is let go of after a write fault). -/
example : ∃ s, Reachable (sys current) s ∧ s.kp = .rc4 ∧ s.has = true :=
  ⟨endOf (sys current) [0, 0, 0, 0, 0, 1, 4, 1, 0, 0, 0, 0],
    reachable_endOf _ (by decide +kernel), by decide +kernel, by decide +kernel⟩

/-- a closed client whose goroutines have all ended. -/
example : ∃ s, Reachable (sys current) s ∧ s.cclosed = true ∧ s.cp = .cDone ∧ s.has = true ∧
    connEnded s = true ∧ s.kp = .idle :=
  ⟨endOf (sys current) [0, 0, 0, 0, 2, 1, 0, 0, 0, 0],
    reachable_endOf _ (by decide +kernel), by decide +kernel, by decide +kernel, by decide +kernel,
    by decide +kernel, by decide +kernel⟩

/-! ### the behaviour before the repairs, and why `recovers` needs `settled` -/

/-- before 9b690e3: `reconnect` does not re-check `c.closed` after installing the new connection. -/
def beforeRecheckFix : Params := { current with recheckAfterDial := false }

/-- `Close()` while a call is about to dial: the call's connection is installed after `Close()` has
    read `c.conn == nil`; the call returns, the client is closed, nothing can move, and the read loop
    (in `Recv`) and the write loop (in its select) of the new connection are still there. -/
theorem old_close_race_leaks_goroutines :
    ∃ s, Reachable (sys beforeRecheckFix) s ∧ badStuck beforeRecheckFix s = true ∧ s.cclosed = true ∧
      s.cp = .cDone ∧ s.rp = .r1 ∧ s.wp = .ws :=
  ⟨endOf (sys beforeRecheckFix) [0, 0, 0, 0, 1, 1, 1, 0, 0, 0, 0, 0],
    reachable_endOf _ (by decide +kernel), by decide +kernel, by decide +kernel, by decide +kernel,
    by decide +kernel, by decide +kernel⟩

/-- before 2c3eae7: `writeloop` does `req.err <- err` before `c.terminate(err)`. -/
def beforeWriteErrFix : Params := { current with terminateBeforeErr := false }

/-- Before 2c3eae7 `recovers` failed although the read loop was settled: the call that follows a
    call failed by a fatal write error finds the connection still live (the write loop has reported
    but not yet cancelled) and fails with the old error although nothing fails during it. -/
theorem old_recovers_needs_settled :
    ∃ s, Reachable (sys beforeWriteErrFix) s ∧ s.clean = true ∧ s.kp = .retErr :=
  ⟨endOf (sys beforeWriteErrFix) [0, 0, 0, 0, 0, 0, 0, 1, 0, 5, 1, 0, 0, 2, 0, 0, 2, 0],
    reachable_endOf _ (by decide +kernel), by decide +kernel, by decide +kernel⟩

/-- before 03f0b5a: `doRountrip` dials only when `c.conn == nil`. -/
def beforeDeadConnFix : Params := { current with reuseDeadConn := true }

/-- Before 03f0b5a a connection killed by a reset is kept: a later call — no fault, no cancellation,
    no `Close()` during it — fails with the old error. -/
theorem old_dead_conn_reused : ∃ s, Reachable (sys beforeDeadConnFix) s ∧ s.clean = true ∧ s.kp = .retErr :=
  ⟨endOf (sys beforeDeadConnFix) [0, 0, 0, 0, 0, 1, 5, 1, 0, 0, 2, 0, 0, 0],
    reachable_endOf _ (by decide +kernel), by decide +kernel, by decide +kernel⟩

/-- before 9ada762: `Client.Close` dereferences `c.conn` unconditionally. -/
def beforeCloseFix : Params := { current with closeRepaired := false }

theorem old_close_nil_deref : ∃ s, Reachable (sys beforeCloseFix) s ∧ s.panic = 2 :=
  ⟨endOf (sys beforeCloseFix) [1, 0], reachable_endOf _ (by decide +kernel), by decide +kernel⟩

/-- before d24e630: `terminate` closes the tx channel a concurrent `send` may already hold. -/
def beforeTxFix : Params := { current with terminateClosesTx := true }

theorem old_terminate_close_tx_panics : ∃ s, Reachable (sys beforeTxFix) s ∧ s.panic = 1 :=
  ⟨endOf (sys beforeTxFix) [0, 0, 0, 0, 0, 0, 0, 0, 3, 0, 1, 0],
    reachable_endOf _ (by decide +kernel), by decide +kernel⟩

/-- before 4f747d8: the per-message error channel is unbuffered. -/
def beforeErrChFix : Params := { current with errChBuffered := false }

/-- the write loop blocks forever on `req.err <- err` once the sender has left. -/
theorem old_unbuffered_errch_leaks :
    ∃ s, Reachable (sys beforeErrChFix) s ∧ badStuck beforeErrChFix s = true :=
  ⟨endOf (sys beforeErrChFix) [0, 0, 0, 0, 0, 0, 0, 0, 0, 0, 3, 5, 1, 0, 0, 0],
    reachable_endOf _ (by decide +kernel), by decide +kernel⟩

/-- `recovers` without the `settled` precondition is false of the current code, and this is not a
    defect: a call that starts after `Recv` has returned a fatal error to the read loop but before
    the read loop has cancelled the connection context overlaps the detection of the fault; it still
    sees a live connection and fails with that error. -/
def cleanWithoutSettled : Params := { current with cleanNeedsSettled := false }

theorem recovers_needs_settled :
    ∃ s, Reachable (sys cleanWithoutSettled) s ∧ s.clean = true ∧ s.kp = .retErr :=
  ⟨endOf (sys cleanWithoutSettled) [0, 0, 0, 0, 0, 1, 2, 0, 0, 4, 2, 0, 0, 1, 0],
    reachable_endOf _ (by decide +kernel), by decide +kernel, by decide +kernel⟩

end Kmip.C11
