package main

import (
	"encoding/hex"
	"fmt"
	"io"
	"os"
	"path/filepath"
	"regexp"
	"sort"
	"strconv"
	"strings"
)

// Cross-check of the PINNED registry (parsed back from its Lean source, not taken from the live
// library) against the OASIS XML test vectors shipped in /repo/kmiptest/testdata:
//   - every element name must be a pinned tag name;
//   - every `type="Enumeration" value="Name"` must be a value name of the enumeration designated by the
//     element (or, inside <Attribute>, by the preceding AttributeName with blanks removed);
//   - every name inside a `type="Integer"` value of a bit-mask element must be a flag name of that mask.
// It also checks the numbering scheme of the pin (tags consecutive from 0x420001, enumeration values
// from 1 upwards, mask flags 1<<i) and prints what deviates, for review.

var (
	defRe   = regexp.MustCompile(`^def (\w+) : `)
	pairRe  = regexp.MustCompile(`^\s+\(0x([0-9A-F]+), 0x([0-9A-F]+)\)`)
	singlRe = regexp.MustCompile(`^\s+0x([0-9A-F]+),?\s`)
	chunkRe = regexp.MustCompile(`Chunk\d+$`)
)

func unpackHex(h string) (string, error) {
	if len(h)%2 == 1 {
		h = "0" + h
	}
	b, err := hex.DecodeString(h)
	if err != nil {
		return "", err
	}
	if len(b) == 0 || b[0] != 1 {
		return "", fmt.Errorf("packed name %s lacks the 0x01 marker", h)
	}
	return string(b[1:]), nil
}

// parsePinned reads a registry module written by renderRegistry.
func parsePinned(path string) (regData, error) {
	var r regData
	src, err := os.ReadFile(path)
	if err != nil {
		return r, err
	}
	enums := map[uint64]*enumTab{}
	masks := map[uint64]*maskTab{}
	getEnum := func(t uint64) *enumTab {
		if enums[t] == nil {
			enums[t] = &enumTab{Tag: t}
		}
		return enums[t]
	}
	getMask := func(t uint64) *maskTab {
		if masks[t] == nil {
			masks[t] = &maskTab{Tag: t}
		}
		return masks[t]
	}
	cur := ""
	for ln, line := range strings.Split(string(src), "\n") {
		if m := defRe.FindStringSubmatch(line); m != nil {
			cur = chunkRe.ReplaceAllString(m[1], "")
			// make sure empty tables exist too
			if p := strings.Split(cur, "_"); len(p) == 3 {
				t, _ := strconv.ParseUint(p[1], 16, 64)
				if p[0] == "enum" {
					getEnum(t)
				} else if p[0] == "mask" {
					getMask(t)
				}
			}
			continue
		}
		fail := func(err error) (regData, error) {
			return r, fmt.Errorf("%s:%d: %v", path, ln+1, err)
		}
		parts := strings.Split(cur, "_")
		if m := pairRe.FindStringSubmatch(line); m != nil {
			a, _ := strconv.ParseUint(m[1], 16, 64)
			byNum := cur == "tagNames" || (len(parts) == 3 && parts[2] == "byValue")
			var e entry
			if byNum {
				n, err := unpackHex(m[2])
				if err != nil {
					return fail(err)
				}
				e = entry{a, n}
			} else {
				n, err := unpackHex(m[1])
				if err != nil {
					return fail(err)
				}
				b, err := strconv.ParseUint(m[2], 16, 64)
				if err != nil {
					return fail(err)
				}
				e = entry{b, n}
			}
			switch {
			case cur == "tagNames":
				r.Tags = append(r.Tags, e)
			case cur == "tagByName":
				r.TagsByName = append(r.TagsByName, e)
			case len(parts) == 3 && parts[0] == "enum":
				t, _ := strconv.ParseUint(parts[1], 16, 64)
				if parts[2] == "byValue" {
					getEnum(t).ByValue = append(getEnum(t).ByValue, e)
				} else {
					getEnum(t).ByName = append(getEnum(t).ByName, e)
				}
			case len(parts) == 3 && parts[0] == "mask" && parts[2] == "byName":
				t, _ := strconv.ParseUint(parts[1], 16, 64)
				getMask(t).ByName = append(getMask(t).ByName, e)
			}
			continue
		}
		if m := singlRe.FindStringSubmatch(line + " "); m != nil && len(parts) == 3 && parts[0] == "mask" && parts[2] == "names" {
			n, err := unpackHex(m[1])
			if err != nil {
				return fail(err)
			}
			t, _ := strconv.ParseUint(parts[1], 16, 64)
			getMask(t).Names = append(getMask(t).Names, n)
		}
	}
	for _, e := range enums {
		r.Enums = append(r.Enums, *e)
	}
	for _, m := range masks {
		r.Masks = append(r.Masks, *m)
	}
	r.sort()
	return r, nil
}

// enumScopeAlias: elements whose enumeration values belong to the enumeration of ANOTHER tag
// (KMIP 1.4 §2.1.7: Mask Generator Hashing Algorithm takes Hashing Algorithm values).
var enumScopeAlias = map[string]string{
	"MaskGeneratorHashingAlgorithm": "HashingAlgorithm",
}

// unsupportedEnums: enumerations of KMIP 1.0–1.4 that the library does not register at all (their tag is
// registered, their values travel as numbers only). They are outside the pin (which covers the registered
// enumerations) and are reported as a note, not as a problem of the pin.
var unsupportedEnums = map[string]bool{
	"DerivationMethod": true, // Derive Key is not implemented by the library
}

var (
	elemRe = regexp.MustCompile(`<([A-Za-z_][\w.\-]*)((?:\s+[\w:]+\s*=\s*"[^"]*")*)\s*/?>`)
	attrRe = regexp.MustCompile(`([\w:]+)\s*=\s*"([^"]*)"`)
	numRe  = regexp.MustCompile(`^(0x[0-9A-Fa-f]+|[0-9]+)$`)
)

func checkVectors(dir, pinnedPath string, out io.Writer) (bool, error) {
	pin, err := parsePinned(pinnedPath)
	if err != nil {
		return false, err
	}
	tagByName := map[string]uint64{}
	for _, e := range pin.TagsByName {
		tagByName[e.Name] = e.Num
	}
	enumNames := map[uint64]map[string]uint64{}
	for _, e := range pin.Enums {
		m := map[string]uint64{}
		for _, x := range e.ByName {
			m[x.Name] = x.Num
		}
		enumNames[e.Tag] = m
	}
	maskNames := map[uint64]map[string]uint64{}
	for _, mk := range pin.Masks {
		m := map[string]uint64{}
		for _, x := range mk.ByName {
			m[x.Name] = x.Num
		}
		maskNames[mk.Tag] = m
	}

	ok := true
	problem := func(format string, a ...any) {
		ok = false
		fmt.Fprintf(out, "PIN-PROBLEM "+format+"\n", a...)
	}
	note := func(format string, a ...any) { fmt.Fprintf(out, "note: "+format+"\n", a...) }

	// ---- numbering scheme -----------------------------------------------------------------------
	for i, e := range pin.Tags {
		if want := uint64(0x420001 + i); e.Num != want {
			problem("tag #%d is 0x%06X (%s), expected 0x%06X: tags are not consecutive from 0x420001", i, e.Num, e.Name, want)
			break
		}
	}
	if len(pin.Tags) != len(pin.TagsByName) {
		problem("tagNames has %d entries, tagByName %d", len(pin.Tags), len(pin.TagsByName))
	}
	for _, e := range pin.Enums {
		if len(e.ByValue) != len(e.ByName) {
			problem("enum 0x%06X: byValue has %d entries, byName %d", e.Tag, len(e.ByValue), len(e.ByName))
		}
		if _, isTag := tagByName[pin.tagName(e.Tag)]; !isTag {
			problem("enum tag 0x%06X is not a pinned tag", e.Tag)
		}
		var gaps []string
		prev := uint64(0)
		for _, x := range e.ByValue {
			if x.Num != prev+1 {
				gaps = append(gaps, fmt.Sprintf("0x%X→0x%X(%s)", prev, x.Num, x.Name))
			}
			prev = x.Num
		}
		if len(gaps) > 0 {
			note("enum %s: values are not 1,2,3…: %s", pin.tagName(e.Tag), strings.Join(gaps, " "))
		}
	}
	for _, m := range pin.Masks {
		if len(m.Names) != len(m.ByName) {
			problem("mask 0x%06X: %d names, %d byName entries", m.Tag, len(m.Names), len(m.ByName))
		}
		by := map[string]uint64{}
		for _, x := range m.ByName {
			by[x.Name] = x.Num
		}
		for i, n := range m.Names {
			if v, found := by[n]; !found || v != uint64(1)<<uint(i) {
				problem("mask %s: flag %d %q maps to 0x%X, expected 0x%X", pin.tagName(m.Tag), i, n, v, uint64(1)<<uint(i))
			}
		}
	}

	// ---- vectors --------------------------------------------------------------------------------------
	var files []string
	err = filepath.WalkDir(dir, func(p string, d os.DirEntry, err error) error {
		if err == nil && !d.IsDir() && strings.HasSuffix(p, ".xml") {
			files = append(files, p)
		}
		return err
	})
	if err != nil {
		return false, err
	}
	sort.Strings(files)
	seenElems := map[string]int{}
	seenEnum := map[string]int{}
	seenFlag := map[string]int{}
	missing := map[string]string{}
	unsupported := map[string]string{}
	nElems := 0
	for _, f := range files {
		src, err := os.ReadFile(f)
		if err != nil {
			return false, err
		}
		attrName := ""
		for _, m := range elemRe.FindAllStringSubmatch(string(src), -1) {
			name := m[1]
			attrs := map[string]string{}
			for _, a := range attrRe.FindAllStringSubmatch(m[2], -1) {
				attrs[a[1]] = a[2]
			}
			if name == "KMIP" {
				continue
			}
			nElems++
			var tag uint64
			if name == "TTLV" {
				t, err := strconv.ParseUint(strings.TrimPrefix(attrs["tag"], "0x"), 16, 32)
				if err != nil {
					missing["element TTLV without usable tag attribute"] = f
					continue
				}
				tag = t
			} else {
				t, found := tagByName[name]
				if !found {
					missing["tag name "+name] = f
					continue
				}
				tag = t
				seenElems[name]++
			}
			if name == "AttributeName" {
				attrName = strings.ReplaceAll(attrs["value"], " ", "")
			}
			scope := tag
			if name == "AttributeValue" {
				t, found := tagByName[attrName]
				if !found {
					if attrs["type"] == "Enumeration" && !strings.HasPrefix(attrName, "x-") && !strings.HasPrefix(attrName, "y-") {
						missing["attribute name "+attrName+" (enumeration valued) is not a tag name"] = f
					}
					continue
				}
				scope = t
			}
			if alias, found := enumScopeAlias[pin.tagName(scope)]; found && attrs["type"] == "Enumeration" {
				scope = tagByName[alias]
			}
			val, hasVal := attrs["value"]
			switch attrs["type"] {
			case "Enumeration":
				if !hasVal || numRe.MatchString(val) {
					continue
				}
				tbl, found := enumNames[scope]
				if !found {
					if unsupportedEnums[pin.tagName(scope)] {
						unsupported[fmt.Sprintf("%s.%s", pin.tagName(scope), val)] = f
						continue
					}
					missing[fmt.Sprintf("enumeration %s (0x%06X) is not pinned (value %q)", pin.tagName(scope), scope, val)] = f
					continue
				}
				if _, found := tbl[val]; !found {
					missing[fmt.Sprintf("enum value %s.%s", pin.tagName(scope), val)] = f
					continue
				}
				seenEnum[pin.tagName(scope)+"."+val]++
			case "Integer":
				tbl, isMask := maskNames[scope]
				if !isMask || !hasVal {
					continue
				}
				for _, part := range strings.FieldsFunc(val, func(r rune) bool { return r == ' ' || r == '|' || r == '\t' }) {
					if numRe.MatchString(part) || strings.HasPrefix(part, "-") {
						continue
					}
					if _, found := tbl[part]; !found {
						missing[fmt.Sprintf("mask flag %s.%s", pin.tagName(scope), part)] = f
						continue
					}
					seenFlag[pin.tagName(scope)+"."+part]++
				}
			}
		}
	}
	var keys []string
	for k := range missing {
		keys = append(keys, k)
	}
	sort.Strings(keys)
	for _, k := range keys {
		problem("vectors use %s — absent from the pin (first seen in %s)", k, missing[k])
	}
	keys = nil
	for k := range unsupported {
		keys = append(keys, k)
	}
	sort.Strings(keys)
	for _, k := range keys {
		note("vectors use %s of an enumeration the library does not register (outside the pin; first seen in %s)", k, unsupported[k])
	}
	nv := 0
	for _, e := range pin.Enums {
		nv += len(e.ByValue)
	}
	nf := 0
	for _, m := range pin.Masks {
		nf += len(m.Names)
	}
	fmt.Fprintf(out, "vectors: %d files, %d elements; distinct tag names used %d of %d pinned; distinct enum value names used %d of %d pinned; distinct mask flag names used %d of %d pinned; missing from the pin: %d\n",
		len(files), nElems, len(seenElems), len(pin.Tags), len(seenEnum), nv, len(seenFlag), nf, len(missing))
	return ok, nil
}
