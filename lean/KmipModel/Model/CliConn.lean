/-
  Client connection and client — model of `kmipclient/conn.go` (`newConn`, `Close`, `terminate`,
  `checkAvailable`, `readloop`, `writeloop`, `send`, `recv`, `roundtrip`) and `kmipclient/client.go`
  (`Client.Close`, `reconnect`, `doRountrip`; `DialContext` = dial + one ordinary call for the version
  negotiation + `Close` when that call fails), as a transition system over explicit program counters.

  SEMANTICS ENCODED (assumed of the Go runtime, not verified): every statement touching shared state
  (an atomic, a context, a channel, the net.Conn) is one atomic step; an unbuffered channel operation
  is one joint step of sender and receiver; `select` chooses non-deterministically among its ready
  cases; a context is a monotone flag with a first-writer-wins cause; `terminate` is three separate
  steps (cancel / swap tx / close stream) for every goroutine executing it.

  PROCESSES. `R` readloop, `W` writeloop of the *current* connection (the value of `c.conn`); `K` the
  caller holding the client mutex (callers are serialised by `c.lock`; waiting callers have no effect
  on the state, so "any number of callers" is: a new call may start whenever `K` is idle; caller
  identities are abstracted by symmetry); `C` one invocation of `Client.Close()`, which does NOT take
  the mutex and may start at any time. ENVIRONMENT: the server answers a received request after any
  delay or never; while `faultFree = false` the fault injector may fail any read of `R`
  (retryable = io.EOF / closed; fatal = reset, anything else), any write of `W`, any dial; the caller's
  context may be cancelled at any step; `faultFree` may be switched on at any time (and stays on).
  A response followed by the server closing, a short write, a partial message followed by EOF are
  covered by these: `Stream.Recv` returns either a complete message or an error (C07
  `recv_truncated`/`recv_exact`), and a failed/short `Write` returns an error to `writeloop`.

  COLOURING (C10). Request/response contents never influence control (data independence), and callers
  are interchangeable (symmetry), so a message is represented by one of two colours: `cur` — it belongs
  to the exchange the caller now holding the mutex has started on this connection — or `stale` — it
  belongs to an exchange that its caller has left ("abandoned") after handing the request to the
  writer. When `K` leaves an exchange without its response, every `cur` token of the connection
  (held by `W`, pending at the server, in flight, held by `R`) is recoloured `stale` and the connection
  is marked `tainted`. The abstraction is sound for C10: a concrete run in which some call receives a
  response other than the one to its own request maps, by forgetting identities, to a run in which `K`
  receives a `stale` token; what is lost is only the distinction between different stale exchanges.
  At most one stale token per connection is represented; the ghost flag `overflow` records any attempt
  to create a second one, and the certificate proves `overflow` unreachable (nothing is lost).

  OLDER CONNECTIONS. When `reconnect` executes `c.conn = nil` the connection leaves this system; from
  then on it is touched only by its own `R`/`W` and possibly by a `Close()` that still holds a pointer
  to it. That residual system is `Drain` below; the hand-off condition `handoffOk` is proved of every
  state in which `c.conn = nil` is executed, and `Drain` starts from every state satisfying it. So the
  number of connection generations is unbounded in the result although one is tracked at a time.

  PARAMETERS (`Params`) switch individual repairs off, so the behaviour before each `fix:` commit
  is expressible and yields a concrete trace to a bad state.
-/
import KmipModel.Model.CliLts
namespace Kmip.CliConn
open Kmip.CliLts

structure Params where
  recvCheckTearsDown : Bool      -- aa61431: `recv` terminates when the caller's context is done at its check
  reuseDeadConn      : Bool      -- true = before 03f0b5a: `doRountrip` only dials when `c.conn == nil`
  terminateClosesTx  : Bool      -- true = before d24e630: `terminate` closes the swapped-out tx channel
  errChBuffered      : Bool      -- 4f747d8: `make(chan error, 1)`
  closeRepaired      : Bool      -- 9ada762: client-level `closed` flag, nil-tolerant `Close`
  dbg : Nat := 0
  recheckAfterDial   : Bool      -- NOT in the code: proposed patch (reconnect re-checks `c.closed` after dialing)
  deriving Repr, DecidableEq, Inhabited

/-- the code as it is now. -/
def current : Params :=
  { recvCheckTearsDown := true, reuseDeadConn := false, terminateClosesTx := false,
    errChBuffered := true, closeRepaired := true, recheckAfterDial := false }

/-- the code with the proposed patch. -/
def patched : Params := { current with recheckAfterDial := true }

/-- readloop. `r2c`/`r2s`: holds a decoded response (colour) before the `rx` hand-off.
    `rtA1`/`rtA2`: `Recv` failed (retryable: io.EOF, io.ErrClosedPipe / fatal: anything else), about to
    `cancel`; `rtB` about to swap `tx`; `rtC` about to close the stream; `rEnd`: returned, `rx` closed. -/
inductive RP where
  | r0 | r1 | r2c | r2s | rtA1 | rtA2 | rtB | rtC | rEnd
  deriving Repr, DecidableEq, Inhabited

/-- writeloop. `wc` loop condition, `ws` in the select, `w1x` in `Send` with a message of colour x,
    `w2xy` `Send` failed with class y (r retryable / f fatal), before `req.err <- err`,
    `wtA1`/`wtA2`, `wtB`, `wtC` terminate, `wEnd` returned. -/
inductive WP where
  | wc | ws | w1c | w1s | w2cr | w2cf | w2sr | w2sf | wtA1 | wtA2 | wtB | wtC | wEnd
  deriving Repr, DecidableEq, Inhabited

/-- the caller holding the mutex (`doRountrip` → `reconnect` / `roundtrip` → `send` / `recv`). -/
inductive KP where
  | idle                      -- no call in progress, mutex free
  | k0                        -- locked; `c.closed.Load()`
  | k0b                       -- `c.conn == nil || c.conn.ctx.Err() != nil`
  | rc0                       -- reconnect: `c.conn != nil` → `conn.Close()`: `closed.Swap(true)`
  | rc1 | rc2 | rc3           -- … its terminate: cancel / swap tx / close stream
  | rc4                       -- `c.conn = nil`
  | rc5                       -- `c.dialer(ctx)`; on success `c.conn = newConn(stream)`
  | k1                        -- send: checkAvailable
  | k2                        -- `tx := c.tx.Load()`            [y: cli.send.loaded]
  | k3o | k3n                 -- outer select of send, holding an open channel / nil
  | k4                        -- inner select of send (waiting for the error channel)
  | k5                        -- [y: cli.roundtrip.afterSend] recv: checkAvailable
  | k6                        -- select of recv
  | ktA | ktB | ktC           -- terminate called by send/recv, then return the error class `kres`
  | k7c                       -- retry loop: `c.closed.Load()` [y: cli.beforeReconnect], `retry--`
  | retOk | retErr            -- about to return (unlock)
  deriving Repr, DecidableEq, Inhabited

/-- `Client.Close()`. `c1`: `c.closed.Store(true)` done, about to read `c.conn`; `c2`: `conn.Close()`:
    `closed.Swap(true)`; `ctA..ctC` its terminate. -/
inductive CP where
  | c0 | c1 | c2 | ctA | ctB | ctC | cDone
  deriving Repr, DecidableEq, Inhabited

/-- message queues (requests pending at the server; responses in flight to the client):
    0 = [], 1 = [cur], 2 = [stale], 3 = [stale, cur]. -/
abbrev Q := Nat

structure St where
  -- current connection (`has = false`: `c.conn == nil`; then all connection fields are at their defaults)
  has : Bool
  rp : RP
  wp : WP
  closed : Bool               -- conn.closed
  cause : Nat                 -- conn.ctx: 0 live, 1 cancelled with a retryable cause, 2 with a fatal one
  txNil : Bool                -- conn.tx holds nil
  txClosed : Bool             -- the original tx channel has been closed (only if `terminateClosesTx`)
  netClosed : Bool            -- the stream has been closed locally
  errCh : Nat                 -- error channel of the cur message: 0 empty, 1/2 holds an error, 3 closed (nil)
  pend : Q
  infl : Q
  tainted : Bool              -- ghost: an exchange has been abandoned on this connection
  -- client
  kp : KP
  kres : Nat                  -- error class to return after `ktA..ktC`
  retry : Nat
  kctx : Bool                 -- the caller's context is done
  cclosed : Bool              -- c.closed
  cp : CP
  cref : Bool                 -- the pointer held by `C` is the current connection
  -- ghosts
  ntx : Nat                   -- requests handed to the writer by the current call (saturates at 5)
  faultFree : Bool            -- the injector is switched off for good; dials succeed
  clean : Bool                -- the current call started in a fault-free, settled, open client and has not been cancelled
  born : Bool                 -- the current call started after `Close()` had set `c.closed`
  raced : Bool                -- a connection was installed while `c.closed` was already set
  stale : Bool                -- BAD: a stale response was handed to a caller
  reused : Bool               -- BAD: a request was handed to the writer of a tainted connection
  overflow : Bool             -- BAD (bound): a second stale token would have been needed
  panic : Nat                 -- BAD: 0 none, 1 send on closed channel, 2 nil dereference in Close
  deriving Repr, DecidableEq, Inhabited

def init : St :=
  { has := false, rp := .r0, wp := .wc, closed := false, cause := 0, txNil := false, txClosed := false,
    netClosed := false, errCh := 0, pend := 0, infl := 0, tainted := false,
    kp := .idle, kres := 0, retry := 0, kctx := false, cclosed := false, cp := .c0, cref := false,
    ntx := 0, faultFree := false, clean := false, born := false, raced := false,
    stale := false, reused := false, overflow := false, panic := 0 }

/-! ### helpers -/

/-- `c.conn = nil` / a fresh `newConn`: connection fields back to their defaults. -/
def dropConn (s : St) : St :=
  { s with has := false, rp := .r0, wp := .wc, closed := false, cause := 0, txNil := false,
           txClosed := false, netClosed := false, errCh := 0, pend := 0, infl := 0, tainted := false }

def freshConn (s : St) : St := { dropConn s with has := true }

def qPush (q : Q) (stale : Bool) : Q × Bool :=       -- (queue, overflow)
  if stale then (match q with | 0 => (2, false) | 1 => (3, true) | _ => (q, true))
  else (match q with | 0 => (1, false) | 2 => (3, false) | _ => (q, true))

/-- head and tail: `some (isStale, rest)`. -/
def qPop (q : Q) : Option (Bool × Q) :=
  match q with
  | 1 => some (false, 0) | 2 => some (true, 0) | 3 => some (true, 1) | _ => none

def qRecol (q : Q) : Q := match q with | 1 => 2 | 3 => 2 | _ => q
def qHasStale (q : Q) : Bool := q == 2 || q == 3
def qHasCur (q : Q) : Bool := q == 1 || q == 3

def wRecol : WP → WP
  | .w1c => .w1s | .w2cr => .w2sr | .w2cf => .w2sf | w => w
def rRecol : RP → RP
  | .r2c => .r2s | r => r
def wHasStale : WP → Bool
  | .w1s | .w2sr | .w2sf => true | _ => false
def wHasCur : WP → Bool
  | .w1c | .w2cr | .w2cf => true | _ => false

def hasStale (s : St) : Bool :=
  wHasStale s.wp || qHasStale s.pend || qHasStale s.infl || s.rp == .r2s
def hasCur (s : St) : Bool :=
  wHasCur s.wp || qHasCur s.pend || qHasCur s.infl || s.rp == .r2c

/-- `K` leaves the exchange it has started on this connection without its response. -/
def abandon (s : St) : St :=
  { s with tainted := true, wp := wRecol s.wp, rp := rRecol s.rp, pend := qRecol s.pend,
           infl := qRecol s.infl, errCh := 0,
           overflow := s.overflow || (hasStale s && hasCur s) }

/-- `roundtrip` returned to the retry loop of `doRountrip` with result class `r`
    (0 = response, 1 = io.EOF / io.ErrClosedPipe, 2 = any other error). -/
def kResult (s : St) (r : Nat) : St :=
  if r = 0 then { s with kp := .retOk }
  else if r = 1 ∧ s.retry > 0 then { s with kp := .k7c }
  else { s with kp := .retErr }

/-- first cause wins (`context.WithCancelCause`). -/
def setCause (s : St) (c : Nat) : St := if s.cause = 0 then { s with cause := c } else s

/-- the swap of `terminate` (before d24e630 it also closed the channel). -/
def swapTx (p : Params) (s : St) : St :=
  { s with txNil := true, txClosed := s.txClosed || (p.terminateClosesTx && !s.txNil) }

/-! ### the processes (internal steps: what the client's own goroutines can do now) -/

def stepR (p : Params) (s : St) : List St :=
  if !s.has then [] else
  match s.rp with
  | .r0 => [if s.closed then { s with rp := .rEnd } else { s with rp := .r1 }]
  | .r1 =>
    if s.netClosed then [{ s with rp := .rtA1 }]          -- net.ErrClosed → io.ErrClosedPipe
    else match qPop s.infl with
      | some (st, rest) => [{ s with infl := rest, rp := if st then .r2s else .r2c }]
      | none => []
  | .r2c | .r2s => if s.cause ≠ 0 then [{ s with rp := .rEnd }] else []
  | .rtA1 => [{ setCause s 1 with rp := .rtB }]
  | .rtA2 => [{ setCause s 2 with rp := .rtB }]
  | .rtB => [{ swapTx p s with rp := .rtC }]
  | .rtC => [{ s with netClosed := true, rp := .rEnd }]
  | .rEnd => []

def stepW (p : Params) (s : St) : List St :=
  if !s.has then [] else
  let failW (cur : Bool) (cls : Nat) : List St :=
    -- `req.err <- err; close(req.err)` then terminate
    let next : WP := if cls = 1 then .wtA1 else .wtA2
    if p.errChBuffered then
      [{ s with wp := next, errCh := if cur ∧ s.errCh = 0 then cls else s.errCh }]
    else if cur ∧ s.kp = .k4 then
      [kResult { abandon s with wp := next } cls]        -- rendezvous with the sender
    else []                                                -- blocks (forever if the sender has left)
  match s.wp with
  | .wc => [if s.closed then { s with wp := .wEnd } else { s with wp := .ws }]
  | .ws => if s.cause ≠ 0 ∨ s.txClosed then [{ s with wp := .wEnd }] else []
  | .w1c => if s.netClosed then [{ s with wp := .w2cr }] else []
  | .w1s => if s.netClosed then [{ s with wp := .w2sr }] else []
  | .w2cr => failW true 1
  | .w2cf => failW true 2
  | .w2sr => failW false 1
  | .w2sf => failW false 2
  | .wtA1 => [{ setCause s 1 with wp := .wtB }]
  | .wtA2 => [{ setCause s 2 with wp := .wtB }]
  | .wtB => [{ swapTx p s with wp := .wtC }]
  | .wtC => [{ s with netClosed := true, wp := .wEnd }]
  | .wEnd => []

/-- the outcomes of `checkAvailable(ctx)` as error classes (`none` = available). -/
def checkAvail (s : St) : List (Option Nat) :=
  if s.closed then [some 2]
  else (if s.kctx then [some 2] else []) ++ (if s.cause ≠ 0 then [some s.cause] else [])
    ++ (if !s.kctx ∧ s.cause = 0 then [none] else [])

def stepK (p : Params) (s : St) : List St :=
  match s.kp with
  | .idle => []
  | .k0 => [if p.closeRepaired ∧ s.cclosed then { s with kp := .retErr } else { s with kp := .k0b }]
  | .k0b =>
    [if !s.has ∨ (s.cause ≠ 0 ∧ !p.reuseDeadConn) then { s with kp := .rc0 } else { s with kp := .k1 }]
  | .rc0 =>
    [if !s.has then { s with kp := .rc5 }
     else if s.closed then { s with kp := .rc4 }
     else { s with closed := true, kp := .rc1 }]
  | .rc1 => [{ setCause s 2 with kp := .rc2 }]
  | .rc2 => [{ swapTx p s with kp := .rc3 }]
  | .rc3 => [{ s with netClosed := true, kp := .rc4 }]
  | .rc4 => [{ dropConn s with cref := false, kp := .rc5 }]
  | .rc5 =>
    -- the dial succeeds (failure is an environment step)
    let t := { freshConn s with raced := s.raced || s.cclosed }
    [if p.recheckAfterDial ∧ s.cclosed then { t with closed := true, kres := 2, kp := .ktA }
     else { t with kp := .k1 }]
  | .k1 =>
    (checkAvail s).map fun
      | some e => kResult s e
      | none => { s with kp := .k2 }
  | .k2 => [{ s with kp := if s.txNil then .k3n else .k3o }]
  | .k3o | .k3n =>
    (if s.kp = .k3o ∧ s.wp = .ws then
        [{ s with wp := .w1c, kp := .k4, errCh := 0, ntx := min 5 (s.ntx + 1),
                  reused := s.reused || s.tainted }]
      else [])
    ++ (if s.kp = .k3o ∧ s.txClosed then [{ s with panic := 1, kp := .retErr }] else [])
    ++ (if s.cause ≠ 0 then [kResult s s.cause] else [])
    ++ (if s.kctx then [kResult s 2] else [])
  | .k4 =>
    (if s.errCh = 3 then [{ s with errCh := 0, kp := .k5 }]
      else if s.errCh ≠ 0 then [kResult (abandon s) s.errCh] else [])
    ++ (if s.cause ≠ 0 then [kResult (abandon s) s.cause] else [])
    ++ (if s.kctx then [{ abandon s with kres := 2, kp := .ktA }] else [])
  | .k5 =>
    (checkAvail s).map fun
      | some e =>
        if s.kctx ∧ p.recvCheckTearsDown then { abandon s with kres := e, kp := .ktA }
        else kResult (abandon s) e
      | none => { s with kp := .k6 }
  | .k6 =>
    (match s.rp with
      | .r2c => [kResult { s with rp := .r0 } 0]
      | .r2s => [kResult { s with rp := .r0, stale := true } 0]
      | .rEnd => [kResult (abandon s) 1]                  -- rx closed → io.ErrClosedPipe
      | _ => [])
    ++ (if s.cause ≠ 0 then [kResult (abandon s) s.cause] else [])
    ++ (if s.kctx then [{ abandon s with kres := 2, kp := .ktA }] else [])
  | .ktA => [{ setCause s 1 with kp := .ktB }]           -- terminate(io.ErrClosedPipe)
  | .ktB => [{ swapTx p s with kp := .ktC }]
  | .ktC => [kResult { s with netClosed := true } s.kres]
  | .k7c =>
    [if p.closeRepaired ∧ s.cclosed then { s with kp := .retErr }
     else { s with retry := s.retry - 1, kp := .rc0 }]
  | .retOk | .retErr =>
    [{ s with kp := .idle, kres := 0, retry := 0, kctx := false, ntx := 0, clean := false, born := false }]

def stepC (p : Params) (s : St) : List St :=
  match s.cp with
  | .c0 | .cDone => []
  | .c1 =>
    [if s.has then { s with cp := .c2, cref := true }
     else if p.closeRepaired then { s with cp := .cDone }
     else { s with panic := 2, cp := .cDone }]
  | .c2 =>
    [if !s.cref then { s with cp := .cDone }               -- the connection has left this system (see `Drain`)
     else if s.closed then { s with cp := .cDone, cref := false }
     else { s with closed := true, cp := .ctA }]
  | .ctA => [if !s.cref then { s with cp := .cDone } else { setCause s 2 with cp := .ctB }]
  | .ctB => [if !s.cref then { s with cp := .cDone } else { swapTx p s with cp := .ctC }]
  | .ctC => [if !s.cref then { s with cp := .cDone }
             else { s with netClosed := true, cp := .cDone, cref := false }]

def stepInt (p : Params) (s : St) : List St :=
  stepK p s ++ stepR p s ++ stepW p s ++ stepC p s

/-- no connection goroutine is between detecting an I/O error and cancelling the connection context. -/
def settled (s : St) : Bool :=
  !(s.rp == .rtA1 || s.rp == .rtA2 || s.wp == .w2cr || s.wp == .w2cf || s.wp == .w2sr || s.wp == .w2sf
    || s.wp == .wtA1 || s.wp == .wtA2)

def kActive (s : St) : Bool := !(s.kp == .idle || s.kp == .retOk || s.kp == .retErr)

/-! ### environment steps (pieces; `stepEnv` gates and concatenates them) -/

/-- a new call takes the mutex. -/
def envStart (s : St) : List St :=
  if s.kp = .idle then
    [{ s with kp := .k0, retry := 3, ntx := 0, kctx := false, born := s.cclosed,
              clean := !s.cclosed && s.cp == .c0 && settled s }]
  else []

/-- the caller's context is cancelled / times out. -/
def envCancel (s : St) : List St :=
  if kActive s ∧ !s.kctx then [{ s with kctx := true, clean := false }] else []

/-- `Client.Close()` starts: `c.closed.Store(true)`. -/
def envClose (p : Params) (s : St) : List St :=
  if s.cp = .c0 then [{ s with cp := .c1, cclosed := p.closeRepaired, clean := false }] else []

/-- the server answers the oldest pending request. -/
def envAnswer (s : St) : List St :=
  if s.has ∧ !s.netClosed then
    match qPop s.pend with
    | some (st, rest) =>
      let (q, ov) := qPush s.infl st
      [{ s with pend := rest, infl := q, overflow := s.overflow || ov }]
    | none => []
  else []

/-- a write completes: the request is at the server, `close(req.err)`. -/
def envWritten (s : St) : List St :=
  if s.has ∧ !s.netClosed ∧ (s.wp = .w1c ∨ s.wp = .w1s) then
    let st := s.wp == .w1s
    let (q, ov) := qPush s.pend st
    [{ s with wp := .wc, pend := q, overflow := s.overflow || ov, errCh := if st then s.errCh else 3 }]
  else []

/-- the pending read fails: class 1 = io.EOF (retryable), 2 = reset / anything else. -/
def envReadFault (s : St) (cls : Nat) : List St :=
  if s.has ∧ s.rp = .r1 then [{ s with rp := if cls = 1 then .rtA1 else .rtA2 }] else []

/-- the pending write fails (also: short write). -/
def envWriteFault (s : St) (cls : Nat) : List St :=
  if s.has ∧ s.wp = .w1c then [{ s with wp := if cls = 1 then .w2cr else .w2cf }]
  else if s.has ∧ s.wp = .w1s then [{ s with wp := if cls = 1 then .w2sr else .w2sf }]
  else []

def envDialFail (s : St) : List St :=
  if s.kp = .rc5 then [{ s with kp := .retErr }] else []

/-- environment: callers, contexts, `Close()`, the server, the fault injector. -/
def stepEnv (p : Params) (s : St) : List St :=
  let dirty (l : List St) : List St := l.map fun t => { t with clean := false }
  envStart s ++ (if p.dbg % 2 = 1 then [] else envCancel s) ++ (if p.dbg / 2 % 2 = 1 then [] else envClose p s) ++ envAnswer s ++ envWritten s
  ++ (if p.dbg / 4 % 2 = 1 then [] else dirty (envReadFault s 1 ++ envReadFault s 2 ++ envWriteFault s 1 ++ envWriteFault s 2 ++ envDialFail s))

def step (p : Params) (s : St) : List St := stepInt p s ++ stepEnv p s

def sys (p : Params) : Sys St := { init := init, step := step p }

/-! ### bad states -/

def quiescent (p : Params) (s : St) : Bool := (stepInt p s).isEmpty

def connEnded (s : St) : Bool := s.rp == .rEnd && s.wp == .wEnd

/-- hand-off condition at `c.conn = nil`: the connection is closed and either fully terminated or a
    `Close()` holding a pointer to it is inside its `terminate`. -/
def handoffOk (s : St) : Bool :=
  s.closed && ((s.cause != 0 && s.txNil && s.netClosed)
    || (s.cref && (s.cp == .ctA || (s.cp == .ctB && s.cause != 0)
                   || (s.cp == .ctC && s.cause != 0 && s.txNil))))

def badStale (s : St) : Bool := s.stale
def badReuse (s : St) : Bool := s.reused
def badOverflow (s : St) : Bool := s.overflow
def badPanic (s : St) : Bool := s.panic != 0
def badTx (s : St) : Bool := s.ntx > 4
/-- a call that started on a closed client succeeds or dials. -/
def badAfterClose (s : St) : Bool := s.born && (s.kp == .retOk || s.kp == .rc5)
/-- a clean call ends in an error. -/
def badRecover (s : St) : Bool := s.clean && s.kp == .retErr
/-- a call whose context is done, or whose connection is cancelled, cannot move. -/
def badHang (p : Params) (s : St) : Bool :=
  kActive s && (s.kctx || (s.has && s.cause != 0)) && quiescent p s
/-- nothing can move, no call and no `Close()` is in progress, the current connection has been
    cancelled or the client closed, and a connection goroutine has not ended. -/
def badStuck (p : Params) (s : St) : Bool :=
  s.kp == .idle && (s.cp == .c0 || s.cp == .cDone) && s.has && (s.cause != 0 || s.cclosed)
    && !connEnded s && quiescent p s
def badHandoff (s : St) : Bool := s.kp == .rc4 && s.has && !handoffOk s

/-- everything that must never happen, except that a goroutine leak is tolerated when a connection
    was installed after `Close()` had set `c.closed` (`raced`) — see `badFull`. -/
def badPartial (p : Params) (s : St) : Bool :=
  badStale s || badReuse s || badOverflow s || badPanic s || badTx s || badAfterClose s
    || badRecover s || badHang p s || badHandoff s || (badStuck p s && !s.raced)

def badFull (p : Params) (s : St) : Bool := badPartial p s || badStuck p s || s.raced

/-! ### coding -/

def RP.toN : RP → Nat
  | .r0 => 0 | .r1 => 1 | .r2c => 2 | .r2s => 3 | .rtA1 => 4 | .rtA2 => 5 | .rtB => 6 | .rtC => 7 | .rEnd => 8
def RP.ofN : Nat → RP
  | 0 => .r0 | 1 => .r1 | 2 => .r2c | 3 => .r2s | 4 => .rtA1 | 5 => .rtA2 | 6 => .rtB | 7 => .rtC | _ => .rEnd
def WP.toN : WP → Nat
  | .wc => 0 | .ws => 1 | .w1c => 2 | .w1s => 3 | .w2cr => 4 | .w2cf => 5 | .w2sr => 6 | .w2sf => 7
  | .wtA1 => 8 | .wtA2 => 9 | .wtB => 10 | .wtC => 11 | .wEnd => 12
def WP.ofN : Nat → WP
  | 0 => .wc | 1 => .ws | 2 => .w1c | 3 => .w1s | 4 => .w2cr | 5 => .w2cf | 6 => .w2sr | 7 => .w2sf
  | 8 => .wtA1 | 9 => .wtA2 | 10 => .wtB | 11 => .wtC | _ => .wEnd
def KP.toN : KP → Nat
  | .idle => 0 | .k0 => 1 | .k0b => 2 | .rc0 => 3 | .rc1 => 4 | .rc2 => 5 | .rc3 => 6 | .rc4 => 7 | .rc5 => 8
  | .k1 => 9 | .k2 => 10 | .k3o => 11 | .k3n => 12 | .k4 => 13 | .k5 => 14 | .k6 => 15
  | .ktA => 16 | .ktB => 17 | .ktC => 18 | .k7c => 19 | .retOk => 20 | .retErr => 21
def KP.ofN : Nat → KP
  | 0 => .idle | 1 => .k0 | 2 => .k0b | 3 => .rc0 | 4 => .rc1 | 5 => .rc2 | 6 => .rc3 | 7 => .rc4 | 8 => .rc5
  | 9 => .k1 | 10 => .k2 | 11 => .k3o | 12 => .k3n | 13 => .k4 | 14 => .k5 | 15 => .k6
  | 16 => .ktA | 17 => .ktB | 18 => .ktC | 19 => .k7c | 20 => .retOk | _ => .retErr
def CP.toN : CP → Nat
  | .c0 => 0 | .c1 => 1 | .c2 => 2 | .ctA => 3 | .ctB => 4 | .ctC => 5 | .cDone => 6
def CP.ofN : Nat → CP
  | 0 => .c0 | 1 => .c1 | 2 => .c2 | 3 => .ctA | 4 => .ctB | 5 => .ctC | _ => .cDone

/-- mixed-radix packing of (value, radix) pairs, least significant first. -/
def pack : List (Nat × Nat) → Nat
  | [] => 0
  | (v, r) :: rest => v + r * pack rest

def code (s : St) : Nat :=
  pack [(s.has.toNat, 2), (s.rp.toN, 9), (s.wp.toN, 13), (s.closed.toNat, 2), (s.cause, 3),
    (s.txNil.toNat, 2), (s.txClosed.toNat, 2), (s.netClosed.toNat, 2), (s.errCh, 4), (s.pend, 4),
    (s.infl, 4), (s.tainted.toNat, 2), (s.kp.toN, 22), (s.kres, 3), (s.retry, 4), (s.kctx.toNat, 2),
    (s.cclosed.toNat, 2), (s.cp.toN, 7), (s.cref.toNat, 2), (s.ntx, 6), (s.faultFree.toNat, 2),
    (s.clean.toNat, 2), (s.born.toNat, 2), (s.raced.toNat, 2), (s.stale.toNat, 2), (s.reused.toNat, 2),
    (s.overflow.toNat, 2), (s.panic, 3)]

@[inline] def bit (n : Nat) : Bool := n % 2 == 1

def decode (n : Nat) : St :=
  let has := bit n;           let n := n / 2
  let rp := RP.ofN (n % 9); let n := n / 9
  let wp := WP.ofN (n % 13); let n := n / 13
  let closed := bit n;        let n := n / 2
  let cause := n % 3;         let n := n / 3
  let txNil := bit n;         let n := n / 2
  let txClosed := bit n;      let n := n / 2
  let netClosed := bit n;     let n := n / 2
  let errCh := n % 4;         let n := n / 4
  let pend := n % 4;          let n := n / 4
  let infl := n % 4;          let n := n / 4
  let tainted := bit n;       let n := n / 2
  let kp := KP.ofN (n % 22); let n := n / 22
  let kres := n % 3;          let n := n / 3
  let retry := n % 4;         let n := n / 4
  let kctx := bit n;          let n := n / 2
  let cclosed := bit n;       let n := n / 2
  let cp := CP.ofN (n % 7); let n := n / 7
  let cref := bit n;          let n := n / 2
  let ntx := n % 6;           let n := n / 6
  let faultFree := bit n;     let n := n / 2
  let clean := bit n;         let n := n / 2
  let born := bit n;          let n := n / 2
  let raced := bit n;         let n := n / 2
  let stale := bit n;         let n := n / 2
  let reused := bit n;        let n := n / 2
  let overflow := bit n;      let n := n / 2
  let panic := n % 3
  { has, rp, wp, closed, cause, txNil, txClosed, netClosed, errCh, pend, infl, tainted, kp, kres,
    retry, kctx, cclosed, cp, cref, ntx, faultFree, clean, born, raced, stale, reused, overflow, panic }

def codec : Codec St := { code := code, decode := decode }

end Kmip.CliConn
