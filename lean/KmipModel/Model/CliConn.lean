/-
  Client connection and client — model of `kmipclient/conn.go` (`newConn`, `Close`, `terminate`,
  `checkAvailable`, `readloop`, `writeloop`, `send`, `recv`, `roundtrip`) and `kmipclient/client.go`
  (`Client.Close`, `reconnect`, `doRountrip`; `DialContext` = dial + one ordinary call for the version
  negotiation + `Close` when that call fails), as a transition system over explicit program counters.

  SEMANTICS ENCODED (assumed of the Go runtime, not verified): every statement touching shared state
  (an atomic, a context, a channel, the net.Conn) is one atomic step; an unbuffered channel operation
  is one joint step of sender and receiver; `select` chooses non-deterministically among its ready
  cases; a context is a monotone flag with a first-writer-wins cause; `terminate` is separate steps
  for every goroutine executing it: `cancel`, then swap-tx + close-stream. (The last two are one step:
  the swap is observed only by `send`'s `tx.Load()`, the close only by reads/writes of the stream, so
  every interleaving that separates them is equivalent to one that does not.) Steps that can only
  re-set an already set monotone flag are fused with their predecessor (`norm1`).

  PROCESSES. `R` readloop, `W` writeloop of the *current* connection (the value of `c.conn`); `K` the
  caller holding the client mutex (callers are serialised by `c.lock`; waiting callers have no effect
  on the state, so "any number of callers" is: a new call may start whenever `K` is idle; caller
  identities are abstracted by symmetry); `C` one invocation of `Client.Close()`, which does NOT take
  the mutex and may start at any time. ENVIRONMENT: the server answers a received request after any
  delay or never; the fault injector may fail any read of `R` (retryable = io.EOF / closed;
  fatal = reset, anything else), any write of `W`, any dial, at any time and any number of times; the
  caller's context may be cancelled at any step. (Fault-freedom "from now on" is the ghost `clean`:
  set when a call starts, cleared by every later fault, cancellation or `Close()`.)
  A response followed by the server closing, a short write, a partial message followed by EOF are
  covered by these: `Stream.Recv` returns either a complete message or an error (C07
  `recv_truncated`/`recv_exact`), and a failed/short `Write` returns an error to `writeloop`.

  COLOURING (C10). Request/response contents never influence control (data independence), and callers
  are interchangeable (symmetry), so a message is represented by one of two colours: `cur` — it belongs
  to the exchange the caller now holding the mutex has started on this connection — or `stale` — it
  belongs to an exchange that its caller has left ("abandoned") after handing the request to the
  writer. When `K` leaves an exchange without its response, every `cur` token of the connection
  (held by `W`, pending at the server, in flight, held by `R`) is recoloured `stale` and the connection
  is marked `tainted`. The abstraction is sound for C10: a concrete run in which some call receives a
  response other than the one to its own request maps, by forgetting identities, to a run in which `K`
  receives a `stale` token; what is lost is only the distinction between different stale exchanges.
  At most one stale token per connection is represented; the ghost flag `overflow` records any attempt
  to create a second one, and the certificate proves `overflow` unreachable (nothing is lost).

  OLDER CONNECTIONS. When `reconnect` executes `c.conn = nil` the connection leaves this system; from
  then on it is touched only by its own `R`/`W` and possibly by a `Close()` that still holds a pointer
  to it. That residual system is `Drain` below; the hand-off condition `handoffOk` is proved of every
  state in which `c.conn = nil` is executed, and `Drain` starts from every state satisfying it. So the
  number of connection generations is unbounded in the result although one is tracked at a time.

  PARAMETERS (`Params`) switch individual repairs off, so the behaviour before each `fix:` commit
  is expressible and yields a concrete trace to a bad state.
-/
import KmipModel.Model.CliLts
namespace Kmip.CliConn
open Kmip.CliLts

structure Params where
  recvCheckTearsDown : Bool      -- aa61431: `recv` terminates when the caller's context is done at its check
  reuseDeadConn      : Bool      -- true = before 03f0b5a: `doRountrip` only dials when `c.conn == nil`
  terminateClosesTx  : Bool      -- true = before d24e630: `terminate` closes the swapped-out tx channel
  errChBuffered      : Bool      -- 4f747d8: `make(chan error, 1)`
  closeRepaired      : Bool      -- 9ada762: client-level `closed` flag, nil-tolerant `Close`
  recheckAfterDial   : Bool      -- 9b690e3: `reconnect` re-checks `c.closed` after installing the new connection
  terminateBeforeErr : Bool      -- 2c3eae7: `writeloop` terminates the connection BEFORE `req.err <- err`
  cleanNeedsSettled  : Bool      -- not about the code: the ghost `clean` requires a settled connection (see `settled`)
  retries            : Nat       -- `retry := 3` in `doRountrip`: re-transmissions a call may make after the first
                                 -- transmission. Not trusted: the harness OBSERVES the budget of the real code
                                 -- (`lts.budget`, and the `b<n>` header of every scenario) and compares.
  deriving Repr, DecidableEq, Inhabited

/-- the code as it is now. -/
def current : Params :=
  { recvCheckTearsDown := true, reuseDeadConn := false, terminateClosesTx := false,
    errChBuffered := true, closeRepaired := true, recheckAfterDial := true,
    terminateBeforeErr := true, cleanNeedsSettled := true, retries := 3 }

/-- readloop. `r2c`/`r2s`: holds a decoded response (colour) before the `rx` hand-off.
    `rtA1`/`rtA2`: `Recv` failed (retryable: io.EOF, io.ErrClosedPipe / fatal: anything else), about to
    `cancel`; `rtB` about to swap `tx` and close the stream; `rEnd`: returned, `rx` closed. -/
inductive RP where
  | r0 | r1 | r2c | r2s | rtA1 | rtA2 | rtB | rEnd
  deriving Repr, DecidableEq, Inhabited

/-- writeloop. `wc` loop condition, `ws` in the select, `w1x` in `Send` with a message of colour x,
    `w2xy`: `Send` failed with class y (r retryable / f fatal), about to `req.err <- err; close(req.err)`.
    Since 2c3eae7 the failed `Send` is followed by `terminate` first (`wnAxy` about to cancel, `wnBxy`
    about to swap tx and close the stream), then `w2xy`, then return. Before: `w2xy`, then
    `wtA1`/`wtA2` (cancel), `wtB`. `wEnd`: returned. -/
inductive WP where
  | wc | ws | w1c | w1s | w2cr | w2cf | w2sr | w2sf | wtA1 | wtA2 | wtB | wEnd
  | wnAcr | wnAcf | wnAsr | wnAsf | wnBcr | wnBcf | wnBsr | wnBsf
  deriving Repr, DecidableEq, Inhabited

/-- the caller holding the mutex (`doRountrip` → `reconnect` / `roundtrip` → `send` / `recv`). -/
inductive KP where
  | idle                      -- no call in progress, mutex free
  | k0                        -- locked; `c.closed.Load()`
  | k0b                       -- `c.conn == nil || c.conn.ctx.Err() != nil`
  | rc0                       -- reconnect: `c.conn != nil` → `conn.Close()`: `closed.Swap(true)`
  | rc1 | rc2                 -- … its terminate: cancel / swap tx + close stream
  | rc4                       -- `c.conn = nil`
  | rc5                       -- `c.dialer(ctx)`; on success `c.conn = newConn(stream)`
  | k1                        -- send: checkAvailable
  | k2                        -- `tx := c.tx.Load()`            [y: cli.send.loaded]
  | k3o | k3n                 -- outer select of send, holding an open channel / nil
  | k4                        -- inner select of send (waiting for the error channel)
  | k5                        -- [y: cli.roundtrip.afterSend] recv: checkAvailable
  | k6                        -- select of recv
  | ktA | ktB                 -- terminate called by send/recv (cancel / swap tx + close stream), then return the error class `kres`
  | k7c                       -- retry loop: `c.closed.Load()` [y: cli.beforeReconnect], `retry--`
  | retOk | retErr            -- about to return (unlock)
  deriving Repr, DecidableEq, Inhabited

/-- `Client.Close()`. `c1`: `c.closed.Store(true)` done, about to read `c.conn`; `c2`: `conn.Close()`:
    `closed.Swap(true)`; `ctA`, `ctB` its terminate. -/
inductive CP where
  | c0 | c1 | c2 | ctA | ctB | cDone
  deriving Repr, DecidableEq, Inhabited

/-- message queues (requests pending at the server; responses in flight to the client):
    0 = [], 1 = [cur], 2 = [stale], 3 = [stale, cur]. -/
abbrev Q := Nat

structure St where
  -- current connection (`has = false`: `c.conn == nil`; then all connection fields are at their defaults)
  has : Bool
  rp : RP
  wp : WP
  closed : Bool               -- conn.closed
  cause : Nat                 -- conn.ctx: 0 live, 1 cancelled with a retryable cause, 2 with a fatal one
  txNil : Bool                -- conn.tx holds nil
  txClosed : Bool             -- the original tx channel has been closed (only if `terminateClosesTx`)
  netClosed : Bool            -- the stream has been closed locally
  errCh : Nat                 -- error channel of the cur message: 0 empty, 1/2 holds an error, 3 closed (nil)
  pend : Q
  infl : Q
  tainted : Bool              -- ghost: an exchange has been abandoned on this connection
  -- client
  kp : KP
  kres : Nat                  -- error class to return after `ktA`, `ktB`
  retry : Nat
  kctx : Bool                 -- the caller's context is done
  cclosed : Bool              -- c.closed
  cp : CP
  cref : Bool                 -- the pointer held by `C` is the current connection
  -- ghosts
  ntx : Nat                   -- requests handed to the writer by the current call (saturates at 5)
  clean : Bool                -- the current call started in a settled, open client; no fault, cancellation or Close since
  born : Bool                 -- the current call started after `Close()` had set `c.closed`
  raced : Bool                -- a connection was installed while `c.closed` was already set
  stale : Bool                -- BAD: a stale response was handed to a caller
  reused : Bool               -- BAD: a request was handed to the writer of a tainted connection
  overflow : Bool             -- BAD (bound): a second stale token would have been needed
  panic : Nat                 -- BAD: 0 none, 1 send on closed channel, 2 nil dereference in Close
  deriving Repr, DecidableEq, Inhabited

def init : St :=
  { has := false, rp := .r0, wp := .wc, closed := false, cause := 0, txNil := false, txClosed := false,
    netClosed := false, errCh := 0, pend := 0, infl := 0, tainted := false,
    kp := .idle, kres := 0, retry := 0, kctx := false, cclosed := false, cp := .c0, cref := false,
    ntx := 0, clean := false, born := false, raced := false,
    stale := false, reused := false, overflow := false, panic := 0 }

/-! ### helpers -/

/-- `c.conn = nil` / a fresh `newConn`: connection fields back to their defaults. -/
def dropConn (s : St) : St :=
  { s with has := false, rp := .r0, wp := .wc, closed := false, cause := 0, txNil := false,
           txClosed := false, netClosed := false, errCh := 0, pend := 0, infl := 0, tainted := false }

def freshConn (s : St) : St := { dropConn s with has := true }

def qPush (q : Q) (stale : Bool) : Q × Bool :=       -- (queue, overflow)
  if stale then (match q with | 0 => (2, false) | 1 => (3, true) | _ => (q, true))
  else (match q with | 0 => (1, false) | 2 => (3, false) | _ => (q, true))

/-- head and tail: `some (isStale, rest)`. -/
def qPop (q : Q) : Option (Bool × Q) :=
  match q with
  | 1 => some (false, 0) | 2 => some (true, 0) | 3 => some (true, 1) | _ => none

def qRecol (q : Q) : Q := match q with | 1 => 2 | 3 => 2 | _ => q
def qHasStale (q : Q) : Bool := q == 2 || q == 3
def qHasCur (q : Q) : Bool := q == 1 || q == 3

def wRecol : WP → WP
  | .w1c => .w1s | .w2cr => .w2sr | .w2cf => .w2sf | .wnAcr => .wnAsr | .wnAcf => .wnAsf
  | .wnBcr => .wnBsr | .wnBcf => .wnBsf | w => w
def rRecol : RP → RP
  | .r2c => .r2s | r => r
def wHasStale : WP → Bool
  | .w1s | .w2sr | .w2sf | .wnAsr | .wnAsf | .wnBsr | .wnBsf => true | _ => false
def wHasCur : WP → Bool
  | .w1c | .w2cr | .w2cf | .wnAcr | .wnAcf | .wnBcr | .wnBcf => true | _ => false

def hasStale (s : St) : Bool :=
  wHasStale s.wp || qHasStale s.pend || qHasStale s.infl || s.rp == .r2s
def hasCur (s : St) : Bool :=
  wHasCur s.wp || qHasCur s.pend || qHasCur s.infl || s.rp == .r2c

/-- `K` leaves the exchange it has started on this connection without its response. -/
def abandon (s : St) : St :=
  { s with tainted := true, wp := wRecol s.wp, rp := rRecol s.rp, pend := qRecol s.pend,
           infl := qRecol s.infl, errCh := 0,
           overflow := s.overflow || (hasStale s && hasCur s) }

/-- `roundtrip` returned to the retry loop of `doRountrip` with result class `r`
    (0 = response, 1 = io.EOF / io.ErrClosedPipe, 2 = any other error). -/
def kResult (s : St) (r : Nat) : St :=
  if r = 0 then { s with kp := .retOk }
  else if r = 1 ∧ s.retry > 0 then { s with kp := .k7c }
  else { s with kp := .retErr }

/-- first cause wins (`context.WithCancelCause`). -/
def setCause (s : St) (c : Nat) : St := if s.cause = 0 then { s with cause := c } else s

/-- the swap of `terminate` (before d24e630 it also closed the channel). -/
def swapTx (p : Params) (s : St) : St :=
  { s with txNil := true, txClosed := s.txClosed || (p.terminateClosesTx && !s.txNil) }

/-! ### the processes (internal steps: what the client's own goroutines can do now) -/

def stepR (p : Params) (s : St) : List St :=
  if !s.has then [] else
  match s.rp with
  | .r0 => [if s.closed then { s with rp := .rEnd } else { s with rp := .r1 }]
  | .r1 =>
    if s.netClosed then [{ s with rp := .rtA1 }]          -- net.ErrClosed → io.ErrClosedPipe
    else match qPop s.infl with
      | some (st, rest) => [{ s with infl := rest, rp := if st then .r2s else .r2c }]
      | none => []
  | .r2c | .r2s => if s.cause ≠ 0 then [{ s with rp := .rEnd }] else []
  | .rtA1 => [{ setCause s 1 with rp := .rtB }]
  | .rtA2 => [{ setCause s 2 with rp := .rtB }]
  | .rtB => [{ swapTx p s with netClosed := true, rp := .rEnd }]
  | .rEnd => []

/-- where the write loop goes when `Send` has failed with class `cls` on a message of the given colour. -/
def sendFailed (p : Params) (cur : Bool) (cls : Nat) : WP :=
  if p.terminateBeforeErr then
    (if cur then (if cls = 1 then .wnAcr else .wnAcf) else (if cls = 1 then .wnAsr else .wnAsf))
  else
    (if cur then (if cls = 1 then .w2cr else .w2cf) else (if cls = 1 then .w2sr else .w2sf))

def stepW (p : Params) (s : St) : List St :=
  if !s.has then [] else
  let failW (cur : Bool) (cls : Nat) : List St :=
    -- `req.err <- err; close(req.err)` then terminate
    let next : WP := if p.terminateBeforeErr then .wEnd else if cls = 1 then .wtA1 else .wtA2
    if p.errChBuffered then
      [{ s with wp := next, errCh := if cur ∧ s.errCh = 0 then cls else s.errCh }]
    else if cur ∧ s.kp = .k4 then
      [kResult { abandon s with wp := next } cls]        -- rendezvous with the sender
    else []                                                -- blocks (forever if the sender has left)
  match s.wp with
  | .wc => [if s.closed then { s with wp := .wEnd } else { s with wp := .ws }]
  | .ws => if s.cause ≠ 0 ∨ s.txClosed then [{ s with wp := .wEnd }] else []
  | .w1c => if s.netClosed then [{ s with wp := sendFailed p true 1 }] else []
  | .w1s => if s.netClosed then [{ s with wp := sendFailed p false 1 }] else []
  | .w2cr => failW true 1
  | .w2cf => failW true 2
  | .w2sr => failW false 1
  | .w2sf => failW false 2
  | .wtA1 => [{ setCause s 1 with wp := .wtB }]
  | .wtA2 => [{ setCause s 2 with wp := .wtB }]
  | .wtB => [{ swapTx p s with netClosed := true, wp := .wEnd }]
  | .wnAcr => [{ setCause s 1 with wp := .wnBcr }]
  | .wnAcf => [{ setCause s 2 with wp := .wnBcf }]
  | .wnAsr => [{ setCause s 1 with wp := .wnBsr }]
  | .wnAsf => [{ setCause s 2 with wp := .wnBsf }]
  | .wnBcr => [{ swapTx p s with netClosed := true, wp := .w2cr }]
  | .wnBcf => [{ swapTx p s with netClosed := true, wp := .w2cf }]
  | .wnBsr => [{ swapTx p s with netClosed := true, wp := .w2sr }]
  | .wnBsf => [{ swapTx p s with netClosed := true, wp := .w2sf }]
  | .wEnd => []

/-- the outcomes of `checkAvailable(ctx)` as error classes (`none` = available). -/
def checkAvail (s : St) : List (Option Nat) :=
  if s.closed then [some 2]
  else (if s.kctx then [some 2] else []) ++ (if s.cause ≠ 0 then [some s.cause] else [])
    ++ (if !s.kctx ∧ s.cause = 0 then [none] else [])

def stepK (p : Params) (s : St) : List St :=
  match s.kp with
  | .idle => []
  | .k0 => [if p.closeRepaired ∧ s.cclosed then { s with kp := .retErr } else { s with kp := .k0b }]
  | .k0b =>
    [if !s.has ∨ (s.cause ≠ 0 ∧ !p.reuseDeadConn) then { s with kp := .rc0 } else { s with kp := .k1 }]
  | .rc0 =>
    [if !s.has then { s with kp := .rc5 }
     else if s.closed then { s with kp := .rc4 }
     else { s with closed := true, kp := .rc1 }]
  | .rc1 => [{ setCause s 2 with kp := .rc2 }]
  | .rc2 => [{ swapTx p s with netClosed := true, kp := .rc4 }]
  | .rc4 => [{ dropConn s with cref := false, kp := .rc5 }]
  | .rc5 =>
    -- the dial succeeds (failure is an environment step)
    let t := { freshConn s with raced := s.raced || (s.cclosed && !p.recheckAfterDial) }
    [if p.recheckAfterDial ∧ s.cclosed then { t with closed := true, kres := 2, kp := .ktA }
     else { t with kp := .k1 }]
  | .k1 =>
    (checkAvail s).map fun
      | some e => kResult s e
      | none => { s with kp := .k2 }
  | .k2 => [{ s with kp := if s.txNil then .k3n else .k3o }]
  | .k3o | .k3n =>
    (if s.kp = .k3o ∧ s.wp = .ws then
        [{ s with wp := .w1c, kp := .k4, errCh := 0, ntx := min 5 (s.ntx + 1),
                  reused := s.reused || s.tainted }]
      else [])
    ++ (if s.kp = .k3o ∧ s.txClosed then [{ s with panic := 1, kp := .retErr }] else [])
    ++ (if s.cause ≠ 0 then [kResult s s.cause] else [])
    ++ (if s.kctx then [kResult s 2] else [])
  | .k4 =>
    (if s.errCh = 3 then [{ s with errCh := 0, kp := .k5 }]
      else if s.errCh ≠ 0 then [kResult (abandon s) s.errCh] else [])
    ++ (if s.cause ≠ 0 then [kResult (abandon s) s.cause] else [])
    ++ (if s.kctx then [{ abandon s with kres := 2, kp := .ktA }] else [])
  | .k5 =>
    (checkAvail s).map fun
      | some e =>
        if s.kctx ∧ p.recvCheckTearsDown then { abandon s with kres := e, kp := .ktA }
        else kResult (abandon s) e
      | none => { s with kp := .k6 }
  | .k6 =>
    (match s.rp with
      | .r2c => [kResult { s with rp := .r0 } 0]
      | .r2s => [kResult { s with rp := .r0, stale := true } 0]
      | .rEnd => [kResult (abandon s) 1]                  -- rx closed → io.ErrClosedPipe
      | _ => [])
    ++ (if s.cause ≠ 0 then [kResult (abandon s) s.cause] else [])
    ++ (if s.kctx then [{ abandon s with kres := 2, kp := .ktA }] else [])
  | .ktA => [{ setCause s 1 with kp := .ktB }]           -- terminate(io.ErrClosedPipe)
  | .ktB => [kResult { swapTx p s with netClosed := true } s.kres]
  | .k7c =>
    [if p.closeRepaired ∧ s.cclosed then { s with kp := .retErr }
     else { s with retry := s.retry - 1, ntx := max s.ntx (p.retries + 1 - s.retry), kp := .rc0 }]
  | .retOk | .retErr =>
    [{ s with kp := .idle, kres := 0, retry := 0, kctx := false, ntx := 0, clean := false, born := false }]

def stepC (p : Params) (s : St) : List St :=
  match s.cp with
  | .c0 | .cDone => []
  | .c1 =>
    [if s.has then { s with cp := .c2, cref := true }
     else if p.closeRepaired then { s with cp := .cDone }
     else { s with panic := 2, cp := .cDone }]
  | .c2 =>
    [if !s.cref then { s with cp := .cDone }               -- the connection has left this system (see `Drain`)
     else if s.closed then { s with cp := .cDone, cref := false }
     else { s with closed := true, cp := .ctA }]
  | .ctA => [if !s.cref then { s with cp := .cDone } else { setCause s 2 with cp := .ctB }]
  | .ctB => [if !s.cref then { s with cp := .cDone }
             else { swapTx p s with netClosed := true, cp := .cDone, cref := false }]

def stepInt (p : Params) (s : St) : List St :=
  stepK p s ++ stepR p s ++ stepW p s ++ stepC p s

/-- the read loop is not between a failed `Recv` and the `cancel` of its `terminate` on a connection whose
    context is still live. (A call that
    starts inside that window overlaps the detection of the fault: it can still find the connection
    live and then fail with the read error. Since 2c3eae7 there is no such window on the write side
    that a later call could fall into: the write loop cancels before it reports.) -/
def settled (s : St) : Bool := !((s.rp == .rtA1 || s.rp == .rtA2) && s.cause == 0)

def kActive (s : St) : Bool := !(s.kp == .idle || s.kp == .retOk || s.kp == .retErr)

/-! ### environment steps (pieces; `stepEnv` gates and concatenates them) -/

/-- a new call takes the mutex. -/
def envStart (p : Params) (s : St) : List St :=
  if s.kp = .idle then
    [{ s with kp := .k0, retry := p.retries, ntx := 0, kctx := false, born := s.cclosed,
              clean := !s.cclosed && s.cp == .c0 && (settled s || !p.cleanNeedsSettled) }]
  else []

/-- the caller's context is cancelled / times out. -/
def envCancel (s : St) : List St :=
  if kActive s ∧ !s.kctx then [{ s with kctx := true, clean := false }] else []

/-- `Client.Close()` starts: `c.closed.Store(true)`. -/
def envClose (p : Params) (s : St) : List St :=
  if s.cp = .c0 then [{ s with cp := .c1, cclosed := p.closeRepaired, clean := false }] else []

/-- the server answers the oldest pending request. -/
def envAnswer (s : St) : List St :=
  if s.has ∧ !s.netClosed then
    match qPop s.pend with
    | some (st, rest) =>
      let (q, ov) := qPush s.infl st
      [{ s with pend := rest, infl := q, overflow := s.overflow || ov }]
    | none => []
  else []

/-- a write completes: the request is at the server, `close(req.err)`. -/
def envWritten (s : St) : List St :=
  if s.has ∧ !s.netClosed ∧ (s.wp = .w1c ∨ s.wp = .w1s) then
    let st := s.wp == .w1s
    let (q, ov) := qPush s.pend st
    [{ s with wp := .wc, pend := q, overflow := s.overflow || ov, errCh := if st then s.errCh else 3 }]
  else []

/-- the pending read fails: class 1 = io.EOF (retryable), 2 = reset / anything else. -/
def envReadFault (s : St) (cls : Nat) : List St :=
  if s.has ∧ s.rp = .r1 then [{ s with rp := if cls = 1 then .rtA1 else .rtA2 }] else []

/-- the pending write fails (also: short write). -/
def envWriteFault (p : Params) (s : St) (cls : Nat) : List St :=
  if s.has ∧ s.wp = .w1c then [{ s with wp := sendFailed p true cls }]
  else if s.has ∧ s.wp = .w1s then [{ s with wp := sendFailed p false cls }]
  else []

def envDialFail (s : St) : List St :=
  if s.kp = .rc5 then [{ s with kp := .retErr }] else []

/-- environment: callers, contexts, `Close()`, the server, the fault injector. -/
def stepEnv (p : Params) (s : St) : List St :=
  let dirty (l : List St) : List St := l.map fun t => { t with clean := false }
  envStart p s ++ envCancel s ++ envClose p s ++ envAnswer s ++ envWritten s
  ++ (dirty (envReadFault s 1 ++ envReadFault s 2 ++ envWriteFault p s 1 ++ envWriteFault p s 2 ++ envDialFail s))

/-- FUSION OF NO-OP STEPS. A `cancel` on an already cancelled context, a swap+close on an already
    swapped and closed connection, the loop test `!c.closed.Load()` once `closed` is set, and what is
    left of a `Close()` whose connection has been let go of by `reconnect`, change nothing but the program
    counter of the goroutine executing them; the flags are monotone, so such a step stays a no-op. It is
    fused with the step that precedes it (of the same goroutine, or of the goroutine that set the flag):
    `norm` is applied to every successor state. The certificate and the theorems are about the FUSED
    system `sys`. The fusion is not proved sound in Lean; it is CHECKED BY EVALUATION outside the kernel on
    every run of the check (`lts.unfused`): the reachable set of the unfused system `usys` (about four times
    as many states) is explored, every predicate of `ubad` is evaluated on every one of its states, and
    `norm` of every one of them must be in the certificate. One function per program counter; the rules
    read `has`, `closed`, `cause`, `txNil`, `netClosed` (which `norm` does not change) and whether `kp` is
    one of `k2`, `k3o`, `k6` (which `normK` neither maps from nor to). -/
def normR (has closed : Bool) (cause : Nat) (dead kRecv : Bool) (r : RP) : RP :=
  if !has then r else match r with
    | .r0 => if closed then .rEnd else .r0
    | .rtA1 => if cause != 0 then (if dead then .rEnd else .rtB) else .rtA1
    | .rtA2 => if cause != 0 then (if dead then .rEnd else .rtB) else .rtA2
    | .rtB => if dead then .rEnd else .rtB
    -- the hand-off select can only take `<-c.ctx.Done()`: no caller is or can come into `recv`'s select
    | .r2c => if cause != 0 && !kRecv then .rEnd else .r2c
    | .r2s => if cause != 0 && !kRecv then .rEnd else .r2s
    | r => r

def normW (p : Params) (has closed : Bool) (cause : Nat) (dead kLoad : Bool) (w : WP) : WP :=
  if !has then w else match w with
    | .wc => if closed then .wEnd else .wc
    | .wtA1 => if cause != 0 then (if dead then .wEnd else .wtB) else .wtA1
    | .wtA2 => if cause != 0 then (if dead then .wEnd else .wtB) else .wtA2
    | .wtB => if dead then .wEnd else .wtB
    -- the select can only take `<-c.ctx.Done()`: no caller holds or can still load the channel
    | .ws => if cause != 0 && !kLoad then .wEnd else .ws
    -- the error of a message whose sender has left goes into a buffered channel nobody reads
    | .w2sr => if !p.errChBuffered then .w2sr else if p.terminateBeforeErr then .wEnd
               else (if cause != 0 then (if dead then .wEnd else .wtB) else .wtA1)
    | .w2sf => if !p.errChBuffered then .w2sf else if p.terminateBeforeErr then .wEnd
               else (if cause != 0 then (if dead then .wEnd else .wtB) else .wtA2)
    | .wnAcr => if cause != 0 then (if dead then .w2cr else .wnBcr) else .wnAcr
    | .wnAcf => if cause != 0 then (if dead then .w2cf else .wnBcf) else .wnAcf
    | .wnBcr => if dead then .w2cr else .wnBcr
    | .wnBcf => if dead then .w2cf else .wnBcf
    -- a stale message: the report that follows goes to a channel nobody reads (if buffered)
    | .wnAsr => if cause != 0 then (if dead then (if p.errChBuffered then .wEnd else .w2sr) else .wnBsr) else .wnAsr
    | .wnAsf => if cause != 0 then (if dead then (if p.errChBuffered then .wEnd else .w2sf) else .wnBsf) else .wnAsf
    | .wnBsr => if dead then (if p.errChBuffered then .wEnd else .w2sr) else .wnBsr
    | .wnBsf => if dead then (if p.errChBuffered then .wEnd else .w2sf) else .wnBsf
    | w => w

def normK (cause : Nat) (dead : Bool) (k : KP) : KP :=
  match k with
    | .rc1 => if cause != 0 then (if dead then .rc4 else .rc2) else .rc1
    | .rc2 => if dead then .rc4 else .rc2
    | .ktA => if cause != 0 then .ktB else .ktA
    | k => k

/-- `Close()`: program counter and whether it still holds the current connection. -/
def normC (cref dead : Bool) (cause : Nat) (c : CP) : CP × Bool :=
  let cdone := cref && dead && (c == .ctB || (c == .ctA && cause != 0))
  -- (`!cref`: the connection `Close()` is closing has been let go of by `reconnect`; what is left of
  -- `Close()` touches only that connection — the `Drain` system — and nothing of this one)
  (if cdone || (!cref && (c == .c2 || c == .ctA || c == .ctB)) then .cDone
   else if cref && c == .ctA && cause != 0 then .ctB else c, cref && !cdone)

def norm1 (p : Params) (s : St) : St :=
  let dead := s.txNil && s.netClosed
  { s with rp := normR s.has s.closed s.cause dead (s.kp == .k6) s.rp,
           wp := normW p s.has s.closed s.cause dead (s.kp == .k2 || s.kp == .k3o) s.wp,
           kp := normK s.cause dead s.kp,
           cp := (normC s.cref dead s.cause s.cp).1, cref := (normC s.cref dead s.cause s.cp).2 }

def norm (p : Params) (s : St) : St := norm1 p s

/-- the UNFUSED successors: every statement is a step of its own. -/
def ustep (p : Params) (s : St) : List St := stepInt p s ++ stepEnv p s

/-- successors. -/
def step (p : Params) (s : St) : List St := (ustep p s).map (norm p)

def sys (p : Params) : Sys St := { init := init, step := step p }

/-- the system without fusion (see `normR` … and `Lemmas/CliFusion.lean`). -/
def usys (p : Params) : Sys St := { init := init, step := ustep p }

/-! ### bad states -/

def quiescent (p : Params) (s : St) : Bool := (stepInt p s).isEmpty

def connEnded (s : St) : Bool := s.rp == .rEnd && s.wp == .wEnd

/-- hand-off condition at `c.conn = nil`: the connection is closed and either fully terminated or a
    `Close()` holding a pointer to it is inside its `terminate`. -/
def handoffOk (s : St) : Bool :=
  s.closed && ((s.cause != 0 && s.txNil && s.netClosed)
    || (s.cref && (s.cp == .ctA || (s.cp == .ctB && s.cause != 0))))

def badStale (s : St) : Bool := s.stale
def badReuse (s : St) : Bool := s.reused
def badOverflow (s : St) : Bool := s.overflow
def badPanic (s : St) : Bool := s.panic != 0
/-- a call has handed its request to a writer more often than its budget allows (first transmission + `retries`). -/
def badTx (p : Params) (s : St) : Bool := s.ntx > p.retries + 1
/-- a call that started on a closed client succeeds or dials. -/
def badAfterClose (s : St) : Bool := s.born && (s.kp == .retOk || s.kp == .rc5)
/-- a clean call ends in an error. -/
def badRecover (s : St) : Bool := s.clean && s.kp == .retErr
/-- a call whose context is done, or whose connection is cancelled, cannot move. -/
def badHang (p : Params) (s : St) : Bool :=
  kActive s && (s.kctx || (s.has && s.cause != 0)) && quiescent p s
/-- nothing can move, no call and no `Close()` is in progress, the current connection has been
    cancelled or the client closed, and a connection goroutine has not ended. -/
def badStuck (p : Params) (s : St) : Bool :=
  s.kp == .idle && (s.cp == .c0 || s.cp == .cDone) && s.has && (s.cause != 0 || s.cclosed)
    && !connEnded s && quiescent p s
def badHandoff (s : St) : Bool := s.kp == .rc4 && s.has && !handoffOk s

/-! #### progress: what happens when nothing fails

  `progress` = the steps of the client's own goroutines, of the transport completing a write and of the
  server answering — everything except a new call, a cancellation, `Close()` and the fault injector.
  `measure` is a ranking function: EVERY progress step of EVERY reachable state strictly decreases it
  (`badMeasure` unreachable), so there is no infinite run of progress steps: between two disturbances
  the system comes to rest after at most `measure s` steps. -/

def uprogress (p : Params) (s : St) : List St := stepInt p s ++ envAnswer s ++ envWritten s

def progress (p : Params) (s : St) : List St := (uprogress p s).map (norm p)

def kRank : KP → Nat
  | .idle => 0 | .retOk => 1 | .retErr => 1 | .k7c => 2 | .ktB => 3 | .ktA => 4 | .k6 => 5 | .k5 => 6
  | .k4 => 7 | .k3o => 8 | .k3n => 8 | .k2 => 9 | .k1 => 10 | .rc5 => 11 | .rc4 => 12 | .rc2 => 13
  | .rc1 => 14 | .rc0 => 15 | .k0b => 16 | .k0 => 17
def rRank : RP → Nat
  | .r0 => 6 | .r1 => 5 | .rtA1 => 4 | .rtA2 => 4 | .rtB => 3 | .r2c => 2 | .r2s => 2 | .rEnd => 0
def wRank : WP → Nat
  | .wc => 9 | .ws => 8 | .w1c => 7 | .w1s => 7
  | .wnAcr => 6 | .wnAcf => 6 | .wnAsr => 6 | .wnAsf => 6
  | .wnBcr => 5 | .wnBcf => 5 | .wnBsr => 5 | .wnBsf => 5
  | .w2cr => 4 | .w2cf => 4 | .w2sr => 4 | .w2sf => 4
  | .wtA1 => 3 | .wtA2 => 3 | .wtB => 2 | .wEnd => 0
def cRank : CP → Nat
  | .c0 => 0 | .c1 => 4 | .c2 => 3 | .ctA => 2 | .ctB => 1 | .cDone => 0
def qLen (q : Q) : Nat := match q with | 0 => 0 | 3 => 2 | _ => 1
/-- how far the messages of the connection still have to travel. -/
def tokRank (s : St) : Nat :=
  (if s.wp == .w1c || s.wp == .w1s then 5 else 0) + 4 * qLen s.pend + 3 * qLen s.infl
    + (if s.rp == .r2c || s.rp == .r2s then 2 else 0)
def measure (s : St) : Nat :=
  s.retry * 10000 + kRank s.kp * 100 + tokRank s * 10 + rRank s.rp + wRank s.wp + cRank s.cp

/-- a progress step that does not decrease the measure. -/
def badMeasure (p : Params) (s : St) : Bool := !(progress p s).all fun t => Nat.blt (measure t) (measure s)

/-- a clean call that cannot move: no step of the client, no pending write, no answer due; or a progress
    step that ends the clean call other than through a return. (With `badMeasure` and `badRecover`: a
    clean call returns its response, after at most `measure` progress steps — `C11.clean_call_succeeds`.) -/
def badCleanBlocked (p : Params) (s : St) : Bool :=
  s.clean && kActive s &&
    ((progress p s).isEmpty || !((progress p s).all fun t => t.clean && t.kp != .idle))

/-! #### the colours mean what the header says (C10)

  `cur` tokens exist only while the caller is inside the exchange it has started on this connection (after
  the hand-off to the writer, before it leaves `send`/`recv`), there is at most one, the error channel is
  used only in `send`'s inner select, and `stale` tokens exist only on a connection marked `tainted`. -/

def inExchange (s : St) : Bool := s.kp == .k4 || s.kp == .k5 || s.kp == .k6
def curCount (s : St) : Nat :=
  (wHasCur s.wp).toNat + (qHasCur s.pend).toNat + (qHasCur s.infl).toNat + (s.rp == .r2c).toNat
def badColour (s : St) : Bool :=
  (hasCur s && !inExchange s) || Nat.blt 1 (curCount s) || (hasStale s && !s.tainted)
    || (s.errCh != 0 && s.kp != .k4)

/-- everything that must never happen. `raced` (a connection installed although `Close()` had already
    set `c.closed`, and not closed again by `reconnect`) can only be set without `recheckAfterDial`. -/
def bad (p : Params) (s : St) : Bool :=
  badStale s || badReuse s || badOverflow s || badPanic s || badTx p s || badAfterClose s
    || badRecover s || badHang p s || badHandoff s || badStuck p s || s.raced
    || badColour s || badCleanBlocked p s || badMeasure p s

/-- the same predicates read on a state of the unfused system `usys` (progress without `norm`). -/
def ubad (p : Params) (s : St) : Bool :=
  badStale s || badReuse s || badOverflow s || badPanic s || badTx p s || badAfterClose s
    || badRecover s || badHang p s || badHandoff s || badStuck p s || s.raced
    || badColour s
    || (s.clean && kActive s && ((uprogress p s).isEmpty || !((uprogress p s).all fun t => t.clean && t.kp != .idle)))
    || !((uprogress p s).all fun t => Nat.blt (measure t) (measure s))

/-! ### coding -/

def RP.toN : RP → Nat
  | .r0 => 0 | .r1 => 1 | .r2c => 2 | .r2s => 3 | .rtA1 => 4 | .rtA2 => 5 | .rtB => 6 | .rEnd => 7
def RP.ofN : Nat → RP
  | 0 => .r0 | 1 => .r1 | 2 => .r2c | 3 => .r2s | 4 => .rtA1 | 5 => .rtA2 | 6 => .rtB | _ => .rEnd
def WP.toN : WP → Nat
  | .wc => 0 | .ws => 1 | .w1c => 2 | .w1s => 3 | .w2cr => 4 | .w2cf => 5 | .w2sr => 6 | .w2sf => 7
  | .wtA1 => 8 | .wtA2 => 9 | .wtB => 10 | .wEnd => 11 | .wnAcr => 12 | .wnAcf => 13 | .wnAsr => 14
  | .wnAsf => 15 | .wnBcr => 16 | .wnBcf => 17 | .wnBsr => 18 | .wnBsf => 19
def WP.ofN : Nat → WP
  | 0 => .wc | 1 => .ws | 2 => .w1c | 3 => .w1s | 4 => .w2cr | 5 => .w2cf | 6 => .w2sr | 7 => .w2sf
  | 8 => .wtA1 | 9 => .wtA2 | 10 => .wtB | 12 => .wnAcr | 13 => .wnAcf | 14 => .wnAsr | 15 => .wnAsf
  | 16 => .wnBcr | 17 => .wnBcf | 18 => .wnBsr | 19 => .wnBsf | _ => .wEnd
def KP.toN : KP → Nat
  | .idle => 0 | .k0 => 1 | .k0b => 2 | .rc0 => 3 | .rc1 => 4 | .rc2 => 5 | .rc4 => 6 | .rc5 => 7
  | .k1 => 8 | .k2 => 9 | .k3o => 10 | .k3n => 11 | .k4 => 12 | .k5 => 13 | .k6 => 14
  | .ktA => 15 | .ktB => 16 | .k7c => 17 | .retOk => 18 | .retErr => 19
def KP.ofN : Nat → KP
  | 0 => .idle | 1 => .k0 | 2 => .k0b | 3 => .rc0 | 4 => .rc1 | 5 => .rc2 | 6 => .rc4 | 7 => .rc5
  | 8 => .k1 | 9 => .k2 | 10 => .k3o | 11 => .k3n | 12 => .k4 | 13 => .k5 | 14 => .k6
  | 15 => .ktA | 16 => .ktB | 17 => .k7c | 18 => .retOk | _ => .retErr
def CP.toN : CP → Nat
  | .c0 => 0 | .c1 => 1 | .c2 => 2 | .ctA => 3 | .ctB => 4 | .cDone => 5
def CP.ofN : Nat → CP
  | 0 => .c0 | 1 => .c1 | 2 => .c2 | 3 => .ctA | 4 => .ctB | _ => .cDone

/-- mixed-radix packing of (value, radix) pairs, least significant first (used by `CliScenario`). -/
def pack : List (Nat × Nat) → Nat
  | [] => 0
  | (v, r) :: rest => v + r * pack rest

/-- mixed-radix code of a state: field × weight, weight = product of the radices of the earlier fields.
    (Flat sums / independent divisions on purpose: `let`-chains are very slow in kernel evaluation.) -/
def code (s : St) : Nat :=
  Nat.add (s.has.toNat)
  (Nat.add (Nat.mul s.rp.toN 2)
  (Nat.add (Nat.mul s.wp.toN 16)
  (Nat.add (Nat.mul s.closed.toNat 320)
  (Nat.add (Nat.mul s.cause 640)
  (Nat.add (Nat.mul s.txNil.toNat 1920)
  (Nat.add (Nat.mul s.txClosed.toNat 3840)
  (Nat.add (Nat.mul s.netClosed.toNat 7680)
  (Nat.add (Nat.mul s.errCh 15360)
  (Nat.add (Nat.mul s.pend 61440)
  (Nat.add (Nat.mul s.infl 245760)
  (Nat.add (Nat.mul s.tainted.toNat 983040)
  (Nat.add (Nat.mul s.kp.toN 1966080)
  (Nat.add (Nat.mul s.kres 39321600)
  (Nat.add (Nat.mul s.retry 117964800)
  (Nat.add (Nat.mul s.kctx.toNat 471859200)
  (Nat.add (Nat.mul s.cclosed.toNat 943718400)
  (Nat.add (Nat.mul s.cp.toN 1887436800)
  (Nat.add (Nat.mul s.cref.toNat 11324620800)
  (Nat.add (Nat.mul s.ntx 22649241600)
  (Nat.add (Nat.mul s.clean.toNat 135895449600)
  (Nat.add (Nat.mul s.born.toNat 271790899200)
  (Nat.add (Nat.mul s.raced.toNat 543581798400)
  (Nat.add (Nat.mul s.stale.toNat 1087163596800)
  (Nat.add (Nat.mul s.reused.toNat 2174327193600)
  (Nat.add (Nat.mul s.overflow.toNat 4348654387200)
  (Nat.mul s.panic 8697308774400))))))))))))))))))))))))))

def decode (n : Nat) : St :=
  { has := Nat.beq (Nat.mod (Nat.div n 1) 2) 1, rp := RP.ofN (Nat.mod (Nat.div n 2) 8),
    wp := WP.ofN (Nat.mod (Nat.div n 16) 20), closed := Nat.beq (Nat.mod (Nat.div n 320) 2) 1,
    cause := Nat.mod (Nat.div n 640) 3, txNil := Nat.beq (Nat.mod (Nat.div n 1920) 2) 1,
    txClosed := Nat.beq (Nat.mod (Nat.div n 3840) 2) 1, netClosed := Nat.beq (Nat.mod (Nat.div n 7680) 2) 1,
    errCh := Nat.mod (Nat.div n 15360) 4, pend := Nat.mod (Nat.div n 61440) 4,
    infl := Nat.mod (Nat.div n 245760) 4, tainted := Nat.beq (Nat.mod (Nat.div n 983040) 2) 1,
    kp := KP.ofN (Nat.mod (Nat.div n 1966080) 20), kres := Nat.mod (Nat.div n 39321600) 3,
    retry := Nat.mod (Nat.div n 117964800) 4, kctx := Nat.beq (Nat.mod (Nat.div n 471859200) 2) 1,
    cclosed := Nat.beq (Nat.mod (Nat.div n 943718400) 2) 1, cp := CP.ofN (Nat.mod (Nat.div n 1887436800) 6),
    cref := Nat.beq (Nat.mod (Nat.div n 11324620800) 2) 1, ntx := Nat.mod (Nat.div n 22649241600) 6,
    clean := Nat.beq (Nat.mod (Nat.div n 135895449600) 2) 1,
    born := Nat.beq (Nat.mod (Nat.div n 271790899200) 2) 1,
    raced := Nat.beq (Nat.mod (Nat.div n 543581798400) 2) 1,
    stale := Nat.beq (Nat.mod (Nat.div n 1087163596800) 2) 1,
    reused := Nat.beq (Nat.mod (Nat.div n 2174327193600) 2) 1,
    overflow := Nat.beq (Nat.mod (Nat.div n 4348654387200) 2) 1,
    panic := Nat.mod (Nat.div n 8697308774400) 3 }

/-- the numeric fields are within their radix (booleans and program counters always are). -/
def wf (s : St) : Bool :=
  Nat.blt s.cause 3 && Nat.blt s.errCh 4 && Nat.blt s.pend 4 && Nat.blt s.infl 4 && Nat.blt s.kres 3 && Nat.blt s.retry 4 && Nat.blt s.ntx 6 && Nat.blt s.panic 3

theorem nat_div_eq (a b : Nat) : Nat.div a b = a / b := rfl
theorem nat_mod_eq (a b : Nat) : Nat.mod a b = a % b := rfl
theorem toNat_lt2 (b : Bool) : b.toNat < 2 := by cases b <;> decide
theorem RP.toN_lt (x : RP) : x.toN < 8 := by cases x <;> decide
theorem WP.toN_lt (x : WP) : x.toN < 20 := by cases x <;> decide
theorem KP.toN_lt (x : KP) : x.toN < 20 := by cases x <;> decide
theorem CP.toN_lt (x : CP) : x.toN < 6 := by cases x <;> decide
theorem RP.ofN_toN (x : RP) : RP.ofN x.toN = x := by cases x <;> rfl
theorem WP.ofN_toN (x : WP) : WP.ofN x.toN = x := by cases x <;> rfl
theorem KP.ofN_toN (x : KP) : KP.ofN x.toN = x := by cases x <;> rfl
theorem CP.ofN_toN (x : CP) : CP.ofN x.toN = x := by cases x <;> rfl

set_option linter.unusedVariables false in
theorem fld0 (v0 v1 v2 v3 v4 v5 v6 v7 v8 v9 v10 v11 v12 v13 v14 v15 v16 v17 v18 v19 v20 v21 v22 v23 v24 v25 v26 : Nat)
    (h0 : v0 < 2) (h1 : v1 < 8) (h2 : v2 < 20) (h3 : v3 < 2) (h4 : v4 < 3) (h5 : v5 < 2) (h6 : v6 < 2) (h7 : v7 < 2) (h8 : v8 < 4) (h9 : v9 < 4) (h10 : v10 < 4) (h11 : v11 < 2) (h12 : v12 < 20) (h13 : v13 < 3) (h14 : v14 < 4) (h15 : v15 < 2) (h16 : v16 < 2) (h17 : v17 < 6) (h18 : v18 < 2) (h19 : v19 < 6) (h20 : v20 < 2) (h21 : v21 < 2) (h22 : v22 < 2) (h23 : v23 < 2) (h24 : v24 < 2) (h25 : v25 < 2) (h26 : v26 < 3) :
    (v0 + (v1 * 2 + (v2 * 16 + (v3 * 320 + (v4 * 640 + (v5 * 1920 + (v6 * 3840 + (v7 * 7680 + (v8 * 15360 + (v9 * 61440 + (v10 * 245760 + (v11 * 983040 + (v12 * 1966080 + (v13 * 39321600 + (v14 * 117964800 + (v15 * 471859200 + (v16 * 943718400 + (v17 * 1887436800 + (v18 * 11324620800 + (v19 * 22649241600 + (v20 * 135895449600 + (v21 * 271790899200 + (v22 * 543581798400 + (v23 * 1087163596800 + (v24 * 2174327193600 + (v25 * 4348654387200 + (v26 * 8697308774400))))))))))))))))))))))))))) / 1 % 2 = v0 := by omega
set_option linter.unusedVariables false in
theorem fld1 (v0 v1 v2 v3 v4 v5 v6 v7 v8 v9 v10 v11 v12 v13 v14 v15 v16 v17 v18 v19 v20 v21 v22 v23 v24 v25 v26 : Nat)
    (h0 : v0 < 2) (h1 : v1 < 8) (h2 : v2 < 20) (h3 : v3 < 2) (h4 : v4 < 3) (h5 : v5 < 2) (h6 : v6 < 2) (h7 : v7 < 2) (h8 : v8 < 4) (h9 : v9 < 4) (h10 : v10 < 4) (h11 : v11 < 2) (h12 : v12 < 20) (h13 : v13 < 3) (h14 : v14 < 4) (h15 : v15 < 2) (h16 : v16 < 2) (h17 : v17 < 6) (h18 : v18 < 2) (h19 : v19 < 6) (h20 : v20 < 2) (h21 : v21 < 2) (h22 : v22 < 2) (h23 : v23 < 2) (h24 : v24 < 2) (h25 : v25 < 2) (h26 : v26 < 3) :
    (v0 + (v1 * 2 + (v2 * 16 + (v3 * 320 + (v4 * 640 + (v5 * 1920 + (v6 * 3840 + (v7 * 7680 + (v8 * 15360 + (v9 * 61440 + (v10 * 245760 + (v11 * 983040 + (v12 * 1966080 + (v13 * 39321600 + (v14 * 117964800 + (v15 * 471859200 + (v16 * 943718400 + (v17 * 1887436800 + (v18 * 11324620800 + (v19 * 22649241600 + (v20 * 135895449600 + (v21 * 271790899200 + (v22 * 543581798400 + (v23 * 1087163596800 + (v24 * 2174327193600 + (v25 * 4348654387200 + (v26 * 8697308774400))))))))))))))))))))))))))) / 2 % 8 = v1 := by omega
set_option linter.unusedVariables false in
theorem fld2 (v0 v1 v2 v3 v4 v5 v6 v7 v8 v9 v10 v11 v12 v13 v14 v15 v16 v17 v18 v19 v20 v21 v22 v23 v24 v25 v26 : Nat)
    (h0 : v0 < 2) (h1 : v1 < 8) (h2 : v2 < 20) (h3 : v3 < 2) (h4 : v4 < 3) (h5 : v5 < 2) (h6 : v6 < 2) (h7 : v7 < 2) (h8 : v8 < 4) (h9 : v9 < 4) (h10 : v10 < 4) (h11 : v11 < 2) (h12 : v12 < 20) (h13 : v13 < 3) (h14 : v14 < 4) (h15 : v15 < 2) (h16 : v16 < 2) (h17 : v17 < 6) (h18 : v18 < 2) (h19 : v19 < 6) (h20 : v20 < 2) (h21 : v21 < 2) (h22 : v22 < 2) (h23 : v23 < 2) (h24 : v24 < 2) (h25 : v25 < 2) (h26 : v26 < 3) :
    (v0 + (v1 * 2 + (v2 * 16 + (v3 * 320 + (v4 * 640 + (v5 * 1920 + (v6 * 3840 + (v7 * 7680 + (v8 * 15360 + (v9 * 61440 + (v10 * 245760 + (v11 * 983040 + (v12 * 1966080 + (v13 * 39321600 + (v14 * 117964800 + (v15 * 471859200 + (v16 * 943718400 + (v17 * 1887436800 + (v18 * 11324620800 + (v19 * 22649241600 + (v20 * 135895449600 + (v21 * 271790899200 + (v22 * 543581798400 + (v23 * 1087163596800 + (v24 * 2174327193600 + (v25 * 4348654387200 + (v26 * 8697308774400))))))))))))))))))))))))))) / 16 % 20 = v2 := by omega
set_option linter.unusedVariables false in
theorem fld3 (v0 v1 v2 v3 v4 v5 v6 v7 v8 v9 v10 v11 v12 v13 v14 v15 v16 v17 v18 v19 v20 v21 v22 v23 v24 v25 v26 : Nat)
    (h0 : v0 < 2) (h1 : v1 < 8) (h2 : v2 < 20) (h3 : v3 < 2) (h4 : v4 < 3) (h5 : v5 < 2) (h6 : v6 < 2) (h7 : v7 < 2) (h8 : v8 < 4) (h9 : v9 < 4) (h10 : v10 < 4) (h11 : v11 < 2) (h12 : v12 < 20) (h13 : v13 < 3) (h14 : v14 < 4) (h15 : v15 < 2) (h16 : v16 < 2) (h17 : v17 < 6) (h18 : v18 < 2) (h19 : v19 < 6) (h20 : v20 < 2) (h21 : v21 < 2) (h22 : v22 < 2) (h23 : v23 < 2) (h24 : v24 < 2) (h25 : v25 < 2) (h26 : v26 < 3) :
    (v0 + (v1 * 2 + (v2 * 16 + (v3 * 320 + (v4 * 640 + (v5 * 1920 + (v6 * 3840 + (v7 * 7680 + (v8 * 15360 + (v9 * 61440 + (v10 * 245760 + (v11 * 983040 + (v12 * 1966080 + (v13 * 39321600 + (v14 * 117964800 + (v15 * 471859200 + (v16 * 943718400 + (v17 * 1887436800 + (v18 * 11324620800 + (v19 * 22649241600 + (v20 * 135895449600 + (v21 * 271790899200 + (v22 * 543581798400 + (v23 * 1087163596800 + (v24 * 2174327193600 + (v25 * 4348654387200 + (v26 * 8697308774400))))))))))))))))))))))))))) / 320 % 2 = v3 := by omega
set_option linter.unusedVariables false in
theorem fld4 (v0 v1 v2 v3 v4 v5 v6 v7 v8 v9 v10 v11 v12 v13 v14 v15 v16 v17 v18 v19 v20 v21 v22 v23 v24 v25 v26 : Nat)
    (h0 : v0 < 2) (h1 : v1 < 8) (h2 : v2 < 20) (h3 : v3 < 2) (h4 : v4 < 3) (h5 : v5 < 2) (h6 : v6 < 2) (h7 : v7 < 2) (h8 : v8 < 4) (h9 : v9 < 4) (h10 : v10 < 4) (h11 : v11 < 2) (h12 : v12 < 20) (h13 : v13 < 3) (h14 : v14 < 4) (h15 : v15 < 2) (h16 : v16 < 2) (h17 : v17 < 6) (h18 : v18 < 2) (h19 : v19 < 6) (h20 : v20 < 2) (h21 : v21 < 2) (h22 : v22 < 2) (h23 : v23 < 2) (h24 : v24 < 2) (h25 : v25 < 2) (h26 : v26 < 3) :
    (v0 + (v1 * 2 + (v2 * 16 + (v3 * 320 + (v4 * 640 + (v5 * 1920 + (v6 * 3840 + (v7 * 7680 + (v8 * 15360 + (v9 * 61440 + (v10 * 245760 + (v11 * 983040 + (v12 * 1966080 + (v13 * 39321600 + (v14 * 117964800 + (v15 * 471859200 + (v16 * 943718400 + (v17 * 1887436800 + (v18 * 11324620800 + (v19 * 22649241600 + (v20 * 135895449600 + (v21 * 271790899200 + (v22 * 543581798400 + (v23 * 1087163596800 + (v24 * 2174327193600 + (v25 * 4348654387200 + (v26 * 8697308774400))))))))))))))))))))))))))) / 640 % 3 = v4 := by omega
set_option linter.unusedVariables false in
theorem fld5 (v0 v1 v2 v3 v4 v5 v6 v7 v8 v9 v10 v11 v12 v13 v14 v15 v16 v17 v18 v19 v20 v21 v22 v23 v24 v25 v26 : Nat)
    (h0 : v0 < 2) (h1 : v1 < 8) (h2 : v2 < 20) (h3 : v3 < 2) (h4 : v4 < 3) (h5 : v5 < 2) (h6 : v6 < 2) (h7 : v7 < 2) (h8 : v8 < 4) (h9 : v9 < 4) (h10 : v10 < 4) (h11 : v11 < 2) (h12 : v12 < 20) (h13 : v13 < 3) (h14 : v14 < 4) (h15 : v15 < 2) (h16 : v16 < 2) (h17 : v17 < 6) (h18 : v18 < 2) (h19 : v19 < 6) (h20 : v20 < 2) (h21 : v21 < 2) (h22 : v22 < 2) (h23 : v23 < 2) (h24 : v24 < 2) (h25 : v25 < 2) (h26 : v26 < 3) :
    (v0 + (v1 * 2 + (v2 * 16 + (v3 * 320 + (v4 * 640 + (v5 * 1920 + (v6 * 3840 + (v7 * 7680 + (v8 * 15360 + (v9 * 61440 + (v10 * 245760 + (v11 * 983040 + (v12 * 1966080 + (v13 * 39321600 + (v14 * 117964800 + (v15 * 471859200 + (v16 * 943718400 + (v17 * 1887436800 + (v18 * 11324620800 + (v19 * 22649241600 + (v20 * 135895449600 + (v21 * 271790899200 + (v22 * 543581798400 + (v23 * 1087163596800 + (v24 * 2174327193600 + (v25 * 4348654387200 + (v26 * 8697308774400))))))))))))))))))))))))))) / 1920 % 2 = v5 := by omega
set_option linter.unusedVariables false in
theorem fld6 (v0 v1 v2 v3 v4 v5 v6 v7 v8 v9 v10 v11 v12 v13 v14 v15 v16 v17 v18 v19 v20 v21 v22 v23 v24 v25 v26 : Nat)
    (h0 : v0 < 2) (h1 : v1 < 8) (h2 : v2 < 20) (h3 : v3 < 2) (h4 : v4 < 3) (h5 : v5 < 2) (h6 : v6 < 2) (h7 : v7 < 2) (h8 : v8 < 4) (h9 : v9 < 4) (h10 : v10 < 4) (h11 : v11 < 2) (h12 : v12 < 20) (h13 : v13 < 3) (h14 : v14 < 4) (h15 : v15 < 2) (h16 : v16 < 2) (h17 : v17 < 6) (h18 : v18 < 2) (h19 : v19 < 6) (h20 : v20 < 2) (h21 : v21 < 2) (h22 : v22 < 2) (h23 : v23 < 2) (h24 : v24 < 2) (h25 : v25 < 2) (h26 : v26 < 3) :
    (v0 + (v1 * 2 + (v2 * 16 + (v3 * 320 + (v4 * 640 + (v5 * 1920 + (v6 * 3840 + (v7 * 7680 + (v8 * 15360 + (v9 * 61440 + (v10 * 245760 + (v11 * 983040 + (v12 * 1966080 + (v13 * 39321600 + (v14 * 117964800 + (v15 * 471859200 + (v16 * 943718400 + (v17 * 1887436800 + (v18 * 11324620800 + (v19 * 22649241600 + (v20 * 135895449600 + (v21 * 271790899200 + (v22 * 543581798400 + (v23 * 1087163596800 + (v24 * 2174327193600 + (v25 * 4348654387200 + (v26 * 8697308774400))))))))))))))))))))))))))) / 3840 % 2 = v6 := by omega
set_option linter.unusedVariables false in
theorem fld7 (v0 v1 v2 v3 v4 v5 v6 v7 v8 v9 v10 v11 v12 v13 v14 v15 v16 v17 v18 v19 v20 v21 v22 v23 v24 v25 v26 : Nat)
    (h0 : v0 < 2) (h1 : v1 < 8) (h2 : v2 < 20) (h3 : v3 < 2) (h4 : v4 < 3) (h5 : v5 < 2) (h6 : v6 < 2) (h7 : v7 < 2) (h8 : v8 < 4) (h9 : v9 < 4) (h10 : v10 < 4) (h11 : v11 < 2) (h12 : v12 < 20) (h13 : v13 < 3) (h14 : v14 < 4) (h15 : v15 < 2) (h16 : v16 < 2) (h17 : v17 < 6) (h18 : v18 < 2) (h19 : v19 < 6) (h20 : v20 < 2) (h21 : v21 < 2) (h22 : v22 < 2) (h23 : v23 < 2) (h24 : v24 < 2) (h25 : v25 < 2) (h26 : v26 < 3) :
    (v0 + (v1 * 2 + (v2 * 16 + (v3 * 320 + (v4 * 640 + (v5 * 1920 + (v6 * 3840 + (v7 * 7680 + (v8 * 15360 + (v9 * 61440 + (v10 * 245760 + (v11 * 983040 + (v12 * 1966080 + (v13 * 39321600 + (v14 * 117964800 + (v15 * 471859200 + (v16 * 943718400 + (v17 * 1887436800 + (v18 * 11324620800 + (v19 * 22649241600 + (v20 * 135895449600 + (v21 * 271790899200 + (v22 * 543581798400 + (v23 * 1087163596800 + (v24 * 2174327193600 + (v25 * 4348654387200 + (v26 * 8697308774400))))))))))))))))))))))))))) / 7680 % 2 = v7 := by omega
set_option linter.unusedVariables false in
theorem fld8 (v0 v1 v2 v3 v4 v5 v6 v7 v8 v9 v10 v11 v12 v13 v14 v15 v16 v17 v18 v19 v20 v21 v22 v23 v24 v25 v26 : Nat)
    (h0 : v0 < 2) (h1 : v1 < 8) (h2 : v2 < 20) (h3 : v3 < 2) (h4 : v4 < 3) (h5 : v5 < 2) (h6 : v6 < 2) (h7 : v7 < 2) (h8 : v8 < 4) (h9 : v9 < 4) (h10 : v10 < 4) (h11 : v11 < 2) (h12 : v12 < 20) (h13 : v13 < 3) (h14 : v14 < 4) (h15 : v15 < 2) (h16 : v16 < 2) (h17 : v17 < 6) (h18 : v18 < 2) (h19 : v19 < 6) (h20 : v20 < 2) (h21 : v21 < 2) (h22 : v22 < 2) (h23 : v23 < 2) (h24 : v24 < 2) (h25 : v25 < 2) (h26 : v26 < 3) :
    (v0 + (v1 * 2 + (v2 * 16 + (v3 * 320 + (v4 * 640 + (v5 * 1920 + (v6 * 3840 + (v7 * 7680 + (v8 * 15360 + (v9 * 61440 + (v10 * 245760 + (v11 * 983040 + (v12 * 1966080 + (v13 * 39321600 + (v14 * 117964800 + (v15 * 471859200 + (v16 * 943718400 + (v17 * 1887436800 + (v18 * 11324620800 + (v19 * 22649241600 + (v20 * 135895449600 + (v21 * 271790899200 + (v22 * 543581798400 + (v23 * 1087163596800 + (v24 * 2174327193600 + (v25 * 4348654387200 + (v26 * 8697308774400))))))))))))))))))))))))))) / 15360 % 4 = v8 := by omega
set_option linter.unusedVariables false in
theorem fld9 (v0 v1 v2 v3 v4 v5 v6 v7 v8 v9 v10 v11 v12 v13 v14 v15 v16 v17 v18 v19 v20 v21 v22 v23 v24 v25 v26 : Nat)
    (h0 : v0 < 2) (h1 : v1 < 8) (h2 : v2 < 20) (h3 : v3 < 2) (h4 : v4 < 3) (h5 : v5 < 2) (h6 : v6 < 2) (h7 : v7 < 2) (h8 : v8 < 4) (h9 : v9 < 4) (h10 : v10 < 4) (h11 : v11 < 2) (h12 : v12 < 20) (h13 : v13 < 3) (h14 : v14 < 4) (h15 : v15 < 2) (h16 : v16 < 2) (h17 : v17 < 6) (h18 : v18 < 2) (h19 : v19 < 6) (h20 : v20 < 2) (h21 : v21 < 2) (h22 : v22 < 2) (h23 : v23 < 2) (h24 : v24 < 2) (h25 : v25 < 2) (h26 : v26 < 3) :
    (v0 + (v1 * 2 + (v2 * 16 + (v3 * 320 + (v4 * 640 + (v5 * 1920 + (v6 * 3840 + (v7 * 7680 + (v8 * 15360 + (v9 * 61440 + (v10 * 245760 + (v11 * 983040 + (v12 * 1966080 + (v13 * 39321600 + (v14 * 117964800 + (v15 * 471859200 + (v16 * 943718400 + (v17 * 1887436800 + (v18 * 11324620800 + (v19 * 22649241600 + (v20 * 135895449600 + (v21 * 271790899200 + (v22 * 543581798400 + (v23 * 1087163596800 + (v24 * 2174327193600 + (v25 * 4348654387200 + (v26 * 8697308774400))))))))))))))))))))))))))) / 61440 % 4 = v9 := by omega
set_option linter.unusedVariables false in
theorem fld10 (v0 v1 v2 v3 v4 v5 v6 v7 v8 v9 v10 v11 v12 v13 v14 v15 v16 v17 v18 v19 v20 v21 v22 v23 v24 v25 v26 : Nat)
    (h0 : v0 < 2) (h1 : v1 < 8) (h2 : v2 < 20) (h3 : v3 < 2) (h4 : v4 < 3) (h5 : v5 < 2) (h6 : v6 < 2) (h7 : v7 < 2) (h8 : v8 < 4) (h9 : v9 < 4) (h10 : v10 < 4) (h11 : v11 < 2) (h12 : v12 < 20) (h13 : v13 < 3) (h14 : v14 < 4) (h15 : v15 < 2) (h16 : v16 < 2) (h17 : v17 < 6) (h18 : v18 < 2) (h19 : v19 < 6) (h20 : v20 < 2) (h21 : v21 < 2) (h22 : v22 < 2) (h23 : v23 < 2) (h24 : v24 < 2) (h25 : v25 < 2) (h26 : v26 < 3) :
    (v0 + (v1 * 2 + (v2 * 16 + (v3 * 320 + (v4 * 640 + (v5 * 1920 + (v6 * 3840 + (v7 * 7680 + (v8 * 15360 + (v9 * 61440 + (v10 * 245760 + (v11 * 983040 + (v12 * 1966080 + (v13 * 39321600 + (v14 * 117964800 + (v15 * 471859200 + (v16 * 943718400 + (v17 * 1887436800 + (v18 * 11324620800 + (v19 * 22649241600 + (v20 * 135895449600 + (v21 * 271790899200 + (v22 * 543581798400 + (v23 * 1087163596800 + (v24 * 2174327193600 + (v25 * 4348654387200 + (v26 * 8697308774400))))))))))))))))))))))))))) / 245760 % 4 = v10 := by omega
set_option linter.unusedVariables false in
theorem fld11 (v0 v1 v2 v3 v4 v5 v6 v7 v8 v9 v10 v11 v12 v13 v14 v15 v16 v17 v18 v19 v20 v21 v22 v23 v24 v25 v26 : Nat)
    (h0 : v0 < 2) (h1 : v1 < 8) (h2 : v2 < 20) (h3 : v3 < 2) (h4 : v4 < 3) (h5 : v5 < 2) (h6 : v6 < 2) (h7 : v7 < 2) (h8 : v8 < 4) (h9 : v9 < 4) (h10 : v10 < 4) (h11 : v11 < 2) (h12 : v12 < 20) (h13 : v13 < 3) (h14 : v14 < 4) (h15 : v15 < 2) (h16 : v16 < 2) (h17 : v17 < 6) (h18 : v18 < 2) (h19 : v19 < 6) (h20 : v20 < 2) (h21 : v21 < 2) (h22 : v22 < 2) (h23 : v23 < 2) (h24 : v24 < 2) (h25 : v25 < 2) (h26 : v26 < 3) :
    (v0 + (v1 * 2 + (v2 * 16 + (v3 * 320 + (v4 * 640 + (v5 * 1920 + (v6 * 3840 + (v7 * 7680 + (v8 * 15360 + (v9 * 61440 + (v10 * 245760 + (v11 * 983040 + (v12 * 1966080 + (v13 * 39321600 + (v14 * 117964800 + (v15 * 471859200 + (v16 * 943718400 + (v17 * 1887436800 + (v18 * 11324620800 + (v19 * 22649241600 + (v20 * 135895449600 + (v21 * 271790899200 + (v22 * 543581798400 + (v23 * 1087163596800 + (v24 * 2174327193600 + (v25 * 4348654387200 + (v26 * 8697308774400))))))))))))))))))))))))))) / 983040 % 2 = v11 := by omega
set_option linter.unusedVariables false in
theorem fld12 (v0 v1 v2 v3 v4 v5 v6 v7 v8 v9 v10 v11 v12 v13 v14 v15 v16 v17 v18 v19 v20 v21 v22 v23 v24 v25 v26 : Nat)
    (h0 : v0 < 2) (h1 : v1 < 8) (h2 : v2 < 20) (h3 : v3 < 2) (h4 : v4 < 3) (h5 : v5 < 2) (h6 : v6 < 2) (h7 : v7 < 2) (h8 : v8 < 4) (h9 : v9 < 4) (h10 : v10 < 4) (h11 : v11 < 2) (h12 : v12 < 20) (h13 : v13 < 3) (h14 : v14 < 4) (h15 : v15 < 2) (h16 : v16 < 2) (h17 : v17 < 6) (h18 : v18 < 2) (h19 : v19 < 6) (h20 : v20 < 2) (h21 : v21 < 2) (h22 : v22 < 2) (h23 : v23 < 2) (h24 : v24 < 2) (h25 : v25 < 2) (h26 : v26 < 3) :
    (v0 + (v1 * 2 + (v2 * 16 + (v3 * 320 + (v4 * 640 + (v5 * 1920 + (v6 * 3840 + (v7 * 7680 + (v8 * 15360 + (v9 * 61440 + (v10 * 245760 + (v11 * 983040 + (v12 * 1966080 + (v13 * 39321600 + (v14 * 117964800 + (v15 * 471859200 + (v16 * 943718400 + (v17 * 1887436800 + (v18 * 11324620800 + (v19 * 22649241600 + (v20 * 135895449600 + (v21 * 271790899200 + (v22 * 543581798400 + (v23 * 1087163596800 + (v24 * 2174327193600 + (v25 * 4348654387200 + (v26 * 8697308774400))))))))))))))))))))))))))) / 1966080 % 20 = v12 := by omega
set_option linter.unusedVariables false in
theorem fld13 (v0 v1 v2 v3 v4 v5 v6 v7 v8 v9 v10 v11 v12 v13 v14 v15 v16 v17 v18 v19 v20 v21 v22 v23 v24 v25 v26 : Nat)
    (h0 : v0 < 2) (h1 : v1 < 8) (h2 : v2 < 20) (h3 : v3 < 2) (h4 : v4 < 3) (h5 : v5 < 2) (h6 : v6 < 2) (h7 : v7 < 2) (h8 : v8 < 4) (h9 : v9 < 4) (h10 : v10 < 4) (h11 : v11 < 2) (h12 : v12 < 20) (h13 : v13 < 3) (h14 : v14 < 4) (h15 : v15 < 2) (h16 : v16 < 2) (h17 : v17 < 6) (h18 : v18 < 2) (h19 : v19 < 6) (h20 : v20 < 2) (h21 : v21 < 2) (h22 : v22 < 2) (h23 : v23 < 2) (h24 : v24 < 2) (h25 : v25 < 2) (h26 : v26 < 3) :
    (v0 + (v1 * 2 + (v2 * 16 + (v3 * 320 + (v4 * 640 + (v5 * 1920 + (v6 * 3840 + (v7 * 7680 + (v8 * 15360 + (v9 * 61440 + (v10 * 245760 + (v11 * 983040 + (v12 * 1966080 + (v13 * 39321600 + (v14 * 117964800 + (v15 * 471859200 + (v16 * 943718400 + (v17 * 1887436800 + (v18 * 11324620800 + (v19 * 22649241600 + (v20 * 135895449600 + (v21 * 271790899200 + (v22 * 543581798400 + (v23 * 1087163596800 + (v24 * 2174327193600 + (v25 * 4348654387200 + (v26 * 8697308774400))))))))))))))))))))))))))) / 39321600 % 3 = v13 := by omega
set_option linter.unusedVariables false in
theorem fld14 (v0 v1 v2 v3 v4 v5 v6 v7 v8 v9 v10 v11 v12 v13 v14 v15 v16 v17 v18 v19 v20 v21 v22 v23 v24 v25 v26 : Nat)
    (h0 : v0 < 2) (h1 : v1 < 8) (h2 : v2 < 20) (h3 : v3 < 2) (h4 : v4 < 3) (h5 : v5 < 2) (h6 : v6 < 2) (h7 : v7 < 2) (h8 : v8 < 4) (h9 : v9 < 4) (h10 : v10 < 4) (h11 : v11 < 2) (h12 : v12 < 20) (h13 : v13 < 3) (h14 : v14 < 4) (h15 : v15 < 2) (h16 : v16 < 2) (h17 : v17 < 6) (h18 : v18 < 2) (h19 : v19 < 6) (h20 : v20 < 2) (h21 : v21 < 2) (h22 : v22 < 2) (h23 : v23 < 2) (h24 : v24 < 2) (h25 : v25 < 2) (h26 : v26 < 3) :
    (v0 + (v1 * 2 + (v2 * 16 + (v3 * 320 + (v4 * 640 + (v5 * 1920 + (v6 * 3840 + (v7 * 7680 + (v8 * 15360 + (v9 * 61440 + (v10 * 245760 + (v11 * 983040 + (v12 * 1966080 + (v13 * 39321600 + (v14 * 117964800 + (v15 * 471859200 + (v16 * 943718400 + (v17 * 1887436800 + (v18 * 11324620800 + (v19 * 22649241600 + (v20 * 135895449600 + (v21 * 271790899200 + (v22 * 543581798400 + (v23 * 1087163596800 + (v24 * 2174327193600 + (v25 * 4348654387200 + (v26 * 8697308774400))))))))))))))))))))))))))) / 117964800 % 4 = v14 := by omega
set_option linter.unusedVariables false in
theorem fld15 (v0 v1 v2 v3 v4 v5 v6 v7 v8 v9 v10 v11 v12 v13 v14 v15 v16 v17 v18 v19 v20 v21 v22 v23 v24 v25 v26 : Nat)
    (h0 : v0 < 2) (h1 : v1 < 8) (h2 : v2 < 20) (h3 : v3 < 2) (h4 : v4 < 3) (h5 : v5 < 2) (h6 : v6 < 2) (h7 : v7 < 2) (h8 : v8 < 4) (h9 : v9 < 4) (h10 : v10 < 4) (h11 : v11 < 2) (h12 : v12 < 20) (h13 : v13 < 3) (h14 : v14 < 4) (h15 : v15 < 2) (h16 : v16 < 2) (h17 : v17 < 6) (h18 : v18 < 2) (h19 : v19 < 6) (h20 : v20 < 2) (h21 : v21 < 2) (h22 : v22 < 2) (h23 : v23 < 2) (h24 : v24 < 2) (h25 : v25 < 2) (h26 : v26 < 3) :
    (v0 + (v1 * 2 + (v2 * 16 + (v3 * 320 + (v4 * 640 + (v5 * 1920 + (v6 * 3840 + (v7 * 7680 + (v8 * 15360 + (v9 * 61440 + (v10 * 245760 + (v11 * 983040 + (v12 * 1966080 + (v13 * 39321600 + (v14 * 117964800 + (v15 * 471859200 + (v16 * 943718400 + (v17 * 1887436800 + (v18 * 11324620800 + (v19 * 22649241600 + (v20 * 135895449600 + (v21 * 271790899200 + (v22 * 543581798400 + (v23 * 1087163596800 + (v24 * 2174327193600 + (v25 * 4348654387200 + (v26 * 8697308774400))))))))))))))))))))))))))) / 471859200 % 2 = v15 := by omega
set_option linter.unusedVariables false in
theorem fld16 (v0 v1 v2 v3 v4 v5 v6 v7 v8 v9 v10 v11 v12 v13 v14 v15 v16 v17 v18 v19 v20 v21 v22 v23 v24 v25 v26 : Nat)
    (h0 : v0 < 2) (h1 : v1 < 8) (h2 : v2 < 20) (h3 : v3 < 2) (h4 : v4 < 3) (h5 : v5 < 2) (h6 : v6 < 2) (h7 : v7 < 2) (h8 : v8 < 4) (h9 : v9 < 4) (h10 : v10 < 4) (h11 : v11 < 2) (h12 : v12 < 20) (h13 : v13 < 3) (h14 : v14 < 4) (h15 : v15 < 2) (h16 : v16 < 2) (h17 : v17 < 6) (h18 : v18 < 2) (h19 : v19 < 6) (h20 : v20 < 2) (h21 : v21 < 2) (h22 : v22 < 2) (h23 : v23 < 2) (h24 : v24 < 2) (h25 : v25 < 2) (h26 : v26 < 3) :
    (v0 + (v1 * 2 + (v2 * 16 + (v3 * 320 + (v4 * 640 + (v5 * 1920 + (v6 * 3840 + (v7 * 7680 + (v8 * 15360 + (v9 * 61440 + (v10 * 245760 + (v11 * 983040 + (v12 * 1966080 + (v13 * 39321600 + (v14 * 117964800 + (v15 * 471859200 + (v16 * 943718400 + (v17 * 1887436800 + (v18 * 11324620800 + (v19 * 22649241600 + (v20 * 135895449600 + (v21 * 271790899200 + (v22 * 543581798400 + (v23 * 1087163596800 + (v24 * 2174327193600 + (v25 * 4348654387200 + (v26 * 8697308774400))))))))))))))))))))))))))) / 943718400 % 2 = v16 := by omega
set_option linter.unusedVariables false in
theorem fld17 (v0 v1 v2 v3 v4 v5 v6 v7 v8 v9 v10 v11 v12 v13 v14 v15 v16 v17 v18 v19 v20 v21 v22 v23 v24 v25 v26 : Nat)
    (h0 : v0 < 2) (h1 : v1 < 8) (h2 : v2 < 20) (h3 : v3 < 2) (h4 : v4 < 3) (h5 : v5 < 2) (h6 : v6 < 2) (h7 : v7 < 2) (h8 : v8 < 4) (h9 : v9 < 4) (h10 : v10 < 4) (h11 : v11 < 2) (h12 : v12 < 20) (h13 : v13 < 3) (h14 : v14 < 4) (h15 : v15 < 2) (h16 : v16 < 2) (h17 : v17 < 6) (h18 : v18 < 2) (h19 : v19 < 6) (h20 : v20 < 2) (h21 : v21 < 2) (h22 : v22 < 2) (h23 : v23 < 2) (h24 : v24 < 2) (h25 : v25 < 2) (h26 : v26 < 3) :
    (v0 + (v1 * 2 + (v2 * 16 + (v3 * 320 + (v4 * 640 + (v5 * 1920 + (v6 * 3840 + (v7 * 7680 + (v8 * 15360 + (v9 * 61440 + (v10 * 245760 + (v11 * 983040 + (v12 * 1966080 + (v13 * 39321600 + (v14 * 117964800 + (v15 * 471859200 + (v16 * 943718400 + (v17 * 1887436800 + (v18 * 11324620800 + (v19 * 22649241600 + (v20 * 135895449600 + (v21 * 271790899200 + (v22 * 543581798400 + (v23 * 1087163596800 + (v24 * 2174327193600 + (v25 * 4348654387200 + (v26 * 8697308774400))))))))))))))))))))))))))) / 1887436800 % 6 = v17 := by omega
set_option linter.unusedVariables false in
theorem fld18 (v0 v1 v2 v3 v4 v5 v6 v7 v8 v9 v10 v11 v12 v13 v14 v15 v16 v17 v18 v19 v20 v21 v22 v23 v24 v25 v26 : Nat)
    (h0 : v0 < 2) (h1 : v1 < 8) (h2 : v2 < 20) (h3 : v3 < 2) (h4 : v4 < 3) (h5 : v5 < 2) (h6 : v6 < 2) (h7 : v7 < 2) (h8 : v8 < 4) (h9 : v9 < 4) (h10 : v10 < 4) (h11 : v11 < 2) (h12 : v12 < 20) (h13 : v13 < 3) (h14 : v14 < 4) (h15 : v15 < 2) (h16 : v16 < 2) (h17 : v17 < 6) (h18 : v18 < 2) (h19 : v19 < 6) (h20 : v20 < 2) (h21 : v21 < 2) (h22 : v22 < 2) (h23 : v23 < 2) (h24 : v24 < 2) (h25 : v25 < 2) (h26 : v26 < 3) :
    (v0 + (v1 * 2 + (v2 * 16 + (v3 * 320 + (v4 * 640 + (v5 * 1920 + (v6 * 3840 + (v7 * 7680 + (v8 * 15360 + (v9 * 61440 + (v10 * 245760 + (v11 * 983040 + (v12 * 1966080 + (v13 * 39321600 + (v14 * 117964800 + (v15 * 471859200 + (v16 * 943718400 + (v17 * 1887436800 + (v18 * 11324620800 + (v19 * 22649241600 + (v20 * 135895449600 + (v21 * 271790899200 + (v22 * 543581798400 + (v23 * 1087163596800 + (v24 * 2174327193600 + (v25 * 4348654387200 + (v26 * 8697308774400))))))))))))))))))))))))))) / 11324620800 % 2 = v18 := by omega
set_option linter.unusedVariables false in
theorem fld19 (v0 v1 v2 v3 v4 v5 v6 v7 v8 v9 v10 v11 v12 v13 v14 v15 v16 v17 v18 v19 v20 v21 v22 v23 v24 v25 v26 : Nat)
    (h0 : v0 < 2) (h1 : v1 < 8) (h2 : v2 < 20) (h3 : v3 < 2) (h4 : v4 < 3) (h5 : v5 < 2) (h6 : v6 < 2) (h7 : v7 < 2) (h8 : v8 < 4) (h9 : v9 < 4) (h10 : v10 < 4) (h11 : v11 < 2) (h12 : v12 < 20) (h13 : v13 < 3) (h14 : v14 < 4) (h15 : v15 < 2) (h16 : v16 < 2) (h17 : v17 < 6) (h18 : v18 < 2) (h19 : v19 < 6) (h20 : v20 < 2) (h21 : v21 < 2) (h22 : v22 < 2) (h23 : v23 < 2) (h24 : v24 < 2) (h25 : v25 < 2) (h26 : v26 < 3) :
    (v0 + (v1 * 2 + (v2 * 16 + (v3 * 320 + (v4 * 640 + (v5 * 1920 + (v6 * 3840 + (v7 * 7680 + (v8 * 15360 + (v9 * 61440 + (v10 * 245760 + (v11 * 983040 + (v12 * 1966080 + (v13 * 39321600 + (v14 * 117964800 + (v15 * 471859200 + (v16 * 943718400 + (v17 * 1887436800 + (v18 * 11324620800 + (v19 * 22649241600 + (v20 * 135895449600 + (v21 * 271790899200 + (v22 * 543581798400 + (v23 * 1087163596800 + (v24 * 2174327193600 + (v25 * 4348654387200 + (v26 * 8697308774400))))))))))))))))))))))))))) / 22649241600 % 6 = v19 := by omega
set_option linter.unusedVariables false in
theorem fld20 (v0 v1 v2 v3 v4 v5 v6 v7 v8 v9 v10 v11 v12 v13 v14 v15 v16 v17 v18 v19 v20 v21 v22 v23 v24 v25 v26 : Nat)
    (h0 : v0 < 2) (h1 : v1 < 8) (h2 : v2 < 20) (h3 : v3 < 2) (h4 : v4 < 3) (h5 : v5 < 2) (h6 : v6 < 2) (h7 : v7 < 2) (h8 : v8 < 4) (h9 : v9 < 4) (h10 : v10 < 4) (h11 : v11 < 2) (h12 : v12 < 20) (h13 : v13 < 3) (h14 : v14 < 4) (h15 : v15 < 2) (h16 : v16 < 2) (h17 : v17 < 6) (h18 : v18 < 2) (h19 : v19 < 6) (h20 : v20 < 2) (h21 : v21 < 2) (h22 : v22 < 2) (h23 : v23 < 2) (h24 : v24 < 2) (h25 : v25 < 2) (h26 : v26 < 3) :
    (v0 + (v1 * 2 + (v2 * 16 + (v3 * 320 + (v4 * 640 + (v5 * 1920 + (v6 * 3840 + (v7 * 7680 + (v8 * 15360 + (v9 * 61440 + (v10 * 245760 + (v11 * 983040 + (v12 * 1966080 + (v13 * 39321600 + (v14 * 117964800 + (v15 * 471859200 + (v16 * 943718400 + (v17 * 1887436800 + (v18 * 11324620800 + (v19 * 22649241600 + (v20 * 135895449600 + (v21 * 271790899200 + (v22 * 543581798400 + (v23 * 1087163596800 + (v24 * 2174327193600 + (v25 * 4348654387200 + (v26 * 8697308774400))))))))))))))))))))))))))) / 135895449600 % 2 = v20 := by omega
set_option linter.unusedVariables false in
theorem fld21 (v0 v1 v2 v3 v4 v5 v6 v7 v8 v9 v10 v11 v12 v13 v14 v15 v16 v17 v18 v19 v20 v21 v22 v23 v24 v25 v26 : Nat)
    (h0 : v0 < 2) (h1 : v1 < 8) (h2 : v2 < 20) (h3 : v3 < 2) (h4 : v4 < 3) (h5 : v5 < 2) (h6 : v6 < 2) (h7 : v7 < 2) (h8 : v8 < 4) (h9 : v9 < 4) (h10 : v10 < 4) (h11 : v11 < 2) (h12 : v12 < 20) (h13 : v13 < 3) (h14 : v14 < 4) (h15 : v15 < 2) (h16 : v16 < 2) (h17 : v17 < 6) (h18 : v18 < 2) (h19 : v19 < 6) (h20 : v20 < 2) (h21 : v21 < 2) (h22 : v22 < 2) (h23 : v23 < 2) (h24 : v24 < 2) (h25 : v25 < 2) (h26 : v26 < 3) :
    (v0 + (v1 * 2 + (v2 * 16 + (v3 * 320 + (v4 * 640 + (v5 * 1920 + (v6 * 3840 + (v7 * 7680 + (v8 * 15360 + (v9 * 61440 + (v10 * 245760 + (v11 * 983040 + (v12 * 1966080 + (v13 * 39321600 + (v14 * 117964800 + (v15 * 471859200 + (v16 * 943718400 + (v17 * 1887436800 + (v18 * 11324620800 + (v19 * 22649241600 + (v20 * 135895449600 + (v21 * 271790899200 + (v22 * 543581798400 + (v23 * 1087163596800 + (v24 * 2174327193600 + (v25 * 4348654387200 + (v26 * 8697308774400))))))))))))))))))))))))))) / 271790899200 % 2 = v21 := by omega
set_option linter.unusedVariables false in
theorem fld22 (v0 v1 v2 v3 v4 v5 v6 v7 v8 v9 v10 v11 v12 v13 v14 v15 v16 v17 v18 v19 v20 v21 v22 v23 v24 v25 v26 : Nat)
    (h0 : v0 < 2) (h1 : v1 < 8) (h2 : v2 < 20) (h3 : v3 < 2) (h4 : v4 < 3) (h5 : v5 < 2) (h6 : v6 < 2) (h7 : v7 < 2) (h8 : v8 < 4) (h9 : v9 < 4) (h10 : v10 < 4) (h11 : v11 < 2) (h12 : v12 < 20) (h13 : v13 < 3) (h14 : v14 < 4) (h15 : v15 < 2) (h16 : v16 < 2) (h17 : v17 < 6) (h18 : v18 < 2) (h19 : v19 < 6) (h20 : v20 < 2) (h21 : v21 < 2) (h22 : v22 < 2) (h23 : v23 < 2) (h24 : v24 < 2) (h25 : v25 < 2) (h26 : v26 < 3) :
    (v0 + (v1 * 2 + (v2 * 16 + (v3 * 320 + (v4 * 640 + (v5 * 1920 + (v6 * 3840 + (v7 * 7680 + (v8 * 15360 + (v9 * 61440 + (v10 * 245760 + (v11 * 983040 + (v12 * 1966080 + (v13 * 39321600 + (v14 * 117964800 + (v15 * 471859200 + (v16 * 943718400 + (v17 * 1887436800 + (v18 * 11324620800 + (v19 * 22649241600 + (v20 * 135895449600 + (v21 * 271790899200 + (v22 * 543581798400 + (v23 * 1087163596800 + (v24 * 2174327193600 + (v25 * 4348654387200 + (v26 * 8697308774400))))))))))))))))))))))))))) / 543581798400 % 2 = v22 := by omega
set_option linter.unusedVariables false in
theorem fld23 (v0 v1 v2 v3 v4 v5 v6 v7 v8 v9 v10 v11 v12 v13 v14 v15 v16 v17 v18 v19 v20 v21 v22 v23 v24 v25 v26 : Nat)
    (h0 : v0 < 2) (h1 : v1 < 8) (h2 : v2 < 20) (h3 : v3 < 2) (h4 : v4 < 3) (h5 : v5 < 2) (h6 : v6 < 2) (h7 : v7 < 2) (h8 : v8 < 4) (h9 : v9 < 4) (h10 : v10 < 4) (h11 : v11 < 2) (h12 : v12 < 20) (h13 : v13 < 3) (h14 : v14 < 4) (h15 : v15 < 2) (h16 : v16 < 2) (h17 : v17 < 6) (h18 : v18 < 2) (h19 : v19 < 6) (h20 : v20 < 2) (h21 : v21 < 2) (h22 : v22 < 2) (h23 : v23 < 2) (h24 : v24 < 2) (h25 : v25 < 2) (h26 : v26 < 3) :
    (v0 + (v1 * 2 + (v2 * 16 + (v3 * 320 + (v4 * 640 + (v5 * 1920 + (v6 * 3840 + (v7 * 7680 + (v8 * 15360 + (v9 * 61440 + (v10 * 245760 + (v11 * 983040 + (v12 * 1966080 + (v13 * 39321600 + (v14 * 117964800 + (v15 * 471859200 + (v16 * 943718400 + (v17 * 1887436800 + (v18 * 11324620800 + (v19 * 22649241600 + (v20 * 135895449600 + (v21 * 271790899200 + (v22 * 543581798400 + (v23 * 1087163596800 + (v24 * 2174327193600 + (v25 * 4348654387200 + (v26 * 8697308774400))))))))))))))))))))))))))) / 1087163596800 % 2 = v23 := by omega
set_option linter.unusedVariables false in
theorem fld24 (v0 v1 v2 v3 v4 v5 v6 v7 v8 v9 v10 v11 v12 v13 v14 v15 v16 v17 v18 v19 v20 v21 v22 v23 v24 v25 v26 : Nat)
    (h0 : v0 < 2) (h1 : v1 < 8) (h2 : v2 < 20) (h3 : v3 < 2) (h4 : v4 < 3) (h5 : v5 < 2) (h6 : v6 < 2) (h7 : v7 < 2) (h8 : v8 < 4) (h9 : v9 < 4) (h10 : v10 < 4) (h11 : v11 < 2) (h12 : v12 < 20) (h13 : v13 < 3) (h14 : v14 < 4) (h15 : v15 < 2) (h16 : v16 < 2) (h17 : v17 < 6) (h18 : v18 < 2) (h19 : v19 < 6) (h20 : v20 < 2) (h21 : v21 < 2) (h22 : v22 < 2) (h23 : v23 < 2) (h24 : v24 < 2) (h25 : v25 < 2) (h26 : v26 < 3) :
    (v0 + (v1 * 2 + (v2 * 16 + (v3 * 320 + (v4 * 640 + (v5 * 1920 + (v6 * 3840 + (v7 * 7680 + (v8 * 15360 + (v9 * 61440 + (v10 * 245760 + (v11 * 983040 + (v12 * 1966080 + (v13 * 39321600 + (v14 * 117964800 + (v15 * 471859200 + (v16 * 943718400 + (v17 * 1887436800 + (v18 * 11324620800 + (v19 * 22649241600 + (v20 * 135895449600 + (v21 * 271790899200 + (v22 * 543581798400 + (v23 * 1087163596800 + (v24 * 2174327193600 + (v25 * 4348654387200 + (v26 * 8697308774400))))))))))))))))))))))))))) / 2174327193600 % 2 = v24 := by omega
set_option linter.unusedVariables false in
theorem fld25 (v0 v1 v2 v3 v4 v5 v6 v7 v8 v9 v10 v11 v12 v13 v14 v15 v16 v17 v18 v19 v20 v21 v22 v23 v24 v25 v26 : Nat)
    (h0 : v0 < 2) (h1 : v1 < 8) (h2 : v2 < 20) (h3 : v3 < 2) (h4 : v4 < 3) (h5 : v5 < 2) (h6 : v6 < 2) (h7 : v7 < 2) (h8 : v8 < 4) (h9 : v9 < 4) (h10 : v10 < 4) (h11 : v11 < 2) (h12 : v12 < 20) (h13 : v13 < 3) (h14 : v14 < 4) (h15 : v15 < 2) (h16 : v16 < 2) (h17 : v17 < 6) (h18 : v18 < 2) (h19 : v19 < 6) (h20 : v20 < 2) (h21 : v21 < 2) (h22 : v22 < 2) (h23 : v23 < 2) (h24 : v24 < 2) (h25 : v25 < 2) (h26 : v26 < 3) :
    (v0 + (v1 * 2 + (v2 * 16 + (v3 * 320 + (v4 * 640 + (v5 * 1920 + (v6 * 3840 + (v7 * 7680 + (v8 * 15360 + (v9 * 61440 + (v10 * 245760 + (v11 * 983040 + (v12 * 1966080 + (v13 * 39321600 + (v14 * 117964800 + (v15 * 471859200 + (v16 * 943718400 + (v17 * 1887436800 + (v18 * 11324620800 + (v19 * 22649241600 + (v20 * 135895449600 + (v21 * 271790899200 + (v22 * 543581798400 + (v23 * 1087163596800 + (v24 * 2174327193600 + (v25 * 4348654387200 + (v26 * 8697308774400))))))))))))))))))))))))))) / 4348654387200 % 2 = v25 := by omega
set_option linter.unusedVariables false in
theorem fld26 (v0 v1 v2 v3 v4 v5 v6 v7 v8 v9 v10 v11 v12 v13 v14 v15 v16 v17 v18 v19 v20 v21 v22 v23 v24 v25 v26 : Nat)
    (h0 : v0 < 2) (h1 : v1 < 8) (h2 : v2 < 20) (h3 : v3 < 2) (h4 : v4 < 3) (h5 : v5 < 2) (h6 : v6 < 2) (h7 : v7 < 2) (h8 : v8 < 4) (h9 : v9 < 4) (h10 : v10 < 4) (h11 : v11 < 2) (h12 : v12 < 20) (h13 : v13 < 3) (h14 : v14 < 4) (h15 : v15 < 2) (h16 : v16 < 2) (h17 : v17 < 6) (h18 : v18 < 2) (h19 : v19 < 6) (h20 : v20 < 2) (h21 : v21 < 2) (h22 : v22 < 2) (h23 : v23 < 2) (h24 : v24 < 2) (h25 : v25 < 2) (h26 : v26 < 3) :
    (v0 + (v1 * 2 + (v2 * 16 + (v3 * 320 + (v4 * 640 + (v5 * 1920 + (v6 * 3840 + (v7 * 7680 + (v8 * 15360 + (v9 * 61440 + (v10 * 245760 + (v11 * 983040 + (v12 * 1966080 + (v13 * 39321600 + (v14 * 117964800 + (v15 * 471859200 + (v16 * 943718400 + (v17 * 1887436800 + (v18 * 11324620800 + (v19 * 22649241600 + (v20 * 135895449600 + (v21 * 271790899200 + (v22 * 543581798400 + (v23 * 1087163596800 + (v24 * 2174327193600 + (v25 * 4348654387200 + (v26 * 8697308774400))))))))))))))))))))))))))) / 8697308774400 % 3 = v26 := by omega

theorem roundtrip (s : St) (h : wf s = true) : decode (code s) = s := by
  obtain ⟨has, rp, wp, closed, cause, txNil, txClosed, netClosed, errCh, pend, infl, tainted, kp, kres, retry, kctx, cclosed, cp, cref, ntx, clean, born, raced, stale, reused, overflow, panic⟩ := s
  simp only [wf, Bool.and_eq_true, Nat.blt_eq] at h
  obtain ⟨⟨⟨⟨⟨⟨⟨h_cause, h_errCh⟩, h_pend⟩, h_infl⟩, h_kres⟩, h_retry⟩, h_ntx⟩, h_panic⟩ := h
  unfold decode code
  rw [St.mk.injEq]
  simp only [Nat.add_eq, Nat.mul_eq, nat_div_eq, nat_mod_eq]
  refine ⟨?_, ?_, ?_, ?_, ?_, ?_, ?_, ?_, ?_, ?_, ?_, ?_, ?_, ?_, ?_, ?_, ?_, ?_, ?_, ?_, ?_, ?_, ?_, ?_, ?_, ?_, ?_⟩
  · rw [fld0 (has.toNat) (rp.toN) (wp.toN) (closed.toNat) cause (txNil.toNat) (txClosed.toNat) (netClosed.toNat) errCh pend infl (tainted.toNat) (kp.toN) kres retry (kctx.toNat) (cclosed.toNat) (cp.toN) (cref.toNat) ntx (clean.toNat) (born.toNat) (raced.toNat) (stale.toNat) (reused.toNat) (overflow.toNat) panic
      (toNat_lt2 has) (RP.toN_lt rp) (WP.toN_lt wp) (toNat_lt2 closed) h_cause (toNat_lt2 txNil) (toNat_lt2 txClosed) (toNat_lt2 netClosed) h_errCh h_pend h_infl (toNat_lt2 tainted) (KP.toN_lt kp) h_kres h_retry (toNat_lt2 kctx) (toNat_lt2 cclosed) (CP.toN_lt cp) (toNat_lt2 cref) h_ntx (toNat_lt2 clean) (toNat_lt2 born) (toNat_lt2 raced) (toNat_lt2 stale) (toNat_lt2 reused) (toNat_lt2 overflow) h_panic]; cases has <;> rfl
  · rw [fld1 (has.toNat) (rp.toN) (wp.toN) (closed.toNat) cause (txNil.toNat) (txClosed.toNat) (netClosed.toNat) errCh pend infl (tainted.toNat) (kp.toN) kres retry (kctx.toNat) (cclosed.toNat) (cp.toN) (cref.toNat) ntx (clean.toNat) (born.toNat) (raced.toNat) (stale.toNat) (reused.toNat) (overflow.toNat) panic
      (toNat_lt2 has) (RP.toN_lt rp) (WP.toN_lt wp) (toNat_lt2 closed) h_cause (toNat_lt2 txNil) (toNat_lt2 txClosed) (toNat_lt2 netClosed) h_errCh h_pend h_infl (toNat_lt2 tainted) (KP.toN_lt kp) h_kres h_retry (toNat_lt2 kctx) (toNat_lt2 cclosed) (CP.toN_lt cp) (toNat_lt2 cref) h_ntx (toNat_lt2 clean) (toNat_lt2 born) (toNat_lt2 raced) (toNat_lt2 stale) (toNat_lt2 reused) (toNat_lt2 overflow) h_panic]; exact RP.ofN_toN rp
  · rw [fld2 (has.toNat) (rp.toN) (wp.toN) (closed.toNat) cause (txNil.toNat) (txClosed.toNat) (netClosed.toNat) errCh pend infl (tainted.toNat) (kp.toN) kres retry (kctx.toNat) (cclosed.toNat) (cp.toN) (cref.toNat) ntx (clean.toNat) (born.toNat) (raced.toNat) (stale.toNat) (reused.toNat) (overflow.toNat) panic
      (toNat_lt2 has) (RP.toN_lt rp) (WP.toN_lt wp) (toNat_lt2 closed) h_cause (toNat_lt2 txNil) (toNat_lt2 txClosed) (toNat_lt2 netClosed) h_errCh h_pend h_infl (toNat_lt2 tainted) (KP.toN_lt kp) h_kres h_retry (toNat_lt2 kctx) (toNat_lt2 cclosed) (CP.toN_lt cp) (toNat_lt2 cref) h_ntx (toNat_lt2 clean) (toNat_lt2 born) (toNat_lt2 raced) (toNat_lt2 stale) (toNat_lt2 reused) (toNat_lt2 overflow) h_panic]; exact WP.ofN_toN wp
  · rw [fld3 (has.toNat) (rp.toN) (wp.toN) (closed.toNat) cause (txNil.toNat) (txClosed.toNat) (netClosed.toNat) errCh pend infl (tainted.toNat) (kp.toN) kres retry (kctx.toNat) (cclosed.toNat) (cp.toN) (cref.toNat) ntx (clean.toNat) (born.toNat) (raced.toNat) (stale.toNat) (reused.toNat) (overflow.toNat) panic
      (toNat_lt2 has) (RP.toN_lt rp) (WP.toN_lt wp) (toNat_lt2 closed) h_cause (toNat_lt2 txNil) (toNat_lt2 txClosed) (toNat_lt2 netClosed) h_errCh h_pend h_infl (toNat_lt2 tainted) (KP.toN_lt kp) h_kres h_retry (toNat_lt2 kctx) (toNat_lt2 cclosed) (CP.toN_lt cp) (toNat_lt2 cref) h_ntx (toNat_lt2 clean) (toNat_lt2 born) (toNat_lt2 raced) (toNat_lt2 stale) (toNat_lt2 reused) (toNat_lt2 overflow) h_panic]; cases closed <;> rfl
  · exact fld4 (has.toNat) (rp.toN) (wp.toN) (closed.toNat) cause (txNil.toNat) (txClosed.toNat) (netClosed.toNat) errCh pend infl (tainted.toNat) (kp.toN) kres retry (kctx.toNat) (cclosed.toNat) (cp.toN) (cref.toNat) ntx (clean.toNat) (born.toNat) (raced.toNat) (stale.toNat) (reused.toNat) (overflow.toNat) panic
      (toNat_lt2 has) (RP.toN_lt rp) (WP.toN_lt wp) (toNat_lt2 closed) h_cause (toNat_lt2 txNil) (toNat_lt2 txClosed) (toNat_lt2 netClosed) h_errCh h_pend h_infl (toNat_lt2 tainted) (KP.toN_lt kp) h_kres h_retry (toNat_lt2 kctx) (toNat_lt2 cclosed) (CP.toN_lt cp) (toNat_lt2 cref) h_ntx (toNat_lt2 clean) (toNat_lt2 born) (toNat_lt2 raced) (toNat_lt2 stale) (toNat_lt2 reused) (toNat_lt2 overflow) h_panic
  · rw [fld5 (has.toNat) (rp.toN) (wp.toN) (closed.toNat) cause (txNil.toNat) (txClosed.toNat) (netClosed.toNat) errCh pend infl (tainted.toNat) (kp.toN) kres retry (kctx.toNat) (cclosed.toNat) (cp.toN) (cref.toNat) ntx (clean.toNat) (born.toNat) (raced.toNat) (stale.toNat) (reused.toNat) (overflow.toNat) panic
      (toNat_lt2 has) (RP.toN_lt rp) (WP.toN_lt wp) (toNat_lt2 closed) h_cause (toNat_lt2 txNil) (toNat_lt2 txClosed) (toNat_lt2 netClosed) h_errCh h_pend h_infl (toNat_lt2 tainted) (KP.toN_lt kp) h_kres h_retry (toNat_lt2 kctx) (toNat_lt2 cclosed) (CP.toN_lt cp) (toNat_lt2 cref) h_ntx (toNat_lt2 clean) (toNat_lt2 born) (toNat_lt2 raced) (toNat_lt2 stale) (toNat_lt2 reused) (toNat_lt2 overflow) h_panic]; cases txNil <;> rfl
  · rw [fld6 (has.toNat) (rp.toN) (wp.toN) (closed.toNat) cause (txNil.toNat) (txClosed.toNat) (netClosed.toNat) errCh pend infl (tainted.toNat) (kp.toN) kres retry (kctx.toNat) (cclosed.toNat) (cp.toN) (cref.toNat) ntx (clean.toNat) (born.toNat) (raced.toNat) (stale.toNat) (reused.toNat) (overflow.toNat) panic
      (toNat_lt2 has) (RP.toN_lt rp) (WP.toN_lt wp) (toNat_lt2 closed) h_cause (toNat_lt2 txNil) (toNat_lt2 txClosed) (toNat_lt2 netClosed) h_errCh h_pend h_infl (toNat_lt2 tainted) (KP.toN_lt kp) h_kres h_retry (toNat_lt2 kctx) (toNat_lt2 cclosed) (CP.toN_lt cp) (toNat_lt2 cref) h_ntx (toNat_lt2 clean) (toNat_lt2 born) (toNat_lt2 raced) (toNat_lt2 stale) (toNat_lt2 reused) (toNat_lt2 overflow) h_panic]; cases txClosed <;> rfl
  · rw [fld7 (has.toNat) (rp.toN) (wp.toN) (closed.toNat) cause (txNil.toNat) (txClosed.toNat) (netClosed.toNat) errCh pend infl (tainted.toNat) (kp.toN) kres retry (kctx.toNat) (cclosed.toNat) (cp.toN) (cref.toNat) ntx (clean.toNat) (born.toNat) (raced.toNat) (stale.toNat) (reused.toNat) (overflow.toNat) panic
      (toNat_lt2 has) (RP.toN_lt rp) (WP.toN_lt wp) (toNat_lt2 closed) h_cause (toNat_lt2 txNil) (toNat_lt2 txClosed) (toNat_lt2 netClosed) h_errCh h_pend h_infl (toNat_lt2 tainted) (KP.toN_lt kp) h_kres h_retry (toNat_lt2 kctx) (toNat_lt2 cclosed) (CP.toN_lt cp) (toNat_lt2 cref) h_ntx (toNat_lt2 clean) (toNat_lt2 born) (toNat_lt2 raced) (toNat_lt2 stale) (toNat_lt2 reused) (toNat_lt2 overflow) h_panic]; cases netClosed <;> rfl
  · exact fld8 (has.toNat) (rp.toN) (wp.toN) (closed.toNat) cause (txNil.toNat) (txClosed.toNat) (netClosed.toNat) errCh pend infl (tainted.toNat) (kp.toN) kres retry (kctx.toNat) (cclosed.toNat) (cp.toN) (cref.toNat) ntx (clean.toNat) (born.toNat) (raced.toNat) (stale.toNat) (reused.toNat) (overflow.toNat) panic
      (toNat_lt2 has) (RP.toN_lt rp) (WP.toN_lt wp) (toNat_lt2 closed) h_cause (toNat_lt2 txNil) (toNat_lt2 txClosed) (toNat_lt2 netClosed) h_errCh h_pend h_infl (toNat_lt2 tainted) (KP.toN_lt kp) h_kres h_retry (toNat_lt2 kctx) (toNat_lt2 cclosed) (CP.toN_lt cp) (toNat_lt2 cref) h_ntx (toNat_lt2 clean) (toNat_lt2 born) (toNat_lt2 raced) (toNat_lt2 stale) (toNat_lt2 reused) (toNat_lt2 overflow) h_panic
  · exact fld9 (has.toNat) (rp.toN) (wp.toN) (closed.toNat) cause (txNil.toNat) (txClosed.toNat) (netClosed.toNat) errCh pend infl (tainted.toNat) (kp.toN) kres retry (kctx.toNat) (cclosed.toNat) (cp.toN) (cref.toNat) ntx (clean.toNat) (born.toNat) (raced.toNat) (stale.toNat) (reused.toNat) (overflow.toNat) panic
      (toNat_lt2 has) (RP.toN_lt rp) (WP.toN_lt wp) (toNat_lt2 closed) h_cause (toNat_lt2 txNil) (toNat_lt2 txClosed) (toNat_lt2 netClosed) h_errCh h_pend h_infl (toNat_lt2 tainted) (KP.toN_lt kp) h_kres h_retry (toNat_lt2 kctx) (toNat_lt2 cclosed) (CP.toN_lt cp) (toNat_lt2 cref) h_ntx (toNat_lt2 clean) (toNat_lt2 born) (toNat_lt2 raced) (toNat_lt2 stale) (toNat_lt2 reused) (toNat_lt2 overflow) h_panic
  · exact fld10 (has.toNat) (rp.toN) (wp.toN) (closed.toNat) cause (txNil.toNat) (txClosed.toNat) (netClosed.toNat) errCh pend infl (tainted.toNat) (kp.toN) kres retry (kctx.toNat) (cclosed.toNat) (cp.toN) (cref.toNat) ntx (clean.toNat) (born.toNat) (raced.toNat) (stale.toNat) (reused.toNat) (overflow.toNat) panic
      (toNat_lt2 has) (RP.toN_lt rp) (WP.toN_lt wp) (toNat_lt2 closed) h_cause (toNat_lt2 txNil) (toNat_lt2 txClosed) (toNat_lt2 netClosed) h_errCh h_pend h_infl (toNat_lt2 tainted) (KP.toN_lt kp) h_kres h_retry (toNat_lt2 kctx) (toNat_lt2 cclosed) (CP.toN_lt cp) (toNat_lt2 cref) h_ntx (toNat_lt2 clean) (toNat_lt2 born) (toNat_lt2 raced) (toNat_lt2 stale) (toNat_lt2 reused) (toNat_lt2 overflow) h_panic
  · rw [fld11 (has.toNat) (rp.toN) (wp.toN) (closed.toNat) cause (txNil.toNat) (txClosed.toNat) (netClosed.toNat) errCh pend infl (tainted.toNat) (kp.toN) kres retry (kctx.toNat) (cclosed.toNat) (cp.toN) (cref.toNat) ntx (clean.toNat) (born.toNat) (raced.toNat) (stale.toNat) (reused.toNat) (overflow.toNat) panic
      (toNat_lt2 has) (RP.toN_lt rp) (WP.toN_lt wp) (toNat_lt2 closed) h_cause (toNat_lt2 txNil) (toNat_lt2 txClosed) (toNat_lt2 netClosed) h_errCh h_pend h_infl (toNat_lt2 tainted) (KP.toN_lt kp) h_kres h_retry (toNat_lt2 kctx) (toNat_lt2 cclosed) (CP.toN_lt cp) (toNat_lt2 cref) h_ntx (toNat_lt2 clean) (toNat_lt2 born) (toNat_lt2 raced) (toNat_lt2 stale) (toNat_lt2 reused) (toNat_lt2 overflow) h_panic]; cases tainted <;> rfl
  · rw [fld12 (has.toNat) (rp.toN) (wp.toN) (closed.toNat) cause (txNil.toNat) (txClosed.toNat) (netClosed.toNat) errCh pend infl (tainted.toNat) (kp.toN) kres retry (kctx.toNat) (cclosed.toNat) (cp.toN) (cref.toNat) ntx (clean.toNat) (born.toNat) (raced.toNat) (stale.toNat) (reused.toNat) (overflow.toNat) panic
      (toNat_lt2 has) (RP.toN_lt rp) (WP.toN_lt wp) (toNat_lt2 closed) h_cause (toNat_lt2 txNil) (toNat_lt2 txClosed) (toNat_lt2 netClosed) h_errCh h_pend h_infl (toNat_lt2 tainted) (KP.toN_lt kp) h_kres h_retry (toNat_lt2 kctx) (toNat_lt2 cclosed) (CP.toN_lt cp) (toNat_lt2 cref) h_ntx (toNat_lt2 clean) (toNat_lt2 born) (toNat_lt2 raced) (toNat_lt2 stale) (toNat_lt2 reused) (toNat_lt2 overflow) h_panic]; exact KP.ofN_toN kp
  · exact fld13 (has.toNat) (rp.toN) (wp.toN) (closed.toNat) cause (txNil.toNat) (txClosed.toNat) (netClosed.toNat) errCh pend infl (tainted.toNat) (kp.toN) kres retry (kctx.toNat) (cclosed.toNat) (cp.toN) (cref.toNat) ntx (clean.toNat) (born.toNat) (raced.toNat) (stale.toNat) (reused.toNat) (overflow.toNat) panic
      (toNat_lt2 has) (RP.toN_lt rp) (WP.toN_lt wp) (toNat_lt2 closed) h_cause (toNat_lt2 txNil) (toNat_lt2 txClosed) (toNat_lt2 netClosed) h_errCh h_pend h_infl (toNat_lt2 tainted) (KP.toN_lt kp) h_kres h_retry (toNat_lt2 kctx) (toNat_lt2 cclosed) (CP.toN_lt cp) (toNat_lt2 cref) h_ntx (toNat_lt2 clean) (toNat_lt2 born) (toNat_lt2 raced) (toNat_lt2 stale) (toNat_lt2 reused) (toNat_lt2 overflow) h_panic
  · exact fld14 (has.toNat) (rp.toN) (wp.toN) (closed.toNat) cause (txNil.toNat) (txClosed.toNat) (netClosed.toNat) errCh pend infl (tainted.toNat) (kp.toN) kres retry (kctx.toNat) (cclosed.toNat) (cp.toN) (cref.toNat) ntx (clean.toNat) (born.toNat) (raced.toNat) (stale.toNat) (reused.toNat) (overflow.toNat) panic
      (toNat_lt2 has) (RP.toN_lt rp) (WP.toN_lt wp) (toNat_lt2 closed) h_cause (toNat_lt2 txNil) (toNat_lt2 txClosed) (toNat_lt2 netClosed) h_errCh h_pend h_infl (toNat_lt2 tainted) (KP.toN_lt kp) h_kres h_retry (toNat_lt2 kctx) (toNat_lt2 cclosed) (CP.toN_lt cp) (toNat_lt2 cref) h_ntx (toNat_lt2 clean) (toNat_lt2 born) (toNat_lt2 raced) (toNat_lt2 stale) (toNat_lt2 reused) (toNat_lt2 overflow) h_panic
  · rw [fld15 (has.toNat) (rp.toN) (wp.toN) (closed.toNat) cause (txNil.toNat) (txClosed.toNat) (netClosed.toNat) errCh pend infl (tainted.toNat) (kp.toN) kres retry (kctx.toNat) (cclosed.toNat) (cp.toN) (cref.toNat) ntx (clean.toNat) (born.toNat) (raced.toNat) (stale.toNat) (reused.toNat) (overflow.toNat) panic
      (toNat_lt2 has) (RP.toN_lt rp) (WP.toN_lt wp) (toNat_lt2 closed) h_cause (toNat_lt2 txNil) (toNat_lt2 txClosed) (toNat_lt2 netClosed) h_errCh h_pend h_infl (toNat_lt2 tainted) (KP.toN_lt kp) h_kres h_retry (toNat_lt2 kctx) (toNat_lt2 cclosed) (CP.toN_lt cp) (toNat_lt2 cref) h_ntx (toNat_lt2 clean) (toNat_lt2 born) (toNat_lt2 raced) (toNat_lt2 stale) (toNat_lt2 reused) (toNat_lt2 overflow) h_panic]; cases kctx <;> rfl
  · rw [fld16 (has.toNat) (rp.toN) (wp.toN) (closed.toNat) cause (txNil.toNat) (txClosed.toNat) (netClosed.toNat) errCh pend infl (tainted.toNat) (kp.toN) kres retry (kctx.toNat) (cclosed.toNat) (cp.toN) (cref.toNat) ntx (clean.toNat) (born.toNat) (raced.toNat) (stale.toNat) (reused.toNat) (overflow.toNat) panic
      (toNat_lt2 has) (RP.toN_lt rp) (WP.toN_lt wp) (toNat_lt2 closed) h_cause (toNat_lt2 txNil) (toNat_lt2 txClosed) (toNat_lt2 netClosed) h_errCh h_pend h_infl (toNat_lt2 tainted) (KP.toN_lt kp) h_kres h_retry (toNat_lt2 kctx) (toNat_lt2 cclosed) (CP.toN_lt cp) (toNat_lt2 cref) h_ntx (toNat_lt2 clean) (toNat_lt2 born) (toNat_lt2 raced) (toNat_lt2 stale) (toNat_lt2 reused) (toNat_lt2 overflow) h_panic]; cases cclosed <;> rfl
  · rw [fld17 (has.toNat) (rp.toN) (wp.toN) (closed.toNat) cause (txNil.toNat) (txClosed.toNat) (netClosed.toNat) errCh pend infl (tainted.toNat) (kp.toN) kres retry (kctx.toNat) (cclosed.toNat) (cp.toN) (cref.toNat) ntx (clean.toNat) (born.toNat) (raced.toNat) (stale.toNat) (reused.toNat) (overflow.toNat) panic
      (toNat_lt2 has) (RP.toN_lt rp) (WP.toN_lt wp) (toNat_lt2 closed) h_cause (toNat_lt2 txNil) (toNat_lt2 txClosed) (toNat_lt2 netClosed) h_errCh h_pend h_infl (toNat_lt2 tainted) (KP.toN_lt kp) h_kres h_retry (toNat_lt2 kctx) (toNat_lt2 cclosed) (CP.toN_lt cp) (toNat_lt2 cref) h_ntx (toNat_lt2 clean) (toNat_lt2 born) (toNat_lt2 raced) (toNat_lt2 stale) (toNat_lt2 reused) (toNat_lt2 overflow) h_panic]; exact CP.ofN_toN cp
  · rw [fld18 (has.toNat) (rp.toN) (wp.toN) (closed.toNat) cause (txNil.toNat) (txClosed.toNat) (netClosed.toNat) errCh pend infl (tainted.toNat) (kp.toN) kres retry (kctx.toNat) (cclosed.toNat) (cp.toN) (cref.toNat) ntx (clean.toNat) (born.toNat) (raced.toNat) (stale.toNat) (reused.toNat) (overflow.toNat) panic
      (toNat_lt2 has) (RP.toN_lt rp) (WP.toN_lt wp) (toNat_lt2 closed) h_cause (toNat_lt2 txNil) (toNat_lt2 txClosed) (toNat_lt2 netClosed) h_errCh h_pend h_infl (toNat_lt2 tainted) (KP.toN_lt kp) h_kres h_retry (toNat_lt2 kctx) (toNat_lt2 cclosed) (CP.toN_lt cp) (toNat_lt2 cref) h_ntx (toNat_lt2 clean) (toNat_lt2 born) (toNat_lt2 raced) (toNat_lt2 stale) (toNat_lt2 reused) (toNat_lt2 overflow) h_panic]; cases cref <;> rfl
  · exact fld19 (has.toNat) (rp.toN) (wp.toN) (closed.toNat) cause (txNil.toNat) (txClosed.toNat) (netClosed.toNat) errCh pend infl (tainted.toNat) (kp.toN) kres retry (kctx.toNat) (cclosed.toNat) (cp.toN) (cref.toNat) ntx (clean.toNat) (born.toNat) (raced.toNat) (stale.toNat) (reused.toNat) (overflow.toNat) panic
      (toNat_lt2 has) (RP.toN_lt rp) (WP.toN_lt wp) (toNat_lt2 closed) h_cause (toNat_lt2 txNil) (toNat_lt2 txClosed) (toNat_lt2 netClosed) h_errCh h_pend h_infl (toNat_lt2 tainted) (KP.toN_lt kp) h_kres h_retry (toNat_lt2 kctx) (toNat_lt2 cclosed) (CP.toN_lt cp) (toNat_lt2 cref) h_ntx (toNat_lt2 clean) (toNat_lt2 born) (toNat_lt2 raced) (toNat_lt2 stale) (toNat_lt2 reused) (toNat_lt2 overflow) h_panic
  · rw [fld20 (has.toNat) (rp.toN) (wp.toN) (closed.toNat) cause (txNil.toNat) (txClosed.toNat) (netClosed.toNat) errCh pend infl (tainted.toNat) (kp.toN) kres retry (kctx.toNat) (cclosed.toNat) (cp.toN) (cref.toNat) ntx (clean.toNat) (born.toNat) (raced.toNat) (stale.toNat) (reused.toNat) (overflow.toNat) panic
      (toNat_lt2 has) (RP.toN_lt rp) (WP.toN_lt wp) (toNat_lt2 closed) h_cause (toNat_lt2 txNil) (toNat_lt2 txClosed) (toNat_lt2 netClosed) h_errCh h_pend h_infl (toNat_lt2 tainted) (KP.toN_lt kp) h_kres h_retry (toNat_lt2 kctx) (toNat_lt2 cclosed) (CP.toN_lt cp) (toNat_lt2 cref) h_ntx (toNat_lt2 clean) (toNat_lt2 born) (toNat_lt2 raced) (toNat_lt2 stale) (toNat_lt2 reused) (toNat_lt2 overflow) h_panic]; cases clean <;> rfl
  · rw [fld21 (has.toNat) (rp.toN) (wp.toN) (closed.toNat) cause (txNil.toNat) (txClosed.toNat) (netClosed.toNat) errCh pend infl (tainted.toNat) (kp.toN) kres retry (kctx.toNat) (cclosed.toNat) (cp.toN) (cref.toNat) ntx (clean.toNat) (born.toNat) (raced.toNat) (stale.toNat) (reused.toNat) (overflow.toNat) panic
      (toNat_lt2 has) (RP.toN_lt rp) (WP.toN_lt wp) (toNat_lt2 closed) h_cause (toNat_lt2 txNil) (toNat_lt2 txClosed) (toNat_lt2 netClosed) h_errCh h_pend h_infl (toNat_lt2 tainted) (KP.toN_lt kp) h_kres h_retry (toNat_lt2 kctx) (toNat_lt2 cclosed) (CP.toN_lt cp) (toNat_lt2 cref) h_ntx (toNat_lt2 clean) (toNat_lt2 born) (toNat_lt2 raced) (toNat_lt2 stale) (toNat_lt2 reused) (toNat_lt2 overflow) h_panic]; cases born <;> rfl
  · rw [fld22 (has.toNat) (rp.toN) (wp.toN) (closed.toNat) cause (txNil.toNat) (txClosed.toNat) (netClosed.toNat) errCh pend infl (tainted.toNat) (kp.toN) kres retry (kctx.toNat) (cclosed.toNat) (cp.toN) (cref.toNat) ntx (clean.toNat) (born.toNat) (raced.toNat) (stale.toNat) (reused.toNat) (overflow.toNat) panic
      (toNat_lt2 has) (RP.toN_lt rp) (WP.toN_lt wp) (toNat_lt2 closed) h_cause (toNat_lt2 txNil) (toNat_lt2 txClosed) (toNat_lt2 netClosed) h_errCh h_pend h_infl (toNat_lt2 tainted) (KP.toN_lt kp) h_kres h_retry (toNat_lt2 kctx) (toNat_lt2 cclosed) (CP.toN_lt cp) (toNat_lt2 cref) h_ntx (toNat_lt2 clean) (toNat_lt2 born) (toNat_lt2 raced) (toNat_lt2 stale) (toNat_lt2 reused) (toNat_lt2 overflow) h_panic]; cases raced <;> rfl
  · rw [fld23 (has.toNat) (rp.toN) (wp.toN) (closed.toNat) cause (txNil.toNat) (txClosed.toNat) (netClosed.toNat) errCh pend infl (tainted.toNat) (kp.toN) kres retry (kctx.toNat) (cclosed.toNat) (cp.toN) (cref.toNat) ntx (clean.toNat) (born.toNat) (raced.toNat) (stale.toNat) (reused.toNat) (overflow.toNat) panic
      (toNat_lt2 has) (RP.toN_lt rp) (WP.toN_lt wp) (toNat_lt2 closed) h_cause (toNat_lt2 txNil) (toNat_lt2 txClosed) (toNat_lt2 netClosed) h_errCh h_pend h_infl (toNat_lt2 tainted) (KP.toN_lt kp) h_kres h_retry (toNat_lt2 kctx) (toNat_lt2 cclosed) (CP.toN_lt cp) (toNat_lt2 cref) h_ntx (toNat_lt2 clean) (toNat_lt2 born) (toNat_lt2 raced) (toNat_lt2 stale) (toNat_lt2 reused) (toNat_lt2 overflow) h_panic]; cases stale <;> rfl
  · rw [fld24 (has.toNat) (rp.toN) (wp.toN) (closed.toNat) cause (txNil.toNat) (txClosed.toNat) (netClosed.toNat) errCh pend infl (tainted.toNat) (kp.toN) kres retry (kctx.toNat) (cclosed.toNat) (cp.toN) (cref.toNat) ntx (clean.toNat) (born.toNat) (raced.toNat) (stale.toNat) (reused.toNat) (overflow.toNat) panic
      (toNat_lt2 has) (RP.toN_lt rp) (WP.toN_lt wp) (toNat_lt2 closed) h_cause (toNat_lt2 txNil) (toNat_lt2 txClosed) (toNat_lt2 netClosed) h_errCh h_pend h_infl (toNat_lt2 tainted) (KP.toN_lt kp) h_kres h_retry (toNat_lt2 kctx) (toNat_lt2 cclosed) (CP.toN_lt cp) (toNat_lt2 cref) h_ntx (toNat_lt2 clean) (toNat_lt2 born) (toNat_lt2 raced) (toNat_lt2 stale) (toNat_lt2 reused) (toNat_lt2 overflow) h_panic]; cases reused <;> rfl
  · rw [fld25 (has.toNat) (rp.toN) (wp.toN) (closed.toNat) cause (txNil.toNat) (txClosed.toNat) (netClosed.toNat) errCh pend infl (tainted.toNat) (kp.toN) kres retry (kctx.toNat) (cclosed.toNat) (cp.toN) (cref.toNat) ntx (clean.toNat) (born.toNat) (raced.toNat) (stale.toNat) (reused.toNat) (overflow.toNat) panic
      (toNat_lt2 has) (RP.toN_lt rp) (WP.toN_lt wp) (toNat_lt2 closed) h_cause (toNat_lt2 txNil) (toNat_lt2 txClosed) (toNat_lt2 netClosed) h_errCh h_pend h_infl (toNat_lt2 tainted) (KP.toN_lt kp) h_kres h_retry (toNat_lt2 kctx) (toNat_lt2 cclosed) (CP.toN_lt cp) (toNat_lt2 cref) h_ntx (toNat_lt2 clean) (toNat_lt2 born) (toNat_lt2 raced) (toNat_lt2 stale) (toNat_lt2 reused) (toNat_lt2 overflow) h_panic]; cases overflow <;> rfl
  · exact fld26 (has.toNat) (rp.toN) (wp.toN) (closed.toNat) cause (txNil.toNat) (txClosed.toNat) (netClosed.toNat) errCh pend infl (tainted.toNat) (kp.toN) kres retry (kctx.toNat) (cclosed.toNat) (cp.toN) (cref.toNat) ntx (clean.toNat) (born.toNat) (raced.toNat) (stale.toNat) (reused.toNat) (overflow.toNat) panic
      (toNat_lt2 has) (RP.toN_lt rp) (WP.toN_lt wp) (toNat_lt2 closed) h_cause (toNat_lt2 txNil) (toNat_lt2 txClosed) (toNat_lt2 netClosed) h_errCh h_pend h_infl (toNat_lt2 tainted) (KP.toN_lt kp) h_kres h_retry (toNat_lt2 kctx) (toNat_lt2 cclosed) (CP.toN_lt cp) (toNat_lt2 cref) h_ntx (toNat_lt2 clean) (toNat_lt2 born) (toNat_lt2 raced) (toNat_lt2 stale) (toNat_lt2 reused) (toNat_lt2 overflow) h_panic

def codec : Codec St := { code := code, decode := decode, wf := wf, roundtrip := roundtrip }

end Kmip.CliConn
