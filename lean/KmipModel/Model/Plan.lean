/-
  L2/L3 — the typed codec: model of the reflective encode/decode plans of ttlv/encoder.go and
  ttlv/decoder.go (per-kind functions, the three field wrappers `omitempty`, `version=`, `set-version`,
  the shared version cell of `extension`) and of the hand-written codecs of the kmip and payloads
  packages (`TagEncodeTTLV`/`TagDecodeTTLV`), interpreted over a first-order *schema* that is
  regenerated from /repo's Go types on every run (`Gen.Schema`).

  Encoding produces generic TTLV trees (`Item`, then `enc` gives the bytes); decoding runs over the
  byte-level cursor `Cur` of `Reader.lean`, so it is defined for arbitrary (malformed) input.
-/
import KmipModel.Model.Reader
namespace Kmip

/-- protocol version (major, minor). -/
abbrev Ver := Nat × Nat

/-- `CompareVersions(a, b) < 0`. -/
def Ver.lt (a b : Ver) : Bool := a.1 < b.1 || (a.1 == b.1 && a.2 < b.2)

structure VRange where
  start : Option Ver
  stop  : Option Ver
  deriving Repr, Inhabited, DecidableEq

/-- `versionRange.contains`. -/
def VRange.contains (r : VRange) (v : Ver) : Bool :=
  (match r.start with | some s => !(Ver.lt v s) | none => true) &&
  (match r.stop with | some e => !(Ver.lt e v) | none => true)

/-- `extension.versionIn`: no version set ⇒ everything is in range. -/
def versionIn (cell : Option Ver) (r : VRange) : Bool :=
  match cell with
  | none => true
  | some v => r.contains v

/-- wire kind of a Go type, as classified by `encodeFunc`/`decodeFunc`. -/
inductive Kind where
  | i8 | i16 | i32 | u8 | u16 | u32 | u64 | i64
  | bool | text | bytes | date | interval | big
  | enum (tag : Nat)        -- registered enumeration type (its own default tag, used by text encodings)
  | mask (tag : Nat)        -- registered bit mask type
  | struct (id : Nat)       -- index into `Schema.structs`
  | ptr (k : Kind)          -- pointer (all levels collapsed)
  | slice (k : Kind)        -- repeated element
  | iface                   -- interface: dynamic type travels with the value
  | any                     -- ttlv.Value
  | anyStruct               -- ttlv.Struct
  | unsupported
  deriving Repr, Inhabited, DecidableEq

structure Field where
  tag        : Nat
  kind       : Kind
  omitempty  : Bool := false
  setVersion : Bool := false
  vrange     : Option VRange := none
  dynTag     : Bool := false      -- untagged interface field: the tag is the dynamic type's default tag
  deriving Repr, Inhabited

structure StructDef where
  fields    : List Field
  defTag    : Nat := 0
  custom    : Nat := 0            -- code of the hand-written codec (see `Cust`), 0 = none
  encCustom : Bool := false
  decCustom : Bool := false
  deriving Repr, Inhabited

/-- a type that can sit behind an interface: its default tag and kind. -/
structure Dyn where
  defTag : Nat
  kind   : Kind
  deriving Repr, Inhabited

structure Schema where
  structs : List StructDef
  dyns    : List Dyn
  ops     : List (Nat × Nat × Nat)       -- operation code, request dyn id, response dyn id
  objects : List (Nat × Nat)             -- object type, dyn id
  attrs   : List (Nat × Nat)             -- attribute name (bytes packed base-256), dyn id
  unknownPayloadDyn : Nat
  valueDyn : Nat
  deriving Repr, Inhabited

-- codes of the hand-written codecs
namespace Cust
def requestBatchItem := 1
def responseBatchItem := 2
def credentialValue := 3
def credential := 4
def unknownPayload := 5
def attr := 6
def keyBlock := 7
def keyValue := 8
def keyMaterial := 9
def getResponse := 10
def registerRequest := 11
def importRequest := 12
def exportResponse := 13
end Cust

-- numeric tags used by the hand-written codecs (tags.go)
namespace T
def asyncCorrelationValue := 0x420006
def attr := 0x420008
def attributeIndex := 0x420009
def attributeName := 0x42000A
def attributeValue := 0x42000B
def batchItem := 0x42000F
def credentialType := 0x420024
def credentialValue := 0x420025
def cryptographicAlgorithm := 0x420028
def cryptographicLength := 0x42002A
def keyCompressionType := 0x420041
def keyFormatType := 0x420042
def keyMaterial := 0x420043
def keyValue := 0x420045
def keyWrappingData := 0x420046
def messageExtension := 0x420051
def objectType := 0x420057
def operation := 0x42005C
def requestPayload := 0x420079
def responsePayload := 0x42007C
def resultMessage := 0x42007D
def resultReason := 0x42007E
def resultStatus := 0x42007F
def templateAttribute := 0x420091
def uniqueBatchItemID := 0x420093
def uniqueIdentifier := 0x420094
def keyWrapType := 0x4200F8
def replaceExisting := 0x420124
end T

/-- Go values of the message types, first order. -/
inductive Val where
  | int (v : Int)                      -- every integer kind, enum, mask, date (unix seconds), interval (seconds)
  | bool (b : Bool)
  | text (s : Bytes)
  | bytes (b : Option Bytes)           -- `none` = nil slice
  | big (v : Int)
  | struct (fs : List Val)             -- exported, non-skipped fields in declaration order
  | ptr (v : Option Val)
  | list (xs : List Val)               -- nil ≡ empty
  | iface (v : Option (Nat × Val))     -- dynamic type id (index into `Schema.dyns`) and value
  | any (it : Option Item)             -- ttlv.Value (`none` = zero Value)
  | anyStruct (its : List Item)        -- ttlv.Struct
  deriving Repr, Inhabited

def zeroTimeSecs : Int := -62135596800     -- time.Time{}.Unix()

/-- pack a byte string as one natural number (base 256, big endian, with a leading 1 to keep zeros). -/
def packName (s : Bytes) : Nat := s.foldl (fun acc b => acc * 256 + b.toNat) 1

def Schema.structDef (S : Schema) (id : Nat) : StructDef := S.structs.getD id { fields := [] }
def Schema.dyn (S : Schema) (id : Nat) : Dyn := S.dyns.getD id { defTag := 0, kind := .unsupported }

def lookupNat (l : List (Nat × Nat)) (k : Nat) : Option Nat :=
  match l.find? (fun p => p.1 == k) with
  | some p => some p.2
  | none => none

/-- `newRequestPayload(op)` / `newResponsePayload(op)`: registered type or UnknownPayload. -/
def Schema.payloadDyn (S : Schema) (op : Nat) (response : Bool) : Nat :=
  match S.ops.find? (fun p => p.1 == op) with
  | some (_, rq, rs) => if response then rs else rq
  | none => S.unknownPayloadDyn

/-- `newAttribute(name)`: custom (`x-`/`y-`) and unknown names decode as ttlv.Value. -/
def Schema.attrDyn (S : Schema) (name : Bytes) : Nat :=
  let custom := name.take 2 == [0x78, 0x2D] || name.take 2 == [0x79, 0x2D]
  if custom then S.valueDyn
  else match lookupNat S.attrs (packName name) with
    | some d => d
    | none => S.valueDyn

/-! ### Zero values and `reflect.Value.IsZero` -/

mutual
  def Val.isZero : Val → Bool
    | .int v => v == 0
    | .bool b => !b
    | .text s => s.isEmpty
    | .bytes b => b.isNone
    | .big v => v == 0
    | .struct fs => Val.allZero fs
    | .ptr v => v.isNone
    | .list xs => xs.isEmpty
    | .iface v => v.isNone
    | .any it => it.isNone
    | .anyStruct its => its.isEmpty
  def Val.allZero : List Val → Bool
    | [] => true
    | v :: vs => v.isZero && Val.allZero vs
end

mutual
  /-- zero value of a kind (what `SetZero`/a fresh `new(T)` holds). -/
  def zeroOf (S : Schema) : Nat → Kind → Val
    | 0, _ => .int 0
    | fuel + 1, k =>
      match k with
      | .i8 | .i16 | .i32 | .u8 | .u16 | .u32 | .u64 | .i64 | .enum _ | .mask _ | .interval => .int 0
      | .bool => .bool false
      | .text => .text []
      | .bytes => .bytes none
      | .date => .int zeroTimeSecs
      | .big => .big 0
      | .struct id => .struct (zeroFields S fuel (S.structDef id).fields)
      | .ptr _ => .ptr none
      | .slice _ => .list []
      | .iface => .iface none
      | .any => .any none
      | .anyStruct => .anyStruct []
      | .unsupported => .int 0
  def zeroFields (S : Schema) : Nat → List Field → List Val
    | _, [] => []
    | fuel, f :: fs => zeroOf S fuel f.kind :: zeroFields S fuel fs
end

/-! ### Encoding -/

/-- `v.TagEncodeTTLV(e, tag)` for ttlv.Value: the passed tag replaces the value's own. -/
def Item.withTag (tag : Nat) : Item → Item
  | .struct _ cs => .struct tag cs
  | .int _ v => .int tag v
  | .long _ v => .long tag v
  | .big _ v => .big tag v
  | .enum _ v => .enum tag v
  | .bool _ v => .bool tag v
  | .text _ v => .text tag v
  | .bytes _ v => .bytes tag v
  | .date _ v => .date tag v
  | .interval _ v => .interval tag v

/-- the i-th field of a struct value. -/
def Val.field (v : Val) (i : Nat) : Val :=
  match v with
  | .struct fs => fs.getD i (.int 0)
  | _ => .int 0

def Val.asInt : Val → Int
  | .int v => v
  | _ => 0

/-- the protocol version carried by a `ProtocolVersion` struct value (major, minor). -/
def Val.asVer (v : Val) : Ver := ((v.field 0).asInt.toNat, (v.field 1).asInt.toNat)

abbrev EncSt := List Item × Option Ver

/-- struct id of MessageExtension: the struct whose default tag is `T.messageExtension`. -/
def msgExtId (S : Schema) : Nat :=
  (S.structs.findIdx? (fun d => d.defTag == T.messageExtension)).getD 0
/-- field kinds of the union-like structs, read from the schema by codec code. -/
def customFieldKinds (S : Schema) (code : Nat) : List Kind :=
  match S.structs.find? (fun d => d.custom == code) with
  | some d => d.fields.map (·.kind)
  | none => []


mutual
  /-- `encodeFunc(ty)(e, tag, v)`: items appended to the current structure and the new version cell. -/
  def encK (S : Schema) : Nat → Kind → Nat → Val → Option Ver → Res EncSt
    | 0, _, _, _, _ => .err .other
    | fuel + 1, k, tag, v, ver =>
      match k, v with
      | .i8, .int x | .i16, .int x | .i32, .int x | .u8, .int x | .u16, .int x => .ok ([.int tag x], ver)
      | .u32, .int x | .i64, .int x => .ok ([.long tag x], ver)
      | .bool, .bool b => .ok ([.bool tag b], ver)
      | .text, .text s => .ok ([.text tag s], ver)
      | .bytes, .bytes b => .ok ([.bytes tag (b.getD [])], ver)
      | .date, .int x => .ok ([.date tag x], ver)
      | .interval, .int x =>
        if x < 0 then .panic "interval cannot be negative" else .ok ([.interval tag x.toNat], ver)
      | .big, .big x => .ok ([.big tag x], ver)
      | .enum _, .int x => .ok ([.enum tag x.toNat], ver)
      | .mask _, .int x => .ok ([.int tag x], ver)
      | .ptr _, .ptr none => .ok ([], ver)
      | .ptr k', .ptr (some x) => encK S fuel k' tag x ver
      | .slice k', .list xs => encSlice S fuel k' tag xs ver
      | .iface, .iface none => .ok ([], ver)
      | .iface, .iface (some (d, x)) => encK S fuel (S.dyn d).kind tag x ver
      | .any, .any none => .panic "Unsupported type <nil>"
      | .any, .any (some it) => .ok ([it.withTag tag], ver)
      | .anyStruct, .anyStruct its => .ok ([.struct tag its], ver)
      | .struct id, .struct fs =>
        let d := S.structDef id
        if d.encCustom then encCustom S fuel d.custom tag (.struct fs) ver
        else do
          let (items, ver') ← encFields S fuel d.fields fs ver
          pure ([.struct tag items], ver')
      | _, _ => .err .other        -- value does not inhabit the kind (harness error)
  /-- slices: every element with the same tag. -/
  def encSlice (S : Schema) : Nat → Kind → Nat → List Val → Option Ver → Res EncSt
    | 0, _, _, _, _ => .err .other
    | _, _, _, [], ver => .ok ([], ver)
    | fuel + 1, k, tag, x :: xs, ver => do
      let (a, ver1) ← encK S fuel k tag x ver
      let (b, ver2) ← encSlice S fuel k tag xs ver1
      pure (a ++ b, ver2)
  /-- the field loop of `buildStructEncodeFunc` with the wrappers in their application order:
      set-version (outermost) → version range → omitempty → the kind's encoder. -/
  def encFields (S : Schema) : Nat → List Field → List Val → Option Ver → Res EncSt
    | 0, _, _, _ => .err .other
    | _, [], _, ver => .ok ([], ver)
    | _, _ :: _, [], _ => .err .other
    | fuel + 1, f :: fs, v :: vs, ver => do
      let ver1 := if f.setVersion then some v.asVer else ver
      let skipRange := match f.vrange with
        | some r => !(versionIn ver1 r)
        | none => false
      let skipEmpty := f.omitempty && v.isZero
      let (a, ver2) ←
        if skipRange || skipEmpty then (.ok ([], ver1) : Res EncSt)
        else
          let tag := if f.dynTag then
              (match v with | .iface (some (d, _)) => (S.dyn d).defTag | _ => 0)
            else f.tag
          encK S fuel f.kind tag v ver1
      let (b, ver3) ← encFields S fuel fs vs ver2
      pure (a ++ b, ver3)
  /-- hand-written `TagEncodeTTLV` methods. -/
  def encCustom (S : Schema) : Nat → Nat → Nat → Val → Option Ver → Res EncSt
    | 0, _, _, _, _ => .err .other
    | fuel + 1, code, tag, v, ver =>
      if code = Cust.requestBatchItem then do
        -- fields: 0 Operation, 1 UniqueBatchItemID, 2 RequestPayload, 3 MessageExtension
        let op := (v.field 0).asInt.toNat
        let idItems : List Item := match v.field 1 with
          | .bytes (some b) => if b.isEmpty then [] else [.bytes T.uniqueBatchItemID b]
          | _ => []
        let (pl, ver1) ← encK S fuel .iface T.requestPayload (v.field 2) ver
        let (me, ver2) ← encK S fuel (.ptr (.struct (msgExtId S))) T.messageExtension (v.field 3) ver1
        pure ([.struct tag ([.enum T.operation op] ++ idItems ++ pl ++ me)], ver2)
      else if code = Cust.responseBatchItem then do
        -- fields: 0 Operation, 1 UniqueBatchItemID, 2 ResultStatus, 3 ResultReason, 4 ResultMessage,
        --         5 AsynchronousCorrelationValue, 6 ResponsePayload, 7 MessageExtension
        let op := (v.field 0).asInt.toNat
        let opItems : List Item := if op ≠ 0 then [.enum T.operation op] else []
        let idItems : List Item := match v.field 1 with
          | .bytes (some b) => if b.isEmpty then [] else [.bytes T.uniqueBatchItemID b]
          | _ => []
        let status := (v.field 2).asInt.toNat
        let reason := (v.field 3).asInt.toNat
        let reasonItems : List Item := if status = 1 ∨ reason ≠ 0 then [.enum T.resultReason reason] else []
        let msgItems : List Item := match v.field 4 with
          | .text s => if s.isEmpty then [] else [.text T.resultMessage s]
          | _ => []
        let acvItems : List Item := match v.field 5 with
          | .bytes (some b) => if b.isEmpty then [] else [.bytes T.asyncCorrelationValue b]
          | _ => []
        let (pl, ver1) ← encK S fuel .iface T.responsePayload (v.field 6) ver
        let (me, ver2) ← encK S fuel (.ptr (.struct (msgExtId S))) T.messageExtension (v.field 7) ver1
        -- NB: the Go method writes TagBatchItem whatever tag it is given
        pure ([.struct T.batchItem (opItems ++ idItems ++ [.enum T.resultStatus status] ++ reasonItems
                ++ msgItems ++ acvItems ++ pl ++ me)], ver2)
      else if code = Cust.unknownPayload then
        match v.field 0 with
        | .anyStruct its => .ok ([.struct tag its], ver)
        | _ => .err .other
      else if code = Cust.credentialValue ∨ code = Cust.keyValue ∨ code = Cust.keyMaterial then
        -- `e.TagAny(tag, field)` for every (pointer) field in turn, all with the same tag
        match v with
        | .struct fs => encSameTag S fuel (customFieldKinds S code) tag fs ver
        | _ => .err .other
      else .err .other
  /-- `e.TagAny(tag, f)` for each pointer field of a union-like struct. -/
  def encSameTag (S : Schema) : Nat → List Kind → Nat → List Val → Option Ver → Res EncSt
    | 0, _, _, _, _ => .err .other
    | _, [], _, _, ver => .ok ([], ver)
    | _, _ :: _, _, [], ver => .ok ([], ver)
    | fuel + 1, k :: ks, tag, x :: xs, ver => do
      let (a, ver1) ← encK S fuel k tag x ver
      let (b, ver2) ← encSameTag S fuel ks tag xs ver1
      pure (a ++ b, ver2)
end

/-! ### Decoding -/

abbrev DecSt := Cur × Option Ver

/-- `newObjectForType`: the dyn id registered for an object type. -/
def Schema.objectDyn (S : Schema) (ot : Nat) : Option Nat := lookupNat S.objects ot

mutual
  /-- `decodeFunc(ty)(d, tag, value)`. -/
  def decK (S : Schema) : Nat → Kind → Nat → Cur → Option Ver → Res (Val × DecSt)
    | 0, _, _, _, _ => .err .other
    | fuel + 1, k, tag, c, ver =>
      match k with
      | .i32 => do let (x, c') ← c.integer tag; pure (.int x, c', ver)
      | .i64 => do let (x, c') ← c.longInteger tag; pure (.int x, c', ver)
      | .u32 | .u64 => do
        let (x, c') ← c.longInteger tag
        if x < 0 then .err .range else pure (.int x, c', ver)
      | .u8 | .u16 => do
        let (x, c') ← c.integer tag
        if x < 0 then .err .range else pure (.int x, c', ver)
      | .bool => do let (x, c') ← c.bool tag; pure (.bool x, c', ver)
      | .text => do let (x, c') ← c.textString tag; pure (.text x, c', ver)
      | .bytes => do let (x, c') ← c.byteString tag; pure (.bytes (some x), c', ver)
      | .date => do let (x, c') ← c.dateTime tag; pure (.int x, c', ver)
      | .interval => do let (x, c') ← c.interval tag; pure (.int x, c', ver)
      | .big => do let (x, c') ← c.bigInteger tag; pure (.big x, c', ver)
      | .enum _ => do let (x, c') ← c.enum tag; pure (.int x, c', ver)
      | .mask _ => do let (x, c') ← c.integer tag; pure (.int x, c', ver)
      | .ptr k' =>
        if c.tag ≠ tag then .ok (.ptr none, c, ver)
        else do
          let (x, st) ← decK S fuel k' tag c ver
          pure (.ptr (some x), st)
      | .slice k' => do
        let (xs, st) ← decList S fuel k' tag c ver
        pure (.list xs, st)
      | .any => do
        let (it, c') ← decodeValue fuel c tag
        pure (.any (some it), c', ver)
      | .anyStruct => do
        let (its, c') ← c.struct tag (fun inner => decodeFields fuel inner)
        pure (.anyStruct its, c', ver)
      | .struct id =>
        let d := S.structDef id
        if d.decCustom then decCustom S fuel d.custom id tag c ver
        else decStruct S fuel d.fields tag c ver
      | .iface => .panic "value must be a pointer"       -- reflective decode of a nil interface
      | .i8 | .i16 | .unsupported => .panic "unsupported kind"
  /-- `d.Struct(tag, fields…)` for a reflectively decoded struct; the version cell is shared with the
      nested decoder, whatever the nested decoder leaves unread is dropped. -/
  def decStruct (S : Schema) : Nat → List Field → Nat → Cur → Option Ver → Res (Val × DecSt)
    | 0, _, _, _, _ => .err .other
    | fuel + 1, fields, tag, c, ver => do
      let it ← c.expect 1 tag
      let inner ← Cur.start it.val
      let (vs, _, ver') ← decFields S fuel fields inner ver
      let c' ← c.next
      pure (.struct vs, c', ver')
  /-- slices: `for d.Tag() == tag { decode one element }`. -/
  def decList (S : Schema) : Nat → Kind → Nat → Cur → Option Ver → Res (List Val × DecSt)
    | 0, _, _, _, _ => .err .other
    | fuel + 1, k, tag, c, ver =>
      if c.tag ≠ tag then .ok ([], c, ver)
      else do
        let (x, c1, ver1) ← decK S fuel k tag c ver
        let (xs, st) ← decList S fuel k tag c1 ver1
        pure (x :: xs, st)
  /-- the field loop of `buidStructDecodeFunc`, wrappers in application order:
      set-version (outermost; applied AFTER the field is decoded) → version range → omitempty → kind. -/
  def decFields (S : Schema) : Nat → List Field → Cur → Option Ver → Res (List Val × DecSt)
    | 0, _, _, _ => .err .other
    | _, [], c, ver => .ok ([], c, ver)
    | fuel + 1, f :: fs, c, ver => do
      let absent := c.tag ≠ f.tag
      let skipRange := match f.vrange with
        | some r => !(versionIn ver r) && absent
        | none => false
      let skipEmpty := f.omitempty && absent
      let (v, c1, ver1) ←
        if f.dynTag then (.panic "value must be a pointer" : Res (Val × DecSt))
        else if skipRange || skipEmpty then .ok (zeroOf S fuel f.kind, c, ver)
        else decK S fuel f.kind f.tag c ver
      let ver2 := if f.setVersion then some v.asVer else ver1
      let (vs, st) ← decFields S fuel fs c1 ver2
      pure (v :: vs, st)
  /-- `d.Opt(tag, &x)`: decode only when the current tag matches, else keep the zero value. -/
  def decOpt (S : Schema) : Nat → Kind → Nat → Cur → Option Ver → Res (Val × DecSt)
    | 0, _, _, _, _ => .err .other
    | fuel + 1, k, tag, c, ver =>
      if c.tag = tag then decK S fuel k tag c ver else .ok (zeroOf S fuel k, c, ver)
  /-- decode the value behind an interface that the caller has pre-set to a fresh `*T` (dyn id `d`),
      under `tag` (0 = the dynamic type's default tag, as `d.Any(&iface)` resolves it). -/
  def decDyn (S : Schema) : Nat → Nat → Nat → Cur → Option Ver → Res (Val × DecSt)
    | 0, _, _, _, _ => .err .other
    | fuel + 1, d, tag, c, ver => do
      let dy := S.dyn d
      let tag := if tag = 0 then dy.defTag else tag
      -- the interface holds a non-nil pointer: decode the pointee in place (no optionality)
      let k := match dy.kind with | .ptr k' => k' | k' => k'
      let (x, st) ← decK S fuel k tag c ver
      let x := match dy.kind with | .ptr _ => Val.ptr (some x) | _ => x
      pure (.iface (some (d, x)), st)
  /-- hand-written `TagDecodeTTLV` methods; `id` is the struct's id (for field kinds). -/
  def decCustom (S : Schema) : Nat → Nat → Nat → Nat → Cur → Option Ver → Res (Val × DecSt)
    | 0, _, _, _, _, _ => .err .other
    | fuel + 1, code, id, tag, c, ver => do
      let fields := (S.structDef id).fields
      let fk (i : Nat) : Kind := (fields.getD i { tag := 0, kind := .unsupported }).kind
      if code = Cust.unknownPayload then
        let (its, c') ← c.struct tag (fun inner => decodeFields fuel inner)
        pure (.struct [.anyStruct its], c', ver)
      else
      let it ← c.expect 1 tag
      let c0 ← Cur.start it.val
      let (v, ver') ← (
        if code = Cust.requestBatchItem then do
          let (op, c1, v1) ← decK S fuel (fk 0) T.operation c0 ver
          let (bid, c2, v2) ← decOpt S fuel .bytes T.uniqueBatchItemID c1 v1
          let d := S.payloadDyn op.asInt.toNat false
          let (pl, c3, v3) ← decDyn S fuel d T.requestPayload c2 v2
          let (me, _, v4) ← decOpt S fuel (fk 3) T.messageExtension c3 v3
          pure (Val.struct [op, bid, pl, me], v4)
        else if code = Cust.responseBatchItem then do
          let (op, c1, v1) ← decOpt S fuel (fk 0) T.operation c0 ver
          let (bid, c2, v2) ← decOpt S fuel .bytes T.uniqueBatchItemID c1 v1
          let (st, c3, v3) ← decK S fuel (fk 2) T.resultStatus c2 v2
          let (rs, c4, v4) ← decOpt S fuel (fk 3) T.resultReason c3 v3
          let (msg, c5, v5) ← decOpt S fuel .text T.resultMessage c4 v4
          let (acv, c6, v6) ← decOpt S fuel .bytes T.asyncCorrelationValue c5 v5
          let (pl, c7, v7) ←
            if op.asInt > 0 ∧ c6.tag = T.responsePayload then
              decDyn S fuel (S.payloadDyn op.asInt.toNat true) T.responsePayload c6 v6
            else (.ok (.iface none, c6, v6) : Res (Val × DecSt))
          let (me, _, v8) ← decOpt S fuel (fk 7) T.messageExtension c7 v7
          pure (Val.struct [op, bid, st, rs, msg, acv, pl, me], v8)
        else if code = Cust.attr then do
          let (name, c1) ← c0.textString T.attributeName
          let (idx, c2, v2) ←
            if c1.tag = T.attributeIndex then do
              let (i, c2) ← c1.integer T.attributeIndex
              (pure (Val.ptr (some (.int i)), c2, ver) : Res (Val × DecSt))
            else .ok (.ptr none, c1, ver)
          let d := S.attrDyn name
          let (x, _, v3) ← decDyn S fuel d T.attributeValue c2 v2
          pure (Val.struct [.text name, idx, x], v3)
        else if code = Cust.credential then do
          let (ct, c1, v1) ← decK S fuel (fk 0) T.credentialType c0 ver
          -- CredentialValue.decode: one `**T` by credential type (optional: nil when the tag differs)
          let cvKinds := customFieldKinds S Cust.credentialValue
          let t := ct.asInt
          if t = 1 ∨ t = 2 ∨ t = 3 then do
            let i := t.toNat - 1
            let (x, _, v2) ← decK S fuel (cvKinds.getD i .unsupported) T.credentialValue c1 v1
            let cv := (List.range cvKinds.length).map fun j => if j = i then x else Val.ptr none
            pure (Val.struct [ct, .struct cv], v2)
          else .err .other
        else if code = Cust.keyBlock then do
          let (fmt, c1, v1) ← decK S fuel (fk 0) T.keyFormatType c0 ver
          let (comp, c2, v2) ← decOpt S fuel (fk 1) T.keyCompressionType c1 v1
          let (kv, c3, v3) ←
            if c2.tag = T.keyValue then do
              let (x, st) ← decKeyValue S fuel fmt.asInt.toNat c2 v2
              (pure (Val.ptr (some x), st) : Res (Val × DecSt))
            else .ok (.ptr none, c2, v2)
          let (alg, c4, v4) ← decOpt S fuel (fk 3) T.cryptographicAlgorithm c3 v3
          let (len, c5, v5) ← decOpt S fuel (fk 4) T.cryptographicLength c4 v4
          let (kwd, _, v6) ← decK S fuel (fk 5) T.keyWrappingData c5 v5
          pure (Val.struct [fmt, comp, kv, alg, len, kwd], v6)
        else if code = Cust.getResponse then do
          let (ot, c1, v1) ← decK S fuel (fk 0) T.objectType c0 ver
          let (uid, c2, v2) ← decK S fuel .text T.uniqueIdentifier c1 v1
          match S.objectDyn ot.asInt.toNat with
          | none => .err .other
          | some d => do
            let (obj, _, v3) ← decDyn S fuel d 0 c2 v2
            pure (Val.struct [ot, uid, obj], v3)
        else if code = Cust.registerRequest then do
          let (ot, c1, v1) ← decK S fuel (fk 0) T.objectType c0 ver
          let (ta, c2, v2) ← decK S fuel (fk 1) T.templateAttribute c1 v1
          match S.objectDyn ot.asInt.toNat with
          | none => .err .other
          | some d => do
            let (obj, _, v3) ← decDyn S fuel d 0 c2 v2
            pure (Val.struct [ot, ta, obj], v3)
        else if code = Cust.exportResponse then do
          let (ot, c1, v1) ← decK S fuel (fk 0) T.objectType c0 ver
          let (uid, c2, v2) ← decK S fuel .text T.uniqueIdentifier c1 v1
          let (attrs, c3, v3) ← decK S fuel (fk 2) T.attr c2 v2
          match S.objectDyn ot.asInt.toNat with
          | none => .err .other
          | some d => do
            let (obj, _, v4) ← decDyn S fuel d 0 c3 v3
            pure (Val.struct [ot, uid, attrs, obj], v4)
        else if code = Cust.importRequest then do
          let (uid, c1, v1) ← decK S fuel .text T.uniqueIdentifier c0 ver
          let (rep, c2, v2) ← decOpt S fuel .bool T.replaceExisting c1 v1
          let (kwt, c3, v3) ← decOpt S fuel (fk 2) T.keyWrapType c2 v2
          let (attrs, c4, v4) ← decK S fuel (fk 3) T.attr c3 v3
          -- the first "Object Type" attribute whose value is an ObjectType decides the object's type
          match importObjectType S attrs with
          | none => .err .other
          | some ot =>
            match S.objectDyn ot with
            | none => .err .other
            | some d => do
              let (obj, _, v5) ← decDyn S fuel d 0 c4 v4
              pure (Val.struct [uid, rep, kwt, attrs, obj], v5)
        else (.panic "unknown custom codec" : Res (Val × Option Ver)))
      let c' ← c.next
      pure (v, c', ver')
  /-- `KeyValue.decode(d, TagKeyValue, format)`: wrapped (byte string) or plain (structure). -/
  def decKeyValue (S : Schema) : Nat → Nat → Cur → Option Ver → Res (Val × DecSt)
    | 0, _, _, _ => .err .other
    | fuel + 1, fmt, c, ver =>
      if c.ty = 8 then do
        let (b, c') ← c.byteString T.keyValue
        pure (.struct [.ptr (some (.bytes (some b))), .ptr none], c', ver)
      else if c.ty = 1 then do
        let it ← c.expect 1 T.keyValue
        let c0 ← Cur.start it.val
        -- KeyMaterial.decode(d, TagKeyMaterial, format): one `**T` chosen by the key format
        let kmKinds := customFieldKinds S Cust.keyMaterial
        let idx : Option Nat :=
          if fmt = 1 ∨ fmt = 6 ∨ fmt = 3 ∨ fmt = 4 ∨ fmt = 5 ∨ fmt = 2 then some 0
          else if fmt = 7 then some 1
          else if fmt = 0xA then some 2
          else if fmt = 0xB then some 3
          else if fmt = 0xE then some 4
          else if fmt = 0xF then some 5
          else if fmt = 0x14 then some 6
          else if fmt = 0x15 then some 7
          else none
        match idx with
        | none => .err .other
        | some i => do
          let (x, c1, v1) ← decK S fuel (kmKinds.getD i .unsupported) T.keyMaterial c0 ver
          let km := (List.range kmKinds.length).map fun j => if j = i then x else Val.ptr none
          let (attrs, _, v2) ← decK S fuel (.slice (.struct (attributeId S))) T.attr c1 v1
          let c' ← c.next
          pure (.struct [.ptr none, .ptr (some (.struct [.struct km, attrs]))], c', v2)
      else .err .other
  /-- struct id of `Attribute`. -/
  def attributeId (S : Schema) : Nat :=
    (S.structs.findIdx? (fun d => d.custom == Cust.attr)).getD 0
  /-- scan decoded attributes for `Object Type` carrying an ObjectType value (ImportRequestPayload). -/
  def importObjectType (S : Schema) (attrs : Val) : Option Nat :=
    let objectTypeName : Bytes := [0x4F, 0x62, 0x6A, 0x65, 0x63, 0x74, 0x20, 0x54, 0x79, 0x70, 0x65]
    let otDyn := S.attrDyn objectTypeName
    match attrs with
    | .list xs =>
      xs.findSome? fun a =>
        match a.field 0, a.field 2 with
        | .text n, .iface (some (d, .int v)) =>
          if n == objectTypeName && d == otDyn then some v.toNat else none
        | _, _ => none
    | _ => none
end

/-! ### Entry points -/

/-- `ttlv.MarshalTTLV(x)` (tag = 0: the type's default tag, `enc.Any`) or `enc.TagAny(tag, x)` for a value
    of dynamic type `d`. -/
def marshal (S : Schema) (d : Nat) (tag : Nat) (v : Val) : Res Bytes := do
  let dy := S.dyn d
  let tag := if tag = 0 then dy.defTag else tag
  let (items, _) ← encK S 100000 dy.kind tag v none
  pure (encList items)

/-- fuel of the typed decoder on an input of `n` bytes. The Go decoder has no such bound; the constant
    covers every value the encoder (fuel 100000) can produce (`depth_bound` in Lemmas/PlanRoundtrip18). -/
def decFuel (n : Nat) : Nat := n + 3000000

/-- the typed decoder on `bs` into a fresh value of dyn type `d`, with an explicit fuel. -/
def unmarshalWith (S : Schema) (fuel : Nat) (d : Nat) (tag : Nat) (bs : Bytes) : Res Val := do
  let c ← Cur.start bs
  let dy := S.dyn d
  let tag := if tag = 0 then dy.defTag else tag
  let k := match dy.kind with | .ptr k' => k' | k' => k'
  let (x, _, _) ← decK S fuel k tag c none
  pure (match dy.kind with | .ptr _ => Val.ptr (some x) | _ => x)

/-- `ttlv.UnmarshalTTLV(bs, ptr)` / `dec.TagAny(tag, ptr)` with `ptr` a fresh pointer to the dyn type `d`.
    A type id that denotes no type of the schema is an error (there is no such call in Go). -/
def unmarshal (S : Schema) (d : Nat) (tag : Nat) (bs : Bytes) : Res Val :=
  if S.dyns.length ≤ d then .err .other else unmarshalWith S (decFuel bs.length) d tag bs

end Kmip
