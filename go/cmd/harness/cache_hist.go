package main

// Engine `cache`, part 2 — histories on ONE reused encoder at the level of the writer API (property C20).
//
// A history is a sequence of operations on one ttlv.Encoder of one back end (binary, XML, JSON, text):
//   W  direct writer calls  enc.Integer / … / enc.Struct(tag, f)  — optionally ending in a panic raised at any
//      point (inside any number of open structures, before any output, after a complete item), recovered by
//      the caller;
//   E  a typed message (binary back end), B  Bytes(), C  Clear().
//
//  (a) correspondence: line `enc.hist <be> …` — the Lean model (buffer with stale capacity, xml.Encoder state,
//      frames; Model/Cache.lean) must predict, byte for byte, what every Bytes() returned (including the partial
//      output of calls that panicked) and which calls returned normally;
//  (b) impl-side oracle `hist-reuse` = the property itself on the real code: the operations after a Clear are
//      observed exactly as on a NEW encoder of that back end (flags and every Bytes()), whatever came before;
//  (c) `Bytes()` aliasing: a slice returned earlier must keep its content until the next Clear (oracle
//      `bytes-changed-before-clear`, binary back end: C20.bytes_stable_until_clear); that it IS overwritten by
//      Clear + encode is documented behaviour ("returns the internal byte array") and only counted
//      (`cache.alias.overwritten-after-clear.*`); the results of Marshal* (new encoder per call) must never be
//      overwritten by later calls (oracle `marshal-result-aliased`).

import (
	"bytes"
	"encoding/hex"
	"fmt"
	"reflect"
	"strconv"
	"strings"
	"time"

	kmip "github.com/ovh/kmip-go"
	"github.com/ovh/kmip-go/ttlv"

	"verifharness/internal/report"
	"verifharness/internal/rng"
	"verifharness/internal/tree"
)

type histCall struct {
	kind byte // '{' '}' 'L'
	tag  int
	it   *tree.Item
}

type histOp struct {
	kind      string // C B W E
	calls     []histCall
	abort     bool
	msg       int    // E
	junkCell  string // E that panics: keep | none | M.m
	junkCalls []histCall
}

type histAbort struct{}

// The text back end has a second configuration, NewTextEncoder(true): the content of registered "hidden" tags is
// replaced by a mask. The flag is state of the writer that Clear() must keep: a cleared hiding encoder must hide
// like a new one. The library registers no hidden tag itself; the harness registers three tags of its private
// extension range at init time (registration is an init-time act, see the assumptions of C20). Histories on this
// configuration are impl-only (`# enc.hist text-hide …`): the Lean writer model has no hide flag.
const histHideBackend = "text-hide"

var histHiddenTags = []int{0x540002, 0x540003, 0x540010}

func init() {
	for _, t := range histHiddenTags {
		ttlv.RegisterHideTag(t)
	}
}

func histNewEncoder(be string) ttlv.Encoder {
	if be == histHideBackend {
		return ttlv.NewTextEncoder(true)
	}
	return newCacheEncoder(be)
}

func renderCalls(cs []histCall) string {
	var parts []string
	for _, c := range cs {
		switch c.kind {
		case '{':
			parts = append(parts, "{"+strconv.Itoa(c.tag))
		case '}':
			parts = append(parts, "}")
		default:
			parts = append(parts, c.it.Render())
		}
	}
	return strings.Join(parts, " ")
}

func (e *cacheEngine) renderHist(be string, h []histOp) string {
	var parts []string
	for _, op := range h {
		switch op.kind {
		case "W":
			s := "W " + renderCalls(op.calls)
			if op.abort {
				s += " !"
			}
			parts = append(parts, strings.TrimSpace(strings.ReplaceAll(s, "  ", " ")))
		case "E":
			m := e.msgs[op.msg]
			s := fmt.Sprintf("E %d %d %s", m.tg.dyn, m.tg.tag, e.vals[op.msg])
			if op.junkCell != "" {
				s += " ! " + op.junkCell
				if len(op.junkCalls) > 0 {
					s += " " + renderCalls(op.junkCalls)
				}
			}
			parts = append(parts, s)
		default:
			parts = append(parts, op.kind)
		}
	}
	return "enc.hist " + be + " " + strings.Join(parts, " ; ")
}

func histWriteLeaf(enc *ttlv.Encoder, it *tree.Item) {
	switch it.Kind {
	case tree.KInt:
		enc.Integer(it.Tag, int32(it.Int))
	case tree.KLong:
		enc.LongInteger(it.Tag, it.Int)
	case tree.KBig:
		enc.BigInteger(it.Tag, it.Big)
	case tree.KEnum:
		enc.Enum(0, it.Tag, uint32(it.Int))
	case tree.KBool:
		enc.Bool(it.Tag, it.Bool)
	case tree.KText:
		enc.TextString(it.Tag, string(it.Data))
	case tree.KBytes:
		enc.ByteString(it.Tag, it.Data)
	case tree.KDate:
		enc.DateTime(it.Tag, time.Unix(it.Int, 0))
	case tree.KInterval:
		enc.Interval(it.Tag, time.Duration(it.Int)*time.Second)
	}
}

// histRunCalls performs the writer calls on the real encoder; a `{` runs the calls up to its `}` inside the
// callback of enc.Struct. When the calls are exhausted and abort is set, it panics where it stands.
func histRunCalls(enc *ttlv.Encoder, calls []histCall, pos *int, abort bool) {
	for *pos < len(calls) {
		c := calls[*pos]
		*pos++
		switch c.kind {
		case '{':
			enc.Struct(c.tag, func(e *ttlv.Encoder) { histRunCalls(e, calls, pos, abort) })
		case '}':
			return
		default:
			histWriteLeaf(enc, c.it)
		}
	}
	if abort {
		panic(histAbort{})
	}
}

type histView struct {
	slice   []byte
	copy    []byte
	cleared bool
	done    bool
}

type histResult struct {
	flags string
	outs  []string
}

func (r histResult) String() string {
	o := "_"
	if len(r.outs) > 0 {
		o = strings.Join(r.outs, ",")
	}
	return "ok " + r.flags + " " + o
}

// histImpl runs a history on one real encoder. Returns what the caller observed; reports aliasing effects.
func (e *cacheEngine) histRun(be string, h []histOp, line string, watchAlias bool) histResult {
	enc := histNewEncoder(be)
	var res histResult
	var views []*histView
	for _, op := range h {
		ok := true
		switch op.kind {
		case "C":
			_, p := guard("clear", func() int { enc.Clear(); return 0 })
			ok = p == ""
			for _, v := range views {
				v.cleared = true
			}
		case "B":
			b, p := guard("bytes", func() []byte { return enc.Bytes() })
			ok = p == ""
			if ok {
				res.outs = append(res.outs, hexOrDash(b))
				views = append(views, &histView{slice: b, copy: append([]byte{}, b...)})
			} else {
				res.outs = append(res.outs, "panic")
			}
		case "W":
			pos := 0
			_, p := guard("writer-calls", func() int { histRunCalls(&enc, op.calls, &pos, op.abort); return 0 })
			ok = p == ""
		case "E":
			m := e.msgs[op.msg]
			_, p := guard("encode", func() int {
				if m.tg.tag == 0 {
					enc.Any(m.x.Interface())
				} else {
					enc.TagAny(m.tg.tag, m.x.Interface())
				}
				return 0
			})
			ok = p == ""
		}
		if ok {
			res.flags += "1"
		} else {
			res.flags += "0"
		}
		if !watchAlias {
			continue
		}
		for _, v := range views {
			if v.done || bytes.Equal(v.slice, v.copy) {
				continue
			}
			v.done = true
			if v.cleared {
				// documented: Bytes() is the internal array, Clear() keeps it
				e.ctx.Res.Count("cache.alias.overwritten-after-clear." + be)
			} else if be == "ttlv" {
				e.violate("bytes-alias", "cache:bytes-changed-before-clear:"+be,
					"a slice returned by Bytes() changed although Clear() was not called since: "+firstDiff(hexOrDash(v.copy), hexOrDash(v.slice)), line)
			} else {
				e.ctx.Res.Count("cache.alias.changed-before-clear." + be)
			}
		}
	}
	return res
}

// histSoak — LONG histories on one encoder per back end. The histories of histLines are short (a handful of
// operations); state that only ACCUMULATES across many aborted calls (a counter that an aborted call leaves
// incremented, a pool or a table that fills up) shows only after hundreds of them. One encoder per back end
// goes through thousands of writer histories that end in a panic raised 1..8 structures deep (recovered by
// the caller, followed by Clear); every 25 histories and at the end a fixed nested value is written through
// that encoder and must come out exactly as from a NEW encoder (the property itself: "after ANY sequence of
// other encode and decode calls, including on a reused, cleared encoder").
func (e *cacheEngine) histSoak() {
	ctx := e.ctx
	ref := func(enc *ttlv.Encoder) {
		var nest func(d int, x *ttlv.Encoder)
		nest = func(d int, x *ttlv.Encoder) {
			x.Integer(0x42000A, int32(d))
			if d < 6 {
				x.Struct(0x420008+d, func(y *ttlv.Encoder) { nest(d+1, y) })
			}
			x.TextString(0x420055, "soak")
		}
		enc.Struct(0x42000F, func(x *ttlv.Encoder) { nest(0, x) })
	}
	n := ctx.N(1500, 20000)
	for _, be := range cacheFormats {
		fresh := histNewEncoder(be)
		ref(&fresh)
		want := append([]byte{}, fresh.Bytes()...)
		enc := histNewEncoder(be)
		leaked := 0
		for k := 1; k <= n; k++ {
			d := 1 + (k*7+k/9)%8
			leaked += d
			line := fmt.Sprintf("# cache.soak %s [%d histories, each: open 1..8 nested structures and panic (recovered); Clear] then the reference value", be, k)
			ctx.current = line
			func() {
				defer func() { recover() }()
				var open func(left int, x *ttlv.Encoder)
				open = func(left int, x *ttlv.Encoder) {
					x.Integer(0x42000A, int32(left))
					if left == 0 {
						panic(histAbort{})
					}
					x.Struct(0x420008, func(y *ttlv.Encoder) { open(left-1, y) })
				}
				open(d, &enc)
			}()
			enc.Clear()
			if k%25 != 0 && k != n {
				continue
			}
			var got []byte
			_, p := guard("encode on the reused encoder", func() int {
				ref(&enc)
				got = append([]byte{}, enc.Bytes()...)
				return 0
			})
			enc.Clear()
			ctx.Res.Count("cache.soak.checkpoints." + be)
			if p != "" || !bytes.Equal(got, want) {
				what := "gives " + truncate(hexOrDash(got), 40)
				if p != "" {
					what = "panics: " + truncate(p, 80)
				}
				e.violate("hist-reuse", "cache:reuse-after-many-panics:"+be, fmt.Sprintf("after %d aborted (recovered) writer histories (structures left open: %d in all), each followed by Clear, the %s encoder %s where a new encoder gives %s", k, leaked, be, what, truncate(hexOrDash(want), 40)), line)
				break
			}
		}
	}
}

func hexOrDash(b []byte) string {
	if len(b) == 0 {
		return "-"
	}
	return hexUp(b)
}

// ---- generators -----------------------------------------------------------------------------------------

// tags without a registered name (extension range) and a few registered ones (the XML element is then named).
var histPlainTags = []int{0x540001, 0x540002, 0x540003, 0x54000A, 0x54FFFF}
var histNamedTags = []int{kmip.TagAttributeIndex, kmip.TagBatchCount, kmip.TagUniqueIdentifier, kmip.TagLeaseTime, kmip.TagCryptographicLength}
var histStructTags = []int{0x540000, 0x540010, 0x540011, kmip.TagAttribute, kmip.TagRequestPayload, kmip.TagTemplateAttribute}
var histEnumTags = []int{kmip.TagOperation, kmip.TagObjectType, kmip.TagState, 0x540020}

const histTextAlphabet = "abcdefghijklmnopqrstuvwxyzABCDEFGHIJKLMNOPQRSTUVWXYZ0123456789 _.-"

func histGenLeaf(r *rng.R) *tree.Item {
	tag := rng.Pick(r, histPlainTags)
	if r.Chance(1, 3) {
		tag = rng.Pick(r, histNamedTags)
	}
	switch r.Intn(8) {
	case 0:
		return &tree.Item{Kind: tree.KInt, Tag: tag, Int: int64(int32(r.U64()))}
	case 1:
		v := int64(r.U64())
		switch r.Intn(4) {
		case 0:
			v = int64(r.Intn(2000)) - 1000
		case 1:
			v = []int64{1 << 52, -(1 << 52), 1<<52 - 1, -(1 << 52) + 1, 1<<63 - 1, -1 << 63}[r.Intn(6)]
		}
		return &tree.Item{Kind: tree.KLong, Tag: tag, Int: v}
	case 2:
		et := rng.Pick(r, histEnumTags)
		v := int64(r.Intn(12))
		if r.Chance(1, 4) {
			v = int64(uint32(r.U64()))
		}
		return &tree.Item{Kind: tree.KEnum, Tag: et, Int: v}
	case 3:
		return &tree.Item{Kind: tree.KBool, Tag: tag, Bool: r.Bool()}
	case 4:
		n := r.Intn(20)
		if r.Chance(1, 8) {
			n = 100 + r.Intn(400)
		}
		b := make([]byte, n)
		for i := range b {
			b[i] = histTextAlphabet[r.Intn(len(histTextAlphabet))]
		}
		return &tree.Item{Kind: tree.KText, Tag: tag, Data: b}
	case 5:
		n := r.Intn(20)
		if r.Chance(1, 8) {
			n = 100 + r.Intn(5000)
		}
		return &tree.Item{Kind: tree.KBytes, Tag: tag, Data: r.Bytes(n)}
	case 6:
		return &tree.Item{Kind: tree.KInterval, Tag: tag, Int: int64([]int{0, 1, 59, 60, 3599, 3600, 86399, r.Intn(1 << 20), r.Intn(1 << 31)}[r.Intn(9)])}
	}
	return &tree.Item{Kind: tree.KInt, Tag: tag, Int: int64(r.Intn(100))}
}

// histGenBalanced: the calls of a few complete items.
func histGenBalanced(r *rng.R, depth int, out *[]histCall) {
	n := 1 + r.Intn(3)
	for i := 0; i < n; i++ {
		if depth < 4 && r.Chance(2, 5) {
			*out = append(*out, histCall{kind: '{', tag: rng.Pick(r, histStructTags)})
			if !r.Chance(1, 5) { // else: an empty structure
				histGenBalanced(r, depth+1, out)
			}
			*out = append(*out, histCall{kind: '}'})
		} else {
			*out = append(*out, histCall{kind: 'L', it: histGenLeaf(r)})
		}
	}
}

func histOpenDepth(cs []histCall) int {
	d := 0
	for _, c := range cs {
		switch c.kind {
		case '{':
			d++
		case '}':
			d--
		}
	}
	return d
}

func (e *cacheEngine) histGenOp(r *rng.R, be string, nTyped int) histOp {
	switch r.Intn(10) {
	case 0:
		return histOp{kind: "C"}
	case 1, 2:
		return histOp{kind: "B"}
	case 3:
		if be == "ttlv" && nTyped > 0 {
			// typed messages that encode (a typed message that panics half-way needs its junk spelled out: see `fixed`)
			if i := r.Intn(nTyped); strings.HasPrefix(e.ref[cacheRefKey{"enc", "ttlv", i, 0}], "ok ") {
				return histOp{kind: "E", msg: i}
			}
		}
	}
	var cs []histCall
	histGenBalanced(r, 0, &cs)
	op := histOp{kind: "W", calls: cs}
	if r.Chance(1, 3) {
		op.abort = true
		op.calls = cs[:r.Intn(len(cs)+1)]
	}
	return op
}

func (e *cacheEngine) histClassify(h []histOp) {
	c := e.ctx.Res
	prevAbort := false
	for i, op := range h {
		ab := op.kind == "W" && op.abort
		if ab {
			d := histOpenDepth(op.calls)
			if d > 3 {
				d = 3
			}
			c.Count(fmt.Sprintf("cache.hist.abort.open-structures=%d", d))
			if len(op.calls) == 0 {
				c.Count("cache.hist.abort.before-any-output")
			}
			if prevAbort {
				c.Count("cache.hist.abort.two-in-a-row")
			}
			if i+2 < len(h) && h[i+1].kind == "B" && h[i+2].kind == "C" {
				c.Count("cache.hist.abort.then-bytes-then-clear")
			}
			if i+1 < len(h) && h[i+1].kind != "C" && h[i+1].kind != "B" {
				c.Count("cache.hist.abort.then-write-without-clear")
			}
		}
		if op.kind != "B" {
			prevAbort = ab
		}
	}
}

// histories: hand-written shapes (the abort shapes listed by the audit) then random ones.
func (e *cacheEngine) histLines() {
	ctx := e.ctx
	r := ctx.R
	nTyped := 0
	for nTyped < len(e.specs) && e.specs[nTyped].Kind != "negdur" {
		nTyped++
	}
	neg := -1
	for i, sp := range e.specs {
		if sp.Kind == "negdur" {
			neg = i
		}
	}
	L := func(k tree.Kind, tag int, v int64) histCall {
		return histCall{kind: 'L', it: &tree.Item{Kind: k, Tag: tag, Int: v}}
	}
	T := func(tag int, s string) histCall {
		return histCall{kind: 'L', it: &tree.Item{Kind: tree.KText, Tag: tag, Data: []byte(s)}}
	}
	O := func(tag int) histCall { return histCall{kind: '{', tag: tag} }
	X := histCall{kind: '}'}
	W := func(abort bool, cs ...histCall) histOp { return histOp{kind: "W", calls: cs, abort: abort} }
	C, B := histOp{kind: "C"}, histOp{kind: "B"}
	good := W(false, O(0x540000), L(tree.KInt, 0x540001, 7), O(kmip.TagAttribute), T(kmip.TagAttributeName, "x"), X, O(0x540011), X, X)
	small := W(false, T(0x540003, "abc"))
	fixed := [][]histOp{
		{good, B},
		{good, B, C, small, B},
		{small, small, B, good, B},
		// abort shapes: one and two structures deep, before any output, after a complete item, twice in a row,
		// abort -> Bytes -> Clear, abort -> write on without Clear
		{W(true, O(0x540000), L(tree.KInt, 0x540001, 1)), B, C, good, B},
		{W(true, O(0x540000), O(0x540010), L(tree.KBool, 0x540002, 1)), B, C, good, B},
		{W(true, O(0x540000), O(0x540010), O(0x540011)), B, C, small, B},
		{W(true), B, C, small, B},
		{good, W(true), B, small, B},
		{W(true, O(0x540000)), W(true, O(0x540010), T(0x540003, "zz")), B, C, good, B},
		{W(true, O(0x540000), L(tree.KInt, 0x540001, 1)), good, B, C, good, B},
		{W(true, O(0x540000), O(0x540010), X), small, B},
		{W(true, good.calls...), B, C, small, B},
		{good, B, C, W(true, O(0x540000), T(0x540003, "0123456789")), B, C, small, B},
		// a big message first (the array grows), then small ones into the stale array
		{W(false, histCall{kind: 'L', it: &tree.Item{Kind: tree.KBytes, Tag: 0x540002, Data: bytes.Repeat([]byte{0xEE}, 3000)}}), B, C, W(false, T(0x540003, "abc"), T(0x540003, "abcde")), B, C, small, B},
	}
	if neg >= 0 {
		fixed = append(fixed,
			[]histOp{{kind: "E", msg: 0}, B, {kind: "E", msg: neg, junkCell: "keep"}, B, C, {kind: "E", msg: 1 % nTyped}, B},
			[]histOp{{kind: "E", msg: neg, junkCell: "keep"}, {kind: "E", msg: 0}, B})
	}
	type job struct {
		be string
		h  []histOp
		at int // index of the Clear whose suffix is compared with a new encoder (-1: none)
	}
	var jobs []job
	for _, be := range append(append([]string{}, cacheFormats...), histHideBackend) {
		for _, h := range fixed {
			if be != "ttlv" {
				typed := false
				for _, op := range h {
					typed = typed || op.kind == "E"
				}
				if typed {
					continue
				}
			}
			jobs = append(jobs, job{be, h, -1})
		}
		for k := 0; k < ctx.N(60, 2500); k++ {
			var h []histOp
			for l := 1 + r.Intn(5); l > 0; l-- {
				h = append(h, e.histGenOp(r, be, nTyped))
			}
			at := -1
			if k%2 == 0 {
				// history ; Clear ; continuation ending with Bytes
				at = len(h)
				h = append(h, C)
				for l := 1 + r.Intn(3); l > 0; l-- {
					op := e.histGenOp(r, be, nTyped)
					if op.kind == "C" {
						op = B
					}
					h = append(h, op)
				}
				h = append(h, B)
			} else if r.Chance(1, 2) {
				h = append(h, B)
			}
			jobs = append(jobs, job{be, h, at})
		}
	}
	for _, j := range jobs {
		line := e.renderHist(j.be, j.h)
		if j.be == histHideBackend {
			line = "# " + line // impl-only: not a question for the model
		}
		ctx.current = line
		e.histClassify(j.h)
		res := e.histRun(j.be, j.h, line, true)
		ctx.Add(line, res.String(), true, "C20")
		ctx.Res.Count("cache.hist." + j.be)

		at := j.at
		if at < 0 {
			// the last Clear of a hand-written history
			for i, op := range j.h {
				if op.kind == "C" {
					at = i
				}
			}
		}
		if at < 0 {
			continue
		}
		// oracle: the property on the real code — after Clear, as on a new encoder
		suffix := j.h[at+1:]
		want := e.histRun(j.be, suffix, line, false)
		nB := 0
		for _, op := range j.h[:at+1] {
			if op.kind == "B" {
				nB++
			}
		}
		gotFlags, gotOuts := res.flags[at+1:], res.outs[nB:]
		ctx.Res.Count("cache.hist.reuse-oracle." + j.be)
		if j.be == histHideBackend && strings.Contains(strings.Join(want.outs, ","), hexUp([]byte("******"))) {
			// the continuation after Clear writes a hidden tag: a cleared encoder that forgot to hide shows here
			ctx.Res.Count("cache.hist.text-hide.mask-written-after-clear")
		}
		if gotFlags != want.flags || strings.Join(gotOuts, ",") != strings.Join(want.outs, ",") {
			e.violate("hist-reuse", "cache:hist-reuse-differs:"+j.be,
				fmt.Sprintf("the calls after Clear() behave differently from the same calls on a new %s encoder: returned-normally flags %s vs %s; Bytes(): %s", j.be, gotFlags, want.flags, firstDiff(strings.Join(want.outs, ","), strings.Join(gotOuts, ","))), line)
		}
		if res.flags[at] != '1' {
			e.violate("hist-reuse", "cache:clear-panics:"+j.be, "Clear() panicked", line)
		}
	}
	// floors: the classes the argument relies on must have been generated
	for _, k := range []string{"cache.hist.abort.open-structures=0", "cache.hist.abort.open-structures=1", "cache.hist.abort.open-structures=2",
		"cache.hist.abort.open-structures=3", "cache.hist.abort.before-any-output", "cache.hist.abort.two-in-a-row",
		"cache.hist.abort.then-bytes-then-clear", "cache.hist.abort.then-write-without-clear"} {
		if ctx.Res.Distribution[k] < 4 {
			ctx.Res.Fail(fmt.Sprintf("lost evidence: history class %s generated only %d times", k, ctx.Res.Distribution[k]))
		}
	}
	if n := ctx.Res.Distribution["cache.hist.text-hide.mask-written-after-clear"]; n < 4 {
		ctx.Res.Fail(fmt.Sprintf("lost evidence: only %d histories of the hiding text encoder wrote a hidden tag after a Clear", n))
	}
	// positive control of the alias bookkeeping, on a writer of the harness's own (whether the LIBRARY's binary writer
	// keeps its array across Clear is its business: both answers satisfy C20, the overwrite is only counted above)
	{
		arr := []byte{1, 2, 3, 4}
		v := &histView{slice: arr[:4], copy: append([]byte{}, arr...), cleared: true}
		copy(arr, []byte{9, 9}) // "Clear + encode" into the same array
		if bytes.Equal(v.slice, v.copy) {
			ctx.Res.Fail("cache: the alias bookkeeping does not see a view being overwritten (harness defect)")
		}
	}
	if ctx.Res.Distribution["cache.alias.overwritten-after-clear.ttlv"] == 0 {
		ctx.Res.Count("cache.alias.overwrite-after-clear-never-observed.ttlv")
	}
}

// marshalAliasOracle: results of Marshal* come from a new encoder each: later calls must not change them.
func (e *cacheEngine) marshalAliasOracle() {
	type kept struct {
		f    string
		msg  int
		b, c []byte
	}
	var ks []kept
	n := len(e.msgs)
	if n == 0 {
		return
	}
	for round := 0; round < 3; round++ {
		for i := 0; i < n; i++ {
			if e.specs[i].Kind == "negdur" {
				continue
			}
			for _, f := range cacheFormats {
				m := e.msgs[i]
				if m.tg.tag != 0 {
					continue
				}
				b, p := guard("marshal", func() []byte {
					x := m.x.Interface()
					switch f {
					case "xml":
						return ttlv.MarshalXML(x)
					case "json":
						return ttlv.MarshalJSON(x)
					case "text":
						return ttlv.MarshalText(x)
					}
					return ttlv.MarshalTTLV(x)
				})
				if p != "" {
					continue
				}
				ks = append(ks, kept{f, i, b, append([]byte{}, b...)})
			}
		}
	}
	for _, k := range ks {
		e.ctx.Res.Count("cache.marshal-alias-checked." + k.f)
		if !bytes.Equal(k.b, k.c) {
			e.ctx.Res.Violate(report.Violation{Property: "C20", Oracle: "marshal-alias", Key: "cache:marshal-result-aliased:" + k.f,
				Detail: "the slice returned by ttlv.Marshal* was modified by later Marshal* calls: " + firstDiff(hexOrDash(k.c), hexOrDash(k.b)),
				Line:   fmt.Sprintf("# cache.marshal-alias %s msg=%d", k.f, k.msg)})
		}
	}
}

// histReplay evaluates `enc.hist` lines on the real code (typed `E` operations need the generated messages and
// are not replayable from the line alone: such lines are skipped).
func histReplay(ctx *Ctx, l string) {
	rest := strings.TrimPrefix(l, "enc.hist ")
	sp := strings.SplitN(rest, " ", 2)
	if len(sp) != 2 {
		return
	}
	be := sp[0]
	var h []histOp
	for _, part := range strings.Split(sp[1], " ; ") {
		part = strings.TrimSpace(part)
		switch {
		case part == "C" || part == "B":
			h = append(h, histOp{kind: part})
		case strings.HasPrefix(part, "W"):
			toks := valTokens(strings.TrimPrefix(part, "W"))
			op := histOp{kind: "W"}
			if len(toks) > 0 && toks[len(toks)-1] == "!" {
				op.abort = true
				toks = toks[:len(toks)-1]
			}
			for len(toks) > 0 {
				switch {
				case toks[0] == "}":
					op.calls = append(op.calls, histCall{kind: '}'})
					toks = toks[1:]
				case strings.HasPrefix(toks[0], "{"):
					tag, err := strconv.Atoi(toks[0][1:])
					if err != nil {
						return
					}
					op.calls = append(op.calls, histCall{kind: '{', tag: tag})
					toks = toks[1:]
				default:
					g, r2, err := skipGroup(toks)
					if err != nil {
						return
					}
					it, err := tree.Parse(strings.Join(g, " "))
					if err != nil {
						return
					}
					op.calls = append(op.calls, histCall{kind: 'L', it: it})
					toks = r2
				}
			}
			h = append(h, op)
		default:
			return
		}
	}
	e := &cacheEngine{ctx: ctx}
	ctx.Add(l, e.histRun(be, h, l, true).String(), true, "C20")
}

// decoderReuseObservation — INFORMATION. A ttlv.Decoder can decode several top-level values one after the other
// (`dec.Any(&a); dec.TagAny(tag, &b)` over concatenated encodings); it has no Clear, so the version set by the first
// message's header stays for the second value, exactly like an encoder that is not cleared. The library never does
// this and C20 does not speak about it; what happens is recorded: `cache.decoder-reuse.same-as-fresh` /
// `.version-leak-observed` (a header-less value whose version-gated elements are missing is accepted under the
// leaked 1.0 version and refused by a new decoder).
func (e *cacheEngine) decoderReuseObservation() {
	first := e.decInput(1, "ttlv") // the 1.0 request message
	if first == "" {
		return
	}
	b1, _ := hex.DecodeString(first)
	for i := 6; i < len(e.specs); i++ {
		if e.specs[i].Kind == "negdur" {
			continue
		}
		inputs := map[int]string{0: e.decInput(i, "ttlv")}
		for k, h := range e.muts[i] {
			inputs[k+1] = h
		}
		for v, h := range inputs {
			want, ok := e.ref[cacheRefKey{"dec", "ttlv", i, v}]
			if h == "" || !ok {
				continue
			}
			b2, _ := hex.DecodeString(h)
			tg := e.msgs[i].tg
			got, p := guard("decoder-reuse", func() string {
				dec, err := ttlv.NewTTLVDecoder(append(append([]byte{}, b1...), b2...))
				if err != nil {
					return "err"
				}
				var req kmip.RequestMessage
				if err := dec.Any(&req); err != nil {
					return "first-err"
				}
				var ptr reflect.Value
				if tg.ty.Kind() == reflect.Pointer {
					ptr = reflect.New(tg.ty.Elem())
				} else {
					ptr = reflect.New(tg.ty)
				}
				if tg.tag == 0 {
					err = dec.Any(ptr.Interface())
				} else {
					err = dec.TagAny(tg.tag, ptr.Interface())
				}
				if err != nil {
					return "err"
				}
				val := ptr
				if tg.ty.Kind() != reflect.Pointer {
					val = ptr.Elem()
				}
				s, rerr := e.s.Render(val, e.s.Dyns[tg.dyn].Kind)
				if rerr != nil {
					return "unrenderable"
				}
				return "ok " + s
			})
			switch {
			case p != "":
				e.ctx.Res.Count("cache.decoder-reuse.panic")
			case got == want:
				e.ctx.Res.Count("cache.decoder-reuse.same-as-fresh")
			default:
				e.ctx.Res.Count("cache.decoder-reuse.version-leak-observed")
			}
		}
	}
}
