package main

// Engine `hostile` (property C02): the entry points and input classes the other C02 engines do not reach.
//
//   http    kmipserver.NewHTTPHandler(...).ServeHTTP driven in-process (httptest) with the malformed-input
//           streams of the three decoders under the three content types (also crossed), hostile
//           Content-Length headers, methods, bodies around the 1 MiB limit. Oracles: no panic, request body
//           unmodified, and "ServeHTTP = decoder + envelope": the inner handler runs exactly when the direct
//           decode of the same bytes succeeds and receives the same message; otherwise the answer is one
//           decodable KMIP error response.
//   shapes  hostile XML / JSON document STRUCTURES (not lexical variations of one attribute): namespace
//           prefixes, duplicate attributes / keys, comments, CDATA, PIs, DOCTYPE and entities between
//           children, children under leaves, values on structures, thousands of attributes / siblings,
//           wrong JSON kinds at any depth, exponents, very long numerals — decoded into the typed messages
//           (text.go oracles) and into ttlv.Value (lex.go oracles + lexical Lean model).
//   typed   random byte strings, well-framed random content and cross-type splices decoded into every typed
//           binary target (plan.go oracles + typed Lean model).
//   deep    nesting of 10^3 … the maximum that fits the 1 MiB transport limit (131 071 binary levels) and very
//           wide documents, for the three decoders, generic and typed targets, Stream.Recv and ServeHTTP — in a
//           CHILD PROCESS: stack exhaustion is a fatal error, not a recoverable panic.
//   arch32  the library built for GOARCH=386 (int is 32 bits wide) and run on length fields around 2^31 and 2^32
//           (skipped, and recorded as skipped, where a 32-bit binary cannot be built or executed).
//   extent  XML scalar elements with every kind of content at every depth: structure extents (hostile_extent.go).
//   repeat  JSON members / XML attributes that duplicate tag, type, value exactly or up to letter case, every
//           document decoded many times: same bytes, same result (hostile_extent.go).
//   conc    8-16 goroutines decoding at the same time, in a child process: valid, unknown-name and malformed documents
//           of the three encodings; the process survives and every outcome equals the sequential one (hostile_conc.go).

import (
	"bufio"
	"bytes"
	"context"
	"encoding/hex"
	"encoding/json"
	"encoding/xml"
	"fmt"
	"io"
	"net/http"
	"net/http/httptest"
	"os"
	"os/exec"
	"path/filepath"
	"reflect"
	"runtime"
	"strconv"
	"strings"
	"time"

	kmip "github.com/ovh/kmip-go"
	"github.com/ovh/kmip-go/kmipserver"
	"github.com/ovh/kmip-go/ttlv"

	"verifharness/internal/model"
	"verifharness/internal/report"
	"verifharness/internal/rng"
	"verifharness/internal/tree"
)

const hostileChildEnv = "VERIF_C02_CHILD"

func init() {
	if os.Getenv(hostileChildEnv) != "" {
		hostileChildMain()
		os.Exit(0)
	}
	register(&Engine{
		Name: "hostile",
		Rule: "entry points and input classes beyond the codec engines: ServeHTTP in-process (3 content types x malformed binary/XML/JSON bodies, also crossed; hostile Content-Length/method/limit cases) judged against the direct decode of the same bytes; structural XML/JSON mutations (namespaces, duplicate attributes/keys, comments/CDATA/PI/DOCTYPE, children under leaves, thousands of attributes/siblings, wrong JSON kinds at any depth) into typed and generic targets; random/framed/spliced bytes into every typed binary target; nesting up to the 131 071 levels that fit 1 MiB and very wide documents in a child process; the library built for GOARCH=386 on lengths around 2^31/2^32; XML scalar elements given every kind of content at every depth (alone and with trailing unknown elements) judged against the same document without the content and against an independent token walk; JSON members / XML attributes repeating tag/type/value exactly or up to letter case, each document decoded 16-200 times with one outcome required; distinct = distinct line; nontrivial = all",
		Run:  runHostile,
	})
}

func hostileViolate(ctx *Ctx, oracle, key, detail, line string) {
	ctx.Res.Violate(report.Violation{Property: "C02", Oracle: oracle, Key: key, Detail: detail, Line: line})
}

// ---------------------------------------------------------------------------------------------------------
// http
// ---------------------------------------------------------------------------------------------------------

type httpRec struct {
	calls int
	last  *kmip.RequestMessage
}

var httpFixedTime = time.Unix(1700000000, 0).UTC()

func (h *httpRec) HandleRequest(_ context.Context, req *kmip.RequestMessage) *kmip.ResponseMessage {
	h.calls++
	h.last = req
	return &kmip.ResponseMessage{
		Header:    kmip.ResponseHeader{ProtocolVersion: kmip.V1_4, TimeStamp: httpFixedTime, BatchCount: 1},
		BatchItem: []kmip.ResponseBatchItem{{Operation: kmip.OperationQuery, ResultStatus: kmip.ResultStatusSuccess}},
	}
}

type httpCodec struct {
	ct        string
	unmarshal func([]byte, any) error
}

var httpCodecs = []httpCodec{
	{"application/octet-stream", ttlv.UnmarshalTTLV},
	{"text/xml", ttlv.UnmarshalXML},
	{"application/json", ttlv.UnmarshalJSON},
}

func httpCodecFor(ct string) *httpCodec {
	for i := range httpCodecs {
		if httpCodecs[i].ct == ct {
			return &httpCodecs[i]
		}
	}
	return nil
}

type httpSpec struct {
	method  string
	ct      string // "-" = header absent
	cl      string // "-" = header absent
	nilBody bool
	body    []byte
	// rcl: what net/http puts into Request.ContentLength, when it is NOT what the Content-Length header says: ""
	// = as httptest computes it (the body length); "-1" = unknown (a chunked request: the server deletes the
	// header); any other number = a length that disagrees with the header field.
	rcl string
}

func (sp httpSpec) line() string {
	nb := "body"
	if sp.nilBody {
		nb = "nil"
	}
	l := fmt.Sprintf("#http %s %s %s %s %s", sp.method, hexUp([]byte(sp.ct)), hexUp([]byte(sp.cl)), nb, hexUp(sp.body))
	if sp.rcl != "" {
		l += " rcl=" + sp.rcl
	}
	return l
}

func parseHTTPSpec(l string) (httpSpec, bool) {
	f := strings.Fields(l)
	rcl := ""
	if len(f) == 7 && strings.HasPrefix(f[6], "rcl=") {
		rcl, f = strings.TrimPrefix(f[6], "rcl="), f[:6]
	}
	if len(f) != 6 || f[0] != "#http" {
		return httpSpec{}, false
	}
	ct, e1 := hexDecode(f[2])
	cl, e2 := hexDecode(f[3])
	body, e3 := hexDecode(f[5])
	if e1 != nil || e2 != nil || e3 != nil {
		return httpSpec{}, false
	}
	return httpSpec{method: f[1], ct: string(ct), cl: string(cl), nilBody: f[4] == "nil", body: body, rcl: rcl}, true
}

// the body limit of the handler (an exported constant of the library: followed, not duplicated)
const httpMaxBody = kmipserver.DEFAULT_MAX_BODY_SIZE

type httpObs struct {
	panicked string
	code     int
	body     []byte
	calls    int
	msg      string // rendering of the message handed to the inner handler
	modified bool
}

func httpServe(sp httpSpec) httpObs {
	h := &httpRec{}
	hdl := kmipserver.NewHTTPHandler(h)
	in := append([]byte{}, sp.body...)
	req := httptest.NewRequest(sp.method, "http://kmip.test/kmip", bytes.NewReader(in))
	req.Header = http.Header{}
	if sp.ct != "-" {
		req.Header.Set("Content-Type", sp.ct)
	}
	if sp.cl != "-" {
		req.Header.Set("Content-Length", sp.cl)
	}
	req.RemoteAddr = "192.0.2.1:5696"
	if sp.nilBody {
		req.Body = nil
	}
	if sp.rcl != "" {
		if n, err := strconv.ParseInt(sp.rcl, 10, 64); err == nil {
			req.ContentLength = n
			if n < 0 {
				req.TransferEncoding = []string{"chunked"}
			}
		}
	}
	rec := httptest.NewRecorder()
	_, p := guard("ServeHTTP", func() int { hdl.ServeHTTP(rec, req); return 0 })
	o := httpObs{panicked: p, code: rec.Code, body: rec.Body.Bytes(), calls: h.calls, modified: !bytes.Equal(in, sp.body)}
	if h.last != nil {
		s := getSchema()
		o.msg, _ = s.Render(reflect.ValueOf(h.last), s.Dyns[s.Roots["RequestMessage"]].Kind)
	}
	return o
}

// httpEffective: ok=true for a plain, exact envelope (POST, one of the three content types, Content-Length equal to
// the body length and within the limit): the decoder of that content type must get exactly the body. Every other
// envelope is only required not to panic — what the handler makes of it is not C02's business.
func httpEffective(sp httpSpec) (c *httpCodec, eff []byte, ok bool) {
	if sp.method != http.MethodPost || sp.nilBody || sp.rcl != "" {
		return nil, nil, false
	}
	c = httpCodecFor(sp.ct)
	if c == nil {
		return nil, nil, false
	}
	n, err := strconv.Atoi(sp.cl)
	if err != nil || n <= 0 || n > httpMaxBody || n != len(sp.body) || strings.HasPrefix(sp.cl, "+") {
		return nil, nil, false
	}
	return c, sp.body, true
}

func httpCase(ctx *Ctx, sp httpSpec, origin string) {
	line := sp.line()
	ctx.current = line
	o := httpServe(sp)
	outcome := fmt.Sprintf("%d", o.code)
	defer func() {
		ctx.Add(line, outcome, true, "")
		ctx.Res.Count("http." + origin + "." + outcome)
	}()
	if o.panicked != "" {
		outcome = "panic"
		hostileViolate(ctx, "no-panic", "http:panic:"+panicKey(o.panicked), "ServeHTTP panicked: "+o.panicked, line)
		return
	}
	if o.modified {
		hostileViolate(ctx, "input-unmodified", "http:body-modified", "ServeHTTP modified the request body buffer", line)
	}
	c, eff, decodes := httpEffective(sp)
	if !decodes {
		ctx.Res.Count("http.envelope-odd")
		if o.calls != 0 {
			ctx.Res.Count("http.envelope-odd.handled")
		}
		return
	}
	ctx.Res.Count("http.ct." + c.ct)
	var direct kmip.RequestMessage
	derr, dp := guard("Unmarshal", func() error { return c.unmarshal(append([]byte{}, eff...), &direct) })
	if dp != "" {
		return // the codec engines report the decoder's own panic
	}
	if o.code != http.StatusOK {
		ctx.Res.Count("http.decodable-envelope-non-200")
		return
	}
	if derr != nil {
		outcome = "200-kmip-error"
		if o.calls != 0 {
			hostileViolate(ctx, "entry-consistent", "http:handler-run-on-undecodable-body", "the request handler ran although "+c.ct+" decoding of the body fails: "+errClass(derr), line)
		}
		var resp kmip.ResponseMessage
		rerr, rp := guard("Unmarshal", func() error { return c.unmarshal(append([]byte{}, o.body...), &resp) })
		switch {
		case rp != "" || rerr != nil:
			hostileViolate(ctx, "error-response", "http:error-response-undecodable:"+c.ct, fmt.Sprintf("the response to an undecodable request is not a decodable %s ResponseMessage: %v %s", c.ct, rerr, rp), line)
		case len(resp.BatchItem) != 1 || resp.BatchItem[0].ResultStatus != kmip.ResultStatusOperationFailed:
			hostileViolate(ctx, "error-response", "http:error-response-shape", "the response to an undecodable request is not a single failed batch item", line)
		}
		return
	}
	outcome = "200-handled"
	s := getSchema()
	want, _ := s.Render(reflect.ValueOf(&direct), s.Dyns[s.Roots["RequestMessage"]].Kind)
	switch {
	case o.calls != 1:
		hostileViolate(ctx, "entry-consistent", "http:decodable-body-not-handled", fmt.Sprintf("the body decodes as %s but the request handler ran %d times", c.ct, o.calls), line)
	case o.msg != want:
		hostileViolate(ctx, "entry-consistent", "http:handler-got-different-message", "the message handed to the request handler differs from the direct decode of the body: "+firstDiff(want, o.msg), line)
	}
	// second run: same observable outcome
	if o2 := httpServe(sp); o2.panicked != "" || o2.code != o.code || o2.calls != o.calls || o2.msg != o.msg {
		hostileViolate(ctx, "deterministic", "http:second-request-differs", "serving the same request again gives a different outcome", line)
	}
}

// httpEnvelopes: the hostile envelopes around one body (the exact, well-formed envelope first).
func httpEnvelopes(r *rng.R, ct string, body []byte, all bool) []httpSpec {
	exact := strconv.Itoa(len(body))
	out := []httpSpec{{method: "POST", ct: ct, cl: exact, body: body}}
	alts := []httpSpec{
		{method: "POST", ct: ct, cl: "-", body: body},
		{method: "POST", ct: ct, cl: "0", body: body},
		{method: "POST", ct: ct, cl: "-1", body: body},
		{method: "POST", ct: ct, cl: "abc", body: body},
		{method: "POST", ct: ct, cl: "", body: body},
		{method: "POST", ct: ct, cl: "+" + exact, body: body},
		{method: "POST", ct: ct, cl: strconv.Itoa(len(body) + 1), body: body},
		{method: "POST", ct: ct, cl: strconv.Itoa(max(len(body)-1, 1)), body: body},
		{method: "POST", ct: ct, cl: strconv.Itoa(max(len(body)/2, 1)), body: body},
		{method: "POST", ct: ct, cl: "1048576", body: body},
		{method: "POST", ct: ct, cl: "1048577", body: body},
		{method: "POST", ct: ct, cl: "2147483648", body: body},
		{method: "POST", ct: ct, cl: "99999999999999999999", body: body},
		{method: "POST", ct: ct, cl: "-9223372036854775808", body: body},
		{method: "GET", ct: ct, cl: exact, body: body},
		{method: "PUT", ct: ct, cl: exact, body: body},
		{method: "GET", ct: ct, cl: exact, nilBody: true},
		{method: "POST", ct: "-", cl: exact, body: body},
		{method: "POST", ct: "-", cl: "-", nilBody: true},
		{method: "POST", ct: ct, cl: "-", nilBody: true},
		{method: "POST", ct: ct, cl: "x", nilBody: true},
		{method: "POST", ct: ct + "; charset=utf-8", cl: exact, body: body},
		{method: "POST", ct: strings.ToUpper(ct), cl: exact, body: body},
		{method: "POST", ct: "text/plain", cl: exact, body: body},
		// what a real net/http server hands over for a chunked request (no Content-Length header, length unknown),
		// and requests whose ContentLength field disagrees with the header the handler may look at
		{method: "POST", ct: ct, cl: "-", body: body, rcl: "-1"},
		{method: "POST", ct: ct, cl: exact, body: body, rcl: "-1"},
		{method: "POST", ct: ct, cl: exact, body: body, rcl: "0"},
		{method: "POST", ct: ct, cl: "0", body: body, rcl: strconv.Itoa(len(body))},
		{method: "POST", ct: ct, cl: exact, body: body, rcl: strconv.Itoa(len(body) + 1)},
		{method: "POST", ct: ct, cl: exact, body: body, rcl: "9223372036854775807"},
		{method: "POST", ct: ct, cl: "-", body: nil, rcl: "-1"},
	}
	if all {
		return append(out, alts...)
	}
	if r.Chance(1, 3) {
		out = append(out, rng.Pick(r, alts))
	}
	return out
}

func runHTTP(ctx *Ctx) {
	s := getSchema()
	r := ctx.R
	reqTy := reflect.TypeFor[*kmip.RequestMessage]()
	cts := []string{"application/octet-stream", "text/xml", "application/json"}
	feed := func(own int, body []byte, origin string, all bool) {
		for _, sp := range httpEnvelopes(r, cts[own], body, all) {
			httpCase(ctx, sp, origin)
		}
		if r.Chance(1, 4) {
			other := (own + 1 + r.Intn(2)) % 3
			httpCase(ctx, httpSpec{method: "POST", ct: cts[other], cl: strconv.Itoa(len(body)), body: body}, origin+"-crossed")
		}
	}
	// every envelope once around a small valid body of each kind
	first := true
	n := ctx.N(120, 500)
	for i := 0; i < n; i++ {
		mode := 2
		p := &popCfg{r: r, s: s, fill: i % 3, textMode: mode, respectGating: true}
		x := reflect.New(reqTy.Elem())
		p.populate(x.Elem())
		docs := [3][]byte{}
		var pn string
		docs[0], pn = guard("MarshalTTLV", func() []byte { return ttlv.MarshalTTLV(x.Interface()) })
		if pn != "" {
			continue
		}
		docs[1], pn = guard("MarshalXML", func() []byte { return ttlv.MarshalXML(x.Interface()) })
		if pn != "" {
			continue
		}
		docs[2], pn = guard("MarshalJSON", func() []byte { return ttlv.MarshalJSON(x.Interface()) })
		if pn != "" {
			continue
		}
		for k := 0; k < 3; k++ {
			feed(k, docs[k], "valid", first)
		}
		first = false
		for _, m := range mutate(r, docs[0]) {
			feed(0, m, "mutated", false)
		}
		for _, m := range mutateXML(r, docs[1]) {
			feed(1, m, "mutated", false)
		}
		for _, m := range hostileXML(r, docs[1], 3) {
			feed(1, m, "shaped", false)
		}
		for _, m := range mutateJSON(r, docs[2]) {
			feed(2, m, "mutated", false)
		}
		for _, m := range hostileJSON(r, docs[2], 3) {
			feed(2, m, "shaped", false)
		}
	}
	for _, b := range corpusBinary() {
		feed(0, b, "corpus", false)
	}
	for i := 0; i < ctx.N(40, 400); i++ {
		feed(r.Intn(3), r.Bytes(1+r.Intn(48)), "random", false)
	}
	// bodies at the size limit: a request whose payload is one large byte string
	for _, sz := range []int{httpMaxBody - 200, httpMaxBody, httpMaxBody + 1} {
		for k := 0; k < 3; k++ {
			body := bytes.Repeat([]byte{byte("B<{"[k])}, sz)
			httpCase(ctx, httpSpec{method: "POST", ct: cts[k], cl: strconv.Itoa(sz), body: body}, "limit")
		}
	}
	for _, k := range []string{"http.ct.application/octet-stream", "http.ct.text/xml", "http.ct.application/json", "http.envelope-odd"} {
		if ctx.Res.Distribution[k] < 20 {
			ctx.Res.Fail(fmt.Sprintf("hostile/http: class %s has only %d cases", k, ctx.Res.Distribution[k]))
		}
	}
}

// ---------------------------------------------------------------------------------------------------------
// shapes: structural XML / JSON mutations
// ---------------------------------------------------------------------------------------------------------

type hxNode struct {
	name  string
	attrs [][2]string
	kids  []*hxNode
	pre   string // raw text emitted before the element
	inner string // raw text emitted at the beginning of its content
}

func hxParse(doc []byte) *hxNode {
	d := xml.NewDecoder(bytes.NewReader(doc))
	var root *hxNode
	var stack []*hxNode
	for {
		tok, err := d.Token()
		if err != nil {
			break
		}
		switch t := tok.(type) {
		case xml.StartElement:
			e := &hxNode{name: t.Name.Local}
			for _, a := range t.Attr {
				e.attrs = append(e.attrs, [2]string{a.Name.Local, a.Value})
			}
			if len(stack) == 0 {
				if root == nil {
					root = e
				}
			} else {
				p := stack[len(stack)-1]
				p.kids = append(p.kids, e)
			}
			stack = append(stack, e)
		case xml.EndElement:
			if len(stack) > 0 {
				stack = stack[:len(stack)-1]
			}
		}
	}
	return root
}

func (n *hxNode) write(b *bytes.Buffer) {
	b.WriteString(n.pre)
	b.WriteByte('<')
	b.WriteString(n.name)
	for _, a := range n.attrs {
		b.WriteByte(' ')
		b.WriteString(a[0])
		b.WriteString(`="`)
		_ = xml.EscapeText(b, []byte(a[1]))
		b.WriteByte('"')
	}
	if len(n.kids) == 0 && n.inner == "" {
		b.WriteString("/>")
		return
	}
	b.WriteByte('>')
	b.WriteString(n.inner)
	for _, k := range n.kids {
		k.write(b)
	}
	b.WriteString("</")
	b.WriteString(n.name)
	b.WriteByte('>')
}

func (n *hxNode) clone() *hxNode {
	c := &hxNode{name: n.name, pre: n.pre, inner: n.inner, attrs: append([][2]string{}, n.attrs...)}
	for _, k := range n.kids {
		c.kids = append(c.kids, k.clone())
	}
	return c
}

type hxRef struct {
	n      *hxNode
	parent *hxNode
	idx    int
}

func (n *hxNode) collect(parent *hxNode, idx int, out *[]hxRef) {
	*out = append(*out, hxRef{n, parent, idx})
	for i, k := range n.kids {
		k.collect(n, i, out)
	}
}

var hxJunk = []string{
	"<!-- c -->", "<!---->", "<?pi data?>", "<![CDATA[x]]>", "<![CDATA[<Operation type=\"Enumeration\" value=\"Get\"/>]]>",
	"text", " \n\t ", "&amp;", "&#65;", "&#x10FFFF;", "&bogus;", "&#0;", " ", "]]>", "<!DOCTYPE x>",
}

var hxAltValues = []string{"", "0", "1", "-1", "Structure", "Integer", "TextString", "Foo", "0x42007B", "0x00000001", "true", "Get"}

var hxNames = []string{"Foo", "TTLV", "x:TTLV", "Operation", "BatchItem", "RequestPayload", "Q", "requestmessage", "UniqueIdentifier", "AttributeValue"}

func hostileXMLOne(r *rng.R, root *hxNode) {
	var refs []hxRef
	root.collect(nil, 0, &refs)
	ref := rng.Pick(r, refs)
	n := ref.n
	big := func() int { return rng.Pick(r, []int{1, 1, 2, 2, 3, 3, 40, 40, 40, 3000}) }
	switch r.Intn(18) {
	case 0: // namespace prefix on an attribute
		if len(n.attrs) > 0 {
			i := r.Intn(len(n.attrs))
			n.attrs[i][0] = "x:" + n.attrs[i][0]
			if r.Bool() {
				root.attrs = append(root.attrs, [2]string{"xmlns:x", "urn:x"})
			}
		}
	case 1: // duplicate attribute with another value, before or after
		if len(n.attrs) > 0 {
			a := [2]string{rng.Pick(r, n.attrs)[0], rng.Pick(r, hxAltValues)}
			if r.Bool() {
				n.attrs = append(n.attrs, a)
			} else {
				n.attrs = append([][2]string{a}, n.attrs...)
			}
		}
	case 2: // reverse the attributes
		for i, j := 0, len(n.attrs)-1; i < j; i, j = i+1, j-1 {
			n.attrs[i], n.attrs[j] = n.attrs[j], n.attrs[i]
		}
	case 3: // many unknown attributes
		var extra [][2]string
		for i, k := 0, big(); i < k; i++ {
			extra = append(extra, [2]string{fmt.Sprintf("a%d", i), "v"})
		}
		if r.Bool() {
			n.attrs = append(n.attrs, extra...)
		} else {
			n.attrs = append(extra, n.attrs...)
		}
	case 4:
		n.pre += rng.Pick(r, hxJunk)
	case 5:
		n.inner += rng.Pick(r, hxJunk)
	case 6: // wrap in an unknown / known element
		w := &hxNode{name: rng.Pick(r, hxNames), kids: []*hxNode{n.clone()}}
		if w.name == "TTLV" || w.name == "x:TTLV" {
			w.attrs = [][2]string{{"tag", rng.Pick(r, []string{"0x540001", "0x42000F", "Foo", "", "0x0", "0x1000000"})}}
		}
		*n = *w
	case 7: // a child under a leaf (or one more child)
		n.kids = append(n.kids, rng.Pick(r, refs).n.clone())
	case 8: // a value / type on whatever it is
		n.attrs = append(n.attrs, [2]string{rng.Pick(r, []string{"value", "type", "tag"}), rng.Pick(r, hxAltValues)})
	case 9:
		n.kids = nil
	case 10: // duplicate as a sibling, possibly thousands of times
		if ref.parent != nil {
			p := ref.parent
			k := big()
			kids := append([]*hxNode{}, p.kids[:ref.idx]...)
			for i := 0; i <= k; i++ {
				kids = append(kids, n.clone())
			}
			p.kids = append(kids, p.kids[ref.idx+1:]...)
		}
	case 11:
		n.name = rng.Pick(r, hxNames)
	case 12: // swap two siblings
		if len(n.kids) > 1 {
			i, j := r.Intn(len(n.kids)), r.Intn(len(n.kids))
			n.kids[i], n.kids[j] = n.kids[j], n.kids[i]
		}
	case 13: // very long attribute value
		if len(n.attrs) > 0 {
			i := r.Intn(len(n.attrs))
			n.attrs[i][1] = strings.Repeat(rng.Pick(r, []string{"9", "0", "A", "F", "-", " ", "0x", "é"}), rng.Pick(r, []int{20, 400, 70000}))
		}
	case 14: // drop every attribute
		n.attrs = nil
	case 15: // prefix on the element name
		n.name = "x:" + n.name
	case 16: // the TTLV spelling of the element
		n.attrs = append([][2]string{{"tag", n.name}}, n.attrs...)
		n.name = "TTLV"
	case 17: // remove the element
		if ref.parent != nil {
			p := ref.parent
			p.kids = append(append([]*hxNode{}, p.kids[:ref.idx]...), p.kids[ref.idx+1:]...)
		}
	}
}

// hostileXML returns n structural mutants of a valid document (1–3 operations each) plus document-level ones.
func hostileXML(r *rng.R, doc []byte, n int) [][]byte {
	root := hxParse(doc)
	if root == nil {
		return nil
	}
	var out [][]byte
	for i := 0; i < n; i++ {
		m := root.clone()
		for k := 1 + r.Intn(3); k > 0; k-- {
			hostileXMLOne(r, m)
		}
		var b bytes.Buffer
		m.write(&b)
		if b.Len() <= 1<<20 {
			out = append(out, b.Bytes())
		}
	}
	switch r.Intn(8) {
	case 0:
		out = append(out, append([]byte(`<?xml version="1.0" encoding="UTF-8"?>`+"\n"), doc...))
	case 1:
		out = append(out, append([]byte(`<?xml version="1.0" encoding="ISO-8859-1"?>`), doc...))
	case 2:
		out = append(out, append([]byte("\xef\xbb\xbf"), doc...))
	case 3:
		out = append(out, append(append([]byte{}, doc...), doc...)) // two roots
	case 4:
		out = append(out, append(append([]byte{}, doc...), []byte("trailing &bogus; <")...))
	case 5:
		out = append(out, append([]byte(`<!DOCTYPE RequestMessage [<!ENTITY a "aaaaaaaaaa"><!ENTITY b "&a;&a;&a;&a;&a;&a;&a;&a;">]>`), doc...))
	case 6:
		out = append(out, bytes.ReplaceAll(doc, []byte(`"`), []byte(`'`)))
	case 7:
		out = append(out, bytes.ReplaceAll(doc, []byte(`/>`), []byte(`>`))) // leaves never closed
	}
	return out
}

type hjNode struct {
	kind byte // o a r(aw)
	keys []string
	vals []*hjNode
	raw  string
}

func hjRead(d *json.Decoder) *hjNode {
	tok, err := d.Token()
	if err != nil {
		return nil
	}
	if dl, ok := tok.(json.Delim); ok {
		switch dl {
		case '{':
			o := &hjNode{kind: 'o'}
			for d.More() {
				kt, err := d.Token()
				if err != nil {
					return nil
				}
				k, _ := kt.(string)
				v := hjRead(d)
				if v == nil {
					return nil
				}
				o.keys = append(o.keys, k)
				o.vals = append(o.vals, v)
			}
			_, _ = d.Token()
			return o
		case '[':
			a := &hjNode{kind: 'a'}
			for d.More() {
				v := hjRead(d)
				if v == nil {
					return nil
				}
				a.vals = append(a.vals, v)
			}
			_, _ = d.Token()
			return a
		}
		return nil
	}
	b, _ := json.Marshal(tok)
	if num, ok := tok.(json.Number); ok {
		b = []byte(num)
	}
	return &hjNode{kind: 'r', raw: string(b)}
}

func hjParse(doc []byte) *hjNode {
	d := json.NewDecoder(bytes.NewReader(doc))
	d.UseNumber()
	return hjRead(d)
}

func (n *hjNode) write(b *bytes.Buffer) {
	switch n.kind {
	case 'o':
		b.WriteByte('{')
		for i, k := range n.keys {
			if i > 0 {
				b.WriteByte(',')
			}
			kb, _ := json.Marshal(k)
			b.Write(kb)
			b.WriteByte(':')
			n.vals[i].write(b)
		}
		b.WriteByte('}')
	case 'a':
		b.WriteByte('[')
		for i, v := range n.vals {
			if i > 0 {
				b.WriteByte(',')
			}
			v.write(b)
		}
		b.WriteByte(']')
	default:
		b.WriteString(n.raw)
	}
}

func (n *hjNode) clone() *hjNode {
	c := &hjNode{kind: n.kind, raw: n.raw, keys: append([]string{}, n.keys...)}
	for _, v := range n.vals {
		c.vals = append(c.vals, v.clone())
	}
	return c
}

func (n *hjNode) collect(out *[]*hjNode) {
	*out = append(*out, n)
	for _, v := range n.vals {
		v.collect(out)
	}
}

var hjJunk = []string{
	"null", "true", "false", "0", "1", "-1", "-0", "1.0", "1e2", "1E400", "-1e-400", "4294967296", "9223372036854775808",
	`""`, `"0x"`, `"0x1"`, `"Foo"`, `"Structure"`, `"Integer"`, `"\u0000"`, `"\ud800"`, `"😀"`, "[]", "[[]]", "[[[{}]]]", "{}",
	`[1,"a",null,{},[]]`, `{"tag":"Q"}`, `{"tag":"Q","type":"Integer","value":1}`, `{"value":[]}`, `{"tag":"BatchItem","value":{"tag":"Operation"}}`,
}

func hostileJSONOne(r *rng.R, root *hjNode) {
	var nodes []*hjNode
	root.collect(&nodes)
	n := rng.Pick(r, nodes)
	junk := func() *hjNode {
		if r.Chance(1, 12) {
			return &hjNode{kind: 'r', raw: rng.Pick(r, []string{"1", "-", "0."}) + strings.Repeat("9", rng.Pick(r, []int{30, 400, 70000}))}
		}
		return &hjNode{kind: 'r', raw: rng.Pick(r, hjJunk)}
	}
	big := func() int { return rng.Pick(r, []int{1, 1, 2, 2, 3, 3, 40, 40, 40, 3000}) }
	switch r.Intn(14) {
	case 0: // anything replaced by junk of another kind
		*n = *junk()
	case 1: // duplicate key, before or after
		if n.kind == 'o' && len(n.keys) > 0 {
			k := rng.Pick(r, n.keys)
			if r.Bool() {
				n.keys, n.vals = append(n.keys, k), append(n.vals, junk())
			} else {
				n.keys, n.vals = append([]string{k}, n.keys...), append([]*hjNode{junk()}, n.vals...)
			}
		}
	case 2: // key spelled differently
		if n.kind == 'o' && len(n.keys) > 0 {
			i := r.Intn(len(n.keys))
			n.keys[i] = rng.Pick(r, []string{strings.ToUpper(n.keys[i]), strings.Title(n.keys[i]), n.keys[i] + " ", "", "\u0000"})
		}
	case 3: // drop a key
		if n.kind == 'o' && len(n.keys) > 0 {
			i := r.Intn(len(n.keys))
			n.keys = append(append([]string{}, n.keys[:i]...), n.keys[i+1:]...)
			n.vals = append(append([]*hjNode{}, n.vals[:i]...), n.vals[i+1:]...)
		}
	case 4: // many unknown keys
		if n.kind == 'o' {
			for i, k := 0, big(); i < k; i++ {
				n.keys, n.vals = append(n.keys, fmt.Sprintf("k%d", i)), append(n.vals, junk())
			}
		}
	case 5: // one of tag / type / value set to a wrong kind
		if n.kind == 'o' {
			k := rng.Pick(r, []string{"tag", "type", "value"})
			done := false
			for i := range n.keys {
				if n.keys[i] == k {
					n.vals[i], done = junk(), true
				}
			}
			if !done {
				n.keys, n.vals = append(n.keys, k), append(n.vals, junk())
			}
		}
	case 6: // junk elements inside an array
		if n.kind == 'a' {
			i := r.Intn(len(n.vals) + 1)
			vals := append([]*hjNode{}, n.vals[:i]...)
			vals = append(vals, junk())
			n.vals = append(vals, n.vals[i:]...)
		}
	case 7: // every element wrapped in an array
		if n.kind == 'a' {
			for i, v := range n.vals {
				n.vals[i] = &hjNode{kind: 'a', vals: []*hjNode{v}}
			}
		}
	case 8: // an element repeated, possibly thousands of times
		if n.kind == 'a' && len(n.vals) > 0 {
			v := rng.Pick(r, n.vals)
			for i, k := 0, big(); i < k; i++ {
				n.vals = append(n.vals, v.clone())
			}
		}
	case 9: // reversed array
		if n.kind == 'a' {
			for i, j := 0, len(n.vals)-1; i < j; i, j = i+1, j-1 {
				n.vals[i], n.vals[j] = n.vals[j], n.vals[i]
			}
		}
	case 10: // wrapped in an array
		*n = hjNode{kind: 'a', vals: []*hjNode{n.clone()}}
	case 11: // wrapped in a structure
		*n = hjNode{kind: 'o', keys: []string{"tag", "value"}, vals: []*hjNode{{kind: 'r', raw: rng.Pick(r, []string{`"Q"`, `"0x540001"`, `"Foo"`, "1"})}, {kind: 'a', vals: []*hjNode{n.clone()}}}}
	case 12: // array where an object's value array is expected: object instead
		if n.kind == 'a' {
			*n = hjNode{kind: 'o', keys: []string{"0"}, vals: []*hjNode{n.clone()}}
		}
	case 13: // emptied
		n.keys, n.vals = nil, nil
	}
}

func hostileJSON(r *rng.R, doc []byte, n int) [][]byte {
	root := hjParse(doc)
	if root == nil {
		return nil
	}
	var out [][]byte
	for i := 0; i < n; i++ {
		m := root.clone()
		for k := 1 + r.Intn(3); k > 0; k-- {
			hostileJSONOne(r, m)
		}
		var b bytes.Buffer
		m.write(&b)
		if b.Len() <= 1<<20 {
			out = append(out, b.Bytes())
		}
	}
	switch r.Intn(6) {
	case 0:
		out = append(out, append(append([]byte{}, doc...), doc...))
	case 1:
		out = append(out, append([]byte("\xef\xbb\xbf"), doc...))
	case 2:
		out = append(out, append([]byte(" \n\t"), append(append([]byte{}, doc...), " \n"...)...))
	case 3:
		out = append(out, bytes.ReplaceAll(doc, []byte(`"`), []byte(`'`)))
	case 4:
		out = append(out, bytes.ReplaceAll(doc, []byte(`]`), []byte(``)))
	case 5:
		out = append(out, bytes.ReplaceAll(doc, []byte(`:`), []byte(`:[`)))
	}
	return out
}

// runWideJunk: structures with very many members of which ONE (the first, the middle or the last) is not a
// well-formed item — sizes straddle any "large structure" fast path; generic and typed (inside an opaque payload).
func runWideJunk(ctx *Ctx, env *lexEnv, reqT planTarget) {
	s := getSchema()
	xmlJunk := []string{`<Q/>`, `<Q type="Integer"/>`, `<Q value="1"/>`, `<Foo type="Integer" value="1"/>`, `<TTLV/>`, `<TTLV type="Integer" value="1"/>`,
		`text`, `<!-- c -->`, `<Q type="Integer" value="1"><Q/></Q>`, `<Q type="Foo" value="1"/>`, `<Q type="Structure" value="1"/>`, `<x:Q type="Integer" value="1"/>`}
	jsonJunk := []string{`null`, `1`, `"x"`, `[]`, `[1]`, `{}`, `{"tag":1}`, `{"tag":null,"value":[]}`, `{"type":"Integer","value":1}`, `{"tag":"Q"}`,
		`{"tag":"Q","type":1,"value":1}`, `{"tag":"Q","type":"Integer","value":[1]}`, `{"tag":"Q","value":{"tag":"Q"}}`, `{"tag":["Q"],"type":"Integer","value":1}`, `true`, `1e3`}
	binJunk := [][]byte{
		{0x42, 0x00, 0x73, 0x0B, 0, 0, 0, 0}, {0x42, 0x00, 0x73, 0x00, 0, 0, 0, 0}, {0x42, 0x00, 0x73, 0x02, 0, 0, 0, 0}, {0x42, 0x00, 0x73, 0x04, 0, 0, 0, 0},
		{0x42, 0x00, 0x73, 0x06, 0, 0, 0, 1, 1, 0, 0, 0, 0, 0, 0, 0}, {0x00, 0x00, 0x00, 0x02, 0, 0, 0, 4, 0, 0, 0, 1, 0, 0, 0, 0}, {0x42, 0x00, 0x73, 0x01, 0, 0, 0, 3, 1, 2, 3, 0, 0, 0, 0, 0},
		{0x42, 0x00, 0x73, 0x07, 0xFF, 0xFF, 0xFF, 0xF8}, {0x42, 0x00, 0x73, 0x01, 0, 0, 0, 16, 0x42, 0x00, 0x73, 0x07, 0, 0, 0, 9, 1, 2, 3, 4, 5, 6, 7, 8},
	}
	sizes := []int{3, 64, 1000, 1001, 1025, 4097}
	if ctx.Thor {
		sizes = append(sizes, 255, 256, 257, 16385)
	}
	build := func(codec string, n, pos int, junk []byte) []byte {
		var b bytes.Buffer
		switch codec {
		case "xml":
			b.WriteString("<Q>")
			for i := 0; i < n; i++ {
				if i == pos {
					b.Write(junk)
				} else {
					b.WriteString(`<Q type="Integer" value="1"/>`)
				}
			}
			b.WriteString("</Q>")
		case "json":
			b.WriteString(`{"tag":"Q","value":[`)
			for i := 0; i < n; i++ {
				if i > 0 {
					b.WriteByte(',')
				}
				if i == pos {
					b.Write(junk)
				} else {
					b.WriteString(`{"tag":"Q","type":"Integer","value":1}`)
				}
			}
			b.WriteString(`]}`)
		case "ttlv":
			var body []byte
			for i := 0; i < n; i++ {
				if i == pos {
					body = append(body, junk...)
				} else {
					body = append(body, 0x42, 0x00, 0x73, 0x02, 0, 0, 0, 4, 0, 0, 0, 1, 0, 0, 0, 0)
				}
			}
			l := len(body)
			b.Write([]byte{0x42, 0x00, 0x73, 0x01, byte(l >> 24), byte(l >> 16), byte(l >> 8), byte(l)})
			b.Write(body)
		}
		return b.Bytes()
	}
	for _, n := range sizes {
		for _, pos := range []int{0, n / 2, n - 1} {
			for _, j := range xmlJunk {
				core := build("xml", n, pos, []byte(j))
				if n <= 1025 {
					env.readerCase(ctx, lexXML, core, lexNewHints(), "wide-junk")
				}
				if w := wrapTyped("xml", core); w != nil {
					textDecodeCase(ctx, textCodecs[0], reqT, w, "wide-junk")
				}
			}
			for _, j := range jsonJunk {
				core := build("json", n, pos, []byte(j))
				if n <= 1025 {
					env.readerCase(ctx, lexJSON, core, lexNewHints(), "wide-junk")
				}
				if w := wrapTyped("json", core); w != nil {
					textDecodeCase(ctx, textCodecs[1], reqT, w, "wide-junk")
				}
			}
			for _, j := range binJunk {
				core := build("ttlv", n, pos, j)
				if n <= 64 {
					rdrCase(ctx, core, nil, "wide-junk") // (the list-based slice model is quadratic in the item count)
				} else if n <= 4097 {
					line := "wire.dec " + hexUp(core)
					ctx.current = line
					ctx.Add(line, c02Binary(ctx, line, core), true, "C02")
				} else {
					line := "#wire.dec " + hexUp(core) // too long for the list-based model: oracles only
					ctx.current = line
					ctx.Add(line, c02Binary(ctx, line, core), true, "")
				}
				if w := wrapTyped("ttlv", core); w != nil && n <= 4097 {
					planDecCase(ctx, s, reqT, w, "wide-junk")
				}
			}
		}
	}
}

func runShapes(ctx *Ctx) {
	s := getSchema()
	r := ctx.R
	reqT := planTarget{s.Roots["RequestMessage"], reflect.TypeFor[*kmip.RequestMessage](), 0}
	respT := planTarget{s.Roots["ResponseMessage"], reflect.TypeFor[*kmip.ResponseMessage](), 0}
	env := lexNewEnv()
	n := ctx.N(250, 1200)
	per := ctx.N(6, 10)
	for i := 0; i < n; i++ {
		tg := reqT
		if i%2 == 1 {
			tg = respT
		}
		p := &popCfg{r: r, s: s, fill: i % 3, textMode: 2, respectGating: true}
		x := reflect.New(tg.ty.Elem())
		p.populate(x.Elem())
		for _, c := range textCodecs {
			doc, pn := guard("Marshal", func() []byte { return c.marshal(x.Interface()) })
			if pn != "" {
				continue
			}
			var muts [][]byte
			lc := lexXML
			if c.name == "xml" {
				muts = hostileXML(r, doc, per)
			} else {
				muts, lc = hostileJSON(r, doc, per), lexJSON
			}
			for _, m := range muts {
				textDecodeCase(ctx, c, tg, m, "shaped")
				if len(m) < 200000 {
					env.readerCase(ctx, lc, m, lexNewHints(), "shaped")
				}
			}
		}
	}
	runWideJunk(ctx, env, reqT)
	for _, k := range []string{"text.dec.xml.shaped.err", "text.dec.json.shaped.err", "text.dec.xml.shaped.ok", "text.dec.json.shaped.ok"} {
		if ctx.Res.Distribution[k] < 10 {
			ctx.Res.Fail(fmt.Sprintf("hostile/shapes: class %s has only %d cases", k, ctx.Res.Distribution[k]))
		}
	}
}

// ---------------------------------------------------------------------------------------------------------
// typed: random, framed and spliced bytes into the typed binary targets
// ---------------------------------------------------------------------------------------------------------

// itemSpans lists [start,end) of every item (header + padded value) found by walking declared lengths.
func itemSpans(b []byte) [][2]int {
	var out [][2]int
	var walk func(off, end, depth int)
	walk = func(off, end, depth int) {
		for off+8 <= end && depth < 32 {
			l := int(b[off+4])<<24 | int(b[off+5])<<16 | int(b[off+6])<<8 | int(b[off+7])
			pl := (l + 7) / 8 * 8
			if off+8+pl > end {
				return
			}
			out = append(out, [2]int{off, off + 8 + pl})
			if b[off+3] == 1 {
				walk(off+8, off+8+l, depth+1)
			}
			off += 8 + pl
		}
	}
	walk(0, len(b), 0)
	return out
}

// fixLengths rewrites the length of every enclosing structure of [at, at+old) after its size changed by delta.
func spliceBytes(r *rng.R, a, b []byte, fix bool) []byte {
	sa, sb := itemSpans(a), itemSpans(b)
	if len(sa) == 0 || len(sb) == 0 {
		return nil
	}
	x, y := rng.Pick(r, sa), rng.Pick(r, sb)
	out := append([]byte{}, a[:x[0]]...)
	out = append(out, b[y[0]:y[1]]...)
	out = append(out, a[x[1]:]...)
	if r.Bool() { // keep the tag of the replaced item: the payload of one thing under the tag of another
		copy(out[x[0]:x[0]+3], a[x[0]:x[0]+3])
	}
	if fix {
		delta := (y[1] - y[0]) - (x[1] - x[0])
		for _, sp := range sa {
			if sp[0] < x[0] && sp[1] >= x[1] && a[sp[0]+3] == 1 {
				l := int(a[sp[0]+4])<<24 | int(a[sp[0]+5])<<16 | int(a[sp[0]+6])<<8 | int(a[sp[0]+7])
				l += delta
				if l >= 0 {
					out[sp[0]+4], out[sp[0]+5], out[sp[0]+6], out[sp[0]+7] = byte(l>>24), byte(l>>16), byte(l>>8), byte(l)
				}
			}
		}
	}
	return out
}

func runTyped(ctx *Ctx) {
	s := getSchema()
	r := ctx.R
	reqT := planTarget{s.Roots["RequestMessage"], reflect.TypeFor[*kmip.RequestMessage](), 0}
	respT := planTarget{s.Roots["ResponseMessage"], reflect.TypeFor[*kmip.ResponseMessage](), 0}
	frame := func(tag int, body []byte) []byte {
		for len(body)%8 != 0 {
			body = append(body, 0)
		}
		h := []byte{byte(tag >> 16), byte(tag >> 8), byte(tag), 1, byte(len(body) >> 24), byte(len(body) >> 16), byte(len(body) >> 8), byte(len(body))}
		return append(h, body...)
	}
	// random bytes, and random items inside a correct outer frame
	n := ctx.N(300, 8000)
	for i := 0; i < n; i++ {
		tg := reqT
		if i%2 == 1 {
			tg = respT
		}
		planDecCase(ctx, s, tg, r.Bytes(r.Intn(64)), "random")
		var body []byte
		for k := r.Intn(4); k >= 0; k-- {
			body = append(body, tree.Gen(r, tree.GenOpts{MaxDepth: 3, MaxChildren: 4, MaxData: 20, MaxBigBits: 100}, 0).Encode()...)
		}
		tag := kmip.TagRequestMessage
		if tg == respT {
			tag = kmip.TagResponseMessage
		}
		planDecCase(ctx, s, tg, frame(tag, body), "framed")
		planDecCase(ctx, s, tg, frame(tag, r.Bytes(8*r.Intn(6))), "framed-random")
	}
	// splices of two valid messages
	var pool [][]byte
	var pooltg []planTarget
	for i := 0; i < ctx.N(40, 400); i++ {
		tg := reqT
		if i%2 == 1 {
			tg = respT
		}
		p := &popCfg{r: r, s: s, fill: 1 + i%2, respectGating: true}
		x := reflect.New(tg.ty.Elem())
		p.populate(x.Elem())
		if b, pn := guard("MarshalTTLV", func() []byte { return ttlv.MarshalTTLV(x.Interface()) }); pn == "" {
			pool, pooltg = append(pool, b), append(pooltg, tg)
		}
	}
	for i := 0; i < ctx.N(400, 12000) && len(pool) > 1; i++ {
		a, b := r.Intn(len(pool)), r.Intn(len(pool))
		if m := spliceBytes(r, pool[a], pool[b], i%3 != 0); m != nil && len(m) < 1<<16 {
			planDecCase(ctx, s, pooltg[a], m, "spliced")
		}
	}
	// the encoding of one standalone type decoded into another one (under the target's own tag)
	ids := make([]int, 0, len(dynTypes))
	for id, ty := range dynTypes {
		if ty != tValue && (ty.Kind() == reflect.Pointer || ty.Kind() == reflect.Struct) {
			ids = append(ids, id)
		}
	}
	sortInts(ids)
	encs := map[int][]byte{}
	for _, id := range ids {
		ty := dynTypes[id]
		p := &popCfg{r: r, s: s, fill: 2, respectGating: true}
		var x reflect.Value
		if ty.Kind() == reflect.Pointer {
			x = reflect.New(ty.Elem())
			p.populate(x.Elem())
		} else {
			px := reflect.New(ty)
			p.populate(px.Elem())
			x = px.Elem()
		}
		tag := s.Dyns[id].DefTag
		if tag == 0 {
			tag = kmip.TagRequestPayload
		}
		if _, b := marshalGuard(x.Interface(), tag); b != nil {
			encs[id] = b
		}
	}
	for k := 0; k < ctx.N(300, 6000) && len(ids) > 1; k++ {
		src, dst := rng.Pick(r, ids), rng.Pick(r, ids)
		b, ok := encs[src]
		if !ok || len(b) < 8 {
			continue
		}
		tag := s.Dyns[dst].DefTag
		if tag == 0 {
			tag = kmip.TagRequestPayload
		}
		m := append([]byte{}, b...)
		m[0], m[1], m[2] = byte(tag>>16), byte(tag>>8), byte(tag)
		planDecCase(ctx, s, planTarget{dst, dynTypes[dst], tag}, m, "cross-type")
		if k%4 == 0 {
			for _, mm := range mutate(r, m)[:3] {
				planDecCase(ctx, s, planTarget{dst, dynTypes[dst], tag}, mm, "cross-type-mutated")
			}
		}
	}
	for _, k := range []string{"plan.dec.spliced.ok", "plan.dec.spliced.err", "plan.dec.cross-type.err", "plan.dec.framed.err", "plan.dec.random.err"} {
		if ctx.Res.Distribution[k] < 10 {
			ctx.Res.Fail(fmt.Sprintf("hostile/typed: class %s has only %d cases", k, ctx.Res.Distribution[k]))
		}
	}
}

// ---------------------------------------------------------------------------------------------------------
// deep: child process
// ---------------------------------------------------------------------------------------------------------

// deepSpec: "<codec> <target> <shape> <n>"  codec ttlv|xml|json, target value|req|recv|http, shape nest|open|wide|attrs
type deepSpec struct {
	codec, target, shape string
	n                    int
}

func (d deepSpec) String() string {
	return fmt.Sprintf("%s %s %s %d", d.codec, d.target, d.shape, d.n)
}

func parseDeepSpec(s string) (deepSpec, bool) {
	f := strings.Fields(s)
	if len(f) != 4 {
		return deepSpec{}, false
	}
	n, err := strconv.Atoi(f[3])
	if err != nil || n < 0 || n > 1<<22 {
		return deepSpec{}, false
	}
	return deepSpec{f[0], f[1], f[2], n}, true
}

// deepDoc builds the document of a spec. Tag "Q" (0x420073) is a registered tag with a one-letter name.
func deepDoc(d deepSpec) []byte {
	var core []byte
	switch d.codec {
	case "ttlv":
		switch d.shape {
		case "nest", "open":
			// n structures inside one another around one Integer; "open": the innermost announces more than it has
			inner := []byte{0x42, 0x00, 0x73, 0x02, 0, 0, 0, 4, 0, 0, 0, 7, 0, 0, 0, 0}
			if d.shape == "open" {
				inner = []byte{0x42, 0x00, 0x73, 0x01, 0, 0, 0, 8}
			}
			core = make([]byte, 0, 8*d.n+len(inner))
			for i := 0; i < d.n; i++ {
				l := 8*(d.n-1-i) + len(inner)
				core = append(core, 0x42, 0x00, 0x73, 0x01, byte(l>>24), byte(l>>16), byte(l>>8), byte(l))
			}
			core = append(core, inner...)
		case "wide", "attrs":
			// one structure with n empty text strings / n empty structures
			ty := byte(7)
			if d.shape == "attrs" {
				ty = 1
			}
			l := 8 * d.n
			core = append(core, 0x42, 0x00, 0x73, 0x01, byte(l>>24), byte(l>>16), byte(l>>8), byte(l))
			for i := 0; i < d.n; i++ {
				core = append(core, 0x42, 0x00, 0x73, ty, 0, 0, 0, 0)
			}
		}
	case "xml":
		var b bytes.Buffer
		switch d.shape {
		case "nest":
			b.WriteString(strings.Repeat("<Q>", d.n))
			b.WriteString(`<Q type="Integer" value="7"/>`)
			b.WriteString(strings.Repeat("</Q>", d.n))
		case "open":
			b.WriteString(strings.Repeat("<Q>", d.n))
		case "wide":
			b.WriteString("<Q>")
			b.WriteString(strings.Repeat(`<Q type="TextString" value=""/>`, d.n))
			b.WriteString("</Q>")
		case "attrs":
			b.WriteString(`<Q`)
			for i := 0; i < d.n; i++ {
				fmt.Fprintf(&b, ` a%d="v"`, i)
			}
			b.WriteString(` type="Integer" value="7"/>`)
		}
		core = b.Bytes()
	case "json":
		var b bytes.Buffer
		switch d.shape {
		case "nest":
			b.WriteString(strings.Repeat(`{"tag":"Q","value":[`, d.n))
			b.WriteString(`{"tag":"Q","type":"Integer","value":7}`)
			b.WriteString(strings.Repeat(`]}`, d.n))
		case "open":
			b.WriteString(strings.Repeat(`{"tag":"Q","value":[`, d.n))
		case "wide":
			b.WriteString(`{"tag":"Q","value":[`)
			for i := 0; i < d.n; i++ {
				if i > 0 {
					b.WriteByte(',')
				}
				b.WriteString(`{"tag":"Q","type":"TextString","value":""}`)
			}
			b.WriteString(`]}`)
		case "attrs":
			b.WriteString(`{"tag":"Q","type":"Integer","value":7`)
			for i := 0; i < d.n; i++ {
				fmt.Fprintf(&b, `,"k%d":[[]]`, i)
			}
			b.WriteString(`}`)
		}
		core = b.Bytes()
	}
	if d.target == "value" || d.target == "recv" {
		return core
	}
	return wrapTyped(d.codec, core)
}

// wrapTyped places a generic document as the single field of the payload of an operation unknown to the library
// inside a well-formed RequestMessage (so that it is decoded generically INSIDE the typed decoder). nil = failed.
func wrapTyped(codec string, core []byte) []byte {
	const tagQ = 0x420073 // (any registered tag; only used for the marker item)
	marker := "@@DEEP@@"
	msg := &kmip.RequestMessage{
		Header: kmip.RequestHeader{ProtocolVersion: kmip.V1_4, BatchCount: 1},
		BatchItem: []kmip.RequestBatchItem{{Operation: kmip.Operation(0x55), RequestPayload: kmip.NewUnknownPayload(kmip.Operation(0x55),
			ttlv.Value{Tag: tagQ, Value: marker})}},
	}
	switch codec {
	case "ttlv":
		w := ttlv.MarshalTTLV(msg)
		// the marker item: header(8) + 8 bytes of text
		pat := append([]byte{0x42, 0x00, 0x73, 0x07, 0, 0, 0, 8}, marker...)
		i := bytes.Index(w, pat)
		if i < 0 {
			return nil
		}
		out := append([]byte{}, w[:i]...)
		out = append(out, core...)
		out = append(out, w[i+len(pat):]...)
		// fix the lengths of the enclosing structures (RequestMessage, BatchItem, RequestPayload)
		delta := len(core) - len(pat)
		for _, sp := range itemSpans(w) {
			if sp[0] < i && sp[1] >= i+len(pat) && w[sp[0]+3] == 1 {
				l := int(w[sp[0]+4])<<24 | int(w[sp[0]+5])<<16 | int(w[sp[0]+6])<<8 | int(w[sp[0]+7])
				l += delta
				out[sp[0]+4], out[sp[0]+5], out[sp[0]+6], out[sp[0]+7] = byte(l>>24), byte(l>>16), byte(l>>8), byte(l)
			}
		}
		return out
	case "xml":
		// replace the element carrying the marker (whatever the library's layout of it is)
		w := ttlv.MarshalXML(msg)
		if i := bytes.Index(w, []byte(marker)); i >= 0 {
			lo := bytes.LastIndexByte(w[:i], '<')
			hi := bytes.Index(w[i:], []byte("/>"))
			if lo >= 0 && hi >= 0 {
				return append(append(append([]byte{}, w[:lo]...), core...), w[i+hi+2:]...)
			}
		}
	case "json":
		w := ttlv.MarshalJSON(msg)
		if i := bytes.Index(w, []byte(marker)); i >= 0 {
			lo := bytes.LastIndexByte(w[:i], '{')
			hi := bytes.IndexByte(w[i:], '}')
			if lo >= 0 && hi >= 0 {
				return append(append(append([]byte{}, w[:lo]...), core...), w[i+hi+1:]...)
			}
		}
	}
	return nil
}

type nopRWC struct{ io.Reader }

func (nopRWC) Write(p []byte) (int, error) { return len(p), nil }
func (nopRWC) Close() error                { return nil }

func deepRun(d deepSpec) (res string) {
	doc := deepDoc(d)
	if doc == nil {
		return "bad-spec wrapper"
	}
	defer func() {
		if r := recover(); r != nil {
			res = "panic " + panicKey(fmt.Sprint(r))
		}
	}()
	var unmarshal func([]byte, any) error
	ct := ""
	switch d.codec {
	case "ttlv":
		unmarshal, ct = ttlv.UnmarshalTTLV, "application/octet-stream"
	case "xml":
		unmarshal, ct = ttlv.UnmarshalXML, "text/xml"
	case "json":
		unmarshal, ct = ttlv.UnmarshalJSON, "application/json"
	default:
		return "bad-spec"
	}
	var err error
	switch d.target {
	case "value":
		var v ttlv.Value
		err = unmarshal(doc, &v)
	case "req":
		var m kmip.RequestMessage
		err = unmarshal(doc, &m)
	case "recv":
		st := ttlv.NewStream(nopRWC{bytes.NewReader(doc)}, 1<<20)
		var v ttlv.Value
		err = st.Recv(&v)
	case "http":
		h := &httpRec{}
		req := httptest.NewRequest("POST", "http://kmip.test/kmip", bytes.NewReader(doc))
		req.Header = http.Header{"Content-Type": {ct}, "Content-Length": {strconv.Itoa(len(doc))}}
		rec := httptest.NewRecorder()
		kmipserver.NewHTTPHandler(h).ServeHTTP(rec, req)
		return fmt.Sprintf("http %d calls=%d len=%d", rec.Code, h.calls, len(doc))
	default:
		return "bad-spec"
	}
	if err != nil {
		return fmt.Sprintf("err len=%d", len(doc))
	}
	return fmt.Sprintf("ok len=%d", len(doc))
}

func hostileChildMain() {
	out := bufio.NewWriter(os.Stdout)
	sc := bufio.NewScanner(os.Stdin)
	sc.Buffer(make([]byte, 1<<16), 1<<23)
	for sc.Scan() {
		if a := loopChild(sc.Text()); a != nil {
			fmt.Fprintln(out, *a)
			out.Flush()
			continue
		}
		if a := concChild(sc.Text()); a != nil {
			fmt.Fprintln(out, *a)
			out.Flush()
			continue
		}
		d, ok := parseDeepSpec(sc.Text())
		if !ok {
			fmt.Fprintln(out, "bad-spec")
			out.Flush()
			continue
		}
		t0 := time.Now()
		res := deepRun(d)
		fmt.Fprintf(out, "%s ms=%d\n", res, time.Since(t0).Milliseconds())
		out.Flush()
	}
}

type deepChild struct {
	cmd    *exec.Cmd
	in     io.WriteCloser
	out    *bufio.Reader
	stderr *bytes.Buffer
}

func startDeepChild() (*deepChild, error) {
	bin, err := os.Executable()
	if err != nil {
		return nil, err
	}
	return startDeepChildOf(bin, nil)
}

func startDeepChildOf(bin string, extraEnv []string) (*deepChild, error) {
	cmd := exec.Command(bin)
	cmd.Env = append(append(os.Environ(), hostileChildEnv+"=deep"), extraEnv...)
	in, err := cmd.StdinPipe()
	if err != nil {
		return nil, err
	}
	outp, err := cmd.StdoutPipe()
	if err != nil {
		return nil, err
	}
	c := &deepChild{cmd: cmd, in: in, out: bufio.NewReader(outp), stderr: &bytes.Buffer{}}
	cmd.Stderr = c.stderr
	if err := cmd.Start(); err != nil {
		return nil, err
	}
	return c, nil
}

func (c *deepChild) stop() {
	_ = c.in.Close()
	_ = c.cmd.Process.Kill()
	_ = c.cmd.Wait()
}

// ask: the answer line, or crashed=true (the child died), or hung=true (no answer within the limit).
func (c *deepChild) ask(spec string, limit time.Duration) (ans string, crashed, hung bool) {
	if _, err := io.WriteString(c.in, spec+"\n"); err != nil {
		return "", true, false
	}
	type rd struct {
		s   string
		err error
	}
	ch := make(chan rd, 1)
	go func() {
		s, err := c.out.ReadString('\n')
		ch <- rd{s, err}
	}()
	select {
	case r := <-ch:
		if r.err != nil {
			_ = c.cmd.Wait()
			return "", true, false
		}
		return strings.TrimSpace(r.s), false, false
	case <-time.After(limit):
		return "", false, true
	}
}

func deepSpecs(thor bool) []deepSpec {
	var out []deepSpec
	add := func(codec, target, shape string, ns ...int) {
		for _, n := range ns {
			out = append(out, deepSpec{codec, target, shape, n})
		}
	}
	// binary: 8 bytes per level; 131 071 levels + the 16-byte leaf = 1 MiB
	add("ttlv", "value", "nest", 1000, 10000, 131070)
	add("ttlv", "value", "open", 1000, 131071)
	add("ttlv", "recv", "nest", 10000, 131069)
	add("ttlv", "req", "nest", 1000, 130000)
	add("ttlv", "http", "nest", 10000, 131000)
	add("ttlv", "value", "wide", 131071)
	add("ttlv", "value", "attrs", 131071)
	add("ttlv", "req", "attrs", 130000)
	// XML: <Q>…</Q> is 7 bytes per level: 149 000 levels fit 1 MiB
	add("xml", "value", "nest", 1000, 10000, 149000)
	add("xml", "value", "open", 1000, 149000, 349000)
	add("xml", "req", "nest", 1000, 149000)
	add("xml", "req", "open", 149000)
	add("xml", "http", "nest", 10000, 149000)
	add("xml", "http", "open", 340000)
	add("xml", "value", "wide", 30000)
	add("xml", "value", "attrs", 3000, 100000)
	add("xml", "req", "attrs", 100000)
	// JSON: 22 bytes per level: 47 000 levels fit 1 MiB (encoding/json refuses more than 10 000 itself)
	// (each level is an object and an array: encoding/json's limit of 10 000 nestings is reached at 5 000 levels)
	add("json", "value", "nest", 1000, 4990, 5010, 47000)
	add("json", "value", "open", 1000, 47000)
	add("json", "req", "nest", 1000, 4900, 47000)
	add("json", "http", "nest", 4900, 47000)
	add("json", "value", "wide", 24000)
	add("json", "value", "attrs", 100000)
	add("json", "req", "attrs", 100000)
	if thor {
		add("ttlv", "value", "nest", 2, 17, 300, 65535, 65536, 100000, 400000, 1000000)
		add("ttlv", "req", "nest", 65536, 400000)
		add("xml", "value", "nest", 65536, 400000, 1000000)
		add("xml", "req", "nest", 400000)
		add("json", "req", "nest", 4990, 5010, 100000)
		add("json", "value", "nest", 400000)
		add("xml", "value", "wide", 200000)
		add("json", "value", "wide", 200000)
	}
	return out
}

func runDeep(ctx *Ctx, specs []deepSpec) {
	limit := 60 * time.Second
	if v, err := strconv.Atoi(os.Getenv("VERIF_HANG_S")); err == nil && v > 0 {
		limit = time.Duration(2*v) * time.Second
	}
	var child *deepChild
	defer func() {
		if child != nil {
			child.stop()
		}
	}()
	for _, d := range specs {
		line := "#deep " + d.String()
		ctx.current = line
		if child == nil {
			c, err := startDeepChild()
			if err != nil {
				ctx.Res.Fail("hostile/deep: cannot start the child process: " + err.Error())
				return
			}
			child = c
		}
		ans, crashed, hung := child.ask(d.String(), limit)
		key := fmt.Sprintf("deep:%s:%s:%s", d.codec, d.target, d.shape)
		outcome := strings.SplitN(ans, " ", 2)[0]
		switch {
		case crashed:
			outcome = "crash"
			tail := child.stderr.String()
			first := strings.SplitN(tail, "\n", 3)
			head := strings.Join(first[:min(len(first), 2)], " | ")
			hostileViolate(ctx, "no-crash", key+":process-crash", fmt.Sprintf("the process died while decoding (%d levels/items): %s", d.n, truncate(head, 300)), line)
			child.stop()
			child = nil
		case hung:
			outcome = "hang"
			hostileViolate(ctx, "returns-normally", key+":no-answer", fmt.Sprintf("no answer after %s (%d levels/items)", limit, d.n), line)
			child.stop()
			child = nil
		case outcome == "panic":
			msg := ans
			if i := strings.LastIndex(msg, " ms="); i >= 0 {
				msg = msg[:i]
			}
			hostileViolate(ctx, "no-panic", key+":"+msg, fmt.Sprintf("decoder panicked (%d levels/items): %s", d.n, msg), line)
		case outcome == "bad-spec":
			ctx.Res.Fail("hostile/deep: child rejected spec " + d.String())
		}
		ctx.Add(line, outcome, true, "")
		ctx.Res.Count("deep." + d.codec + "." + d.target + "." + outcome)
		if i := strings.Index(ans, "ms="); i >= 0 {
			if ms, err := strconv.Atoi(ans[i+3:]); err == nil && ms > 5000 {
				ctx.Res.Count("deep.slow>5s")
			}
		}
	}
}

// ---------------------------------------------------------------------------------------------------------
// arch32
// ---------------------------------------------------------------------------------------------------------

func harnessModDir() string {
	if d := os.Getenv("VERIF_GO_DIR"); d != "" {
		return d
	}
	if wd, err := os.Getwd(); err == nil {
		if _, err := os.Stat(filepath.Join(wd, "cmd", "probe32", "main.go")); err == nil {
			return wd
		}
	}
	if _, file, _, ok := runtime.Caller(0); ok && filepath.IsAbs(file) {
		return filepath.Dir(filepath.Dir(filepath.Dir(file)))
	}
	return ""
}

// buildProbe32 builds cmd/probe32 for GOARCH=386 with the environment of this run (so a `-overlay` in GOFLAGS
// applies to it as well) and checks that the platform executes it. note != "" means "skipped because …".
func buildProbe32() (bin string, cleanup func(), note string) {
	dir := harnessModDir()
	if dir == "" {
		return "", nil, "module-dir-unknown"
	}
	if _, err := exec.LookPath("go"); err != nil {
		return "", nil, "no-go-toolchain"
	}
	tmp, err := os.MkdirTemp("", "probe32-")
	if err != nil {
		return "", nil, "no-temp-dir"
	}
	cleanup = func() { _ = os.RemoveAll(tmp) }
	bin = filepath.Join(tmp, "probe32")
	cmd := exec.Command("go", "build", "-o", bin, "./cmd/probe32")
	cmd.Dir = dir
	env := []string{}
	for _, kv := range os.Environ() {
		if !strings.HasPrefix(kv, "GOARCH=") && !strings.HasPrefix(kv, "CGO_ENABLED=") && !strings.HasPrefix(kv, "GOOS=") {
			env = append(env, kv)
		}
	}
	cmd.Env = append(env, "GOARCH=386", "CGO_ENABLED=0")
	if b, err := cmd.CombinedOutput(); err != nil {
		cleanup()
		return "", nil, "build-failed: " + truncate(strings.TrimSpace(string(b)), 200)
	}
	// can this kernel execute it?
	probe := exec.Command(bin)
	probe.Stdin = strings.NewReader("")
	ob, err := probe.Output()
	if err != nil || !strings.HasPrefix(string(ob), "probe32 386 intbits=32") {
		cleanup()
		return "", nil, "cannot-execute-386-binaries"
	}
	return bin, cleanup, ""
}

type arch32Case struct {
	kind string
	in   []byte
}

func arch32Corpus(ctx *Ctx) []arch32Case {
	r := ctx.R
	var out []arch32Case
	hdr := func(tag int, ty byte, l uint32) []byte {
		return []byte{byte(tag >> 16), byte(tag >> 8), byte(tag), ty, byte(l >> 24), byte(l >> 16), byte(l >> 8), byte(l)}
	}
	// lengths at which a 32-bit int, the padding arithmetic or "8 + padded" wraps
	lens := []uint32{0x7FFFFFE8, 0x7FFFFFF0, 0x7FFFFFF7, 0x7FFFFFF8, 0x7FFFFFF9, 0x7FFFFFFF, 0x80000000, 0x80000001, 0x80000008,
		0xC0000000, 0xFFFFFFF0, 0xFFFFFFF7, 0xFFFFFFF8, 0xFFFFFFF9, 0xFFFFFFFC, 0xFFFFFFFF}
	tails := [][]byte{nil, {1, 2, 3, 4, 5, 6, 7, 8}, bytes.Repeat([]byte{0}, 24)}
	for _, l := range lens {
		for ty := byte(1); ty <= 10; ty++ {
			for ti, tail := range tails {
				top := append(hdr(0x420078, ty, l), tail...)
				kinds := []string{"gen", "recvS"}
				if l >= 0x7FFFFFF1 {
					// kmipclient's unlimited stream: only where "8 + padded length" no longer fits 31 bits — below
					// that an unlimited stream simply allocates what the peer announces, on any platform
					kinds = append(kinds, "recvC")
				}
				if ty == 1 {
					kinds = append(kinds, "req", "resp")
				}
				for _, k := range kinds {
					out = append(out, arch32Case{k, top})
				}
				if ti == 0 {
					continue
				}
				// the same item as first child of a well-framed structure / request message
				body := top
				for len(body)%8 != 0 {
					body = append(body, 0)
				}
				for _, tag := range []int{0x420078, 0x42007B} {
					m := append(hdr(tag, 1, uint32(len(body))), body...)
					out = append(out, arch32Case{"gen", m}, arch32Case{"recvS", m}, arch32Case{"req", m}, arch32Case{"resp", m})
				}
			}
		}
	}
	for _, b := range corpusBinary() {
		out = append(out, arch32Case{"gen", b}, arch32Case{"req", b}, arch32Case{"recvS", b})
	}
	// a sample of the ordinary malformed stream: the 32-bit build must not panic where the 64-bit one does not
	s := getSchema()
	reqTy := reflect.TypeFor[*kmip.RequestMessage]()
	respTy := reflect.TypeFor[*kmip.ResponseMessage]()
	for i := 0; i < ctx.N(40, 600); i++ {
		ty, kind := reqTy, "req"
		if i%2 == 1 {
			ty, kind = respTy, "resp"
		}
		p := &popCfg{r: r, s: s, fill: i % 3, textMode: 2, respectGating: true}
		x := reflect.New(ty.Elem())
		p.populate(x.Elem())
		b, pn := guard("MarshalTTLV", func() []byte { return ttlv.MarshalTTLV(x.Interface()) })
		if pn != "" || len(b) > 1<<16 {
			continue
		}
		out = append(out, arch32Case{kind, b}, arch32Case{"gen", b}, arch32Case{"recvS", b})
		for _, m := range mutate(r, b) {
			// the "huge length" mutation sets the top byte to 0x7F / 0xBF / 0xFF: exactly the interesting range
			out = append(out, arch32Case{kind, m}, arch32Case{"gen", m})
		}
		if xd, pn := guard("MarshalXML", func() []byte { return ttlv.MarshalXML(x.Interface()) }); pn == "" {
			out = append(out, arch32Case{"x" + kind, xd})
			for _, m := range mutateXML(r, xd) {
				out = append(out, arch32Case{"x" + kind, m})
			}
		}
		if jd, pn := guard("MarshalJSON", func() []byte { return ttlv.MarshalJSON(x.Interface()) }); pn == "" {
			out = append(out, arch32Case{"j" + kind, jd})
			for _, m := range mutateJSON(r, jd) {
				out = append(out, arch32Case{"j" + kind, m})
			}
		}
	}
	// numeric literals around the 32-bit limits in the text encodings
	for _, n := range []string{"2147483647", "2147483648", "-2147483648", "-2147483649", "4294967295", "4294967296", "9223372036854775807", "9223372036854775808", "0x7FFFFFFF", "0x80000000", "0xFFFFFFFF", "0x100000000"} {
		for _, ty := range []string{"Integer", "LongInteger", "Enumeration", "Interval", "BigInteger", "DateTime"} {
			out = append(out, arch32Case{"xgen", []byte(fmt.Sprintf(`<Q type="%s" value="%s"/>`, ty, n))})
			out = append(out, arch32Case{"jgen", []byte(fmt.Sprintf(`{"tag":"Q","type":"%s","value":"%s"}`, ty, n))})
			if !strings.HasPrefix(n, "0x") {
				out = append(out, arch32Case{"jgen", []byte(fmt.Sprintf(`{"tag":"Q","type":"%s","value":%s}`, ty, n))})
			}
		}
		out = append(out, arch32Case{"xgen", []byte(fmt.Sprintf(`<TTLV tag="%s" type="Integer" value="1"/>`, n))})
	}
	return out
}

func runArch32(ctx *Ctx, replay []arch32Case) {
	bin, cleanup, note := buildProbe32()
	if note != "" {
		// nothing to observe on this platform: recorded, never an alarm — except when the toolchain is there and the
		// probe does not compile against the library (API changed): that is a broken harness, as for the harness itself
		ctx.Res.Count("arch32.skipped:" + strings.SplitN(note, ":", 2)[0])
		ctx.Add("#arch32-skipped "+note, "skipped", false, "")
		if strings.HasPrefix(note, "build-failed") && !strings.Contains(note, "unsupported GOOS/GOARCH") {
			ctx.Res.Fail("hostile/arch32: cmd/probe32 does not build for GOARCH=386: " + note)
		}
		return
	}
	defer cleanup()
	cases := replay
	if cases == nil {
		cases = arch32Corpus(ctx)
	}
	crashes := 0
	for len(cases) > 0 {
		var in bytes.Buffer
		for _, c := range cases {
			fmt.Fprintf(&in, "%s %s\n", c.kind, hexUp(c.in))
		}
		var stderr bytes.Buffer
		cctx, cancel := context.WithTimeout(context.Background(), 10*time.Minute)
		cmd := exec.CommandContext(cctx, bin)
		cmd.Stdin, cmd.Stderr = &in, &stderr
		ob, err := cmd.Output()
		timedOut := cctx.Err() != nil
		cancel()
		lines := strings.Split(strings.TrimSpace(string(ob)), "\n")
		if len(lines) > 0 && strings.HasPrefix(lines[0], "probe32 ") {
			lines = lines[1:]
		}
		done := 0
		for i, c := range cases {
			line := fmt.Sprintf("#arch32 %s %s", c.kind, hexUp(c.in))
			ctx.current = line
			if i >= len(lines) {
				// the probe died (fatal error) or was killed while working on this input
				why := "the 386 build died"
				if timedOut {
					why = "the 386 build did not finish"
				}
				first := strings.SplitN(stderr.String(), "\n", 2)[0]
				hostileViolate(ctx, "no-crash", "arch32:process-crash", fmt.Sprintf("%s on this input (%v): %s", why, err, truncate(first, 300)), line)
				ctx.Add(line, "crash", true, "")
				ctx.Res.Count("arch32." + c.kind + ".crash")
				crashes++
				done = i + 1
				break
			}
			ans := lines[i]
			outcome := strings.SplitN(ans, " ", 2)[0]
			if outcome == "panic" {
				hostileViolate(ctx, "no-panic", "arch32:"+panicKey(ans), "built for GOARCH=386 (32-bit int) the decoder panics: "+ans, line)
			}
			ctx.Add(line, outcome, true, "")
			if c.kind == "gen" && len(c.in) <= 1<<16 {
				// the slice-level model with a 32-bit int and the 64-bit validate (what the library is since e776a13):
				// same outcome class as the 386 build
				ctx.Add("rdr.cls32w "+hexUp(c.in), outcome, true, "C02")
			}
			ctx.Res.Count("arch32." + c.kind + "." + outcome)
			done = i + 1
		}
		cases = cases[done:]
		if crashes > 8 {
			ctx.Res.Count("arch32.abandoned-after-crashes")
			break
		}
	}
	ctx.Res.Count("arch32.ran")
}

// ---------------------------------------------------------------------------------------------------------
// rdr: the slice-level Lean model of ttlvReader (explicit slice bounds, capacity, int width) against the real reader
// ---------------------------------------------------------------------------------------------------------

func rdrCase(ctx *Ctx, b, junk []byte, origin string) {
	line := "rdr.dec " + hexUp(b)
	buf := make([]byte, len(b), len(b)+len(junk))
	copy(buf, b)
	if junk != nil {
		line = "rdr.decj " + hexUp(b) + " " + hexUp(junk)
		copy(buf[len(b):cap(buf)], junk)
	}
	ctx.current = line
	impl, _ := decodeGeneric(buf)
	if strings.HasPrefix(impl, "panic") {
		hostileViolate(ctx, "no-panic", "binary:"+impl, "ttlv.UnmarshalTTLV panicked: "+impl, line)
	}
	ctx.Add(line, impl, true, "C02")
	ctx.Res.Count("rdr." + origin + "." + strings.SplitN(impl, " ", 2)[0])
}

func runRdr(ctx *Ctx) {
	r := ctx.R
	for _, b := range corpusBinary() {
		rdrCase(ctx, b, nil, "corpus")
		rdrCase(ctx, b, []byte{0x42, 0x00, 0x01, 0x07, 0x00, 0x00, 0x00, 0x08, 1, 2, 3, 4, 5, 6, 7, 8}, "corpus")
	}
	// the length fields at which a narrower int would wrap (on this platform: plain errors)
	for _, l := range []uint32{0x7FFFFFF0, 0x7FFFFFF8, 0x7FFFFFFF, 0x80000000, 0xFFFFFFF8, 0xFFFFFFF9, 0xFFFFFFFF} {
		for ty := byte(1); ty <= 10; ty++ {
			h := []byte{0x42, 0x00, 0x78, ty, byte(l >> 24), byte(l >> 16), byte(l >> 8), byte(l), 1, 2, 3, 4, 5, 6, 7, 8}
			rdrCase(ctx, h[:8], nil, "wrap")
			rdrCase(ctx, h, nil, "wrap")
			rdrCase(ctx, append([]byte{0x42, 0x00, 0x78, 1, 0, 0, 0, 16}, h...), nil, "wrap")
		}
	}
	n := ctx.N(400, 12000)
	for i := 0; i < n; i++ {
		opts := tree.GenOpts{MaxDepth: 5, MaxChildren: 5, MaxData: 30, MaxBigBits: 200}
		if i%40 == 39 {
			opts = tree.GenOpts{MaxDepth: 12, MaxChildren: 3, MaxData: 200, MaxBigBits: 2048}
		}
		enc := tree.Gen(r, opts, 0).Encode()
		if len(enc) > 4096 {
			continue
		}
		rdrCase(ctx, enc, nil, "valid")
		for k, m := range mutate(r, enc) {
			if k%2 == 0 {
				rdrCase(ctx, m, nil, "mutated")
			} else {
				// what lies behind the input within capacity: the continuation the mutation cut off, or noise
				rdrCase(ctx, m, r.Bytes(1+r.Intn(24)), "mutated-junk")
			}
		}
		if cut := r.Intn(len(enc) + 1); cut < len(enc) {
			rdrCase(ctx, enc[:cut], enc[cut:], "truncated-rest-in-capacity")
		}
	}
	for _, k := range []string{"rdr.mutated.err", "rdr.mutated-junk.err", "rdr.truncated-rest-in-capacity.err", "rdr.valid.ok"} {
		if ctx.Res.Distribution[k] < 10 {
			ctx.Res.Fail(fmt.Sprintf("hostile/rdr: class %s has only %d cases", k, ctx.Res.Distribution[k]))
		}
	}
}

// ---------------------------------------------------------------------------------------------------------

func runHostile(ctx *Ctx) {
	// every protocol line of this engine (rdr.dec/decj, plan.dec, lex.xmlr/jsonr, wire.dec) is answered by a pure
	// function of the line: the model side (2/3 of the engine's time, a few very long documents) is spread over
	// several model processes
	model.Workers = max(1, min(6, runtime.NumCPU()/2))
	if len(ctx.Replay) > 0 {
		var a32 []arch32Case
		var deep []deepSpec
		var loops []loopCase
		var concs []concSpec
		for _, l := range ctx.Replay {
			switch {
			case strings.HasPrefix(l, "#conc "):
				if c, ok := parseConcSpec(strings.TrimPrefix(l, "#")); ok {
					concs = append(concs, c)
				}
			case strings.HasPrefix(l, "#http "):
				if sp, ok := parseHTTPSpec(l); ok {
					httpCase(ctx, sp, "replay")
				}
			case strings.HasPrefix(l, "#loop "):
				if f := strings.Fields(l); len(f) == 3 {
					if b, err := hexDecode(f[2]); err == nil {
						loops = append(loops, loopCase{f[1], b, ""})
					}
				}
			case strings.HasPrefix(l, "#deep "):
				if d, ok := parseDeepSpec(strings.TrimPrefix(l, "#deep ")); ok {
					deep = append(deep, d)
				}
			case strings.HasPrefix(l, "rdr.dec "), strings.HasPrefix(l, "rdr.decj "):
				f := strings.Fields(l)
				if b, err := hexDecode(f[1]); err == nil {
					var junk []byte
					if len(f) == 3 {
						junk, _ = hexDecode(f[2])
					}
					rdrCase(ctx, b, junk, "replay")
				}
			case strings.HasPrefix(l, "#extent "):
				replayExtent(ctx, l)
			case strings.HasPrefix(l, "#repeat "):
				replayRepeat(ctx, l)
			case strings.HasPrefix(l, "#arch32 "):
				f := strings.Fields(l)
				if len(f) == 3 {
					if b, err := hexDecode(f[2]); err == nil {
						a32 = append(a32, arch32Case{f[1], b})
					}
				}
			}
		}
		if len(deep) > 0 {
			runDeep(ctx, deep)
		}
		if len(loops) > 0 {
			runLoops(ctx, loops)
		}
		if len(a32) > 0 {
			runArch32(ctx, a32)
		}
		if len(concs) > 0 {
			runConc(ctx, concs)
		}
		return
	}
	phase := func(name string, f func()) {
		t0 := time.Now()
		f()
		if os.Getenv("VERIF_PHASE_T") != "" {
			fmt.Fprintf(os.Stderr, "hostile phase %-7s %6.1fs cases=%d\n", name, time.Since(t0).Seconds(), len(ctx.cases))
		}
	}
	phase("rdr", func() { runRdr(ctx) })
	phase("http", func() { runHTTP(ctx) })
	phase("shapes", func() { runShapes(ctx) })
	phase("typed", func() { runTyped(ctx) })
	phase("deep", func() { runDeep(ctx, deepSpecs(ctx.Thor)) })
	phase("loop", func() { runLoops(ctx, nil) })
	phase("arch32", func() { runArch32(ctx, nil) })
	// the two phases of hostile_extent.go come last: they draw from ctx.R and leave the streams of the others alone
	phase("extent", func() { runExtent(ctx) })
	phase("repeat", func() { runRepeat(ctx) })
	phase("conc", func() { runConc(ctx, concSpecs(ctx)) })
}

var _ = hex.EncodeToString
