/-
  Certificate obligations, parts 40..47 of 64 of the `current` client system (kernel evaluation; 8 modules
  so that lake checks them in parallel; small parts keep the kernel's memory small).
  Assembled in `Lemmas/CliCert.lean`.
-/
import KmipModel.Model.CliConn
import KmipModel.Gen.CertCliConn
namespace Kmip.CliCert
open Kmip.CliLts Kmip.CliConn Kmip.Gen.CertCliConn

theorem cuClosed40 : partClosed (sys current) codec certCurrent cuP40 = true := by decide +kernel
theorem cuSafe40 : partSafe codec (badPartial current) cuP40 = true := by decide +kernel
theorem cuClosed41 : partClosed (sys current) codec certCurrent cuP41 = true := by decide +kernel
theorem cuSafe41 : partSafe codec (badPartial current) cuP41 = true := by decide +kernel
theorem cuClosed42 : partClosed (sys current) codec certCurrent cuP42 = true := by decide +kernel
theorem cuSafe42 : partSafe codec (badPartial current) cuP42 = true := by decide +kernel
theorem cuClosed43 : partClosed (sys current) codec certCurrent cuP43 = true := by decide +kernel
theorem cuSafe43 : partSafe codec (badPartial current) cuP43 = true := by decide +kernel
theorem cuClosed44 : partClosed (sys current) codec certCurrent cuP44 = true := by decide +kernel
theorem cuSafe44 : partSafe codec (badPartial current) cuP44 = true := by decide +kernel
theorem cuClosed45 : partClosed (sys current) codec certCurrent cuP45 = true := by decide +kernel
theorem cuSafe45 : partSafe codec (badPartial current) cuP45 = true := by decide +kernel
theorem cuClosed46 : partClosed (sys current) codec certCurrent cuP46 = true := by decide +kernel
theorem cuSafe46 : partSafe codec (badPartial current) cuP46 = true := by decide +kernel
theorem cuClosed47 : partClosed (sys current) codec certCurrent cuP47 = true := by decide +kernel
theorem cuSafe47 : partSafe codec (badPartial current) cuP47 = true := by decide +kernel

end Kmip.CliCert
