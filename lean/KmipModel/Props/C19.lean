/-
  C19 — middleware chains run in order and are re-entrant.

  `runImpl` follows the Go code (`nextFrom(i)` of kmipclient/client.go, `nextFrom` / `biNextFrom` of
  kmipserver/router.go); `runSpec` is plain nested composition `stage₀ (stage₁ (… core))` in which
  every call of a continuation runs the whole remainder of the chain once with the message and
  context it is given. They agree for ALL chains (any length), all stage programs, all scripted
  handlers — for the client chain, the server message chain and the server batch-item chain, which
  are three instances (`Kind`) of one generic definition. Corollaries: the trace is well nested in
  registration order, each stage receives exactly what its predecessor passed and gets back exactly
  what its successor returned, the innermost continuation acts on the message it is GIVEN (on the
  server: the handler that runs is the one registered for the operation of the substituted item,
  and the response echoes that operation), and the handler runs Π kᵢ times under stages calling
  `next` kᵢ times.
  The pre-fix code (`runOld`: one cursor shared by all invocations of the continuation; the server
  message chain forwarding the original request) is refuted by concrete 2-stage chains.

  Concurrency: the chain code reads `c.middlewares` / `exec.middlewares` and the per-call index `i`
  only; a run has no state outside its own arguments (here: its own `St`), so concurrent requests
  sharing a chain are independent runs of `runImpl` — checked on the real code by engine `mw`.
-/
import KmipModel.Lemmas.MiddlewareLemmas
namespace Kmip.C19
open Kmip Kmip.Mw

/-! ### 1. the code is nested composition -/

/-- 1a. `nextFrom(i)` is the nested composition of the stages from index `i` on — for every chain,
    every index, and ANY innermost continuation (not only scripted ones). -/
theorem nextFrom_is_composition (chain : List Stage) (core : Next) (i : Nat) :
    nextFrom chain core i = specNext core (chain.drop i) :=
  nextFrom_eq_specNext chain core i

/-- 1b. THE PROPERTY: the implemented chain equals the specification, result and trace. -/
theorem runImpl_eq_runSpec (k : Kind) (chain : List Stage) (core : Core) (m0 : Msg) (c0 : Nat) :
    runImpl k chain core m0 c0 = runSpec k chain core m0 c0 := by
  unfold runImpl runSpec
  rw [nextFrom_eq_specNext, List.drop_zero]

/-- 1c. the three instances. -/
theorem client_chain (chain : List Stage) (core : Core) (m0 : Msg) (c0 : Nat) :
    runImpl .client chain core m0 c0 = runSpec .client chain core m0 c0 :=
  runImpl_eq_runSpec _ _ _ _ _

theorem server_message_chain (chain : List Stage) (core : Core) (m0 : Msg) (c0 : Nat) :
    runImpl .srvmsg chain core m0 c0 = runSpec .srvmsg chain core m0 c0 :=
  runImpl_eq_runSpec _ _ _ _ _

theorem server_item_chain (chain : List Stage) (core : Core) (m0 : Msg) (c0 : Nat) :
    runImpl .srvitem chain core m0 c0 = runSpec .srvitem chain core m0 c0 :=
  runImpl_eq_runSpec _ _ _ _ _

/-! ### 2. order, substitution, re-entrancy: the trace is well nested -/

/-- 2a. The trace of a run is ONE well-nested execution of the stages in registration order
    (`WN`, see the model): stage `i+1` is entered only between a `call` and the matching `back` of
    stage `i`, with exactly the message and context stage `i` passed; each such call contains exactly
    one complete execution of all later stages and of the innermost continuation; `back` reports
    exactly what that execution returned; the innermost continuation behaves as `CoreSem` on the
    message it is given; the entry point returns `finish` of what the first stage returned. -/
theorem trace_wellNested (k : Kind) (chain : List Stage) (core : Core) (m0 : Msg) (c0 : Nat) :
    ∃ r, WN (CoreSem k) (chain.map Stage.id) m0 c0 r (runImpl k chain core m0 c0).2 ∧
      (runImpl k chain core m0 c0).1 = finish k m0.op r := by
  rw [runImpl_eq_runSpec]
  obtain ⟨tr, htr, hwn⟩ := specNext_NextWN k core (hdrOf k m0) chain m0 c0 St.init
  refine ⟨_, ?_, rfl⟩
  have : (runSpec k chain core m0 c0).2 = tr := by
    simpa [St.init, runSpec, mkRun] using htr
  rw [this]
  exact hwn

/-- 2b. reading `WN`: a well-nested trace of a non-empty chain starts with the first stage
    receiving the initial message / context and ends with that stage returning the result. -/
theorem WN_first_last {cs : Msg → Nat → R → List Event → Prop} {id : Nat} {rest : List Nat}
    {m : Msg} {c : Nat} {r : R} {tr : List Event} (h : WN cs (id :: rest) m c r tr) :
    tr.head? = some (.enter id m c) ∧ tr.getLast? = some (.exit id r) := by
  cases h with
  | stage _ _ _ _ _ parts hp =>
    exact ⟨rfl, List.getLast?_concat ..⟩

/-- 2c. reading `WN` + `CoreSem`: with no stage left, the trace is what ONE invocation of the
    innermost continuation with the message / context passed looks like: if the operation of THAT
    message is routed, exactly one handler invocation, by the handler registered for that operation,
    on exactly that message and context, the result echoing that operation; otherwise no handler
    invocation and "operation not supported". -/
theorem WN_core {k : Kind} {m : Msg} {c : Nat} {r : R} {tr : List Event}
    (h : WN (CoreSem k) [] m c r tr) :
    (routed k m.op = true ∧
      ∃ n hh o, tr = [.core n (handlerOf k m.op) m c hh o] ∧ r = coreResult k o m.op) ∨
    (routed k m.op = false ∧ tr = [] ∧ r = notRouted k m.op) := by
  cases h with
  | core _ _ _ _ hc => exact hc

/-- 2d. reading `WN`: every call of `next` by the first stage is followed by a complete well-nested
    execution of the rest, which received what was passed and whose result is what came back. -/
theorem WN_calls {cs : Msg → Nat → R → List Event → Prop} {id : Nat} {rest : List Nat}
    {m : Msg} {c : Nat} {r : R} {tr : List Event} (h : WN cs (id :: rest) m c r tr) :
    ∃ parts : List (Msg × Nat × R × List Event),
      tr = .enter id m c :: segsOf id parts ++ [.exit id r] ∧
      ∀ p ∈ parts, WN cs rest p.1 p.2.1 p.2.2.1 p.2.2.2 := by
  cases h with
  | stage _ _ _ _ _ parts hp => exact ⟨parts, rfl, hp⟩

/-- 2e. substitution along a pipeline (every stage derives a message — token AND operation — and a
    context from those it received and calls `next` once): stage `i` receives the transformations of
    stages `0..i-1` applied in registration order to the initial message / context; the innermost
    continuation is invoked once with all of them applied, and the handler that runs is the one of
    the operation passed by the LAST stage (none if that operation is not routed). -/
theorem pipeline_substitution (k : Kind) (ps : List (Nat × Tr × Nat × Tr)) (core : Core)
    (m0 : Msg) (c0 : Nat) :
    enters (runImpl k (ps.map pipeStage) core m0 c0).2 = pipeEnters ps m0 c0 ∧
    coreInputs (runImpl k (ps.map pipeStage) core m0 c0).2 = pipeCore k (pipeOut ps m0 c0) := by
  rw [runImpl_eq_runSpec]
  have := specNext_pipe k core (hdrOf k m0) ps m0 c0 St.init
  simpa [runSpec, mkRun, St.init, enters, coreInputs] using this

/-- non-vacuity: three stages tagging the message with 1, 2, 3; the second rewrites operation 1
    (handler 1) into operation 2 and replaces the context: they receive 7@1, 71@1, 712@2 and HANDLER 2
    receives 7123@2 — not handler 1, not 7321, not 7. -/
example :
    enters (runSpec .srvitem
      ([(1, .tag 1, 1, .tag 1), (2, .tag 2, 2, .const 40), (3, .tag 3, 2, .tag 3)].map pipeStage)
      ⟨[], .ok 5, []⟩ ⟨7, 1⟩ 9).2 = [(1, ⟨7, 1⟩, 9), (2, ⟨71, 1⟩, 91), (3, ⟨712, 2⟩, 40)] ∧
    coreInputs (runSpec .srvitem
      ([(1, .tag 1, 1, .tag 1), (2, .tag 2, 2, .const 40), (3, .tag 3, 2, .tag 3)].map pipeStage)
      ⟨[], .ok 5, []⟩ ⟨7, 1⟩ 9).2 = [(2, ⟨7123, 2⟩, 403)] := by decide

/-- 2f. the item chain acts on the SUBSTITUTED item: a stage rewriting an item of an operation
    WITHOUT handler (3) into a routed one (2) gets handler 2 run and a successful item echoing
    operation 2; rewriting a routed operation into an unrouted one gets no handler run and a failed
    item ("operation not supported") echoing the new operation. -/
example :
    runSpec .srvitem [⟨1, [.setOp 2, .call]⟩] ⟨[], .ok 5, []⟩ ⟨7, 3⟩ 9
      = (⟨some ⟨5, 2⟩, none⟩,
         [.enter 1 ⟨7, 3⟩ 9, .call 1 ⟨7, 2⟩ 9, .core 0 2 ⟨7, 2⟩ 9 7 (.ok 5),
          .back 1 ⟨some ⟨5, 2⟩, none⟩, .exit 1 ⟨some ⟨5, 2⟩, none⟩]) ∧
    runSpec .srvitem [⟨1, [.setOp 3, .call]⟩] ⟨[], .ok 5, []⟩ ⟨7, 1⟩ 9
      = (⟨some ⟨failBase + libErr, 3⟩, none⟩,
         [.enter 1 ⟨7, 1⟩ 9, .call 1 ⟨7, 3⟩ 9,
          .back 1 ⟨some ⟨0, 3⟩, some libErr⟩, .exit 1 ⟨some ⟨0, 3⟩, some libErr⟩]) := by decide

/-! ### 3. call counts -/

/-- 3a. Under stages that call `next` exactly `kᵢ` times unconditionally (straight-line programs
    that keep the operation: `kᵢ = 0` is a short-circuit, `kᵢ ≥ 2` a repetition) and a request whose
    operation has a handler, the handler runs `Π kᵢ` times. -/
theorem core_runs_product (k : Kind) (chain : List Stage) (core : Core) (m0 : Msg) (c0 : Nat)
    (hs : ∀ st ∈ chain, st.Straight) (hr : routed k m0.op = true) :
    coreEvents (runImpl k chain core m0 c0).2 = prodL (chain.map Stage.mult) := by
  rw [runImpl_eq_runSpec]
  have := (specNext_NextCount k core (hdrOf k m0) m0.op hr chain hs m0 c0 St.init rfl).2
  simpa [runSpec, mkRun, St.init, coreEvents] using this

/-- 3b. … and every stage `j` is entered `Π_{i<j} kᵢ` times: apply 3a to the prefix — the trace of a
    chain restricted to the first `j` stages; stated here through the general composition law: the
    chain `pre ++ post` is the chain `pre` whose innermost continuation is the chain `post`. -/
theorem chain_append (pre post : List Stage) (core : Next) :
    nextFrom (pre ++ post) core 0 = specNext (nextFrom post core 0) pre := by
  rw [nextFrom_eq_specNext, nextFrom_eq_specNext, List.drop_zero, List.drop_zero]
  induction pre with
  | nil => rfl
  | cons st pre ih => simp only [List.cons_append, specNext, ih]

/-- non-vacuity of 3a: call×2, (tag; call×3), pass-through, then a stage calling twice and returning
    a fixed response: 2·3·1·2 = 12 handler runs. -/
example :
    coreEvents (runImpl .client
      [⟨1, [.call, .call]⟩, ⟨2, [.setMsg (.tag 2), .call, .call, .call]⟩, ⟨3, [.call]⟩,
       ⟨4, [.call, .setCtx (.tag 4), .call, .ret (.fixed ⟨some ⟨7, 1⟩, none⟩), .call]⟩]
      ⟨[.err 1], .ok 5, []⟩ ⟨1, 1⟩ 1).2 = 12 := by
  rw [core_runs_product _ _ _ _ _ (by decide) (by decide)]
  decide

/-- a short-circuiting stage anywhere in the chain: the handler never runs. -/
example :
    coreEvents (runImpl .srvitem
      [⟨1, [.call, .call]⟩, ⟨2, [.ret (.fixed ⟨none, some 5⟩)]⟩, ⟨3, [.call]⟩]
      ⟨[], .ok 5, []⟩ ⟨1, 2⟩ 1).2 = 0 := by
  rw [core_runs_product _ _ _ _ _ (by decide) (by decide)]
  decide

/-! ### 4. what the fixes c5825cf / ec9e0d5 repaired -/

/-- the pre-fix chain with a stage calling `next` twice followed by a pass-through stage: the second
    call skips the pass-through stage (client chain; cursor shared by all invocations of `next`). -/
example :
    runOld .client [⟨1, [.call, .call]⟩, ⟨2, [.call]⟩] ⟨[], .ok 5, []⟩ ⟨1, 1⟩ 1
      ≠ runSpec .client [⟨1, [.call, .call]⟩, ⟨2, [.call]⟩] ⟨[], .ok 5, []⟩ ⟨1, 1⟩ 1 := by decide

/-- … what the old code did on it: stage 2 entered once instead of twice. -/
example :
    (enters (runOld .client [⟨1, [.call, .call]⟩, ⟨2, [.call]⟩] ⟨[], .ok 5, []⟩ ⟨1, 1⟩ 1).2).length = 2 ∧
    (enters (runSpec .client [⟨1, [.call, .call]⟩, ⟨2, [.call]⟩] ⟨[], .ok 5, []⟩ ⟨1, 1⟩ 1).2).length = 3 := by
  decide

/-- same defect in the server batch-item chain, with the documented retry pattern (call again while
    the result is a failure): the retried call bypasses the inner stage. -/
example :
    runOld .srvitem [⟨1, [.call, .callIfFail]⟩, ⟨2, [.setMsg (.tag 2), .call]⟩]
        ⟨[.err 1], .ok 5, []⟩ ⟨1, 1⟩ 1
      ≠ runSpec .srvitem [⟨1, [.call, .callIfFail]⟩, ⟨2, [.setMsg (.tag 2), .call]⟩]
          ⟨[.err 1], .ok 5, []⟩ ⟨1, 1⟩ 1 := by decide

/-- same defect in the server message chain. -/
example :
    runOld .srvmsg [⟨1, [.call, .call]⟩, ⟨2, [.call]⟩] ⟨[], .ok 5, []⟩ ⟨1, 1⟩ 1
      ≠ runSpec .srvmsg [⟨1, [.call, .call]⟩, ⟨2, [.call]⟩] ⟨[], .ok 5, []⟩ ⟨1, 1⟩ 1 := by decide

/-- the second defect of the server message chain — the ORIGINAL request was forwarded instead of the
    one given to `next` — shows with stages that each call `next` exactly once: the message
    replaced by stage 1 reaches neither stage 2 nor the handler. -/
example :
    coreInputs (runOld .srvmsg [pipeStage (1, .tag 1, 1, .tag 1), pipeStage (2, .tag 2, 1, .tag 2)]
      ⟨[], .ok 5, []⟩ ⟨7, 1⟩ 9).2 = [(1, ⟨7, 1⟩, 912)] ∧
    coreInputs (runSpec .srvmsg [pipeStage (1, .tag 1, 1, .tag 1), pipeStage (2, .tag 2, 1, .tag 2)]
      ⟨[], .ok 5, []⟩ ⟨7, 1⟩ 9).2 = [(1, ⟨712, 1⟩, 912)] := by decide

/-- the current code on the first witness: it is the specification (by 1b), here evaluated. -/
example :
    (enters (runImpl .client [⟨1, [.call, .call]⟩, ⟨2, [.call]⟩] ⟨[], .ok 5, []⟩ ⟨1, 1⟩ 1).2).length = 3 := by
  rw [runImpl_eq_runSpec]
  decide

end Kmip.C19
