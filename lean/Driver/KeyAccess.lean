/-
  Driver handlers of the key material model (C14):

    key.access <accessor> <otype> <object>            →  ok [<n>|rsa|ecdsa|other] | err | panic …
    key.accessold <accessor> <otype> <object>         →  same, for the accessors before /repo 414a481
    key.big <xml|json|ttlv> <decimal>                 →  ok <lexical form, as hex of its ASCII text (ttlv: of the value bytes)>
    key.bigread <xml|json|ttlv> <text-as-hex>         →  ok <decimal> | err
    key.hex <hex>                                     →  ok <hex of the upper-case hex text>   (byte string writer of XML/JSON)
    key.unhex <text-as-hex>                           →  ok <hex> | err                       (byte string reader of XML/JSON)
    key.reg <kind> <kf> <major>.<minor> <params…>     →  ok <object summary> | err | panic …

  <otype>  = the ObjectType code of the GetResponsePayload (decimal)
  <object> = nil | op | te | ce:<type>:<bytes>
           | (sd:<type>|sk|pu|pr|sp|pg) <format> <compression> <keyvalue>
  <keyvalue> = n | - | w | p:<attrs> <8 slots> | wp:<attrs> <8 slots>
  slots (one token each, `_` = nil): bytes  sym  rsaPriv=n,d,e,p,q,dp,dq,qinv  rsaPub=n,e
           ecdsaPriv=curve,d  ecdsaPub=curve,<bytes>  ecPriv=curve,d  ecPub=curve,<bytes>
  <bytes>  = x<hex> (literal, `x` = empty) | a named kind of well-formed standard library output:
             pkcs1priv pkcs1pub pkcs8rsa pkcs8ec pkcs8ed sec1 pkixrsa pkixec pkixed cert u<curve> c<curve>
  No key bytes are exchanged: the standard library of the model is the toy one, the answer is the
  outcome class.
-/
import Driver.Common
import KmipModel.Model.KeyAccess
open Kmip Kmip.Key

namespace Driver.KeyDrv

def sampleRsa : Toy.RsaPriv := { n := 3233, d := 2753, primes := [61, 53] }
def sampleRsaPub : Toy.RsaPub := { n := 3233 }
def sampleEc : Toy.EcPriv := { crv := 1, d := 42 }
def sampleEcPub (c : Nat) : Toy.EcPub := { crv := Toy.curveIx c, x := 17, y := 23 }

def resOpt {α : Type} (r : Res α) : Option α :=
  match r with
  | .ok a => some a
  | _ => none

def parseBytesKind (s : String) : Option Bytes :=
  match s with
  | "pkcs1priv" => resOpt (Toy.ops.marshalPKCS1Priv sampleRsa)
  | "pkcs1pub" => some (Toy.ops.marshalPKCS1Pub sampleRsaPub)
  | "pkcs8rsa" => resOpt (Toy.marshalPKCS8 (.rsa sampleRsa))
  | "pkcs8ec" => resOpt (Toy.marshalPKCS8 (.ecdsa sampleEc))
  | "pkcs8ed" => resOpt (Toy.marshalPKCS8 .other)
  | "sec1" => Toy.ops.marshalSEC1 sampleEc
  | "pkixrsa" => Toy.marshalPKIX (.rsa sampleRsaPub)
  | "pkixec" => Toy.marshalPKIX (.ecdsa (sampleEcPub 7))
  | "pkixed" => Toy.marshalPKIX .other
  | "cert" => some (Toy.ops.certRaw [1, 2, 3])
  | _ =>
    if s.startsWith "x" then
      let h := (s.drop 1).toString
      if h.isEmpty then some [] else bytesOfHexChars h.toList
    else if s.startsWith "u" then
      (s.drop 1).toString.toNat?.bind fun c =>
        if curveSupported c then some (Toy.point 4 (sampleEcPub c)) else none
    else if s.startsWith "c" then
      (s.drop 1).toString.toNat?.bind fun c =>
        if curveSupported c then some (Toy.point 2 (sampleEcPub c)) else none
    else none

def optTok {α : Type} (f : String → Option α) (s : String) : Option (Option α) :=
  if s = "_" then some none else (f s).map some

def parseRsaPriv (s : String) : Option RsaPrivT :=
  match s.splitOn "," with
  | [n, d, e, p, q, dp, dq, qi] => do
    let n ← n.toInt?
    let d ← optTok String.toInt? d
    let e ← optTok String.toInt? e
    let p ← optTok String.toInt? p
    let q ← optTok String.toInt? q
    let dp ← optTok String.toInt? dp
    let dq ← optTok String.toInt? dq
    let qi ← optTok String.toInt? qi
    pure { modulus := n, d := d, e := e, p := p, q := q, dp := dp, dq := dq, qinv := qi }
  | _ => none

def parseRsaPub (s : String) : Option RsaPubT :=
  match s.splitOn "," with
  | [n, e] => do pure { modulus := (← n.toInt?), e := (← e.toInt?) }
  | _ => none

def parseEcPriv (s : String) : Option EcPrivT :=
  match s.splitOn "," with
  | [c, d] => do pure { curve := (← c.toNat?), d := (← d.toInt?) }
  | _ => none

def parseEcPub (s : String) : Option EcPubT :=
  match s.splitOn "," with
  | [c, q] => do pure { curve := (← c.toNat?), q := (← parseBytesKind q) }
  | _ => none

def parseMaterial (toks : List String) : Option Material :=
  match toks with
  | [b, s, rp, ru, dp, du, ep, eu] => do
    pure { bytes := (← optTok parseBytesKind b), sym := (← optTok parseBytesKind s),
           rsaPriv := (← optTok parseRsaPriv rp), rsaPub := (← optTok parseRsaPub ru),
           ecdsaPriv := (← optTok parseEcPriv dp), ecdsaPub := (← optTok parseEcPub du),
           ecPriv := (← optTok parseEcPriv ep), ecPub := (← optTok parseEcPub eu) }
  | _ => none

def parseKeyValue (toks : List String) : Option (Option KeyValueV) :=
  match toks with
  | ["n"] => some none
  | ["-"] => some (some {})
  | ["w"] => some (some { wrapped := some [1, 2, 3] })
  | kv :: slots =>
    let (wrapped, rest) :=
      if kv.startsWith "wp:" then (some [1, 2, 3], (kv.drop 3).toString)
      else if kv.startsWith "p:" then (none, (kv.drop 2).toString)
      else (none, "?")
    match rest.toNat?, parseMaterial slots with
    | some attrs, some m => some (some { wrapped := wrapped, plain := some { material := m, attrs := attrs } })
    | _, _ => none
  | _ => none

def parseKeyBlock (toks : List String) : Option KeyBlockV :=
  match toks with
  | f :: c :: kv => do
    let f ← f.toNat?
    let c ← c.toNat?
    let kv ← parseKeyValue kv
    pure { format := f, comp := c, keyValue := kv }
  | _ => none

def parseObj (toks : List String) : Option (Option Obj) :=
  match toks with
  | ["nil"] => some none
  | ["op"] => some (some .opaque)
  | ["te"] => some (some .template)
  | k :: rest =>
    if k.startsWith "ce:" then
      match k.splitOn ":", rest with
      | [_, ty, b], [] => do pure (some (.certificate (← ty.toNat?) (← parseBytesKind b)))
      | _, _ => none
    else do
      let kb ← parseKeyBlock rest
      if k.startsWith "sd:" then pure (some (.secretData (← (k.drop 3).toString.toNat?) kb))
      else match k with
        | "sk" => pure (some (.symmetricKey kb))
        | "pu" => pure (some (.publicKey kb))
        | "pr" => pure (some (.privateKey kb))
        | "sp" => pure (some (.splitKey kb))
        | "pg" => pure (some (.pgpKey kb))
        | _ => none
  | _ => none

def parseAccessor (s : String) : Option Accessor := Accessor.all.find? fun a => a.name = s

def renderOut (r : Res Out) : String :=
  match r with
  | .ok o => o.render
  | .err _ => "err"
  | .panic m => "panic " ++ m

def access (old : Bool) (arg : String) : String :=
  match arg.splitOn " " with
  | a :: ot :: obj =>
    match parseAccessor a, ot.toNat?, parseObj obj with
    | some a, some ot, some o =>
      let r : GetResp := { objectType := ot, object := o }
      renderOut (if old then runOld Toy.ops a r else run Toy.ops a r)
    | _, _, _ => "bad-op"
  | _ => "bad-op"

def asciiHex (t : Bytes) : String := if t.isEmpty then "-" else hexOfBytes t

def renderInt (r : Res Int) : String :=
  match r with
  | .ok v => "ok " ++ toString v
  | .err _ => "err"
  | .panic m => "panic " ++ m

def parseVer (s : String) : Option (Nat × Nat) :=
  match s.splitOn "." with
  | [a, b] => do pure ((← a.toNat?), (← b.toNat?))
  | _ => none

def slotName (m : Material) : String :=
  (if m.bytes.isSome then "bytes" else "") ++ (if m.sym.isSome then "sym" else "") ++
  (if m.rsaPriv.isSome then "rsaPriv" else "") ++ (if m.rsaPub.isSome then "rsaPub" else "") ++
  (if m.ecdsaPriv.isSome then "ecdsaPriv" else "") ++ (if m.ecdsaPub.isSome then "ecdsaPub" else "") ++
  (if m.ecPriv.isSome then "ecPriv" else "") ++ (if m.ecPub.isSome then "ecPub" else "")

def renderReg (r : Res Obj) : String :=
  match r with
  | .err _ => "err"
  | .panic _ => "panic"
  | .ok o =>
    match o.keyBlock? with
    | none => "ok type=" ++ toString o.typeCode
    | some kb =>
      let slot := match kb.keyValue.bind (·.plain) with
        | some p => slotName p.material
        | none => "none"
      "ok type=" ++ toString o.typeCode ++ " f=" ++ toString kb.format ++ " c=" ++ toString kb.comp ++
        " alg=" ++ toString kb.alg ++ " len=" ++ toString kb.len ++ " slot=" ++ slot

/-- the one-bit `KeyFormat` a KMIP key format type stands for, per kind of key. -/
def fmtBit (k : KeyKind) (ft : Nat) : Option Nat :=
  match k, ft with
  | .rsaPriv, 3 => some kfPKCS1 | .rsaPriv, 4 => some kfPKCS8 | .rsaPriv, 10 => some kfTransparent
  | .rsaPub, 3 => some kfPKCS1 | .rsaPub, 5 => some kfX509 | .rsaPub, 11 => some kfTransparent
  | .ecPriv, 6 => some kfSEC1 | .ecPriv, 4 => some kfPKCS8 | .ecPriv, 14 => some kfTransparent
  | .ecPriv, 20 => some kfTransparent
  | .ecPub, 5 => some kfX509 | .ecPub, 15 => some kfTransparent | .ecPub, 21 => some kfTransparent
  | .sym, 1 => some kfRAW | .sym, 7 => some kfTransparent
  | .secret, 1 => some kfRAW
  | _, _ => none

def toyPrimes (np : Nat) : List Nat := ([5, 7, 11, 13, 17, 19, 23, 29] : List Nat).take np

/-- `key.reg <kind> <mask> <version> <observed KMIP key format type> <parameters>`: is the observed format an
    admissible choice for the mask, and what does the builder produce in that format?  (The priority the
    library gives to several requested formats is an input here, not something the model predicts.) -/
def reg (arg : String) : String :=
  match arg.splitOn " " with
  | kind :: kf :: ver :: ft :: params =>
    match kf.toNat?, parseVer ver, ft.toNat? with
    | some kf, some ver, some ft =>
      let go (k : KeyKind) (key : AnyKey Toy.ops) : String :=
        match fmtBit k ft with
        | none => "adm=false"
        | some f => "adm=" ++ toString (admissible k kf f) ++ " " ++ renderReg (registerF Toy.ops f ver key)
      match kind, params with
      | "rsapriv", [n, np] =>
        match n.toNat?, np.toNat? with
        | some n, some np => go .rsaPriv (.rsaPriv { n := n, d := 3, primes := toyPrimes np })
        | _, _ => "bad-op"
      | "rsapub", [n] =>
        match n.toNat? with
        | some n => go .rsaPub (.rsaPub { n := n })
        | none => "bad-op"
      | "ecpriv", [c] =>
        match c.toNat? with
        | some c => if curveSupported c then go .ecPriv (.ecPriv { crv := Toy.curveIx c, d := 5 }) else "bad-op"
        | none => "bad-op"
      | "ecpub", [c] =>
        match c.toNat? with
        | some c => if curveSupported c then go .ecPub (.ecPub (sampleEcPub c)) else "bad-op"
        | none => "bad-op"
      | "sym", [alg, len] =>
        match alg.toNat?, len.toNat? with
        | some alg, some len => go .sym (.sym alg (List.replicate len 0))
        | _, _ => "bad-op"
      | "secret", [kind, len] =>
        match kind.toNat?, len.toNat? with
        | some kind, some len => go .secret (.secret kind (List.replicate len 0))
        | _, _ => "bad-op"
      | _, _ => "bad-op"
    | _, _, _ => "bad-op"
  | _ => "bad-op"

end Driver.KeyDrv

namespace Driver
open Driver.KeyDrv

def handleKeyAccess (cmd arg : String) : Option String :=
  match cmd with
  | "key.access" => some (access false arg)
  | "key.accessold" => some (access true arg)
  | "key.big" => some <|
    match arg.splitOn " " with
    | [enc, v] =>
      match v.toInt? with
      | some v =>
        match enc with
        | "xml" => "ok " ++ asciiHex (xmlBigWrite v)
        | "json" => "ok " ++ asciiHex (jsonBigWrite v).render
        | "ttlv" => "ok " ++ asciiHex (encodeBig v)
        | _ => "bad-op"
      | none => "bad-op"
    | _ => "bad-op"
  | "key.bigread" => some <|
    match arg.splitOn " " with
    | [enc, h] =>
      match bytesOfHex h with
      | some t =>
        match enc with
        | "xml" => renderInt (xmlBigRead t)
        | "ttlv" => renderInt (ttlvBigRead t)
        | "json" =>
          match jsonTokenize t with
          | some (some tok) => renderInt (jsonBigRead tok)
          | some none => "err"           -- not a scalar JSON token the reader accepts
          | none => "bad-op"             -- outside the modelled token classes
        | _ => "bad-op"
      | none => "bad-op"
    | _ => "bad-op"
  | "key.hex" => some <|
    match bytesOfHex arg with
    | some bs => "ok " ++ asciiHex (textBytesWrite bs)
    | none => "bad-op"
  | "key.unhex" => some <|
    match bytesOfHex arg with
    | some t =>
      match textBytesRead t with
      | .ok bs => "ok " ++ asciiHex bs
      | _ => "err"
    | none => "bad-op"
  | "key.reg" => some (reg arg)
  | _ => none

end Driver
