package main

import (
	"bytes"
	"encoding/hex"
	"fmt"
	"reflect"
	"strconv"
	"strings"
	"sync"

	kmip "github.com/ovh/kmip-go"
	"github.com/ovh/kmip-go/ttlv"

	"verifharness/internal/report"
	"verifharness/internal/schema"
	"verifharness/internal/tree"
)

var (
	schemaOnce sync.Once
	theSchema  *schema.Schema
	dynTypes   map[int]reflect.Type // dyn id -> Go type
)

func getSchema() *schema.Schema {
	schemaOnce.Do(func() {
		theSchema = schema.Build()
		dynTypes = map[int]reflect.Type{}
		reg := func(t reflect.Type) {
			if id, ok := theSchema.LookupDyn(t); ok {
				dynTypes[id] = t
			}
		}
		reg(reflect.TypeFor[*kmip.RequestMessage]())
		reg(reflect.TypeFor[*kmip.ResponseMessage]())
		reg(reflect.TypeFor[ttlv.Value]())
		reg(reflect.TypeFor[*kmip.UnknownPayload]())
		for _, op := range kmip.VerifDumpOperations() {
			reg(reflect.PointerTo(op.Request))
			reg(reflect.PointerTo(op.Response))
		}
		for _, o := range theSchema.Objects {
			obj, _ := kmip.NewObjectForType(kmip.ObjectType(o.ObjectType))
			reg(reflect.TypeOf(obj))
		}
		for _, a := range kmip.VerifDumpAttrTypes() {
			reg(a.Type)
		}
	})
	return theSchema
}

// normContent normalises a rendered value for "equal in content": nil and empty byte strings are the same.
func normContent(s string) string {
	return strings.ReplaceAll(s, "yn", "y-")
}

func init() {
	register(&Engine{
		Name: "plan",
		Rule: "KMIP request/response messages and standalone payloads, objects and attribute values built from the library's Go types by a reflective, schema-directed populator (every registered operation x direction, unknown operations, all object types, all key formats, all attribute names incl. custom/unknown, credentials, message extensions; fill levels required-only / random subset / everything; protocol versions 1.0-1.4 and odd ones), their binary encodings, and structural mutations of those encodings decoded into the typed targets; distinct = distinct protocol line; nontrivial = all",
		Run:  runPlan,
	})
}

type planTarget struct {
	dyn int
	ty  reflect.Type // pointer-to-struct type (or value type for attribute values)
	tag int          // 0: the type's default tag (MarshalTTLV/UnmarshalTTLV); else explicit (TagAny)
}

// marshalGuard runs ttlv.MarshalTTLV (or Encoder.TagAny with an explicit tag) under recover.
func marshalGuard(x any, tag int) (string, []byte) {
	b, p := guard("MarshalTTLV", func() []byte {
		if tag == 0 {
			return ttlv.MarshalTTLV(x)
		}
		enc := ttlv.NewTTLVEncoder()
		enc.TagAny(tag, x)
		return enc.Bytes()
	})
	if p != "" {
		return "panic", nil
	}
	return "ok " + hexUp(b), b
}

// unmarshalInto decodes b into a fresh value of the dyn's type and renders it.
func unmarshalInto(s *schema.Schema, tg planTarget, b []byte) (string, any) {
	type out struct {
		s   string
		v   any
		err error
	}
	r, p := guard("UnmarshalTTLV", func() out {
		var ptr reflect.Value
		if tg.ty.Kind() == reflect.Pointer {
			ptr = reflect.New(tg.ty.Elem())
		} else {
			ptr = reflect.New(tg.ty)
		}
		if tg.tag == 0 {
			if err := ttlv.UnmarshalTTLV(b, ptr.Interface()); err != nil {
				return out{err: err}
			}
		} else {
			dec, err := ttlv.NewTTLVDecoder(b)
			if err != nil {
				return out{err: err}
			}
			if err := dec.TagAny(tg.tag, ptr.Interface()); err != nil {
				return out{err: err}
			}
		}
		var val reflect.Value
		if tg.ty.Kind() == reflect.Pointer {
			val = ptr
		} else {
			val = ptr.Elem()
		}
		str, err := s.Render(val, s.Dyns[tg.dyn].Kind)
		if err != nil {
			return out{err: fmt.Errorf("harness render: %w", err), s: "unrenderable"}
		}
		return out{s: str, v: ptr.Interface()}
	})
	if p != "" {
		return "panic", nil
	}
	if r.err != nil {
		if r.s == "unrenderable" {
			return "ok unrenderable " + r.err.Error(), nil
		}
		return "err", nil
	}
	return "ok " + r.s, r.v
}

// planCase: one generated value: encode correspondence, decode correspondence, C01 oracle.
func planCase(ctx *Ctx, s *schema.Schema, tg planTarget, x reflect.Value, conforming bool) []byte {
	val, err := s.Render(x, s.Dyns[tg.dyn].Kind)
	if err != nil {
		ctx.Res.Fail("render: " + err.Error())
		return nil
	}
	line := fmt.Sprintf("plan.enc %d %d %s", tg.dyn, tg.tag, val)
	ctx.current = line
	var arg any
	if tg.ty.Kind() == reflect.Pointer {
		arg = x.Interface()
	} else {
		arg = x.Interface()
	}
	impl, b := marshalGuard(arg, tg.tag)
	ctx.Add(line, impl, true, "C01,C03,C05,C06,C14")
	if b != nil {
		// ---- C03 oracle on typed output (KMIP messages, payloads, objects, attribute values; bit masks only
		// exist here): the independent strict parser accepts the bytes, and the library's generic decoder reads
		// the same tree from them.
		if tr, err := tree.Decode(b); err != nil {
			ctx.Res.Violate(report.Violation{Property: "C03", Oracle: "independent-parse", Key: "plan:not-wellformed:" + err.Error(), Detail: "independent parser rejects the encoding of a " + s.Dyns[tg.dyn].GoType + ": " + err.Error() + " bytes=" + hexUp(b[:min(len(b), 4096)]), Line: line})
		} else {
			ctx.Res.Count("plan.enc.strict-ok")
			if g, _ := decodeGeneric(append([]byte{}, b...)); g != "ok "+tr.Render() {
				ctx.Res.Violate(report.Violation{Property: "C03", Oracle: "converse", Key: "plan:wellformed-differs", Detail: "the generic decoder does not read the typed encoding as the tree the independent parser reads", Line: line})
			}
		}
	}
	if b == nil {
		if conforming {
			ctx.Res.Violate(report.Violation{Property: "C01", Oracle: "encoder-total", Key: "plan:encoder-panic", Detail: "MarshalTTLV panicked on a conforming value", Line: line})
		}
		return nil
	}
	dline := fmt.Sprintf("plan.dec %d %d %s", tg.dyn, tg.tag, hexUp(b))
	dimpl, back := unmarshalInto(s, tg, append([]byte{}, b...))
	dprops := "C01,C02,C06"
	if back != nil {
		dprops += ",C18"
	}
	ctx.Add(dline, dimpl, true, dprops)
	if !conforming {
		return b
	}
	// ---- C01 oracle on the real code (no model involved) ----
	switch {
	case dimpl == "panic":
		ctx.Res.Violate(report.Violation{Property: "C01", Oracle: "roundtrip", Key: "plan:decode-panic", Detail: "decoding the library's own encoding panicked", Line: line})
	case dimpl == "err":
		ctx.Res.Violate(report.Violation{Property: "C01", Oracle: "roundtrip", Key: "plan:decode-error:" + s.Dyns[tg.dyn].GoType, Detail: "the library cannot decode its own encoding", Line: line})
	default:
		if back != nil {
			c06Walk(ctx, dline, reflect.ValueOf(back), 0)
		}
		got := strings.TrimPrefix(dimpl, "ok ")
		if normContent(got) != normContent(val) {
			ctx.Res.Violate(report.Violation{Property: "C01", Oracle: "roundtrip", Key: "plan:content-differs:" + s.Dyns[tg.dyn].GoType, Detail: "decoded value differs from the original: " + firstDiff(normContent(val), normContent(got)), Line: line})
		} else if back != nil {
			re, rb := marshalGuard(back, tg.tag)
			if re == "panic" || !bytes.Equal(rb, b) {
				ctx.Res.Violate(report.Violation{Property: "C01", Oracle: "reencode-identical", Key: "plan:reencode-differs:" + s.Dyns[tg.dyn].GoType, Detail: "re-encoding the decoded message does not give the identical bytes", Line: line})
			}
		}
	}
	return b
}

func firstDiff(a, b string) string {
	i := 0
	for i < len(a) && i < len(b) && a[i] == b[i] {
		i++
	}
	lo := max(0, i-40)
	return fmt.Sprintf("at %d: want …%s got …%s", i, a[lo:min(len(a), i+60)], b[lo:min(len(b), i+60)])
}

// planDecCase: decode arbitrary bytes into a typed target: correspondence + C02 oracle.
func planDecCase(ctx *Ctx, s *schema.Schema, tg planTarget, b []byte, origin string) {
	line := fmt.Sprintf("plan.dec %d %d %s", tg.dyn, tg.tag, hexUp(b))
	ctx.current = line
	in := append([]byte{}, b...)
	impl, back := unmarshalInto(s, tg, in)
	if back != nil {
		c06Walk(ctx, line, reflect.ValueOf(back), 0)
		// ---- C18 (binary): whatever is accepted re-encodes to a fixed point ----
		r1, b1 := marshalGuard(back, tg.tag)
		if r1 == "panic" {
			ctx.Res.Violate(report.Violation{Property: "C18", Oracle: "reencode-total", Key: "ttlv:accepted-but-unencodable:" + s.Dyns[tg.dyn].GoType, Detail: "an accepted binary input cannot be re-encoded (encoder panics)", Line: line})
		} else {
			d2, back2 := unmarshalInto(s, tg, append([]byte{}, b1...))
			if back2 == nil {
				ctx.Res.Violate(report.Violation{Property: "C18", Oracle: "redecode", Key: "ttlv:reencoded-not-accepted:" + s.Dyns[tg.dyn].GoType, Detail: "the re-encoding of an accepted input is rejected: " + d2, Line: line})
			} else if _, b2 := marshalGuard(back2, tg.tag); !bytes.Equal(b1, b2) {
				ctx.Res.Violate(report.Violation{Property: "C18", Oracle: "fixed-point", Key: "ttlv:second-reencode-differs:" + s.Dyns[tg.dyn].GoType, Detail: "the second re-encoding differs from the first", Line: line})
			}
		}
		// … and through the two text encodings in every order, whenever the strings and dates of the value are
		// representable there (fix.go: same fixed point reached by binary→XML→JSON→binary and every other order)
		fixOracle(ctx, line, tg, s.Dyns[tg.dyn].GoType, 0, back)
	}
	if impl == "panic" {
		ctx.Res.Violate(report.Violation{Property: "C02", Oracle: "no-panic", Key: "plan:decode-panic:" + s.Dyns[tg.dyn].GoType, Detail: "typed decoder panicked", Line: line})
	}
	if !bytes.Equal(in, b) {
		ctx.Res.Violate(report.Violation{Property: "C02", Oracle: "input-unmodified", Key: "plan:input-modified", Detail: "typed decoder modified its input", Line: line})
	}
	again, _ := unmarshalInto(s, tg, in)
	if again != impl {
		ctx.Res.Violate(report.Violation{Property: "C02", Oracle: "deterministic", Key: "plan:second-decode-differs", Detail: "second decode differs", Line: line})
	}
	big := make([]byte, len(b)+32)
	copy(big, b)
	for i := len(b); i < len(big); i++ {
		big[i] = 0x42
	}
	if over, _ := unmarshalInto(s, tg, big[:len(b)]); over != impl {
		ctx.Res.Violate(report.Violation{Property: "C02", Oracle: "no-over-read", Key: "plan:reads-beyond-input", Detail: "result depends on bytes beyond the input", Line: line})
	}
	// only an ACCEPTED input is C18-relevant: a decoder that rejects more than the model does leaves every fixed
	// point alone (the disagreement is then C02's to explain)
	props := "C02"
	if back != nil {
		props = "C02,C18"
	}
	ctx.Add(line, impl, true, props)
	ctx.Res.Count("plan.dec." + origin + "." + strings.SplitN(impl, " ", 2)[0])
}

func runPlan(ctx *Ctx) {
	s := getSchema()
	if len(s.Problems) > 0 {
		ctx.Res.Fail("schema extraction problems: " + strings.Join(s.Problems, "; "))
	}
	if len(ctx.Replay) > 0 {
		for _, l := range ctx.Replay {
			f := strings.SplitN(l, " ", 4)
			if len(f) != 4 {
				continue
			}
			d, _ := strconv.Atoi(f[1])
			tagv, _ := strconv.Atoi(f[2])
			f[2] = f[3]
			tg := planTarget{d, dynTypes[d], tagv}
			if tg.ty == nil {
				continue
			}
			switch f[0] {
			case "plan.dec":
				if f[2] == "-" {
					f[2] = ""
				}
				if b, err := hex.DecodeString(f[2]); err == nil {
					planDecCase(ctx, s, tg, b, "replay")
				}
			case "plan.enc":
				// values are replayed through their encoding produced by the model; see check.py
			}
		}
		return
	}
	r := ctx.R
	reqT := planTarget{s.Roots["RequestMessage"], reflect.TypeFor[*kmip.RequestMessage](), 0}
	respT := planTarget{s.Roots["ResponseMessage"], reflect.TypeFor[*kmip.ResponseMessage](), 0}
	n := ctx.N(600, 20000)
	for i := 0; i < n; i++ {
		tg := reqT
		if i%2 == 1 {
			tg = respT
		}
		p := &popCfg{r: r, s: s, fill: i % 3, respectGating: true}
		x := reflect.New(tg.ty.Elem())
		p.populate(x.Elem())
		b := planCase(ctx, s, tg, x, true)
		ctx.Res.Count(fmt.Sprintf("plan.msg.fill=%d", p.fill))
		if b != nil && i%2 == 0 {
			for _, m := range mutate(r, b) {
				planDecCase(ctx, s, tg, m, "mutated")
			}
		}
	}
	// every registered dynamic type standalone (payloads, objects, attribute values)
	per := ctx.N(6, 120)
	for id, ty := range dynTypes {
		_ = id
		_ = ty
	}
	ids := make([]int, 0, len(dynTypes))
	for id := range dynTypes {
		ids = append(ids, id)
	}
	sortInts(ids)
	for _, id := range ids {
		ty := dynTypes[id]
		if ty == reflect.TypeFor[ttlv.Value]() {
			continue
		}
		tg := planTarget{id, ty, 0}
		if s.Dyns[id].DefTag == 0 {
			// payload types have no tag of their own: they only ever travel under an explicit tag
			tg.tag = kmip.TagRequestPayload
			for _, op := range s.Ops {
				if op.RespDyn == id {
					tg.tag = kmip.TagResponsePayload
				}
			}
			if ty.Kind() != reflect.Pointer {
				tg.tag = kmip.TagAttributeValue
			}
		}
		for k := 0; k < per; k++ {
			p := &popCfg{r: r, s: s, fill: k % 3, respectGating: true}
			var x reflect.Value
			if ty.Kind() == reflect.Pointer {
				x = reflect.New(ty.Elem())
				p.populate(x.Elem())
			} else {
				px := reflect.New(ty)
				p.populate(px.Elem())
				x = px.Elem()
			}
			if ty.Kind() != reflect.Pointer && ty.Kind() != reflect.Struct {
				continue // scalar attribute values have no default tag of their own
			}
			b := planCase(ctx, s, tg, x, true)
			if b != nil && k%3 == 0 {
				for _, m := range mutate(r, b) {
					planDecCase(ctx, s, tg, m, "mutated")
				}
			}
		}
	}
	c06Adversarial(ctx, r)
	for _, b := range corpusBinary() {
		planDecCase(ctx, s, reqT, b, "corpus")
		planDecCase(ctx, s, respT, b, "corpus")
	}
}

func sortInts(a []int) {
	for i := 1; i < len(a); i++ {
		for j := i; j > 0 && a[j] < a[j-1]; j-- {
			a[j], a[j-1] = a[j-1], a[j]
		}
	}
}
