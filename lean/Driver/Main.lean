/-
  `kmip-model` — line-protocol driver over the executable model (core Lean only).
  One request per input line, one answer per output line.
-/
import KmipModel.Model.Syntax
open Kmip

def renderRes (r : Res String) : String :=
  match r with
  | .ok s => "ok " ++ s
  | .err _ => "err"
  | .panic m => "panic " ++ m

def handle (line : String) : String :=
  let line := line.trimAscii.toString
  match line.splitOn " " with
  | [] => "bad-op"
  | cmd :: _ =>
    let arg := (line.drop (cmd.length + 1)).toString
    match cmd with
    | "ping" => "pong"
    | "wire.enc" =>
      match parseTree arg with
      | some t => "ok " ++ hexOfBytes (enc t)
      | none => "bad-op"
    | "wire.dec" =>
      match bytesOfHex arg with
      | some bs => renderRes (do let t ← unmarshalValue bs; pure t.render)
      | none => "bad-op"
    | "wire.spec" =>
      match bytesOfHex arg with
      | some bs => match specDecode bs with
        | some t => "ok " ++ t.render
        | none => "none"
      | none => "bad-op"
    | "big.enc" =>
      match arg.toInt? with
      | some v => "ok " ++ hexOfBytes (encodeBig v)
      | none => "bad-op"
    | "big.dec" =>
      match bytesOfHex arg with
      | some [] => "err"
      | some bs => "ok " ++ toString (bytesToBigInt bs)
      | none => "bad-op"
    | "pad" =>
      match arg.toNat? with
      | some n => "ok " ++ toString (padForLen n 8)
      | none => "bad-op"
    | _ => "bad-op"

partial def loop (hin hout : IO.FS.Stream) : IO Unit := do
  let line ← hin.getLine
  if line.isEmpty then return ()
  hout.putStrLn (handle line)
  loop hin hout

def main : IO Unit := do
  let hin ← IO.getStdin
  let hout ← IO.getStdout
  loop hin hout
  hout.flush
