/-
  C02 — decoders never panic, hang, over-read or mutate on arbitrary input (binary generic layer).

  The model keeps the Go panic primitives visible (`goU32`, `goU64`, `goIndex`, `goBytesToBigInt`
  return `.panic` on short input), so "never panics" is a theorem about the guards of the reader.
  All functions are total (fuel-bounded) and pure, so they neither hang nor mutate their input; the
  extent theorems say that the raw items are taken from inside the input and do not overlap.
-/
import KmipModel.Lemmas.ReaderLemmas
import KmipModel.Props.C03
namespace Kmip.C02
open Kmip

/-- 1a. no getter of the binary reader panics, for any cursor and any expected tag: the length
    guard (`assertLen` / the empty check) precedes the panicking primitive. -/
theorem getters_no_panic (c : Cur) (tag : Nat) :
    (∀ msg, c.integer tag ≠ .panic msg) ∧ (∀ msg, c.longInteger tag ≠ .panic msg) ∧
    (∀ msg, c.enum tag ≠ .panic msg) ∧ (∀ msg, c.bool tag ≠ .panic msg) ∧
    (∀ msg, c.dateTime tag ≠ .panic msg) ∧ (∀ msg, c.interval tag ≠ .panic msg) ∧
    (∀ msg, c.bigInteger tag ≠ .panic msg) ∧ (∀ msg, c.textString tag ≠ .panic msg) ∧
    (∀ msg, c.byteString tag ≠ .panic msg) :=
  ⟨Cur.integer_noPanic c tag, Cur.longInteger_noPanic c tag, Cur.enum_noPanic c tag,
    Cur.bool_noPanic c tag, Cur.dateTime_noPanic c tag, Cur.interval_noPanic c tag,
    Cur.bigInteger_noPanic c tag, Cur.textString_noPanic c tag, Cur.byteString_noPanic c tag⟩

/-- 1b. `Struct(tag, f)` does not panic if the callback does not. -/
theorem struct_no_panic {α : Type} (c : Cur) (tag : Nat) (f : Cur → Res α)
    (hf : ∀ inner msg, f inner ≠ .panic msg) : ∀ msg, c.struct tag f ≠ .panic msg :=
  Cur.struct_noPanic c tag f hf

/-- 1c. the generic value decoder and the structure loop never panic, for any fuel, cursor, tag. -/
theorem decodeValue_no_panic (fuel : Nat) (c : Cur) (tag : Nat) :
    ∀ msg, decodeValue fuel c tag ≠ .panic msg :=
  (decode_noPanic fuel).1 c tag

theorem decodeFields_no_panic (fuel : Nat) (c : Cur) : ∀ msg, decodeFields fuel c ≠ .panic msg :=
  (decode_noPanic fuel).2 c

/-- 1. `UnmarshalTTLV(bs, &ttlv.Value{})` never panics — for every byte string. -/
theorem unmarshalValue_no_panic (bs : Bytes) : ∀ msg, unmarshalValue bs ≠ .panic msg :=
  unmarshalValue_noPanic bs

/-- 2. values are taken from inside the input only: the value of every raw item is a contiguous
    part of the input, after at least the 8 bytes of its header and followed by at least its
    padding. -/
theorem rawParse_within (fuel : Nat) (bs : Bytes) :
    ∀ it ∈ (rawParse fuel bs).1, ∃ pre post, bs = pre ++ it.val ++ post ∧ 8 ≤ pre.length ∧
      padForLen it.val.length 8 ≤ post.length :=
  fun it h => rawParse_within_aux fuel bs it h

/-- 2'. the same in terms of `List.IsInfix` and lengths. -/
theorem rawParse_infix (fuel : Nat) (bs : Bytes) :
    ∀ it ∈ (rawParse fuel bs).1, it.val <:+: bs ∧ 8 + paddedLen it.val.length ≤ bs.length := by
  intro it h
  obtain ⟨pre, post, e, h1, h2⟩ := rawParse_within fuel bs it h
  refine ⟨⟨pre, post, e.symm⟩, ?_⟩
  have := congrArg List.length e
  simp only [List.length_append] at this
  unfold paddedLen
  omega

/-- 3. the items (header + padded value each) fit side by side into the input: no overlap, no
    over-read. -/
theorem rawParse_extent (fuel : Nat) (bs : Bytes) :
    ((rawParse fuel bs).1.map fun it => 8 + paddedLen it.val.length).sum ≤ bs.length :=
  rawParse_extent_aux fuel bs

/-- 4. the library's generic decoder reads back every in-range encoding (`InRange` already demands
    a non-zero tag at every node, so no separate "no zero tag" predicate is needed). -/
theorem unmarshal_enc (t : Item) (h : t.InRange) : unmarshalValue (enc t) = .ok t :=
  unmarshalValue_enc t h

/-- 4'. generalised to any sufficient fuel and any following siblings. -/
theorem decodeValue_enc (t : Item) (h : t.InRange) (fuel : Nat) (hf : t.size ≤ fuel)
    (rs : List RawItem) :
    decodeValue fuel { items := t.raw :: rs, tail := none } t.tag
      = .ok (t, { items := rs, tail := none }) :=
  decodeValue_enc_aux t h fuel hf rs

theorem rawParse_encList_eq (ts : List Item) (h : Item.AllInRange ts) (fuel : Nat)
    (hf : ts.length ≤ fuel) : rawParse fuel (encList ts) = (ts.map Item.raw, none) :=
  rawParse_encList ts h fuel hf

/-! ### non-vacuity -/

theorem sample_inRange : C03.sample.InRange := by
  have e1 : (encodeBig (-128)).length = 8 := by
    rw [encodeBig_neg _ (by decide)]
    simp [negBody, negPad, natToBytesBE, negEncLE, padForLen]
  have e2 : (encodeBig 18446744073709551616).length = 16 := by
    rw [encodeBig_pos _ (by decide)]
    simp [posPad, natToBytesBE, padForLen]
  simp [C03.sample, Item.InRange, Item.AllInRange, inInt, enc, encList, hdr, e1, e2, padForLen]

example : unmarshalValue (enc C03.sample) = .ok C03.sample := unmarshal_enc _ sample_inRange

set_option maxRecDepth 8192 in
/-- an Integer item announcing 2 value bytes: rejected by the length guard, `goU32` is not reached. -/
example : unmarshalValue [0x42, 0, 0x0A, 2, 0, 0, 0, 2, 0, 0, 0, 0, 0, 0, 0, 0] = .err .badLength := by
  rfl

set_option maxRecDepth 8192 in
/-- an empty BigInteger: rejected before `bytesToBigInt` indexes `v[0]`. -/
example : unmarshalValue [0x42, 0, 0x0A, 4, 0, 0, 0, 0] = .err .badLength := by rfl

/-- the panicking primitives do panic on the inputs the guards exclude. -/
example : goU32 [0, 0] = .panic "index out of range [3]" := rfl
example : goBytesToBigInt [] = .panic "index out of range [0] with length 0" := rfl

end Kmip.C02
