package main

import (
	"bytes"
	"fmt"
	"reflect"
	"strings"

	kmip "github.com/ovh/kmip-go"
	"github.com/ovh/kmip-go/ttlv"

	"verifharness/internal/report"
	"verifharness/internal/schema"
	"verifharness/internal/tree"
)

// The `gate` engine: impl-side oracle of C05 (version gating), independent of the library's struct
// annotations: a PINNED table (same content as lean/KmipModel/Pinned/Introduced.lean, DESIGN.md
// Appendix B) says in which protocol version each version-dependent element appears.

type gateKey struct {
	parent int // struct tag, or 1000000 + 2*op + direction for operation payloads
	child  int
}

type ver struct{ maj, min int }

func (a ver) lt(b ver) bool { return a.maj < b.maj || (a.maj == b.maj && a.min < b.min) }

func payloadKey(op uint32, response bool) int {
	k := 1000000 + 2*int(op)
	if response {
		k++
	}
	return k
}

// pinnedIntroduced: (parent, child) -> version introducing the child inside that parent.
// For Authentication the entry concerns Credential elements AFTER the first one.
var pinnedIntroduced = map[gateKey]ver{
	{0x420077, 0x420105}: {1, 4}, {0x420077, 0x420106}: {1, 4}, {0x420077, 0x4200D3}: {1, 2}, {0x420077, 0x4200C7}: {1, 2},
	{0x42000C, 0x420023}: {1, 2},
	{0x42007A, 0x4200C8}: {1, 2}, {0x42007A, 0x4200C7}: {1, 2}, {0x42007A, 0x420105}: {1, 4}, {0x42007A, 0x420106}: {1, 4},
	{payloadKey(8, false), 0x4200D4}: {1, 3}, {payloadKey(8, false), 0x4200AC}: {1, 1}, {payloadKey(8, true), 0x4200D5}: {1, 3},
	{payloadKey(10, false), 0x4200F8}: {1, 4},
	{0x420047, 0x4200A3}:              {1, 1}, {0x420046, 0x4200A3}: {1, 1}, {0x420034, 0x420042}: {1, 1},
	{0x42002B, 0x4200AE}: {1, 2}, {0x42002B, 0x420028}: {1, 2}, {0x42002B, 0x4200C5}: {1, 2}, {0x42002B, 0x4200CD}: {1, 2},
	{0x42002B, 0x4200CE}: {1, 2}, {0x42002B, 0x4200CF}: {1, 2}, {0x42002B, 0x4200D2}: {1, 2}, {0x42002B, 0x4200D0}: {1, 2},
	{0x42002B, 0x4200D1}: {1, 2}, {0x42002B, 0x420100}: {1, 4}, {0x42002B, 0x420101}: {1, 4}, {0x42002B, 0x420102}: {1, 4},
	{0x42002B, 0x420103}: {1, 4}, {0x42002B, 0x420104}: {1, 4},
	{payloadKey(24, true), 0x4200A4}: {1, 1}, {payloadKey(24, true), 0x4200C7}: {1, 2}, {payloadKey(24, true), 0x4200D9}: {1, 3},
	{payloadKey(24, true), 0x4200EB}: {1, 3}, {payloadKey(24, true), 0x4200DF}: {1, 3}, {payloadKey(24, true), 0x4200F7}: {1, 3},
	{payloadKey(24, true), 0x4200F6}: {1, 3},
	{0x4200F7, 0x4200F9}:             {1, 4}, {0x4200F7, 0x4200FA}: {1, 4},
	{payloadKey(31, false), 0x4200D6}: {1, 3}, {payloadKey(31, false), 0x4200D7}: {1, 3}, {payloadKey(31, false), 0x4200D8}: {1, 3}, {payloadKey(31, false), 0x4200FE}: {1, 4},
	{payloadKey(31, true), 0x4200D6}: {1, 3}, {payloadKey(31, true), 0x4200FF}: {1, 4},
	{payloadKey(32, false), 0x4200D6}: {1, 3}, {payloadKey(32, false), 0x4200D7}: {1, 3}, {payloadKey(32, false), 0x4200D8}: {1, 3},
	{payloadKey(32, false), 0x4200FE}: {1, 4}, {payloadKey(32, false), 0x4200FF}: {1, 4}, {payloadKey(32, true), 0x4200D6}: {1, 3},
	{payloadKey(33, false), 0x420107}: {1, 4}, {payloadKey(33, false), 0x4200D6}: {1, 3}, {payloadKey(33, false), 0x4200D7}: {1, 3}, {payloadKey(33, false), 0x4200D8}: {1, 3},
	{payloadKey(33, true), 0x4200D6}:  {1, 3},
	{payloadKey(34, false), 0x420107}: {1, 4}, {payloadKey(34, false), 0x4200D6}: {1, 3}, {payloadKey(34, false), 0x4200D7}: {1, 3}, {payloadKey(34, false), 0x4200D8}: {1, 3},
	{payloadKey(34, true), 0x4200D6}: {1, 3},
}

// filterTree removes from t (an encoding made at a version where everything is in range) every element
// the pinned table introduces after v. response: direction of the message; op: operation of the
// enclosing batch item (0 outside).
func filterTree(t *tree.Item, v ver, response bool, op uint32) *tree.Item {
	return filterTreeA(t, v, response, op, 0)
}

func filterTreeA(t *tree.Item, v ver, response bool, op uint32, attrParent int) *tree.Item {
	if t.Kind != tree.KStruct {
		return t
	}
	out := &tree.Item{Kind: tree.KStruct, Tag: t.Tag}
	parent := t.Tag
	if t.Tag == kmip.TagRequestPayload || t.Tag == kmip.TagResponsePayload {
		parent = payloadKey(op, response)
	}
	curOp := op
	if t.Tag == kmip.TagBatchItem {
		for _, c := range t.Children {
			if c.Tag == kmip.TagOperation && c.Kind == tree.KEnum {
				curOp = uint32(c.Int)
			}
		}
	}
	// an Attribute's value structure is the one named by its Attribute Name (it travels under the Attribute Value tag)
	attrValueParent := 0
	if t.Tag == kmip.TagAttribute {
		for _, c := range t.Children {
			if c.Tag == kmip.TagAttributeName && c.Kind == tree.KText {
				name := strings.NewReplacer(" ", "", ".", "_", "#", "_").Replace(string(c.Data))
				for tg := 0x420001; tg < 0x420200; tg++ {
					if ttlv.TagString(tg) == name {
						attrValueParent = tg
					}
				}
			}
		}
	}
	if t.Tag == kmip.TagAttributeValue && attrParent != 0 {
		parent = attrParent
	}
	seenCred := false
	for _, c := range t.Children {
		if intro, ok := pinnedIntroduced[gateKey{parent, c.Tag}]; ok && v.lt(intro) {
			if parent == 0x42000C && !seenCred {
				seenCred = true // the first Credential exists in every version
			} else {
				continue
			}
		}
		out.Children = append(out.Children, filterTreeA(c, v, response, curOp, attrValueParent))
	}
	return out
}

func setVersionItems(t *tree.Item, v ver) {
	// the message header's ProtocolVersion (first child of the first child of the root)
	if len(t.Children) > 0 && len(t.Children[0].Children) > 0 && t.Children[0].Children[0].Tag == kmip.TagProtocolVersion {
		pv := t.Children[0].Children[0]
		if len(pv.Children) == 2 {
			pv.Children[0].Int, pv.Children[1].Int = int64(v.maj), int64(v.min)
		}
	}
}

func init() {
	register(&Engine{
		Name: "gate",
		Rule: "request/response messages with EVERY field populated (version-dependent ones included, inside nested structures, attributes and batches) encoded at each protocol version 1.0..1.4 and at 1.4; the tree at version V must equal the 1.4 tree with exactly the elements the pinned KMIP table introduces after V removed; the 1.4 bytes with the header patched to V must decode to the full value; distinct = message x version; nontrivial = message contains at least one version-dependent element",
		Run:  runGate,
	})
}

func headerVersion(x any) *kmip.ProtocolVersion {
	switch m := x.(type) {
	case *kmip.RequestMessage:
		return &m.Header.ProtocolVersion
	case *kmip.ResponseMessage:
		return &m.Header.ProtocolVersion
	}
	return nil
}

func runGate(ctx *Ctx) {
	s := getSchema()
	r := ctx.R
	reqT := planTarget{s.Roots["RequestMessage"], reflect.TypeFor[*kmip.RequestMessage](), 0}
	respT := planTarget{s.Roots["ResponseMessage"], reflect.TypeFor[*kmip.ResponseMessage](), 0}
	n := ctx.N(250, 8000)
	for i := 0; i < n; i++ {
		tg := reqT
		if i%2 == 1 {
			tg = respT
		}
		fill := 2
		if i%5 == 4 {
			fill = 1
		}
		p := &popCfg{r: r, s: s, fill: fill, respectGating: false, extTags: true}
		x := reflect.New(tg.ty.Elem())
		p.populate(x.Elem())
		hv := headerVersion(x.Interface())
		*hv = kmip.V1_4
		full, pn := guard("MarshalTTLV", func() []byte { return ttlv.MarshalTTLV(x.Interface()) })
		if pn != "" {
			continue
		}
		fullTree, err := tree.Decode(full)
		if err != nil {
			continue
		}
		fullVal, _ := s.Render(x, s.Dyns[tg.dyn].Kind)
		for minor := 0; minor <= 4; minor++ {
			v := ver{1, minor}
			*hv = kmip.ProtocolVersion{ProtocolVersionMajor: 1, ProtocolVersionMinor: int32(minor)}
			val, _ := s.Render(x, s.Dyns[tg.dyn].Kind)
			line := fmt.Sprintf("plan.enc %d 0 %s", tg.dyn, val)
			ctx.current = line
			got, pn := guard("MarshalTTLV", func() []byte { return ttlv.MarshalTTLV(x.Interface()) })
			impl := "ok " + hexUp(got)
			if pn != "" {
				impl = "panic"
			}
			want := filterTree(fullTree, v, tg.dyn == respT.dyn, 0)
			setVersionItems(want, v)
			nontrivial := want.Render() != fullTree.Render()
			ctx.Add(line, impl, nontrivial, "C05,C01")
			if pn != "" {
				continue
			}
			gotTree, err := tree.Decode(got)
			if err != nil {
				ctx.Res.Violate(report.Violation{Property: "C03", Oracle: "independent-parse", Key: "gate:not-wellformed", Detail: err.Error(), Line: line})
				continue
			}
			if gotTree.Render() != want.Render() {
				a, b := want.Render(), gotTree.Render()
				kind := "later-element-present-or-in-range-element-missing"
				if len(b) > len(a) {
					kind = "element-introduced-after-V-present"
				} else if len(b) < len(a) {
					kind = "in-range-element-missing"
				}
				ctx.Res.Violate(report.Violation{Property: "C05", Oracle: "gating", Key: "gate:" + kind, Detail: fmt.Sprintf("at version 1.%d: %s", minor, firstDiff(a, b)), Line: line})
			}
			ctx.Res.Count(fmt.Sprintf("gate.v1.%d", minor))
			if nontrivial {
				ctx.Res.Count("gate.nontrivial")
			}
			// decoding is lenient: the full (1.4) element set under a version-V header is accepted and returned
			patched := append([]byte{}, full...)
			pt, err := tree.Decode(patched)
			if err == nil {
				setVersionItems(pt, v)
				patched = pt.Encode()
				dline := fmt.Sprintf("plan.dec %d 0 %s", tg.dyn, hexUp(patched))
				dimpl, _ := unmarshalInto(s, tg, append([]byte{}, patched...))
				ctx.Add(dline, dimpl, true, "C05,C02")
				wantVal := "ok " + val // same value, version fields = V
				_ = fullVal
				if normContent(dimpl) != normContent(wantVal) {
					ctx.Res.Violate(report.Violation{Property: "C05", Oracle: "lenient-decode", Key: "gate:later-element-not-returned", Detail: fmt.Sprintf("decoding at 1.%d drops or rejects later-version elements: %s", minor, firstDiff(normContent(wantVal), normContent(dimpl))), Line: dline})
				}
			}
		}
		_ = bytes.Equal
	}
	_ = schema.Kind{}
}
