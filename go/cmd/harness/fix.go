package main

import (
	"bytes"
	"encoding/hex"
	"fmt"
	"os"
	"path/filepath"
	"reflect"
	"sort"
	"strconv"
	"strings"
	"time"
	"unicode/utf8"

	kmip "github.com/ovh/kmip-go"
	"github.com/ovh/kmip-go/ttlv"

	"verifharness/internal/report"
	"verifharness/internal/rng"
	"verifharness/internal/schema"
	"verifharness/internal/tree"
)

// The `fix` engine belongs to C18 alone. It states the property on the REAL code for the input classes the
// property's quantifier lists and that byte-level mutation never produces: accepted inputs that differ from
// what an encoder of the library emits by their STRUCTURE — reordered siblings, duplicated fields, complete
// well-formed unknown items inside nested structures at every depth, omitted optional elements, zero values
// of omitempty fields, later-version elements under a lower protocol version, over-long / non-minimal big
// integers, non-zero padding — in the three encodings (binary: item-tree level mutation of real message
// encodings; XML: element level; JSON: member / array-element level, plus the alternative lexical forms of
// the text readers applied to real messages and to the third-party OASIS conformance vectors).
//
// Every input the library ACCEPTS (typed target, and the generic ttlv.Value for binary) goes through
//
//	same encoding:   v -> e1 = enc(v) -> v1 = dec(e1) (must be accepted) -> e2 = enc(v1), e2 == e1
//	cross encoding:  when the text strings of v are representable in the other encoding and its dates lie in
//	                 years 1..9999: for every other encoding F, vF = decF(encF(v)) must be accepted and carry
//	                 the same three encodings as v (bin, XML, JSON byte-identical), and every order
//	                 E -> F -> G -> E comes back to e1.
//
// Only accepted inputs are C18-relevant: a rejected mutant is counted, nothing else. The binary mutants are
// also sent to the Lean model (`plan.dec` lines) so that the typed-layer model is tied on these classes.
// Per (encoding, class) the engine counts the accepted NON-CANONICAL mutants (accepted and different from
// their own re-encoding) and fails below a floor: an engine that accepts no mutant of a class proves nothing.

func init() {
	// Everything the harness compares assumes the process zone is UTC (the text writers print dates in
	// time.Local; the models' RFC 3339 stand-in is UTC). Pinned here rather than assumed of the machine.
	time.Local = time.UTC
	register(&Engine{
		Name: "fix",
		Rule: "typed-layer structural non-canonical inputs: request/response messages and every standalone registered object type from the schema-directed populator (XML-representable text, years 1..9999; fill levels; versions 1.0-1.4) and the OASIS conformance vectors, encoded by the library in binary, XML and JSON, then mutated at item/element/member level (swap, move, duplicate, delete, zero value, unknown item at front/middle/end of a structure at a random depth, protocol version lowered/raised in the header, over-long and non-aligned big integers, non-zero padding, alternative lexical forms, member/attribute order, duplicate members, compositions of two or three of these, and NESTED pairs: a structure moved among its siblings — in front of the fields that decide how it is decoded, to the end, swapped, duplicated — whose own content is non-canonical); accepted mutants re-encoded to a fixed point in their own encoding and through the two others in every order; distinct = distinct line; nontrivial = all",
		Run:  runFix,
	})
}

// ---------------------------------------------------------------------------------------------------------
// codecs

type fixCodec struct {
	name      string
	marshal   func(any) []byte
	unmarshal func([]byte, any) error
	newEnc    func() ttlv.Encoder
	newDec    func([]byte) (ttlv.Decoder, error)
}

var fixCodecs = []fixCodec{
	{"ttlv", ttlv.MarshalTTLV, ttlv.UnmarshalTTLV, ttlv.NewTTLVEncoder, ttlv.NewTTLVDecoder},
	{"xml", ttlv.MarshalXML, ttlv.UnmarshalXML, ttlv.NewXMLEncoder, ttlv.NewXMLDecoder},
	{"json", ttlv.MarshalJSON, ttlv.UnmarshalJSON, ttlv.NewJSONEncoder, ttlv.NewJSONDecoder},
}

func fixNew(ty reflect.Type) any {
	if ty.Kind() == reflect.Pointer {
		return reflect.New(ty.Elem()).Interface()
	}
	return reflect.New(ty).Interface()
}

// fixEnc encodes v under its own tag (tag 0) or under an explicit one (payload types).
func fixEnc(c fixCodec, tag int, v any) ([]byte, string) {
	b, p := guard("Marshal "+c.name, func() []byte {
		if tag == 0 {
			return c.marshal(v)
		}
		enc := c.newEnc()
		enc.TagAny(tag, v)
		return enc.Bytes()
	})
	return b, p
}

// fixDec decodes into a fresh value; "" = accepted.
func fixDec(c fixCodec, tg planTarget, b []byte) (any, string) {
	v := fixNew(tg.ty)
	err, p := guard("Unmarshal "+c.name, func() error {
		in := append([]byte{}, b...)
		if tg.tag == 0 {
			return c.unmarshal(in, v)
		}
		dec, err := c.newDec(in)
		if err != nil {
			return err
		}
		return dec.TagAny(tg.tag, v)
	})
	if p != "" {
		return nil, "panic: " + p
	}
	if err != nil {
		return nil, "error: " + err.Error()
	}
	return v, ""
}

// xmlCharOK: the Char production of XML 1.0 (what encoding/xml writes unchanged).
func xmlCharOK(r rune) bool {
	return r == 0x9 || r == 0xA || r == 0xD || (r >= 0x20 && r <= 0xD7FF) || (r >= 0xE000 && r <= 0xFFFD) || (r >= 0x10000 && r <= 0x10FFFF)
}

// representable: from the item tree of v's binary encoding: every text string valid UTF-8 (JSON) made of
// XML characters (XML); every date within years 1..9999 (UTC).
func fixRepresentable(bin []byte) (xmlOK, jsonOK bool) {
	t, err := tree.Decode(bin)
	if err != nil {
		return false, false
	}
	xmlOK, jsonOK = true, true
	var walk func(it *tree.Item)
	walk = func(it *tree.Item) {
		switch it.Kind {
		case tree.KStruct:
			for _, c := range it.Children {
				walk(c)
			}
		case tree.KText:
			if !utf8.Valid(it.Data) {
				xmlOK, jsonOK = false, false
				return
			}
			for _, r := range string(it.Data) {
				if !xmlCharOK(r) {
					xmlOK = false
				}
			}
		case tree.KDate:
			// years 1..9999, in UTC and in the process zone (the text writers print local time)
			if it.Int < -62135596800 || it.Int > 253402300799 {
				xmlOK, jsonOK = false, false
			} else if y := time.Unix(it.Int, 0).In(time.Local).Year(); y < 1 || y > 9999 {
				xmlOK, jsonOK = false, false
			}
		}
	}
	walk(t)
	return
}

type fixStats struct {
	generated, accepted, noncanon, cross int
}

// fixOracle: v was decoded by codec `e` from an accepted input. Returns (re-encoding, number of cross hops made).
func fixOracle(ctx *Ctx, line string, tg planTarget, goType string, e int, v any) ([]byte, int) {
	E := fixCodecs[e]
	viol := func(oracle, key, detail string) {
		ctx.Res.Violate(report.Violation{Property: "C18", Oracle: oracle, Key: key, Detail: detail, Line: line})
	}
	e1, p := fixEnc(E, tg.tag, v)
	if p != "" {
		viol("reencode-total", E.name+":accepted-but-unencodable:"+goType, "an accepted "+E.name+" input cannot be re-encoded: "+p)
		return nil, 0
	}
	v1, why := fixDec(E, tg, e1)
	if v1 == nil {
		viol("redecode", E.name+":reencoded-not-accepted:"+goType, "the re-encoding of an accepted "+E.name+" input is rejected ("+why+"); re-encoding="+fixShow(E, e1))
		return e1, 0
	}
	if e2, p := fixEnc(E, tg.tag, v1); p != "" || !bytes.Equal(e1, e2) {
		viol("fixed-point", E.name+":second-reencode-differs:"+goType, "the second re-encoding differs from the first: "+firstDiff(fixShow(E, e1), fixShow(E, e2))+" "+p)
		return e1, 0
	}
	// ---- the two other encodings ----
	var encs [3][]byte
	for k, c := range fixCodecs {
		b, p := fixEnc(c, tg.tag, v)
		if p != "" {
			if k == 0 || k == e {
				viol("cross-encoding", E.name+"->"+c.name+":unencodable:"+goType, "an accepted "+E.name+" input cannot be encoded in "+c.name+": "+p)
			}
			// a text encoder may refuse what is not representable; judged below only when representable
			b = nil
		}
		encs[k] = b
	}
	if encs[0] == nil {
		return e1, 0
	}
	xmlOK, jsonOK := fixRepresentable(encs[0])
	ok := [3]bool{true, xmlOK, jsonOK}
	hops := 0
	var hop [3]any
	for f, F := range fixCodecs {
		if !ok[f] || !ok[e] {
			continue
		}
		if encs[f] == nil {
			viol("cross-encoding", E.name+"->"+F.name+":unencodable:"+goType, "an accepted "+E.name+" input whose strings and dates are representable cannot be encoded in "+F.name)
			continue
		}
		vF, why := fixDec(F, tg, encs[f])
		if vF == nil {
			viol("cross-encoding", E.name+"->"+F.name+":not-accepted:"+goType, "the "+F.name+" encoding of an accepted "+E.name+" input is rejected ("+why+"): "+fixShow(F, encs[f]))
			continue
		}
		hop[f] = vF
		hops++
		for y, Y := range fixCodecs {
			if !ok[y] || encs[y] == nil {
				continue
			}
			b, p := fixEnc(Y, tg.tag, vF)
			if p != "" || !bytes.Equal(b, encs[y]) {
				viol("cross-encoding", E.name+"->"+F.name+":"+Y.name+"-differs:"+goType, "after the hop through "+F.name+" the "+Y.name+" encoding of the value differs: "+firstDiff(fixShow(Y, encs[y]), fixShow(Y, b))+" "+p)
			}
		}
	}
	// every order E -> F -> G -> E comes back to e1
	for f := range fixCodecs {
		for g := range fixCodecs {
			if f == e || g == e || f == g || hop[f] == nil || !ok[g] {
				continue
			}
			F, G := fixCodecs[f], fixCodecs[g]
			gb, p := fixEnc(G, tg.tag, hop[f])
			if p != "" {
				continue // reported above
			}
			vG, why := fixDec(G, tg, gb)
			if vG == nil {
				viol("cross-encoding", E.name+"->"+F.name+"->"+G.name+":not-accepted:"+goType, "the chain stops: "+why)
				continue
			}
			eb, p := fixEnc(E, tg.tag, vG)
			if p != "" || !bytes.Equal(eb, e1) {
				viol("cross-encoding", E.name+"->"+F.name+"->"+G.name+"->"+E.name+":differs:"+goType, "the chain does not come back to the first re-encoding: "+firstDiff(fixShow(E, e1), fixShow(E, eb))+" "+p)
			}
			hops++
		}
	}
	return e1, hops
}

func fixShow(c fixCodec, b []byte) string {
	if c.name == "ttlv" {
		return hexUp(b)
	}
	return string(b)
}

// ---------------------------------------------------------------------------------------------------------
// counters and floors

type fixCounter map[string]*fixStats

func (fc fixCounter) get(k string) *fixStats {
	s := fc[k]
	if s == nil {
		s = &fixStats{}
		fc[k] = s
	}
	return s
}

var fixCount fixCounter

// fixZones: process zones other than UTC under which date-bearing text documents are decoded as well
// (class suffix "@+14" / "@-12"): the text readers convert to time.Local and the writers print local time.
var fixZones = map[string]*time.Location{"+14": time.FixedZone("", 14*3600), "-12": time.FixedZone("", -12*3600), "+0530": time.FixedZone("", 5*3600+1800)}

// canonText: a text document re-serialised by the harness's own serialiser (to compare a mutant with its
// re-encoding irrespective of white space).
func canonText(e int, doc []byte) string {
	switch e {
	case 1:
		if els, err := parseXels(doc); err == nil && len(els) == 1 {
			return els[0].String()
		}
	case 2:
		if n, err := parseJ(doc); err == nil {
			return n.String()
		}
	}
	return string(doc)
}

// fixCase: one input in encoding e for the typed target tg (and, for binary, the generic ttlv.Value).
func fixCase(ctx *Ctx, s *schema.Schema, tg planTarget, e int, class string, depth int, in []byte) {
	E := fixCodecs[e]
	goType := s.Dyns[tg.dyn].GoType
	line := fmt.Sprintf("#fix.%s %d/%d %s %s", E.name, tg.dyn, tg.tag, class, hexUp(in))
	ctx.current = line
	if _, zone, ok := strings.Cut(class, "@"); ok {
		if loc := fixZones[zone]; loc != nil {
			goType = "(process zone not UTC)" // one key per oracle, whatever the zone and the message type
			time.Local = loc
			defer func() { time.Local = time.UTC }()
		}
	}
	key := E.name + "." + class
	if e == 0 {
		// correspondence with the typed-layer model on the structural classes; only ACCEPTED inputs are
		// C18-relevant (a decoder that rejects more than the model is harmless for this property)
		pl := fmt.Sprintf("plan.dec %d %d %s", tg.dyn, tg.tag, hexUp(in))
		impl, back := unmarshalInto(s, tg, append([]byte{}, in...))
		props := "C02"
		if back != nil {
			props = "C18"
		}
		ctx.Add(pl, impl, true, props)
		if back != nil {
			// do the side conditions of C18.typed_reencode_fixpoint_partial hold of this accepted input? (answered by
			// the model only; counted in the evidence as `model.plan.side: …`)
			ctx.Add(fmt.Sprintf("plan.side %d %d %s", tg.dyn, tg.tag, hexUp(in)), "?", false, "C18")
		}
	}
	v, why := fixDec(E, tg, in)
	outcome := "err"
	switch {
	case v != nil:
		outcome = "ok"
	case strings.HasPrefix(why, "panic"):
		outcome = "panic" // C02's business; not judged here
	}
	ctx.Res.Count("fix." + key + "." + outcome)
	st := fixCount.get(key)
	st.generated++
	if v != nil {
		st.accepted++
		e1, hops := fixOracle(ctx, line, tg, goType, e, v)
		st.cross += hops
		if e1 != nil && ((e == 0 && !bytes.Equal(e1, in)) || (e != 0 && canonText(e, e1) != canonText(e, in))) {
			st.noncanon++
			if depth >= 0 && strings.HasPrefix(class, "unk") {
				fixCount.get(fmt.Sprintf("%s.unk@depth%d", E.name, min(depth, 3))).noncanon++
			}
		}
	}
	ctx.Add(line, outcome, true, "")
	if e == 0 && tg.tag == 0 {
		// generic layer: the same bytes into a ttlv.Value
		gt := planTarget{0, tValue, 0}
		gline := fmt.Sprintf("#fix.generic 0/0 %s %s", class, hexUp(in))
		gv, _ := fixDec(E, gt, in)
		if gv != nil {
			ctx.current = gline
			gst := fixCount.get("generic." + class)
			gst.accepted++
			g1, hops := fixOracle(ctx, gline, gt, "ttlv.Value", 0, gv)
			gst.cross += hops
			if g1 != nil && !bytes.Equal(g1, in) {
				gst.noncanon++
			}
		}
	}
}

// ---------------------------------------------------------------------------------------------------------
// binary: item trees with raw values

type mnode struct {
	tag  int
	typ  byte
	kids []*mnode
	val  []byte // raw value bytes of a leaf
	pad  []byte // nil: zero padding up to 8; else these bytes exactly
}

func parseM(b []byte) (*mnode, error) {
	n, rest, err := parseM1(b, 0)
	if err != nil {
		return nil, err
	}
	if len(rest) != 0 {
		return nil, fmt.Errorf("trailing bytes")
	}
	return n, nil
}

func parseM1(b []byte, depth int) (*mnode, []byte, error) {
	if len(b) < 8 || depth > 64 {
		return nil, nil, fmt.Errorf("short header")
	}
	n := &mnode{tag: int(b[0])<<16 | int(b[1])<<8 | int(b[2]), typ: b[3]}
	l := int(b[4])<<24 | int(b[5])<<16 | int(b[6])<<8 | int(b[7])
	pl := (l + 7) / 8 * 8
	if len(b) < 8+pl {
		return nil, nil, fmt.Errorf("short value")
	}
	body := b[8 : 8+l]
	if n.typ == 1 {
		for len(body) > 0 {
			c, rest, err := parseM1(body, depth+1)
			if err != nil {
				return nil, nil, err
			}
			n.kids = append(n.kids, c)
			body = rest
		}
	} else {
		n.val = append([]byte{}, body...)
	}
	return n, b[8+pl:], nil
}

func (n *mnode) enc() []byte {
	var val []byte
	if n.typ == 1 {
		for _, c := range n.kids {
			val = append(val, c.enc()...)
		}
	} else {
		val = n.val
	}
	out := []byte{byte(n.tag >> 16), byte(n.tag >> 8), byte(n.tag), n.typ, byte(len(val) >> 24), byte(len(val) >> 16), byte(len(val) >> 8), byte(len(val))}
	out = append(out, val...)
	if n.pad != nil && n.typ != 1 {
		out = append(out, n.pad...)
	} else {
		for len(out)%8 != 0 {
			out = append(out, 0)
		}
	}
	return out
}

func (n *mnode) clone() *mnode {
	c := &mnode{tag: n.tag, typ: n.typ, val: append([]byte(nil), n.val...)}
	if n.pad != nil {
		c.pad = append([]byte{}, n.pad...)
	}
	for _, k := range n.kids {
		c.kids = append(c.kids, k.clone())
	}
	return c
}

type mloc struct {
	n     *mnode
	depth int
}

func (n *mnode) structs(depth int, out *[]mloc) {
	if n.typ == 1 {
		*out = append(*out, mloc{n, depth})
		for _, k := range n.kids {
			k.structs(depth+1, out)
		}
	}
}

func (n *mnode) leaves(depth int, pred func(*mnode) bool, out *[]mloc) {
	if n.typ != 1 {
		if pred(n) {
			*out = append(*out, mloc{n, depth})
		}
		return
	}
	for _, k := range n.kids {
		k.leaves(depth+1, pred, out)
	}
}

// unknownM: a complete well-formed item no typed decoder knows at that place.
func unknownM(r *rng.R, sibling *mnode, depth int) *mnode {
	tag := 0x540000 + 1 + r.Intn(0xFFFE)
	if r.Chance(1, 5) {
		// a standard tag that means nothing there
		tag = rng.Pick(r, []int{0x420001, 0x42007B, 0x4200A0, 0x420124, 0x42FFFF, 0x000001, 0xFFFFFF})
	}
	switch r.Intn(9) {
	case 0:
		return &mnode{tag: tag, typ: 2, val: []byte{0, 0, 0, byte(r.Intn(256))}}
	case 1:
		return &mnode{tag: tag, typ: 3, val: r.Bytes(8)}
	case 2:
		return &mnode{tag: tag, typ: 4, val: append([]byte{0, 0, 0, 0, 0, 0, 0}, byte(1+r.Intn(200)))}
	case 3:
		return &mnode{tag: tag, typ: 5, val: []byte{0, 0, 0, byte(1 + r.Intn(5))}}
	case 4:
		return &mnode{tag: tag, typ: 6, val: []byte{0, 0, 0, 0, 0, 0, 0, byte(r.Intn(2))}}
	case 5:
		return &mnode{tag: tag, typ: 7, val: []byte(rng.Pick(r, []string{"", "x", "unknown", "12345678", "é€"}))}
	case 6:
		return &mnode{tag: tag, typ: 8, val: r.Bytes(r.Intn(20))}
	case 7:
		return &mnode{tag: tag, typ: 9, val: []byte{0, 0, 0, 0, 0x65, byte(r.Intn(256)), 0, 0}}
	default:
		// a nested unknown structure; its content ends with a copy of a sibling (must not leak into the parent)
		n := &mnode{tag: tag, typ: 1}
		if depth < 3 && r.Bool() {
			n.kids = append(n.kids, unknownM(r, nil, depth+1))
		}
		if sibling != nil && r.Bool() {
			n.kids = append(n.kids, sibling.clone())
		}
		return n
	}
}

func zeroM(n *mnode) {
	switch n.typ {
	case 1:
		n.kids = nil
	case 2, 5, 10:
		n.val = []byte{0, 0, 0, 0}
	case 3, 4, 6, 9:
		n.val = make([]byte, 8)
	case 7, 8:
		n.val = []byte{}
	}
	n.pad = nil
}

// altM gives a leaf another value of the same type (a duplicate that disagrees with the original).
func altM(r *rng.R, n *mnode) bool {
	switch n.typ {
	case 2, 5, 10:
		if len(n.val) != 4 {
			return false
		}
		old := n.val[3]
		n.val = []byte{0, 0, 0, byte(1 + r.Intn(9))}
		if n.val[3] == old {
			n.val[3] = old%9 + 1
		}
	case 3, 9:
		n.val = []byte{0, 0, 0, 0, 0x5F, byte(r.Intn(256)), byte(r.Intn(256)), byte(r.Intn(256))}
	case 4:
		n.val = []byte{0, 0, 0, 0, 0, 0, byte(r.Intn(256)), byte(1 + r.Intn(255))}
	case 6:
		if len(n.val) != 8 {
			return false
		}
		n.val[7] ^= 1
	case 7:
		n.val = append([]byte("other-"), n.val...)
	case 8:
		n.val = append([]byte{0xA5}, n.val...)
	default:
		return false
	}
	n.pad = nil
	return true
}

// fixStrings: text strings with characters an escaper may forget (every C0 control character alone in
// otherwise plain ASCII, DEL, C1, line/paragraph separators, BOM, the replacement character, astral planes,
// markup and JSON meta characters) and, for binary only, invalid UTF-8.
func fixStrings() []string {
	var out []string
	for c := 0; c < 0x20; c++ {
		out = append(out, "a"+string(rune(c))+"b")
	}
	out = append(out, "\x7f", "a\u0080b", "\u0085", "a\u2028b", "\u2029", "\ufeffx", "\ufffd", "\U0010FFFF", "\\", `"`, `\"`, "</x>", "]]>", "&amp;", "&#x41;", " lead", "trail ", "\r\n", "a\rb", "tab\there",
		"\xff", "a\xc3", "\xed\xa0\x80", "\xf4\x90\x80\x80")
	// the same affix twice: a reader that strips ONE layer (a terminator, a blank, a byte-order mark, a pair of
	// quotes) drifts on every hop instead of reaching a fixed point after the first
	out = append(out, "x\x00", "x\x00\x00", "\x00\x00", "  x  ", "x\n\n", "\n\nx", "\ufeff\ufeffx", "\"\"x\"\"", "''x''", "x\t\t", "\\\\x")
	return out
}

const (
	tagProtocolVersionMinor = 0x42006B
)

// applyM applies the mutation `class` at child position i of the structure s (site-directed form; the
// random form picks the site). Reports whether it applied.
func applyM(r *rng.R, s *mnode, i int, class string) bool {
	insert := func(i int, x *mnode) {
		s.kids = append(s.kids, nil)
		copy(s.kids[i+1:], s.kids[i:])
		s.kids[i] = x
	}
	n := len(s.kids)
	switch class {
	case "swap":
		if i+1 >= n {
			return false
		}
		s.kids[i], s.kids[i+1] = s.kids[i+1], s.kids[i]
	case "move": // to the end: an optional field after all later ones
		if i >= n-1 {
			return false
		}
		x := s.kids[i]
		s.kids = append(s.kids[:i:i], s.kids[i+1:]...)
		s.kids = append(s.kids, x)
	case "move-front":
		if i == 0 || i >= n {
			return false
		}
		x := s.kids[i]
		s.kids = append(s.kids[:i:i], s.kids[i+1:]...)
		insert(0, x)
	case "dup":
		if i >= n {
			return false
		}
		insert(i+1, s.kids[i].clone())
	case "dup-end":
		if i >= n {
			return false
		}
		insert(n, s.kids[i].clone())
	case "dup-alt", "dup-alt-before", "dup-alt-end": // the copy disagrees with the original: which one does the decoder keep, which does the encoder write?
		if i >= n {
			return false
		}
		c := s.kids[i].clone()
		var lv []mloc
		c.leaves(0, func(*mnode) bool { return true }, &lv)
		if len(lv) == 0 || !altM(r, rng.Pick(r, lv).n) {
			return false
		}
		switch class {
		case "dup-alt-before":
			insert(i, c)
		case "dup-alt-end":
			// after everything that was decoded in the light of the original (a decoder that lets the last
			// occurrence win has by then read the dependent fields under the first)
			insert(n, c)
		default:
			insert(i+1, c)
		}
	case "unk": // before child i (i == n: at the end)
		var sib *mnode
		if n > 0 {
			sib = rng.Pick(r, s.kids)
		}
		insert(min(i, n), unknownM(r, sib, 0))
	case "del":
		if i >= n {
			return false
		}
		s.kids = append(s.kids[:i:i], s.kids[i+1:]...)
	case "zero":
		if i >= n {
			return false
		}
		zeroM(s.kids[i])
	default:
		return false
	}
	return true
}

func unkClass(i, n int) string {
	switch {
	case i >= n:
		return "unk-end"
	case i == 0:
		return "unk-front"
	}
	return "unk-mid"
}

// mutateM applies one mutation of the class at a random site; reports the depth (-1: not applicable).
func mutateM(r *rng.R, root *mnode, class string) int {
	var sts []mloc
	root.structs(0, &sts)
	pickStruct := func(minKids int) (mloc, bool) {
		var c []mloc
		for _, s := range sts {
			if len(s.n.kids) >= minKids {
				c = append(c, s)
			}
		}
		if len(c) == 0 {
			return mloc{}, false
		}
		s := rng.Pick(r, c)
		if r.Bool() { // prefer nested structures
			for k := 0; k < 3; k++ {
				if o := rng.Pick(r, c); o.depth > s.depth {
					s = o
				}
			}
		}
		return s, true
	}
	site := func(minKids int, cls string, idx func(n int) int) int {
		s, ok := pickStruct(minKids)
		if !ok {
			return -1
		}
		if !applyM(r, s.n, idx(len(s.n.kids)), cls) {
			return -1
		}
		return s.depth
	}
	switch class {
	case "swap":
		return site(2, "swap", func(n int) int { return r.Intn(n - 1) })
	case "move":
		return site(3, rng.Pick(r, []string{"move", "move-front"}), func(n int) int { return r.Intn(n) })
	case "dup":
		return site(1, rng.Pick(r, []string{"dup", "dup-end"}), func(n int) int { return r.Intn(n) })
	case "dup-alt":
		return site(1, rng.Pick(r, []string{"dup-alt", "dup-alt", "dup-alt", "dup-alt-before", "dup-alt-end"}), func(n int) int { return r.Intn(n) })
	case "unk-front":
		return site(0, "unk", func(n int) int { return 0 })
	case "unk-mid":
		return site(2, "unk", func(n int) int { return 1 + r.Intn(n-1) })
	case "unk-end":
		return site(0, "unk", func(n int) int { return n })
	case "del":
		return site(1, "del", func(n int) int { return r.Intn(n) })
	case "zero":
		return site(1, "zero", func(n int) int { return r.Intn(n) })
	case "memberless":
		// a Credential without its CredentialValue, a plain KeyValue without its KeyMaterial: accepted (the member
		// is a pointer skipped on tag mismatch) and decoded to a union none of whose members is set — a value no
		// conforming message has (the typed Lean theorem excludes it: checked here only)
		var c []mloc
		for _, st := range sts {
			for _, k := range st.n.kids {
				if (st.n.tag == kmip.TagCredential && k.tag == kmip.TagCredentialValue) || (st.n.tag == kmip.TagKeyValue && k.tag == kmip.TagKeyMaterial) {
					c = append(c, st)
				}
			}
		}
		if len(c) == 0 {
			return -1
		}
		st := rng.Pick(r, c)
		for i, k := range st.n.kids {
			if k.tag == kmip.TagCredentialValue || k.tag == kmip.TagKeyMaterial {
				st.n.kids = append(st.n.kids[:i:i], st.n.kids[i+1:]...)
				break
			}
		}
		return st.depth
	case "text":
		var lv []mloc
		root.leaves(0, func(n *mnode) bool { return n.typ == 7 }, &lv)
		if len(lv) == 0 {
			return -1
		}
		l := rng.Pick(r, lv)
		l.n.val, l.n.pad = []byte(rng.Pick(r, fixStrings())), nil
		return l.depth
	case "bigpad":
		var lv []mloc
		root.leaves(0, func(n *mnode) bool { return n.typ == 4 && len(n.val) > 0 }, &lv)
		if len(lv) == 0 {
			return -1
		}
		l := rng.Pick(r, lv)
		sign := byte(0)
		if l.n.val[0]&0x80 != 0 {
			sign = 0xFF
		}
		switch r.Intn(4) {
		case 0: // over-long, aligned: 8 or 16 more sign bytes
			l.n.val = append(bytes.Repeat([]byte{sign}, 8*(1+r.Intn(2))), l.n.val...)
		case 1: // over-long, not aligned
			l.n.val = append(bytes.Repeat([]byte{sign}, 1+r.Intn(7)), l.n.val...)
		case 2: // minimal two's complement, not aligned (sign bytes stripped)
			v := l.n.val
			for len(v) > 1 && v[0] == sign && (v[1]&0x80 != 0) == (sign == 0xFF) {
				v = v[1:]
			}
			l.n.val = v
		default: // non-aligned and non-zero padding
			l.n.val = append([]byte{sign}, l.n.val...)
			l.n.pad = r.Bytes((8 - len(l.n.val)%8) % 8)
		}
		return l.depth
	case "pad":
		var lv []mloc
		root.leaves(0, func(n *mnode) bool { return len(n.val)%8 != 0 }, &lv)
		if len(lv) == 0 {
			return -1
		}
		l := rng.Pick(r, lv)
		p := r.Bytes((8 - len(l.n.val)%8) % 8)
		p[r.Intn(len(p))] |= 1
		l.n.pad = p
		return l.depth
	case "boolgarb":
		var lv []mloc
		root.leaves(0, func(n *mnode) bool { return n.typ == 6 && len(n.val) == 8 }, &lv)
		if len(lv) == 0 {
			return -1
		}
		l := rng.Pick(r, lv)
		copy(l.n.val[:7], r.Bytes(7)) // only the low byte of a Boolean is looked at
		l.n.val[r.Intn(7)] |= 2
		return l.depth
	case "ver-down", "ver-up":
		var lv []mloc
		root.leaves(0, func(n *mnode) bool { return n.tag == tagProtocolVersionMinor && n.typ == 2 && len(n.val) == 4 }, &lv)
		if len(lv) == 0 {
			return -1
		}
		l := lv[0] // the header's
		cur := int(l.n.val[3])
		if class == "ver-down" {
			if cur == 0 {
				return -1
			}
			l.n.val[3] = byte(r.Intn(cur))
		} else {
			l.n.val[3] = byte(cur + 1 + r.Intn(3))
		}
		return l.depth
	}
	return -1
}

// nestM: two mutations tied by the tree: one INSIDE a child structure C of a structure S (an unknown item, a
// duplicate, a zero value, a deletion, a swap: content that a typed and a generic decoder of C normalise
// differently), and one that changes C's place among its siblings (C before the fields that decide how it is
// decoded — operation / key format / credential type / object type / attribute name —, after everything else,
// swapped with its neighbour, duplicated). A decoder that reads C under another context on the first pass than
// on the re-encoding (which is in canonical order) shows only on such inputs. Returns S's depth (-1: none).
func nestM(r *rng.R, root *mnode) int {
	var sts []mloc
	root.structs(0, &sts)
	type site struct {
		s mloc
		i int
	}
	var c []site
	for _, st := range sts {
		if len(st.n.kids) < 2 {
			continue
		}
		for i, k := range st.n.kids {
			if k.typ == 1 && len(k.kids) > 0 {
				c = append(c, site{st, i})
			}
		}
	}
	if len(c) == 0 {
		return -1
	}
	x := rng.Pick(r, c)
	S, i := x.s.n, x.i
	C := S.kids[i]
	// inside C (at C itself or at one of its sub-structures)
	var in []mloc
	C.structs(0, &in)
	applied := false
	for try := 0; try < 6 && !applied; try++ {
		t := rng.Pick(r, in).n
		n := len(t.kids)
		switch r.Intn(7) {
		case 0:
			applied = applyM(r, t, n, "unk")
		case 1:
			applied = applyM(r, t, 0, "unk")
		case 2:
			applied = n > 0 && applyM(r, t, r.Intn(n), "dup")
		case 3:
			applied = n > 0 && applyM(r, t, r.Intn(n), "dup-alt")
		case 4:
			applied = n > 0 && applyM(r, t, r.Intn(n), "zero")
		case 5:
			applied = n > 1 && applyM(r, t, r.Intn(n), "del")
		default:
			applied = n > 1 && applyM(r, t, r.Intn(n-1), "swap")
		}
	}
	if !applied {
		return -1
	}
	// C's place in S
	switch r.Intn(6) {
	case 0, 1:
		applied = applyM(r, S, i, "move-front") || applyM(r, S, i, "move")
	case 2:
		applied = applyM(r, S, i, "move") || applyM(r, S, i, "move-front")
	case 3:
		if i > 0 {
			S.kids[i-1], S.kids[i] = S.kids[i], S.kids[i-1]
		} else {
			applied = applyM(r, S, i, "swap")
		}
	case 4:
		// everything that precedes C goes after it
		if i > 0 {
			S.kids = append(append(append([]*mnode{}, S.kids[i]), S.kids[:i]...), S.kids[i+1:]...)
		} else {
			applied = applyM(r, S, i, "move")
		}
	default:
		// a copy of C (as mutated) in front, the original content stays where it belongs
		cp := C.clone()
		S.kids = append([]*mnode{cp}, S.kids...)
	}
	if !applied {
		return -1
	}
	return x.s.depth
}

var fixBinClasses = []string{"swap", "move", "dup", "dup-alt", "unk-front", "unk-mid", "unk-end", "del", "zero", "memberless", "text", "bigpad", "pad", "boolgarb", "ver-down", "ver-up"}

// fixBinMutants: `per` random single mutations of each class, compositions, and — for one structure of the
// message (the root for standalone types) — EVERY single structural mutation at every child position.
func fixBinMutants(ctx *Ctx, s *schema.Schema, tg planTarget, r *rng.R, b []byte, per int, exhaust bool) {
	root, err := parseM(b)
	if err != nil {
		ctx.Res.Count("fix.seed-unparsable.ttlv") // C01/C03's business
		return
	}
	for _, class := range fixBinClasses {
		for k := 0; k < per; k++ {
			m := root.clone()
			d := mutateM(r, m, class)
			if d < 0 {
				break
			}
			fixCase(ctx, s, tg, 0, class, d, m.enc())
		}
	}
	for k := 0; k < per; k++ {
		m := root.clone()
		n := 2 + r.Intn(2)
		applied := 0
		for i := 0; i < n; i++ {
			if mutateM(r, m, rng.Pick(r, fixBinClasses)) >= 0 {
				applied++
			}
		}
		if applied >= 2 {
			fixCase(ctx, s, tg, 0, "combo", -1, m.enc())
		}
	}
	for k := 0; k < 2*per; k++ {
		m := root.clone()
		if d := nestM(r, m); d >= 0 {
			fixCase(ctx, s, tg, 0, "nest", d, m.enc())
		}
	}
	if !exhaust {
		return
	}
	// the site: path (child indexes) to the chosen structure, so that it can be found again in each clone
	var sts []mloc
	root.structs(0, &sts)
	var cands []int
	for i, st := range sts {
		if n := len(st.n.kids); n >= 1 && n <= 12 {
			cands = append(cands, i)
		}
	}
	if len(cands) == 0 {
		return
	}
	which := cands[0]
	if tg.tag == 0 && s.Dyns[tg.dyn].DefTag != 0 && len(cands) > 1 && (tg.dyn == s.Roots["RequestMessage"] || tg.dyn == s.Roots["ResponseMessage"]) {
		which = rng.Pick(r, cands[1:])
	}
	n := len(sts[which].n.kids)
	depth := sts[which].depth
	for _, cls := range []string{"swap", "move", "move-front", "dup", "dup-end", "dup-alt", "dup-alt-before", "dup-alt-end", "del", "zero", "unk"} {
		for i := 0; i <= n; i++ {
			m := root.clone()
			var ms []mloc
			m.structs(0, &ms)
			if !applyM(r, ms[which].n, i, cls) {
				continue
			}
			name := cls
			switch cls {
			case "unk":
				name = unkClass(i, n)
			case "move-front":
				name = "move"
			case "dup-end":
				name = "dup"
			case "dup-alt-before", "dup-alt-end":
				name = "dup-alt"
			}
			fixCase(ctx, s, tg, 0, name, depth, m.enc())
		}
	}
}

// ---------------------------------------------------------------------------------------------------------
// seeds

func fixTargets(s *schema.Schema) (msgs []planTarget, objs []planTarget) {
	msgs = []planTarget{
		{s.Roots["RequestMessage"], reflect.TypeFor[*kmip.RequestMessage](), 0},
		{s.Roots["ResponseMessage"], reflect.TypeFor[*kmip.ResponseMessage](), 0},
	}
	ids := make([]int, 0, len(dynTypes))
	for id := range dynTypes {
		ids = append(ids, id)
	}
	sort.Ints(ids)
	for _, id := range ids {
		ty := dynTypes[id]
		if ty.Kind() != reflect.Pointer || id == msgs[0].dyn || id == msgs[1].dyn {
			continue
		}
		tg := planTarget{id, ty, 0}
		if s.Dyns[id].DefTag == 0 {
			// payload types have no tag of their own: they travel under the payload tag of their direction
			tg.tag = kmip.TagRequestPayload
			for _, op := range s.Ops {
				if op.RespDyn == id {
					tg.tag = kmip.TagResponsePayload
				}
			}
		}
		objs = append(objs, tg)
	}
	return
}

func fixTargetByKey(s *schema.Schema, key string) (planTarget, bool) {
	d, t, _ := strings.Cut(key, "/")
	dyn, err1 := strconv.Atoi(d)
	tag, err2 := strconv.Atoi(t)
	if err1 != nil || (t != "" && err2 != nil) {
		return planTarget{}, false
	}
	m, o := fixTargets(s)
	for _, tg := range append(m, o...) {
		if tg.dyn == dyn && tg.tag == tag {
			return tg, true
		}
	}
	return planTarget{}, false
}

// fixVectors: the Request/ResponseMessage elements of the OASIS conformance vectors, as XML documents.
func fixVectors(ctx *Ctx) (docs [][]byte, isReq []bool) {
	root := "/repo/kmiptest/testdata"
	files, _ := filepath.Glob(root + "/*/*.xml")
	sort.Strings(files)
	now := time.Unix(1700000000, 0).UTC()
	for _, f := range files {
		b, err := os.ReadFile(f)
		if err != nil {
			continue
		}
		b = vecNowRe.ReplaceAllFunc(b, func(m []byte) []byte {
			off, _ := strconv.ParseInt(strings.Trim(string(m[5:]), `"`), 10, 64)
			return []byte(`"` + now.Add(time.Duration(off)*time.Second).Format(time.RFC3339) + `"`)
		})
		b = vecVarRe.ReplaceAll(b, []byte(`"DEADBEEFCAFE"`))
		els, err := parseXels(b)
		if err != nil || len(els) != 1 {
			continue
		}
		for _, m := range els[0].kids {
			if m.name == "RequestMessage" || m.name == "ResponseMessage" {
				docs = append(docs, []byte(m.String()))
				isReq = append(isReq, m.name == "RequestMessage")
			}
		}
	}
	return
}

func runFix(ctx *Ctx) {
	s := getSchema()
	fixCount = fixCounter{}
	msgs, objs := fixTargets(s)
	if len(ctx.Replay) > 0 {
		for _, l := range ctx.Replay {
			f := strings.SplitN(l, " ", 4)
			if len(f) != 4 {
				continue
			}
			arg := f[3]
			if arg == "-" {
				arg = ""
			}
			b, err := hex.DecodeString(arg)
			if err != nil {
				continue
			}
			switch f[0] {
			case "plan.dec":
				if tg, ok := fixTargetByKey(s, f[1]+"/"+f[2]); ok {
					fixCase(ctx, s, tg, 0, "replay", -1, b)
				}
			case "#fix.generic":
				fixCase(ctx, s, msgs[0], 0, f[2], -1, b)
			case "#fix.ttlv", "#fix.xml", "#fix.json":
				if tg, ok := fixTargetByKey(s, f[1]); ok {
					e := map[string]int{"#fix.ttlv": 0, "#fix.xml": 1, "#fix.json": 2}[f[0]]
					fixCase(ctx, s, tg, e, f[2], -1, b)
				}
			}
		}
		return
	}
	r := ctx.R
	per := 2
	// ---- library-made messages ----
	n := ctx.N(200, 2000)
	for i := 0; i < n; i++ {
		tg := msgs[i%2]
		// fill: everything / random subset (more siblings to reorder); every third message ignores the version
		// gating so that it carries later-version elements (kept when the header's version is high, and
		// "later-version elements at a lower version" once ver-down lowers it). Text: XML-representable,
		// every fourth message JSON-representable only (control characters), every sixteenth arbitrary bytes.
		mode := 2
		switch {
		case i%16 == 7:
			mode = 0
		case i%4 == 3:
			mode = 1
		}
		p := &popCfg{r: r, s: s, fill: 1 + i%2, textMode: mode, respectGating: i%3 != 0, extTags: true}
		x := reflect.New(tg.ty.Elem())
		p.populate(x.Elem())
		fixSeed(ctx, s, tg, r, x.Interface(), per, i%4 == 0, "lib")
	}
	// ---- every registered payload and object type standalone (hand-written codecs; keys: big integers) ----
	no := ctx.N(2, 16)
	for _, tg := range objs {
		for k := 0; k < no; k++ {
			p := &popCfg{r: r, s: s, fill: 1 + k%2, textMode: 2, respectGating: true, extTags: true}
			x := reflect.New(tg.ty.Elem())
			p.populate(x.Elem())
			fixSeed(ctx, s, tg, r, x.Interface(), 1, true, "obj")
		}
	}
	// ---- third-party documents: the OASIS vectors ----
	docs, isReq := fixVectors(ctx)
	if len(docs) == 0 {
		ctx.Res.Fail("fix: no conformance vectors found under /repo/kmiptest/testdata")
	}
	want := ctx.N(120, 1000)
	step := max(1, len(docs)/want)
	for i := r.Intn(step); i < len(docs); i += step {
		tg := msgs[1]
		if isReq[i] {
			tg = msgs[0]
		}
		// the vector itself, as it is (not produced by this library)
		fixCase(ctx, s, tg, 1, "vector", -1, docs[i])
		v, _ := fixDec(fixCodecs[1], tg, docs[i])
		if v == nil {
			ctx.Res.Count("fix.vector.rejected")
			continue
		}
		fixSeed(ctx, s, tg, r, v, 1, false, "vec")
	}
	// ---- floors ----
	fixFloors(ctx)
}

// fixSeed: one value: its three encodings as they are (canonical inputs) and their mutants.
func fixSeed(ctx *Ctx, s *schema.Schema, tg planTarget, r *rng.R, x any, per int, exhaust bool, origin string) {
	ctx.Res.Count("fix.seed." + origin)
	for e, c := range fixCodecs {
		doc, p := fixEnc(c, tg.tag, x)
		if p != "" {
			continue // C01 / C04
		}
		if e != 0 && !utf8.Valid(doc) {
			continue // text not representable in a text encoding: no document to start from
		}
		fixCase(ctx, s, tg, e, "canonical", -1, doc)
		switch e {
		case 0:
			fixBinMutants(ctx, s, tg, r, doc, per, exhaust)
		case 1:
			fixXMLMutants(ctx, s, tg, r, doc, per)
		case 2:
			fixJSONMutants(ctx, s, tg, r, doc, per)
		}
	}
}

// fixFloorTable: per (encoding, class) the minimum number of ACCEPTED NON-CANONICAL mutants (the library accepted
// the input and its re-encoding differs from it) — or, for the classes whose accepted mutants are ordinary
// messages again (marked "acc:"), of accepted mutants — in the quick tier: about a fifth of what the unchanged
// library yields. The thorough tier (ten times the seeds) asks for eight times as many.
//
// A floor missed because the library rejects the mutants is waived (see fixFloors); the number of GENERATED
// mutants per class always has to reach the floor (a generator that stops producing a class is a broken check).
var fixFloorTable = map[string]int{
	"ttlv.swap": 60, "ttlv.move": 80, "ttlv.dup": 200, "ttlv.dup-alt": 120, "ttlv.unk-front": 40, "ttlv.unk-mid": 80, "ttlv.unk-end": 150,
	"acc:ttlv.del": 120, "acc:ttlv.memberless": 25, "ttlv.zero": 50, "acc:ttlv.text": 120, "ttlv.bigpad": 20, "ttlv.pad": 100, "ttlv.boolgarb": 20, "ttlv.ver-down": 40, "acc:ttlv.ver-up": 100, "ttlv.combo": 40, "ttlv.nest": 30,
	"ttlv.unk@depth0": 80, "ttlv.unk@depth1": 25, "ttlv.unk@depth2": 60, "ttlv.unk@depth3": 60,
	"xml.swap": 35, "xml.move": 30, "xml.dup": 80, "xml.dup-alt": 70, "acc:xml.text": 120, "xml.date-edge": 20, "xml.unk-front": 40, "xml.unk-mid": 50, "xml.unk-end": 120,
	"acc:xml.del": 60, "xml.zero": 35, "xml.lex": 120, "xml.lex-big": 12, "xml.lex-date": 70, "xml.lex-mask": 5, "xml.attr": 120, "xml.ver-down": 40, "acc:xml.ver-up": 100, "xml.combo": 40, "xml.nest": 30,
	"acc:xml.vector": 60, "xml.unk@depth0": 30, "xml.unk@depth1": 25, "xml.unk@depth2": 50, "xml.unk@depth3": 80,
	"json.swap": 35, "json.move": 30, "json.dup": 80, "json.dup-alt": 70, "acc:json.text": 120, "json.date-edge": 25, "json.unk-front": 40, "json.unk-mid": 50, "json.unk-end": 120,
	"acc:json.del": 60, "json.zero": 35, "json.lex": 120, "json.lex-big": 12, "json.lex-date": 70, "json.lex-mask": 5, "json.memb": 120, "json.ver-down": 40, "acc:json.ver-up": 100, "json.combo": 40, "json.nest": 25,
	"json.unk@depth0": 30, "json.unk@depth1": 25, "json.unk@depth2": 50, "json.unk@depth3": 80,
}

func fixFloors(ctx *Ctx) {
	keys := make([]string, 0, len(fixCount))
	for k := range fixCount {
		keys = append(keys, k)
	}
	sort.Strings(keys)
	zoned, hops := map[string]int{}, map[string]int{}
	for _, k := range keys {
		st := fixCount[k]
		if st.accepted > 0 {
			ctx.Res.Distribution["fix.cov."+k+".accepted"] = st.accepted
			ctx.Res.Distribution["fix.cov."+k+".cross-hops"] = st.cross
		}
		ctx.Res.Distribution["fix.cov."+k+".noncanonical"] = st.noncanon
		enc, _, _ := strings.Cut(k, ".")
		hops[enc] += st.cross
		if strings.Contains(k, "@+") || strings.Contains(k, "@-") {
			zoned[enc] += st.accepted
		}
	}
	mult := 1
	if ctx.Thor {
		mult = 8
	}
	fk := make([]string, 0, len(fixFloorTable))
	for k := range fixFloorTable {
		fk = append(fk, k)
	}
	sort.Strings(fk)
	// A floor that is missed because the library REJECTS the mutants is waived: a decoder that has become strict
	// about a class (entirely, or except where the mutant is canonical again — a repeated list element, an
	// unknown item inside an opaque payload) leaves nothing to show for it, which is not a C18 matter. What is
	// missing must be covered by rejections (accepted-and-counted + rejected >= floor); what then still fails is
	// a class whose mutants are accepted but no longer count (the generator has rotted). The waiver is recorded
	// as fix.cov.<class>.short-by-rejection. The unk@depth sub-counts (no generated count of their own) follow the
	// unk-* classes of their encoding.
	waivedEnc := map[string]bool{}
	for _, k := range fk {
		key, acc := strings.CutPrefix(k, "acc:")
		if strings.Contains(key, "@depth") {
			continue
		}
		got, what := 0, "accepted non-canonical"
		st := fixCount[key]
		if st != nil {
			got = st.noncanon
			if acc {
				got, what = st.accepted, "accepted"
			}
		}
		floor := fixFloorTable[k] * mult
		switch {
		case st == nil || st.generated < floor:
			gen := 0
			if st != nil {
				gen = st.generated
			}
			ctx.Res.Fail(fmt.Sprintf("fix: coverage floor not met for %s: only %d mutants generated, floor %d (the generator no longer produces the class)", key, gen, floor))
		case got >= floor:
		case got+(st.generated-st.accepted) >= floor:
			ctx.Res.Distribution["fix.cov."+key+".short-by-rejection"] = got
			if enc, c, _ := strings.Cut(key, "."); strings.HasPrefix(c, "unk-") {
				waivedEnc[enc] = true
			}
		default:
			ctx.Res.Fail(fmt.Sprintf("fix: coverage floor not met for %s: %d %s and %d rejected of %d generated mutants, floor %d (the class is exercised too little to show anything about it)", key, got, what, st.generated-st.accepted, st.generated, floor))
		}
	}
	for _, k := range fk {
		if !strings.Contains(k, "@depth") {
			continue
		}
		got := 0
		if st := fixCount[k]; st != nil {
			got = st.noncanon
		}
		floor := fixFloorTable[k] * mult
		if enc, _, _ := strings.Cut(k, "."); got < floor && !waivedEnc[enc] {
			ctx.Res.Fail(fmt.Sprintf("fix: coverage floor not met for %s: %d accepted non-canonical mutants, floor %d", k, got, floor))
		}
	}
	for _, enc := range []string{"ttlv", "xml", "json", "generic"} {
		if hops[enc] < 5000*mult {
			ctx.Res.Fail(fmt.Sprintf("fix: coverage floor not met: %d cross-encoding hops from accepted %s inputs, floor %d", hops[enc], enc, 5000*mult))
		}
	}
	for _, enc := range []string{"xml", "json"} {
		if zoned[enc] < 100*mult {
			ctx.Res.Fail(fmt.Sprintf("fix: coverage floor not met: %d accepted %s date documents read under a process zone other than UTC, floor %d", zoned[enc], enc, 100*mult))
		}
	}
}
