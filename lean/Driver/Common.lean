/-
  Shared helpers of the line-protocol driver (core Lean only).
-/
import KmipModel.Model.Syntax
open Kmip

namespace Driver

def renderRes (r : Res String) : String :=
  match r with
  | .ok s => "ok " ++ s
  | .err _ => "err"
  | .panic m => "panic " ++ m

/-- split a protocol line into its command and the rest. -/
def splitCmd (line : String) : String × String :=
  let line := line.trimAscii.toString
  match line.splitOn " " with
  | [] => ("", "")
  | cmd :: _ => (cmd, (line.drop (cmd.length + 1)).toString)

end Driver
