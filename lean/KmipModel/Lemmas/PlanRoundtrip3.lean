/-
  C01 — stage 2 (continued): the field loop of reflectively encoded structs with the three
  wrappers (`omitempty`, `version=`, `set-version`) and the shared version cell.
-/
import KmipModel.Lemmas.PlanRoundtrip2
namespace Kmip

/-! ## The wrappers, named -/

/-- the version cell a field is encoded under: `set-version` writes the cell BEFORE encoding. -/
def Field.ver1 (f : Field) (v : Val) (ver : Option Ver) : Option Ver :=
  if f.setVersion then some v.asVer else ver

/-- the encoder skips the field: outside its version range, or zero under `omitempty`. -/
def Field.skip (f : Field) (v : Val) (ver1 : Option Ver) : Bool :=
  (match f.vrange with
   | some r => !(versionIn ver1 r)
   | none => false) || (f.omitempty && v.isZero)

/-- the tag a field is encoded under (`dynTag`: the dynamic type's default tag). -/
def Field.etag (S : Schema) (f : Field) (v : Val) : Nat :=
  if f.dynTag then (match v with | .iface (some (d, _)) => (S.dyn d).defTag | _ => 0) else f.tag

/-- the decoder leaves the field at its zero value. -/
def Field.dskip (f : Field) (c : Cur) (ver : Option Ver) : Bool :=
  (match f.vrange with
   | some r => !(versionIn ver r) && (c.tag ≠ f.tag)
   | none => false) || (f.omitempty && c.tag ≠ f.tag)

theorem normFields_zero (S : Schema) (fs : List Field) (vs : List Val) (ver : Option Ver) :
    normFields S 0 fs vs ver = none := by rw [normFields]

theorem normFields_nil (S : Schema) (n : Nat) (ver : Option Ver) :
    normFields S (n + 1) [] [] ver = some ([], ver) := by simp [normFields]

theorem normFields_nil_cons (S : Schema) (n : Nat) (v : Val) (vs : List Val) (ver : Option Ver) :
    normFields S (n + 1) [] (v :: vs) ver = none := by simp [normFields]

theorem normFields_cons_nil (S : Schema) (n : Nat) (f : Field) (fs : List Field) (ver : Option Ver) :
    normFields S (n + 1) (f :: fs) [] ver = none := by simp [normFields]

theorem normFields_cons (S : Schema) (n : Nat) (f : Field) (fs : List Field) (v : Val) (vs : List Val)
    (ver : Option Ver) :
    normFields S (n + 1) (f :: fs) (v :: vs) ver =
      (if f.skip v (f.ver1 v ver) then
        if isZeroOfKind f.kind v then
          match normFields S n fs vs (f.ver1 v ver) with
          | none => none
          | some (vs', ver3) => some (v :: vs', ver3)
        else none
      else
        match normK S n f.kind (f.etag S v) v (f.ver1 v ver) with
        | none => none
        | some (v', ver2) =>
          match normFields S n fs vs ver2 with
          | none => none
          | some (vs', ver3) => some (v' :: vs', ver3)) := by
  rw [normFields.eq_def]; rfl

theorem Res.ite_bind {α β : Type} (c : Prop) [Decidable c] (x y : Res α) (g : α → Res β) :
    (if c then x >>= g else y >>= g) = ((if c then x else y) >>= g) := by
  split <;> rfl

theorem Res.ite_ite_bind {α β : Type} (c1 c2 : Prop) [Decidable c1] [Decidable c2] (x y z : Res α)
    (g : α → Res β) :
    (if c1 then x >>= g else if c2 then y >>= g else z >>= g)
      = ((if c1 then x else if c2 then y else z) >>= g) := by
  split
  · rfl
  · split <;> rfl

theorem encFields_zero (S : Schema) (fs : List Field) (vs : List Val) (ver : Option Ver) :
    encFields S 0 fs vs ver = .err .other := by rw [encFields]

theorem encFields_nil (S : Schema) (n : Nat) (vs : List Val) (ver : Option Ver) :
    encFields S (n + 1) [] vs ver = .ok ([], ver) := by simp [encFields]

theorem encFields_cons (S : Schema) (n : Nat) (f : Field) (fs : List Field) (v : Val) (vs : List Val)
    (ver : Option Ver) :
    encFields S (n + 1) (f :: fs) (v :: vs) ver = (do
      let (a, ver2) ←
        (if f.skip v (f.ver1 v ver) then (.ok ([], f.ver1 v ver) : Res EncSt)
         else encK S n f.kind (f.etag S v) v (f.ver1 v ver))
      let (b, ver3) ← encFields S n fs vs ver2
      pure (a ++ b, ver3)) := by
  rw [encFields.eq_def]
  exact Res.ite_bind _ _ _ _

theorem decFields_nil (S : Schema) (n : Nat) (c : Cur) (ver : Option Ver) :
    decFields S (n + 1) [] c ver = .ok ([], c, ver) := by simp [decFields]

theorem decFields_cons (S : Schema) (n : Nat) (f : Field) (fs : List Field) (c : Cur)
    (ver : Option Ver) :
    decFields S (n + 1) (f :: fs) c ver = (do
      let (v, c1, ver1) ←
        (if f.dynTag then (.panic "value must be a pointer" : Res (Val × DecSt))
         else if f.dskip c ver then .ok (zeroOf S n f.kind, c, ver)
         else decK S n f.kind f.tag c ver)
      let ver2 := if f.setVersion then some v.asVer else ver1
      let (vs, st) ← decFields S n fs c1 ver2
      pure (v :: vs, st)) := by
  rw [decFields.eq_def]
  exact Res.ite_ite_bind _ _ _ _ _ _


/-! ## Normalisation never turns a populated skippable field into a zero one -/

theorem normSlice_zero (S : Schema) (k : Kind) (tag : Nat) (xs : List Val) (ver : Option Ver) :
    normSlice S 0 k tag xs ver = none := by rw [normSlice]

theorem norm_isZero (S : Schema) (n : Nat) (k : Kind) (tag : Nat) (v : Val) (ver : Option Ver)
    (v' : Val) (w : Option Ver) (hz : k.zeroFaithful = true)
    (h : normK S n k tag v ver = some (v', w)) (hv : v.isZero = false) : v'.isZero = false := by
  cases n with
  | zero => rw [normK_zero] at h; contradiction
  | succ n =>
    by_cases hs : k.scalar = true
    · obtain ⟨_, _, _, _, _, _, _, hzz, _⟩ := scalar_rt S n k hs tag v v' ver w h
      exact hzz hv
    · cases k <;> simp only [Kind.scalar, not_true_eq_false] at hs <;>
        simp only [Kind.zeroFaithful] at hz <;> try contradiction
      case ptr k' =>
        rw [normK_ptr] at h
        split at h
        · simp [Val.isZero] at hv
        · rename_i x
          obtain ⟨_, h⟩ := ite_eq_some h
          cases hx : normK S n k' tag x ver with
          | none => simp only [hx] at h; contradiction
          | some p =>
            obtain ⟨x', w'⟩ := p
            simp only [hx] at h
            obtain ⟨rfl, -⟩ := pair_eq (Option.some.inj h)
            rfl
        · contradiction
      case slice k' =>
        rw [normK_slice] at h
        split at h
        · rename_i xs
          obtain ⟨_, h⟩ := ite_eq_some h
          cases hx : normSlice S n k' tag xs ver with
          | none => simp only [hx] at h; contradiction
          | some p =>
            obtain ⟨xs', w'⟩ := p
            simp only [hx] at h
            obtain ⟨rfl, -⟩ := pair_eq (Option.some.inj h)
            cases xs with
            | nil => simp [Val.isZero] at hv
            | cons x xs =>
              cases n with
              | zero => rw [normSlice_zero] at hx; contradiction
              | succ n =>
                rw [normSlice_cons] at hx
                cases hy : normK S n k' tag x ver with
                | none => simp only [hy] at hx; contradiction
                | some p =>
                  obtain ⟨y, w1⟩ := p
                  simp only [hy] at hx
                  cases hys : normSlice S n k' tag xs w1 with
                  | none => simp only [hys] at hx; contradiction
                  | some p =>
                    obtain ⟨ys, w2⟩ := p
                    simp only [hys] at hx
                    obtain ⟨rfl, -⟩ := pair_eq (Option.some.inj hx)
                    rfl
        · contradiction
      case iface =>
        rw [normK_iface] at h
        split at h
        · simp [Val.isZero] at hv
        · rename_i d x
          obtain ⟨_, h⟩ := ite_eq_some h
          cases hx : normK S n (S.dyn d).kind tag x ver with
          | none => simp only [hx] at h; contradiction
          | some p =>
            obtain ⟨x', w'⟩ := p
            simp only [hx] at h
            obtain ⟨rfl, -⟩ := pair_eq (Option.some.inj h)
            rfl
        · contradiction
      case any =>
        rw [normK_any] at h
        split at h
        · obtain ⟨_, e⟩ := ite_some_eq h
          obtain ⟨rfl, -⟩ := pair_eq e
          rfl
        · contradiction
      case anyStruct =>
        rw [normK_anyStruct] at h
        split at h
        · obtain ⟨rfl, -⟩ := pair_eq (Option.some.inj h)
          exact hv
        · contradiction
      all_goals (rw [normK.eq_def] at h; simp at h)

end Kmip
