package main

// Engine `placemw` — C15 under message middlewares, nested and derived contexts, and the real entry
// points (kmipserver.Server over an in-memory listener, the HTTP handler).
//
// A CALL is one invocation of BatchExecutor.HandleRequest with a parent context: the context of a
// connection (one object shared by all the calls of that connection) or the context held by a handler
// of another call (a forwarding handler). A message middleware installed on the executor makes the
// core handler execute a list of RUNS: for every run it derives `wraps` contexts (WithValue, WithCancel,
// WithTimeout) from the one it was given and calls next with the run's message — a retry is the same
// message twice, a substitution another message. The handlers are the scripted ones of batch.go.
//
// The engine first PROBES the real code for the parameters of the Lean world model
// (Kmip.Placeholder.Impl): where the holder of the placeholder comes from (F fresh, R reused from the
// parent context, G global), whether a reused holder is reset, and where a batch context is made
// (by HandleRequest before the message chain / by the core handler). Every line
// `place.world <impl> <mode> <call> | …` carries them, so the model is evaluated with the structure the
// code really has; theorem C15.C15_full_of_fresh_core covers F?.1, C15.request_scoped covers F?10 and
// C15.C15_full_false_entry_only shows that F?10 (the code before 4b5c841) does not give the full property;
// the code of today probes as F011 (C15.C15_full_go).
//
// Oracle (independent of the model): every run observes exactly what it observes alone on an empty
// placeholder (solo-equivalence per run).

import (
	"bytes"
	"context"
	"fmt"
	"net"
	"net/http"
	"net/http/httptest"
	"runtime"
	"strconv"
	"strings"
	"sync"
	"time"

	"github.com/ovh/kmip-go"
	"github.com/ovh/kmip-go/kmipserver"
	"github.com/ovh/kmip-go/payloads"
	"github.com/ovh/kmip-go/ttlv"

	"verifharness/internal/report"
	"verifharness/internal/rng"
)

type pwRun struct {
	wraps int
	req   *bReq
}

type pwCall struct {
	parent string // "c<n>": connection n; "i<k>": inside call k
	runs   []pwRun
}

func (c *pwCall) encode() string {
	p := []string{c.parent}
	for _, rn := range c.runs {
		p = append(p, strconv.Itoa(rn.wraps)+" ! "+rn.req.encode())
	}
	return strings.Join(p, " > ")
}

// scheduled steps of a call: the call itself, one per run (the invocation of next), one per handler access
func (c *pwCall) steps() int {
	n := 1
	for _, rn := range c.runs {
		n += scheduledSteps(rn.req) // 1 (counted there for the creation of the context) + accesses
	}
	return n
}

// ---------------------------------------------------------------------------------------------
// running calls on a real executor

type pwCallState struct {
	call    *pwCall
	id      string
	runs    []*reqState
	msgs    []*kmip.RequestMessage
	serials []int32
	sync    func()
	mu      sync.Mutex
	panic   string
	cancels []context.CancelFunc
}

var (
	pwCalls  sync.Map // call id -> *pwCallState
	pwCallID struct {
		sync.Mutex
		n int
	}
)

type pwWrapKey struct{ k int }

// pwMiddleware: the message middleware realising the runs of a call.
func pwMiddleware(next kmipserver.Next, ctx context.Context, msg *kmip.RequestMessage) (*kmip.ResponseMessage, error) {
	v, ok := pwCalls.Load(msg.Header.ClientCorrelationValue)
	if !ok {
		return next(ctx, msg)
	}
	cs := v.(*pwCallState)
	var resp *kmip.ResponseMessage
	var err error
	for j, rn := range cs.call.runs {
		c := ctx
		for k := 0; k < rn.wraps; k++ {
			switch k % 3 {
			case 0:
				c = context.WithValue(c, pwWrapKey{k}, j)
			case 1:
				var cancel context.CancelFunc
				c, cancel = context.WithCancel(c)
				cs.cancels = append(cs.cancels, cancel)
			default:
				var cancel context.CancelFunc
				c, cancel = context.WithTimeout(c, time.Hour)
				cs.cancels = append(cs.cancels, cancel)
			}
		}
		if cs.sync != nil {
			cs.sync()
		}
		resp, err = next(c, cs.msgs[j])
	}
	if len(cs.call.runs) == 0 {
		// a short-circuiting middleware: the core handler never runs
		return &kmip.ResponseMessage{Header: kmip.ResponseHeader{ProtocolVersion: kmip.V1_4, BatchCount: 0}}, nil
	}
	return resp, err
}

// pwExecutor: an executor for the configuration of r with the middleware installed. wire: the
// operations are real ones (Activate routed to the script handler), for scenarios that cross the wire.
func pwExecutor(r *bReq, wire bool) *kmipserver.BatchExecutor {
	e := kmipserver.NewBatchExecutor()
	if len(r.vers) > 0 {
		e.SetSupportedProtocolVersions(r.vers...)
	}
	if wire {
		e.Route(kmip.OperationActivate, pwWireHandler{})
	} else {
		for _, op := range r.routes {
			e.Route(kmip.Operation(op), scriptHandler{})
		}
	}
	e.Use(pwMiddleware)
	return e
}

func pwNewCall(c *pwCall, syncf func(), wire bool) *pwCallState {
	pwCallID.Lock()
	pwCallID.n++
	id := "call-" + strconv.Itoa(pwCallID.n)
	pwCallID.Unlock()
	cs := &pwCallState{call: c, id: id, sync: syncf}
	for _, rn := range c.runs {
		st := &reqState{req: rn.req, sync: syncf}
		serial := reqSerial.Add(1)
		reqRegistry.Store(serial, st)
		var m *kmip.RequestMessage
		if wire {
			m = pwWireMessage(rn.req, serial)
		} else {
			m = rn.req.message(serial)
			// handlers find their item through the payload pointer (ids are arbitrary bytes, see payloadReg)
			for i := range m.BatchItem {
				payloadReg.Store(m.BatchItem[i].RequestPayload, payloadRef{st, i})
			}
		}
		m.Header.ClientCorrelationValue = id
		cs.runs, cs.msgs, cs.serials = append(cs.runs, st), append(cs.msgs, m), append(cs.serials, serial)
	}
	pwCalls.Store(id, cs)
	return cs
}

func (cs *pwCallState) release() {
	for _, c := range cs.cancels {
		c()
	}
	for _, s := range cs.serials {
		reqRegistry.Delete(s)
	}
	for _, m := range cs.msgs {
		for i := range m.BatchItem {
			payloadReg.Delete(m.BatchItem[i].RequestPayload)
		}
	}
	pwCalls.Delete(cs.id)
}

// entryMessage: the message HandleRequest is called with (the first run's, or an empty one).
func (cs *pwCallState) entryMessage() *kmip.RequestMessage {
	if len(cs.msgs) > 0 {
		return cs.msgs[0]
	}
	return &kmip.RequestMessage{Header: kmip.RequestHeader{ProtocolVersion: kmip.V1_4, ClientCorrelationValue: cs.id}}
}

// handlerCtx: the context the handlers of the call hold (latest run that reached a handler).
func (cs *pwCallState) handlerCtx() context.Context {
	for j := len(cs.runs) - 1; j >= 0; j-- {
		if c := cs.runs[j].ctx; c != nil {
			return c
		}
	}
	return nil
}

type pwResult struct {
	runs     [][]obsEv
	panic    string
	bad      string
	accessor string
}

func (cs *pwCallState) result() pwResult {
	res := pwResult{panic: cs.panic}
	for _, st := range cs.runs {
		st.mu.Lock()
		res.runs = append(res.runs, append([]obsEv{}, st.obs...))
		if st.bad != "" {
			res.bad = st.bad
		}
		if st.accessor != "" {
			res.accessor = st.accessor
		}
		st.mu.Unlock()
	}
	return res
}

// pwScenario runs the calls in mode seq | par | il:a.b.c on one executor.
func pwScenario(mode string, calls []*pwCall) []pwResult {
	exec := pwExecutor(pwConfigOf(calls), false)
	conns := map[string]context.Context{}
	var connMu sync.Mutex
	states := make([]*pwCallState, len(calls))
	parentOf := func(i int) context.Context {
		p := calls[i].parent
		if strings.HasPrefix(p, "i") {
			k, _ := strconv.Atoi(p[1:])
			if k >= 0 && k < len(states) && states[k] != nil {
				if c := states[k].handlerCtx(); c != nil {
					return c
				}
			}
			return context.Background()
		}
		connMu.Lock()
		defer connMu.Unlock()
		if _, ok := conns[p]; !ok {
			c, cancel := context.WithCancel(context.Background())
			_ = cancel // a connection context lives as long as the scenario
			conns[p] = context.WithValue(c, connKey{}, p)
		}
		return conns[p]
	}
	run := func(i int, syncf func()) {
		cs := pwNewCall(calls[i], syncf, false)
		states[i] = cs
		if syncf != nil {
			syncf() // before HandleRequest is called
		}
		parent := parentOf(i)
		_, cs.panic = guard("HandleRequest", func() *kmip.ResponseMessage { return exec.HandleRequest(parent, cs.entryMessage()) })
	}
	switch {
	case mode == "seq":
		for i := range calls {
			run(i, nil)
		}
	case mode == "par":
		var wg sync.WaitGroup
		start := make(chan struct{})
		for i := range calls {
			wg.Add(1)
			go func() {
				defer wg.Done()
				<-start
				run(i, runtime.Gosched)
			}()
		}
		close(start)
		wg.Wait()
	case strings.HasPrefix(mode, "il:"):
		var sched []int
		for _, s := range strings.Split(mode[3:], ".") {
			if v, err := strconv.Atoi(s); err == nil {
				sched = append(sched, v)
			}
		}
		n := len(calls)
		arrive := make([]chan struct{}, n)
		grant := make([]chan struct{}, n)
		finished := make([]chan struct{}, n)
		for i := range calls {
			arrive[i], grant[i], finished[i] = make(chan struct{}), make(chan struct{}), make(chan struct{})
			go func() {
				defer close(finished[i])
				run(i, func() { arrive[i] <- struct{}{}; <-grant[i] })
			}()
		}
		for i := range calls {
			<-arrive[i]
		}
		turn := func(i int) bool {
			select {
			case grant[i] <- struct{}{}:
				select {
				case <-arrive[i]:
					return true
				case <-finished[i]:
					return false
				}
			case <-finished[i]:
				return false
			}
		}
		for _, i := range sched {
			if i >= 0 && i < n {
				turn(i)
			}
		}
		for i := range calls {
			for turn(i) {
			}
		}
	}
	res := make([]pwResult, len(calls))
	for i, cs := range states {
		if cs != nil {
			res[i] = cs.result()
			cs.release()
		}
	}
	return res
}

// pwConfigOf: the executor configuration shared by the calls of a scenario.
func pwConfigOf(calls []*pwCall) *bReq {
	for _, c := range calls {
		for _, rn := range c.runs {
			return rn.req
		}
	}
	return &bReq{routes: []uint32{1, 2}}
}

func pwVals(runs [][]obsEv) string {
	var p []string
	for _, r := range runs {
		for _, o := range r {
			p = append(p, strconv.Itoa(o.val))
		}
	}
	if len(p) == 0 {
		return "-"
	}
	return strings.Join(p, ".")
}

// pwOracle: every run observes what it observes alone on an empty placeholder.
func pwOracle(ctx *Ctx, line, where string, i int, c *pwCall, res pwResult) {
	viol := func(oracle, key, detail string) {
		ctx.Res.Violate(report.Violation{Property: "C15", Oracle: oracle, Key: key, Detail: detail, Line: line})
	}
	if res.bad != "" {
		ctx.Res.Fail(res.bad + ": " + line)
	}
	if res.accessor != "" {
		viol("accessor-agrees", "place:accessor-disagrees", fmt.Sprintf("call %d (%s): %s", i, where, res.accessor))
	}
	if res.panic != "" {
		viol("no-panic", "place:panic "+panicKey(res.panic), "HandleRequest panicked: "+res.panic)
		return
	}
	own := map[int]bool{0: true}
	for _, rn := range c.runs {
		for _, it := range rn.req.items {
			for _, a := range it.acts {
				if a.kind == 's' {
					own[a.v] = true
				}
			}
		}
	}
	left := 0 // what the previous runs of this call left behind
	for j, rn := range c.runs {
		if j >= len(res.runs) {
			break
		}
		got, want := res.runs[j], soloPrediction(rn.req)
		if renderObs(got) != renderObs(want) {
			key := "place:wrong-value"
			for _, o := range got {
				if !own[o.val] {
					key = "place:foreign-value"
				}
			}
			switch {
			case key != "place:foreign-value" && j > 0 && renderObs(got) == renderObs(soloFrom(rn.req, left, true)):
				// exactly what the run reads on the holder its predecessor left: the runs of one call share it
				key = "place:run-not-empty-at-start"
			case key != "place:foreign-value" && renderObs(got) == renderObs(soloFrom(rn.req, 0, false)):
				key = "place:not-cleared-after-failed-item"
			}
			viol("solo-equivalence", key, fmt.Sprintf("call %d (%s), run %d of %d (message executed by the core handler on invocation %d of next): observed %s, alone on an empty placeholder it observes %s",
				i, where, j+1, len(c.runs), j+1, renderObs(got), renderObs(want)))
		}
		left = soloEnd(rn.req, left)
	}
}

func pwCase(ctx *Ctx, impl, mode string, calls []*pwCall, origin string) {
	enc := make([]string, len(calls))
	for i, c := range calls {
		enc[i] = c.encode()
	}
	line := "place.world " + impl + " " + mode + " " + strings.Join(enc, " | ")
	ctx.current = line
	res := pwScenario(mode, calls)
	parts := make([]string, len(calls))
	nontrivial := false
	for i, c := range calls {
		pwOracle(ctx, line, "mode "+mode, i, c, res[i])
		if res[i].panic != "" {
			parts[i] = "panic"
			continue
		}
		parts[i] = pwVals(res[i].runs)
		if len(c.runs) > 1 || strings.HasPrefix(c.parent, "i") {
			nontrivial = true
		}
	}
	ctx.Add(line, "ok "+strings.Join(parts, " | "), nontrivial, "C15")
	if origin != "" {
		m := mode
		if strings.HasPrefix(m, "il:") {
			m = "il"
		}
		ctx.Res.Count("placemw." + origin)
		ctx.Res.Count("placemw.mode=" + m)
		for _, c := range calls {
			ctx.Res.Count(fmt.Sprintf("placemw.runs-per-call=%d", min(len(c.runs), 4)))
			if strings.HasPrefix(c.parent, "i") {
				ctx.Res.Count("placemw.nested-call")
			}
			for _, rn := range c.runs {
				if rn.wraps > 0 {
					ctx.Res.Count("placemw.run-with-derived-context")
				}
			}
		}
	}
}

// ---------------------------------------------------------------------------------------------
// probing the real code for the parameters of the world model

type pwFunc func(ctx context.Context, pl kmip.OperationPayload) (kmip.OperationPayload, error)

func (f pwFunc) HandleOperation(ctx context.Context, pl kmip.OperationPayload) (kmip.OperationPayload, error) {
	return f(ctx, pl)
}

func pwPanics(f func()) (p bool) {
	defer func() {
		if recover() != nil {
			p = true
		}
	}()
	f()
	return false
}

func pwProbeMsg(op kmip.Operation) *kmip.RequestMessage {
	var pl kmip.OperationPayload = &payloads.ActivateRequestPayload{UniqueIdentifier: "probe"}
	if op == kmip.OperationRevoke {
		pl = &payloads.RevokeRequestPayload{UniqueIdentifier: "probe"}
	}
	return &kmip.RequestMessage{
		Header:    kmip.RequestHeader{ProtocolVersion: kmip.V1_4, BatchCount: 1},
		BatchItem: []kmip.RequestBatchItem{{Operation: op, RequestPayload: pl}},
	}
}

// pwProbe returns the implementation parameters as the model writes them (e.g. "F010") and, for the
// evidence, what was observed.
func pwProbe() (impl string, notes []string) {
	_, p := guard("probe", func() int {
		// where is a batch context made?
		var entry, handlerHasCtx bool
		var seen string
		exec := kmipserver.NewBatchExecutor()
		exec.Use(func(next kmipserver.Next, ctx context.Context, msg *kmip.RequestMessage) (*kmip.ResponseMessage, error) {
			entry = !pwPanics(func() { kmipserver.GetRequestHeader(ctx) })
			if entry {
				kmipserver.SetIdPlaceholder(ctx, "mw")
			}
			return next(ctx, msg)
		})
		exec.Route(kmip.OperationActivate, pwFunc(func(ctx context.Context, pl kmip.OperationPayload) (kmip.OperationPayload, error) {
			handlerHasCtx = !pwPanics(func() { kmipserver.GetRequestHeader(ctx) })
			seen = kmipserver.IdPlaceholder(ctx)
			return &payloads.ActivateResponsePayload{}, nil
		}))
		exec.HandleRequest(context.Background(), pwProbeMsg(kmip.OperationActivate))
		core := handlerHasCtx && (!entry || seen != "mw")
		notes = append(notes, fmt.Sprintf("middleware-has-batch-context=%v handler-has-batch-context=%v handler-saw-middleware-value=%v", entry, handlerHasCtx, seen == "mw"))
		if !handlerHasCtx {
			impl = "F000"
			return 0
		}

		// where does the holder come from? A's handler stores "a", forwards a request B (whose handler
		// reads, then stores "b") and reads again; B runs nested in A's context, then in an unrelated one.
		var seenB, seenA string
		var inner context.Context
		ex2 := kmipserver.NewBatchExecutor()
		ex2.Route(kmip.OperationRevoke, pwFunc(func(ctx context.Context, pl kmip.OperationPayload) (kmip.OperationPayload, error) {
			seenB = kmipserver.IdPlaceholder(ctx)
			kmipserver.SetIdPlaceholder(ctx, "b")
			return &payloads.RevokeResponsePayload{}, nil
		}))
		ex2.Route(kmip.OperationActivate, pwFunc(func(ctx context.Context, pl kmip.OperationPayload) (kmip.OperationPayload, error) {
			kmipserver.SetIdPlaceholder(ctx, "a")
			parent := inner
			if parent == nil {
				parent = ctx
			}
			ex2.HandleRequest(parent, pwProbeMsg(kmip.OperationRevoke))
			seenA = kmipserver.IdPlaceholder(ctx)
			return &payloads.ActivateResponsePayload{}, nil
		}))
		ex2.HandleRequest(context.Background(), pwProbeMsg(kmip.OperationActivate))
		nestB, nestA := seenB, seenA
		inner = context.WithValue(context.Background(), connKey{}, "other")
		ex2.HandleRequest(context.Background(), pwProbeMsg(kmip.OperationActivate))
		unrelB, unrelA := seenB, seenA
		// sequential on unrelated contexts: does the value survive the call?
		ex2.HandleRequest(context.WithValue(context.Background(), connKey{}, "third"), pwProbeMsg(kmip.OperationRevoke))
		afterB := seenB
		notes = append(notes, fmt.Sprintf("nested: inner read %q, outer then read %q; unrelated: inner read %q, outer then read %q; next call read %q", nestB, nestA, unrelB, unrelA, afterB))
		alloc, reset := "F", "0"
		switch {
		case unrelB == "a" || unrelA != "a" || afterB != "":
			alloc = "G"
			if unrelB == "" && afterB == "" {
				reset = "1"
			}
		case nestB == "a" || nestA != "a":
			alloc = "R"
			if nestB == "" {
				reset = "1"
			}
		}
		b := func(v bool) string {
			if v {
				return "1"
			}
			return "0"
		}
		impl = alloc + reset + b(entry) + b(core)
		return 0
	})
	if p != "" {
		return "?", append(notes, "probe panicked: "+p)
	}
	return impl, notes
}

// ---------------------------------------------------------------------------------------------
// the real entry points: kmipserver.Server over an in-memory listener, the HTTP handler

type pwWireHandler struct{}

// payload of a wire item: "<idx>/<serial>" in the unique identifier of an Activate request
func (pwWireHandler) HandleOperation(ctx context.Context, pl kmip.OperationPayload) (kmip.OperationPayload, error) {
	idx, serial := -1, int32(-1)
	if p, ok := pl.(*payloads.ActivateRequestPayload); ok && p != nil {
		a, b, _ := strings.Cut(p.UniqueIdentifier, "/")
		i, e1 := strconv.Atoi(a)
		s, e2 := strconv.ParseInt(b, 10, 32)
		if e1 == nil && e2 == nil {
			idx, serial = i, int32(s)
		}
	}
	out, err := scriptRun(ctx, idx, serial)
	if err == nil {
		out = &payloads.ActivateResponsePayload{UniqueIdentifier: "done"}
	}
	return out, err
}

// pwWireMessage: the request with real operations: routed items are Activate, the others Archive.
func pwWireMessage(r *bReq, serial int32) *kmip.RequestMessage {
	msg := &kmip.RequestMessage{Header: kmip.RequestHeader{
		ProtocolVersion: r.ver, BatchErrorContinuationOption: kmip.BatchErrorContinuationOption(r.opt), BatchCount: r.count,
	}}
	for i := range r.items {
		id := fmt.Sprintf("%d/%d", i, serial)
		if r.routed(r.items[i].op) {
			msg.BatchItem = append(msg.BatchItem, kmip.RequestBatchItem{Operation: kmip.OperationActivate, RequestPayload: &payloads.ActivateRequestPayload{UniqueIdentifier: id}})
		} else {
			msg.BatchItem = append(msg.BatchItem, kmip.RequestBatchItem{Operation: kmip.OperationArchive, RequestPayload: &payloads.ArchiveRequestPayload{UniqueIdentifier: id}})
		}
	}
	return msg
}

type pwListener struct {
	ch     chan net.Conn
	closed chan struct{}
	once   sync.Once
}

func (l *pwListener) Accept() (net.Conn, error) {
	select {
	case c := <-l.ch:
		return c, nil
	case <-l.closed:
		return nil, net.ErrClosed
	}
}
func (l *pwListener) Close() error   { l.once.Do(func() { close(l.closed) }); return nil }
func (l *pwListener) Addr() net.Addr { return &net.UnixAddr{Name: "verif", Net: "unix"} }

// pwServerCase: every connection sends its calls one after the other over the wire to a real Server;
// the connections run concurrently. http: the same calls through the HTTP handler instead.
func pwServerCase(ctx *Ctx, impl string, conns [][]*pwCall, viaHTTP bool, origin string) {
	var flat []*pwCall
	for _, cs := range conns {
		flat = append(flat, cs...)
	}
	enc := make([]string, len(flat))
	for i, c := range flat {
		enc[i] = c.encode()
	}
	what := "server"
	if viaHTTP {
		what = "http"
	}
	// the model line: the calls of a connection have that connection's context as parent; by the
	// theorems any merge of the connections gives the same observations: the model runs them in sequence
	line := "place.world " + impl + " seq " + strings.Join(enc, " | ")
	ctx.current = line + " (" + what + ")"
	exec := pwExecutor(pwConfigOf(flat), true)
	states := make([][]*pwCallState, len(conns))
	var wg sync.WaitGroup
	fail := func(s string) { ctx.Res.Fail("placemw " + what + ": " + s + ": " + line) }
	if viaHTTP {
		h := kmipserver.NewHTTPHandler(exec)
		for ci, calls := range conns {
			states[ci] = make([]*pwCallState, len(calls))
			wg.Add(1)
			go func() {
				defer wg.Done()
				for k, c := range calls {
					cs := pwNewCall(c, runtime.Gosched, true)
					states[ci][k] = cs
					body := ttlv.MarshalTTLV(cs.entryMessage())
					req := httptest.NewRequest("POST", "/kmip", bytes.NewReader(body))
					req.Header.Set("Content-Type", "application/octet-stream")
					req.Header.Set("Content-Length", strconv.Itoa(len(body)))
					rec := httptest.NewRecorder()
					_, cs.panic = guard("ServeHTTP", func() int { h.ServeHTTP(rec, req); return 0 })
					if cs.panic == "" && rec.Code != http.StatusOK {
						fail(fmt.Sprintf("HTTP status %d", rec.Code))
					}
				}
			}()
		}
		wg.Wait()
	} else {
		l := &pwListener{ch: make(chan net.Conn), closed: make(chan struct{})}
		srv := kmipserver.NewServer(l, exec)
		done := make(chan struct{})
		go func() { defer close(done); _ = srv.Serve() }()
		for ci, calls := range conns {
			states[ci] = make([]*pwCallState, len(calls))
			a, b := net.Pipe()
			select {
			case l.ch <- b:
			case <-time.After(10 * time.Second):
				fail("the server does not accept")
				continue
			}
			wg.Add(1)
			go func() {
				defer wg.Done()
				st := ttlv.NewStream(a, -1)
				defer st.Close()
				for k, c := range calls {
					cs := pwNewCall(c, runtime.Gosched, true)
					states[ci][k] = cs
					if err := st.Send(cs.entryMessage()); err != nil {
						fail("send: " + err.Error())
						return
					}
					var resp kmip.ResponseMessage
					if err := st.Recv(&resp); err != nil {
						fail("receive: " + err.Error())
						return
					}
				}
			}()
		}
		wg.Wait()
		_ = srv.Shutdown()
		<-done
	}
	parts := make([]string, 0, len(flat))
	i := 0
	for ci, calls := range conns {
		for k, c := range calls {
			cs := states[ci][k]
			if cs == nil {
				parts = append(parts, "-")
				i++
				continue
			}
			res := cs.result()
			cs.release()
			pwOracle(ctx, line, what, i, c, res)
			if res.panic != "" {
				parts = append(parts, "panic")
			} else {
				parts = append(parts, pwVals(res.runs))
			}
			i++
		}
	}
	ctx.Add(line, "ok "+strings.Join(parts, " | "), true, "C15")
	if origin != "" {
		ctx.Res.Count("placemw." + origin)
		ctx.Res.Count("placemw.entry=" + what)
	}
}

// ---------------------------------------------------------------------------------------------
// replay

func pwParseCall(s string) (*pwCall, error) {
	f := strings.Split(s, " > ")
	c := &pwCall{parent: strings.TrimSpace(f[0])}
	if len(c.parent) < 2 || (c.parent[0] != 'c' && c.parent[0] != 'i') {
		return nil, fmt.Errorf("bad parent %q", c.parent)
	}
	for _, r := range f[1:] {
		w, q, ok := strings.Cut(r, " ! ")
		if !ok {
			return nil, fmt.Errorf("bad run %q", r)
		}
		n, err := strconv.Atoi(strings.TrimSpace(w))
		if err != nil || n < 0 {
			return nil, fmt.Errorf("bad wraps %q", w)
		}
		req, err := parseBReq(q)
		if err != nil {
			return nil, err
		}
		c.runs = append(c.runs, pwRun{n, req})
	}
	return c, nil
}

// ---------------------------------------------------------------------------------------------
// the engine

func single(parent string, r *bReq) *pwCall { return &pwCall{parent: parent, runs: []pwRun{{0, r}}} }

// pwSamePointerRetry: the most ordinary retrying middleware there is — it calls next again with the VERY
// message it was given (same pointer, possibly the same derived context) — for messages of 1..4 items and
// 2..4 invocations. The pw scenarios hand every run a message of its own (the handlers find their script
// through the payload pointer), so this shape is checked here, directly as the property states it: every
// execution of the message starts with an empty placeholder, and an item reads what the previous item of
// the SAME execution stored.
func pwSamePointerRetry(ctx *Ctx) {
	for items := 1; items <= 4; items++ {
		for runs := 2; runs <= 4; runs++ {
			for _, derive := range []bool{false, true} {
				line := fmt.Sprintf("# place.sameptr items=%d runs=%d derived-context=%v", items, runs, derive)
				ctx.current = line
				var obs [][]string
				exec := kmipserver.NewBatchExecutor()
				exec.Use(func(next kmipserver.Next, c context.Context, msg *kmip.RequestMessage) (resp *kmip.ResponseMessage, err error) {
					for k := 0; k < runs; k++ {
						obs = append(obs, nil)
						cc := c
						if derive {
							cc = context.WithValue(c, pwWrapKey{k}, k)
						}
						resp, err = next(cc, msg)
					}
					return resp, err
				})
				n := 0
				exec.Route(kmip.OperationActivate, pwFunc(func(c context.Context, pl kmip.OperationPayload) (kmip.OperationPayload, error) {
					obs[len(obs)-1] = append(obs[len(obs)-1], kmipserver.IdPlaceholder(c))
					n++
					kmipserver.SetIdPlaceholder(c, fmt.Sprintf("v%d", n))
					return &payloads.ActivateResponsePayload{}, nil
				}))
				msg := pwProbeMsg(kmip.OperationActivate)
				for len(msg.BatchItem) < items {
					msg.BatchItem = append(msg.BatchItem, msg.BatchItem[0])
				}
				msg.Header.BatchCount = int32(items)
				_, p := guard("HandleRequest", func() int { exec.HandleRequest(context.Background(), msg); return 0 })
				ctx.Res.Count("placemw.same-pointer-retry")
				if p != "" {
					ctx.Res.Violate(report.Violation{Property: "C15", Oracle: "solo-equivalence", Key: "place:panic", Detail: "same-pointer retry: HandleRequest panicked: " + p, Line: line})
					continue
				}
				v := 0
				for j, o := range obs {
					for i, got := range o {
						want := ""
						if i > 0 {
							want = fmt.Sprintf("v%d", v)
						}
						v++
						if got != want {
							key := "place:wrong-value"
							if i == 0 {
								key = "place:run-not-empty-at-start"
							}
							ctx.Res.Violate(report.Violation{Property: "C15", Oracle: "solo-equivalence", Key: key,
								Detail: fmt.Sprintf("a message middleware invokes next %d times with the message it was given (%d item(s)): item %d of execution %d reads the placeholder %q, expected %q", runs, items, i+1, j+1, got, want), Line: line})
						}
					}
					if len(o) != items {
						ctx.Res.Count("placemw.same-pointer-retry.items-not-all-run")
					}
				}
			}
		}
	}
}

func runPlaceMw(ctx *Ctx) {
	quietSlog()
	impl, notes := pwProbe()
	for _, n := range notes {
		ctx.Res.Count("placemw.probe: " + n)
	}
	ctx.Res.Count("placemw.impl=" + impl)
	if len(impl) != 4 {
		ctx.Res.Fail("placemw: cannot determine the implementation parameters: " + strings.Join(notes, "; "))
		return
	}
	pwSamePointerRetry(ctx) // also when replaying: its lines (# place.sameptr) carry no further input
	if replayRequests(ctx, "place.world", func(arg string) {
		f := strings.SplitN(arg, " ", 3)
		if len(f) != 3 {
			return
		}
		var calls []*pwCall
		for _, s := range strings.Split(f[2], " | ") {
			c, err := pwParseCall(s)
			if err != nil {
				ctx.Res.Fail("replay: " + err.Error() + ": " + s)
				return
			}
			calls = append(calls, c)
		}
		// replay with the parameters of the code that is being replayed against
		pwCase(ctx, impl, f[1], calls, "")
	}) {
		return
	}
	// the structure the theorems need; a concrete failing scenario follows from the oracles below
	// the model's `Impl.go` (what theorem C15.C15_full_go is about) must be what the real code probes as
	line := "place.impl go"
	ctx.Add(line, "ok "+impl, true, "C15")
	if impl[0] != 'F' {
		ctx.Res.Violate(report.Violation{Property: "C15", Oracle: "holder-per-context", Key: "place:holder-shared-by-construction",
			Detail: "probing newBatchContext: the holder of the placeholder is not a new object per batch context (" + strings.Join(notes, "; ") + "); Lean: C15.reuse_leaks_nested / global_leaks_sequential / global_reset_leaks_interleaved", Line: line})
	}
	if impl[2] == '0' && impl[3] == '0' {
		ctx.Res.Violate(report.Violation{Property: "C15", Oracle: "holder-per-context", Key: "place:no-batch-context",
			Detail: "handlers are not given a batch context (" + strings.Join(notes, "; ") + ")", Line: line})
		return
	}

	r := ctx.R
	R, C := bAct{kind: 'r'}, bAct{kind: 'c'}
	S := func(v int) bAct { return bAct{kind: 's', v: v} }
	poison := placeReq(0, pItem("ok", S(999)), pItem("ok", R))
	other := placeReq(0, pItem("ok", R, S(21), R))

	// 1. every access sequence over small batches, executed TWICE by a retrying middleware, and followed
	//    by another message (substitution), after a call that leaves a value behind, on one connection
	actSets := [][]bAct{nil, {R}, {S(7)}, {C}, {R, S(7)}, {S(8), R}}
	outs := []string{"ok", "x", "p"}
	var words [][]bItem
	var build func(prefix []bItem, k int)
	build = func(prefix []bItem, k int) {
		if k == 0 {
			words = append(words, append([]bItem{}, prefix...))
			return
		}
		for _, as := range actSets {
			for _, o := range outs {
				build(append(prefix, pItem(o, as...)), k-1)
			}
		}
	}
	for k := 1; k <= ctx.N(2, 3); k++ {
		build(nil, k)
	}
	for wi, w := range words {
		if ctx.Thor && len(w) == 3 && wi%4 != 0 {
			continue
		}
		for _, opt := range []uint32{0, 2} {
			q := placeReq(opt, append([]bItem{pItem("ok", R)}, append(append([]bItem{}, w...), pItem("ok", R))...)...)
			retry := &pwCall{parent: "c0", runs: []pwRun{{0, q}, {1 + wi%3, q}}}
			subst := &pwCall{parent: "c0", runs: []pwRun{{wi % 2, q}, {2, other}, {0, q}}}
			pwCase(ctx, impl, "seq", []*pwCall{single("c0", poison), retry, single("c0", q)}, "exhaustive-retry")
			if (wi+int(opt))%3 == 0 {
				pwCase(ctx, impl, "seq", []*pwCall{single("c1", poison), subst, single("i1", q)}, "exhaustive-substitute")
			}
			if (wi+int(opt))%ctx.N(9, 4) == 0 {
				pwCase(ctx, impl, "par", []*pwCall{single("c0", poison), retry, single("c0", poison), subst}, "exhaustive-par")
			}
		}
	}

	// 2. all merges of pairs of small calls: retried, substituted, nested in the other call, short-circuited
	small := []*bReq{
		placeReq(0, pItem("ok", S(11), R)),
		placeReq(0, pItem("ok", R, R)),
		placeReq(0, pItem("x", S(13)), pItem("ok", R)),
		placeReq(2, pItem("ok", S(14)), pItem("p", R), pItem("ok", R)),
	}
	distinct := func(q *bReq, k int) *bReq {
		c := *q
		c.items = make([]bItem, len(q.items))
		for i, it := range q.items {
			it.acts = append([]bAct{}, it.acts...)
			for j := range it.acts {
				if it.acts[j].kind == 's' {
					it.acts[j].v += 100 * k
				}
			}
			c.items[i] = it
		}
		return &c
	}
	shapes := func(parent string, q *bReq) []*pwCall {
		return []*pwCall{
			single(parent, q),
			{parent: parent, runs: []pwRun{{0, q}, {1, q}}},
			{parent: parent, runs: []pwRun{{2, q}, {0, placeReq(0, pItem("ok", R))}}},
			{parent: parent},
		}
	}
	for a := range small {
		for b := range small {
			if !ctx.Thor && (a+b)%2 == 1 {
				continue
			}
			for sa, ca := range shapes("c0", distinct(small[a], 0)) {
				for sb, cb := range shapes("i0", distinct(small[b], 1)) {
					if sa == 0 && sb == 0 {
						cb = single("c0", cb.runs[0].req) // the plain pair is the `place` engine's
					}
					if ca.steps()+cb.steps() > ctx.N(9, 11) {
						continue
					}
					merges([]int{ca.steps(), cb.steps()}, func(s []int) {
						pwCase(ctx, impl, schedMode(s), []*pwCall{ca, cb}, "all-merges-2")
					})
				}
			}
		}
	}
	ctx.Res.Exhaustive = true

	// 3. the real entry points
	for i := 0; i < ctx.N(40, 400); i++ {
		mk := func(base int) []*pwCall {
			q := placeReq(rng.Pick(r, []uint32{0, 2}), pItem("ok", R), pItem(rng.Pick(r, outs), rng.Pick(r, actSets[1:])...), pItem("ok", S(base+1), R), pItem("ok", R))
			q = distinct(q, base/100)
			return []*pwCall{single("c", poison), {parent: "c", runs: []pwRun{{0, q}, {1, q}}}, single("c", q)}
		}
		var conns [][]*pwCall
		for c := 0; c < 2+r.Intn(3); c++ {
			calls := mk(100 * (c + 1))
			for _, cl := range calls {
				cl.parent = "c" + strconv.Itoa(c)
			}
			conns = append(conns, calls)
		}
		pwServerCase(ctx, impl, conns, i%2 == 1, "entry-points")
	}

	// 4. random scenarios
	for i := ctx.N(400, 5000); i > 0; i-- {
		k := 2 + r.Intn(4)
		cfg := randomReq(r, 0, 0)
		calls := make([]*pwCall, k)
		mode := []string{"seq", "il", "par"}[i%3]
		for j := range calls {
			c := &pwCall{parent: "c" + strconv.Itoa(r.Intn(2))}
			if j > 0 && mode != "par" && r.Chance(1, 3) {
				c.parent = "i" + strconv.Itoa(r.Intn(j))
			}
			nruns := 1
			if r.Chance(1, 2) {
				nruns = r.Intn(4)
			}
			var prev *bReq
			for n := 0; n < nruns; n++ {
				q := prev
				if q == nil || r.Chance(1, 2) {
					q = randomReq(r, 1+r.Intn(4), 100*(j+1)+10*n)
					q.vers, q.routes = cfg.vers, cfg.routes
					if r.Chance(9, 10) {
						q.ver = kmip.V1_4
					}
				}
				c.runs = append(c.runs, pwRun{r.Intn(4), q})
				prev = q
			}
			calls[j] = c
		}
		m := mode
		if mode == "il" {
			var s []int
			for j, c := range calls {
				for n := c.steps(); n > 0; n-- {
					s = append(s, j)
				}
			}
			for n := len(s) - 1; n > 0; n-- {
				x := r.Intn(n + 1)
				s[n], s[x] = s[x], s[n]
			}
			if r.Chance(1, 5) && len(s) > 2 {
				s = s[:len(s)/2]
			}
			m = schedMode(s)
		}
		pwCase(ctx, impl, m, calls, "random")
	}
}

func init() {
	register(&Engine{
		Name: "placemw",
		Rule: "calls of HandleRequest on one executor whose message middleware makes the core handler run 0..3 messages (retry of the same message, substitution of another) after deriving 0..3 contexts (WithValue / WithCancel / WithTimeout), with parent = a shared connection context or the context held by a handler of another call; handlers Set/Read/Clear the ID placeholder and cross-check GetIdOrPlaceholder; the implementation parameters of the Lean world model are probed on the real code first; every access sequence over batches of <= 2 (thorough 3) items x {ok, error, panic} x {unset, Stop} retried and substituted after/beside a call that leaves a value behind; ALL merges of pairs of small calls (plain, retried, substituted, short-circuited; second call on the same connection or nested in the first); the same through kmipserver.Server over an in-memory listener and the HTTP handler with concurrent connections; random scenarios (sequential, controlled merges, goroutines); distinct = distinct scenario line; nontrivial = some call has several runs or a nested parent",
		Run:  runPlaceMw,
	})
}
