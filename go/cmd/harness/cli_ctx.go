package main

// Engine `lts.cli`, C10: the KIND of context the abandoned caller holds.
//
// The property quantifies over "context cancellations and timeouts"; the library reads the caller's context through
// Done(), Err() and (since it reports causes for its own connection context) possibly context.Cause. What those
// return depends on how the context was MADE: a plain cancellation, a timer, a cancellation carrying a caller-chosen
// cause (context.WithCancelCause / WithTimeoutCause / WithDeadlineCause: Err() is Canceled / DeadlineExceeded but
// context.Cause() is an arbitrary error), a context that inherits its end from an ancestor through WithValue /
// WithCancel / WithoutCancel links, a caller-defined type that embeds a standard context, a caller-defined
// implementation of the interface, a standard context whose parent is such an implementation (its end is propagated
// by a goroutine), a context that has already ended when the call is issued. Every kind is driven to every
// cancellation point the director knows (lcRunC10); whatever the kind, an abandoned exchange must never let its
// response reach a later call. Nothing here is part of the model: the model's caller has one bit "my context has
// ended", which is what all these kinds are to the property.

import (
	"context"
	"errors"
	"fmt"
	"io"
	"sync"
	"time"
)

// the cause a caller gives: an error of its own, unrelated to the context package's sentinels
var errLcCause = errors.New("lts.cli: upstream caller went away (caller-chosen cause)")

// a cause that looks like an error of the transport (the class the client retries after)
var errLcCauseIO = fmt.Errorf("lts.cli: caller-chosen cause wrapping a transport error: %w", io.ErrClosedPipe)

// lcCtxKinds: the kinds of caller context (spec: next = "<base>~<kind>").
//
//	wc   context.WithCancel
//	wt   context.WithTimeout            (a real timer: the director holds the goroutine at the point until it has fired)
//	wd   context.WithDeadline           (same)
//	wtc  context.WithTimeout far in the future, ended by its cancel function (has a deadline, Err = Canceled)
//	cc   context.WithCancelCause, cancelled with a caller-chosen cause
//	ccn  context.WithCancelCause, cancelled with a nil cause
//	cce  context.WithCancelCause, cancelled with a cause that wraps io.ErrClosedPipe
//	tc   context.WithTimeoutCause with a caller-chosen cause (real timer)
//	dc   context.WithDeadlineCause with a caller-chosen cause (real timer)
//	pc   WithValue(WithCancel(WithValue(P))) where P = WithCancelCause: P is cancelled with a cause
//	woc  WithCancelCause(WithValue(WithoutCancel(Q))) where Q has ALREADY been cancelled: only the inner cancel counts
//	emb  a caller-defined struct embedding a WithCancelCause context
//	chc  context.WithCancel(custom implementation): the custom parent ends, the standard child follows
//	cust the caller-defined implementation lcCallerCtx (Err = Canceled)
//	custd the same with a deadline (Err = DeadlineExceeded)
var lcCtxKinds = []string{"wc", "wt", "wd", "wtc", "cc", "ccn", "cce", "tc", "dc", "pc", "woc", "emb", "chc", "cust", "custd"}

func lcCtxKindKnown(k string) bool {
	for _, x := range lcCtxKinds {
		if x == k {
			return true
		}
	}
	return false
}

// lcTimerKind: the context ends by a timer of the runtime, not by a call of the director.
func lcTimerKind(k string) bool { return k == "wt" || k == "wd" || k == "tc" || k == "dc" }

// lcVictimTimeout: how long a timer-kind context lasts: long against the time a call needs to reach any of the
// directed points (also in the retry after a reconnect), short against the limits of the harness.
func lcVictimTimeout() time.Duration { return max(15*time.Millisecond, 20*lcPause) }

type lcCtxKey struct{ name string }

// lcEmbCtx: what many callers do — their own type around a standard context.
type lcEmbCtx struct {
	context.Context
	tag string
}

// lcVictim: the context of the call that is going to be abandoned, and the way to end it.
type lcVictim struct {
	ctx   context.Context
	kind  string
	end   func() // ends the context (cancel kinds); nil for timer kinds
	stops []context.CancelFunc
	once  sync.Once
}

// fire ends the context NOW (cancel kinds) or returns when its timer has ended it (timer kinds; bounded). On
// return Done() is closed, whatever the kind. Idempotent.
func (v *lcVictim) fire() {
	v.once.Do(func() {
		if v.end != nil {
			v.end()
		}
	})
	select {
	case <-v.ctx.Done():
	case <-time.After(lcWaitEvent):
	}
}

// ended: Done() is closed.
func (v *lcVictim) ended() bool {
	select {
	case <-v.ctx.Done():
		return true
	default:
		return false
	}
}

// stop releases the timers and goroutines behind the context (after the call has returned).
func (v *lcVictim) stop() {
	for _, s := range v.stops {
		s()
	}
}

// newLcVictim makes a caller context of the given kind. kind "": the historical choice (lcCallerCtx, ending like a
// cancellation, or like a deadline if `deadline`). expired: a timer kind is made with a deadline that has passed.
func newLcVictim(kind string, deadline, expired bool) *lcVictim {
	v := &lcVictim{kind: kind}
	bg := context.Background()
	d := lcVictimTimeout()
	if expired {
		d = -time.Second
	}
	switch kind {
	case "wc":
		c, cancel := context.WithCancel(bg)
		v.ctx, v.end = c, cancel
	case "wt":
		c, cancel := context.WithTimeout(bg, d)
		v.ctx, v.stops = c, append(v.stops, cancel)
	case "wd":
		c, cancel := context.WithDeadline(bg, time.Now().Add(d))
		v.ctx, v.stops = c, append(v.stops, cancel)
	case "wtc":
		c, cancel := context.WithTimeout(bg, time.Hour)
		v.ctx, v.end = c, cancel
	case "cc", "ccn", "cce":
		c, cancel := context.WithCancelCause(bg)
		cause := errLcCause
		switch kind {
		case "ccn":
			cause = nil
		case "cce":
			cause = errLcCauseIO
		}
		v.ctx, v.end = c, func() { cancel(cause) }
	case "tc":
		c, cancel := context.WithTimeoutCause(bg, d, errLcCause)
		v.ctx, v.stops = c, append(v.stops, cancel)
	case "dc":
		c, cancel := context.WithDeadlineCause(bg, time.Now().Add(d), errLcCause)
		v.ctx, v.stops = c, append(v.stops, cancel)
	case "pc":
		p, cancelP := context.WithCancelCause(bg)
		m, cancelM := context.WithCancel(context.WithValue(p, lcCtxKey{"a"}, 1))
		v.ctx, v.end = context.WithValue(m, lcCtxKey{"b"}, 2), func() { cancelP(errLcCause) }
		v.stops = append(v.stops, cancelM)
	case "woc":
		q, cancelQ := context.WithCancelCause(bg)
		cancelQ(errors.New("lts.cli: an ancestor behind WithoutCancel has ended"))
		c, cancel := context.WithCancelCause(context.WithValue(context.WithoutCancel(q), lcCtxKey{"a"}, 1))
		v.ctx, v.end = c, func() { cancel(errLcCause) }
	case "emb":
		c, cancel := context.WithCancelCause(bg)
		v.ctx, v.end = &lcEmbCtx{Context: c, tag: "emb"}, func() { cancel(errLcCause) }
	case "chc":
		p := newLcCallerCtx(false)
		c, cancel := context.WithCancel(p)
		v.ctx, v.end = c, p.fire
		v.stops = append(v.stops, cancel)
	case "custd":
		p := newLcCallerCtx(true)
		v.ctx, v.end = p, p.fire
	default: // "", "cust"
		p := newLcCallerCtx(deadline && kind == "")
		v.ctx, v.end = p, p.fire
	}
	return v
}
