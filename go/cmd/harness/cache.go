package main

// Engine `cache` — property C20: codec results do not depend on concurrency or call history.
//
//  (a) history independence on the real code. Reference results are computed in FRESH CHILD PROCESSES
//      (this binary re-executed with VERIF_CACHE_CHILD set): a child regenerates its messages from the seed,
//      performs exactly one encode or decode with cold plan caches and prints the result. The same calls are
//      then repeated in other children after other calls (every order of first use for small sets of types,
//      random orders for larger ones), on reused encoders with Clear() between messages of different protocol
//      versions, after an aborted (panicking) encode, and concurrently: K goroutines released by a barrier
//      that all perform their FIRST call at once (cold caches under contention). Oracle: identical results.
//  (b) data races: a second copy of the harness is built with -race (cached under /verif/.work/bin, keyed by a
//      hash of the sources) and the concurrent scenarios are run in it; any report is a violation.
//  (c) correspondence with the Lean model: `enc.reuse` (histories on a reused binary encoder, with and
//      without Clear) and `cache.run` (concurrent cold first use; the line carries a random schedule for the
//      model, the real code runs real goroutines: only timing-independent results are compared).
//  plus a structural scan of the library sources (supporting evidence for the data-race part of C20).

import (
	"bytes"
	"crypto/sha256"
	"encoding/hex"
	"encoding/json"
	"fmt"
	"go/ast"
	"go/parser"
	"go/token"
	"io/fs"
	"math/big"
	"os"
	"os/exec"
	"path/filepath"
	"reflect"
	"regexp"
	"runtime"
	"sort"
	"strconv"
	"strings"
	"sync"
	"time"

	kmip "github.com/ovh/kmip-go"
	"github.com/ovh/kmip-go/ttlv"

	"verifharness/internal/report"
	"verifharness/internal/rng"
	"verifharness/internal/schema"
	"verifharness/internal/tree"
)

const cacheChildEnv = "VERIF_CACHE_CHILD"

func init() {
	if os.Getenv(cacheChildEnv) != "" {
		// hidden child mode: nothing of the harness proper runs, the plan caches are cold
		cacheChildMain()
		os.Exit(0)
	}
	register(&Engine{
		Name: "cache",
		Rule: "messages from the schema-directed populator (Request/ResponseMessages at versions 1.0-1.4 with and without out-of-version fields populated, header-less payloads that have version-gated fields, other payloads/objects/attribute values) x {encode, decode} x {TTLV, XML, JSON, text}; reference = one call in a fresh child process; compared with: every order of first use of 3-4 types and random orders of the whole set in one process, reused encoders with Clear between messages of different versions, reuse after an aborted encode, K goroutines doing their first calls simultaneously from a cold process (also under the race detector); enc.reuse / cache.run lines for the model; distinct = distinct line; nontrivial = all",
		Run:  runCache,
	})
}

// ---- the child protocol ---------------------------------------------------------------------------

type cacheMsgSpec struct {
	Kind   string `json:"kind"` // req | resp | dyn | negdur
	Dyn    int    `json:"dyn"`
	Tag    int    `json:"tag"`
	Major  int    `json:"major"` // -1: version chosen by the populator
	Minor  int    `json:"minor"`
	Fill   int    `json:"fill"`
	Gating bool   `json:"gating"`
	Seed   uint64 `json:"seed"`
}

type cacheStep struct {
	Op      string `json:"op"`  // enc | dec | abort | clear
	Fmt     string `json:"fmt"` // ttlv | xml | json | text
	Msg     int    `json:"msg"`
	Slot    int    `json:"slot"`    // <0: Marshal*/Unmarshal* (new encoder); >=0: reused encoder (per goroutine and format)
	NoClear bool   `json:"noclear"` // reused encoder: do not Clear before this encode
	Data    string `json:"data"`    // dec: input (hex)
	Var     int    `json:"var"`     // dec: 0 = the library's own encoding, k>0 = the k-th structural mutation of it
}

type cacheSpec struct {
	Msgs    []cacheMsgSpec    `json:"msgs"`
	Steps   []cacheStep       `json:"steps"`
	Threads [][]int           `json:"threads"`           // empty: sequential; else goroutine t runs these steps, all released together
	Fresh   *cacheFreshSpec   `json:"fresh,omitempty"`   // instead of steps: rounds of cold first use of fresh types (cache_conc.go)
	Literal *cacheLiteralSpec `json:"literal,omitempty"` // instead of steps: literal messages, nothing touched before the goroutines start
}

type cacheOut struct {
	Results []string `json:"results"`
}

type cacheBad struct {
	A int32         `ttlv:"0x540001"`
	D time.Duration `ttlv:"0x540002"`
}

// cacheUserGated: a type of a USER of the codec with a default tag and a REQUIRED version-gated field. For the
// library's own types the version cell of a decoder is unobservable (every gated field is optional), and their
// header-less values travel under an explicit tag (new encoder / decoder in this engine): state carried from one
// Marshal* / Unmarshal* call to the next (pooled encoders or decoders that keep their version cell) shows on a
// type like this one. Registered under a tag of the extension range IN THE CHILD PROCESSES ONLY (init-time act).
type cacheUserGated struct {
	A int32 `ttlv:"0x540101"`
	B int32 `ttlv:"0x540102,version=v1.4.."`
}

const cacheUserTag = 0x54F0F0

var cacheFormats = []string{"ttlv", "xml", "json", "text"}

func newCacheEncoder(f string) ttlv.Encoder {
	switch f {
	case "xml":
		return ttlv.NewXMLEncoder()
	case "json":
		return ttlv.NewJSONEncoder()
	case "text":
		return ttlv.NewTextEncoder()
	}
	return ttlv.NewTTLVEncoder()
}

type cacheMsg struct {
	tg planTarget
	x  reflect.Value
}

var tAttrDuration = reflect.TypeFor[time.Duration]()

// cacheBuildMsg regenerates a message from its spec (deterministic: every choice comes from spec.Seed).
func cacheBuildMsg(s *schema.Schema, ms cacheMsgSpec) cacheMsg {
	p := &popCfg{r: rng.New(ms.Seed), s: s, fill: ms.Fill, respectGating: ms.Gating, textMode: 2}
	if ms.Major >= 0 {
		p.ver = &kmip.ProtocolVersion{ProtocolVersionMajor: int32(ms.Major), ProtocolVersionMinor: int32(ms.Minor)}
	}
	switch ms.Kind {
	case "req":
		x := reflect.New(reflect.TypeFor[kmip.RequestMessage]())
		p.populate(x.Elem())
		if ms.Major >= 0 {
			x.Interface().(*kmip.RequestMessage).Header.ProtocolVersion = *p.ver
		}
		return cacheMsg{planTarget{s.Roots["RequestMessage"], x.Type(), 0}, x}
	case "resp":
		x := reflect.New(reflect.TypeFor[kmip.ResponseMessage]())
		p.populate(x.Elem())
		if ms.Major >= 0 {
			x.Interface().(*kmip.ResponseMessage).Header.ProtocolVersion = *p.ver
		}
		return cacheMsg{planTarget{s.Roots["ResponseMessage"], x.Type(), 0}, x}
	case "negdur":
		return cacheMsg{planTarget{ms.Dyn, tAttrDuration, ms.Tag}, reflect.ValueOf(-time.Second)}
	}
	ty := dynTypes[ms.Dyn]
	tg := planTarget{ms.Dyn, ty, ms.Tag}
	if ty.Kind() == reflect.Pointer {
		x := reflect.New(ty.Elem())
		p.populate(x.Elem())
		return cacheMsg{tg, x}
	}
	px := reflect.New(ty)
	p.populate(px.Elem())
	return cacheMsg{tg, px.Elem()}
}

// cacheEncode: one encode call on the real code.
func cacheEncode(f string, m cacheMsg, enc *ttlv.Encoder) string {
	b, p := guard("encode", func() []byte {
		x := m.x.Interface()
		if enc == nil {
			if m.tg.tag == 0 {
				switch f {
				case "xml":
					return ttlv.MarshalXML(x)
				case "json":
					return ttlv.MarshalJSON(x)
				case "text":
					return ttlv.MarshalText(x)
				}
				return ttlv.MarshalTTLV(x)
			}
			e := newCacheEncoder(f)
			e.TagAny(m.tg.tag, x)
			return e.Bytes()
		}
		if m.tg.tag == 0 {
			enc.Any(x)
		} else {
			enc.TagAny(m.tg.tag, x)
		}
		return append([]byte{}, enc.Bytes()...)
	})
	if p != "" {
		return "panic"
	}
	return "ok " + hexUp(b)
}

// cacheDecode: one decode call on the real code, rendered canonically.
func cacheDecode(s *schema.Schema, f string, tg planTarget, b []byte) string {
	type out struct {
		s   string
		err error
	}
	r, p := guard("decode", func() out {
		var ptr reflect.Value
		if tg.ty.Kind() == reflect.Pointer {
			ptr = reflect.New(tg.ty.Elem())
		} else {
			ptr = reflect.New(tg.ty)
		}
		var err error
		if tg.tag == 0 {
			switch f {
			case "xml":
				err = ttlv.UnmarshalXML(b, ptr.Interface())
			case "json":
				err = ttlv.UnmarshalJSON(b, ptr.Interface())
			default:
				err = ttlv.UnmarshalTTLV(b, ptr.Interface())
			}
		} else {
			var dec ttlv.Decoder
			switch f {
			case "xml":
				dec, err = ttlv.NewXMLDecoder(b)
			case "json":
				dec, err = ttlv.NewJSONDecoder(b)
			default:
				dec, err = ttlv.NewTTLVDecoder(b)
			}
			if err == nil {
				err = dec.TagAny(tg.tag, ptr.Interface())
			}
		}
		if err != nil {
			return out{err: err}
		}
		val := ptr
		if tg.ty.Kind() != reflect.Pointer {
			val = ptr.Elem()
		}
		str, err := s.Render(val, s.Dyns[tg.dyn].Kind)
		if err != nil {
			return out{s: "unrenderable " + err.Error()}
		}
		return out{s: str}
	})
	if p != "" {
		return "panic"
	}
	if r.err != nil {
		return "err"
	}
	return "ok " + r.s
}

// cacheRunner executes steps; reused encoders are private to a runner (one per goroutine).
type cacheRunner struct {
	s    *schema.Schema
	msgs []cacheMsg
	encs map[string]*ttlv.Encoder
}

func (c *cacheRunner) encoder(f string, slot int) *ttlv.Encoder {
	k := f + "#" + strconv.Itoa(slot)
	if e, ok := c.encs[k]; ok {
		return e
	}
	e := newCacheEncoder(f)
	c.encs[k] = &e
	return &e
}

func (c *cacheRunner) exec(st cacheStep) string {
	switch st.Op {
	case "enc":
		if st.Slot < 0 {
			return cacheEncode(st.Fmt, c.msgs[st.Msg], nil)
		}
		e := c.encoder(st.Fmt, st.Slot)
		if !st.NoClear {
			if _, p := guard("clear", func() int { e.Clear(); return 0 }); p != "" {
				return "panic-clear"
			}
		}
		return cacheEncode(st.Fmt, c.msgs[st.Msg], e)
	case "abort":
		if st.Slot < 0 {
			// the package-level Marshal* function of the format on a value that cannot be encoded (the panic
			// is raised two structures deep, after output has been produced)
			bad := ttlv.Value{Tag: 0x540000, Value: ttlv.Struct{{Tag: 0x540003, Value: ttlv.Struct{{Tag: 0x540001, Value: int32(1)}, {Tag: 0x540002, Value: -time.Second}}}}}
			if _, p := guard("abort", func() int {
				switch st.Fmt {
				case "xml":
					ttlv.MarshalXML(bad)
				case "json":
					ttlv.MarshalJSON(bad)
				case "text":
					ttlv.MarshalText(bad)
				default:
					ttlv.MarshalTTLV(bad)
				}
				return 0
			}); p != "" {
				return "panic"
			}
			return "ok"
		}
		e := c.encoder(st.Fmt, st.Slot)
		if _, p := guard("abort", func() int { e.TagAny(0x540000, cacheBad{1, -time.Second}); return 0 }); p != "" {
			return "panic"
		}
		return "ok"
	case "clear":
		e := c.encoder(st.Fmt, st.Slot)
		if _, p := guard("clear", func() int { e.Clear(); return 0 }); p != "" {
			return "panic"
		}
		return "ok"
	case "dec":
		b, err := hex.DecodeString(st.Data)
		if err != nil {
			return "bad-hex"
		}
		return cacheDecode(c.s, st.Fmt, c.msgs[st.Msg].tg, b)
	case "uenc":
		b, p := guard("user-encode", func() []byte {
			v := &cacheUserGated{A: 7, B: 9}
			switch st.Fmt {
			case "xml":
				return ttlv.MarshalXML(v)
			case "json":
				return ttlv.MarshalJSON(v)
			case "text":
				return ttlv.MarshalText(v)
			}
			return ttlv.MarshalTTLV(v)
		})
		if p != "" {
			return "panic"
		}
		return "ok " + hexUp(b)
	case "udec":
		b, err := hex.DecodeString(st.Data)
		if err != nil {
			return "bad-hex"
		}
		var v cacheUserGated
		err, p := guard("user-decode", func() error {
			switch st.Fmt {
			case "xml":
				return ttlv.UnmarshalXML(b, &v)
			case "json":
				return ttlv.UnmarshalJSON(b, &v)
			}
			return ttlv.UnmarshalTTLV(b, &v)
		})
		switch {
		case p != "":
			return "panic"
		case err != nil:
			return "err"
		}
		return fmt.Sprintf("ok A=%d B=%d", v.A, v.B)
	}
	return "bad-op"
}

func cacheChildMain() {
	var spec cacheSpec
	if err := json.NewDecoder(os.Stdin).Decode(&spec); err != nil {
		fmt.Fprintln(os.Stderr, "cache child: bad spec:", err)
		os.Exit(3)
	}
	ttlv.RegisterTag("VerifUserGated", cacheUserTag, reflect.TypeFor[cacheUserGated]())
	if spec.Fresh != nil {
		b, _ := json.Marshal(cacheOut{Results: cacheFreshChild(*spec.Fresh)})
		os.Stdout.Write(b)
		return
	}
	if spec.Literal != nil {
		b, _ := json.Marshal(cacheOut{Results: cacheLiteralChild(*spec.Literal)})
		os.Stdout.Write(b)
		return
	}
	s := getSchema()
	msgs := make([]cacheMsg, len(spec.Msgs))
	for i, ms := range spec.Msgs {
		msgs[i] = cacheBuildMsg(s, ms)
	}
	out := cacheOut{Results: make([]string, len(spec.Steps))}
	if len(spec.Threads) == 0 {
		c := &cacheRunner{s, msgs, map[string]*ttlv.Encoder{}}
		for i, st := range spec.Steps {
			out.Results[i] = c.exec(st)
		}
	} else {
		var ready, done sync.WaitGroup
		gate := make(chan struct{})
		for _, idxs := range spec.Threads {
			ready.Add(1)
			done.Add(1)
			go func(idxs []int) {
				defer done.Done()
				c := &cacheRunner{s, msgs, map[string]*ttlv.Encoder{}}
				ready.Done()
				<-gate
				for _, i := range idxs {
					out.Results[i] = c.exec(spec.Steps[i])
				}
			}(idxs)
		}
		ready.Wait()
		close(gate)
		done.Wait()
	}
	b, _ := json.Marshal(out)
	os.Stdout.Write(b)
}

// ---- running children -----------------------------------------------------------------------------

type cacheChildRes struct {
	out     []string
	stderr  string
	err     error
	retried bool // the first attempt ran into the time limit
}

// cacheRunChild: a child that does not finish in time is run once more with a longer limit before it is called a
// hang (a loaded machine and a deadlock look the same after 120 s; only the second is reproducible).
func cacheRunChild(bin string, spec cacheSpec) cacheChildRes {
	r := cacheRunChildOnce(bin, spec, 120*time.Second)
	if r.err != nil && r.err.Error() == "timeout" {
		r2 := cacheRunChildOnce(bin, spec, 360*time.Second)
		r2.retried = true
		return r2
	}
	return r
}

func cacheRunChildOnce(bin string, spec cacheSpec, limit time.Duration) cacheChildRes {
	in, _ := json.Marshal(spec)
	cmd := exec.Command(bin)
	cmd.Env = append(os.Environ(), cacheChildEnv+"=1")
	cmd.Stdin = bytes.NewReader(in)
	var so, se bytes.Buffer
	cmd.Stdout, cmd.Stderr = &so, &se
	if err := cmd.Start(); err != nil {
		return cacheChildRes{err: err}
	}
	done := make(chan error, 1)
	go func() { done <- cmd.Wait() }()
	var werr error
	select {
	case werr = <-done:
	case <-time.After(limit):
		_ = cmd.Process.Kill()
		<-done
		return cacheChildRes{stderr: se.String(), err: fmt.Errorf("timeout")}
	}
	var o cacheOut
	wantN := len(spec.Steps)
	if spec.Fresh != nil {
		wantN = spec.Fresh.Rounds
	}
	if spec.Literal != nil {
		wantN = spec.Literal.K * len(literalOps(len(literalMessages())))
	}
	if jerr := json.Unmarshal(so.Bytes(), &o); jerr != nil || len(o.Results) != wantN {
		if werr == nil {
			werr = fmt.Errorf("bad child output")
		}
		return cacheChildRes{stderr: se.String(), err: werr}
	}
	// a race-enabled child exits with 66 after reporting: its results are still complete
	return cacheChildRes{out: o.Results, stderr: se.String()}
}

// cacheParallel runs the specs in up to `par` children at a time.
func cacheParallel(bin string, specs []cacheSpec, par int) []cacheChildRes {
	res := make([]cacheChildRes, len(specs))
	sem := make(chan struct{}, par)
	var wg sync.WaitGroup
	for i := range specs {
		wg.Add(1)
		sem <- struct{}{}
		go func(i int) {
			defer wg.Done()
			defer func() { <-sem }()
			res[i] = cacheRunChild(bin, specs[i])
		}(i)
	}
	wg.Wait()
	return res
}

// ---- the engine ------------------------------------------------------------------------------------

type cacheRefKey struct {
	op, f string
	msg   int
	v     int
}

type cacheEngine struct {
	ctx   *Ctx
	s     *schema.Schema
	bin   string
	specs []cacheMsgSpec
	msgs  []cacheMsg
	vals  []string // rendered Val of each message
	ref   map[cacheRefKey]string
	muts  map[int][]string // message -> structurally mutated binary encodings (hex)
}

func (e *cacheEngine) violate(oracle, key, detail, line string) {
	e.ctx.Res.Violate(report.Violation{Property: "C20", Oracle: oracle, Key: key, Detail: detail, Line: line})
}

// childFailed reports a child that crashed / hung; returns true when the result cannot be used.
func (e *cacheEngine) childFailed(r cacheChildRes, what string) bool {
	if r.retried {
		e.ctx.Res.Count("cache.child.slow-first-attempt")
	}
	if r.err == nil {
		return false
	}
	switch {
	case strings.Contains(r.stderr, "concurrent map"):
		e.violate("no-crash", "cache:child-fatal:concurrent-map-access", "the Go runtime aborted the process: "+firstLineWith(r.stderr, "fatal error"), "# "+what)
	case strings.Contains(r.stderr, "all goroutines are asleep") || r.err.Error() == "timeout":
		e.violate("no-crash", "cache:child-hang", "the child process did not finish: "+r.err.Error(), "# "+what)
	case strings.Contains(r.stderr, "fatal error") || strings.Contains(r.stderr, "panic:"):
		e.violate("no-crash", "cache:child-crash", "the child process crashed: "+firstLineWith(r.stderr, "fatal error", "panic:"), "# "+what)
	default:
		e.ctx.Res.Fail("cache child failed (" + what + "): " + r.err.Error() + " " + truncate(r.stderr, 300))
	}
	return true
}

func firstLineWith(s string, subs ...string) string {
	for _, l := range strings.Split(s, "\n") {
		for _, sub := range subs {
			if strings.Contains(l, sub) {
				return strings.TrimSpace(l)
			}
		}
	}
	return ""
}

func truncate(s string, n int) string {
	if len(s) > n {
		return s[:n] + "…"
	}
	return s
}

// hasGated: the struct behind kind k has a version-gated field (not looking through interfaces).
func cacheHasGated(s *schema.Schema, k schema.Kind, depth int) bool {
	if depth > 6 {
		return false
	}
	switch k.K {
	case "ptr", "slice":
		return cacheHasGated(s, *k.Elem, depth+1)
	case "struct":
		for _, f := range s.Structs[k.Ref].Fields {
			if f.HasRange || cacheHasGated(s, f.Kind, depth+1) {
				return true
			}
		}
	}
	return false
}

// cacheDynTag: the tag a standalone value of dyn type id travels under (as in the plan engine).
func cacheDynTag(s *schema.Schema, id int) (int, bool) {
	ty := dynTypes[id]
	if ty == nil || ty == reflect.TypeFor[ttlv.Value]() {
		return 0, false
	}
	if ty.Kind() != reflect.Pointer && ty.Kind() != reflect.Struct {
		return 0, false
	}
	if s.Dyns[id].DefTag != 0 {
		return 0, true
	}
	tag := kmip.TagRequestPayload
	for _, op := range s.Ops {
		if op.RespDyn == id {
			tag = kmip.TagResponsePayload
		}
	}
	if ty.Kind() != reflect.Pointer {
		tag = kmip.TagAttributeValue
	}
	return tag, true
}

func (e *cacheEngine) buildMessages() {
	ctx, s := e.ctx, e.s
	r := ctx.R
	seed := func() uint64 { return r.U64() }
	add := func(ms cacheMsgSpec) {
		ms.Seed = seed()
		e.specs = append(e.specs, ms)
	}
	// whole messages: a 1.4 message with every 1.4 field, a 1.0 message whose 1.4-only fields are populated
	// (a leaked 1.4 cell would write them), and the same for responses; other versions
	add(cacheMsgSpec{Kind: "req", Major: 1, Minor: 4, Fill: 2, Gating: true})
	add(cacheMsgSpec{Kind: "req", Major: 1, Minor: 0, Fill: 2, Gating: false})
	add(cacheMsgSpec{Kind: "resp", Major: 1, Minor: 4, Fill: 2, Gating: true})
	add(cacheMsgSpec{Kind: "resp", Major: 1, Minor: 0, Fill: 2, Gating: false})
	add(cacheMsgSpec{Kind: "req", Major: 1, Minor: 2, Fill: 1, Gating: true})
	add(cacheMsgSpec{Kind: "resp", Major: -1, Fill: 1, Gating: true})
	// header-less values with version-gated fields, everything populated: the leak detectors
	ids := make([]int, 0, len(dynTypes))
	for id := range dynTypes {
		ids = append(ids, id)
	}
	sortInts(ids)
	var gated, plain []int
	for _, id := range ids {
		if id == s.Roots["RequestMessage"] || id == s.Roots["ResponseMessage"] {
			continue
		}
		if _, ok := cacheDynTag(s, id); !ok {
			continue
		}
		if cacheHasGated(s, s.Dyns[id].Kind, 0) {
			gated = append(gated, id)
		} else {
			plain = append(plain, id)
		}
	}
	ctx.Res.Count(fmt.Sprintf("cache.types.gated=%d.plain=%d", len(gated), len(plain)))
	pick := func(from []int, n int) []int {
		cp := append([]int{}, from...)
		for i := len(cp) - 1; i > 0; i-- {
			j := r.Intn(i + 1)
			cp[i], cp[j] = cp[j], cp[i]
		}
		if n > len(cp) {
			n = len(cp)
		}
		return cp[:n]
	}
	for _, id := range pick(gated, ctx.N(6, len(gated))) {
		tag, _ := cacheDynTag(s, id)
		add(cacheMsgSpec{Kind: "dyn", Dyn: id, Tag: tag, Major: -1, Fill: 2, Gating: false})
	}
	for _, id := range pick(plain, ctx.N(4, 40)) {
		tag, _ := cacheDynTag(s, id)
		add(cacheMsgSpec{Kind: "dyn", Dyn: id, Tag: tag, Major: -1, Fill: 1 + r.Intn(2), Gating: true})
	}
	for _, ms := range e.specs {
		m := cacheBuildMsg(s, ms)
		v, err := s.Render(m.x, s.Dyns[m.tg.dyn].Kind)
		if err != nil {
			ctx.Res.Fail("cache: render: " + err.Error())
			v = "?"
		}
		// the children rebuild the message from the spec: the populator must be a function of the seed, or its
		// own nondeterminism would be reported as order dependence of the library
		if v2, _ := s.Render(cacheBuildMsg(s, ms).x, s.Dyns[m.tg.dyn].Kind); v2 != v {
			ctx.Res.Fail("cache: the message populator is not deterministic (harness defect, not a library finding): " + firstDiff(v, v2))
		}
		// the replay path parses values back from their line syntax: check it on every generated value
		if back, perr := parseVal(s, v, m.tg.ty, s.Dyns[m.tg.dyn].Kind); perr != nil {
			ctx.Res.Fail("cache: value parser: " + perr.Error())
		} else if v2, _ := s.Render(back, s.Dyns[m.tg.dyn].Kind); v2 != v {
			ctx.Res.Fail("cache: value parser and renderer disagree: " + firstDiff(v, v2))
		}
		e.msgs = append(e.msgs, m)
		e.vals = append(e.vals, v)
		ctx.Res.Count("cache.msg." + ms.Kind)
	}
}

var cacheDecFormats = []string{"ttlv", "xml", "json"}

// references: one call per fresh process.
func (e *cacheEngine) computeReferences() bool {
	e.ref = map[cacheRefKey]string{}
	var specs []cacheSpec
	var keys []cacheRefKey
	for i := range e.specs {
		for _, f := range cacheFormats {
			specs = append(specs, cacheSpec{Msgs: []cacheMsgSpec{e.specs[i]}, Steps: []cacheStep{{Op: "enc", Fmt: f, Msg: 0, Slot: -1}}})
			keys = append(keys, cacheRefKey{"enc", f, i, 0})
		}
	}
	res := cacheParallel(e.bin, specs, 8)
	for i, r := range res {
		if e.childFailed(r, "reference "+keys[i].op+"."+keys[i].f) {
			return false
		}
		e.ref[keys[i]] = r.out[0]
		e.ctx.Add(fmt.Sprintf("# cache.ref enc %s msg=%d", keys[i].f, keys[i].msg), r.out[0], true, "C20")
		e.ctx.Res.Count("cache.ref.enc." + strings.SplitN(r.out[0], " ", 2)[0])
	}
	specs, keys = nil, nil
	for i := range e.specs {
		for _, f := range cacheDecFormats {
			data := e.decInput(i, f)
			if data == "" {
				continue
			}
			specs = append(specs, cacheSpec{Msgs: []cacheMsgSpec{e.specs[i]}, Steps: []cacheStep{{Op: "dec", Fmt: f, Msg: 0, Slot: -1, Data: data}}})
			keys = append(keys, cacheRefKey{"dec", f, i, 0})
		}
	}
	// structurally mutated binary inputs (an element dropped, duplicated or re-tagged): a decode plan applied
	// to the wrong type shows on these rather than on well-formed input
	e.muts = map[int][]string{}
	for i := range e.specs {
		if d := e.decInput(i, "ttlv"); d != "" {
			b, _ := hex.DecodeString(d)
			ms := cacheStructMutations(e.ctx.R, b, e.ctx.N(2, 4))
			if g := cacheDropGated(e.s, e.s.Dyns[e.msgs[i].tg.dyn].Kind, b); g != nil {
				// the version-gated elements removed: a decoder that has inherited an old version from another
				// message treats them as optional, a new decoder does not
				ms = append(ms, g)
				e.ctx.Res.Count("cache.input.gated-elements-dropped")
			}
			for k, m := range ms {
				h := hex.EncodeToString(m)
				e.muts[i] = append(e.muts[i], h)
				specs = append(specs, cacheSpec{Msgs: []cacheMsgSpec{e.specs[i]}, Steps: []cacheStep{{Op: "dec", Fmt: "ttlv", Msg: 0, Slot: -1, Data: h, Var: k + 1}}})
				keys = append(keys, cacheRefKey{"dec", "ttlv", i, k + 1})
			}
		}
	}
	res = cacheParallel(e.bin, specs, 8)
	for i, r := range res {
		if e.childFailed(r, "reference "+keys[i].op+"."+keys[i].f) {
			return false
		}
		e.ref[keys[i]] = r.out[0]
		e.ctx.Add(fmt.Sprintf("# cache.ref dec %s msg=%d var=%d", keys[i].f, keys[i].msg, keys[i].v), r.out[0], true, "C20")
		e.ctx.Res.Count(fmt.Sprintf("cache.ref.dec.%s.mutated=%v", strings.SplitN(r.out[0], " ", 2)[0], keys[i].v > 0))
	}
	return true
}

// cacheDropGated removes the top-level elements that belong to version-gated fields of the value's struct.
func cacheDropGated(s *schema.Schema, k schema.Kind, b []byte) []byte {
	for k.K == "ptr" {
		k = *k.Elem
	}
	if k.K != "struct" {
		return nil
	}
	gated := map[int]bool{}
	for _, f := range s.Structs[k.Ref].Fields {
		if f.HasRange {
			gated[f.Tag] = true
		}
	}
	it, err := tree.Decode(b)
	if err != nil || it.Kind != tree.KStruct || len(gated) == 0 {
		return nil
	}
	var keep []*tree.Item
	for _, c := range it.Children {
		if !gated[c.Tag] {
			keep = append(keep, c)
		}
	}
	if len(keep) == len(it.Children) {
		return nil
	}
	it.Children = keep
	return it.Encode()
}

// cacheStructMutations: well-framed variants of a binary message: one element dropped / duplicated / re-tagged.
func cacheStructMutations(r *rng.R, b []byte, n int) [][]byte {
	var out [][]byte
	for k := 0; k < n; k++ {
		it, err := tree.Decode(b)
		if err != nil {
			return out
		}
		var parents []*tree.Item
		var walk func(x *tree.Item)
		walk = func(x *tree.Item) {
			if x.Kind == tree.KStruct && len(x.Children) > 0 {
				parents = append(parents, x)
				for _, c := range x.Children {
					walk(c)
				}
			}
		}
		walk(it)
		if len(parents) == 0 {
			return out
		}
		p := parents[r.Intn(len(parents))]
		j := r.Intn(len(p.Children))
		switch k % 3 {
		case 0: // drop
			p.Children = append(append([]*tree.Item{}, p.Children[:j]...), p.Children[j+1:]...)
		case 1: // duplicate
			p.Children = append(append(append([]*tree.Item{}, p.Children[:j+1]...), p.Children[j]), p.Children[j+1:]...)
		default: // swap with the next one
			if j+1 < len(p.Children) {
				p.Children[j], p.Children[j+1] = p.Children[j+1], p.Children[j]
			} else {
				p.Children = p.Children[:j]
			}
		}
		out = append(out, it.Encode())
	}
	return out
}

// decInput: the reference encoding of message i in format f (lower-case hex), "" if it did not encode.
func (e *cacheEngine) decInput(i int, f string) string {
	r := e.ref[cacheRefKey{"enc", f, i, 0}]
	if !strings.HasPrefix(r, "ok ") {
		return ""
	}
	h := strings.TrimPrefix(r, "ok ")
	if h == "-" {
		return ""
	}
	return strings.ToLower(h)
}

// allCalls: every call the engine knows a reference for, for message i.
func (e *cacheEngine) allCalls(i int) []cacheStep {
	var st []cacheStep
	for _, f := range cacheFormats {
		st = append(st, cacheStep{Op: "enc", Fmt: f, Msg: i, Slot: -1})
	}
	for _, f := range cacheDecFormats {
		if d := e.decInput(i, f); d != "" {
			st = append(st, cacheStep{Op: "dec", Fmt: f, Msg: i, Slot: -1, Data: d})
		}
	}
	for k, h := range e.muts[i] {
		st = append(st, cacheStep{Op: "dec", Fmt: "ttlv", Msg: i, Slot: -1, Data: h, Var: k + 1})
	}
	return st
}

// compare the results of a scenario child with the references.
func (e *cacheEngine) compare(spec cacheSpec, r cacheChildRes, oracle, keyPrefix, what string) {
	for i, st := range spec.Steps {
		if st.Op != "enc" && st.Op != "dec" {
			continue
		}
		want, ok := e.ref[cacheRefKey{st.Op, st.Fmt, st.Msg, st.Var}]
		if !ok {
			continue
		}
		line := fmt.Sprintf("# cache.%s %s step=%d %s.%s msg=%d(%s dyn=%d)", oracle, what, i, st.Op, st.Fmt, st.Msg, e.specs[st.Msg].Kind, e.msgs[st.Msg].tg.dyn)
		e.ctx.Add(line, r.out[i], true, "C20")
		e.ctx.Res.Count("cache." + oracle + "." + st.Op + "." + st.Fmt)
		if r.out[i] != want {
			e.violate(oracle, keyPrefix+":"+st.Op+"."+st.Fmt, fmt.Sprintf("%s: result differs from the fresh-process reference (%s)", what, firstDiff(want, r.out[i])), line)
		}
	}
}

func permutations(n int) [][]int {
	if n == 0 {
		return [][]int{{}}
	}
	var out [][]int
	for _, p := range permutations(n - 1) {
		for i := 0; i <= len(p); i++ {
			q := append(append(append([]int{}, p[:i]...), n-1), p[i:]...)
			out = append(out, q)
		}
	}
	return out
}

func (e *cacheEngine) orderScenarios() {
	ctx := e.ctx
	r := ctx.R
	n := len(e.specs)
	var specs []cacheSpec
	var whats []string
	mk := func(order []int, what string) {
		var steps []cacheStep
		for _, i := range order {
			steps = append(steps, e.allCalls(i)...)
		}
		specs = append(specs, cacheSpec{Msgs: e.specs, Steps: steps})
		whats = append(whats, what)
	}
	// every order of first use for small sets of types
	sets := [][]int{{0, 2, 6 % n}, {1, 3, 7 % n}}
	if ctx.Thor {
		sets = append(sets, []int{0, 3, 6 % n, 8 % n}, []int{1, 2, 9 % n, 10 % n})
	}
	for si, set := range sets {
		for _, p := range permutations(len(set)) {
			order := make([]int, len(p))
			for k, j := range p {
				order[k] = set[j]
			}
			mk(order, fmt.Sprintf("set%d order=%v", si, order))
		}
	}
	// random orders of the whole set, each call kind visited separately (decode before encode and vice versa)
	for k := 0; k < ctx.N(4, 120); k++ {
		order := make([]int, n)
		for i := range order {
			order[i] = i
		}
		for i := n - 1; i > 0; i-- {
			j := r.Intn(i + 1)
			order[i], order[j] = order[j], order[i]
		}
		var steps []cacheStep
		for _, i := range order {
			steps = append(steps, e.allCalls(i)...)
		}
		// shuffle the individual calls too for half of them
		if k%2 == 1 {
			for i := len(steps) - 1; i > 0; i-- {
				j := r.Intn(i + 1)
				steps[i], steps[j] = steps[j], steps[i]
			}
		}
		specs = append(specs, cacheSpec{Msgs: e.specs, Steps: steps})
		whats = append(whats, fmt.Sprintf("random-order#%d", k))
	}
	for i, res := range cacheParallel(e.bin, specs, 8) {
		if e.childFailed(res, "order "+whats[i]) {
			continue
		}
		e.compare(specs[i], res, "order", "cache:order-dependent", whats[i])
	}
}

func (e *cacheEngine) reuseScenarios() {
	ctx := e.ctx
	r := ctx.R
	n := len(e.specs)
	var specs []cacheSpec
	var whats []string
	seqs := [][]int{}
	// 1.4 then 1.0 and vice versa, header-less detectors after each
	base := []int{0, 1, 0}
	for i := 6; i < n; i++ {
		base = append(base, 1, i, 0, i, 3, i, 2)
	}
	seqs = append(seqs, base)
	rev := append([]int{}, base...)
	for i, j := 0, len(rev)-1; i < j; i, j = i+1, j-1 {
		rev[i], rev[j] = rev[j], rev[i]
	}
	seqs = append(seqs, rev)
	for k := 0; k < ctx.N(3, 80); k++ {
		l := 5 + r.Intn(20)
		var sq []int
		for i := 0; i < l; i++ {
			sq = append(sq, r.Intn(n))
		}
		seqs = append(seqs, sq)
	}
	for k, sq := range seqs {
		var steps []cacheStep
		for _, i := range sq {
			for fi, f := range cacheFormats {
				steps = append(steps, cacheStep{Op: "enc", Fmt: f, Msg: i, Slot: fi})
			}
			if k%2 == 1 {
				for _, f := range cacheDecFormats {
					if d := e.decInput(i, f); d != "" {
						steps = append(steps, cacheStep{Op: "dec", Fmt: f, Msg: i, Slot: -1, Data: d})
					}
				}
			}
		}
		specs = append(specs, cacheSpec{Msgs: e.specs, Steps: steps})
		whats = append(whats, fmt.Sprintf("reuse#%d seq=%v", k, sq))
	}
	for i, res := range cacheParallel(e.bin, specs, 8) {
		if e.childFailed(res, whats[i]) {
			continue
		}
		e.compare(specs[i], res, "reuse", "cache:reuse-differs", whats[i])
	}
	// reuse after an aborted (panicking, recovered) encode: abort; Clear; encode m
	specs, whats = nil, nil
	for fi, f := range cacheFormats {
		specs = append(specs, cacheSpec{Msgs: e.specs, Steps: []cacheStep{
			{Op: "enc", Fmt: f, Msg: 0, Slot: fi},
			{Op: "abort", Fmt: f, Slot: fi},
			{Op: "enc", Fmt: f, Msg: 1, Slot: fi}, // Clear, then encode
			{Op: "enc", Fmt: f, Msg: 0, Slot: fi},
		}})
		whats = append(whats, "reuse-after-panic "+f)
	}
	for i, res := range cacheParallel(e.bin, specs, 4) {
		if e.childFailed(res, whats[i]) {
			continue
		}
		f := cacheFormats[i]
		line := "# cache.reuse-after-panic " + f + " [enc m0; enc <negative interval> (panics, recovered); Clear; enc m1; Clear; enc m0]"
		ctx.Add(line, strings.Join([]string{res.out[1], truncate(res.out[2], 12), truncate(res.out[3], 12)}, " | "), true, "C20")
		ctx.Res.Count("cache.reuse-after-panic." + f)
		if res.out[1] != "panic" {
			ctx.Res.Fail("cache: the aborting value did not panic on " + f)
			continue
		}
		w1, w0 := e.ref[cacheRefKey{"enc", f, 1, 0}], e.ref[cacheRefKey{"enc", f, 0, 0}]
		if res.out[2] != w1 || res.out[3] != w0 {
			e.violate("reuse", "cache:reuse-after-panic:"+f, fmt.Sprintf("after a recovered panic inside a structure, Clear()+encode on the %s encoder gives %s / %s instead of the fresh results", f, truncate(res.out[2], 40), truncate(res.out[3], 40)), line)
		}
	}
	// the package-level Marshal* functions after calls of the same function that panicked (recovered): a pooled
	// or package-level encoder that an aborted call leaves dirty shows only in such a sequence
	specs, whats = nil, nil
	for _, f := range cacheFormats {
		specs = append(specs, cacheSpec{Msgs: e.specs, Steps: []cacheStep{
			{Op: "enc", Fmt: f, Msg: 0, Slot: -1},
			{Op: "abort", Fmt: f, Slot: -1}, {Op: "abort", Fmt: f, Slot: -1}, {Op: "abort", Fmt: f, Slot: -1},
			{Op: "enc", Fmt: f, Msg: 1, Slot: -1},
			{Op: "enc", Fmt: f, Msg: 0, Slot: -1},
		}})
		whats = append(whats, "marshal-after-panic "+f)
	}
	for i, res := range cacheParallel(e.bin, specs, 4) {
		if e.childFailed(res, whats[i]) {
			continue
		}
		f := cacheFormats[i]
		line := "# cache.marshal-after-panic " + f + " [Marshal m0; 3 x Marshal <negative interval two structures deep> (panics, recovered); Marshal m1; Marshal m0]"
		ctx.Add(line, strings.Join([]string{res.out[1], truncate(res.out[4], 12), truncate(res.out[5], 12)}, " | "), true, "C20")
		ctx.Res.Count("cache.marshal-after-panic." + f)
		if res.out[1] != "panic" {
			ctx.Res.Fail("cache: the aborting value did not panic in Marshal on " + f)
			continue
		}
		w1, w0 := e.ref[cacheRefKey{"enc", f, 1, 0}], e.ref[cacheRefKey{"enc", f, 0, 0}]
		if res.out[0] != w0 || res.out[4] != w1 || res.out[5] != w0 {
			e.violate("reuse", "cache:marshal-after-panic:"+f, fmt.Sprintf("after recovered panics of the package-level Marshal function of %s, the same function gives %s / %s instead of the fresh results", f, truncate(res.out[4], 40), truncate(res.out[5], 40)), line)
		}
	}
}

// userTypeScenarios: Marshal* / Unmarshal* of a user type with a required version-gated field, alone in a fresh
// process and after whole messages of version 1.0 and 1.4 went through Marshal* / Unmarshal* in the same process.
func (e *cacheEngine) userTypeScenarios() {
	onlyA := (&tree.Item{Kind: tree.KStruct, Tag: cacheUserTag, Children: []*tree.Item{{Kind: tree.KInt, Tag: 0x540101, Int: 7}}}).Encode()
	both := (&tree.Item{Kind: tree.KStruct, Tag: cacheUserTag, Children: []*tree.Item{{Kind: tree.KInt, Tag: 0x540101, Int: 7}, {Kind: tree.KInt, Tag: 0x540102, Int: 9}}}).Encode()
	var calls []cacheStep
	for _, f := range cacheFormats {
		calls = append(calls, cacheStep{Op: "uenc", Fmt: f, Slot: -1})
	}
	calls = append(calls, cacheStep{Op: "udec", Fmt: "ttlv", Slot: -1, Data: hex.EncodeToString(onlyA), Var: 1},
		cacheStep{Op: "udec", Fmt: "ttlv", Slot: -1, Data: hex.EncodeToString(both), Var: 2})
	var refSpecs []cacheSpec
	for _, c := range calls {
		refSpecs = append(refSpecs, cacheSpec{Steps: []cacheStep{c}})
	}
	want := make([]string, len(calls))
	for i, r := range cacheParallel(e.bin, refSpecs, 8) {
		if e.childFailed(r, "user-type reference") {
			return
		}
		want[i] = r.out[0]
		e.ctx.Res.Count("cache.user-type.ref." + strings.SplitN(r.out[0], " ", 2)[0])
	}
	// the fresh answers this scenario relies on: a missing required field is an error, both fields are encoded
	if want[len(cacheFormats)] != "err" || !strings.HasPrefix(want[0], "ok ") || want[len(cacheFormats)+1] != "ok A=7 B=9" {
		e.ctx.Res.Fail(fmt.Sprintf("cache: the user-type scenario no longer discriminates (fresh: decode without the gated field = %s, with it = %s)", want[len(cacheFormats)], want[len(cacheFormats)+1]))
	}
	var specs []cacheSpec
	var whats []string
	for _, first := range []int{1, 0, 3, 2} { // 1.0 request, 1.4 request, 1.0 response, 1.4 response
		if first >= len(e.specs) {
			continue
		}
		for variant := 0; variant < 2; variant++ {
			var steps []cacheStep
			pre := e.allCalls(first)
			if variant == 1 {
				// only the Marshal* / Unmarshal* calls of the message, each followed at once by the user-type calls
				for _, p := range pre {
					steps = append(steps, p)
					steps = append(steps, calls...)
				}
			} else {
				steps = append(append(steps, pre...), calls...)
			}
			specs = append(specs, cacheSpec{Msgs: e.specs, Steps: steps})
			whats = append(whats, fmt.Sprintf("user-type after msg=%d variant=%d", first, variant))
		}
	}
	for i, res := range cacheParallel(e.bin, specs, 8) {
		if e.childFailed(res, whats[i]) {
			continue
		}
		for k, st := range specs[i].Steps {
			if st.Op != "uenc" && st.Op != "udec" {
				continue
			}
			ci := -1
			for j, c := range calls {
				if c.Op == st.Op && c.Fmt == st.Fmt && c.Var == st.Var {
					ci = j
				}
			}
			line := fmt.Sprintf("# cache.user-type %s step=%d %s.%s var=%d", whats[i], k, st.Op, st.Fmt, st.Var)
			e.ctx.Add(line, res.out[k], true, "C20")
			e.ctx.Res.Count("cache.user-type." + st.Op + "." + st.Fmt)
			if ci >= 0 && res.out[k] != want[ci] {
				e.violate("order", "cache:user-type-depends-on-history:"+st.Op+"."+st.Fmt,
					fmt.Sprintf("%s: Marshal/Unmarshal of a user type with a required version-gated field differs from the fresh-process result (%s)", whats[i], firstDiff(want[ci], res.out[k])), line)
			}
		}
	}
}

// concurrent scenarios: goroutines released together, first calls under contention.
func (e *cacheEngine) concSpecs(count int) ([]cacheSpec, []string) {
	r := e.ctx.R
	n := len(e.specs)
	var specs []cacheSpec
	var whats []string
	for k := 0; k < count; k++ {
		K := []int{2, 4, 8, 16, 32}[r.Intn(5)]
		mode := k % 4
		var steps []cacheStep
		var threads [][]int
		shared := e.allCalls(r.Intn(n))
		for t := 0; t < K; t++ {
			var mine []cacheStep
			switch mode {
			case 0: // everybody: the same first call on the same type
				mine = append(mine, shared[k%len(shared)])
			case 1: // everybody a different type / format / direction
				c := e.allCalls((t + k) % n)
				mine = append(mine, c[(t/n+k)%len(c)])
			case 2: // encoders and decoders of the same message at once
				mine = append(mine, shared[t%len(shared)])
			default:
				c := e.allCalls(r.Intn(n))
				mine = append(mine, c[r.Intn(len(c))])
			}
			// then a few more calls, one of them on a reused encoder
			for x := 0; x < 2; x++ {
				c := e.allCalls(r.Intn(n))
				mine = append(mine, c[r.Intn(len(c))])
			}
			fi := r.Intn(len(cacheFormats))
			mine = append(mine, cacheStep{Op: "enc", Fmt: cacheFormats[fi], Msg: r.Intn(n), Slot: fi},
				cacheStep{Op: "enc", Fmt: cacheFormats[fi], Msg: 6 % n, Slot: fi})
			var idx []int
			for _, st := range mine {
				idx = append(idx, len(steps))
				steps = append(steps, st)
			}
			threads = append(threads, idx)
		}
		specs = append(specs, cacheSpec{Msgs: e.specs, Steps: steps, Threads: threads})
		whats = append(whats, fmt.Sprintf("conc#%d K=%d mode=%d", k, K, mode))
	}
	return specs, whats
}

var raceFrameRe = regexp.MustCompile(`(?m)^  (\S+)\(\)\s*$`)

// raceFirstFrame: the first frame of the first report that is not inside the runtime / standard library.
func raceFirstFrame(stderr string) string {
	i := strings.Index(stderr, "WARNING: DATA RACE")
	if i < 0 {
		return "unknown"
	}
	first := ""
	for _, m := range raceFrameRe.FindAllStringSubmatch(stderr[i:], -1) {
		fn := m[1]
		if first == "" {
			first = fn
		}
		if strings.Contains(fn, "kmip-go/") {
			return fn[strings.Index(fn, "kmip-go/")+len("kmip-go/"):]
		}
		if strings.HasPrefix(fn, "main.") {
			break
		}
	}
	if first == "" {
		return "unknown"
	}
	return first
}

func (e *cacheEngine) concurrentScenarios(raceBin string) {
	ctx := e.ctx
	specs, whats := e.concSpecs(ctx.N(12, 500))
	for i, res := range cacheParallel(e.bin, specs, 4) {
		if e.childFailed(res, whats[i]) {
			continue
		}
		e.compare(specs[i], res, "concurrent", "cache:concurrent-differs", whats[i])
	}
	if raceBin == "" {
		return
	}
	specs, whats = e.concSpecs(ctx.N(8, 300))
	for i, res := range cacheParallel(raceBin, specs, 4) {
		line := "# cache.race " + whats[i]
		if strings.Contains(res.stderr, "WARNING: DATA RACE") {
			frame := raceFirstFrame(res.stderr)
			ctx.Add(line, "race", true, "C20")
			e.violate("race-detector", "cache:data-race:"+frame, "the race detector reported: "+truncate(res.stderr, 1500), line)
			continue
		}
		if e.childFailed(res, "race "+whats[i]) {
			continue
		}
		ctx.Add(line, "clean", true, "C20")
		ctx.Res.Count("cache.race.clean")
		e.compare(specs[i], res, "concurrent", "cache:concurrent-differs", "race-build "+whats[i])
	}
}

// ---- correspondence lines ---------------------------------------------------------------------------

type cacheHistOp struct {
	kind string // E C B
	msg  int
}

func (e *cacheEngine) histLine(h []cacheHistOp) string {
	var parts []string
	for _, op := range h {
		switch op.kind {
		case "E":
			m := e.msgs[op.msg]
			parts = append(parts, fmt.Sprintf("E %d %d %s", m.tg.dyn, m.tg.tag, e.vals[op.msg]))
		default:
			parts = append(parts, op.kind)
		}
	}
	return "enc.reuse " + strings.Join(parts, " ; ")
}

// histImpl runs a history on ONE real binary encoder.
func (e *cacheEngine) histImpl(h []cacheHistOp) string {
	enc := ttlv.NewTTLVEncoder()
	dirty := false
	for _, op := range h {
		switch op.kind {
		case "C":
			enc.Clear()
			dirty = false
		case "B":
			_ = enc.Bytes()
		case "E":
			m := e.msgs[op.msg]
			_, p := guard("encode", func() int {
				if m.tg.tag == 0 {
					enc.Any(m.x.Interface())
				} else {
					enc.TagAny(m.tg.tag, m.x.Interface())
				}
				return 0
			})
			if p != "" {
				dirty = true
			}
		}
	}
	if dirty {
		return "panic"
	}
	return "ok " + hexUp(enc.Bytes())
}

func (e *cacheEngine) reuseLines() {
	ctx := e.ctx
	r := ctx.R
	n := len(e.specs)
	// a value whose encoding panics, known to the model too: a negative "Lease Time" attribute value
	neg := -1
	for id, ty := range dynTypes {
		if ty == tAttrDuration {
			neg = len(e.specs)
			ms := cacheMsgSpec{Kind: "negdur", Dyn: id, Tag: kmip.TagAttributeValue}
			e.specs = append(e.specs, ms)
			e.msgs = append(e.msgs, cacheBuildMsg(e.s, ms))
			e.vals = append(e.vals, "i-1")
		}
	}
	var hs [][]cacheHistOp
	E := func(i int) cacheHistOp { return cacheHistOp{"E", i} }
	C, B := cacheHistOp{"C", 0}, cacheHistOp{"B", 0}
	for i := 0; i < n; i++ {
		hs = append(hs, []cacheHistOp{E(i)})
	}
	for i := 6; i < n; i++ {
		hs = append(hs,
			[]cacheHistOp{E(1), C, E(i)},       // cleared: as fresh
			[]cacheHistOp{E(1), E(i)},          // NOT cleared: the 1.0 cell gates the payload's fields
			[]cacheHistOp{E(0), E(i)},          // a 1.4 cell
			[]cacheHistOp{E(i), E(1), B, E(i)}, // before and after
			[]cacheHistOp{E(0), C, E(1), C, B, E(i), C, E(i)})
	}
	hs = append(hs, []cacheHistOp{E(0), E(1)}, []cacheHistOp{E(1), E(0)}, []cacheHistOp{E(2), E(1), E(3)}, []cacheHistOp{C, C, B}, []cacheHistOp{})
	if neg >= 0 {
		hs = append(hs, []cacheHistOp{E(neg)}, []cacheHistOp{E(0), E(neg), C, E(1)}, []cacheHistOp{E(neg), C, E(6 % n)}, []cacheHistOp{E(neg), E(0)})
	}
	for k := 0; k < ctx.N(20, 1500); k++ {
		var h []cacheHistOp
		for l := 1 + r.Intn(6); l > 0; l-- {
			switch r.Intn(5) {
			case 0:
				h = append(h, C)
			case 1:
				h = append(h, B)
			default:
				h = append(h, E(r.Intn(n)))
			}
		}
		hs = append(hs, h)
	}
	for _, h := range hs {
		if len(h) == 0 {
			continue
		}
		line := e.histLine(h)
		ctx.current = line
		impl := e.histImpl(h)
		ctx.Add(line, impl, true, "C20,C05")
		ctx.Res.Count("cache.enc.reuse." + strings.SplitN(impl, " ", 2)[0])
		// impl-side oracle: a history that ends with `C ; E m` gives the reference bytes of m
		if l := len(h); l >= 2 && h[l-1].kind == "E" && h[l-2].kind == "C" && h[l-1].msg < n {
			if want := e.ref[cacheRefKey{"enc", "ttlv", h[l-1].msg, 0}]; want != "" && impl != want {
				e.violate("reuse", "cache:reuse-differs:enc.ttlv", "Bytes(h; Clear; encode m) differs from the fresh-process encoding of m: "+firstDiff(want, impl), line)
			}
		}
		// the documented contract of Clear, observed (not a violation): WITHOUT Clear a header-less value encoded
		// after a message is gated by that message's version
		if l := len(h); l >= 2 && h[l-1].kind == "E" && h[l-2].kind == "E" && h[l-1].msg >= 6 && h[l-1].msg < n && strings.HasPrefix(impl, "ok ") {
			if want := strings.TrimPrefix(e.ref[cacheRefKey{"enc", "ttlv", h[l-1].msg, 0}], "ok "); want != "" {
				if strings.HasSuffix(impl, want) {
					ctx.Res.Count("cache.enc.reuse.no-clear.same-as-fresh")
				} else {
					ctx.Res.Count("cache.enc.reuse.no-clear.version-leak-observed")
				}
			}
		}
		// …and a whole message is immune to the cell even without Clear (C20.full_message_ignores_cell):
		// its bytes are a suffix of the buffer
		if l := len(h); l >= 2 && h[l-1].kind == "E" && h[l-1].msg < 6 && h[l-1].msg < n && strings.HasPrefix(impl, "ok ") {
			if want := strings.TrimPrefix(e.ref[cacheRefKey{"enc", "ttlv", h[l-1].msg, 0}], "ok "); want != "" && !strings.HasSuffix(impl, want) {
				e.violate("reuse", "cache:message-depends-on-previous", "a whole message encoded after another one without Clear differs from its fresh encoding", line)
			}
		}
	}
}

func (e *cacheEngine) cacheRunLines() {
	ctx := e.ctx
	r := ctx.R
	n := 0
	for n < len(e.specs) && e.specs[n].Kind != "negdur" {
		n++
	}
	var specs []cacheSpec
	var lines []string
	for k := 0; k < ctx.N(6, 150); k++ {
		K := 2 + r.Intn(4)
		var steps []cacheStep
		var threads [][]int
		var reqs []string
		for t := 0; t < K; t++ {
			var idx []int
			for q := 1 + r.Intn(2); q > 0; q-- {
				i := r.Intn(n)
				if k%3 == 0 {
					i = k % n // everybody the same type
				}
				idx = append(idx, len(steps))
				steps = append(steps, cacheStep{Op: "enc", Fmt: "ttlv", Msg: i, Slot: -1})
				m := e.msgs[i]
				reqs = append(reqs, fmt.Sprintf("%d %d %d %s", t, m.tg.dyn, m.tg.tag, e.vals[i]))
			}
			threads = append(threads, idx)
		}
		var sched []string
		for l := r.Intn(400); l > 0; l-- {
			sched = append(sched, strconv.Itoa(r.Intn(K)))
		}
		sc := "-"
		if len(sched) > 0 {
			sc = strings.Join(sched, ",")
		}
		specs = append(specs, cacheSpec{Msgs: e.specs[:n], Steps: steps, Threads: threads})
		lines = append(lines, "cache.run "+sc+" ; "+strings.Join(reqs, " ; "))
	}
	for i, res := range cacheParallel(e.bin, specs, 4) {
		if e.childFailed(res, "cache.run") {
			continue
		}
		var parts []string
		for t, idx := range specs[i].Threads {
			var rs []string
			for _, j := range idx {
				rs = append(rs, strings.TrimPrefix(res.out[j], "ok "))
			}
			parts = append(parts, fmt.Sprintf("%d:%s", t, strings.Join(rs, ",")))
		}
		ctx.Add(lines[i], "ok "+strings.Join(parts, " "), true, "C20")
		ctx.Res.Count("cache.run")
	}
}

// ---- replay -------------------------------------------------------------------------------------------

// cacheReplay evaluates `enc.reuse` lines on the real code by parsing their values back into Go values.
func cacheReplay(ctx *Ctx, s *schema.Schema) {
	for _, l := range ctx.Replay {
		if strings.HasPrefix(l, "cache.run ") {
			cacheReplayRun(ctx, s, l)
			continue
		}
		if strings.HasPrefix(l, "enc.hist ") {
			histReplay(ctx, l)
			continue
		}
		if !strings.HasPrefix(l, "enc.reuse ") {
			continue
		}
		enc := ttlv.NewTTLVEncoder()
		dirty, bad := false, false
		for _, op := range strings.Split(strings.TrimPrefix(l, "enc.reuse "), " ; ") {
			op = strings.TrimSpace(op)
			switch {
			case op == "C":
				enc.Clear()
				dirty = false
			case op == "B":
				_ = enc.Bytes()
			case strings.HasPrefix(op, "E "):
				f := strings.SplitN(op, " ", 4)
				if len(f) != 4 {
					bad = true
					break
				}
				d, _ := strconv.Atoi(f[1])
				tag, _ := strconv.Atoi(f[2])
				ty := dynTypes[d]
				if ty == nil || d >= len(s.Dyns) {
					bad = true
					break
				}
				v, err := parseVal(s, f[3], ty, s.Dyns[d].Kind)
				if err != nil {
					ctx.Res.Fail("cache replay: " + err.Error())
					bad = true
					break
				}
				if _, p := guard("encode", func() int {
					if tag == 0 {
						enc.Any(v.Interface())
					} else {
						enc.TagAny(tag, v.Interface())
					}
					return 0
				}); p != "" {
					dirty = true
				}
			default:
				bad = true
			}
		}
		if bad {
			continue
		}
		impl := "ok " + hexUp(enc.Bytes())
		if dirty {
			impl = "panic"
		}
		ctx.Add(l, impl, true, "C20,C05")
	}
}

// cacheReplayRun evaluates a `cache.run` line in this process: the goroutines are real, the caches are
// whatever this process has built so far (a cold start needs a child; by C20 the answer is the same).
func cacheReplayRun(ctx *Ctx, s *schema.Schema, l string) {
	parts := strings.Split(strings.TrimPrefix(l, "cache.run "), " ; ")
	if len(parts) < 2 {
		return
	}
	type req struct {
		tid int
		m   cacheMsg
	}
	var reqs []req
	n := 0
	for _, p := range parts[1:] {
		f := strings.SplitN(strings.TrimSpace(p), " ", 4)
		if len(f) != 4 {
			return
		}
		tid, _ := strconv.Atoi(f[0])
		d, _ := strconv.Atoi(f[1])
		tag, _ := strconv.Atoi(f[2])
		ty := dynTypes[d]
		if ty == nil {
			return
		}
		v, err := parseVal(s, f[3], ty, s.Dyns[d].Kind)
		if err != nil {
			ctx.Res.Fail("cache replay: " + err.Error())
			return
		}
		reqs = append(reqs, req{tid, cacheMsg{planTarget{d, ty, tag}, v}})
		if tid+1 > n {
			n = tid + 1
		}
	}
	out := make([][]string, n)
	var wg sync.WaitGroup
	gate := make(chan struct{})
	for t := 0; t < n; t++ {
		wg.Add(1)
		go func(t int) {
			defer wg.Done()
			<-gate
			for _, rq := range reqs {
				if rq.tid == t {
					out[t] = append(out[t], strings.TrimPrefix(cacheEncode("ttlv", rq.m, nil), "ok "))
				}
			}
		}(t)
	}
	close(gate)
	wg.Wait()
	var ps []string
	for t := 0; t < n; t++ {
		ps = append(ps, fmt.Sprintf("%d:%s", t, strings.Join(out[t], ",")))
	}
	ctx.Add(l, "ok "+strings.Join(ps, " "), true, "C20")
}

// parseVal builds a Go value of type ty from the Val line syntax (inverse of schema.Render).
func parseVal(s *schema.Schema, src string, ty reflect.Type, k schema.Kind) (reflect.Value, error) {
	toks := valTokens(src)
	v := reflect.New(ty).Elem()
	rest, err := parseValInto(s, toks, v, k)
	if err != nil {
		return v, err
	}
	if len(rest) != 0 {
		return v, fmt.Errorf("trailing tokens")
	}
	return v, nil
}

func valTokens(s string) []string {
	s = strings.ReplaceAll(strings.ReplaceAll(s, "(", " ( "), ")", " ) ")
	return strings.Fields(s)
}

// skipGroup returns the tokens of one balanced group starting at t[0] and the rest.
func skipGroup(t []string) ([]string, []string, error) {
	if len(t) == 0 {
		return nil, nil, fmt.Errorf("unexpected end")
	}
	if t[0] != "(" {
		return t[:1], t[1:], nil
	}
	depth := 0
	for i, x := range t {
		if x == "(" {
			depth++
		} else if x == ")" {
			depth--
			if depth == 0 {
				return t[:i+1], t[i+1:], nil
			}
		}
	}
	return nil, nil, fmt.Errorf("unbalanced")
}

func parseValInto(s *schema.Schema, t []string, v reflect.Value, k schema.Kind) ([]string, error) {
	if len(t) == 0 {
		return nil, fmt.Errorf("unexpected end")
	}
	atomInt := func() (int64, error) {
		if !strings.HasPrefix(t[0], "i") {
			return 0, fmt.Errorf("expected integer, got %q", t[0])
		}
		return strconv.ParseInt(t[0][1:], 10, 64)
	}
	hexArg := func(x string) ([]byte, error) {
		if x == "-" {
			return []byte{}, nil
		}
		return hex.DecodeString(x)
	}
	switch k.K {
	case "i8", "i16", "i32", "i64", "mask":
		n, err := atomInt()
		if err != nil {
			return nil, err
		}
		v.SetInt(n)
		return t[1:], nil
	case "u8", "u16", "u32", "u64", "enum":
		n, err := atomInt()
		if err != nil {
			return nil, err
		}
		v.SetUint(uint64(n))
		return t[1:], nil
	case "bool":
		v.SetBool(t[0] == "b1")
		return t[1:], nil
	case "text":
		b, err := hexArg(strings.TrimPrefix(t[0], "t"))
		if err != nil {
			return nil, err
		}
		v.SetString(string(b))
		return t[1:], nil
	case "bytes":
		if t[0] == "yn" {
			return t[1:], nil
		}
		b, err := hexArg(strings.TrimPrefix(t[0], "y"))
		if err != nil {
			return nil, err
		}
		v.SetBytes(b)
		return t[1:], nil
	case "date":
		n, err := atomInt()
		if err != nil {
			return nil, err
		}
		v.Set(reflect.ValueOf(time.Unix(n, 0)))
		return t[1:], nil
	case "interval":
		n, err := atomInt()
		if err != nil {
			return nil, err
		}
		v.SetInt(int64(time.Duration(n) * time.Second))
		return t[1:], nil
	case "big":
		b, ok := new(big.Int).SetString(strings.TrimPrefix(t[0], "g"), 10)
		if !ok {
			return nil, fmt.Errorf("bad big integer")
		}
		v.Set(reflect.ValueOf(*b))
		return t[1:], nil
	case "struct":
		if len(t) < 2 || t[0] != "(" || t[1] != "S" {
			return nil, fmt.Errorf("expected (S")
		}
		t = t[2:]
		for _, f := range s.Structs[k.Ref].Fields {
			var err error
			if t, err = parseValInto(s, t, v.FieldByName(f.GoName), f.Kind); err != nil {
				return nil, err
			}
		}
		if len(t) == 0 || t[0] != ")" {
			return nil, fmt.Errorf("expected )")
		}
		return t[1:], nil
	case "ptr":
		if t[0] == "n" {
			return t[1:], nil
		}
		if len(t) < 2 || t[0] != "(" || t[1] != "P" {
			return nil, fmt.Errorf("expected (P")
		}
		for v.Kind() == reflect.Pointer {
			v.Set(reflect.New(v.Type().Elem()))
			v = v.Elem()
		}
		t, err := parseValInto(s, t[2:], v, *k.Elem)
		if err != nil {
			return nil, err
		}
		if len(t) == 0 || t[0] != ")" {
			return nil, fmt.Errorf("expected )")
		}
		return t[1:], nil
	case "slice":
		if len(t) < 2 || t[0] != "(" || t[1] != "L" {
			return nil, fmt.Errorf("expected (L")
		}
		t = t[2:]
		for len(t) > 0 && t[0] != ")" {
			el := reflect.New(v.Type().Elem()).Elem()
			var err error
			if t, err = parseValInto(s, t, el, *k.Elem); err != nil {
				return nil, err
			}
			v.Set(reflect.Append(v, el))
		}
		if len(t) == 0 {
			return nil, fmt.Errorf("expected )")
		}
		return t[1:], nil
	case "iface":
		if t[0] == "N" {
			return t[1:], nil
		}
		if len(t) < 3 || t[0] != "(" || t[1] != "F" {
			return nil, fmt.Errorf("expected (F")
		}
		id, err := strconv.Atoi(t[2])
		if err != nil || dynTypes[id] == nil {
			return nil, fmt.Errorf("unknown dyn %q", t[2])
		}
		dv := reflect.New(dynTypes[id]).Elem()
		t, err = parseValInto(s, t[3:], dv, s.Dyns[id].Kind)
		if err != nil {
			return nil, err
		}
		if len(t) == 0 || t[0] != ")" {
			return nil, fmt.Errorf("expected )")
		}
		v.Set(dv)
		return t[1:], nil
	case "any":
		if t[0] == "a" {
			return t[1:], nil
		}
		if len(t) < 2 || t[0] != "(" || t[1] != "A" {
			return nil, fmt.Errorf("expected (A")
		}
		g, rest, err := skipGroup(t[2:])
		if err != nil {
			return nil, err
		}
		it, err := tree.Parse(strings.Join(g, " "))
		if err != nil {
			return nil, err
		}
		v.Set(reflect.ValueOf(toValue(it)))
		if len(rest) == 0 || rest[0] != ")" {
			return nil, fmt.Errorf("expected )")
		}
		return rest[1:], nil
	case "anystruct":
		if len(t) < 2 || t[0] != "(" || t[1] != "X" {
			return nil, fmt.Errorf("expected (X")
		}
		t = t[2:]
		var st ttlv.Struct
		for len(t) > 0 && t[0] != ")" {
			g, rest, err := skipGroup(t)
			if err != nil {
				return nil, err
			}
			it, err := tree.Parse(strings.Join(g, " "))
			if err != nil {
				return nil, err
			}
			st = append(st, toValue(it))
			t = rest
		}
		if len(t) == 0 {
			return nil, fmt.Errorf("expected )")
		}
		if st != nil {
			v.Set(reflect.ValueOf(st))
		}
		return t[1:], nil
	}
	return nil, fmt.Errorf("unsupported kind %s", k.K)
}

// ---- the race-enabled copy of the harness ------------------------------------------------------------

// cacheDirs: the harness module directory and the library directory its go.mod points to.
func cacheDirs() (modDir, repoDir string) {
	modDir = os.Getenv("VERIF_GO_DIR")
	if modDir == "" {
		if _, file, _, ok := runtime.Caller(0); ok && filepath.IsAbs(file) {
			modDir = filepath.Dir(filepath.Dir(filepath.Dir(file)))
		}
	}
	if modDir == "" {
		modDir = "/verif/go"
	}
	repoDir = "/repo"
	if b, err := os.ReadFile(filepath.Join(modDir, "go.mod")); err == nil {
		if m := regexp.MustCompile(`(?m)^replace\s+github\.com/ovh/kmip-go\s+=>\s+(\S+)`).FindSubmatch(b); m != nil {
			repoDir = string(m[1])
			if !filepath.IsAbs(repoDir) {
				repoDir = filepath.Join(modDir, repoDir)
			}
		}
	}
	return
}

func hashSources(dirs ...string) string {
	h := sha256.New()
	for _, d := range dirs {
		var files []string
		_ = filepath.WalkDir(d, func(p string, de fs.DirEntry, err error) error {
			if err != nil {
				return nil
			}
			if de.IsDir() {
				if n := de.Name(); p != d && (strings.HasPrefix(n, ".") || n == "testdata" || n == "node_modules") {
					return filepath.SkipDir
				}
				return nil
			}
			n := de.Name()
			if (strings.HasSuffix(n, ".go") && !strings.HasSuffix(n, "_test.go")) || n == "go.mod" || n == "go.sum" {
				files = append(files, p)
			}
			return nil
		})
		sort.Strings(files)
		for _, f := range files {
			b, err := os.ReadFile(f)
			if err != nil {
				continue
			}
			rel, _ := filepath.Rel(d, f)
			fmt.Fprintf(h, "%s\x00%d\x00", rel, len(b))
			h.Write(b)
		}
	}
	return hex.EncodeToString(h.Sum(nil))[:16]
}

// cacheRaceBinary returns a -race build of this harness, building it only when the sources changed.
func cacheRaceBinary() (path, note, fail string) {
	if os.Getenv("VERIF_CACHE_NORACE") != "" {
		return "", "cache.race-binary.disabled", ""
	}
	modDir, repoDir := cacheDirs()
	binDir := os.Getenv("VERIF_BIN_DIR")
	if binDir == "" {
		// next to the harness module: <tree>/.work/bin (never another tree's cache)
		binDir = filepath.Join(filepath.Dir(modDir), ".work", "bin")
	}
	_ = os.MkdirAll(binDir, 0o755)
	// a mutant under test (bin/mutate.sh: GOFLAGS=… -overlay=<json>) must be in the race build too
	overlay, overlayHash := "", ""
	for _, fl := range strings.Fields(os.Getenv("GOFLAGS")) {
		if strings.HasPrefix(fl, "-overlay=") {
			overlay = fl
			h := sha256.New()
			if b, err := os.ReadFile(strings.TrimPrefix(fl, "-overlay=")); err == nil {
				h.Write(b)
				var ov struct{ Replace map[string]string }
				if json.Unmarshal(b, &ov) == nil {
					var ks []string
					for k := range ov.Replace {
						ks = append(ks, k)
					}
					sort.Strings(ks)
					for _, k := range ks {
						if fb, err := os.ReadFile(ov.Replace[k]); err == nil {
							h.Write(fb)
						}
					}
				}
			}
			overlayHash = "-" + hex.EncodeToString(h.Sum(nil))[:10]
		}
	}
	out := filepath.Join(binDir, "harness-race-"+hashSources(modDir, repoDir)+overlayHash)
	if st, err := os.Stat(out); err == nil && st.Mode().IsRegular() {
		return out, "cache.race-binary.cached", ""
	}
	tmp := fmt.Sprintf("%s.tmp%d", out, os.Getpid())
	cmd := exec.Command("go", "build", "-race", "-tags", "verif", "-o", tmp, "./cmd/harness")
	cmd.Dir = modDir
	env := []string{}
	for _, kv := range os.Environ() {
		if !strings.HasPrefix(kv, "GOFLAGS=") && !strings.HasPrefix(kv, "GOPROXY=") {
			env = append(env, kv)
		}
	}
	cmd.Env = append(env, strings.TrimSpace("GOFLAGS=-mod=mod "+overlay), "GOPROXY=off", "CGO_ENABLED=1")
	if b, err := cmd.CombinedOutput(); err != nil {
		return "", "", "cache: building the race-enabled harness failed: " + err.Error() + ": " + truncate(string(b), 600)
	}
	if err := os.Rename(tmp, out); err != nil {
		return "", "", "cache: " + err.Error()
	}
	// keep only the newest few race binaries
	if old, _ := filepath.Glob(filepath.Join(binDir, "harness-race-*")); len(old) > 4 {
		sort.Slice(old, func(i, j int) bool {
			a, _ := os.Stat(old[i])
			b, _ := os.Stat(old[j])
			return a != nil && b != nil && a.ModTime().Before(b.ModTime())
		})
		for _, f := range old[:len(old)-4] {
			if f != out {
				_ = os.Remove(f)
			}
		}
	}
	return out, "cache.race-binary.built", ""
}

// ---- structural facts ----------------------------------------------------------------------------------

var cacheReadOnlyMethods = map[string]bool{
	"Cmp": true, "Sign": true, "String": true, "Error": true, "Bytes": true, "Int64": true, "Uint64": true,
	"IsInt64": true, "IsUint64": true, "BitLen": true, "Len": true, "Is": true, "Unwrap": true, "Major": true,
	"Minor": true, "Kind": true, "Name": true, "Elem": true, "Implements": true, "Text": true, "Format": true,
	"MatchString": true, "FindStringSubmatch": true, "FindSubmatch": true,
}

var cacheMutatingLibFuncs = map[string]bool{
	"maps.Copy": true, "maps.DeleteFunc": true, "maps.Insert": true, "slices.Sort": true, "slices.SortFunc": true,
	"slices.SortStableFunc": true, "slices.Reverse": true, "slices.Delete": true, "slices.Insert": true,
	"sort.Strings": true, "sort.Ints": true, "sort.Slice": true, "sort.SliceStable": true, "sort.Sort": true,
	"sort.Stable": true,
}

type structuralScan struct {
	pkg      string
	vars     map[string]*ast.ValueSpec
	varFile  map[string]string
	funcs    map[string]*ast.FuncDecl // plain functions by name
	all      []*ast.FuncDecl
	hookFile map[*ast.FuncDecl]bool
	facts    []string
	prims    []string // package-level synchronisation primitives whose methods are called (information)
}

func rootIdent(x ast.Expr) *ast.Ident {
	for {
		switch e := x.(type) {
		case *ast.Ident:
			return e
		case *ast.IndexExpr:
			x = e.X
		case *ast.IndexListExpr:
			x = e.X
		case *ast.SelectorExpr:
			x = e.X
		case *ast.StarExpr:
			x = e.X
		case *ast.ParenExpr:
			x = e.X
		case *ast.SliceExpr:
			x = e.X
		default:
			return nil
		}
	}
}

func funcDisplayName(fd *ast.FuncDecl) string {
	if fd.Recv != nil && len(fd.Recv.List) > 0 {
		t := fd.Recv.List[0].Type
		if s, ok := t.(*ast.StarExpr); ok {
			t = s.X
		}
		if ix, ok := t.(*ast.IndexExpr); ok {
			t = ix.X
		}
		if id, ok := t.(*ast.Ident); ok {
			return id.Name + "." + fd.Name.Name
		}
	}
	return fd.Name.Name
}

// declaredNames: every identifier declared anywhere inside the function (conservative shadowing).
func declaredNames(fd *ast.FuncDecl) map[string]bool {
	names := map[string]bool{}
	addFields := func(fl *ast.FieldList) {
		if fl == nil {
			return
		}
		for _, f := range fl.List {
			for _, n := range f.Names {
				names[n.Name] = true
			}
		}
	}
	addFields(fd.Recv)
	addFields(fd.Type.Params)
	addFields(fd.Type.Results)
	ast.Inspect(fd, func(n ast.Node) bool {
		switch x := n.(type) {
		case *ast.AssignStmt:
			if x.Tok == token.DEFINE {
				for _, l := range x.Lhs {
					if id, ok := l.(*ast.Ident); ok {
						names[id.Name] = true
					}
				}
			}
		case *ast.ValueSpec:
			for _, id := range x.Names {
				names[id.Name] = true
			}
		case *ast.RangeStmt:
			if x.Tok == token.DEFINE {
				if id, ok := x.Key.(*ast.Ident); ok {
					names[id.Name] = true
				}
				if id, ok := x.Value.(*ast.Ident); ok {
					names[id.Name] = true
				}
			}
		case *ast.FuncLit:
			addFields(x.Type.Params)
			addFields(x.Type.Results)
		case *ast.TypeSwitchStmt:
			if a, ok := x.Assign.(*ast.AssignStmt); ok {
				for _, l := range a.Lhs {
					if id, ok := l.(*ast.Ident); ok {
						names[id.Name] = true
					}
				}
			}
		}
		return true
	})
	return names
}

// goOverlay: the file replacements of `-overlay=<json>` in GOFLAGS (a mutant under test, bin/mutate.sh): the scan
// must read the sources the harness was built from.
func goOverlay() map[string]string {
	for _, fl := range strings.Fields(os.Getenv("GOFLAGS")) {
		if strings.HasPrefix(fl, "-overlay=") {
			var ov struct{ Replace map[string]string }
			if b, err := os.ReadFile(strings.TrimPrefix(fl, "-overlay=")); err == nil && json.Unmarshal(b, &ov) == nil {
				return ov.Replace
			}
		}
	}
	return nil
}

func scanPackage(dir, pkg string) (*structuralScan, error) {
	fset := token.NewFileSet()
	overlay := goOverlay()
	ents, err := os.ReadDir(dir)
	if err != nil {
		return nil, err
	}
	sc := &structuralScan{pkg: pkg, vars: map[string]*ast.ValueSpec{}, varFile: map[string]string{}, funcs: map[string]*ast.FuncDecl{}, hookFile: map[*ast.FuncDecl]bool{}}
	for _, e := range ents {
		n := e.Name()
		if e.IsDir() || !strings.HasSuffix(n, ".go") || strings.HasSuffix(n, "_test.go") {
			continue
		}
		var src any
		if rep, ok := overlay[filepath.Join(dir, n)]; ok {
			b, rerr := os.ReadFile(rep)
			if rerr != nil {
				return nil, rerr
			}
			src = b
		}
		f, err := parser.ParseFile(fset, filepath.Join(dir, n), src, parser.ParseComments|parser.SkipObjectResolution)
		if err != nil {
			return nil, err
		}
		hook := false
		for _, cg := range f.Comments {
			if cg.Pos() < f.Package && strings.Contains(cg.Text(), "go:build verif") {
				hook = true
			}
		}
		for _, cg := range f.Comments {
			for _, c := range cg.List {
				if c.Pos() < f.Package && strings.HasPrefix(c.Text, "//go:build") && strings.Contains(c.Text, "verif") {
					hook = true
				}
			}
		}
		for _, d := range f.Decls {
			switch x := d.(type) {
			case *ast.GenDecl:
				if x.Tok != token.VAR {
					continue
				}
				for _, sp := range x.Specs {
					vs := sp.(*ast.ValueSpec)
					for _, id := range vs.Names {
						if id.Name != "_" {
							sc.vars[id.Name] = vs
							sc.varFile[id.Name] = n
						}
					}
				}
			case *ast.FuncDecl:
				if x.Body == nil {
					continue
				}
				sc.all = append(sc.all, x)
				sc.hookFile[x] = hook
				if x.Recv == nil {
					sc.funcs[x.Name.Name] = x
				}
			}
		}
	}
	return sc, nil
}

// allowedWriters: init, Register* and what they call (within the package).
func (sc *structuralScan) allowedWriters() map[*ast.FuncDecl]bool {
	allowed := map[*ast.FuncDecl]bool{}
	var work []*ast.FuncDecl
	for _, fd := range sc.all {
		if fd.Recv == nil && (fd.Name.Name == "init" || strings.HasPrefix(fd.Name.Name, "Register")) {
			allowed[fd] = true
			work = append(work, fd)
		}
	}
	for len(work) > 0 {
		fd := work[len(work)-1]
		work = work[:len(work)-1]
		ast.Inspect(fd.Body, func(n ast.Node) bool {
			if c, ok := n.(*ast.CallExpr); ok {
				fun := c.Fun
				if ix, ok := fun.(*ast.IndexExpr); ok {
					fun = ix.X
				}
				if ix, ok := fun.(*ast.IndexListExpr); ok {
					fun = ix.X
				}
				if id, ok := fun.(*ast.Ident); ok {
					if callee := sc.funcs[id.Name]; callee != nil && !allowed[callee] {
						allowed[callee] = true
						work = append(work, callee)
					}
				}
			}
			return true
		})
	}
	return allowed
}

// isSyncPrimitiveDecl: a package-level sync.Pool / Once / Mutex / RWMutex / WaitGroup or a sync/atomic value. Their
// methods are what one uses to share state WITHOUT a data race, so a call to them is not evidence against the
// data-race argument (what travels through a Pool can still carry history from one call to the next: that is what
// the order / reuse / concurrent oracles observe on the results).
func isSyncPrimitiveDecl(vs *ast.ValueSpec) bool {
	isPrim := func(t ast.Expr) bool {
		if s, ok := t.(*ast.StarExpr); ok {
			t = s.X
		}
		if ix, ok := t.(*ast.IndexExpr); ok { // atomic.Pointer[T]
			t = ix.X
		}
		se, ok := t.(*ast.SelectorExpr)
		if !ok {
			return false
		}
		id, ok := se.X.(*ast.Ident)
		if !ok {
			return false
		}
		if id.Name == "atomic" {
			return true
		}
		return id.Name == "sync" && map[string]bool{"Pool": true, "Once": true, "Mutex": true, "RWMutex": true, "WaitGroup": true}[se.Sel.Name]
	}
	if vs.Type != nil && isPrim(vs.Type) {
		return true
	}
	if len(vs.Values) == 1 {
		switch v := vs.Values[0].(type) {
		case *ast.UnaryExpr:
			if cl, ok := v.X.(*ast.CompositeLit); ok && v.Op == token.AND {
				return isPrim(cl.Type)
			}
		case *ast.CompositeLit:
			return isPrim(v.Type)
		case *ast.CallExpr:
			if id, ok := v.Fun.(*ast.Ident); ok && id.Name == "new" && len(v.Args) == 1 {
				return isPrim(v.Args[0])
			}
		}
	}
	return false
}

func isSyncMapDecl(vs *ast.ValueSpec) bool {
	isSyncMap := func(t ast.Expr) bool {
		if s, ok := t.(*ast.StarExpr); ok {
			t = s.X
		}
		se, ok := t.(*ast.SelectorExpr)
		if !ok {
			return false
		}
		id, ok := se.X.(*ast.Ident)
		return ok && id.Name == "sync" && se.Sel.Name == "Map"
	}
	if vs.Type != nil && isSyncMap(vs.Type) {
		return true
	}
	if len(vs.Values) == 1 {
		switch v := vs.Values[0].(type) {
		case *ast.CallExpr:
			if id, ok := v.Fun.(*ast.Ident); ok && id.Name == "new" && len(v.Args) == 1 {
				return isSyncMap(v.Args[0])
			}
		case *ast.UnaryExpr:
			if cl, ok := v.X.(*ast.CompositeLit); ok && v.Op == token.AND {
				return isSyncMap(cl.Type)
			}
		case *ast.CompositeLit:
			return isSyncMap(v.Type)
		}
	}
	return false
}

// checkRegisterCalls: the whitelisted writers (Register*, and what they call) must themselves be called only from
// init-time code: a Register* reached from an encode / decode path would write the plain maps under the readers.
func (sc *structuralScan) checkRegisterCalls(allowed map[*ast.FuncDecl]bool) {
	fact := func(f string) { sc.facts = append(sc.facts, f) }
	for _, fd := range sc.all {
		if allowed[fd] {
			continue
		}
		name := funcDisplayName(fd)
		local := declaredNames(fd)
		ast.Inspect(fd.Body, func(n ast.Node) bool {
			c, ok := n.(*ast.CallExpr)
			if !ok {
				return true
			}
			fun := c.Fun
			if ix, ok := fun.(*ast.IndexExpr); ok {
				fun = ix.X
			}
			if ix, ok := fun.(*ast.IndexListExpr); ok {
				fun = ix.X
			}
			callee := ""
			switch f := fun.(type) {
			case *ast.Ident:
				if !local[f.Name] && sc.funcs[f.Name] != nil {
					callee = f.Name
				}
			case *ast.SelectorExpr:
				if id, ok := f.X.(*ast.Ident); ok && (id.Name == "ttlv" || id.Name == "kmip") && !local[id.Name] {
					callee = f.Sel.Name
				}
			}
			if strings.HasPrefix(callee, "Register") && !sc.hookFile[fd] {
				fact(fmt.Sprintf("register-called-after-init:%s.%s@%s", sc.pkg, callee, name))
			}
			return true
		})
	}
}

func (sc *structuralScan) check(cacheVars map[string]string) {
	allowed := sc.allowedWriters()
	fact := func(f string) { sc.facts = append(sc.facts, f) }
	for cv := range cacheVars {
		vs := sc.vars[cv]
		if vs == nil {
			fact("cache-var-missing:" + sc.pkg + "." + cv)
		} else if !isSyncMapDecl(vs) {
			fact("cache-not-sync.Map:" + sc.pkg + "." + cv)
		}
	}
	// every Encoder / Decoder gets an extension (version cell) of its own
	if sc.pkg == "ttlv" {
		for _, ctor := range []string{"newEncoder", "newDecoder"} {
			fd := sc.funcs[ctor]
			ok := false
			if fd != nil {
				ast.Inspect(fd.Body, func(n ast.Node) bool {
					switch x := n.(type) {
					case *ast.CallExpr:
						if id, isID := x.Fun.(*ast.Ident); isID && id.Name == "new" && len(x.Args) == 1 {
							if a, isA := x.Args[0].(*ast.Ident); isA && a.Name == "extension" {
								ok = true
							}
						}
					case *ast.CompositeLit:
						if a, isA := x.Type.(*ast.Ident); isA && a.Name == "extension" {
							ok = true
						}
					}
					return true
				})
			}
			if !ok {
				fact("extension-not-allocated-per-instance:ttlv." + ctor)
			}
		}
	}
	sc.checkRegisterCalls(allowed)
	for _, fd := range sc.all {
		name := funcDisplayName(fd)
		local := declaredNames(fd)
		isPkgVar := func(x ast.Expr) (string, bool) {
			id := rootIdent(x)
			if id == nil || local[id.Name] {
				return "", false
			}
			if _, ok := sc.vars[id.Name]; ok {
				return id.Name, true
			}
			return "", false
		}
		write := func(v, how string) {
			if owner, isCache := cacheVars[v]; isCache {
				if name != owner {
					fact(fmt.Sprintf("cache-written-outside-%s:%s.%s@%s", owner, sc.pkg, v, name))
				}
				return
			}
			if !allowed[fd] {
				fact(fmt.Sprintf("pkgvar-%s:%s.%s@%s", how, sc.pkg, v, name))
			}
		}
		ast.Inspect(fd.Body, func(n ast.Node) bool {
			switch x := n.(type) {
			case *ast.AssignStmt:
				for _, l := range x.Lhs {
					if x.Tok == token.DEFINE {
						if _, plain := l.(*ast.Ident); plain {
							continue
						}
					}
					if v, ok := isPkgVar(l); ok {
						write(v, "assigned")
					}
				}
			case *ast.IncDecStmt:
				if v, ok := isPkgVar(x.X); ok {
					write(v, "assigned")
				}
			case *ast.RangeStmt:
				if x.Tok == token.ASSIGN {
					for _, l := range []ast.Expr{x.Key, x.Value} {
						if l != nil {
							if v, ok := isPkgVar(l); ok {
								write(v, "assigned")
							}
						}
					}
				}
			case *ast.UnaryExpr:
				if x.Op == token.AND {
					if _, lit := x.X.(*ast.CompositeLit); !lit {
						if v, ok := isPkgVar(x.X); ok {
							write(v, "address-taken")
						}
					}
				}
			case *ast.CallExpr:
				switch fun := x.Fun.(type) {
				case *ast.Ident:
					if (fun.Name == "delete" || fun.Name == "clear" || fun.Name == "copy") && len(x.Args) > 0 && !local[fun.Name] {
						if v, ok := isPkgVar(x.Args[0]); ok {
							write(v, "mutated")
						}
					}
				case *ast.SelectorExpr:
					if recv, ok := fun.X.(*ast.Ident); ok && !local[recv.Name] {
						if _, isVar := sc.vars[recv.Name]; isVar {
							// method call on a package-level variable
							if owner, isCache := cacheVars[recv.Name]; isCache {
								if name != owner && !sc.hookFile[fd] {
									fact(fmt.Sprintf("cache-used-outside-%s:%s.%s@%s", owner, sc.pkg, recv.Name, name))
								} else if !map[string]bool{"Load": true, "Store": true, "LoadOrStore": true, "Range": true, "Clear": true}[fun.Sel.Name] {
									fact(fmt.Sprintf("cache-unexpected-method-%s:%s.%s@%s", fun.Sel.Name, sc.pkg, recv.Name, name))
								}
							} else if isSyncPrimitiveDecl(sc.vars[recv.Name]) {
								sc.prims = append(sc.prims, recv.Name)
							} else if !cacheReadOnlyMethods[fun.Sel.Name] {
								write(recv.Name, "method-"+fun.Sel.Name)
							}
						} else if cacheMutatingLibFuncs[recv.Name+"."+fun.Sel.Name] && len(x.Args) > 0 {
							if v, ok := isPkgVar(x.Args[0]); ok {
								write(v, "mutated")
							}
						}
					}
				}
			}
			return true
		})
	}
}

func cacheStructural(ctx *Ctx, repoDir string) {
	type pk struct {
		dir, name    string
		caches       map[string]string
		registerOnly bool // packages that only use the codec: just "no Register* after init"
	}
	pkgs := []pk{
		{filepath.Join(repoDir, "ttlv"), "ttlv", map[string]string{"encodeFuncsCache": "encodeFuncFor", "decodeFuncsCache": "decodeFuncFor"}, false},
		{repoDir, "kmip", map[string]string{}, false},
		{filepath.Join(repoDir, "payloads"), "payloads", map[string]string{}, false},
		{filepath.Join(repoDir, "kmipclient"), "kmipclient", nil, true},
		{filepath.Join(repoDir, "kmipserver"), "kmipserver", nil, true},
	}
	for _, p := range pkgs {
		sc, err := scanPackage(p.dir, p.name)
		if err != nil {
			ctx.Res.Fail("cache structural scan of " + p.dir + ": " + err.Error())
			continue
		}
		if p.registerOnly {
			sc.checkRegisterCalls(sc.allowedWriters())
		} else {
			sc.check(p.caches)
		}
		ctx.Add(fmt.Sprintf("# cache.structural %s vars=%d funcs=%d", p.name, len(sc.vars), len(sc.all)), fmt.Sprintf("facts-violated=%d", len(sc.facts)), true, "C20")
		ctx.Res.Count(fmt.Sprintf("cache.structural.%s.pkgvars=%d", p.name, len(sc.vars)))
		for _, v := range sc.prims {
			ctx.Res.Count("cache.structural.sync-primitive-used:" + p.name + "." + v)
		}
		seen := map[string]bool{}
		for _, f := range sc.facts {
			if seen[f] {
				continue
			}
			seen[f] = true
			// A structural fact is supporting evidence for the data-race clause, not the property: when it stops
			// holding (a renamed or split function, a map guarded by a mutex instead of a sync.Map, a new pooled
			// helper, …) the ARGUMENT no longer applies to the sources — lost evidence, to be re-established by a
			// reviewer — while genuine races are what the race-detector scenarios report with an input.
			ctx.Res.Count("cache.structural.lost:" + strings.SplitN(f, ":", 2)[0])
			ctx.Res.Fail("lost evidence (C20 structural scan of " + p.name + "): the fact `" + f + "` the data-race argument relies on no longer holds of the sources; the scan must be revisited (this is not a failing input)")
		}
	}
}

// ---- entry ------------------------------------------------------------------------------------------------

func runCache(ctx *Ctx) {
	s := getSchema()
	if len(ctx.Replay) > 0 {
		cacheReplay(ctx, s)
		return
	}
	bin, err := os.Executable()
	if err != nil {
		ctx.Res.Fail("cache: " + err.Error())
		return
	}
	_, repoDir := cacheDirs()
	cacheStructural(ctx, repoDir)

	// start building the race-enabled copy while the plain scenarios run
	type raceRes struct{ path, note, fail string }
	raceCh := make(chan raceRes, 1)
	go func() {
		p, n, f := cacheRaceBinary()
		raceCh <- raceRes{p, n, f}
	}()

	e := &cacheEngine{ctx: ctx, s: s, bin: bin}
	e.buildMessages()
	if !e.computeReferences() {
		<-raceCh
		return
	}
	// the parent itself is a process with a long history: its own results must equal the references too
	for i := range e.msgs {
		for _, f := range cacheFormats {
			got := cacheEncode(f, e.msgs[i], nil)
			line := fmt.Sprintf("# cache.warm enc %s msg=%d", f, i)
			ctx.Add(line, got, true, "C20")
			if want := e.ref[cacheRefKey{"enc", f, i, 0}]; got != want {
				e.violate("order", "cache:warm-differs:enc."+f, "a warm process encodes differently from a fresh one: "+firstDiff(want, got), line)
			}
		}
	}
	e.orderScenarios()
	e.userTypeScenarios()
	e.reuseScenarios()
	rr := <-raceCh
	if rr.note != "" {
		ctx.Res.Count(rr.note)
	}
	if rr.fail != "" {
		ctx.Res.Fail(rr.fail)
	}
	e.concurrentScenarios(rr.path)
	e.freshScenarios(rr.path)
	e.literalScenarios(rr.path)
	e.reuseLines()
	e.histLines()
	e.histSoak()
	e.marshalAliasOracle()
	e.decoderReuseObservation()
	e.cacheRunLines()
}
