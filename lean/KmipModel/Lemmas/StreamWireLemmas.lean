/-
  The sender side of C07: what `ttlvWriter` writes for ONE item (`enc t`, the bytes `Stream.Send` hands to
  the transport: `MarshalTTLV(msg)` followed by one `Write`) is exactly one frame in the sense of
  `Stream.Recv` (`Framed`: at least the 8 header bytes, and as long as `computeNeededBytes` announces).
  This ties the hypotheses `Framed m` of the C07 theorems to the encoder model of C01/C03.
  Core Lean only.
-/
import KmipModel.Lemmas.StreamLemmas
import KmipModel.Lemmas.WireLemmas
namespace Kmip

/-- the receiver's size computation on an item header written by `writeTag; writeType; writeLength`. -/
theorem computeNeededBytes_hdr (tag ty len : Nat) (hlen : len < 2 ^ 32) (tl : Bytes) :
    computeNeededBytes (hdr tag ty len ++ tl) = 8 + paddedLen len := by
  have e2 : ((hdr tag ty len ++ tl).drop 4).take 4 = be32 len := rfl
  have e5 : ¬ (hdr tag ty len ++ tl).length < 8 := by
    rw [List.length_append, hdr_length]; omega
  unfold computeNeededBytes
  rw [if_neg e5, e2, beVal_be32 len hlen]

/-- a header followed by a value of the announced length and its padding is one frame. -/
theorem framed_hdr (tag ty len : Nat) (hlen : len < 2 ^ 32) (tl : Bytes)
    (htl : tl.length = paddedLen len) : Framed (hdr tag ty len ++ tl) := by
  refine ⟨?_, ?_⟩
  · rw [List.length_append, hdr_length]; omega
  · rw [computeNeededBytes_hdr tag ty len hlen tl, List.length_append, hdr_length, htl]

theorem paddedLen_of_mod {l : Nat} (h : l % 8 = 0) : paddedLen l = l := by
  unfold paddedLen; rw [padForLen_eq_zero h]; rfl

/-- **Every in-range item is written as exactly one frame.** -/
theorem enc_framed (t : Item) (h : t.InRange) : Framed (enc t) := by
  cases t with
  | struct tag cs =>
    rw [Item.InRange] at h
    rw [enc]
    exact framed_hdr tag 1 _ h.2.2.1 _ (paddedLen_of_mod (encList_length_mod cs)).symm
  | int tag v =>
    rw [enc, List.append_assoc]
    exact framed_hdr tag 2 4 (by decide) _ rfl
  | long tag v =>
    rw [enc]
    exact framed_hdr tag 3 8 (by decide) _ rfl
  | big tag v =>
    rw [Item.InRange] at h
    rw [enc]
    exact framed_hdr tag 4 _ h.2.2 _ (paddedLen_of_mod (encodeBig_length_mod v)).symm
  | enum tag v =>
    rw [enc, List.append_assoc]
    exact framed_hdr tag 5 4 (by decide) _ rfl
  | bool tag b =>
    rw [enc]
    exact framed_hdr tag 6 8 (by decide) _ rfl
  | text tag s =>
    rw [Item.InRange] at h
    rw [enc, List.append_assoc]
    exact framed_hdr tag 7 _ h.2.2 _ (by simp [paddedLen])
  | bytes tag s =>
    rw [Item.InRange] at h
    rw [enc, List.append_assoc]
    exact framed_hdr tag 8 _ h.2.2 _ (by simp [paddedLen])
  | date tag v =>
    rw [enc]
    exact framed_hdr tag 9 8 (by decide) _ rfl
  | interval tag v =>
    rw [enc, List.append_assoc]
    exact framed_hdr tag 10 4 (by decide) _ rfl

/-- what a sequence of `Send` calls puts on the wire. -/
theorem encList_eq_flatten (ts : List Item) : encList ts = (ts.map enc).flatten := by
  induction ts with
  | nil => rw [encList]; rfl
  | cons x xs ih => rw [encList, ih]; rfl

/-! ### ANY wire (hostile peers): conservation, framing and the limit

No hypothesis on the bytes: whatever is on the wire and whatever the schedule, `Recv` consumes a prefix of
the wire in order; when it returns a message, the message is exactly the consumed prefix, it is one frame,
and it respects the configured limit. -/

theorem recvLoop_any (max : Nat) :
    ∀ (fuel : Nat) (t : Transport) (buf : Bytes) (cap : Nat),
      buf.length < computeNeededBytes buf →
      ∃ got, buf ++ t.wire = got ++ (recvLoop max fuel t buf (computeNeededBytes buf) cap).t.wire ∧
        ∀ bs, (recvLoop max fuel t buf (computeNeededBytes buf) cap).res = .msg bs →
          bs = got ∧ Framed bs ∧ (max = 0 ∨ bs.length ≤ max) := by
  intro fuel
  induction fuel with
  | zero =>
    intro t buf cap _
    exact ⟨buf, by simp [recvLoop], fun bs h => by simp [recvLoop] at h⟩
  | succ fuel ih =>
    intro t buf cap hlt
    obtain ⟨n, hn, hr1, hr2⟩ := read_gen t (computeNeededBytes buf - buf.length)
    have hsplit := read_split t (computeNeededBytes buf - buf.length)
    rw [recvLoop_succ]
    generalize t.read (computeNeededBytes buf - buf.length) = r at hr1 hr2 hsplit
    obtain ⟨rb, re, t'⟩ := r
    simp only at hr1 hr2 hsplit ⊢
    have hcons : buf ++ t.wire = (buf ++ rb) ++ t'.wire := by
      rw [List.append_assoc, hsplit]
    have hrbl : rb.length ≤ computeNeededBytes buf - buf.length := by
      rw [hr1, List.length_take]; omega
    split
    · split
      · exact ⟨buf ++ rb, hcons, fun bs h => by simp at h⟩
      · exact ⟨buf ++ rb, hcons, fun bs h => by simp at h⟩
    · split
      · exact ⟨buf ++ rb, hcons, fun bs h => by simp at h⟩
      · rename_i hbig
        split
        · rename_i hge
          refine ⟨buf ++ rb, hcons, fun bs h => ?_⟩
          simp only [RecvOut.mk.injEq, RecvRes.msg.injEq] at h
          -- the buffer never holds more than the announced size
          have hle : (buf ++ rb).length ≤ computeNeededBytes (buf ++ rb) := by
            by_cases h8 : buf.length < 8
            · have := computeNeededBytes_short h8
              have := computeNeededBytes_ge (buf ++ rb)
              rw [List.length_append]; omega
            · rw [computeNeededBytes_prefix buf rb (by omega), List.length_append]; omega
          have hbs : bs = buf ++ rb := by
            rw [← h]; exact List.take_of_length_le hle
          have h8' := computeNeededBytes_ge (buf ++ rb)
          refine ⟨hbs, ?_, ?_⟩
          · rw [hbs]; exact ⟨by omega, by omega⟩
          · rw [hbs]
            by_cases hm0 : max = 0
            · exact Or.inl hm0
            · right
              have : ¬ computeNeededBytes (buf ++ rb) > max := fun hc => hbig ⟨by omega, hc⟩
              omega
        · rename_i hnge
          split
          · exact ⟨buf ++ rb, hcons, fun bs h => by simp at h⟩
          · obtain ⟨got, hg1, hg2⟩ := ih t' (buf ++ rb) (if computeNeededBytes buf > cap then computeNeededBytes buf else cap) (by omega)
            exact ⟨got, by rw [hcons]; exact hg1, hg2⟩

/-- `Recv` on ANY wire under ANY schedule and limit. -/
theorem recvC_any (c0 max : Nat) (t : Transport) :
    ∃ got, t.wire = got ++ (recvC c0 max t).t.wire ∧
      ∀ bs, (recvC c0 max t).res = .msg bs → bs = got ∧ Framed bs ∧ (max = 0 ∨ bs.length ≤ max) := by
  have := recvLoop_any max (t.wire.length + t.sched.length + 2) t [] c0 (by decide)
  simpa [recvC, computeNeededBytes_nil] using this

/-- a whole session on ANY wire: the messages returned, in order, followed by what the last (failing)
    call consumed, are a prefix of the wire; every returned message is one frame within the limit. -/
theorem recvAll_any (c0 max : Nat) : ∀ (n : Nat) (t : Transport),
    ∃ got, t.wire = (recvAll c0 max n t).1.flatten ++ got ++ (recvAll c0 max n t).2.2.wire ∧
      ∀ m ∈ (recvAll c0 max n t).1, Framed m ∧ (max = 0 ∨ m.length ≤ max) := by
  intro n
  induction n with
  | zero => intro t; exact ⟨[], by simp [recvAll], by simp [recvAll]⟩
  | succ n ih =>
    intro t
    obtain ⟨got, hw, hmsg⟩ := recvC_any c0 max t
    cases hres : (recvC c0 max t).res with
    | msg bs =>
      obtain ⟨hbs, hf, hl⟩ := hmsg bs hres
      obtain ⟨got', hw', hall⟩ := ih (recvC c0 max t).t
      have e : recvAll c0 max (n + 1) t =
          (bs :: (recvAll c0 max n (recvC c0 max t).t).1, (recvAll c0 max n (recvC c0 max t).t).2.1,
            (recvAll c0 max n (recvC c0 max t).t).2.2) := by
        rw [recvAll]; simp only [hres]
      rw [e]
      refine ⟨got', ?_, ?_⟩
      · simp only [List.flatten_cons, List.append_assoc]
        rw [hw, ← hbs, hw']
        simp only [List.append_assoc]
      · intro m hm
        rcases List.mem_cons.1 hm with rfl | hm'
        · exact ⟨hf, hl⟩
        · exact hall m hm'
    | ioErr => exact ⟨got, by rw [recvAll]; simp only [hres]; simpa using hw, by rw [recvAll]; simp [hres]⟩
    | eof => exact ⟨got, by rw [recvAll]; simp only [hres]; simpa using hw, by rw [recvAll]; simp [hres]⟩
    | tooBig => exact ⟨got, by rw [recvAll]; simp only [hres]; simpa using hw, by rw [recvAll]; simp [hres]⟩
    | fuel => exact ⟨got, by rw [recvAll]; simp only [hres]; simpa using hw, by rw [recvAll]; simp [hres]⟩

end Kmip
