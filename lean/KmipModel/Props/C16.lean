/-
  C16 — Shutdown drains cleanly and connection hooks are paired.

  The statements are about the MODELLED state machine of the server (`Kmip.Server`: `Serve`,
  `Shutdown` statement by statement with its critical sections, the grace timer as a
  non-deterministic event, two anonymous connection slots in the abstracted form of their owner
  goroutine), for executions of any length and any interleaving, with `Shutdown` called at any
  moment, clients connecting / sending / disconnecting at any moment, connect hooks succeeding or
  failing, handlers returning or waiting for their context. Per connection, what reader and writer
  do (they end once the owner has closed the stream, whatever the client does) is `Kmip.C08`.
  The Go scheduler, the listener, real timers and goroutine reclamation are observed by the harness
  engine `lts.server` on the real server, which also checks that what it observes is a behaviour of
  this model.
-/
import KmipModel.Model.Server
import KmipModel.Gen.CertServer
import KmipModel.Lemmas.LtsLemmas
namespace Kmip.C16
open Kmip.Lts Kmip.Server

theorem server_cert :
    closedUnder (sys current) coding Gen.certServer = true ∧
    safeOn coding Gen.certServer (bad current) = true :=
  cert_of_ok (by decide +kernel) Gen.certServer_ok

theorem server_closed : closedUnder (sys current) coding Gen.certServer = true := server_cert.1

theorem server_safe : ∀ x, Reachable (sys current) x → bad current x = false :=
  safe_of_cert server_closed server_cert.2

/-- once `Shutdown` has returned: the listener is closed; the accept loop has ended with the
    shutdown error or can only end so; both contexts are cancelled; no request is in flight (no
    handler is running, no response is being sent); no owner goroutine is alive (so none can start
    a handler); the WaitGroup is at zero; the timer is not pending. -/
theorem after_shutdown : ∀ x, Reachable (sys current) x → x.s = .returned →
    x.lClosed = true ∧ acceptEnds x = true ∧ x.recvCtx = true ∧ x.srvCtx = true ∧
    x.c0.inFlight = false ∧ x.c1.inFlight = false ∧ x.c0.alive = false ∧ x.c1.alive = false ∧
    x.wg = .w0 ∧ x.tm ≠ .armed := by
  intro x hr hs
  have h := (bad_parts (server_safe x hr)).2.1
  have hret : returned x = true := by simp [returned, SPc.is, hs, SPc.toNat]
  simp only [afterShutdownBad, hret, Bool.true_and, Bool.or_eq_false_iff] at h
  obtain ⟨⟨⟨⟨⟨⟨⟨⟨⟨h1, h2⟩, h3⟩, h4⟩, h5⟩, h6⟩, h7⟩, h8⟩, h9⟩, h10⟩ := h
  refine ⟨by simpa using h1, by simpa using h2, by simpa using h4, by simpa using h3, h5, h6, h7, h8,
    ?_, ?_⟩
  · cases hw : x.wg <;> simp [hw, Wg.toNat] at h9 ⊢
  · intro ht; simp [Tm.is, ht, Tm.toNat] at h10

/-- what becomes of a request in flight (its handler has been started), in the model — the three
    ways a connection leaves each in-flight state are exactly these:
    * handler running: it returns its response (`hRet`, → the response is being sent) or settles to
      wait for its context (`hSlow`); nothing else — in particular `Shutdown` (the receive context)
      does not interrupt it;
    * response being sent: it is written (`sent`: the request is ANSWERED), or the client has gone,
      or `send` is aborted through the server context; the receive context plays no role;
    * handler waiting for its context: cancelled through the server context, or the client has
      gone.
    This is the shape of the model (what `lts.server` ties to the code: the count of responses the
    clients receive is part of every compared outcome, and the oracle `in-flight-unanswered` states it
    on the real server); `drained` below is what is PROVED about it. -/
theorem in_flight_steps (p : Params) (x : State) (c o : Conn) :
    (c.pc = .busy → ∀ e ∈ conn p x c o, e.1 = .hRet ∨ e.1 = .hSlow) ∧
    (c.pc = .sending → ∀ e ∈ conn p x c o, e.1 = .sent ∨ e.1 = .gone ∨ e.1 = .sendAborted) ∧
    (c.pc = .busySlow → ∀ e ∈ conn p x c o, e.1 = .hCancelled ∨ e.1 = .gone) := by
  refine ⟨?_, ?_, ?_⟩ <;> intro hpc e he <;> simp only [conn, hpc] at he
  · simp only [cBusy, List.mem_cons, List.mem_nil_iff, or_false] at he
    rcases he with rfl | rfl <;> simp
  · simp only [cSending, List.mem_append, List.mem_cons, List.mem_nil_iff, or_false] at he
    rcases he with (rfl | rfl) | he
    · simp
    · simp
    · cases hb : x.srvCtx <;> simp [hb] at he
      rw [he]; simp
  · simp only [cBusySlow, List.mem_append, List.mem_cons, List.mem_nil_iff, or_false] at he
    rcases he with he | rfl
    · cases hb : x.srvCtx <;> simp [hb] at he
      rw [he]; simp
    · simp

/-- in-flight requests are drained: at every moment of every execution,
    (1) nothing forbidden has happened: the WaitGroup never went negative, no terminate hook ran
        twice, no waiting handler was cancelled and no response abandoned through the server context
        before the grace timer fired;
    (2) while a request is in flight that only the server context can end (a handler waiting for its
        context, a response that `send` is delivering), the server context is NOT cancelled unless the
        grace timer has fired — `Shutdown`'s own final cancel never hits a request in flight;
    (3) once `Shutdown` has returned no request is in flight any more.
    With `in_flight_steps`: every request that was in flight when `Shutdown` was called has, when it
    returns, completed and been answered, or lost its client, or been cancelled after the grace period. -/
theorem drained : ∀ x, Reachable (sys current) x →
    x.fault = .none ∧
    (∀ c, (c = x.c0 ∨ c = x.c1) → (c.pc = .busySlow ∨ c.pc = .sending) → x.srvCtx = true →
      x.tm = .fired) ∧
    (x.s = .returned → ∀ c, (c = x.c0 ∨ c = x.c1) →
      c.pc ≠ .busy ∧ c.pc ≠ .busySlow ∧ c.pc ≠ .sending) := by
  intro x hr
  have hp := bad_parts (server_safe x hr)
  refine ⟨?_, ?_, ?_⟩
  · have h := hp.1
    cases hf : x.fault <;> simp [Fault.is, Fault.toNat, hf] at h ⊢
  · intro c hc hpc hs
    have hg := hp.2.2.2.2.2.2.1
    simp only [graceBad, hs, Bool.true_and, Bool.and_eq_false_iff, Bool.not_eq_false',
      Bool.or_eq_false_iff] at hg
    rcases hg with hg | hg
    · cases ht : x.tm <;> simp [Tm.is, Tm.toNat, ht] at hg ⊢
    · exfalso
      rcases hc with rfl | rfl <;> rcases hpc with h | h <;>
        simp [Conn.cancellable, CPc.is, CPc.toNat, h] at hg
  · intro hs c hc
    have ha := after_shutdown x hr hs
    have : c.inFlight = false := by rcases hc with rfl | rfl; exact ha.2.2.2.2.1; exact ha.2.2.2.2.2.1
    cases hpc : c.pc <;> simp [Conn.inFlight, CPc.is, CPc.toNat, hpc] at this ⊢

/-- the property's clause "after shutdown returns … all per-connection goroutines have ended":
    every connection slot is free / refused / ended (owner, reader AND writer gone). -/
def C16_full (p : Params) : Prop :=
  ∀ x, Reachable (sys p) x → x.s = .returned → x.c0.quiet = true ∧ x.c1.quiet = true

/-- … holds of the current code (since aa935a6 `conn.Close` waits for readloop and writeloop before
    the owner goroutine calls `wg.Done`, so `Shutdown`'s `Wait` covers them). -/
theorem goroutines_ended_after_shutdown : C16_full current := by
  intro x hr hs
  have h := (bad_parts (server_safe x hr)).2.2.2.2.2.2.2
  have hret : returned x = true := by simp [returned, SPc.is, hs, SPc.toNat]
  simpa [rwLateBad, current, hret] using h

/-- every quiescent state after `Shutdown` has returned (nothing the server can do by itself is
    left) has the accept loop ended with the shutdown error (and, as at every moment after the
    return, all goroutines of all connections ended). -/
theorem goroutines_end : ∀ x, Reachable (sys current) x → x.s = .returned →
    quiescent current x = true →
    x.c0.quiet = true ∧ x.c1.quiet = true ∧ x.a = .endShutdown := by
  intro x hr hs hq
  have h := (bad_parts (server_safe x hr)).2.2.1
  have hret : returned x = true := by simp [returned, SPc.is, hs, SPc.toNat]
  simp only [goroutinesBad, hret, hq, Bool.true_and, Bool.not_eq_false', Bool.and_eq_true] at h
  refine ⟨h.1.1, h.1.2, ?_⟩
  have ha := h.2
  cases hx : x.a <;> simp [APc.is, APc.toNat, hx] at ha ⊢

/-! ### the repaired defect (aa935a6), exhibited by the same model under the OLD parameter -/

/-- before aa935a6 the owner goroutine ran `stream.Close()` — which did not wait for the reader and
    writer goroutines — and then `wg.Done()`; `Shutdown` passed its `Wait` and returned while reader /
    writer were still on their way out (`winding`). The engine `lts.server` states the same on the real
    server (oracle `rw-alive-at-return`, outcome field `rwlate`). -/
theorem old_close_did_not_wait :
    ∃ x, Reachable (sys beforeCloseWaits) x ∧
      (returned x && (x.c0.pc.is .winding || x.c1.pc.is .winding)) = true :=
  exists_reachable_of_follow (sys beforeCloseWaits) [0, 0, 0, 0, 1, 1, 1, 1, 1, 1, 3, 2, 2, 1, 1, 1] _
    (by decide +kernel)

theorem old_C16_full_false : ¬ C16_full beforeCloseWaits := by
  intro h
  obtain ⟨x, hr, hx⟩ := old_close_did_not_wait
  simp only [Bool.and_eq_true, Bool.or_eq_true] at hx
  have hs : x.s = .returned := by
    have := hx.1
    cases hxs : x.s <;> simp [returned, SPc.is, SPc.toNat, hxs] at this ⊢
  have hq := h x hr hs
  rcases hx.2 with h0 | h1
  · have := hq.1
    cases hpc : x.c0.pc <;> simp [Conn.quiet, CPc.is, CPc.toNat, hpc] at this h0
  · have := hq.2
    cases hpc : x.c1.pc <;> simp [Conn.quiet, CPc.is, CPc.toNat, hpc] at this h1

/-- hook pairing, for each connection and at all times: the terminate hook has run at most once
    (`drained`), only if the connect hook succeeded, not before the connection's last handler has
    ended (never while it is started / idle / handling / sending / leaving), and exactly once when the
    owner goroutine has run its deferred calls (closing / winding / finishing / ended) after a successful connect hook
    — never for a connection whose connect hook failed or that was refused. -/
theorem hooks_paired : ∀ x, Reachable (sys current) x → ∀ c, (c = x.c0 ∨ c = x.c1) →
    (c.termRan = true → c.hookOk = true) ∧
    (c.termRan = true → c.pc = .closing ∨ c.pc = .winding ∨ c.pc = .finishing ∨ c.pc = .ended) ∧
    ((c.pc = .closing ∨ c.pc = .winding ∨ c.pc = .finishing ∨ c.pc = .ended) → c.termRan = c.hookOk) ∧
    (c.pc = .refused → c.hookOk = false ∧ c.termRan = false) := by
  intro x hr c hc
  have hp := bad_parts (server_safe x hr)
  have h : c.hooksBad = false := by
    rcases hc with rfl | rfl
    · exact hp.2.2.2.1
    · exact hp.2.2.2.2.1
  simp only [Conn.hooksBad, Bool.or_eq_false_iff, Bool.and_eq_false_iff] at h
  cases hpc : c.pc <;> cases ht : c.termRan <;> cases hk : c.hookOk <;>
    simp [CPc.is, CPc.toNat, hpc, ht, hk] at h ⊢

/-- the WaitGroup counts exactly the owner goroutines that are registered and have not called
    `Done` — in particular a connection is registered BEFORE `Shutdown` can pass its `Wait`. -/
theorem wg_exact : ∀ x, Reachable (sys current) x → x.wg.toNat = wgExpected x := by
  intro x hr
  exact Nat.eq_of_beq_eq_true (bad_parts (server_safe x hr)).2.2.2.2.2.1

/-- isolation (hand-proved, for every state and EVERY parameter valuation): a step of one connection
    leaves the other connection exactly as it was, in one of the two (sorted) slots. Connections
    interact only through `wg` and the shared monotone contexts; reader / writer level isolation
    for ANY number of connections is `Kmip.C08.isolation`. -/
theorem conn_isolated (p : Params) (x : State) :
    (∀ e ∈ conn p x x.c0 x.c1, e.2.c0 = x.c1 ∨ e.2.c1 = x.c1) ∧
    (∀ e ∈ conn p x x.c1 x.c0, e.2.c0 = x.c0 ∨ e.2.c1 = x.c0) :=
  ⟨Server.conn_isolated p x x.c0 x.c1 (Or.inr rfl), Server.conn_isolated p x x.c1 x.c0 (Or.inl rfl)⟩

/-- a connection that is blocked — its handler never returns, its client does not read the response
    it is being sent — takes nothing away from the other one: which steps the other connection can
    take, and what they do to everything the connections share (the WaitGroup, the fault flag; the
    contexts, the lock, the listener and the timer are not written by connections at all), does not
    depend on the neighbour's state (`conn` reads the neighbour only to put it back into its slot:
    `conn_isolated`). The model has no server-wide resource that a connection could hold; THAT this
    is true of the code is what the `iso` jobs of `lts.srv` check (a blocked connection's neighbours
    must be accepted and served). -/
theorem blocked_neighbour_takes_nothing (p : Params) (x : State) (c o o' : Conn) :
    (conn p x c o).map shared = (conn p x c o').map shared :=
  conn_shared_indep p x c o o'

/-- … and such a situation exists: one connection's handler waits for its context (it will for
    ever: nobody has called `Shutdown`) while the other one has been served and has ended. -/
example : ∃ x, Reachable (sys current) x ∧
    (x.s.is .idle && (x.c0.pc.is .busySlow || x.c1.pc.is .busySlow) &&
      ((x.c0.pc.is .ended && x.c0.termRan) || (x.c1.pc.is .ended && x.c1.termRan))) = true :=
  exists_reachable_of_follow (sys current) [0, 0, 0, 0, 0, 0, 0, 0, 1, 1, 1, 2, 2, 2, 2, 2] _ (by decide +kernel)

/-! ### the repaired defect, exhibited by the same model under the OLD parameter -/

/-- before 267c9a5 (`wg.Add` after `Accept`, unordered with `Shutdown`): `Accept` hands out a
    connection; `Shutdown` runs to completion (the counter is still 0, `Wait` returns) and returns;
    THEN the accept loop registers the connection and starts its goroutine: an owner goroutine (its
    connect hook, its handlers' prologue) runs after `Shutdown` has returned. -/
theorem old_add_after_wait :
    ∃ x, Reachable (sys oldAddAfterWait) x ∧ (returned x && (x.c0.alive || x.c1.alive)) = true :=
  exists_reachable_of_follow (sys oldAddAfterWait) [0, 1, 1, 1, 1, 1, 0, 0, 1, 1] _ (by decide +kernel)

/-- … and then `Shutdown`'s final cancel does hit a request in flight: a response is abandoned (or a
    waiting handler cancelled) although the grace timer never fired — clause (2) of `drained` is not
    a property of the model's shape, it depends on the registration protocol. -/
theorem old_add_cancels_in_flight :
    ∃ x, Reachable (sys oldAddAfterWait) x ∧ (x.fault.is .lostEarly || x.fault.is .cancelEarly) = true :=
  exists_reachable_of_follow (sys oldAddAfterWait) [0, 1, 1, 1, 1, 1, 0, 0, 1, 1, 1, 1, 1, 3] _
    (by decide +kernel)

/-! ### non-vacuity -/

/-- `Shutdown` does return in the model with two served connections whose terminate hooks have run,
    after the grace timer had to fire (a handler was waiting for its context). -/
example : ∃ x, Reachable (sys current) x ∧
    (returned x && x.c0.termRan && x.c1.termRan && x.tm.is .fired) = true :=
  exists_reachable_of_follow (sys current)
    [0, 0, 0, 0, 0, 0, 0, 0, 0, 0, 0, 0, 1, 1, 1, 1, 1, 2, 2, 1, 1, 1, 1, 1, 1, 1, 1, 1] _ (by decide +kernel)

/-- clause (2) of `drained` is not vacuous: `Shutdown` is waiting (receive context cancelled) while a
    response is being sent, … -/
example : ∃ x, Reachable (sys current) x ∧
    (x.s.is .wait && x.recvCtx && (x.c0.pc.is .sending || x.c1.pc.is .sending)) = true :=
  exists_reachable_of_follow (sys current) [0, 0, 0, 0, 1, 1, 1, 1, 1, 1, 2, 2, 2] _ (by decide +kernel)

/-- … and a response can still be in `send` when the grace timer fires (a client that does not read). -/
example : ∃ x, Reachable (sys current) x ∧
    (x.tm.is .fired && (x.c0.pc.is .sending || x.c1.pc.is .sending)) = true :=
  exists_reachable_of_follow (sys current) [0, 0, 0, 0, 1, 1, 1, 1, 1, 1, 1, 1, 1, 1] _ (by decide +kernel)

end Kmip.C16
