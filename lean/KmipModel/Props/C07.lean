/-
  C07 — stream framing is independent of how the transport chunks bytes.

  `recv` (model of `ttlv.Stream.Recv`) run against an adversarial transport that decides the size of
  every `Read` returns exactly the first frame and leaves exactly the following bytes on the wire;
  truncated streams never yield a message; oversized announcements are rejected after at most the
  8 header bytes and without growing the buffer; the buffer never exceeds the configured limit.
-/
import KmipModel.Lemmas.StreamLemmas
namespace Kmip.C07
open Kmip

/-- 1a. Every progressive, error-free schedule (any chunk sizes ≥ 1) — the receiver returns exactly
    the first frame `m`, leaves exactly `rest` on the wire (never a byte of the next message), and
    the unread part of the schedule is still progressive and error-free. -/
theorem recv_exact (max : Nat) (m rest : Bytes) (sched : List ReadEv)
    (hm : Framed m) (hmax : max = 0 ∨ m.length ≤ max) (hp : Progressive sched)
    (he : ∀ ev ∈ sched, ev.withErr = false) :
    ∃ sched', (recv max { wire := m ++ rest, sched := sched }).res = .msg m ∧
      (recv max { wire := m ++ rest, sched := sched }).t = { wire := rest, sched := sched' } ∧
      Progressive sched' ∧ (∀ ev ∈ sched', ev.withErr = false) := by
  obtain ⟨pre, s', c', hs, hr⟩ := recv_exact_gen max m rest sched hm hmax hp
    (ErrOnlyAtEnd_of_errFree _ _ _ he)
  exact ⟨s', by rw [hr], by rw [hr], Progressive_of_suffix hs hp, ErrFree_of_suffix hs he⟩

/-- 1b. The same when reads may be flagged with an error (data and `io.EOF` returned by the same
    `Read`), provided every flagged read is one that completes the frame (`ErrOnlyAtEnd`, the byte
    accounting of the schedule against a frame of `m.length` bytes): data is accounted for before
    the error, the result is still `.msg m`. -/
theorem recv_exact_data_with_err (max : Nat) (m rest : Bytes) (sched : List ReadEv)
    (hm : Framed m) (hmax : max = 0 ∨ m.length ≤ max) (hp : Progressive sched)
    (he : ErrOnlyAtEnd m.length 0 sched) :
    ∃ sched', (recv max { wire := m ++ rest, sched := sched }).res = .msg m ∧
      (recv max { wire := m ++ rest, sched := sched }).t = { wire := rest, sched := sched' } ∧
      Progressive sched' := by
  obtain ⟨pre, s', c', hs, hr⟩ := recv_exact_gen max m rest sched hm hmax hp he
  exact ⟨s', by rw [hr], by rw [hr], Progressive_of_suffix hs hp⟩

/-- 1c. The typical instance of 1b: the header arrives in one read, the whole body in a second read
    that is flagged with an error (`e` arbitrary). -/
theorem recv_exact_body_with_eof (max : Nat) (m rest : Bytes) (k1 k2 : Nat) (e : Bool)
    (post : List ReadEv) (hm : Framed m) (hmax : max = 0 ∨ m.length ≤ max)
    (hk1 : 8 ≤ k1) (hk2 : m.length - 8 ≤ k2)
    (hp : Progressive (⟨k1, false⟩ :: ⟨k2, e⟩ :: post)) :
    (recv max { wire := m ++ rest, sched := ⟨k1, false⟩ :: ⟨k2, e⟩ :: post }).res = .msg m ∧
    (recv max { wire := m ++ rest, sched := ⟨k1, false⟩ :: ⟨k2, e⟩ :: post }).t.wire = rest := by
  have h8 := hm.1
  have he : ErrOnlyAtEnd m.length 0 (⟨k1, false⟩ :: ⟨k2, e⟩ :: post) := by
    unfold ErrOnlyAtEnd
    refine Or.inr ⟨rfl, ?_⟩
    unfold ErrOnlyAtEnd
    refine Or.inl ?_
    dsimp only
    have h1 : 0 + min k1 ((if 0 < 8 then 8 else m.length) - 0) = 8 := by
      rw [if_pos (by decide)]; omega
    rw [h1, if_neg (by omega)]
    omega
  obtain ⟨pre, s', c', _, hr⟩ := recv_exact_gen max m rest _ hm hmax hp he
  rw [hr]; exact ⟨rfl, rfl⟩

/-- 1d. Exhausted schedule (every read delivers all that is requested) — an instance of 1a. -/
theorem recv_exact_unscheduled (max : Nat) (m rest : Bytes)
    (hm : Framed m) (hmax : max = 0 ∨ m.length ≤ max) :
    (recv max { wire := m ++ rest, sched := [] }).res = .msg m ∧
    (recv max { wire := m ++ rest, sched := [] }).t.wire = rest := by
  obtain ⟨s', h1, h2, _⟩ := recv_exact max m rest [] hm hmax (fun _ h => nomatch h)
    (fun _ h => nomatch h)
  exact ⟨h1, by rw [h2]⟩

/-- 2. A sequence of frames is received completely, in order, and nothing else is consumed. -/
theorem recvAll_exact (max : Nat) (ms : List Bytes) (rest : Bytes) (sched : List ReadEv)
    (hms : ∀ m ∈ ms, Framed m ∧ (max = 0 ∨ m.length ≤ max)) (hp : Progressive sched)
    (he : ∀ ev ∈ sched, ev.withErr = false) :
    ∃ sched', recvAll max ms.length { wire := ms.flatten ++ rest, sched := sched }
        = (ms, .fuel, { wire := rest, sched := sched' }) ∧ Progressive sched' := by
  obtain ⟨s', h, hp', _⟩ := recvAll_exact_aux max rest ms sched hms hp he
  exact ⟨s', h, hp'⟩

/-- 3. A stream that ends inside a message never yields a message — for every schedule (progressive
    or not, with or without errors) and every limit. -/
theorem recv_truncated (max : Nat) (m : Bytes) (k : Nat) (sched : List ReadEv)
    (hm : Framed m) (hk : k < m.length) :
    ∀ bs, (recv max { wire := m.take k, sched := sched }).res ≠ .msg bs := by
  refine recvLoop_never_msg max m hm _ _ [] 8 512 ⟨m.drop k, ?_, ?_⟩
  · intro h
    have := congrArg List.length h
    simp only [List.length_drop, List.length_nil] at this
    omega
  · simp

/-- 4a. An announcement larger than the limit is rejected having consumed at most the 8 header
    bytes and without growing the receive buffer. -/
theorem recv_too_big (max : Nat) (hmax : 0 < max) (w : Bytes) (sched : List ReadEv)
    (hp : Progressive sched) (hlen : 8 ≤ w.length) (hbig : max < computeNeededBytes (w.take 8)) :
    (∀ bs, (recv max { wire := w, sched := sched }).res ≠ .msg bs) ∧
    ((recv max { wire := w, sched := sched }).res = .tooBig ∨
      (recv max { wire := w, sched := sched }).res = .ioErr) ∧
    w.length - (recv max { wire := w, sched := sched }).t.wire.length ≤ 8 ∧
    (recv max { wire := w, sched := sched }).cap = 512 := by
  have := recvLoop_too_big max hmax w hlen hbig (w.length + sched.length + 2) [] w sched rfl
    (by decide) (by simp only [List.length_nil]; omega) hp
  refine ⟨fun bs h => ?_, this.1, this.2.1, this.2.2.1⟩
  rcases this.1 with h' | h' <;> · unfold recv at h; rw [h'] at h; cases h

/-- 4b. With an error-free schedule the result is `.tooBig`; when the limit is at least the header
    size exactly the 8 header bytes have been consumed. (For `max < 8` the header is rejected
    even earlier: `need = 8 > max` after the first read.) -/
theorem recv_too_big_clean (max : Nat) (hmax : 0 < max) (w : Bytes) (sched : List ReadEv)
    (hp : Progressive sched) (he : ∀ ev ∈ sched, ev.withErr = false) (hlen : 8 ≤ w.length)
    (hbig : max < computeNeededBytes (w.take 8)) :
    (recv max { wire := w, sched := sched }).res = .tooBig ∧
    (8 ≤ max → w.length - (recv max { wire := w, sched := sched }).t.wire.length = 8) := by
  have := recvLoop_too_big max hmax w hlen hbig (w.length + sched.length + 2) [] w sched rfl
    (by decide) (by simp only [List.length_nil]; omega) hp
  exact this.2.2.2 he

/-- 5. With a limit configured the receive buffer never grows beyond `max(512, limit)`, whatever
    the transport delivers. -/
theorem recv_cap_bound (max : Nat) (hmax : 0 < max) (t : Transport) :
    (recv max t).cap ≤ Nat.max 512 max := by
  have h1 : max ≤ Nat.max 512 max := Nat.le_max_right _ _
  have h2 : 512 ≤ Nat.max 512 max := Nat.le_max_left _ _
  exact recvLoop_cap_bound max _ hmax h1 _ t [] 8 512 (by omega) h2

/-! ### non-vacuity -/

/-- the 16 bytes of an Integer item (tag 0x42000A, value 1). -/
def intFrame : Bytes := [0x42, 0x00, 0x0A, 0x02, 0, 0, 0, 4, 0, 0, 0, 1, 0, 0, 0, 0]

example : Framed intFrame := by unfold Framed; decide

/-- chunks of 1, 3, 100 (capped by the request), 2, 100, 7 bytes. -/
def schedClean : List ReadEv :=
  [⟨1, false⟩, ⟨3, false⟩, ⟨100, false⟩, ⟨2, false⟩, ⟨100, false⟩, ⟨7, false⟩]

/-- the same chunks, the read that completes the frame is flagged with an error. -/
def schedEof : List ReadEv :=
  [⟨1, false⟩, ⟨3, false⟩, ⟨100, false⟩, ⟨2, false⟩, ⟨100, true⟩, ⟨7, false⟩]

example : Progressive schedClean ∧ (∀ ev ∈ schedClean, ev.withErr = false) := by
  unfold Progressive schedClean; decide

example : Progressive schedEof ∧ ErrOnlyAtEnd intFrame.length 0 schedEof := by
  unfold Progressive schedEof; simp [ErrOnlyAtEnd, intFrame]

example : (recv 0 { wire := intFrame ++ [1, 2, 3], sched := schedClean }).res = .msg intFrame := by
  decide

/-- the last read of the frame is flagged with an error: still a message, the tail is untouched. -/
example : (recv 0 { wire := intFrame ++ [1, 2, 3], sched := schedEof }).res = .msg intFrame ∧
    (recv 0 { wire := intFrame ++ [1, 2, 3], sched := schedEof }).t.wire = [1, 2, 3] := by
  decide

/-- an error flagged on a read that leaves the frame incomplete is reported (why 1a/1b need their
    hypothesis on flagged reads). -/
example : (recv 0 { wire := intFrame, sched := [⟨8, false⟩, ⟨3, true⟩] }).res = .ioErr := by decide

/-- a truncated frame: the final read on the empty wire returns `(0, io.EOF)`. -/
example : (recv 0 { wire := intFrame.take 12, sched := [⟨5, false⟩] }).res = .ioErr := by decide

/-- an oversized announcement under a limit of 8 bytes. -/
example : (recv 8 { wire := intFrame, sched := [⟨5, false⟩] }).res = .tooBig ∧
    (recv 8 { wire := intFrame, sched := [⟨5, false⟩] }).t.wire.length = 8 := by decide

end Kmip.C07
