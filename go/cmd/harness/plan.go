package main

import (
	"bytes"
	"encoding/hex"
	"fmt"
	"reflect"
	"runtime"
	"strconv"
	"math/big"
	"strings"
	"sync"
	"time"

	kmip "github.com/ovh/kmip-go"
	"github.com/ovh/kmip-go/payloads"
	"github.com/ovh/kmip-go/ttlv"

	"verifharness/internal/model"
	"verifharness/internal/report"
	"verifharness/internal/schema"
	"verifharness/internal/tree"
)

var (
	schemaOnce sync.Once
	theSchema  *schema.Schema
	dynTypes   map[int]reflect.Type // dyn id -> Go type
)

func getSchema() *schema.Schema {
	schemaOnce.Do(func() {
		theSchema = schema.Build()
		dynTypes = map[int]reflect.Type{}
		reg := func(t reflect.Type) {
			if id, ok := theSchema.LookupDyn(t); ok {
				dynTypes[id] = t
			}
		}
		reg(reflect.TypeFor[*kmip.RequestMessage]())
		reg(reflect.TypeFor[*kmip.ResponseMessage]())
		reg(reflect.TypeFor[ttlv.Value]())
		reg(reflect.TypeFor[*kmip.UnknownPayload]())
		for _, op := range kmip.VerifDumpOperations() {
			reg(reflect.PointerTo(op.Request))
			reg(reflect.PointerTo(op.Response))
		}
		for _, o := range theSchema.Objects {
			obj, _ := kmip.NewObjectForType(kmip.ObjectType(o.ObjectType))
			reg(reflect.TypeOf(obj))
		}
		for _, a := range kmip.VerifDumpAttrTypes() {
			reg(a.Type)
		}
	})
	return theSchema
}

// normContent normalises a rendered value for "equal in content": nil and empty byte strings are the same.
func normContent(s string) string {
	return strings.ReplaceAll(s, "yn", "y-")
}

func init() {
	register(&Engine{
		Name: "plan",
		Rule: "KMIP request/response messages and standalone payloads, objects and attribute values built from the library's Go types by a reflective, schema-directed populator (every registered operation x direction, unknown operations, all object types, all key formats, all attribute names incl. custom/unknown, credentials, message extensions; fill levels required-only / random subset / everything; protocol versions 1.0-1.4 and odd ones), their binary encodings, and structural mutations of those encodings decoded into the typed targets; distinct = distinct protocol line; nontrivial = all",
		Run:  runPlan,
	})
}

type planTarget struct {
	dyn int
	ty  reflect.Type // pointer-to-struct type (or value type for attribute values)
	tag int          // 0: the type's default tag (MarshalTTLV/UnmarshalTTLV); else explicit (TagAny)
}

// marshalGuard runs ttlv.MarshalTTLV (or Encoder.TagAny with an explicit tag) under recover.
func marshalGuard(x any, tag int) (string, []byte) {
	b, p := guard("MarshalTTLV", func() []byte {
		if tag == 0 {
			return ttlv.MarshalTTLV(x)
		}
		enc := ttlv.NewTTLVEncoder()
		enc.TagAny(tag, x)
		return enc.Bytes()
	})
	if p != "" {
		return "panic", nil
	}
	return "ok " + hexUp(b), b
}

// unmarshalInto decodes b into a fresh value of the dyn's type and renders it.
func unmarshalInto(s *schema.Schema, tg planTarget, b []byte) (string, any) {
	type out struct {
		s   string
		v   any
		err error
	}
	r, p := guard("UnmarshalTTLV", func() out {
		var ptr reflect.Value
		if tg.ty.Kind() == reflect.Pointer {
			ptr = reflect.New(tg.ty.Elem())
		} else {
			ptr = reflect.New(tg.ty)
		}
		if tg.tag == 0 {
			if err := ttlv.UnmarshalTTLV(b, ptr.Interface()); err != nil {
				return out{err: err}
			}
		} else {
			dec, err := ttlv.NewTTLVDecoder(b)
			if err != nil {
				return out{err: err}
			}
			if err := dec.TagAny(tg.tag, ptr.Interface()); err != nil {
				return out{err: err}
			}
		}
		var val reflect.Value
		if tg.ty.Kind() == reflect.Pointer {
			val = ptr
		} else {
			val = ptr.Elem()
		}
		str, err := s.Render(val, s.Dyns[tg.dyn].Kind)
		if err != nil {
			return out{err: fmt.Errorf("harness render: %w", err), s: "unrenderable"}
		}
		return out{s: str, v: ptr.Interface()}
	})
	if p != "" {
		return "panic", nil
	}
	if r.err != nil {
		if r.s == "unrenderable" {
			return "ok unrenderable " + r.err.Error(), nil
		}
		return "err", nil
	}
	return "ok " + r.s, r.v
}

// planCase: one generated value: encode correspondence, decode correspondence, C01 oracle.
func planCase(ctx *Ctx, s *schema.Schema, tg planTarget, x reflect.Value, conforming bool) []byte {
	val, err := s.Render(x, s.Dyns[tg.dyn].Kind)
	if err != nil {
		ctx.Res.Fail("render: " + err.Error())
		return nil
	}
	line := fmt.Sprintf("plan.enc %d %d %s", tg.dyn, tg.tag, val)
	ctx.current = line
	var arg any
	if tg.ty.Kind() == reflect.Pointer {
		arg = x.Interface()
	} else {
		arg = x.Interface()
	}
	impl, b := marshalGuard(arg, tg.tag)
	// C01 speaks about well-formed messages: the encoding of a value that is NOT well-formed at its own version
	// (the ungated C05 messages) is C05's, C03's and C06's business, not a C01 alarm
	encProps := "C01,C03,C05,C06,C14"
	if !conforming {
		encProps = "C03,C05,C06,C14"
	}
	ctx.Add(line, impl, true, encProps)
	if b != nil {
		planEncoderHygiene(ctx, s, tg, x, val, b, conforming, line)
		// ---- C03 oracle on typed output (KMIP messages, payloads, objects, attribute values; bit masks only
		// exist here): the independent strict parser accepts the bytes, and the library's generic decoder reads
		// the same tree from them.
		if tr, err := tree.Decode(b); err != nil {
			ctx.Res.Violate(report.Violation{Property: "C03", Oracle: "independent-parse", Key: "plan:not-wellformed:" + err.Error(), Detail: "independent parser rejects the encoding of a " + s.Dyns[tg.dyn].GoType + ": " + err.Error() + " bytes=" + hexUp(b[:min(len(b), 4096)]), Line: line})
		} else {
			ctx.Res.Count("plan.enc.strict-ok")
			if g, _ := decodeGeneric(append([]byte{}, b...)); g != "ok "+tr.Render() {
				ctx.Res.Violate(report.Violation{Property: "C03", Oracle: "converse", Key: "plan:wellformed-differs", Detail: "the generic decoder does not read the typed encoding as the tree the independent parser reads", Line: line})
			}
		}
	}
	if b == nil {
		if conforming {
			ctx.Res.Violate(report.Violation{Property: "C01", Oracle: "encoder-total", Key: "plan:encoder-panic", Detail: "MarshalTTLV panicked on a conforming value", Line: line})
		}
		return nil
	}
	dline := fmt.Sprintf("plan.dec %d %d %s", tg.dyn, tg.tag, hexUp(b))
	inbuf := append([]byte{}, b...)
	dimpl, back := unmarshalInto(s, tg, inbuf)
	if back != nil {
		// the decoded message does not share memory with the buffer it was decoded from (a transport re-uses its
		// read buffer for the next message): overwrite the buffer, render the message again
		for i := range inbuf {
			inbuf[i] = 0xA5
		}
		if again, err := renderBack(s, tg, back); err != nil || "ok "+again != dimpl {
			ctx.Res.Violate(report.Violation{Property: "C01", Oracle: "decoded-value-detached", Key: "plan:decoded-aliases-input:" + s.Dyns[tg.dyn].GoType, Detail: "the decoded message changes when the input buffer is overwritten after UnmarshalTTLV returned: " + firstDiff(dimpl, "ok "+again), Line: line})
		}
	}
	dprops := "C01,C02,C06"
	if back != nil {
		dprops += ",C18"
	}
	ctx.Add(dline, dimpl, true, dprops)
	if !conforming {
		return b
	}
	// the hypothesis of the C01 theorem, evaluated by the model on this very value: what the populator calls a
	// well-formed message must satisfy `Conforms` (a value `Conforms` silently excludes shows up as "ok 0").
	ctx.Add(fmt.Sprintf("plan.conforms %d %d %s", tg.dyn, tg.tag, val), "ok 1", true, "C01")
	// ---- C01 oracle on the real code (no model involved) ----
	switch {
	case dimpl == "panic":
		ctx.Res.Violate(report.Violation{Property: "C01", Oracle: "roundtrip", Key: "plan:decode-panic", Detail: "decoding the library's own encoding panicked", Line: line})
	case dimpl == "err":
		ctx.Res.Violate(report.Violation{Property: "C01", Oracle: "roundtrip", Key: "plan:decode-error:" + s.Dyns[tg.dyn].GoType, Detail: "the library cannot decode its own encoding", Line: line})
	default:
		if back != nil {
			c06Walk(ctx, dline, reflect.ValueOf(back), 0)
		}
		got := strings.TrimPrefix(dimpl, "ok ")
		if normContent(got) != normContent(val) {
			ctx.Res.Violate(report.Violation{Property: "C01", Oracle: "roundtrip", Key: "plan:content-differs:" + s.Dyns[tg.dyn].GoType, Detail: "decoded value differs from the original: " + firstDiff(normContent(val), normContent(got)), Line: line})
		} else if back != nil {
			re, rb := marshalGuard(back, tg.tag)
			if re == "panic" || !bytes.Equal(rb, b) {
				ctx.Res.Violate(report.Violation{Property: "C01", Oracle: "reencode-identical", Key: "plan:reencode-differs:" + s.Dyns[tg.dyn].GoType, Detail: "re-encoding the decoded message does not give the identical bytes", Line: line})
			}
			planEntryPoints(ctx, s, tg, x, b, got, line)
			everyItemMatters(ctx, s, tg, b, got, line)
		}
	}
	return b
}

// planReusedEncoder lives for the whole run: every value of the run is also encoded through it after Clear(), so
// that whatever an encoder keeps between messages (buffer, protocol version of the previous header) meets every
// kind of next message (other version, no header at all).
var planReusedEncoder = ttlv.NewTTLVEncoder()

// renderBack renders a value returned by unmarshalInto.
func renderBack(s *schema.Schema, tg planTarget, back any) (string, error) {
	v := reflect.ValueOf(back)
	if tg.ty.Kind() != reflect.Pointer {
		v = v.Elem()
	}
	return s.Render(v, s.Dyns[tg.dyn].Kind)
}

// planEncoderHygiene: three facts about ENCODING that the byte comparison with the model cannot see, stated on the
// real code: the encoder leaves the message it is handed as it is; the bytes it returned stay as they are when
// the library is called again; a cleared, re-used encoder gives the bytes a fresh one gives.
func planEncoderHygiene(ctx *Ctx, s *schema.Schema, tg planTarget, x reflect.Value, val string, b []byte, conforming bool, line string) {
	// (rendered under recover: a big.Int whose words were scribbled on may not even print)
	if after, pr := guard("render", func() string {
		r, err := s.Render(x, s.Dyns[tg.dyn].Kind)
		if err != nil {
			return "unrenderable: " + err.Error()
		}
		return r
	}); pr != "" || after != val {
		ctx.Res.Violate(report.Violation{Property: "C01", Oracle: "encoder-input-unmodified", Key: "plan:input-modified:" + s.Dyns[tg.dyn].GoType, Detail: "MarshalTTLV modified the message it was handed: " + firstDiff(val, after) + " " + pr, Line: line})
	}
	keep := append([]byte{}, b...)
	reuse, p := guard("Encoder reuse", func() []byte {
		planReusedEncoder.Clear()
		if tg.tag == 0 {
			planReusedEncoder.Any(x.Interface())
		} else {
			planReusedEncoder.TagAny(tg.tag, x.Interface())
		}
		return append([]byte{}, planReusedEncoder.Bytes()...)
	})
	guard("MarshalTTLV (later call)", func() []byte {
		return ttlv.MarshalTTLV(ttlv.Value{Tag: 0x42000F, Value: ttlv.Struct{{Tag: 0x420008, Value: bytes.Repeat([]byte{0xEE}, min(len(b), 1<<16)+8)}}})
	})
	if !bytes.Equal(b, keep) {
		ctx.Res.Violate(report.Violation{Property: "C01", Oracle: "returned-bytes-stable", Key: "plan:returned-bytes-overwritten", Detail: "the byte slice returned by MarshalTTLV was overwritten by a later call into the library (the encoding of the message is no longer what the caller holds)", Line: line})
		copy(b, keep)
	}
	ctx.Res.Count("plan.reused-encoder")
	if conforming && (p != "" || !bytes.Equal(reuse, keep)) {
		ctx.Res.Violate(report.Violation{Property: "C01", Oracle: "reused-encoder", Key: "plan:reused-encoder-differs:" + s.Dyns[tg.dyn].GoType, Detail: fmt.Sprintf("a cleared, re-used Encoder does not give the bytes of a fresh one (state kept across Clear): %d bytes instead of %d %s", len(reuse), len(keep), p), Line: line})
	}
}

// planEntryPoints: the other public ways to run the same codec give the same result: MarshalTTLV on the struct
// VALUE (not a pointer), Encoder.Any / TagAny on a cleared encoder, NewTTLVDecoder + Decoder.Any.
func planEntryPoints(ctx *Ctx, s *schema.Schema, tg planTarget, x reflect.Value, b []byte, rendered string, line string) {
	bad := func(what, detail string) {
		ctx.Res.Violate(report.Violation{Property: "C01", Oracle: "entry-points", Key: "plan:entry-point-differs:" + what, Detail: what + ": " + detail, Line: line})
	}
	if tg.tag == 0 && x.Kind() == reflect.Pointer && x.Elem().Kind() == reflect.Struct {
		got, p := guard("MarshalTTLV(value)", func() []byte { return ttlv.MarshalTTLV(x.Elem().Interface()) })
		if p != "" || !bytes.Equal(got, b) {
			bad("MarshalTTLV on the struct value", "differs from MarshalTTLV on the pointer "+p)
		}
		ctx.Res.Count("plan.entry.by-value")
	}
	got, p := guard("Encoder.Any", func() []byte {
		e := ttlv.NewTTLVEncoder()
		e.Integer(0x420001, 1) // earlier content, then Clear
		e.Clear()
		if tg.tag == 0 {
			e.Any(x.Interface())
		} else {
			e.TagAny(tg.tag, x.Interface())
		}
		return append([]byte{}, e.Bytes()...)
	})
	if p != "" || !bytes.Equal(got, b) {
		bad("Encoder.Any after Clear", "differs from MarshalTTLV "+p)
	}
	if tg.tag == 0 {
		type out struct {
			s   string
			err error
		}
		r, p := guard("Decoder.Any", func() out {
			var ptr reflect.Value
			if tg.ty.Kind() == reflect.Pointer {
				ptr = reflect.New(tg.ty.Elem())
			} else {
				ptr = reflect.New(tg.ty)
			}
			dec, err := ttlv.NewTTLVDecoder(append([]byte{}, b...))
			if err != nil {
				return out{err: err}
			}
			if err := dec.Any(ptr.Interface()); err != nil {
				return out{err: err}
			}
			val := ptr
			if tg.ty.Kind() != reflect.Pointer {
				val = ptr.Elem()
			}
			str, err := s.Render(val, s.Dyns[tg.dyn].Kind)
			return out{str, err}
		})
		if p != "" || r.err != nil || r.s != rendered {
			bad("NewTTLVDecoder+Decoder.Any", fmt.Sprintf("differs from UnmarshalTTLV %s %v", p, r.err))
		}
		ctx.Res.Count("plan.entry.decoder-any")
	}
}

// everyItemMatters: "the encoding carries exactly the elements populated … nothing added": removing any single
// item of the encoding (at any depth) must change what the library decodes (or make it fail). An element the
// encoder adds but the decoder does not read back — which the decode/re-encode comparison cannot see, because
// the decoder drops unread trailing children silently — is exactly an item whose removal changes nothing.
// Leaf items holding the zero value of their type are exempt (an optional element explicitly present with its
// zero value, e.g. ResultReason 0 of a failed item, decodes like its absence).
func everyItemMatters(ctx *Ctx, s *schema.Schema, tg planTarget, b []byte, decoded string, line string) {
	if len(b) > 1<<15 {
		return
	}
	type span struct{ off, end int }
	var spans []span
	var parents [][]int // offsets of the enclosing structures' length fields
	var walk func(off, end int, up []int)
	walk = func(off, end int, up []int) {
		for off+8 <= end {
			l := int(b[off+4])<<24 | int(b[off+5])<<16 | int(b[off+6])<<8 | int(b[off+7])
			pl := (l + 7) / 8 * 8
			if off+8+pl > end {
				return
			}
			zero := b[off+3] != 1
			for _, x := range b[off+8 : off+8+l] {
				if x != 0 {
					zero = false
				}
			}
			if len(up) > 0 && !zero {
				spans = append(spans, span{off, off + 8 + pl})
				parents = append(parents, up)
			}
			if b[off+3] == 1 {
				walk(off+8, off+8+l, append(append([]int{}, up...), off+4))
			}
			off += 8 + pl
		}
	}
	walk(0, len(b), nil)
	if len(spans) > 400 {
		return
	}
	ctx.Res.Count("plan.every-item-matters")
	for i, sp := range spans {
		m := append(append([]byte{}, b[:sp.off]...), b[sp.end:]...)
		for _, lo := range parents[i] {
			l := int(m[lo])<<24 | int(m[lo+1])<<16 | int(m[lo+2])<<8 | int(m[lo+3])
			l -= sp.end - sp.off
			m[lo], m[lo+1], m[lo+2], m[lo+3] = byte(l>>24), byte(l>>16), byte(l>>8), byte(l)
		}
		got, _ := unmarshalInto(s, tg, m)
		if got == "ok "+decoded {
			tag := int(b[sp.off])<<16 | int(b[sp.off+1])<<8 | int(b[sp.off+2])
			ctx.Res.Violate(report.Violation{Property: "C01", Oracle: "every-item-matters", Key: fmt.Sprintf("plan:item-without-content:%s:%06X", s.Dyns[tg.dyn].GoType, tag),
				Detail: fmt.Sprintf("the encoding contains an item (tag %06X, type %d, at offset %d) whose removal does not change the decoded message: an element was added that is not content of the message, or the decoder ignores it", tag, b[sp.off+3], sp.off), Line: line})
			return
		}
	}
}

// planSizeWitnesses: size classes reached by construction, not by chance: long batches, long attribute lists,
// 70000-byte strings and key material, 65536-bit and negative big integers in transparent keys.
func planSizeWitnesses(ctx *Ctx, s *schema.Schema, reqT, respT planTarget, note func(string)) {
	r := ctx.R
	hdr := func(m int32, n int) kmip.RequestHeader {
		return kmip.RequestHeader{ProtocolVersion: kmip.ProtocolVersion{ProtocolVersionMajor: 1, ProtocolVersionMinor: m}, BatchCount: int32(n)}
	}
	rhdr := func(m int32, n int) kmip.ResponseHeader {
		return kmip.ResponseHeader{ProtocolVersion: kmip.ProtocolVersion{ProtocolVersionMajor: 1, ProtocolVersionMinor: m}, BatchCount: int32(n), TimeStamp: time.Unix(1700000000, 0)}
	}
	long := func(n int) string {
		b := make([]byte, n)
		for i := range b {
			b[i] = byte('a' + (i*7+n)%26)
		}
		return string(b)
	}
	pow := func(bits uint, d int64) *big.Int {
		v := new(big.Int).Lsh(big.NewInt(1), bits)
		return v.Add(v, big.NewInt(d))
	}
	batches := []int{16, 17, 64, 200, 255, 1100}
	if ctx.Thor {
		batches = append(batches, 5000, 20000)
	}
	for _, n := range batches {
		// long request batch: Get / Locate-with-attributes alternating
		req := &kmip.RequestMessage{Header: hdr(int32(n%5), n)}
		for i := 0; i < n; i++ {
			var pl kmip.OperationPayload = &payloads.GetRequestPayload{UniqueIdentifier: fmt.Sprintf("id-%d", i)}
			if i%2 == 1 {
				pl = &payloads.DestroyRequestPayload{UniqueIdentifier: long(i % 40)}
			}
			req.BatchItem = append(req.BatchItem, kmip.RequestBatchItem{Operation: pl.Operation(), UniqueBatchItemID: []byte{byte(i >> 8), byte(i)}, RequestPayload: pl})
		}
		planCase(ctx, s, reqT, reflect.ValueOf(req), true)
		note("batch.req." + lenBucket(n))
		resp := &kmip.ResponseMessage{Header: rhdr(int32(n%5), n)}
		for i := 0; i < n; i++ {
			bi := kmip.ResponseBatchItem{Operation: kmip.OperationDestroy, UniqueBatchItemID: []byte{byte(i >> 8), byte(i)}, ResponsePayload: &payloads.DestroyResponsePayload{UniqueIdentifier: fmt.Sprintf("id-%d", i)}}
			if i%3 == 2 {
				bi = kmip.ResponseBatchItem{Operation: kmip.OperationGet, ResultStatus: kmip.ResultStatusOperationFailed, ResultReason: kmip.ResultReasonItemNotFound, ResultMessage: long(i % 50)}
			}
			resp.BatchItem = append(resp.BatchItem, bi)
		}
		planCase(ctx, s, respT, reflect.ValueOf(resp), true)
		note("batch.resp." + lenBucket(n))
	}
	for _, n := range []int{299, 300, 4095, 4096, 8192, 65535, 65536, 70000} {
		// long text and byte strings in typed fields, long raw key material
		req := &kmip.RequestMessage{Header: hdr(2, 1), BatchItem: []kmip.RequestBatchItem{{Operation: kmip.OperationGet, UniqueBatchItemID: r.Bytes(n), RequestPayload: &payloads.GetRequestPayload{UniqueIdentifier: long(n)}}}}
		planCase(ctx, s, reqT, reflect.ValueOf(req), true)
		note("text." + sizeBucket(n))
		note("bytes." + sizeBucket(n))
		raw := r.Bytes(n + 1)
		sd := &kmip.SecretData{SecretDataType: kmip.SecretDataTypePassword, KeyBlock: kmip.KeyBlock{KeyFormatType: kmip.KeyFormatTypeRaw,
			KeyValue: &kmip.KeyValue{Plain: &kmip.PlainKeyValue{KeyMaterial: kmip.KeyMaterial{Bytes: &raw}}}}}
		resp := &kmip.ResponseMessage{Header: rhdr(4, 1), BatchItem: []kmip.ResponseBatchItem{{Operation: kmip.OperationGet,
			ResponsePayload: &payloads.GetResponsePayload{ObjectType: kmip.ObjectTypeSecretData, UniqueIdentifier: long(n - 1), Object: sd}}}}
		planCase(ctx, s, respT, reflect.ValueOf(resp), true)
		note("bytes." + sizeBucket(n+1))
	}
	for _, bits := range []uint{255, 256, 2047, 2048, 4095, 4096, 16384, 65535, 65536} {
		// transparent RSA key: modulus at the boundary, negative and sign-boundary components
		key := &kmip.TransparentRSAPrivateKey{Modulus: *pow(bits, -1), PrivateExponent: new(big.Int).Neg(pow(bits-1, 0)),
			PublicExponent: big.NewInt(65537), P: pow(bits/2, 1), Q: new(big.Int).Neg(pow(bits/2, -1)), CRTCoefficient: big.NewInt(-1)}
		pk := &kmip.PrivateKey{KeyBlock: kmip.KeyBlock{KeyFormatType: kmip.KeyFormatTypeTransparentRSAPrivateKey, CryptographicAlgorithm: kmip.CryptographicAlgorithmRSA, CryptographicLength: int32(bits),
			KeyValue: &kmip.KeyValue{Plain: &kmip.PlainKeyValue{KeyMaterial: kmip.KeyMaterial{TransparentRSAPrivateKey: key}}}}}
		req := &kmip.RequestMessage{Header: hdr(int32(bits%5), 1), BatchItem: []kmip.RequestBatchItem{{Operation: kmip.OperationRegister,
			RequestPayload: &payloads.RegisterRequestPayload{ObjectType: kmip.ObjectTypePrivateKey, Object: pk}}}}
		planCase(ctx, s, reqT, reflect.ValueOf(req), true)
		note("big.bits." + sizeBucket(int(bits)))
		note("big.negative")
	}
	for _, n := range []int{16, 17, 150} {
		// long attribute lists (slice of a hand-decoded struct inside a reflective one)
		var attrs []kmip.Attribute
		for i := 0; i < n; i++ {
			idx := int32(i)
			attrs = append(attrs, kmip.Attribute{AttributeName: kmip.AttributeNameName, AttributeIndex: &idx,
				AttributeValue: kmip.Name{NameValue: fmt.Sprintf("n%d", i), NameType: kmip.NameTypeUninterpretedTextString}})
		}
		req := &kmip.RequestMessage{Header: hdr(3, 1), BatchItem: []kmip.RequestBatchItem{{Operation: kmip.OperationLocate, RequestPayload: &payloads.LocateRequestPayload{Attribute: attrs}}}}
		planCase(ctx, s, reqT, reflect.ValueOf(req), true)
		note("slice." + lenBucket(n))
	}
}

// planCoverageFloors: the claim "every registered operation / object type / key format / attribute name /
// credential type, every size class" is checked against what the populator actually produced in this run
// (names from the live registries); a class below its floor fails the run instead of passing silently.
func planCoverageFloors(ctx *Ctx, s *schema.Schema) {
	d := ctx.Res.Distribution
	var missed []string
	need := func(key string, floor int) {
		if d["cov."+key] < floor {
			missed = append(missed, fmt.Sprintf("%s=%d<%d", key, d["cov."+key], floor))
		}
	}
	for _, op := range s.Ops {
		need(fmt.Sprintf("op.req.%d", op.Op), 3)
		need(fmt.Sprintf("op.resp.%d", op.Op), 3)
	}
	need("op.req.unknown", 3)
	need("op.resp.unknown", 3)
	need("resp.failed", 10)
	need("msgext.req", 10)
	need("msgext.resp", 10)
	for _, o := range s.Objects {
		need(fmt.Sprintf("object.%d", o.ObjectType), 3)
	}
	for _, kf := range keyFormats {
		need(fmt.Sprintf("keyfmt.plain.%d", uint32(kf)), 2)
	}
	need("keyfmt.wrapped", 3)
	need("keyfmt.no-value", 2)
	for _, a := range s.Attrs {
		need("attr.name."+a.Name, 2)
	}
	need("attr.custom", 3)
	need("attr.unknown", 3)
	need("attr.index", 5)
	for c := 1; c <= 3; c++ {
		need(fmt.Sprintf("credential.%d", c), 2)
	}
	for m := 0; m <= 4; m++ {
		need(fmt.Sprintf("ver.1.%d", m), 10)
	}
	need("ver.other", 5)
	for _, dir := range []string{"req", "resp"} {
		for _, bk := range []string{"1-3", "4-16", "17+"} {
			need("batch."+dir+"."+bk, 2)
		}
	}
	need("batch.req.0", 2)
	need("slice.4-16", 20)
	need("slice.17+", 5)
	need("text.300-4095", 3)
	need("text.4096+", 2)
	need("bytes.300-4095", 3)
	need("bytes.4096+", 2)
	need("big.bits.300-4095", 3)
	need("big.bits.4096+", 1)
	need("big.negative", 5)
	need("import.objtype.first", 1)
	need("import.objtype.middle", 1)
	need("text.invalid-utf8", 3)
	need("date.extreme", 3)
	for id := range dynTypes {
		if dynTypes[id] != reflect.TypeFor[ttlv.Value]() {
			need("standalone."+s.Dyns[id].GoType, 1)
		}
	}
	if len(missed) > 0 {
		sortStrings(missed)
		ctx.Res.Fail("plan: coverage floors missed (the generator no longer reaches these input classes): " + strings.Join(missed, " "))
	}
}

func sortStrings(a []string) {
	for i := 1; i < len(a); i++ {
		for j := i; j > 0 && a[j] < a[j-1]; j-- {
			a[j], a[j-1] = a[j-1], a[j]
		}
	}
}

func firstDiff(a, b string) string {
	i := 0
	for i < len(a) && i < len(b) && a[i] == b[i] {
		i++
	}
	lo := max(0, i-40)
	return fmt.Sprintf("at %d: want …%s got …%s", i, a[lo:min(len(a), i+60)], b[lo:min(len(b), i+60)])
}

// planDecCase: decode arbitrary bytes into a typed target: correspondence + C02 oracle.
func planDecCase(ctx *Ctx, s *schema.Schema, tg planTarget, b []byte, origin string) {
	line := fmt.Sprintf("plan.dec %d %d %s", tg.dyn, tg.tag, hexUp(b))
	ctx.current = line
	in := append([]byte{}, b...)
	impl, back := unmarshalInto(s, tg, in)
	if back != nil {
		c06Walk(ctx, line, reflect.ValueOf(back), 0)
		// ---- C18 (binary): whatever is accepted re-encodes to a fixed point ----
		r1, b1 := marshalGuard(back, tg.tag)
		if r1 == "panic" {
			ctx.Res.Violate(report.Violation{Property: "C18", Oracle: "reencode-total", Key: "ttlv:accepted-but-unencodable:" + s.Dyns[tg.dyn].GoType, Detail: "an accepted binary input cannot be re-encoded (encoder panics)", Line: line})
		} else {
			d2, back2 := unmarshalInto(s, tg, append([]byte{}, b1...))
			if back2 == nil {
				ctx.Res.Violate(report.Violation{Property: "C18", Oracle: "redecode", Key: "ttlv:reencoded-not-accepted:" + s.Dyns[tg.dyn].GoType, Detail: "the re-encoding of an accepted input is rejected: " + d2, Line: line})
			} else if _, b2 := marshalGuard(back2, tg.tag); !bytes.Equal(b1, b2) {
				ctx.Res.Violate(report.Violation{Property: "C18", Oracle: "fixed-point", Key: "ttlv:second-reencode-differs:" + s.Dyns[tg.dyn].GoType, Detail: "the second re-encoding differs from the first", Line: line})
			}
		}
		// … and through the two text encodings in every order, whenever the strings and dates of the value are
		// representable there (fix.go: same fixed point reached by binary→XML→JSON→binary and every other order)
		fixOracle(ctx, line, tg, s.Dyns[tg.dyn].GoType, 0, back)
	}
	if impl == "panic" {
		ctx.Res.Violate(report.Violation{Property: "C02", Oracle: "no-panic", Key: "plan:decode-panic:" + s.Dyns[tg.dyn].GoType, Detail: "typed decoder panicked", Line: line})
	}
	if !bytes.Equal(in, b) {
		ctx.Res.Violate(report.Violation{Property: "C02", Oracle: "input-unmodified", Key: "plan:input-modified", Detail: "typed decoder modified its input", Line: line})
	}
	again, _ := unmarshalInto(s, tg, in)
	if again != impl {
		ctx.Res.Violate(report.Violation{Property: "C02", Oracle: "deterministic", Key: "plan:second-decode-differs", Detail: "second decode differs", Line: line})
	}
	big := make([]byte, len(b)+32)
	copy(big, b)
	for i := len(b); i < len(big); i++ {
		big[i] = 0x42
	}
	if over, _ := unmarshalInto(s, tg, big[:len(b)]); over != impl {
		ctx.Res.Violate(report.Violation{Property: "C02", Oracle: "no-over-read", Key: "plan:reads-beyond-input", Detail: "result depends on bytes beyond the input", Line: line})
	}
	// only an ACCEPTED input is C18-relevant: a decoder that rejects more than the model does leaves every fixed
	// point alone (the disagreement is then C02's to explain); an ACCEPTED decode also carries the dynamic type of
	// every interface value (rendered dyn ids): a difference with the model there breaks the tie C06 relies on
	props := "C02"
	if back != nil {
		props = "C02,C18,C06"
	}
	ctx.Add(line, impl, true, props)
	ctx.Res.Count("plan.dec." + origin + "." + strings.SplitN(impl, " ", 2)[0])
}

func runPlan(ctx *Ctx) {
	// plan.enc / plan.dec / plan.conforms are answered by pure functions of the line: the model side (3/4 of the
	// engine's time) is spread over several model processes
	model.Workers = max(1, min(4, runtime.NumCPU()/2))
	s := getSchema()
	if len(s.Problems) > 0 {
		ctx.Res.Fail("schema extraction problems: " + strings.Join(s.Problems, "; "))
	}
	if len(ctx.Replay) > 0 {
		for _, l := range ctx.Replay {
			f := strings.SplitN(l, " ", 4)
			if len(f) != 4 {
				continue
			}
			d, _ := strconv.Atoi(f[1])
			tagv, _ := strconv.Atoi(f[2])
			f[2] = f[3]
			tg := planTarget{d, dynTypes[d], tagv}
			if tg.ty == nil {
				continue
			}
			switch f[0] {
			case "plan.dec":
				if f[2] == "-" {
					f[2] = ""
				}
				if b, err := hex.DecodeString(f[2]); err == nil {
					planDecCase(ctx, s, tg, b, "replay")
				}
			case "plan.enc":
				// values are replayed through their encoding produced by the model; see check.py
			}
		}
		return
	}
	r := ctx.R
	reqT := planTarget{s.Roots["RequestMessage"], reflect.TypeFor[*kmip.RequestMessage](), 0}
	respT := planTarget{s.Roots["ResponseMessage"], reflect.TypeFor[*kmip.ResponseMessage](), 0}
	n := ctx.N(600, 20000)
	cyc := &cycler{}
	note := func(k string) { ctx.Res.Count("cov." + k) }
	for i := 0; i < n; i++ {
		tg := reqT
		if i%2 == 1 {
			tg = respT
		}
		p := &popCfg{r: r, s: s, fill: i % 3, respectGating: true, cyc: cyc, note: note, wideVersions: true}
		// sizes: 1 in 4 messages medium (batches/slices up to 16, strings to 300 bytes, 4096-bit integers),
		// 1 in 15 large (batches/slices 17..200, strings to 70000 bytes, 65536-bit integers)
		switch {
		case i%30 == 13 || i%30 == 28:
			p.size, p.budget, p.fill = 2, 600, 1+i%2
		case i%8 == 3 || i%8 == 6:
			p.size, p.budget = 1, 0
		}
		x := reflect.New(tg.ty.Elem())
		p.populate(x.Elem())
		b := planCase(ctx, s, tg, x, true)
		ctx.Res.Count(fmt.Sprintf("plan.msg.fill=%d", p.fill))
		ctx.Res.Count(fmt.Sprintf("plan.msg.size=%d", p.size))
		ctx.Res.Count("plan.msg.bytes." + sizeBucket(len(b)))
		if b != nil && i%2 == 0 {
			for _, m := range mutate(r, b) {
				planDecCase(ctx, s, tg, m, "mutated")
			}
		}
	}
	planSizeWitnesses(ctx, s, reqT, respT, note)
	// C05: messages whose version-dependent fields are populated WHATEVER the header's version (the encoder must
	// drop them), at versions inside and outside 1.0-1.4 (negative components included). They are not
	// well-formed at their own version, so only the encode/decode correspondence applies (no round-trip oracle).
	oddVers := []kmip.ProtocolVersion{{ProtocolVersionMajor: 0, ProtocolVersionMinor: 0}, {ProtocolVersionMajor: 0, ProtocolVersionMinor: 9},
		{ProtocolVersionMajor: 1, ProtocolVersionMinor: 0}, {ProtocolVersionMajor: 1, ProtocolVersionMinor: 1}, {ProtocolVersionMajor: 1, ProtocolVersionMinor: 2},
		{ProtocolVersionMajor: 1, ProtocolVersionMinor: 3}, {ProtocolVersionMajor: 1, ProtocolVersionMinor: 4}, {ProtocolVersionMajor: 1, ProtocolVersionMinor: 5},
		{ProtocolVersionMajor: 1, ProtocolVersionMinor: 10}, {ProtocolVersionMajor: 2, ProtocolVersionMinor: 0}, {ProtocolVersionMajor: 2, ProtocolVersionMinor: 1},
		{ProtocolVersionMajor: 3, ProtocolVersionMinor: 3}, {ProtocolVersionMajor: -1, ProtocolVersionMinor: 3}, {ProtocolVersionMajor: 1, ProtocolVersionMinor: -1},
		{ProtocolVersionMajor: -2147483648, ProtocolVersionMinor: 2147483647}, {ProtocolVersionMajor: 2147483647, ProtocolVersionMinor: -2147483648}}
	nUngated := ctx.N(160, 4000)
	for i := 0; i < nUngated; i++ {
		tg := reqT
		if i%2 == 1 {
			tg = respT
		}
		fv := oddVers[(i/2)%len(oddVers)]
		seq := i / 2
		p := &popCfg{r: r, s: s, fill: 1 + i%2, respectGating: false, forceVer: &fv, opSeq: &seq}
		x := reflect.New(tg.ty.Elem())
		p.populate(x.Elem())
		planCase(ctx, s, tg, x, false)
		ctx.Res.Count("plan.msg.ungated")
	}
	// every registered dynamic type standalone (payloads, objects, attribute values)
	per := ctx.N(6, 120)
	for id, ty := range dynTypes {
		_ = id
		_ = ty
	}
	ids := make([]int, 0, len(dynTypes))
	for id := range dynTypes {
		ids = append(ids, id)
	}
	sortInts(ids)
	for _, id := range ids {
		ty := dynTypes[id]
		if ty == reflect.TypeFor[ttlv.Value]() {
			continue
		}
		tg := planTarget{id, ty, 0}
		if s.Dyns[id].DefTag == 0 {
			// payload types have no tag of their own: they only ever travel under an explicit tag
			tg.tag = kmip.TagRequestPayload
			for _, op := range s.Ops {
				if op.RespDyn == id {
					tg.tag = kmip.TagResponsePayload
				}
			}
			if ty.Kind() != reflect.Pointer {
				tg.tag = kmip.TagAttributeValue
			}
		}
		ctx.Res.Count("cov.standalone." + s.Dyns[id].GoType)
		for k := 0; k < per; k++ {
			p := &popCfg{r: r, s: s, fill: k % 3, respectGating: true, cyc: cyc, note: note}
			if k%6 == 4 {
				p.size, p.budget = 1, 0
			} else if k%6 == 5 {
				p.size, p.budget, p.fill = 2, 300, 2
			}
			var x reflect.Value
			if ty.Kind() == reflect.Pointer {
				x = reflect.New(ty.Elem())
				p.populate(x.Elem())
			} else {
				px := reflect.New(ty)
				p.populate(px.Elem())
				x = px.Elem()
			}
			if ty.Kind() != reflect.Pointer && ty.Kind() != reflect.Struct {
				continue // scalar attribute values have no default tag of their own
			}
			b := planCase(ctx, s, tg, x, true)
			if b != nil && k%3 == 0 {
				for _, m := range mutate(r, b) {
					planDecCase(ctx, s, tg, m, "mutated")
				}
			}
		}
	}
	c06Adversarial(ctx, r)
	for _, b := range corpusBinary() {
		planDecCase(ctx, s, reqT, b, "corpus")
		planDecCase(ctx, s, respT, b, "corpus")
	}
	planCoverageFloors(ctx, s)
}

func sortInts(a []int) {
	for i := 1; i < len(a); i++ {
		for j := i; j > 0 && a[j] < a[j-1]; j-- {
			a[j], a[j-1] = a[j-1], a[j]
		}
	}
}
