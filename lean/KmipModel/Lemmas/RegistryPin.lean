/-
  Facts about the PINNED registry alone (`Pinned/Registry.lean`), evaluated by the kernel. They do not
  mention the regenerated tables, so lake re-checks them only when the pin (or the checkers) change, not
  when the Go registry changes. Re-exported by `Props/C17`.
-/
import KmipModel.Lemmas.RegistryLemmas
import KmipModel.Pinned.Registry
namespace Kmip.Reg
open Kmip

theorem pinned_tags_bijective : bijective Pinned.tagNames Pinned.tagByName = true := by decide +kernel

theorem pinned_enums_bijective : (Pinned.enums.all fun e => bijective e.2.1 e.2.2) = true := by
  decide +kernel

theorem pinned_masks_wellformed :
    (Pinned.masks.all fun m => maskWF m.2.1 m.2.2 && maskGapFree m.2.1 m.2.2) = true := by decide +kernel

theorem pinned_index_nodup : enumTagsNodup Pinned.enums = true ∧ maskTagsNodup Pinned.masks = true := by
  decide +kernel

theorem pinned_types_wellformed :
    typesWF Pinned.enumTypes Pinned.enumTypes Pinned.tagNames (Pinned.enums.map (·.1)) = true ∧
    typesWF Pinned.maskTypes Pinned.maskTypes Pinned.tagNames (Pinned.masks.map (·.1)) = true := by
  decide +kernel

theorem pinned_types_named :
    ((Pinned.enumTypes ++ Pinned.maskTypes).all fun p => match lookup p.2 Pinned.tagNames with
      | some n => pack ([107, 109, 105, 112, 46] ++ unpack n) == p.1
      | none => false) = true := by decide +kernel

end Kmip.Reg
