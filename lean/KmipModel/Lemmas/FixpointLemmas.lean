/-
  Helper lemmas for C18 (binary encoding, generic decoder): inversion of the reader's getters,
  every tree the generic decoder returns is representable (`Item.InRange0`) and its re-encoding is
  not longer than the input, and the generic decoder reads back the encoding of every such tree
  (root tag 0 included). Core Lean only.
-/
import KmipModel.Lemmas.ReaderLemmas
namespace Kmip

/-! ### `Res` inversion -/

theorem Res.bind_eq_ok {α β : Type} {x : Res α} {f : α → Res β} {b : β}
    (h : (x >>= f) = .ok b) : ∃ a, x = .ok a ∧ f a = .ok b := by
  cases x with
  | ok a => exact ⟨a, rfl, h⟩
  | err e => simp at h
  | panic m => simp at h

/-! ### representable trees whose ROOT may carry tag 0

`decodeValue` is entered with the root's own tag (`c.tag`), which is 0 for an accepted input whose
first three bytes are zero; children always have a non-zero tag (`decodeFields` stops at a tag-0
child). -/

def Item.InRange0 : Item → Prop
  | .struct tag cs => tag < 2 ^ 24 ∧ (encList cs).length < 2 ^ 32 ∧ Item.AllInRange cs
  | .int tag v => tag < 2 ^ 24 ∧ inInt 32 v
  | .long tag v => tag < 2 ^ 24 ∧ inInt 64 v
  | .big tag v => tag < 2 ^ 24 ∧ (encodeBig v).length < 2 ^ 32
  | .enum tag v => tag < 2 ^ 24 ∧ v < 2 ^ 32
  | .bool tag _ => tag < 2 ^ 24
  | .text tag s => tag < 2 ^ 24 ∧ s.length < 2 ^ 32
  | .bytes tag s => tag < 2 ^ 24 ∧ s.length < 2 ^ 32
  | .date tag v => tag < 2 ^ 24 ∧ inInt 64 v
  | .interval tag v => tag < 2 ^ 24 ∧ v < 2 ^ 32

theorem Item.InRange_iff0 (t : Item) : t.InRange ↔ 0 < t.tag ∧ t.InRange0 := by
  cases t <;> simp [Item.InRange, Item.InRange0, Item.tag]

theorem Item.InRange0_basic (t : Item) (h : t.InRange0) :
    t.tag < 2 ^ 24 ∧ t.body.length < 2 ^ 32 := by
  cases t with
  | struct tag cs => exact ⟨h.1, h.2.1⟩
  | int tag v => exact ⟨h.1, by simp [Item.body]⟩
  | long tag v => exact ⟨h.1, by simp [Item.body]⟩
  | big tag v => exact ⟨h.1, h.2⟩
  | enum tag v => exact ⟨h.1, by simp [Item.body]⟩
  | bool tag b => exact ⟨h, by simp [Item.body]⟩
  | text tag s => exact ⟨h.1, h.2⟩
  | bytes tag s => exact ⟨h.1, h.2⟩
  | date tag v => exact ⟨h.1, by simp [Item.body]⟩
  | interval tag v => exact ⟨h.1, by simp [Item.body]⟩

/-! ### second hop: the decoder reads back `enc t` for `t.InRange0` -/

theorem Cur.start_enc0 (t : Item) (h : t.InRange0) :
    Cur.start (enc t) = .ok { items := [t.raw], tail := none } := by
  obtain ⟨ht, hl⟩ := Item.InRange0_basic t h
  have hty := Item.ty_range t
  obtain ⟨f, hf⟩ : ∃ f, (enc t).length = f + 1 := ⟨(enc t).length - 1, by
    have := enc_length_ge t; omega⟩
  have hp := rawParse_hdr f t.tag t.ty t.body.length t.body [] ht hty.1 hty.2 hl rfl
  rw [List.append_nil, ← enc_eq_hdr_body, rawParse_nil] at hp
  unfold Cur.start
  rw [hf, hp]
  rfl

theorem decodeValue_enc0 (t : Item) (h : t.InRange0) (fuel : Nat) (hf : t.size ≤ fuel)
    (rs : List RawItem) :
    decodeValue fuel { items := t.raw :: rs, tail := none } t.tag
      = .ok (t, { items := rs, tail := none }) := by
  cases t with
  | struct tag cs =>
    rw [Item.size] at hf
    obtain ⟨f, rfl, hf'⟩ := fuel_pos (by omega : Item.sizeList cs + 1 ≤ fuel)
    have ih := decodeFields_enc_aux cs h.2.2 f hf'
    rw [decodeValue, Cur.ty_raw]
    simp [Item.ty, Item.tag, Cur.struct_raw tag cs rs h.2.2 _ cs ih]
  | int tag v =>
    simp only [Item.size] at hf
    obtain ⟨f, rfl, -⟩ := fuel_pos (by omega : 0 + 1 ≤ fuel)
    rw [decodeValue, Cur.ty_raw]
    simp [Item.ty, Item.tag, Cur.integer_raw tag v rs h.2]
  | long tag v =>
    simp only [Item.size] at hf
    obtain ⟨f, rfl, -⟩ := fuel_pos (by omega : 0 + 1 ≤ fuel)
    rw [decodeValue, Cur.ty_raw]
    simp [Item.ty, Item.tag, Cur.longInteger_raw tag v rs h.2]
  | big tag v =>
    simp only [Item.size] at hf
    obtain ⟨f, rfl, -⟩ := fuel_pos (by omega : 0 + 1 ≤ fuel)
    rw [decodeValue, Cur.ty_raw]
    simp [Item.ty, Item.tag, Cur.bigInteger_raw tag v rs]
  | enum tag v =>
    simp only [Item.size] at hf
    obtain ⟨f, rfl, -⟩ := fuel_pos (by omega : 0 + 1 ≤ fuel)
    rw [decodeValue, Cur.ty_raw]
    simp [Item.ty, Item.tag, Cur.enum_raw tag v rs h.2]
  | bool tag b =>
    simp only [Item.size] at hf
    obtain ⟨f, rfl, -⟩ := fuel_pos (by omega : 0 + 1 ≤ fuel)
    rw [decodeValue, Cur.ty_raw]
    simp [Item.ty, Item.tag, Cur.bool_raw tag b rs]
  | text tag s =>
    simp only [Item.size] at hf
    obtain ⟨f, rfl, -⟩ := fuel_pos (by omega : 0 + 1 ≤ fuel)
    rw [decodeValue, Cur.ty_raw]
    simp [Item.ty, Item.tag, Cur.textString_raw tag s rs]
  | bytes tag s =>
    simp only [Item.size] at hf
    obtain ⟨f, rfl, -⟩ := fuel_pos (by omega : 0 + 1 ≤ fuel)
    rw [decodeValue, Cur.ty_raw]
    simp [Item.ty, Item.tag, Cur.byteString_raw tag s rs]
  | date tag v =>
    simp only [Item.size] at hf
    obtain ⟨f, rfl, -⟩ := fuel_pos (by omega : 0 + 1 ≤ fuel)
    rw [decodeValue, Cur.ty_raw]
    simp [Item.ty, Item.tag, Cur.dateTime_raw tag v rs h.2]
  | interval tag v =>
    simp only [Item.size] at hf
    obtain ⟨f, rfl, -⟩ := fuel_pos (by omega : 0 + 1 ≤ fuel)
    rw [decodeValue, Cur.ty_raw]
    simp [Item.ty, Item.tag, Cur.interval_raw tag v rs h.2]

/-- the generic decoder reads back the encoding of every representable tree, root tag 0 included. -/
theorem unmarshalValue_enc0 (t : Item) (h : t.InRange0) : unmarshalValue (enc t) = .ok t := by
  have hs := size_le_length_aux t
  have hdec := decodeValue_enc0 t h ((enc t).length + 2) (by omega) []
  unfold unmarshalValue
  rw [Cur.start_enc0 t h]
  simp [Cur.tag_raw, hdec]

/-! ### inversion of the reader -/

theorem Cur.expect_inv {c : Cur} {ty tag : Nat} {it : RawItem} (h : c.expect ty tag = .ok it) :
    ∃ rs, c.items = it :: rs ∧ it.tag = tag ∧ it.ty = ty := by
  unfold Cur.expect at h
  split at h
  · cases h
  · rename_i it' rs heq
    split at h
    · cases h
    · split at h
      · cases h
      · rename_i h1 h2
        cases h
        exact ⟨rs, heq, Decidable.not_not.1 h1, Decidable.not_not.1 h2⟩

theorem Cur.next_inv {c c' : Cur} {it : RawItem} {rs : List RawItem} (hc : c.items = it :: rs)
    (h : c.next = .ok c') : c' = ⟨rs, c.tail⟩ := by
  unfold Cur.next at h
  rw [hc] at h
  simp only at h
  split at h
  · cases h
  · cases h; rfl

theorem Cur.start_inv {bs : Bytes} {c : Cur} (h : Cur.start bs = .ok c) :
    c.items = (rawParse bs.length bs).1 := by
  unfold Cur.start at h
  generalize rawParse bs.length bs = p at h ⊢
  obtain ⟨items, e⟩ := p
  simp only at h
  split at h
  · cases h
  · cases h; rfl

theorem Cur.fixed_inv {α : Type} {c : Cur} {ty tag width : Nat} {conv : Bytes → Res α} {v : α}
    {c' : Cur} (h : c.fixed ty tag width conv = .ok (v, c')) :
    ∃ it rs, c.items = it :: rs ∧ c' = ⟨rs, c.tail⟩ ∧ it.tag = tag ∧ it.ty = ty ∧
      it.val.length = width ∧ conv it.val = .ok v := by
  unfold Cur.fixed at h
  obtain ⟨it, h1, h⟩ := Res.bind_eq_ok h
  obtain ⟨rs, hc, ht, hty⟩ := Cur.expect_inv h1
  split at h
  · cases h
  · rename_i hlen
    obtain ⟨v', h2, h⟩ := Res.bind_eq_ok h
    obtain ⟨c'', h3, h⟩ := Res.bind_eq_ok h
    simp only [Res.pure_eq, Res.ok.injEq, Prod.mk.injEq] at h
    obtain ⟨rfl, rfl⟩ := h
    exact ⟨it, rs, hc, Cur.next_inv hc h3, ht, hty, Decidable.not_not.1 hlen, h2⟩

/-! ### ranges of the decoded scalars -/

theorem signedOfNat_inInt32 (n : Nat) (h : n < 2 ^ 32) : inInt 32 (signedOfNat 32 n) := by
  simp only [inInt, signedOfNat, Nat.reduceSub, Nat.reducePow] at h ⊢
  split <;> omega

theorem signedOfNat_inInt64 (n : Nat) (h : n < 2 ^ 64) : inInt 64 (signedOfNat 64 n) := by
  simp only [inInt, signedOfNat, Nat.reduceSub, Nat.reducePow] at h ⊢
  split <;> omega

theorem beVal_take_lt (v : Bytes) (k : Nat) : beVal (v.take k) < 256 ^ k := by
  have h1 := beVal_lt (v.take k)
  have h2 : 256 ^ (v.take k).length ≤ 256 ^ k :=
    Nat.pow_le_pow_right (by decide) (by rw [List.length_take]; omega)
  omega

theorem goU32_lt {v : Bytes} {n : Nat} (h : goU32 v = .ok n) : n < 2 ^ 32 := by
  unfold goU32 at h
  split at h
  · cases h
  · cases h; exact beVal_take_lt v 4

theorem goU64_lt {v : Bytes} {n : Nat} (h : goU64 v = .ok n) : n < 2 ^ 64 := by
  unfold goU64 at h
  split at h
  · cases h
  · cases h; exact beVal_take_lt v 8

/-- the canonical big-integer bytes of the value of ANY non-empty two's complement string (of any
    length, aligned or not, minimal or not) fit into that string's padded extent. -/
theorem encodeBig_twos_le_padded (val : Bytes) (hne : val ≠ []) :
    (encodeBig (twos val)).length ≤ paddedLen val.length := by
  by_cases hb : val.headD 0 < 0x80
  · have hv : twos (List.replicate (padForLen val.length 8) 0 ++ val) = twos val := by
      rw [twos_pad_zero _ _ (Or.inr hb), twos_of_head_lt val hb]
    have := encodeBig_minimal_aux (twos val) (List.replicate (padForLen val.length 8) 0 ++ val)
      (by simp [hne]) (by
        have := padForLen_mod val.length
        simp only [List.length_append, List.length_replicate]; omega) hv
    simp only [List.length_append, List.length_replicate] at this
    unfold paddedLen; omega
  · have hv : twos (List.replicate (padForLen val.length 8) 0xFF ++ val) = twos val := by
      rw [twos_pad_ff _ _ hne (Or.inr hb), twos_of_head_ge val hne hb]
    have := encodeBig_minimal_aux (twos val) (List.replicate (padForLen val.length 8) 0xFF ++ val)
      (by simp [hne]) (by
        have := padForLen_mod val.length
        simp only [List.length_append, List.length_replicate]; omega) hv
    simp only [List.length_append, List.length_replicate] at this
    unfold paddedLen; omega

/-! ### what `rawParse` yields -/

/-- a raw item whose tag fits 3 bytes and whose padded value is shorter than 4 GiB. -/
def RawItem.Small (it : RawItem) : Prop := it.tag < 2 ^ 24 ∧ paddedLen it.val.length < 2 ^ 32

/-- bytes occupied by a list of raw items. -/
def rawExtent (its : List RawItem) : Nat := (its.map fun it => 8 + paddedLen it.val.length).sum

theorem rawParse_tag_lt : ∀ (fuel : Nat) (bs : Bytes) (it : RawItem),
    it ∈ (rawParse fuel bs).1 → it.tag < 2 ^ 24 := by
  intro fuel
  induction fuel with
  | zero => intro bs it h; simp [rawParse] at h
  | succ fuel ih =>
    intro bs it h
    rw [rawParse_succ] at h
    split at h
    · simp at h
    · split at h
      · simp at h
      · split at h
        · simp at h
        · split at h
          · simp at h
          · simp only [List.mem_cons] at h
            rcases h with h | h
            · subst h
              exact beVal_take_lt bs 3
            · exact ih _ it h

theorem rawParse_small (fuel : Nat) (bs : Bytes) (hlen : bs.length < 2 ^ 32) :
    ∀ it ∈ (rawParse fuel bs).1, it.Small := by
  intro it h
  refine ⟨rawParse_tag_lt fuel bs it h, ?_⟩
  obtain ⟨pre, post, e, h1, h2⟩ := rawParse_within_aux fuel bs it h
  have := congrArg List.length e
  simp only [List.length_append] at this
  unfold paddedLen
  omega

theorem rawParse_mem_extent (fuel : Nat) (bs : Bytes) (it : RawItem)
    (h : it ∈ (rawParse fuel bs).1) : 8 + paddedLen it.val.length ≤ bs.length := by
  obtain ⟨pre, post, e, h1, h2⟩ := rawParse_within_aux fuel bs it h
  have := congrArg List.length e
  simp only [List.length_append] at this
  unfold paddedLen
  omega

theorem le_paddedLen' (l : Nat) : l ≤ paddedLen l := by unfold paddedLen; omega

/-! ### first hop: what the generic decoder returns -/

theorem enc_length_eq (t : Item) : (enc t).length = 8 + paddedLen t.body.length := by
  rw [enc_eq_hdr_body]
  simp only [List.length_append, hdr_length, List.length_replicate, paddedLen]

/-- Every tree returned by `decodeValue` is representable, carries the requested tag, consumed
    exactly the current raw item, and re-encodes into at most the bytes that item occupied. -/
theorem decode_sound (fuel : Nat) :
    (∀ (c : Cur) (tag : Nat) (t : Item) (c' : Cur), (∀ it ∈ c.items, it.Small) →
      decodeValue fuel c tag = .ok (t, c') →
      ∃ it rs, c.items = it :: rs ∧ c' = ⟨rs, c.tail⟩ ∧ t.tag = tag ∧ t.InRange0 ∧
        (enc t).length ≤ 8 + paddedLen it.val.length) ∧
    (∀ (c : Cur) (cs : List Item), (∀ it ∈ c.items, it.Small) → decodeFields fuel c = .ok cs →
      Item.AllInRange cs ∧ (encList cs).length ≤ rawExtent c.items) := by
  induction fuel with
  | zero =>
    constructor
    · intro c tag t c' _ h; rw [decodeValue] at h; cases h
    · intro c cs _ h; rw [decodeFields] at h; cases h
  | succ fuel ih =>
    constructor
    · intro c tag t c' hs h
      rw [decodeValue] at h
      split at h
      · -- Integer
        obtain ⟨⟨v, c1⟩, h1, h2⟩ := Res.bind_eq_ok h
        simp only [Res.pure_eq, Res.ok.injEq, Prod.mk.injEq] at h2
        obtain ⟨rfl, rfl⟩ := h2
        obtain ⟨it, rs, hc, hc', ht, -, hlen, hconv⟩ := Cur.fixed_inv h1
        obtain ⟨n, hn, hv⟩ := Res.bind_eq_ok hconv
        simp only [Res.pure_eq, Res.ok.injEq] at hv
        subst hv
        have hsm := hs it (by rw [hc]; simp)
        refine ⟨it, rs, hc, hc', rfl, ⟨ht ▸ hsm.1, signedOfNat_inInt32 n (goU32_lt hn)⟩, ?_⟩
        rw [enc_length_eq, hlen]; exact Nat.le_refl _
      · -- Long Integer
        obtain ⟨⟨v, c1⟩, h1, h2⟩ := Res.bind_eq_ok h
        simp only [Res.pure_eq, Res.ok.injEq, Prod.mk.injEq] at h2
        obtain ⟨rfl, rfl⟩ := h2
        obtain ⟨it, rs, hc, hc', ht, -, hlen, hconv⟩ := Cur.fixed_inv h1
        obtain ⟨n, hn, hv⟩ := Res.bind_eq_ok hconv
        simp only [Res.pure_eq, Res.ok.injEq] at hv
        subst hv
        have hsm := hs it (by rw [hc]; simp)
        refine ⟨it, rs, hc, hc', rfl, ⟨ht ▸ hsm.1, signedOfNat_inInt64 n (goU64_lt hn)⟩, ?_⟩
        rw [enc_length_eq, hlen]; exact Nat.le_refl _
      · -- Big Integer
        obtain ⟨⟨v, c1⟩, h1, h2⟩ := Res.bind_eq_ok h
        simp only [Res.pure_eq, Res.ok.injEq, Prod.mk.injEq] at h2
        obtain ⟨rfl, rfl⟩ := h2
        unfold Cur.bigInteger at h1
        obtain ⟨it, h1a, h1⟩ := Res.bind_eq_ok h1
        obtain ⟨rs, hc, ht, -⟩ := Cur.expect_inv h1a
        split at h1
        · cases h1
        · rename_i hne
          have hne' : it.val ≠ [] := by
            intro e; rw [e] at hne; exact hne rfl
          obtain ⟨v', h2, h1⟩ := Res.bind_eq_ok h1
          obtain ⟨c'', h3, h1⟩ := Res.bind_eq_ok h1
          simp only [Res.pure_eq, Res.ok.injEq, Prod.mk.injEq] at h1
          obtain ⟨rfl, rfl⟩ := h1
          unfold goBytesToBigInt at h2
          rw [if_neg hne] at h2
          simp only [Res.ok.injEq] at h2
          subst h2
          rw [bytesToBigInt_eq_twos_aux _ hne']
          have hsm := hs it (by rw [hc]; simp)
          have hle := encodeBig_twos_le_padded it.val hne'
          refine ⟨it, rs, hc, Cur.next_inv hc h3, rfl, ⟨ht ▸ hsm.1, by have := hsm.2; omega⟩, ?_⟩
          rw [enc_length_eq]
          simp only [Item.body]
          rw [show paddedLen (encodeBig (twos it.val)).length = (encodeBig (twos it.val)).length from by
            unfold paddedLen; rw [padForLen_eq_zero (encodeBig_length_mod _)]; rfl]
          omega
      · -- Boolean
        obtain ⟨⟨v, c1⟩, h1, h2⟩ := Res.bind_eq_ok h
        simp only [Res.pure_eq, Res.ok.injEq, Prod.mk.injEq] at h2
        obtain ⟨rfl, rfl⟩ := h2
        obtain ⟨it, rs, hc, hc', ht, -, hlen, hconv⟩ := Cur.fixed_inv h1
        have hsm := hs it (by rw [hc]; simp)
        refine ⟨it, rs, hc, hc', rfl, ht ▸ hsm.1, ?_⟩
        rw [enc_length_eq, hlen]; exact Nat.le_refl _
      · -- Byte String
        obtain ⟨⟨v, c1⟩, h1, h2⟩ := Res.bind_eq_ok h
        simp only [Res.pure_eq, Res.ok.injEq, Prod.mk.injEq] at h2
        obtain ⟨rfl, rfl⟩ := h2
        unfold Cur.byteString at h1
        obtain ⟨it, h1a, h1⟩ := Res.bind_eq_ok h1
        obtain ⟨rs, hc, ht, -⟩ := Cur.expect_inv h1a
        obtain ⟨c'', h3, h1⟩ := Res.bind_eq_ok h1
        simp only [Res.pure_eq, Res.ok.injEq, Prod.mk.injEq] at h1
        obtain ⟨rfl, rfl⟩ := h1
        have hsm := hs it (by rw [hc]; simp)
        have := le_paddedLen' it.val.length
        refine ⟨it, rs, hc, Cur.next_inv hc h3, rfl, ⟨ht ▸ hsm.1, by have := hsm.2; omega⟩, ?_⟩
        rw [enc_length_eq]; exact Nat.le_refl _
      · -- Date Time
        obtain ⟨⟨v, c1⟩, h1, h2⟩ := Res.bind_eq_ok h
        simp only [Res.pure_eq, Res.ok.injEq, Prod.mk.injEq] at h2
        obtain ⟨rfl, rfl⟩ := h2
        obtain ⟨it, rs, hc, hc', ht, -, hlen, hconv⟩ := Cur.fixed_inv h1
        obtain ⟨n, hn, hv⟩ := Res.bind_eq_ok hconv
        simp only [Res.pure_eq, Res.ok.injEq] at hv
        subst hv
        have hsm := hs it (by rw [hc]; simp)
        refine ⟨it, rs, hc, hc', rfl, ⟨ht ▸ hsm.1, signedOfNat_inInt64 n (goU64_lt hn)⟩, ?_⟩
        rw [enc_length_eq, hlen]; exact Nat.le_refl _
      · -- Enumeration
        obtain ⟨⟨v, c1⟩, h1, h2⟩ := Res.bind_eq_ok h
        simp only [Res.pure_eq, Res.ok.injEq, Prod.mk.injEq] at h2
        obtain ⟨rfl, rfl⟩ := h2
        obtain ⟨it, rs, hc, hc', ht, -, hlen, hconv⟩ := Cur.fixed_inv h1
        have hsm := hs it (by rw [hc]; simp)
        refine ⟨it, rs, hc, hc', rfl, ⟨ht ▸ hsm.1, goU32_lt hconv⟩, ?_⟩
        rw [enc_length_eq, hlen]; exact Nat.le_refl _
      · -- Interval
        obtain ⟨⟨v, c1⟩, h1, h2⟩ := Res.bind_eq_ok h
        simp only [Res.pure_eq, Res.ok.injEq, Prod.mk.injEq] at h2
        obtain ⟨rfl, rfl⟩ := h2
        obtain ⟨it, rs, hc, hc', ht, -, hlen, hconv⟩ := Cur.fixed_inv h1
        have hsm := hs it (by rw [hc]; simp)
        refine ⟨it, rs, hc, hc', rfl, ⟨ht ▸ hsm.1, goU32_lt hconv⟩, ?_⟩
        rw [enc_length_eq, hlen]; exact Nat.le_refl _
      · -- Text String
        obtain ⟨⟨v, c1⟩, h1, h2⟩ := Res.bind_eq_ok h
        simp only [Res.pure_eq, Res.ok.injEq, Prod.mk.injEq] at h2
        obtain ⟨rfl, rfl⟩ := h2
        unfold Cur.textString at h1
        obtain ⟨it, h1a, h1⟩ := Res.bind_eq_ok h1
        obtain ⟨rs, hc, ht, -⟩ := Cur.expect_inv h1a
        obtain ⟨c'', h3, h1⟩ := Res.bind_eq_ok h1
        simp only [Res.pure_eq, Res.ok.injEq, Prod.mk.injEq] at h1
        obtain ⟨rfl, rfl⟩ := h1
        have hsm := hs it (by rw [hc]; simp)
        have := le_paddedLen' it.val.length
        refine ⟨it, rs, hc, Cur.next_inv hc h3, rfl, ⟨ht ▸ hsm.1, by have := hsm.2; omega⟩, ?_⟩
        rw [enc_length_eq]; exact Nat.le_refl _
      · -- Structure
        obtain ⟨⟨cs, c1⟩, h1, h2⟩ := Res.bind_eq_ok h
        simp only [Res.pure_eq, Res.ok.injEq, Prod.mk.injEq] at h2
        obtain ⟨rfl, rfl⟩ := h2
        unfold Cur.struct at h1
        obtain ⟨it, h1a, h1⟩ := Res.bind_eq_ok h1
        obtain ⟨rs, hc, ht, -⟩ := Cur.expect_inv h1a
        obtain ⟨inner, h2, h1⟩ := Res.bind_eq_ok h1
        obtain ⟨cs', h3, h1⟩ := Res.bind_eq_ok h1
        obtain ⟨c'', h4, h1⟩ := Res.bind_eq_ok h1
        simp only [Res.pure_eq, Res.ok.injEq, Prod.mk.injEq] at h1
        obtain ⟨rfl, rfl⟩ := h1
        have hsm := hs it (by rw [hc]; simp)
        have hpl := le_paddedLen' it.val.length
        have hin := Cur.start_inv h2
        have hsmall : ∀ r ∈ inner.items, r.Small := by
          rw [hin]; exact rawParse_small _ _ (by have := hsm.2; omega)
        obtain ⟨hall, hlen⟩ := ih.2 inner cs' hsmall h3
        have hext : rawExtent inner.items ≤ it.val.length := by
          rw [hin]; exact rawParse_extent_aux _ _
        refine ⟨it, rs, hc, Cur.next_inv hc h4, rfl,
          ⟨ht ▸ hsm.1, by have := hsm.2; omega, hall⟩, ?_⟩
        rw [enc_length_eq]
        simp only [Item.body]
        rw [show paddedLen (encList cs').length = (encList cs').length from by
          unfold paddedLen; rw [padForLen_eq_zero (encList_length_mod _)]; rfl]
        omega
      · cases h
    · intro c cs hs h
      rw [decodeFields] at h
      split at h
      · cases h
        exact ⟨by rw [Item.AllInRange]; trivial, by rw [encList]; exact Nat.zero_le _⟩
      · rename_i htag
        obtain ⟨⟨x, c1⟩, h1, h⟩ := Res.bind_eq_ok h
        obtain ⟨xs, h2, h⟩ := Res.bind_eq_ok h
        simp only [Res.pure_eq, Res.ok.injEq] at h
        subst h
        obtain ⟨it, rs, hc, hc1, hxt, hx, hxl⟩ := ih.1 c c.tag x c1 hs h1
        have hs1 : ∀ r ∈ c1.items, r.Small := by
          intro r hr; rw [hc1] at hr; exact hs r (by rw [hc]; exact List.mem_cons_of_mem _ hr)
        obtain ⟨hall, hlen⟩ := ih.2 c1 xs hs1 h2
        refine ⟨?_, ?_⟩
        · rw [Item.AllInRange]
          exact ⟨(Item.InRange_iff0 x).2 ⟨by omega, hx⟩, hall⟩
        · rw [encList, List.length_append, hc]
          rw [hc1] at hlen
          simp only [rawExtent, List.map_cons, List.sum_cons] at hlen ⊢
          omega

/-- the top-level statement: what `unmarshalValue` accepts is representable and its canonical
    re-encoding is not longer than the input (whatever follows the root item is ignored). -/
theorem unmarshalValue_sound (bs : Bytes) (t : Item) (hlen : bs.length < 2 ^ 32)
    (h : unmarshalValue bs = .ok t) : t.InRange0 ∧ (enc t).length ≤ bs.length := by
  unfold unmarshalValue at h
  obtain ⟨c, h1, h⟩ := Res.bind_eq_ok h
  obtain ⟨⟨t', c'⟩, h2, h⟩ := Res.bind_eq_ok h
  simp only [Res.pure_eq, Res.ok.injEq] at h
  subst h
  have hin := Cur.start_inv h1
  have hs : ∀ r ∈ c.items, r.Small := by rw [hin]; exact rawParse_small _ _ hlen
  obtain ⟨it, rs, hc, -, -, hr, hl⟩ := (decode_sound _).1 c c.tag t' c' hs h2
  have hmem : it ∈ (rawParse bs.length bs).1 := by rw [← hin, hc]; simp
  have := rawParse_mem_extent _ _ _ hmem
  exact ⟨hr, by omega⟩

/-! ### the strict specification parser is simulated by the library's (lenient) decoder -/

theorem goU32_of_len (v : Bytes) (h : v.length = 4) : goU32 v = .ok (beVal v) := by
  unfold goU32
  rw [if_neg (by omega), List.take_of_length_le (by omega)]

theorem goU64_of_len (v : Bytes) (h : v.length = 8) : goU64 v = .ok (beVal v) := by
  unfold goU64
  rw [if_neg (by omega), List.take_of_length_le (by omega)]

/-- the strict boolean (`0` or `1` as a 64-bit word) and the library's `v[7] != 0` agree. -/
theorem bool_last (v : Bytes) (hl : v.length = 8) :
    ∃ b, goIndex v 7 = .ok b ∧ (beVal v = 0 → b = 0) ∧ (beVal v = 1 → b = 1) := by
  match v, hl with
  | [a, b, c, d, e, f, g, h], _ =>
    refine ⟨h, rfl, ?_, ?_⟩
    · intro hv
      rw [← UInt8.toNat_inj]
      simp [beVal] at hv
      have := h.toNat_lt
      show h.toNat = 0
      omega
    · intro hv
      rw [← UInt8.toNat_inj]
      simp [beVal] at hv
      have := h.toNat_lt
      show h.toNat = 1
      omega

theorem Cur.start_of_rawParse (val : Bytes) (its : List RawItem)
    (h : rawParse val.length val = (its, none)) : Cur.start val = .ok ⟨its, none⟩ := by
  unfold Cur.start
  rw [h]
  cases its <;> rfl

/-- the per-fuel statement for lists of items. -/
def SpecListSim (f : Nat) : Prop :=
  ∀ (bs : Bytes) (cs : List Item), specParseList f bs = some cs →
    ∃ its : List RawItem, (∀ g, its.length ≤ g → rawParse g bs = (its, none)) ∧
      its.length ≤ bs.length ∧
      (∀ f', f ≤ f' → decodeFields f' ⟨its, none⟩ = .ok cs)

/-- the per-fuel statement for one item. -/
def SpecItemSim (f : Nat) : Prop :=
  ∀ (bs : Bytes) (t : Item) (rest : Bytes), specParse f bs = some (t, rest) →
    ∃ it : RawItem, (∀ g, rawParse (g + 1) bs = (it :: (rawParse g rest).1, (rawParse g rest).2)) ∧
      it.tag = t.tag ∧ 0 < t.tag ∧ rest.length < bs.length ∧
      (∀ f', f ≤ f' → ∀ rs, decodeValue f' ⟨it :: rs, none⟩ t.tag = .ok (t, ⟨rs, none⟩))

theorem specBody_decode (f : Nat) (IH : SpecListSim f) (tag ty len : Nat) (val after : Bytes)
    (t : Item) (rest : Bytes) (hval : val.length = len)
    (h : specBody f tag ty len val after = some (t, rest)) :
    rest = after ∧ t.tag = tag ∧ 1 ≤ ty ∧ ty ≤ 10 ∧
      (∀ f', f + 1 ≤ f' → ∀ rs, decodeValue f' ⟨⟨tag, ty, val⟩ :: rs, none⟩ tag
        = .ok (t, ⟨rs, none⟩)) := by
  unfold specBody at h
  split at h
  · -- Structure
    cases hsp : specParseList f val with
    | none => simp [hsp] at h
    | some cs =>
      simp only [hsp, Option.map_some, Option.some.injEq, Prod.mk.injEq] at h
      obtain ⟨rfl, rfl⟩ := h
      obtain ⟨its, hraw, hlen, hdec⟩ := IH val cs hsp
      refine ⟨rfl, rfl, by decide, by decide, ?_⟩
      intro f' hf' rs
      obtain ⟨f'', rfl, hf''⟩ := fuel_pos hf'
      have hst := Cur.start_of_rawParse val its (hraw _ hlen)
      rw [decodeValue]
      simp [Cur.ty, Cur.struct, Cur.expect, hst, hdec f'' hf'', Cur.next_cons]
  · -- Integer
    split at h
    · rename_i hl
      simp only [Option.some.injEq, Prod.mk.injEq] at h
      obtain ⟨rfl, rfl⟩ := h
      refine ⟨rfl, rfl, by decide, by decide, ?_⟩
      intro f' hf' rs
      obtain ⟨f'', rfl, -⟩ := fuel_pos hf'
      have : Cur.integer ⟨⟨tag, 2, val⟩ :: rs, none⟩ tag
          = .ok (signedOfNat 32 (beVal val), ⟨rs, none⟩) :=
        Cur.fixed_ok ⟨tag, 2, val⟩ rs 4
          (fun v => do pure (signedOfNat 32 (← goU32 v))) (signedOfNat 32 (beVal val))
          (by rw [hval, hl]) (by simp [goU32_of_len val (by rw [hval, hl])])
      rw [decodeValue]
      simp [Cur.ty, this]
    · cases h
  · -- Long Integer
    split at h
    · rename_i hl
      simp only [Option.some.injEq, Prod.mk.injEq] at h
      obtain ⟨rfl, rfl⟩ := h
      refine ⟨rfl, rfl, by decide, by decide, ?_⟩
      intro f' hf' rs
      obtain ⟨f'', rfl, -⟩ := fuel_pos hf'
      have : Cur.longInteger ⟨⟨tag, 3, val⟩ :: rs, none⟩ tag
          = .ok (signedOfNat 64 (beVal val), ⟨rs, none⟩) :=
        Cur.fixed_ok ⟨tag, 3, val⟩ rs 8
          (fun v => do pure (signedOfNat 64 (← goU64 v))) (signedOfNat 64 (beVal val))
          (by rw [hval, hl]) (by simp [goU64_of_len val (by rw [hval, hl])])
      rw [decodeValue]
      simp [Cur.ty, this]
    · cases h
  · -- Big Integer
    split at h
    · rename_i hl
      simp only [Option.some.injEq, Prod.mk.injEq] at h
      obtain ⟨rfl, rfl⟩ := h
      refine ⟨rfl, rfl, by decide, by decide, ?_⟩
      intro f' hf' rs
      obtain ⟨f'', rfl, -⟩ := fuel_pos hf'
      have hne : val ≠ [] := by
        intro e; rw [e] at hval; simp at hval; omega
      rw [decodeValue]
      simp [Cur.ty, Cur.bigInteger, Cur.expect, hne, goBytesToBigInt,
        bytesToBigInt_eq_twos_aux val hne, Cur.next_cons]
    · cases h
  · -- Enumeration
    split at h
    · rename_i hl
      simp only [Option.some.injEq, Prod.mk.injEq] at h
      obtain ⟨rfl, rfl⟩ := h
      refine ⟨rfl, rfl, by decide, by decide, ?_⟩
      intro f' hf' rs
      obtain ⟨f'', rfl, -⟩ := fuel_pos hf'
      have : Cur.enum ⟨⟨tag, 5, val⟩ :: rs, none⟩ tag = .ok (beVal val, ⟨rs, none⟩) :=
        Cur.fixed_ok ⟨tag, 5, val⟩ rs 4 goU32 (beVal val)
          (by rw [hval, hl]) (goU32_of_len val (by rw [hval, hl]))
      rw [decodeValue]
      simp [Cur.ty, this]
    · cases h
  · -- Boolean
    split at h
    · rename_i hl
      obtain ⟨b, hb, hb0, hb1⟩ := bool_last val (by rw [hval, hl])
      have hfix : ∀ rs, Cur.bool ⟨⟨tag, 6, val⟩ :: rs, none⟩ tag
          = .ok (b != 0, ⟨rs, none⟩) := fun rs =>
        Cur.fixed_ok ⟨tag, 6, val⟩ rs 8 (fun v => do pure ((← goIndex v 7) != 0)) (b != 0)
          (by rw [hval, hl]) (by simp [hb])
      split at h
      · rename_i hv
        simp only [Option.some.injEq, Prod.mk.injEq] at h
        obtain ⟨rfl, rfl⟩ := h
        refine ⟨rfl, rfl, by decide, by decide, ?_⟩
        intro f' hf' rs
        obtain ⟨f'', rfl, -⟩ := fuel_pos hf'
        rw [decodeValue]
        simp [Cur.ty, hfix rs, hb0 hv]
      · split at h
        · rename_i hv
          simp only [Option.some.injEq, Prod.mk.injEq] at h
          obtain ⟨rfl, rfl⟩ := h
          refine ⟨rfl, rfl, by decide, by decide, ?_⟩
          intro f' hf' rs
          obtain ⟨f'', rfl, -⟩ := fuel_pos hf'
          rw [decodeValue]
          simp [Cur.ty, hfix rs, hb1 hv]
        · cases h
    · cases h
  · -- Text String
    simp only [Option.some.injEq, Prod.mk.injEq] at h
    obtain ⟨rfl, rfl⟩ := h
    refine ⟨rfl, rfl, by decide, by decide, ?_⟩
    intro f' hf' rs
    obtain ⟨f'', rfl, -⟩ := fuel_pos hf'
    rw [decodeValue]
    simp [Cur.ty, Cur.textString, Cur.expect, Cur.next_cons]
  · -- Byte String
    simp only [Option.some.injEq, Prod.mk.injEq] at h
    obtain ⟨rfl, rfl⟩ := h
    refine ⟨rfl, rfl, by decide, by decide, ?_⟩
    intro f' hf' rs
    obtain ⟨f'', rfl, -⟩ := fuel_pos hf'
    rw [decodeValue]
    simp [Cur.ty, Cur.byteString, Cur.expect, Cur.next_cons]
  · -- Date Time
    split at h
    · rename_i hl
      simp only [Option.some.injEq, Prod.mk.injEq] at h
      obtain ⟨rfl, rfl⟩ := h
      refine ⟨rfl, rfl, by decide, by decide, ?_⟩
      intro f' hf' rs
      obtain ⟨f'', rfl, -⟩ := fuel_pos hf'
      have : Cur.dateTime ⟨⟨tag, 9, val⟩ :: rs, none⟩ tag
          = .ok (signedOfNat 64 (beVal val), ⟨rs, none⟩) :=
        Cur.fixed_ok ⟨tag, 9, val⟩ rs 8
          (fun v => do pure (signedOfNat 64 (← goU64 v))) (signedOfNat 64 (beVal val))
          (by rw [hval, hl]) (by simp [goU64_of_len val (by rw [hval, hl])])
      rw [decodeValue]
      simp [Cur.ty, this]
    · cases h
  · -- Interval
    split at h
    · rename_i hl
      simp only [Option.some.injEq, Prod.mk.injEq] at h
      obtain ⟨rfl, rfl⟩ := h
      refine ⟨rfl, rfl, by decide, by decide, ?_⟩
      intro f' hf' rs
      obtain ⟨f'', rfl, -⟩ := fuel_pos hf'
      have : Cur.interval ⟨⟨tag, 10, val⟩ :: rs, none⟩ tag = .ok (beVal val, ⟨rs, none⟩) :=
        Cur.fixed_ok ⟨tag, 10, val⟩ rs 4 goU32 (beVal val)
          (by rw [hval, hl]) (goU32_of_len val (by rw [hval, hl]))
      rw [decodeValue]
      simp [Cur.ty, this]
    · cases h
  · cases h

theorem spec_sim (f : Nat) : SpecItemSim f ∧ SpecListSim f := by
  induction f with
  | zero =>
    constructor
    · intro bs t rest h; rw [specParse] at h; cases h
    · intro bs cs h; rw [specParseList] at h; cases h
  | succ f ih =>
    constructor
    · intro bs t rest h
      rw [specParse_succ] at h
      generalize hL : beVal ((bs.drop 4).take 4) = L at h
      split at h
      · cases h
      · rename_i h8
        split at h
        · cases h
        · rename_i hlen
          split at h
          · cases h
          · split at h
            · cases h
            · rename_i htag
              have hval : ((bs.drop 8).take L).length = L := by
                rw [List.length_take]; omega
              obtain ⟨hrest, ht, hty1, hty2, hdec⟩ :=
                specBody_decode f ih.2 _ _ _ _ _ t rest hval h
              have hemp : bs.isEmpty = false := by
                cases bs with
                | nil => simp at h8
                | cons _ _ => rfl
              refine ⟨⟨beVal (bs.take 3), (bs.getD 3 0).toNat, (bs.drop 8).take L⟩, ?_, ht.symm,
                by omega, ?_, ?_⟩
              · intro g
                rw [rawParse_succ, hL, hemp, hrest]
                have hpl : paddedLen L = L + padForLen L 8 := rfl
                rw [if_neg (by simp), if_neg h8,
                  if_neg (by rw [hpl]; rw [List.length_drop] at hlen; exact hlen),
                  if_neg (by omega), hpl, List.drop_drop]
              · rw [hrest]
                simp only [List.length_drop]
                omega
              · intro f' hf' rs
                rw [ht]
                exact hdec f' hf' rs
    · intro bs cs h
      rw [specParseList] at h
      split at h
      · rename_i hemp
        simp only [Option.some.injEq] at h
        subst h
        have hnil : bs = [] := by simpa using hemp
        subst hnil
        refine ⟨[], fun g _ => rawParse_nil g, Nat.le_refl _, ?_⟩
        intro f' hf'
        obtain ⟨f'', rfl, -⟩ := fuel_pos hf'
        rw [decodeFields]; rfl
      · split at h
        · cases h
        · rename_i x rest hx
          cases hxs : specParseList f rest with
          | none => simp [hxs] at h
          | some xs =>
            simp only [hxs, Option.map_some, Option.some.injEq] at h
            subst h
            obtain ⟨it, hraw, hit, hpos, hrl, hdec⟩ := ih.1 bs x rest hx
            obtain ⟨its, hraws, hlen, hdecs⟩ := ih.2 rest xs hxs
            refine ⟨it :: its, ?_, by simp only [List.length_cons]; omega, ?_⟩
            · intro g hg
              obtain ⟨g', rfl, hg'⟩ := fuel_pos (by simpa using hg : its.length + 1 ≤ g)
              rw [hraw g', hraws g' hg']
            · intro f' hf'
              obtain ⟨f'', rfl, hf''⟩ := fuel_pos hf'
              rw [decodeFields]
              have htag : Cur.tag ⟨it :: its, none⟩ = x.tag := hit
              rw [htag, if_neg (by omega), hdec f'' hf'' its]
              simp [hdecs f'' hf'']

/-- whatever the independent strict parser accepts as exactly one item, the library's decoder
    reads as the same tree. No length bound is needed. -/
theorem unmarshalValue_of_specDecode (bs : Bytes) (t : Item) (h : specDecode bs = some t) :
    unmarshalValue bs = .ok t := by
  unfold specDecode at h
  split at h
  · rename_i t' hsp
    simp only [Option.some.injEq] at h
    subst h
    obtain ⟨it, hraw, hit, hpos, hrl, hdec⟩ := (spec_sim _).1 bs t' [] hsp
    obtain ⟨g, hg⟩ : ∃ g, bs.length = g + 1 := ⟨bs.length - 1, by
      simp only [List.length_nil] at hrl; omega⟩
    have hstart : Cur.start bs = .ok ⟨[it], none⟩ := by
      apply Cur.start_of_rawParse
      rw [hg, hraw g, rawParse_nil]
    unfold unmarshalValue
    rw [hstart]
    have htag : Cur.tag ⟨[it], none⟩ = t'.tag := hit
    simp [htag, hdec (bs.length + 2) (by omega) []]
  · cases h

theorem specDecode_tag_pos (bs : Bytes) (t : Item) (h : specDecode bs = some t) : 0 < t.tag := by
  unfold specDecode at h
  split at h
  · rename_i t' hsp
    simp only [Option.some.injEq] at h
    subst h
    obtain ⟨it, -, -, hpos, -, -⟩ := (spec_sim _).1 bs t' [] hsp
    exact hpos
  · cases h

/-! ### the 4 GiB bound is needed: a big integer whose canonical form is 2^32 bytes long

`writeLength` stores `uint32(length)`. A 2^32 − 1 byte big integer `01 00 … 00` (followed by one
pad byte) is accepted; its value needs 2^32 bytes in 8-aligned two's complement form; the writer
emits the length field `00000000`, and the reader then rejects the re-encoding as an empty big
integer. Everything is proved for a symbolic `k` with `k + 2 = 2^32` (nothing is evaluated). -/

theorem Cur.start_of_rawParse_cons (bs : Bytes) (it : RawItem) (its : List RawItem)
    (e : Option Err) (h : rawParse bs.length bs = (it :: its, e)) :
    Cur.start bs = .ok ⟨it :: its, e⟩ := by
  unfold Cur.start
  rw [h]

theorem unmarshal_big_raw (tag L : Nat) (val : Bytes) (htag : tag < 2 ^ 24) (hL : L < 2 ^ 32)
    (hval : val.length = L) (hne : val ≠ []) :
    unmarshalValue (hdr tag 4 L ++ (val ++ (List.replicate (padForLen L 8) 0 ++ [])))
      = .ok (.big tag (twos val)) := by
  generalize hbs : hdr tag 4 L ++ (val ++ (List.replicate (padForLen L 8) 0 ++ [])) = bs
  obtain ⟨g, hg⟩ : ∃ g, bs.length = g + 1 := ⟨bs.length - 1, by
    rw [← hbs, List.length_append, hdr_length]; omega⟩
  have hp := rawParse_hdr g tag 4 L val [] htag (by decide) (by decide) hL hval
  rw [hbs, rawParse_nil, ← hg] at hp
  unfold unmarshalValue
  rw [Cur.start_of_rawParse_cons bs _ _ _ hp]
  simp only [Res.ok_bind]
  rw [decodeValue]
  simp [Cur.ty, Cur.tag, Cur.bigInteger, Cur.expect, hne, goBytesToBigInt,
    bytesToBigInt_eq_twos_aux val hne, Cur.next]

theorem unmarshal_empty_big (tag : Nat) (rest : Bytes) (htag : tag < 2 ^ 24) :
    unmarshalValue (hdr tag 4 0 ++ rest) = .err .badLength := by
  generalize hbs : hdr tag 4 0 ++ rest = bs
  obtain ⟨g, hg⟩ : ∃ g, bs.length = g + 1 := ⟨bs.length - 1, by
    rw [← hbs, List.length_append, hdr_length]; omega⟩
  have hp := rawParse_hdr g tag 4 0 [] rest htag (by decide) (by decide) (by decide) rfl
  simp only [show padForLen 0 8 = 0 from rfl, List.replicate_zero, List.nil_append] at hp
  rw [hbs, ← hg] at hp
  unfold unmarshalValue
  rw [Cur.start_of_rawParse_cons bs _ _ _ hp]
  simp only [Res.ok_bind]
  rw [decodeValue]
  simp [Cur.ty, Cur.tag, Cur.bigInteger, Cur.expect]

theorem twos_le_beVal (bs : Bytes) : twos bs ≤ (beVal bs : Int) := by
  cases bs with
  | nil => simp [twos]
  | cons b0 tl =>
    by_cases hb : b0 < 0x80
    · rw [twos_cons_lt b0 tl hb]; exact Int.le_refl _
    · rw [twos_cons_ge b0 tl hb]
      have : (0 : Int) ≤ ((256 ^ (tl.length + 1) : Nat) : Int) := Int.natCast_nonneg _
      omega

theorem twos_one_zeros (k : Nat) : twos (1 :: List.replicate k 0) = ((256 ^ k : Nat) : Int) := by
  rw [twos_cons_lt 1 _ (by decide), beVal_cons, beVal_replicate_zero, List.length_replicate]
  have : (1 : UInt8).toNat = 1 := rfl
  rw [this]; simp

theorem encodeBig_pow_length (k : Nat) (hk : k + 2 = 2 ^ 32) :
    (encodeBig ((256 ^ k : Nat) : Int)).length = 2 ^ 32 := by
  have h1 := twos_encodeBig ((256 ^ k : Nat) : Int)
  have h2 := twos_le_beVal (encodeBig ((256 ^ k : Nat) : Int))
  have h3 := beVal_lt (encodeBig ((256 ^ k : Nat) : Int))
  have h4 : 256 ^ k < 256 ^ (encodeBig ((256 ^ k : Nat) : Int)).length := by omega
  have h5 := pow256_lt h4
  have h6 := encodeBig_length_mod ((256 ^ k : Nat) : Int)
  have h7 := encodeBig_twos_le_padded (1 :: List.replicate k 0) (by simp)
  rw [twos_one_zeros] at h7
  simp only [List.length_cons, List.length_replicate, paddedLen, padForLen] at h7
  simp only [Nat.reducePow] at hk ⊢
  omega

/-- the accepted input: header (tag 1, BigInteger, length 2^32 − 1), `01 00 … 00`, one pad byte. -/
def hugeBigInput (k : Nat) : Bytes :=
  hdr 1 4 (k + 1) ++ ((1 :: List.replicate k 0) ++ (List.replicate (padForLen (k + 1) 8) 0 ++ []))

theorem hugeBig_counterexample (k : Nat) (hk : k + 2 = 2 ^ 32) :
    unmarshalValue (hugeBigInput k) = .ok (.big 1 ((256 ^ k : Nat) : Int)) ∧
    unmarshalValue (enc (.big 1 ((256 ^ k : Nat) : Int))) = .err .badLength := by
  constructor
  · have := unmarshal_big_raw 1 (k + 1) (1 :: List.replicate k 0) (by decide)
      (by simp only [Nat.reducePow] at hk ⊢; omega) (by simp) (by simp)
    rw [twos_one_zeros] at this
    exact this
  · rw [enc, encodeBig_pow_length k hk]
    have : hdr 1 4 (2 ^ 32) = hdr 1 4 0 := by decide
    rw [this]
    exact unmarshal_empty_big 1 _ (by decide)

end Kmip
