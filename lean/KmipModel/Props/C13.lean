/-
  C13 — version negotiation adopts the highest common protocol version.

  Model: `Model/Negotiate.lean` (client: `WithKmipVersions`, `EnforceVersion`, `DialContext`,
  `negotiateVersion`, `BatchOpt`, `CloneCtx`; server: `SetSupportedProtocolVersions`, the header check of
  `handleRequest`, `handleDiscover`).

  All statements quantify over arbitrary lists of arbitrary (major, minor) integer pairs — any length,
  any order, with duplicates — and over arbitrary server answers. `MaxCommon C A m` says `m ∈ C`,
  `m ∈ A` and no common version is higher; it determines `m` (`max_unique`).

  FINDING (open): the client always sends the discovery request under a 1.1 header, and the library's
  server rejects a header version outside its set before dispatching DiscoverVersions. Hence the
  statement "against the library's server the client adopts max (C ∩ S)" is FALSE without the hypothesis
  `1.1 ∈ S`: see `C13_library_full`, `C13_library_full_false`, `library_without_11`.
-/
import KmipModel.Lemmas.NegoLemmas
namespace Kmip.C13
open Kmip.Resp Kmip.Nego

/-! ### 1. the client algorithm against an arbitrary answered list -/

/-- the highest common version is unique: "adopted = max (C ∩ A)" is well defined. -/
theorem max_unique {C A : List Version} {m m' : Version} (h : MaxCommon C A m) (h' : MaxCommon C A m') :
    m = m' := h.unique h'

/-- either a highest common version exists, or the lists are disjoint. -/
theorem max_or_none (C A : List Version) : (∃ m, MaxCommon C A m) ∨ NoCommon C A :=
  maxCommon_or_noCommon C A

/-- For every client list `C` and every answered list `A` (unordered, with versions the client did not
    offer, with duplicates, empty, of any length): the client adopts `m` iff `m = max (C ∩ A)`. -/
theorem client_adopts_max (t : Tables) (C A : List Version) (m : Version) :
    negotiate t C (answers A) = .ok m ↔ MaxCommon C A m := by
  rw [negotiate_answers]
  cases h : pickLoop C A none with
  | none =>
    simp only
    constructor
    · intro h'; cases h'
    · intro hm; exact absurd ((pickLoop_eq_none_iff C A).1 h) hm.not_noCommon
  | some v =>
    simp only
    have hv := (pickLoop_eq_some_iff C A v).1 h
    constructor
    · intro h'; cases h'; exact hv
    · intro hm; rw [hv.unique hm]

/-- … and connecting fails (with the "no common version" error) iff there is no common version. -/
theorem client_fails_iff_disjoint (t : Tables) (C A : List Version) :
    negotiate t C (answers A) = .err .negoNoCommon ↔ NoCommon C A := by
  rw [negotiate_answers]
  cases h : pickLoop C A none with
  | none => simp [(pickLoop_eq_none_iff C A).1 h]
  | some v =>
    simp only
    constructor
    · intro h'; cases h'
    · intro hn; exact absurd hn ((pickLoop_eq_some_iff C A v).1 h).not_noCommon

/-- the same for a configured client (`WithKmipVersions` calls, nothing enforced). -/
theorem adopt_answers (cfg : ClientCfg) (A : List Version) (henf : cfg.enforce = none) (m : Version) :
    adopt cfg (.scripted (answers A)) = .ok m ↔ MaxCommon (clientList cfg) A m := by
  rw [← client_adopts_max stdTables]
  unfold adopt dial
  rw [henf]
  simp only [respond]
  cases h : negotiate stdTables (clientList cfg) (answers A) with
  | ok v => simp
  | err e => simp
  | panic => simp

theorem adopt_answers_err (cfg : ClientCfg) (A : List Version) (henf : cfg.enforce = none) :
    adopt cfg (.scripted (answers A)) = .err ↔ NoCommon (clientList cfg) A := by
  rw [← client_fails_iff_disjoint stdTables]
  unfold adopt dial
  rw [henf]
  simp only [respond]
  rw [negotiate_answers]
  cases h : pickLoop (clientList cfg) A none <;> simp

example : adopt { calls := [[v10, v14, v12]], enforce := none }
    (.scripted (answers [(1, 1), (1, 2), (2, 0), (1, 0), (1, 2)])) = .ok v12 := by decide

example : adopt { calls := [[v13]], enforce := none } (.scripted (answers [v14, v12])) = .err := by decide

/-! ### 2. the configured sets -/

/-- the client's list is what was passed to `WithKmipVersions` (all calls together), or the default
    list when nothing was. -/
theorem clientList_mem (cfg : ClientCfg) (y : Version) :
    y ∈ clientList cfg ↔ (offered cfg y ∨ ((∀ x, ¬ offered cfg x) ∧ y ∈ defaultVersions)) :=
  mem_clientList cfg y

/-- it is sent most recent first and without duplicates, and is never empty. -/
theorem clientList_sorted (cfg : ClientCfg) : StrictDesc (clientList cfg) ∧ clientList cfg ≠ [] :=
  ⟨clientList_strict cfg, clientList_ne_nil cfg⟩

/-- the server's list is what was passed to `SetSupportedProtocolVersions`, or the default list. -/
theorem serverSet_mem (vs : List Version) (y : Version) :
    y ∈ serverSet vs ↔ (y ∈ vs ∨ (vs = [] ∧ y ∈ defaultVersions)) :=
  mem_serverSet vs y

/-- it is kept (and answered by `handleDiscover`) most recent first, without duplicates. -/
theorem serverSet_sorted (vs req : List Version) :
    StrictDesc (serverSet vs) ∧ StrictDesc (handleDiscover (serverSet vs) req) :=
  ⟨serverSet_strict vs, handleDiscover_strict _ _ (serverSet_strict vs)⟩

/-- the result of sorting with `CompareVersions` does not depend on the (unstable) algorithm. -/
theorem sort_unique (l s : List Version) (hp : s.Perm l) (hs : Desc s) : s = sortDesc l :=
  sortDesc_unique l s hp hs

/-! ### 3. the adopted version is in the client's set, or is the enforced one -/

theorem adopted_mem (t : Tables) (cfg : ClientCfg) (sb : ServerBehaviour) (c : Client)
    (h : dial t cfg sb = .ok c) :
    (cfg.enforce = none ∧ c.version ∈ clientList cfg) ∨ cfg.enforce = some c.version := by
  unfold dial at h
  cases henf : cfg.enforce with
  | some v =>
    rw [henf] at h
    simp only at h
    cases h
    exact .inr rfl
  | none =>
    rw [henf] at h
    simp only at h
    cases hn : negotiate t (clientList cfg) (respond sb discoverHeader (clientList cfg)) with
    | err e => rw [hn] at h; cases h
    | panic => rw [hn] at h; cases h
    | ok v =>
      rw [hn] at h
      cases h
      refine .inl ⟨rfl, ?_⟩
      obtain ⟨bi, _, hc⟩ := negotiate_ok t _ _ v hn
      rcases hc with ⟨_, _, rfl, h10⟩ | ⟨_, _, _, hm⟩
      · exact h10
      · exact hm.1

theorem adopt_mem (cfg : ClientCfg) (sb : ServerBehaviour) (v : Version) (h : adopt cfg sb = .ok v) :
    (cfg.enforce = none ∧ v ∈ clientList cfg) ∨ cfg.enforce = some v := by
  unfold adopt at h
  cases hd : dial stdTables cfg sb with
  | ok c => rw [hd] at h; cases h; exact adopted_mem stdTables cfg sb c hd
  | err e => rw [hd] at h; cases h
  | panic => rw [hd] at h; cases h

/-- an enforced version is adopted without any exchange, whatever the server. -/
theorem enforced (cfg : ClientCfg) (sb : ServerBehaviour) (v : Version) (h : cfg.enforce = some v) :
    adopt cfg sb = .ok v := by
  simp [adopt, dial, h]

/-- connecting never panics. -/
theorem adopt_ne_panic (cfg : ClientCfg) (sb : ServerBehaviour) : adopt cfg sb ≠ .panic := by
  unfold adopt dial
  cases cfg.enforce with
  | some v => simp
  | none =>
    simp only
    have := negotiate_ne_panic stdTables (clientList cfg) (respond sb discoverHeader (clientList cfg))
    cases hn : negotiate stdTables (clientList cfg) (respond sb discoverHeader (clientList cfg)) with
    | ok v => simp
    | err e => simp
    | panic => exact absurd hn this

/-! ### 4. the 1.0 fallback -/

/-- a server that does not support DiscoverVersions: 1.0 iff 1.0 is in the client's set, else failure. -/
theorem fallback (t : Tables) (C : List Version) (op : Nat) (m : Msg) :
    negotiate t C (notSupported op m) = if v10 ∈ C then .ok v10 else .err .negoNoCommon :=
  negotiate_notSupported t C op m

/-- Complete characterisation of success, for EVERY round trip result: the client adopts `v` only
    (a) by fallback — the single item is OperationFailed/OperationNotSupported, `v = 1.0`, `1.0 ∈ C` — or
    (b) from a single successful item carrying a DiscoverVersions response payload whose list has
        `v` as highest version common with `C`.
    In particular the fallback happens iff discovery is unsupported and `1.0 ∈ C`, wrong counts, failed
    items, missing or foreign payloads never yield a version. -/
theorem success_characterisation (t : Tables) (C : List Version) (rt : RoundTrip) (v : Version)
    (h : negotiate t C rt = .ok v) :
    ∃ bi, rt = .msg 1 [bi] ∧
      ((bi.status = statusFailed ∧ bi.reason = reasonNotSupported ∧ v = v10 ∧ v10 ∈ C) ∨
       (¬ (bi.status = statusFailed ∧ bi.reason = reasonNotSupported) ∧ bi.status = statusSuccess ∧
          bi.payload = some (.resp opDiscover) ∧ MaxCommon C bi.vers v)) :=
  negotiate_ok t C rt v h

/-- a failed item that is not "operation not supported" is an error carrying the item's data. -/
theorem failed_item_is_error (t : Tables) (C : List Version) (bi : Item)
    (hs : bi.status ≠ statusSuccess) (hn : ¬ (bi.status = statusFailed ∧ bi.reason = reasonNotSupported)) :
    negotiate t C (.msg 1 [bi]) =
      .err (.item (enumStr t.ops bi.op) (enumStr t.status bi.status) (enumStr t.reasons bi.reason) bi.msg) := by
  rw [negotiate_msg_one]
  simp [negotiateItem, hn, Item.err, hs]

example : adopt { calls := [[v12, v10]], enforce := none } (.scripted (notSupported 0x1E [])) = .ok v10 := by
  decide

example : adopt { calls := [[v12, v11]], enforce := none } (.scripted (notSupported 0x1E [])) = .err := by
  decide

/-! ### 5. against the library's own server -/

/-- With 1.1 in the server's set: the client adopts `m` iff `m = max (C ∩ S)`. -/
theorem library_with_11 (cfg : ClientCfg) (set : List Version) (henf : cfg.enforce = none)
    (h11 : v11 ∈ serverSet set) (m : Version) :
    adopt cfg (.library set) = .ok m ↔ MaxCommon (clientList cfg) (serverSet set) m := by
  have hne := clientList_ne_nil cfg
  have hcongr : MaxCommon (clientList cfg) (handleDiscover (serverSet set) (clientList cfg)) m ↔
      MaxCommon (clientList cfg) (serverSet set) m := by
    unfold MaxCommon
    simp only [mem_handleDiscover _ _ hne]
    constructor
    · intro ⟨h1, h2, h3⟩; exact ⟨h1, h2.1, fun x hx hs => h3 x hx ⟨hs, hx⟩⟩
    · intro ⟨h1, h2, h3⟩; exact ⟨h1, ⟨h2, h1⟩, fun x hx hs => h3 x hx hs.1⟩
  rw [← hcongr, ← client_adopts_max stdTables]
  unfold adopt dial
  rw [henf]
  simp only [respond, discoverHeader]
  rw [libraryRespond_mem _ _ _ h11]
  cases h : negotiate stdTables (clientList cfg) (answers (handleDiscover (serverSet set) (clientList cfg))) <;> simp

/-- … and connecting fails iff the two sets are disjoint. -/
theorem library_with_11_err (cfg : ClientCfg) (set : List Version) (henf : cfg.enforce = none)
    (h11 : v11 ∈ serverSet set) :
    adopt cfg (.library set) = .err ↔ NoCommon (clientList cfg) (serverSet set) := by
  have hne := clientList_ne_nil cfg
  have hcongr : NoCommon (clientList cfg) (handleDiscover (serverSet set) (clientList cfg)) ↔
      NoCommon (clientList cfg) (serverSet set) := by
    unfold NoCommon
    simp only [mem_handleDiscover _ _ hne]
    constructor
    · intro h x hs hc; exact h x ⟨hs, hc⟩ hc
    · intro h x hs; exact h x hs.1
  rw [← hcongr, ← client_fails_iff_disjoint stdTables]
  unfold adopt dial
  rw [henf]
  simp only [respond, discoverHeader]
  rw [libraryRespond_mem _ _ _ h11, negotiate_answers]
  cases h : pickLoop (clientList cfg) (handleDiscover (serverSet set) (clientList cfg)) none <;> simp

example : v11 ∈ serverSet [v10, v11, v13] ∧
    adopt { calls := [[v14, v13, v10]], enforce := none } (.library [v10, v11, v13]) = .ok v13 := by decide

/-- Without 1.1 in the server's set the discovery request itself is rejected (header check of
    `handleRequest`) and connecting fails — whatever the two sets have in common. -/
theorem library_without_11 (cfg : ClientCfg) (set : List Version) (henf : cfg.enforce = none)
    (h11 : v11 ∉ serverSet set) : adopt cfg (.library set) = .err := by
  unfold adopt dial
  rw [henf]
  simp only [respond, discoverHeader]
  obtain ⟨e, he⟩ := negotiate_library_not_mem stdTables (clientList cfg) (serverSet set) v11 (clientList cfg) h11
  rw [he]

/-- The property as stated, for the library's server, without the 1.1 hypothesis. -/
def C13_library_full : Prop :=
  ∀ (cfg : ClientCfg) (set : List Version) (m : Version), cfg.enforce = none →
    (adopt cfg (.library set) = .ok m ↔ MaxCommon (clientList cfg) (serverSet set) m)

/-- the witness: client {1.4, 1.0}, server {1.4} — 1.4 is common, yet connecting fails. -/
theorem library_without_11_witness :
    adopt { calls := [[v14, v10]], enforce := none } (.library [v14]) = .err ∧
    MaxCommon (clientList { calls := [[v14, v10]], enforce := none }) (serverSet [v14]) v14 := by
  refine ⟨by decide, by decide, by decide, ?_⟩
  intro x _ hx
  have : x = v14 := by simpa [serverSet, sortDesc, insertDesc, compact] using hx
  rw [this]
  exact vlt_irrefl _

/-- `C13_library_full` is false of the model (hence of the code): OPEN FINDING
    `nego:server-without-1.1-rejects-discovery`. -/
theorem C13_library_full_false : ¬ C13_library_full := by
  intro h
  have hw := library_without_11_witness
  have := (h { calls := [[v14, v10]], enforce := none } [v14] v14 rfl).2 hw.2
  rw [hw.1] at this
  cases this

/-- the partial statement that does hold: `C13_library_full` restricted to servers supporting 1.1. -/
theorem C13_library_partial (cfg : ClientCfg) (set : List Version) (m : Version)
    (henf : cfg.enforce = none) (h11 : v11 ∈ serverSet set) :
    adopt cfg (.library set) = .ok m ↔ MaxCommon (clientList cfg) (serverSet set) m :=
  library_with_11 cfg set henf h11 m

/-! ### 6. every later request carries the adopted version

  `Client.version` is a POINTER (`Model/Negotiate.lean`, "the mutable pointer"): the statements below are
  about the store of version variables and about everything that may run after `Dial` — requests with any
  number of payloads and any batch options, connections lost and re-established (`reconnect` does not
  negotiate again), clones and clones of clones (also of a closed client), `Close` — in any order. -/

/-- After a successful negotiating `Dial` (fresh program state), for EVERY sequence of later steps in which
    no other code of the program assigns the exported variable `kmip.V1_0`: the version variable of the
    client holds the version `dial` adopted, and every request header put on the wire — by the client, after
    any reconnection, or by any clone — carries it. -/
theorem later_requests_carry_version (t : Tables) (calls : List (List Version)) (sb : ServerBehaviour)
    (s' : Store) (c : MClient) (h : dialM t Store.init calls none sb = .ok (s', c))
    (steps : List Step) (hsteps : ∀ st ∈ steps, st.isAssign = false) :
    (∃ sup, dial t { calls := calls, enforce := none } sb = .ok { version := s'.val c.ver, supported := sup }) ∧
    ∀ out ∈ runM { store := s', clients := [c] } steps, out.2.version = s'.val c.ver := by
  obtain ⟨hd, hwf⟩ := dialM_spec t Store.init calls sb s' c (by decide) rfl h
  refine ⟨hd, ?_⟩
  apply runM_version _ steps _ hwf _ (.inr hsteps)
  intro x hx
  simp only [List.mem_cons, List.not_mem_nil, or_false] at hx
  rw [hx]

/-- Outside the 1.0 fallback the client's variable is a fresh one, which nothing else can reach: the
    conclusion then holds for ALL step sequences, assignments to `kmip.V1_0` included. -/
theorem later_requests_carry_version_unaliased (t : Tables) (calls : List (List Version)) (sb : ServerBehaviour)
    (s' : Store) (c : MClient) (h : dialM t Store.init calls none sb = .ok (s', c))
    (hnf : ∀ bi, respond sb discoverHeader (clientList { calls := calls, enforce := none }) = .msg 1 [bi] →
      ¬ (bi.status = statusFailed ∧ bi.reason = reasonNotSupported))
    (steps : List Step) :
    ∀ out ∈ runM { store := s', clients := [c] } steps, out.2.version = s'.val c.ver := by
  obtain ⟨_, hwf⟩ := dialM_spec t Store.init calls sb s' c (by decide) rfl h
  apply runM_version _ steps _ hwf _ (.inl (dialM_noAlias t Store.init calls sb s' c (by decide) h hnf))
  intro x hx
  simp only [List.mem_cons, List.not_mem_nil, or_false] at hx
  rw [hx]

/-- An enforced version: the client holds the pointer of the `EnforceVersion` option (no exchange); every
    later request of the client and of its clones carries the enforced version, for ALL step sequences. -/
theorem later_requests_enforced (t : Tables) (calls : List (List Version)) (sb : ServerBehaviour) (v : Version)
    (steps : List Step) :
    ∃ s c, dialM t (enforceOption Store.init v).1 calls (some (enforceOption Store.init v).2) sb = .ok (s, c) ∧
      s.val c.ver = v ∧ ∀ out ∈ runM { store := s, clients := [c] } steps, out.2.version = v := by
  refine ⟨(enforceOption Store.init v).1,
    { ver := (enforceOption Store.init v).2, supported := clientList { calls := calls, enforce := none } }, rfl, ?_, ?_⟩
  · simp [enforceOption, Store.alloc, Store.init]
  · apply runM_version v steps
    · refine ⟨by simp [enforceOption, Store.alloc, Store.init], ?_⟩
      intro x hx
      simp only [List.mem_cons, List.not_mem_nil, or_false] at hx
      subst hx
      simp [enforceOption, Store.alloc, Store.init]
    · intro x hx
      simp only [List.mem_cons, List.not_mem_nil, or_false] at hx
      subst hx
      simp [enforceOption, Store.alloc, Store.init]
    · refine .inl ?_
      intro x hx
      simp only [List.mem_cons, List.not_mem_nil, or_false] at hx
      subst hx
      simp [enforceOption, Store.alloc, Store.init, addrV10]

/-- The hypothesis of `later_requests_carry_version` cannot be dropped: in the 1.0 fallback
    `negotiateVersion` stores `&kmip.V1_0`, so a program that assigns this exported variable changes the version
    of every client connected through the fallback (here: adopted 1.0, next request sent as 9.9). -/
theorem fallback_aliases_exported_variable :
    ∃ (s' : Store) (c : MClient),
      dialM pinnedTables Store.init [[v12, v10]] none (.scripted (notSupported 0x1E [])) = .ok (s', c) ∧
      s'.val c.ver = v10 ∧
      (runM { store := s', clients := [c] } [.assignV10 (9, 9), .request 0 1 []]).map (·.2.version) = [(9, 9)] :=
  ⟨Store.init, { ver := addrV10, supported := clientList { calls := [[v12, v10]], enforce := none } }, by rfl, by rfl, by rfl⟩

/-- non-vacuity: a run with a reconnection, a batch with options, clones of clones and a closed parent. -/
example : ∃ (s' : Store) (c : MClient),
    dialM pinnedTables Store.init [[v13, v10]] none (.scripted (answers [v10, v13, v14])) = .ok (s', c) ∧
    (runM { store := s', clients := [c] }
      [.request 0 1 [], .connLost 0, .request 0 3 [2], .clone 0, .request 1 1 [], .close 0, .request 0 1 [],
       .request 1 2 [], .clone 1, .connLost 2, .request 2 1 []]).map (fun o => (o.1, o.2.version, o.2.batchCount)) =
      [(0, v13, 1), (0, v13, 3), (1, v13, 1), (1, v13, 2), (2, v13, 1)] :=
  ⟨(Store.init.alloc v13).1, { ver := 1, supported := clientList { calls := [[v13, v10]], enforce := none } },
    by rfl, by rfl⟩

/-- the header a client builds: its version and the number of payloads. -/
theorem request_header (c : Client) (n : Nat) (opts : List Nat) :
    (batchOptHeader c n opts).version = c.version ∧ (batchOptHeader c n opts).batchCount = n :=
  batchOptHeader_version c n opts

/-! ### 7. the 31 × 32 table of the property's quantifier, against the PROPERTY's expected result

  `expected c s` is what the property demands (highest common version, failure when there is none — an
  independent specification, `specMax`). The table is evaluated by the kernel: on every row that is not a
  finding row the model gives exactly the expected result; the finding rows — a common version exists but the
  server's set lacks 1.1 — all fail (open finding `nego:server-without-1.1-rejects-discovery`). There are
  350 finding rows among the 31 × 32 = 992. -/

theorem table_31x32 :
    (sublists defaultVersions).length = 32 ∧ countRows (fun _ _ => true) = 992 ∧ tableOk = true ∧
    countRows findingRow = 350 := by
  refine ⟨by decide, by decide +kernel, by decide +kernel, by decide +kernel⟩

/-- the carve-out is exactly the finding: a row is carved out iff a common version exists and 1.1 is not in
    the server's (effective) set; on such a row the property's expected result is a success. -/
theorem finding_row_iff (c s : List Version) :
    findingRow c s = true ↔
      (v11 ∉ (if s.isEmpty then defaultVersions else s) ∧ ∃ m, expected c s = .ok m) := by
  unfold findingRow expected
  simp only [Bool.and_eq_true, Bool.not_eq_true', List.contains_eq_mem, decide_eq_false_iff_not]
  constructor
  · intro ⟨h1, h2⟩
    refine ⟨h1, ?_⟩
    cases hm : specMax c (if s.isEmpty then defaultVersions else s) with
    | none => rw [hm] at h2; simp at h2
    | some m => exact ⟨m, rfl⟩
  · intro ⟨h1, m, h2⟩
    refine ⟨h1, ?_⟩
    cases hm : specMax c (if s.isEmpty then defaultVersions else s) with
    | none => rw [hm] at h2; cases h2
    | some m => simp

end Kmip.C13
