/-
  Certificate obligations, parts 14..15 of 16 of the `current` client system (kernel evaluation; 8 modules
  so that lake checks them in parallel). Assembled in `Lemmas/CliCert.lean`.
-/
import KmipModel.Model.CliConn
import KmipModel.Gen.CertCliConn
namespace Kmip.CliCert
open Kmip.CliLts Kmip.CliConn Kmip.Gen.CertCliConn

theorem cuClosed14 : partClosed (sys current) codec certCurrent cuP14 = true := by decide +kernel
theorem cuSafe14 : partSafe codec (bad current) cuP14 = true := by decide +kernel
theorem cuClosed15 : partClosed (sys current) codec certCurrent cuP15 = true := by decide +kernel
theorem cuSafe15 : partSafe codec (bad current) cuP15 = true := by decide +kernel

end Kmip.CliCert
