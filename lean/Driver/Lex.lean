/-
  Driver handlers `lex.*`: the lexical / element model of the XML and JSON back ends
  (`KmipModel/Model/Lex.lean`) answered with the GENERATED registries (`Kmip.Gen.*`).

    lex.xmlw  <fmt> <xitem>            → ok <xelem>          the element tree the XML writer produces
    lex.jsonw <fmt> <xitem>            → ok <jval>           the JSON value the JSON writer produces
    lex.xmlr  <hints> <prs> <xelem>    → ok <item> | err | panic …   UnmarshalXML into a generic value
    lex.jsonr <hints> <prs> <jval>     → ok <item> | err | panic …   UnmarshalJSON into a generic value

  Every text (names, attribute values, keys, strings) travels as upper-case hex of its bytes, `-` = empty.

  <xitem>  (S tag child…) (I tag v) (M tag masktag v) (L tag v) (B tag v) (E tag enumtag v) (O tag 0|1)
           (T tag hex) (Y tag hex) (D tag secs) (V tag secs)           — numbers in decimal, tags may be negative
  <item>   the same without annotations: (I tag v) for a mask, (E tag v) for an enumeration
  <xelem>  (e NAME key=value … child…)     attributes in document order, then the child elements
  <jval>   (o KEY val KEY val …) | (a val …) | s<hex> | n<integer literal> | r (any other number literal)
           | T | F | N
  <fmt>    `-` or `secs=HEX,…`   what `time.Unix(secs,0).Format(time.RFC3339)` gives (computed by the harness)
  <prs>    `-` or `HEX=secs,…`   what `time.Parse(time.RFC3339, text)` accepts, with its Unix seconds
  <hints>  `-` (the generic decoder) or `tag:E<enumtag>,tag:M<masktag>,…`  what a typed caller passes to
           `Decoder.Enum(realtag, tag)` / that it calls `Decoder.Bitmask(realtag, tag)` for this tag
-/
import Driver.Common
import Driver.Registry
import KmipModel.Model.Lex
import KmipModel.Gen.Registry
open Kmip Kmip.Reg Kmip.Lex

namespace Driver.LexD

def tables : Tables :=
  { tagNames := Gen.tagNames, tagByName := Gen.tagByName, enums := Gen.enums, masks := Gen.masks }

def hex (s : Str) : String := Driver.regHex s
def unhex (s : String) : Option Str := Driver.regBytes s

/-! ### trees -/

mutual
  partial def parseXItem : List String → Option (XItem × List String)
    | "(" :: k :: t :: rest => do
      let tag ← t.toInt?
      match k with
      | "S" => do
        let (cs, rest') ← parseXItems rest
        pure (.struct tag cs, rest')
      | "M" =>
        match rest with
        | m :: v :: ")" :: rest' => do pure (.mask tag (← m.toInt?) (← v.toInt?), rest')
        | _ => none
      | "E" =>
        match rest with
        | e :: v :: ")" :: rest' => do pure (.enum tag (← e.toInt?) (← v.toNat?), rest')
        | _ => none
      | _ =>
        match rest with
        | v :: ")" :: rest' =>
          match k with
          | "I" => do pure (.int tag (← v.toInt?), rest')
          | "L" => do pure (.long tag (← v.toInt?), rest')
          | "B" => do pure (.big tag (← v.toInt?), rest')
          | "O" => if v = "1" then some (.bool tag true, rest') else if v = "0" then some (.bool tag false, rest') else none
          | "T" => do pure (.text tag (← bytesOfHex v), rest')
          | "Y" => do pure (.bytes tag (← bytesOfHex v), rest')
          | "D" => do pure (.date tag (← v.toInt?), rest')
          | "V" => do pure (.interval tag (← v.toNat?), rest')
          | _ => none
        | _ => none
    | _ => none
  partial def parseXItems : List String → Option (List XItem × List String)
    | ")" :: rest => some ([], rest)
    | toks => do
      let (it, rest) ← parseXItem toks
      let (its, rest') ← parseXItems rest
      pure (it :: its, rest')
end

def hexB (s : Bytes) : String := if s.isEmpty then "-" else hexOfBytes s

mutual
  /-- the decoded tree without its annotations. -/
  partial def renderItem : XItem → String
    | .struct t cs => "(S " ++ toString t ++ renderItems cs ++ ")"
    | .int t v => "(I " ++ toString t ++ " " ++ toString v ++ ")"
    | .mask t _ v => "(I " ++ toString t ++ " " ++ toString v ++ ")"
    | .long t v => "(L " ++ toString t ++ " " ++ toString v ++ ")"
    | .big t v => "(B " ++ toString t ++ " " ++ toString v ++ ")"
    | .enum t _ v => "(E " ++ toString t ++ " " ++ toString v ++ ")"
    | .bool t b => "(O " ++ toString t ++ " " ++ (if b then "1" else "0") ++ ")"
    | .text t s => "(T " ++ toString t ++ " " ++ hexB s ++ ")"
    | .bytes t s => "(Y " ++ toString t ++ " " ++ hexB s ++ ")"
    | .date t v => "(D " ++ toString t ++ " " ++ toString v ++ ")"
    | .interval t v => "(V " ++ toString t ++ " " ++ toString v ++ ")"
  partial def renderItems : List XItem → String
    | [] => ""
    | x :: xs => " " ++ renderItem x ++ renderItems xs
end

/-! ### XML documents -/

def renderAttrs : Attrs → String
  | [] => ""
  | (k, v) :: r => " " ++ hex k ++ "=" ++ hex v ++ renderAttrs r

mutual
  partial def renderXElem : XElem → String
    | .mk n a cs => "(e " ++ hex n ++ renderAttrs a ++ renderXElems cs ++ ")"
  partial def renderXElems : List XElem → String
    | [] => ""
    | c :: cs => " " ++ renderXElem c ++ renderXElems cs
end

def parseAttr (tok : String) : Option (Str × Str) :=
  match tok.splitOn "=" with
  | [k, v] => do pure (← unhex k, ← unhex v)
  | _ => none

partial def parseAttrs : List String → Option (Attrs × List String)
  | [] => some ([], [])
  | "(" :: rest => some ([], "(" :: rest)
  | ")" :: rest => some ([], ")" :: rest)
  | tok :: rest => do
    let a ← parseAttr tok
    let (as, rest') ← parseAttrs rest
    pure (a :: as, rest')

mutual
  partial def parseXElem : List String → Option (XElem × List String)
    | "(" :: "e" :: n :: rest => do
      let name ← unhex n
      let (attrs, rest) ← parseAttrs rest
      let (cs, rest) ← parseXElems rest
      pure (.mk name attrs cs, rest)
    | _ => none
  partial def parseXElems : List String → Option (List XElem × List String)
    | ")" :: rest => some ([], rest)
    | toks => do
      let (e, rest) ← parseXElem toks
      let (es, rest') ← parseXElems rest
      pure (e :: es, rest')
end

/-! ### JSON documents -/

mutual
  partial def renderJVal : JVal → String
    | .obj fs => "(o" ++ renderJFields fs ++ ")"
    | .arr xs => "(a" ++ renderJVals xs ++ ")"
    | .str s => "s" ++ hex s
    | .num v true => "n" ++ toString v
    | .num _ false => "r"
    | .bool true => "T"
    | .bool false => "F"
    | .null => "N"
  partial def renderJFields : List (Str × JVal) → String
    | [] => ""
    | (k, v) :: r => " " ++ hex k ++ " " ++ renderJVal v ++ renderJFields r
  partial def renderJVals : List JVal → String
    | [] => ""
    | x :: xs => " " ++ renderJVal x ++ renderJVals xs
end

mutual
  partial def parseJVal : List String → Option (JVal × List String)
    | "(" :: "o" :: rest => do
      let (fs, rest) ← parseJFields rest
      pure (.obj fs, rest)
    | "(" :: "a" :: rest => do
      let (xs, rest) ← parseJVals rest
      pure (.arr xs, rest)
    | "T" :: rest => some (.bool true, rest)
    | "F" :: rest => some (.bool false, rest)
    | "N" :: rest => some (.null, rest)
    | "r" :: rest => some (.num 0 false, rest)
    | tok :: rest =>
      if tok.startsWith "s" then do pure (.str (← unhex (tok.drop 1).toString), rest)
      else if tok.startsWith "n" then do pure (.num (← (tok.drop 1).toString.toInt?) true, rest)
      else none
    | [] => none
  partial def parseJFields : List String → Option (List (Str × JVal) × List String)
    | ")" :: rest => some ([], rest)
    | k :: rest => do
      let key ← unhex k
      let (v, rest) ← parseJVal rest
      let (fs, rest) ← parseJFields rest
      pure ((key, v) :: fs, rest)
    | [] => none
  partial def parseJVals : List String → Option (List JVal × List String)
    | ")" :: rest => some ([], rest)
    | toks => do
      let (v, rest) ← parseJVal toks
      let (vs, rest) ← parseJVals rest
      pure (v :: vs, rest)
end

/-! ### side tables -/

def splitList (s : String) : List String := if s = "-" then [] else s.splitOn ","

/-- `secs=HEX,…` -/
def parseFmt (s : String) : Option (List (Int × Str)) :=
  (splitList s).mapM fun p =>
    match p.splitOn "=" with
    | [a, b] => do pure (← a.toInt?, ← unhex b)
    | _ => none

/-- `HEX=secs,…` -/
def parsePrs (s : String) : Option (List (Str × Int)) :=
  (splitList s).mapM fun p =>
    match p.splitOn "=" with
    | [a, b] => do pure (← unhex a, ← b.toInt?)
    | _ => none

def rfcOf (fmt : List (Int × Str)) (prs : List (Str × Int)) : Rfc3339 :=
  { format := fun s => match fmt.find? (fun p => p.1 == s) with
      | some p => p.2
      | none => [63]
    parse := fun t => (prs.find? (fun p => p.1 == t)).map (·.2)
    -- the year test in the location the writers format in; the harness pins UTC: years 0..9999
    inYears := fun v => decide (minEpoch0 ≤ v) && decide (v ≤ maxEpoch) }

/-- a hint key: a decimal tag (the hint holds wherever an element is asked for under that tag) or `@i.j.k`
    (the hint holds at that position: path of child indices from the root, `@` = the root). -/
def parseKey (t : String) : Option (Option (List Nat) × Int) :=
  if t.startsWith "@" then
    let body := (t.drop 1).toString
    if body = "" then some (some [], 0)
    else do
      let idx ← (body.splitOn ".").mapM fun x => x.toNat?
      pure (some idx, 0)
  else do pure (none, ← t.toInt?)

/-- `key:E<n>` / `key:M<n>`; at a position a path entry is looked up first, then a tag entry. -/
def parseHints (s : String) : Option Hints := do
  let entries ← (splitList s).mapM fun p =>
    match p.splitOn ":" with
    | [t, h] => do
      let key ← parseKey t
      if h.startsWith "E" then pure (key, true, ← (h.drop 1).toString.toInt?)
      else if h.startsWith "M" then pure (key, false, ← (h.drop 1).toString.toInt?)
      else none
    | _ => none
  let find := fun (path : List Nat) (tag : Int) (isEnum : Bool) =>
    match entries.find? (fun e => e.1.1 == some path && e.2.1 == isEnum) with
    | some e => some e.2.2
    | none => (entries.find? (fun e => e.1.1 == none && e.1.2 == tag && e.2.1 == isEnum)).map (·.2.2)
  pure fun path tag =>
    { enumTag := (find path tag true).getD 0
      mask := find path tag false }

def whole {α : Type} (r : Option (α × List String)) : Option α :=
  match r with
  | some (a, []) => some a
  | _ => none

def splitFirst (s : String) : String × String :=
  match s.splitOn " " with
  | [] => ("", "")
  | a :: _ => (a, (s.drop (a.length + 1)).toString)

end Driver.LexD

namespace Driver
open Driver.LexD

/-- `none` = command not handled here. -/
def handleLex (cmd arg : String) : Option String :=
  if !cmd.startsWith "lex." then none else
  some <|
  match cmd with
  | "lex.scope" =>
    match whole (parseXItem (tokenize arg)) with
    | some t => if inScope t then "ok 1" else "ok 0"
    | none => "bad-op"
  | "lex.xmlw" =>
    let (f, body) := splitFirst arg
    match parseFmt f, whole (parseXItem (tokenize body)) with
    | some fmt, some t => "ok " ++ renderXElem (xmlWrite tables (rfcOf fmt []) t)
    | _, _ => "bad-op"
  | "lex.jsonw" =>
    let (f, body) := splitFirst arg
    match parseFmt f, whole (parseXItem (tokenize body)) with
    | some fmt, some t => "ok " ++ renderJVal (jsonWrite tables (rfcOf fmt []) t)
    | _, _ => "bad-op"
  | "lex.xmlr" =>
    let (h, rest) := splitFirst arg
    let (p, body) := splitFirst rest
    match parseHints h, parsePrs p, whole (parseXElem (tokenize body)) with
    | some H, some prs, some e => renderRes (do let t ← xmlRead tables (rfcOf [] prs) H e; pure (renderItem t))
    | _, _, _ => "bad-op"
  | "lex.jsonr" =>
    let (h, rest) := splitFirst arg
    let (p, body) := splitFirst rest
    match parseHints h, parsePrs p, whole (parseJVal (tokenize body)) with
    | some H, some prs, some j => renderRes (do let t ← jsonRead tables (rfcOf [] prs) H j; pure (renderItem t))
    | _, _, _ => "bad-op"
  | _ => "bad-op"

end Driver
