/-
  C01 — stage 3 (continued): ResponseBatchItem, and the assembly of `PCust`.
-/
import KmipModel.Lemmas.PlanRoundtrip5
namespace Kmip

/-! ## Head tags of what follows an optional item -/

/-- the cursor is at the end, or on an item whose tag is one of `ts`. -/
def HT (r : List RawItem) (ts : List Nat) : Prop := htag r = 0 ∨ htag r ∈ ts

theorem HT_nil (ts : List Nat) : HT [] ts := Or.inl rfl

theorem HT_cons (it : Item) (r : List RawItem) (ts : List Nat) : HT (it.raw :: r) (it.tag :: ts) :=
  Or.inr (List.mem_cons_self ..)

theorem HT_cons' {it : Item} {t : Nat} (h : it.tag = t) (r : List RawItem) (ts : List Nat) :
    HT (it.raw :: r) (t :: ts) := h ▸ HT_cons it r ts

theorem HT_app {a : List Item} {t : Nat} {r : List RawItem} {ts : List Nat}
    (ha : ∀ it ∈ a, it.tag = t) (hr : HT r ts) : HT (a.map Item.raw ++ r) (t :: ts) := by
  cases a with
  | nil =>
    rcases hr with h | h
    · exact Or.inl h
    · exact Or.inr (List.mem_cons_of_mem _ h)
  | cons x a =>
    right
    rw [htag_append_cons, ha x (List.mem_cons_self ..)]
    exact List.mem_cons_self ..

theorem HT_ne {r : List RawItem} {ts : List Nat} {t : Nat} (h : HT r ts) (hn : t ∉ ts) (h0 : t ≠ 0) :
    htag r ≠ t := by
  intro e
  rcases h with h | h
  · omega
  · rw [e] at h; exact hn h

/-- an optional enumeration written by hand (`if cond then [item] else []`), read by `d.Opt`. -/
theorem decOpt_enumOpt (S : Schema) (f t tag n : Nat) (c : Prop) [Decidable c] (rs : List RawItem)
    (w : Option Ver) (hn : n < 2 ^ 32) (habs : ¬ c → n = 0) (hne : htag rs ≠ tag) :
    decOpt S (f + 2) (.enum t) tag
        (Cur.of ((if c then [Item.enum tag n] else []).map Item.raw ++ rs)) w
      = .ok (.int n, Cur.of rs, w) := by
  by_cases hc : c
  · simp only [hc, if_true, List.map_cons, List.map_nil, List.cons_append, List.nil_append]
    rw [decOpt_present S (f + 1) _ tag _ w rfl, decK_enum_raw S f t tag n rs w hn]
  · simp only [hc, if_false, List.map_nil, List.nil_append]
    rw [decOpt_absent S (f + 1) _ tag rs w hne, habs hc]
    rw [zeroOf]; rfl

def textItems (tag : Nat) (v : Val) : List Item :=
  match v with
  | .text s => if s.isEmpty then [] else [.text tag s]
  | _ => []

theorem textItems_tags (tag : Nat) (v : Val) : ∀ it ∈ textItems tag v, it.tag = tag := by
  intro it hit
  unfold textItems at hit
  split at hit
  · split at hit
    · cases hit
    · rw [List.mem_singleton.1 hit]; rfl
  · cases hit

theorem decOpt_textOpt (S : Schema) (f tag : Nat) (s : Bytes) (rs : List RawItem) (w : Option Ver)
    (hne : htag rs ≠ tag) :
    decOpt S (f + 2) .text tag (Cur.of ((textItems tag (.text s)).map Item.raw ++ rs)) w
      = .ok (.text s, Cur.of rs, w) := by
  by_cases hs : s.isEmpty = true
  · simp only [textItems, hs, if_true, List.map_nil, List.nil_append]
    rw [decOpt_absent S (f + 1) _ tag rs w hne]
    rw [zeroOf]
    have : s = [] := by simpa using hs
    rw [this]
  · simp only [textItems, hs, Bool.false_eq_true, if_false, List.map_cons, List.map_nil, List.cons_append,
      List.nil_append]
    rw [decOpt_present S (f + 1) _ tag _ w rfl, decK_text_raw]

/-! ## ResponseBatchItem -/

theorem normCustom_response (S : Schema) (n tag : Nat) (v : Val) (ver : Option Ver) :
    normCustom S (n + 1) Cust.responseBatchItem tag v ver =
      (match v with
        | .struct [.int op, .bytes bid, .int st, .int rs, .text msg, .bytes acv, pl, me] =>
          if decide (tag = T.batchItem) && isU32 op && isU32 st && isU32 rs &&
              (match pl with
                | .iface none => true
                | .iface (some (d, _)) => decide (0 < op) && d == S.payloadDyn op.toNat true
                | _ => false) then
            match normK S n .iface T.responsePayload pl ver with
            | none => none
            | some (pl', ver1) =>
              match normK S n (.ptr (.struct (msgExtId S))) T.messageExtension me ver1 with
              | none => none
              | some (me', ver2) =>
                some (.struct [.int op, .bytes (normBid bid), .int st, .int rs, .text msg,
                  .bytes (normBid acv), pl', me'], ver2)
          else none
        | _ => none) := by
  rw [normCustom.eq_def]; rfl

theorem encCustom_response (S : Schema) (n tag : Nat) (v : Val) (ver : Option Ver) :
    encCustom S (n + 1) Cust.responseBatchItem tag v ver = (do
        let (pl, ver1) ← encK S n .iface T.responsePayload (v.field 6) ver
        let (me, ver2) ← encK S n (.ptr (.struct (msgExtId S))) T.messageExtension (v.field 7) ver1
        pure ([.struct T.batchItem (
          (if (v.field 0).asInt.toNat ≠ 0 then [Item.enum T.operation (v.field 0).asInt.toNat] else [])
          ++ bidItems T.uniqueBatchItemID (v.field 1)
          ++ [Item.enum T.resultStatus (v.field 2).asInt.toNat]
          ++ (if (v.field 2).asInt.toNat = 1 ∨ (v.field 3).asInt.toNat ≠ 0
              then [Item.enum T.resultReason (v.field 3).asInt.toNat] else [])
          ++ textItems T.resultMessage (v.field 4)
          ++ bidItems T.asyncCorrelationValue (v.field 5) ++ pl ++ me)], ver2)) := by
  rw [encCustom.eq_def]; rfl

theorem decCustom_response (S : Schema) (n id tag : Nat) (c : Cur) (ver : Option Ver) :
    decCustom S (n + 1) Cust.responseBatchItem id tag c ver = (do
      let it ← c.expect 1 tag
      let c0 ← Cur.start it.val
      let (v, ver') ← (do
          let (op, c1, v1) ← decOpt S n ((S.structDef id).fields.getD 0 fieldDflt).kind T.operation c0 ver
          let (bid, c2, v2) ← decOpt S n .bytes T.uniqueBatchItemID c1 v1
          let (st, c3, v3) ← decK S n ((S.structDef id).fields.getD 2 fieldDflt).kind T.resultStatus c2 v2
          let (rs, c4, v4) ← decOpt S n ((S.structDef id).fields.getD 3 fieldDflt).kind T.resultReason c3 v3
          let (msg, c5, v5) ← decOpt S n .text T.resultMessage c4 v4
          let (acv, c6, v6) ← decOpt S n .bytes T.asyncCorrelationValue c5 v5
          let (pl, c7, v7) ←
            if op.asInt > 0 ∧ c6.tag = T.responsePayload then
              decDyn S n (S.payloadDyn op.asInt.toNat true) T.responsePayload c6 v6
            else (.ok (.iface none, c6, v6) : Res (Val × DecSt))
          let (me, _, v8) ← decOpt S n ((S.structDef id).fields.getD 7 fieldDflt).kind T.messageExtension c7 v7
          pure (Val.struct [op, bid, st, rs, msg, acv, pl, me], v8) : Res (Val × Option Ver))
      let c' ← c.next
      pure (v, c', ver')) := by
  rw [decCustom.eq_def]; rfl


/-- the response payload is absent, or of the type registered for the (non-zero) operation. -/
def respPlOk (S : Schema) (op : Int) (pl : Val) : Bool :=
  match pl with
  | .iface none => true
  | .iface (some (d, _)) => decide (0 < op) && d == S.payloadDyn op.toNat true
  | _ => false

theorem normCustom_response' (S : Schema) (n tag : Nat) (v : Val) (ver : Option Ver) :
    normCustom S (n + 1) Cust.responseBatchItem tag v ver =
      (match v with
        | .struct [.int op, .bytes bid, .int st, .int rs, .text msg, .bytes acv, pl, me] =>
          if decide (tag = T.batchItem) && isU32 op && isU32 st && isU32 rs && respPlOk S op pl then
            match normK S n .iface T.responsePayload pl ver with
            | none => none
            | some (pl', ver1) =>
              match normK S n (.ptr (.struct (msgExtId S))) T.messageExtension me ver1 with
              | none => none
              | some (me', ver2) =>
                some (.struct [.int op, .bytes (normBid bid), .int st, .int rs, .text msg,
                  .bytes (normBid acv), pl', me'], ver2)
          else none
        | _ => none) := by
  rw [normCustom.eq_def]; rfl

/-- the ResponsePayload step of the decoder: `if op > 0 && tag == ResponsePayload { decode }`. -/
theorem resp_payload_step (S : Schema) (hU : S.unambiguous = true) (n2 : Nat) (hK : PK S n2) (op : Int)
    (pl : Val) (ver : Option Ver) (pl' : Val) (ver1 : Option Ver) (hok : respPlOk S op pl = true)
    (hpl : normK S (n2 + 1) .iface T.responsePayload pl ver = some (pl', ver1)) :
    ∃ plI, encK S (n2 + 1) .iface T.responsePayload pl ver = .ok (plI, ver1)
      ∧ encK S (n2 + 1) .iface T.responsePayload pl' ver = .ok (plI, ver1)
      ∧ normK S (n2 + 1) .iface T.responsePayload pl' ver = some (pl', ver1)
      ∧ respPlOk S op pl' = true
      ∧ (∀ it ∈ plI, it.tag = T.responsePayload)
      ∧ (Item.AllInRange plI → ∀ (f : Nat) (rs : List RawItem), htag rs ≠ T.responsePayload →
          pl.depth + 4 ≤ f →
          (if op > 0 ∧ (Cur.of (plI.map Item.raw ++ rs)).tag = T.responsePayload then
              decDyn S f (S.payloadDyn op.toNat true) T.responsePayload (Cur.of (plI.map Item.raw ++ rs)) ver
            else (.ok (.iface none, Cur.of (plI.map Item.raw ++ rs), ver) : Res (Val × DecSt)))
          = .ok (pl', Cur.of rs, ver1)) := by
  cases pl with
  | iface o =>
    cases o with
    | none =>
      rw [normK_iface] at hpl
      obtain ⟨rfl, rfl⟩ := pair_eq (Option.some.inj hpl)
      refine ⟨[], by rw [encK_iface_none], by rw [encK_iface_none], by rw [normK_iface], hok, ?_, ?_⟩
      · intro it hit; cases hit
      · intro _ f rs hne _
        simp only [List.map_nil, List.nil_append, Cur.tag_of, hne, and_false, if_false]
    | some p =>
      obtain ⟨d, x⟩ := p
      have hdok := normK_iface_ok hpl
      obtain ⟨x', plI, rfl, he, he', hn', ht, hl, hd⟩ :=
        pdyn_succ S n2 hK d T.responsePayload x ver pl' ver1 hpl
      simp only [respPlOk, Bool.and_eq_true, decide_eq_true_eq, beq_iff_eq] at hok
      refine ⟨plI, he, he', hn', by simp [respPlOk, hok.1, hok.2], ht, ?_⟩
      intro hr f rs _ hf
      obtain ⟨it, rfl⟩ := list_len1 hl
      have hct : (Cur.of ([it].map Item.raw ++ rs)).tag = T.responsePayload := by
        rw [Cur.tag_of, htag_single, ht it (List.mem_singleton.2 rfl)]
      simp only [Val.depth] at hf
      rw [if_pos ⟨hok.1, hct⟩, ← hok.2]
      exact hd (unamb_dynOK hU d x hdok) hr f rs T.responsePayload (Or.inl rfl) (by omega)
  | _ => simp [respPlOk] at hok


set_option maxHeartbeats 2000000 in
theorem cust_response (S : Schema) (hU : S.unambiguous = true) (n : Nat) (hK : ∀ m, m < n → PK S m)
    (id tag : Nat) (v : Val) (ver : Option Ver) (v' : Val) (ver' : Option Ver)
    (hs0 : ((S.structDef id).fields.getD 0 fieldDflt).kind.isEnum = true)
    (hs2 : ((S.structDef id).fields.getD 2 fieldDflt).kind.isEnum = true)
    (hs3 : ((S.structDef id).fields.getD 3 fieldDflt).kind.isEnum = true)
    (hs7 : ((S.structDef id).fields.getD 7 fieldDflt).kind = .ptr (.struct (msgExtId S)))
    (hsd : S.decodable (.ptr (.struct (msgExtId S))) = true)
    (h : normCustom S n Cust.responseBatchItem tag v ver = some (v', ver')) :
    CustConcl S n Cust.responseBatchItem id tag v ver v' ver' true := by
  cases n with
  | zero => rw [normCustom_zero] at h; contradiction
  | succ n1 =>
  rw [normCustom_response'] at h
  split at h
  · rename_i op bid st rs msg acv pl me
    obtain ⟨hc, h2⟩ := ite_eq_some h
    clear h
    have h := h2
    clear h2
    simp only [Bool.and_eq_true, decide_eq_true_eq] at hc
    obtain ⟨⟨⟨⟨htg, hop⟩, hst⟩, hrs⟩, hplok⟩ := hc
    subst htg
    cases hpl : normK S n1 .iface T.responsePayload pl ver with
    | none => simp only [hpl] at h; contradiction
    | some p =>
    obtain ⟨pl', ver1⟩ := p
    simp only [hpl] at h
    cases hme : normK S n1 (.ptr (.struct (msgExtId S))) T.messageExtension me ver1 with
    | none => simp only [hme] at h; contradiction
    | some q =>
    obtain ⟨me', ver2⟩ := q
    simp only [hme] at h
    obtain ⟨rfl, rfl⟩ := pair_eq (Option.some.inj h)
    obtain ⟨n2, rfl⟩ : ∃ n2, n1 = n2 + 1 := by
      cases n1 with
      | zero => rw [normK_zero] at hpl; contradiction
      | succ n2 => exact ⟨n2, rfl⟩
    obtain ⟨plI, hple, hple', hpln, hplok', hplt, hpld⟩ :=
      resp_payload_step S hU n2 (hK n2 (by omega)) op pl ver pl' ver1 hplok hpl
    obtain ⟨meI, hmee, hmee', hmen, hmet, _, _, hmed⟩ :=
      hK (n2 + 1) (by omega) _ T.messageExtension me ver1 me' ver2 hme
    obtain ⟨hopc, hoplt⟩ := Int.toNat_cast_of_u32 hop
    obtain ⟨hstc, hstlt⟩ := Int.toNat_cast_of_u32 hst
    obtain ⟨hrsc, hrslt⟩ := Int.toNat_cast_of_u32 hrs
    refine ⟨[.struct T.batchItem (
          (if op.toNat ≠ 0 then [Item.enum T.operation op.toNat] else [])
          ++ bidItems T.uniqueBatchItemID (.bytes bid)
          ++ [Item.enum T.resultStatus st.toNat]
          ++ (if st.toNat = 1 ∨ rs.toNat ≠ 0 then [Item.enum T.resultReason rs.toNat] else [])
          ++ textItems T.resultMessage (.text msg)
          ++ bidItems T.asyncCorrelationValue (.bytes acv) ++ plI ++ meI)], _, _, rfl, rfl, ?_, ?_, ?_, ?_, rfl, ?_⟩
    · rw [encCustom_response]
      simp only [Val.field, List.getD_cons_succ, List.getD_cons_zero, hple, Res.ok_bind, hmee, Res.pure_eq,
        Val.asInt]
    · rw [encCustom_response]
      simp only [Val.field, List.getD_cons_succ, List.getD_cons_zero, hple', Res.ok_bind, hmee', Res.pure_eq,
        Val.asInt, bidItems_normBid]
    · rw [normCustom_response']
      simp only [decide_true, hop, hst, hrs, hplok', Bool.and_self, if_true, hpln, hmen, normBid_idem]
    · intro x hx; rw [List.mem_singleton.1 hx]; rfl
    · intro _ hr fd rs0 hfd
      have hri := (Item.allInRange_singleton _).1 hr
      rw [Item.InRange] at hri
      obtain ⟨_, _, _, hinner⟩ := hri
      have hin1 := (Item.allInRange_append _ meI).1 hinner
      have hin2 := (Item.allInRange_append _ plI).1 hin1.1
      simp only [Val.depth, Val.depthList] at hfd
      have hmd := Val.depth_pos me
      have hpd := Val.depth_pos pl
      obtain ⟨f, rfl, hf⟩ := fuel_succ (by omega : 5 + 1 ≤ fd)
      obtain ⟨f1, rfl, hf1⟩ := fuel_succ (by omega : 4 + 1 ≤ f)
      obtain ⟨f2, rfl, hf2⟩ := fuel_succ (by omega : 3 + 1 ≤ f1)
      rw [decCustom_response]
      obtain ⟨inner, hI⟩ : ∃ inner, inner = (
          (if op.toNat ≠ 0 then [Item.enum T.operation op.toNat] else [])
          ++ bidItems T.uniqueBatchItemID (.bytes bid)
          ++ [Item.enum T.resultStatus st.toNat]
          ++ (if st.toNat = 1 ∨ rs.toNat ≠ 0 then [Item.enum T.resultReason rs.toNat] else [])
          ++ textItems T.resultMessage (.text msg)
          ++ bidItems T.asyncCorrelationValue (.bytes acv) ++ plI ++ meI) := ⟨_, rfl⟩
      rw [← hI] at hinner ⊢
      have hexp : (Cur.of ([Item.struct T.batchItem inner].map Item.raw ++ rs0)).expect 1 T.batchItem
          = .ok (Item.struct T.batchItem inner).raw := Cur.expect_of (.struct T.batchItem inner) rs0
      have hstart : Cur.start (Item.struct T.batchItem inner).raw.val = .ok (Cur.of (inner.map Item.raw)) :=
        Cur.start_encList _ hinner
      have hnext : (Cur.of ([Item.struct T.batchItem inner].map Item.raw ++ rs0)).next = .ok (Cur.of rs0) :=
        Cur.next_of _ rs0
      simp only [hexp, Res.ok_bind, hstart, hnext]
      rw [hI]
      obtain ⟨t0, ht0⟩ := isEnum_iff hs0
      obtain ⟨t2, ht2⟩ := isEnum_iff hs2
      obtain ⟨t3, ht3⟩ := isEnum_iff hs3
      -- the items of the structure, as a right-nested list of raw items
      have hl : (((if op.toNat ≠ 0 then [Item.enum T.operation op.toNat] else [])
          ++ bidItems T.uniqueBatchItemID (.bytes bid)
          ++ [Item.enum T.resultStatus st.toNat]
          ++ (if st.toNat = 1 ∨ rs.toNat ≠ 0 then [Item.enum T.resultReason rs.toNat] else [])
          ++ textItems T.resultMessage (.text msg)
          ++ bidItems T.asyncCorrelationValue (.bytes acv) ++ plI ++ meI).map Item.raw)
          = (if op.toNat ≠ 0 then [Item.enum T.operation op.toNat] else []).map Item.raw
            ++ ((bidItems T.uniqueBatchItemID (.bytes bid)).map Item.raw
            ++ ((Item.enum T.resultStatus st.toNat).raw
            :: ((if st.toNat = 1 ∨ rs.toNat ≠ 0 then [Item.enum T.resultReason rs.toNat] else []).map Item.raw
            ++ ((textItems T.resultMessage (.text msg)).map Item.raw
            ++ ((bidItems T.asyncCorrelationValue (.bytes acv)).map Item.raw
            ++ (plI.map Item.raw ++ (meI.map Item.raw ++ []))))))) := by
        simp only [List.map_append, List.map_cons, List.map_nil, List.cons_append, List.nil_append,
          List.append_assoc, List.append_nil]
      rw [hl]
      -- what can follow each optional item
      have h7 : HT (meI.map Item.raw ++ []) [T.messageExtension] := HT_app hmet (HT_nil _)
      have h6 := HT_app hplt h7
      have h5 := HT_app (bidItems_tags T.asyncCorrelationValue (.bytes acv)) h6
      have h4 := HT_app (textItems_tags T.resultMessage (.text msg)) h5
      have h2 := HT_app (bidItems_tags T.uniqueBatchItemID (.bytes bid))
        (HT_cons' (t := T.resultStatus) (it := Item.enum T.resultStatus st.toNat) rfl ((if st.toNat = 1 ∨ rs.toNat ≠ 0 then
          [Item.enum T.resultReason rs.toNat] else []).map Item.raw
            ++ ((textItems T.resultMessage (.text msg)).map Item.raw
            ++ ((bidItems T.asyncCorrelationValue (.bytes acv)).map Item.raw
            ++ (plI.map Item.raw ++ (meI.map Item.raw ++ []))))) [])
      -- 1. Operation (optional)
      rw [ht0, decOpt_enumOpt S _ t0 T.operation op.toNat (op.toNat ≠ 0) _ ver hoplt
        (fun hc => Decidable.not_not.1 hc) (HT_ne h2 (by decide) (by decide))]
      simp only [Res.ok_bind]
      -- 2. UniqueBatchItemID (optional), 3. ResultStatus
      rw [decOpt_bid S _ T.uniqueBatchItemID bid _ ver
        (by show T.resultStatus ≠ T.uniqueBatchItemID; decide)]
      simp only [Res.ok_bind]
      rw [ht2, decK_enum_raw S _ t2 T.resultStatus st.toNat _ ver hstlt]
      simp only [Res.ok_bind]
      -- 4. ResultReason (optional), 5. ResultMessage (optional), 6. AsynchronousCorrelationValue (optional)
      rw [ht3, decOpt_enumOpt S _ t3 T.resultReason rs.toNat (st.toNat = 1 ∨ rs.toNat ≠ 0) _ ver hrslt
        (fun hc => by omega) (HT_ne h4 (by decide) (by decide))]
      simp only [Res.ok_bind]
      rw [decOpt_textOpt S _ T.resultMessage msg _ ver (HT_ne h5 (by decide) (by decide))]
      simp only [Res.ok_bind]
      rw [decOpt_bid S _ T.asyncCorrelationValue acv _ ver (HT_ne h6 (by decide) (by decide))]
      simp only [Res.ok_bind, Val.asInt, hopc]
      -- 7. ResponsePayload (when the operation is known), 8. MessageExtension
      have hstep := hpld hin2.2 (f2 + 2) (meI.map Item.raw ++ []) (HT_ne h7 (by decide) (by decide)) (by omega)
      have hmd' := hmed hsd hin1.2 (f2 + 1) [] (by omega) (Or.inr (by decide))
      split
      · rename_i hc
        rw [if_pos hc] at hstep
        rw [hstep]
        simp only [Res.ok_bind]
        rw [hs7, decOpt_ptr_eq, hmd']
        simp only [Res.ok_bind, Res.pure_eq, hstc, hrsc]
      · rename_i hc
        rw [if_neg hc] at hstep
        simp only [Res.ok.injEq, Prod.mk.injEq] at hstep
        obtain ⟨e1, e2, e3⟩ := hstep
        rw [e2, hs7, decOpt_ptr_eq, e3, hmd']
        simp only [Res.ok_bind, Res.pure_eq, hstc, hrsc, e1]
  · contradiction


/-! ## All hand-written encoders -/

theorem pcust (S : Schema) (hU : S.unambiguous = true) (n : Nat) (hK : ∀ m, m < n → PK S m) : PCust S n := by
  intro id tag v ver v' ver' hec hsok h
  by_cases hdc : (S.structDef id).decCustom = true
  · rw [hdc]
    simp only [Schema.structOK, hdc, if_true] at hsok
    unfold Schema.customShapeOK at hsok
    by_cases h1 : (S.structDef id).custom = Cust.requestBatchItem
    · simp only [h1, if_true, Bool.and_eq_true, beq_iff_eq] at hsok
      rw [h1] at h ⊢
      exact cust_request S hU n hK id tag v ver v' ver' hsok.1.1.2 hsok.1.2 hsok.2 h
    · by_cases h2 : (S.structDef id).custom = Cust.responseBatchItem
      · have hne : ¬ Cust.responseBatchItem = Cust.requestBatchItem := by decide
        simp only [h2, hne, if_false, if_true] at hsok
        simp only [Bool.and_eq_true, beq_iff_eq] at hsok
        rw [h2] at h ⊢
        exact cust_response S hU n hK id tag v ver v' ver' hsok.1.1.1.1.2 hsok.1.1.1.2 hsok.1.1.2
          hsok.1.2 hsok.2 h
      · by_cases h5 : (S.structDef id).custom = Cust.unknownPayload
        · rw [h5] at h ⊢
          exact cust_unknown S n id tag v ver v' ver' true h
        · -- every other decoder is for a reflectively encoded struct
          exfalso
          simp only [h1, h2, h5, if_false, hec, Bool.not_true, Bool.false_and] at hsok
          repeat (first | contradiction | (split at hsok))
  · have hdc' : (S.structDef id).decCustom = false := by simpa using hdc
    rw [hdc']
    simp only [Schema.structOK, hdc', Bool.false_eq_true, if_false, hec, if_true, Bool.or_eq_true,
      beq_iff_eq] at hsok
    have hu : isUnionCode (S.structDef id).custom := by
      rcases hsok with (h3 | h8) | h9
      · exact Or.inl h3
      · exact Or.inr (Or.inl h8)
      · exact Or.inr (Or.inr h9)
    exact cust_union S n hK _ id tag hu v ver v' ver' h

end Kmip
