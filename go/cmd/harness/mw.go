package main

// Engine `mw` — C19: middleware chains run in order and are re-entrant.
//
// A middleware (stage) is a small program (see lean/Driver/Middleware.lean for the grammar shared with
// the model); a message carries an integer token AND the operation it requests, a context carries an
// integer token, so that what every stage RECEIVES is observable; the operation handlers are scripts.
// On the server, operation 1 (Activate) and operation 2 (Revoke) are routed to two DISTINCT handlers,
// operation 3 (Archive) has no handler; every handler logs who it is, the token and the TYPE of the
// payload it was given; the operation echoed by every response item is part of the result tokens.
// For each case the engine
//   - installs the stage programs as REAL middlewares of a real kmipclient.Client (WithMiddlewares),
//     of a real kmipserver.BatchExecutor message chain (Use) or batch item chain (BatchItemUse),
//     runs Client.Roundtrip / BatchExecutor.HandleRequest and records the trace;
//   - predicts result and trace with a reference interpreter of plain nested composition
//     (stage0(stage1(... core))) and checks the real trace against it and against the grammar of
//     well-nested traces (oracle C19, independent of the Lean model);
//   - registers the line `mw.run <kind> <chain> <core> <m0>,<c0>,<op0>` to be answered by the Lean
//     `runImpl`;
//   - re-runs all the requests of a chain concurrently from several goroutines sharing the chain;
//   - (server stages) re-reads the request header through the stage's OWN context after every call of
//     next and on return: it must not change under the stage (oracle stage-context-stable);
//   - mwoverlap.go: overlapping invocations of next within one request, and aliasing of the registered
//     chain with the caller's slices (impl-side scenarios, not expressible in the sequential model).
// Only the public API of the library is used.

import (
	"bytes"
	"context"
	"encoding/binary"
	"errors"
	"fmt"
	"io"
	"log/slog"
	"net"
	"os"
	"os/exec"
	"path/filepath"
	"reflect"
	"runtime"
	"strconv"
	"strings"
	"sync"
	"sync/atomic"
	"time"

	kmip "github.com/ovh/kmip-go"
	"github.com/ovh/kmip-go/kmipclient"
	"github.com/ovh/kmip-go/kmipserver"
	"github.com/ovh/kmip-go/payloads"
	"github.com/ovh/kmip-go/ttlv"

	"verifharness/internal/report"
	"verifharness/internal/rng"
)

// ---------------------------------------------------------------------------------------------
// token level: programs, scripts, events (fixtures shared by the real adapters and the reference)

const (
	mwNil      = -1 // nil resp / nil err
	mwFailBase = 1000
	mwLibErr   = 999
)

// mwMsg: a request (message or batch item): its token and the operation it requests.
type mwMsg struct{ tok, op int }

func (m mwMsg) String() string { return strconv.Itoa(m.tok) + "@" + strconv.Itoa(m.op) }

// mwR is (resp, err) as tokens; rop is the operation echoed by the response (0 when resp is nil).
type mwR struct{ resp, rop, err int }

var mwNilR = mwR{mwNil, 0, mwNil}

func (r mwR) isFail() bool { return r.err != mwNil || r.resp >= mwFailBase }

func mwOpt(v int) string {
	if v == mwNil {
		return "n"
	}
	return strconv.Itoa(v)
}
func (r mwR) String() string {
	if r.resp == mwNil {
		return "n/" + mwOpt(r.err)
	}
	return strconv.Itoa(r.resp) + "@" + strconv.Itoa(r.rop) + "/" + mwOpt(r.err)
}

type mwTr struct {
	konst bool
	v     int
}

func (t mwTr) app(x int) int {
	if t.konst {
		return t.v
	}
	return x*10 + t.v
}

type mwRet struct {
	mode  byte // 'l' last, 'e' (nil, err), 's' (resp, nil), 'F' fixed
	fixed mwR
}

func (rt mwRet) eval(last mwR) mwR {
	switch rt.mode {
	case 'e':
		return mwR{mwNil, 0, last.err}
	case 's':
		return mwR{last.resp, last.rop, mwNil}
	case 'F':
		return rt.fixed
	}
	return last
}

type mwAct struct {
	op  string // c f m o x r rf ro
	tr  mwTr
	v   int // o: the new operation
	ret mwRet
}

type mwStage struct {
	id   int
	body []mwAct
	// lib != "": one of the library's own middlewares instead of a program (not instrumented: it logs
	// no events): "cdebug" kmipclient.DebugMiddleware, "timeout" / "timeout0" kmipclient.TimeoutMiddleware,
	// "corr" kmipclient.CorrelationValueMiddleware, "sdebug" kmipserver.DebugMiddleware
	lib string
}

type mwOut struct {
	ok bool
	v  int
}

func (o mwOut) String() string {
	if o.ok {
		return "o" + strconv.Itoa(o.v)
	}
	return "e" + strconv.Itoa(o.v)
}

type mwCore struct {
	outs []mwOut
	dflt mwOut
	rej  []int
}

type mwCase struct {
	// client | srvmsg | srvitem: one request through one chain;
	// srvboth: one request through the message chain `chain` AND the item chain `ichain` (ids 101…);
	// srvitems: one batch of several `items` through the item chain `chain` (m0.tok = header marker)
	kind      string
	chain     []mwStage
	chainSrc  string
	ichain    []mwStage
	ichainSrc string
	core      mwCore
	coreSrc   string
	m0        mwMsg
	c0        int
	items     []mwMsg
	hm        int // where the server makes the batch context, probed on the real code: 0 entry, 1 core
}

func (cs *mwCase) line() string {
	switch cs.kind {
	case "srvboth":
		return fmt.Sprintf("mw.both %s %s %s %d,%d,%d,%d", cs.chainSrc, cs.ichainSrc, cs.coreSrc, cs.m0.tok, cs.c0, cs.m0.op, cs.hm)
	case "srvitems":
		p := make([]string, len(cs.items))
		for i, it := range cs.items {
			p[i] = it.String()
		}
		return fmt.Sprintf("mw.items %s %s %d,%d %s", cs.chainSrc, cs.coreSrc, cs.c0, cs.m0.tok, strings.Join(p, ";"))
	case "srvmsg":
		return fmt.Sprintf("mw.run %s %s %s %d,%d,%d,%d", cs.kind, cs.chainSrc, cs.coreSrc, cs.m0.tok, cs.c0, cs.m0.op, cs.hm)
	}
	return fmt.Sprintf("mw.run %s %s %s %d,%d,%d", cs.kind, cs.chainSrc, cs.coreSrc, cs.m0.tok, cs.c0, cs.m0.op)
}

// hdrFor: the request header the handlers' context reports while the core handler of the message
// chain executes message m (see Kmip.Mw.hdrFn).
func (cs *mwCase) hdrFor(m mwMsg) int {
	switch cs.kind {
	case "client":
		return 0
	case "srvmsg", "srvboth":
		if cs.hm == 1 {
			return m.tok
		}
	}
	return cs.m0.tok
}

// coreKind: the kind of the innermost continuation that invokes the handlers.
func (cs *mwCase) coreKind() string {
	switch cs.kind {
	case "srvboth", "srvitems":
		return "srvitem"
	}
	return cs.kind
}

type mwEvent struct {
	k    byte // E C B X K
	id   int  // stage id, or invocation number for K
	hd   int  // K: the handler that ran
	m    mwMsg
	c, h int
	r    mwR
	out  mwOut
}

func (e mwEvent) String() string {
	switch e.k {
	case 'E', 'C':
		return fmt.Sprintf("%c%d:%s:%d", e.k, e.id, e.m, e.c)
	case 'B', 'X':
		return fmt.Sprintf("%c%d:%s", e.k, e.id, e.r)
	}
	return fmt.Sprintf("K%d:%d:%s:%d:%d:%s", e.id, e.hd, e.m, e.c, e.h, e.out)
}

// mwRec is the per-request recorder and the per-request state of the scripted handlers.
type mwRec struct {
	cs     *mwCase
	events []mwEvent
	calls  int
	notes  []string // observations of the adapters that do not fit the trace (marker mismatches…)
	yield  bool     // concurrent mode: yield the processor around every continuation call
	budget int      // reference interpreter only: abort when the trace grows beyond this
	over   bool
	netCtx int // real-transport variant: the context token seen at the transport boundary
	netID  uint64
	depth  int // nesting depth of the real adapters (runaway recursion guard)
	// the scripted transport saw a deadline on its context (kmipclient.TimeoutMiddleware upstream)
	sawDeadline bool
	// server stages: what a stage's OWN context reported changed while the stage was running (first cases)
	ctxDrift []string
}

// enter / leave guard the real adapters against a chain that recurses without end (a stack overflow
// cannot be recovered; a panic can).
func (rec *mwRec) enter() {
	rec.depth++
	if rec.depth > 4000 {
		panic("harness: runaway middleware recursion")
	}
}
func (rec *mwRec) leave() { rec.depth-- }

func (rec *mwRec) log(e mwEvent) {
	rec.events = append(rec.events, e)
	if rec.budget > 0 && len(rec.events) > rec.budget {
		rec.over = true
	}
	if rec.budget == 0 && len(rec.events) > 1<<20 {
		panic("harness: runaway middleware trace")
	}
}

func (rec *mwRec) note(s string) {
	if len(rec.notes) < 4 {
		rec.notes = append(rec.notes, s)
	}
}

// handlerRun plays the handler script for handler `hd`, given message m (token and payload type):
// the outcome depends on the invocation count and on the message token.
func (rec *mwRec) handlerRun(hd int, m mwMsg, c, h int) mwOut {
	n := rec.calls
	rec.calls++
	out := rec.cs.core.dflt
	if n < len(rec.cs.core.outs) {
		out = rec.cs.core.outs[n]
	}
	for _, x := range rec.cs.core.rej {
		if x == m.tok {
			out = mwOut{false, 9}
		}
	}
	rec.log(mwEvent{k: 'K', id: n, hd: hd, m: m, c: c, h: h, out: out})
	return out
}

// mwRouted / mwHandlerOf: the route table installed on the server (the client's transport takes
// every message).
func mwRouted(kind string, op int) bool { return kind == "client" || op == 1 || op == 2 }
func mwHandlerOf(kind string, op int) int {
	if kind == "client" {
		return 0
	}
	return op
}

// mwCoreResult: how an outcome of the handler that ran on a message requesting `op` reaches the last
// stage, per kind; the response echoes `op`.
func mwCoreResult(kind string, o mwOut, op int) mwR {
	if o.ok {
		return mwR{o.v, op, mwNil}
	}
	switch kind {
	case "client":
		return mwR{mwNil, 0, o.v}
	case "srvmsg":
		return mwR{mwFailBase + o.v, op, mwNil}
	}
	return mwR{0, op, o.v} // srvitem: executeItem returns the (empty) item together with the error
}

// mwFinish: what the entry point makes of the pair returned by the outermost stage (op0: the operation
// of the request the entry point was given).
func mwFinish(kind string, op0 int, r mwR) mwR {
	switch kind {
	case "srvmsg":
		if r.err != mwNil {
			return mwR{mwFailBase + r.err, 0, mwNil}
		}
		return mwR{r.resp, r.rop, mwNil}
	case "srvitem":
		switch {
		case r.resp == mwNil && r.err == mwNil:
			return mwR{mwFailBase + mwLibErr, op0, mwNil}
		case r.resp == mwNil:
			return mwR{mwFailBase + r.err, op0, mwNil}
		case r.err != mwNil:
			return mwR{mwFailBase + r.err, r.rop, mwNil}
		}
		return mwR{r.resp, r.rop, mwNil}
	}
	return r
}

// mwInterp runs a stage program against `call` (its continuation at token level) and tells how the
// stage returns: the return mode and the result of the latest call.
func mwInterp(st *mwStage, m mwMsg, c int, rec *mwRec, call func(m mwMsg, c int) mwR) (mwRet, mwR) {
	last := mwNilR
	do := func() {
		rec.log(mwEvent{k: 'C', id: st.id, m: m, c: c})
		last = call(m, c)
		rec.log(mwEvent{k: 'B', id: st.id, r: last})
	}
	for _, a := range st.body {
		if rec.over {
			break
		}
		switch a.op {
		case "m":
			m.tok = a.tr.app(m.tok)
		case "o":
			m.op = a.v
		case "x":
			c = a.tr.app(c)
		case "c":
			do()
		case "f":
			if last.isFail() {
				do()
			}
		case "r":
			return a.ret, last
		case "rf":
			if last.isFail() {
				return a.ret, last
			}
		case "ro":
			if !last.isFail() {
				return a.ret, last
			}
		}
	}
	return mwRet{mode: 'l'}, last
}

// ---------------------------------------------------------------------------------------------
// reference: plain nested composition, built from the inside out. The innermost continuation acts on
// the message IT IS GIVEN: the handler is the one registered for that message's operation.

type mwTokNext func(m mwMsg, c int) mwR

// mwLibRef: what the library's own middlewares are documented to do, at token level: all call next
// exactly once with what they received (the timeout one with a context derived from it);
// kmipserver.DebugMiddleware returns (nil, err) when next failed.
func mwLibRef(lib string, inner mwTokNext) mwTokNext {
	if lib == "sdebug" {
		return func(m mwMsg, c int) mwR {
			r := inner(m, c)
			if r.err != mwNil {
				return mwR{mwNil, 0, r.err}
			}
			return r
		}
	}
	return inner
}

func mwCompose(rec *mwRec, chain []mwStage, inner mwTokNext) mwTokNext {
	next := inner
	for i := len(chain) - 1; i >= 0; i-- {
		st, in := &chain[i], next
		if st.lib != "" {
			next = mwLibRef(st.lib, in)
			continue
		}
		next = func(m mwMsg, c int) mwR {
			rec.log(mwEvent{k: 'E', id: st.id, m: m, c: c})
			rt, last := mwInterp(st, m, c, rec, in)
			r := rt.eval(last)
			rec.log(mwEvent{k: 'X', id: st.id, r: r})
			return r
		}
	}
	return next
}

func mwReference(cs *mwCase, budget int) ([]mwR, []mwEvent, bool) {
	rec := &mwRec{cs: cs, budget: budget}
	ck := cs.coreKind()
	handlers := func(h int) mwTokNext {
		return func(m mwMsg, c int) mwR {
			if !mwRouted(ck, m.op) {
				return mwCoreResult(ck, mwOut{false, mwLibErr}, m.op) // operation not supported
			}
			return mwCoreResult(ck, rec.handlerRun(mwHandlerOf(ck, m.op), m, c, h), m.op)
		}
	}
	var finals []mwR
	switch cs.kind {
	case "srvitems":
		next := mwCompose(rec, cs.chain, handlers(cs.m0.tok))
		for _, it := range cs.items {
			finals = append(finals, mwFinish("srvitem", it.op, next(it, cs.c0)))
		}
	case "srvboth":
		next := mwCompose(rec, cs.chain, func(m mwMsg, c int) mwR {
			return mwFinish("srvitem", m.op, mwCompose(rec, cs.ichain, handlers(cs.hdrFor(m)))(m, c))
		})
		finals = []mwR{mwFinish("srvmsg", cs.m0.op, next(cs.m0, cs.c0))}
	default:
		next := mwCompose(rec, cs.chain, func(m mwMsg, c int) mwR { return handlers(cs.hdrFor(m))(m, c) })
		finals = []mwR{mwFinish(cs.kind, cs.m0.op, next(cs.m0, cs.c0))}
	}
	return finals, rec.events, rec.over
}

func mwRender(rs []mwR, evs []mwEvent) string {
	var sb strings.Builder
	sb.WriteString("ok ")
	if len(rs) == 0 {
		sb.WriteByte('-')
	}
	for i, r := range rs {
		if i > 0 {
			sb.WriteByte(';')
		}
		sb.WriteString(r.String())
	}
	sb.WriteByte(' ')
	if len(evs) == 0 {
		sb.WriteByte('-')
	}
	for i, e := range evs {
		if i > 0 {
			sb.WriteByte(',')
		}
		sb.WriteString(e.String())
	}
	return sb.String()
}

// mwCheckNested parses a trace against the grammar of well-nested executions of the instrumented
// stages; it does not know the stage programs. Returns "" or (oracle, description), and separately a
// description of the first handler invocation whose context reported a header other than the one of
// the message being executed.
func mwCheckNested(cs *mwCase, finals []mwR, evs []mwEvent) (oracle, msg, hdr string) {
	pos := 0
	fail := func(o, format string, a ...any) {
		if oracle == "" {
			oracle, msg = o, fmt.Sprintf("event %d: ", pos)+fmt.Sprintf(format, a...)
		}
	}
	ck := cs.coreKind()
	// the innermost continuation was given (m, c) while message `exec` is being executed
	handlers := func(exec mwMsg, isMsgLevel bool) mwTokNext {
		return func(m mwMsg, c int) mwR {
			if !mwRouted(ck, m.op) {
				// (a handler event for THIS message: with an empty chain the next event may be the handler
				// invocation of the following item of the batch)
				if pos < len(evs) && evs[pos].k == 'K' && evs[pos].m == m {
					fail("substitution", "handler %d ran although the message passed on requests operation %d, which has no handler", evs[pos].hd, m.op)
				}
				return mwCoreResult(ck, mwOut{false, mwLibErr}, m.op)
			}
			if pos >= len(evs) || evs[pos].k != 'K' {
				got := "the end of the trace"
				if pos < len(evs) {
					got = evs[pos].String()
				}
				fail("substitution", "no handler ran on the message passed on (%s, operation %d has handler %d); got %s", m, m.op, mwHandlerOf(ck, m.op), got)
				return mwR{}
			}
			e := evs[pos]
			if e.hd != mwHandlerOf(ck, m.op) {
				fail("substitution", "handler %d ran, but the message passed on requests operation %d (handler %d)", e.hd, m.op, mwHandlerOf(ck, m.op))
			}
			if e.m != m || e.c != c {
				fail("substitution", "handler received %s:%d, its predecessor passed %s:%d", e.m, e.c, m, c)
			}
			if isMsgLevel && e.h != exec.tok && hdr == "" {
				hdr = fmt.Sprintf("event %d: handler %d executes (an item of) the message with header marker %d, passed on by the last message middleware, but GetRequestHeader(ctx) reports the header with marker %d (the message HandleRequest was called with)", pos, e.hd, exec.tok, e.h)
			}
			pos++
			return mwCoreResult(ck, e.out, m.op)
		}
	}
	var run func(chain []mwStage, level int, m mwMsg, c int, inner mwTokNext) mwR
	run = func(chain []mwStage, level int, m mwMsg, c int, inner mwTokNext) mwR {
		if oracle != "" {
			return mwR{}
		}
		for level < len(chain) && chain[level].lib != "" {
			// the library's own middlewares are not instrumented: what they pass on is checked by the
			// reference interpreter only (mwLibRef)
			in, lib := inner, chain[level].lib
			rest := level + 1
			return mwLibRef(lib, func(m mwMsg, c int) mwR { return run(chain, rest, m, c, in) })(m, c)
		}
		if level == len(chain) {
			return inner(m, c)
		}
		if pos >= len(evs) {
			fail("order", "trace ends where stage %d should start", chain[level].id)
			return mwR{}
		}
		e := evs[pos]
		id := chain[level].id
		if e.k != 'E' || e.id != id {
			fail("order", "expected stage %d to be entered, got %s", id, e)
			return mwR{}
		}
		if e.m != m || e.c != c {
			fail("substitution", "stage %d received %s:%d, its predecessor passed %s:%d", id, e.m, e.c, m, c)
		}
		pos++
		for oracle == "" {
			if pos >= len(evs) {
				fail("order", "trace ends inside stage %d", id)
				return mwR{}
			}
			e := evs[pos]
			switch {
			case e.k == 'C' && e.id == id:
				pos++
				r := run(chain, level+1, e.m, e.c, inner)
				if oracle != "" {
					return mwR{}
				}
				if pos >= len(evs) || evs[pos].k != 'B' || evs[pos].id != id {
					fail("order", "call of stage %d is not followed by exactly one execution of the remainder", id)
					return mwR{}
				}
				if evs[pos].r != r {
					fail("result-propagation", "stage %d got back %s, its successor returned %s", id, evs[pos].r, r)
				}
				pos++
			case e.k == 'X' && e.id == id:
				pos++
				return e.r
			default:
				fail("order", "unexpected %s inside stage %d", e, id)
			}
		}
		return mwR{}
	}
	var got []mwR
	switch cs.kind {
	case "srvitems":
		for _, it := range cs.items {
			got = append(got, mwFinish("srvitem", it.op, run(cs.chain, 0, it, cs.c0, handlers(cs.m0, true))))
		}
	case "srvboth":
		got = []mwR{mwFinish("srvmsg", cs.m0.op, run(cs.chain, 0, cs.m0, cs.c0, func(m mwMsg, c int) mwR {
			return mwFinish("srvitem", m.op, run(cs.ichain, 0, m, c, handlers(m, true)))
		}))}
	default:
		got = []mwR{mwFinish(cs.kind, cs.m0.op, run(cs.chain, 0, cs.m0, cs.c0, func(m mwMsg, c int) mwR {
			return handlers(m, cs.kind == "srvmsg")(m, c)
		}))}
	}
	if oracle == "" && pos != len(evs) {
		fail("order", "%d events after the end of the outermost stage", len(evs)-pos)
	}
	if oracle == "" {
		if len(got) != len(finals) {
			fail("entry-point", "%d results for %d requests", len(finals), len(got))
		} else {
			for i := range got {
				if got[i] != finals[i] {
					fail("entry-point", "outermost stage returned %s (after the entry point's own treatment) for request %d but the entry point returned %s", got[i], i, finals[i])
					break
				}
			}
		}
	}
	return oracle, msg, hdr
}

// mwStraightProduct: for chains of unconditional programs that keep a routed operation, the product
// of the numbers of calls.
func mwStraightProduct(cs *mwCase) (int, bool) {
	if cs.kind == "srvitems" || !mwRouted(cs.kind, cs.m0.op) {
		return 0, false
	}
	p := 1
	for _, st := range append(append([]mwStage{}, cs.chain...), cs.ichain...) {
		if st.lib != "" {
			continue
		}
		k := 0
	body:
		for _, a := range st.body {
			switch a.op {
			case "f", "rf", "ro", "o":
				return 0, false
			case "c":
				k++
			case "r":
				break body
			}
		}
		p *= k
	}
	return p, true
}

// ---------------------------------------------------------------------------------------------
// real objects carrying the tokens

type mwCtxKey struct{}
type mwRecKey struct{}

// Scripted errors travel as kmipserver.Error values whose REASON carries the code: the reason is what
// the library must copy into a failed response item (errors.As in handleBatchItemError), and what a
// client gets back in ResultReason; the ResultMessage text is never read (the library is free to stop
// echoing error texts). Codes 0..998; anything else (errors made by the library itself: operation
// not supported, no response item, transport failures) reads as mwLibErr.
const mwReasonBase = 0x70000000

func mwMkErr(tok int) error {
	if tok == mwNil {
		return nil
	}
	return kmipserver.Error{Reason: kmip.ResultReason(mwReasonBase + tok), Message: "scripted"}
}

func mwReasonCode(r kmip.ResultReason) int {
	if v := int64(r) - mwReasonBase; v >= 0 && v < mwLibErr {
		return int(v)
	}
	return mwLibErr
}

func mwErrTok(err error) int {
	if err == nil {
		return mwNil
	}
	var e kmipserver.Error
	if errors.As(err, &e) {
		return mwReasonCode(e.Reason)
	}
	return mwLibErr
}

func mwCtxTok(ctx context.Context) int {
	if v, ok := ctx.Value(mwCtxKey{}).(int); ok {
		return v
	}
	return -7
}

func mwRecOf(ctx context.Context) *mwRec {
	rec, _ := ctx.Value(mwRecKey{}).(*mwRec)
	if rec == nil {
		panic("harness: context without recorder")
	}
	return rec
}

// mwCtxView: what the library's accessors report on a server stage's OWN context — the request header
// (GetRequestHeader; GetProtocolVersion is its ProtocolVersion field, read separately). A stage keeps
// "the context passed on by its predecessor" (C19): whatever the inner stages and the core handler do
// — execute another message, execute several — must not show through the context value this stage
// was given. The ID placeholder is NOT part of the view: the items of one batch share it by design.
type mwCtxView struct {
	ok  bool // in a batch context
	hdr kmip.RequestHeader
	ver kmip.ProtocolVersion
}

func mwViewCtx(ctx context.Context) (v mwCtxView) {
	defer func() {
		if recover() != nil {
			v = mwCtxView{}
		}
	}()
	return mwCtxView{ok: true, hdr: kmipserver.GetRequestHeader(ctx), ver: kmipserver.GetProtocolVersion(ctx)}
}

func (v mwCtxView) String() string {
	if !v.ok {
		return "(no batch context)"
	}
	return fmt.Sprintf("{header marker %q, header version %d.%d, batch count %d, GetProtocolVersion %d.%d}", v.hdr.ClientCorrelationValue,
		v.hdr.ProtocolVersion.ProtocolVersionMajor, v.hdr.ProtocolVersion.ProtocolVersionMinor, v.hdr.BatchCount, v.ver.ProtocolVersionMajor, v.ver.ProtocolVersionMinor)
}

// mwCtxWatch compares the view of a stage's own context with the one taken when the stage was entered.
type mwCtxWatch struct {
	on    bool
	rec   *mwRec
	st    *mwStage
	ctx   context.Context
	first mwCtxView
}

func mwWatchCtx(rec *mwRec, st *mwStage, ctx context.Context) *mwCtxWatch {
	w := &mwCtxWatch{on: rec.cs.kind != "client", rec: rec, st: st, ctx: ctx}
	if w.on {
		w.first = mwViewCtx(ctx)
	}
	return w
}

func (w *mwCtxWatch) check(when string, n int) {
	if !w.on || len(w.rec.ctxDrift) >= 2 {
		return
	}
	if now := mwViewCtx(w.ctx); !reflect.DeepEqual(now, w.first) {
		if n >= 0 {
			when += " " + strconv.Itoa(n)
		}
		w.rec.ctxDrift = append(w.rec.ctxDrift, fmt.Sprintf("stage %d, %s: the accessors on the context this stage RECEIVED now report %s; when the stage was entered they reported %s", w.st.id, when, now, w.first))
	}
}

func mwAtoi(s string) int {
	v, err := strconv.Atoi(s)
	if err != nil {
		return -9
	}
	return v
}

// operations: 1 = Activate, 2 = Revoke (both routed on the server, to distinct handlers),
// 3 = Archive (never routed); 0 = no operation; anything else maps to 8.
func mwOperation(op int) kmip.Operation {
	switch op {
	case 1:
		return kmip.OperationActivate
	case 2:
		return kmip.OperationRevoke
	case 3:
		return kmip.OperationArchive
	}
	return 0
}

func mwOpOf(o kmip.Operation) int {
	switch o {
	case kmip.OperationActivate:
		return 1
	case kmip.OperationRevoke:
		return 2
	case kmip.OperationArchive:
		return 3
	case 0:
		return 0
	}
	return 8
}

// mwReqPayload builds the request payload TYPE of operation op carrying token tok.
func mwReqPayload(m mwMsg) kmip.OperationPayload {
	s := strconv.Itoa(m.tok)
	switch m.op {
	case 2:
		return &payloads.RevokeRequestPayload{UniqueIdentifier: s, RevocationReason: kmip.RevocationReason{RevocationReasonCode: kmip.RevocationReasonCodeUnspecified}}
	case 3:
		return &payloads.ArchiveRequestPayload{UniqueIdentifier: s}
	}
	return &payloads.ActivateRequestPayload{UniqueIdentifier: s}
}

// mwPayloadMsg reads token and payload type from a request payload.
func mwPayloadMsg(pl kmip.OperationPayload) mwMsg {
	switch p := pl.(type) {
	case *payloads.ActivateRequestPayload:
		if p != nil {
			return mwMsg{mwAtoi(p.UniqueIdentifier), 1}
		}
	case *payloads.RevokeRequestPayload:
		if p != nil {
			return mwMsg{mwAtoi(p.UniqueIdentifier), 2}
		}
	case *payloads.ArchiveRequestPayload:
		if p != nil {
			return mwMsg{mwAtoi(p.UniqueIdentifier), 3}
		}
	}
	return mwMsg{-8, 8}
}

func mwMkItemReq(m mwMsg) *kmip.RequestBatchItem {
	return &kmip.RequestBatchItem{Operation: mwOperation(m.op), RequestPayload: mwReqPayload(m)}
}

// mwMkReq builds a brand-new request message carrying token m.tok (in the header and in the item) and
// requesting operation m.op.
func mwMkReq(m mwMsg) *kmip.RequestMessage {
	return &kmip.RequestMessage{
		Header:    kmip.RequestHeader{ProtocolVersion: kmip.V1_4, BatchCount: 1, ClientCorrelationValue: strconv.Itoa(m.tok)},
		BatchItem: []kmip.RequestBatchItem{*mwMkItemReq(m)},
	}
}

// mwMkBatchReq builds a request message with header marker h and one item per element of items.
func mwMkBatchReq(h int, items []mwMsg) *kmip.RequestMessage {
	msg := &kmip.RequestMessage{Header: kmip.RequestHeader{ProtocolVersion: kmip.V1_4, BatchCount: int32(len(items)), ClientCorrelationValue: strconv.Itoa(h)}}
	for _, it := range items {
		msg.BatchItem = append(msg.BatchItem, *mwMkItemReq(it))
	}
	return msg
}

func mwItemReqMsg(bi *kmip.RequestBatchItem, rec *mwRec) mwMsg {
	if bi == nil {
		return mwMsg{-8, 8}
	}
	m := mwPayloadMsg(bi.RequestPayload)
	if op := mwOpOf(bi.Operation); op != m.op {
		rec.note(fmt.Sprintf("item with operation %d and payload type %d", op, m.op))
	}
	return m
}

func mwReqMsg(msg *kmip.RequestMessage, rec *mwRec) mwMsg {
	if msg == nil || len(msg.BatchItem) != 1 {
		return mwMsg{-8, 8}
	}
	m := mwItemReqMsg(&msg.BatchItem[0], rec)
	if h := mwAtoi(msg.Header.ClientCorrelationValue); h != m.tok {
		rec.note(fmt.Sprintf("message with header marker %d and item marker %d", h, m.tok))
	}
	return m
}

// mwMkItemResp builds a response item echoing operation op for a token: 0 = no payload,
// >= failBase = failed item.
func mwMkItemResp(tok, op int) *kmip.ResponseBatchItem {
	if tok == mwNil {
		return nil
	}
	bi := &kmip.ResponseBatchItem{Operation: mwOperation(op)}
	switch {
	case tok >= mwFailBase:
		bi.ResultStatus = kmip.ResultStatusOperationFailed
		bi.ResultReason = kmip.ResultReason(mwReasonBase + tok - mwFailBase)
		bi.ResultMessage = "scripted failure"
	case tok > 0:
		s := strconv.Itoa(tok)
		switch op {
		case 2:
			bi.ResponsePayload = &payloads.RevokeResponsePayload{UniqueIdentifier: s}
		case 3:
			bi.ResponsePayload = &payloads.ArchiveResponsePayload{UniqueIdentifier: s}
		default:
			bi.ResponsePayload = &payloads.ActivateResponsePayload{UniqueIdentifier: s}
		}
	}
	return bi
}

// mwItemRespTok reads (token, echoed operation) from a response item.
func mwItemRespTok(bi *kmip.ResponseBatchItem) (int, int) {
	if bi == nil {
		return mwNil, 0
	}
	op := mwOpOf(bi.Operation)
	if bi.ResultStatus == kmip.ResultStatusOperationFailed {
		return mwFailBase + mwReasonCode(bi.ResultReason), op
	}
	switch p := bi.ResponsePayload.(type) {
	case *payloads.ActivateResponsePayload:
		if p != nil {
			return mwAtoi(p.UniqueIdentifier), op
		}
	case *payloads.RevokeResponsePayload:
		if p != nil {
			return mwAtoi(p.UniqueIdentifier), op
		}
	case *payloads.ArchiveResponsePayload:
		if p != nil {
			return mwAtoi(p.UniqueIdentifier), op
		}
	}
	return 0, op
}

func mwMkResp(tok, op int) *kmip.ResponseMessage {
	if tok == mwNil {
		return nil
	}
	return &kmip.ResponseMessage{
		Header:    kmip.ResponseHeader{ProtocolVersion: kmip.V1_4, BatchCount: 1},
		BatchItem: []kmip.ResponseBatchItem{*mwMkItemResp(tok, op)},
	}
}

func mwRespTok(resp *kmip.ResponseMessage) (int, int) {
	if resp == nil {
		return mwNil, 0
	}
	if len(resp.BatchItem) != 1 {
		return -8, 8
	}
	return mwItemRespTok(&resp.BatchItem[0])
}

func mwMsgR(resp *kmip.ResponseMessage, err error) mwR {
	t, o := mwRespTok(resp)
	return mwR{t, o, mwErrTok(err)}
}

func mwItemR(resp *kmip.ResponseBatchItem, err error) mwR {
	t, o := mwItemRespTok(resp)
	return mwR{t, o, mwErrTok(err)}
}

// ---------------------------------------------------------------------------------------------
// real adapters: a stage program as a real middleware

type mwMsgNext = func(context.Context, *kmip.RequestMessage) (*kmip.ResponseMessage, error)

// mwMsgStage is the body shared by the client and the server message middlewares (same signature up
// to the named continuation type).
func mwMsgStage(st *mwStage, next mwMsgNext, ctx context.Context, msg *kmip.RequestMessage) (*kmip.ResponseMessage, error) {
	rec := mwRecOf(ctx)
	rec.enter()
	defer rec.leave()
	m, c := mwReqMsg(msg, rec), mwCtxTok(ctx)
	rec.log(mwEvent{k: 'E', id: st.id, m: m, c: c})
	watch := mwWatchCtx(rec, st, ctx)
	defer watch.check("when it returns", -1)
	var lastResp *kmip.ResponseMessage
	var lastErr error
	ncalls := 0
	rt, _ := mwInterp(st, m, c, rec, func(m2 mwMsg, c2 int) mwR {
		ncalls++
		defer watch.check("after its call of next returned, call no.", ncalls)
		msg2, ctx2 := msg, ctx
		if m2 != m {
			msg2 = mwMkReq(m2) // never mutate the received message: build a new one
		}
		if c2 != c {
			ctx2 = context.WithValue(ctx, mwCtxKey{}, c2)
		}
		if rec.yield {
			runtime.Gosched()
		}
		lastResp, lastErr = next(ctx2, msg2)
		if rec.yield {
			runtime.Gosched()
		}
		return mwMsgR(lastResp, lastErr)
	})
	var resp *kmip.ResponseMessage
	var err error
	switch rt.mode {
	case 'l':
		resp, err = lastResp, lastErr
	case 'e':
		err = lastErr
	case 's':
		resp = lastResp
	case 'F':
		resp, err = mwMkResp(rt.fixed.resp, rt.fixed.rop), mwMkErr(rt.fixed.err)
	}
	rec.log(mwEvent{k: 'X', id: st.id, r: mwMsgR(resp, err)})
	return resp, err
}

func mwItemStage(st *mwStage, next kmipserver.BatchItemNext, ctx context.Context, bi *kmip.RequestBatchItem) (*kmip.ResponseBatchItem, error) {
	rec := mwRecOf(ctx)
	rec.enter()
	defer rec.leave()
	m, c := mwItemReqMsg(bi, rec), mwCtxTok(ctx)
	rec.log(mwEvent{k: 'E', id: st.id, m: m, c: c})
	watch := mwWatchCtx(rec, st, ctx)
	defer watch.check("when it returns", -1)
	var lastResp *kmip.ResponseBatchItem
	var lastErr error
	ncalls := 0
	rt, _ := mwInterp(st, m, c, rec, func(m2 mwMsg, c2 int) mwR {
		ncalls++
		defer watch.check("after its call of next returned, call no.", ncalls)
		bi2, ctx2 := bi, ctx
		if m2 != m {
			bi2 = mwMkItemReq(m2) // a new item: operation AND payload type of m2
		}
		if c2 != c {
			ctx2 = context.WithValue(ctx, mwCtxKey{}, c2)
		}
		if rec.yield {
			runtime.Gosched()
		}
		lastResp, lastErr = next(ctx2, bi2)
		if rec.yield {
			runtime.Gosched()
		}
		return mwItemR(lastResp, lastErr)
	})
	var resp *kmip.ResponseBatchItem
	var err error
	switch rt.mode {
	case 'l':
		resp, err = lastResp, lastErr
	case 'e':
		err = lastErr
	case 's':
		resp = lastResp
	case 'F':
		resp, err = mwMkItemResp(rt.fixed.resp, rt.fixed.rop), mwMkErr(rt.fixed.err)
	}
	rec.log(mwEvent{k: 'X', id: st.id, r: mwItemR(resp, err)})
	return resp, err
}

// mwHandler is a routed operation handler playing the handler script on the server; hd tells the
// handlers apart (handler 1 is routed for Activate, handler 2 for Revoke). It accepts whatever
// payload it is given and logs its type.
type mwHandler struct{ hd int }

func (hdl mwHandler) HandleOperation(ctx context.Context, req kmip.OperationPayload) (kmip.OperationPayload, error) {
	rec := mwRecOf(ctx)
	m := mwPayloadMsg(req)
	// the request header the handler's context reports
	h := mwAtoi(kmipserver.GetRequestHeader(ctx).ClientCorrelationValue)
	out := rec.handlerRun(hdl.hd, m, mwCtxTok(ctx), h)
	if out.ok {
		return mwMkItemResp(out.v, m.op).ResponsePayload, nil
	}
	return nil, mwMkErr(out.v)
}

// mwChain is one real chain shared by all the requests of a group.
type mwChain struct {
	kind   string
	client *kmipclient.Client // client chain ending in the scripted transport (a last middleware)
	net    *mwNet             // client chain ending in the REAL transport, served by a scripted responder
	exec   *kmipserver.BatchExecutor
	probe  *mwLibProbe
}

// mwNet: a client whose chain ends in Client.doRountrip over a net.Pipe. The other end of the pipe
// is served by a responder that plays the handler script of the request named in the message.
// An adapter installed as last middleware names the request (UniqueBatchItemID), notes the context
// token at the transport boundary, and maps a failed response to (nil, err) so that the observable
// behaviour is the one of the scripted transport.
type mwNet struct {
	client *kmipclient.Client
	recs   sync.Map // request id -> *mwRec
	nextID atomic.Uint64
}

func (n *mwNet) serve(conn net.Conn) {
	st := ttlv.NewStream(conn, -1)
	defer st.Close()
	for {
		var req kmip.RequestMessage
		if err := st.Recv(&req); err != nil {
			return
		}
		tok, op := mwFailBase+998, 0 // a message that names no request
		var id []byte
		if len(req.BatchItem) == 1 && len(req.BatchItem[0].UniqueBatchItemID) == 8 {
			id = req.BatchItem[0].UniqueBatchItemID
			if v, ok := n.recs.Load(binary.BigEndian.Uint64(id)); ok {
				rec := v.(*mwRec)
				m := mwReqMsg(&req, rec)
				out := rec.handlerRun(0, m, rec.netCtx, 0)
				tok, op = mwCoreResult("srvmsg", out, m.op).resp, m.op // an error travels as a failed item
			}
		}
		resp := mwMkResp(tok, op)
		resp.Header.TimeStamp = time.Now()
		resp.BatchItem[0].UniqueBatchItemID = id
		if err := st.Send(resp); err != nil {
			return
		}
	}
}

func (n *mwNet) adapter(next kmipclient.Next, ctx context.Context, msg *kmip.RequestMessage) (*kmip.ResponseMessage, error) {
	rec := mwRecOf(ctx)
	rec.netCtx = mwCtxTok(ctx)
	out := msg
	if msg != nil && len(msg.BatchItem) == 1 {
		cp := *msg
		cp.BatchItem = []kmip.RequestBatchItem{msg.BatchItem[0]}
		cp.BatchItem[0].UniqueBatchItemID = binary.BigEndian.AppendUint64(nil, rec.netID)
		out = &cp
	}
	resp, err := next(ctx, out)
	if err != nil {
		return nil, err // transport failure: not a token error, shows as code 999
	}
	if tok, _ := mwRespTok(resp); tok >= mwFailBase {
		return nil, mwMkErr(tok - mwFailBase)
	}
	return resp, nil
}

// mwLibProbe: what the engine observes of the library's own middlewares from outside.
type mwLibProbe struct {
	mu        sync.Mutex
	debugOut  bytes.Buffer // what the Debug middlewares wrote
	corrCalls int          // calls of the correlation value generator (the harness's messages carry a value)
}

// Write: the Debug middlewares of concurrent requests share the writer.
func (p *mwLibProbe) Write(b []byte) (int, error) {
	p.mu.Lock()
	defer p.mu.Unlock()
	return p.debugOut.Write(b)
}

type mwDeadlineKey struct{}

// the registration shapes (C19: "middlewares run in registration order" however they were registered)
const (
	mwShapeDefault  = iota // client: ONE WithMiddlewares(all...); server: one Use / BatchItemUse per stage
	mwShapeVariadic        // server: ONE variadic Use(all...) / BatchItemUse(all...); client: one option per stage
	mwShapeSplit           // the list split in two calls / options at every position (rotating)
	mwShapeClone           // client: CloneCtx of the client built with the default shape
	mwShapeCluster         // client: DialClusterContext instead of DialContext
	mwShapeThree           // three calls / options: first stage, the middle ones, last stage
	mwNShapes
)

func mwSplitPoints(n, shape, rot int) []int {
	switch shape {
	case mwShapeVariadic:
		return nil
	case mwShapeSplit:
		if n == 0 {
			return []int{0}
		}
		return []int{rot % (n + 1)}
	case mwShapeThree:
		if n >= 2 {
			return []int{1, n - 1}
		}
		return []int{0, n}
	}
	return nil
}

// mwGroups cuts list at the given increasing positions.
func mwCut[T any](list []T, at []int) [][]T {
	var out [][]T
	prev := 0
	for _, p := range at {
		out = append(out, list[prev:p])
		prev = p
	}
	return append(out, list[prev:])
}

func mwClientLib(lib string, probe *mwLibProbe) kmipclient.Middleware {
	switch lib {
	case "cdebug":
		return kmipclient.DebugMiddleware(probe, nil)
	case "timeout":
		return kmipclient.TimeoutMiddleware(time.Hour)
	case "timeout0":
		return kmipclient.TimeoutMiddleware(0)
	case "corr":
		return kmipclient.CorrelationValueMiddleware(func() string {
			probe.mu.Lock()
			probe.corrCalls++
			probe.mu.Unlock()
			return "generated"
		})
	}
	panic("harness: unknown client library middleware " + lib)
}

func mwBuild(cs *mwCase, shape, rot int) (*mwChain, error) {
	kind, chain := cs.kind, cs.chain
	ch := &mwChain{kind: kind, probe: &mwLibProbe{}}
	srvMsgStage := func(st *mwStage) kmipserver.Middleware {
		if st.lib == "sdebug" {
			return kmipserver.DebugMiddleware(ch.probe, nil)
		}
		return func(next kmipserver.Next, ctx context.Context, msg *kmip.RequestMessage) (*kmip.ResponseMessage, error) {
			return mwMsgStage(st, next, ctx, msg)
		}
	}
	srvItemStage := func(st *mwStage) kmipserver.BatchItemMiddleware {
		return func(next kmipserver.BatchItemNext, ctx context.Context, bi *kmip.RequestBatchItem) (*kmip.ResponseBatchItem, error) {
			return mwItemStage(st, next, ctx, bi)
		}
	}
	switch kind {
	case "client":
		var mws []kmipclient.Middleware
		for i := range chain {
			st := &chain[i]
			if st.lib != "" {
				mws = append(mws, mwClientLib(st.lib, ch.probe))
				continue
			}
			mws = append(mws, func(next kmipclient.Next, ctx context.Context, msg *kmip.RequestMessage) (*kmip.ResponseMessage, error) {
				return mwMsgStage(st, next, ctx, msg)
			})
		}
		// the scripted transport: a last middleware that never calls the real one
		mws = append(mws, func(_ kmipclient.Next, ctx context.Context, msg *kmip.RequestMessage) (*kmip.ResponseMessage, error) {
			rec := mwRecOf(ctx)
			m := mwReqMsg(msg, rec)
			if _, ok := ctx.Deadline(); ok {
				rec.sawDeadline = true
			}
			out := rec.handlerRun(0, m, mwCtxTok(ctx), 0)
			if out.ok {
				return mwMkResp(out.v, m.op), nil
			}
			return nil, mwMkErr(out.v)
		})
		// a *Client needs a connection: one end of a pipe whose other end is closed at once, so that a
		// chain that (wrongly) reaches the real transport fails instead of blocking.
		dialer := func(context.Context) (net.Conn, error) {
			a, b := net.Pipe()
			_ = b.Close()
			return a, nil
		}
		options := func(mws []kmipclient.Middleware, d kmipclient.DialerFunc) []kmipclient.Option {
			opts := []kmipclient.Option{kmipclient.EnforceVersion(kmip.V1_4), kmipclient.WithDialerUnsafe(d)}
			switch shape {
			case mwShapeVariadic: // one option per middleware
				for _, m := range mws {
					opts = append(opts, kmipclient.WithMiddlewares(m))
				}
			case mwShapeSplit, mwShapeThree:
				for _, part := range mwCut(mws, mwSplitPoints(len(mws), shape, rot)) {
					opts = append(opts, kmipclient.WithMiddlewares(part...))
				}
			default:
				opts = append(opts, kmipclient.WithMiddlewares(mws...))
			}
			return opts
		}
		dial := func(mws []kmipclient.Middleware, d kmipclient.DialerFunc) (*kmipclient.Client, error) {
			if shape == mwShapeCluster {
				opts := append(options(mws, d), kmipclient.WithRetryTimeout(time.Second))
				return kmipclient.DialClusterContext(context.Background(), []string{"pipe-a", "pipe-b"}, opts...)
			}
			cl, err := kmipclient.DialContext(context.Background(), "pipe", options(mws, d)...)
			if err == nil && shape == mwShapeClone {
				clone, err2 := cl.CloneCtx(context.Background())
				_ = cl.Close()
				return clone, err2
			}
			return cl, err
		}
		cl, err := dial(mws, dialer)
		if err != nil {
			return nil, err
		}
		ch.client = cl
		// the same stages in front of the real transport
		n := &mwNet{}
		netMws := append(append([]kmipclient.Middleware{}, mws[:len(mws)-1]...), n.adapter)
		netDialer := func(context.Context) (net.Conn, error) {
			a, b := net.Pipe()
			go n.serve(b)
			return a, nil
		}
		if n.client, err = dial(netMws, netDialer); err != nil {
			_ = cl.Close()
			return nil, err
		}
		ch.net = n
	case "srvmsg", "srvitem", "srvitems", "srvboth":
		ch.exec = kmipserver.NewBatchExecutor()
		var msgMws []kmipserver.Middleware
		var itemMws []kmipserver.BatchItemMiddleware
		ichain := cs.ichain
		if kind == "srvitem" || kind == "srvitems" {
			ichain = chain
		} else {
			for i := range chain {
				msgMws = append(msgMws, srvMsgStage(&chain[i]))
			}
		}
		for i := range ichain {
			itemMws = append(itemMws, srvItemStage(&ichain[i]))
		}
		switch shape {
		case mwShapeDefault:
			// interleave the registration of the two chains: they are independent lists
			for i := 0; i < len(msgMws) || i < len(itemMws); i++ {
				if i < len(itemMws) {
					ch.exec.BatchItemUse(itemMws[i])
				}
				if i < len(msgMws) {
					ch.exec.Use(msgMws[i])
				}
			}
		case mwShapeSplit, mwShapeThree:
			for _, part := range mwCut(msgMws, mwSplitPoints(len(msgMws), shape, rot)) {
				ch.exec.Use(part...)
			}
			for _, part := range mwCut(itemMws, mwSplitPoints(len(itemMws), shape, rot+1)) {
				ch.exec.BatchItemUse(part...)
			}
		default: // one variadic call each
			ch.exec.Use(msgMws...)
			ch.exec.BatchItemUse(itemMws...)
		}
	default:
		return nil, fmt.Errorf("unknown kind %q", kind)
	}
	if ch.exec != nil {
		// two routed operations with DISTINCT handlers; Archive (operation 3) stays unrouted
		ch.exec.Route(kmip.OperationActivate, mwHandler{1})
		ch.exec.Route(kmip.OperationRevoke, mwHandler{2})
	}
	return ch, nil
}

func (ch *mwChain) close() {
	if ch.client != nil {
		_ = ch.client.Close()
	}
	if ch.net != nil {
		_ = ch.net.client.Close()
	}
}

// run executes one request on the real chain and renders the canonical answer.
func (ch *mwChain) run(cs *mwCase, yield, realTransport bool) (answer string, rec *mwRec, finals []mwR, panicked string) {
	rec = &mwRec{cs: cs, yield: yield}
	ctx := context.WithValue(context.WithValue(context.Background(), mwRecKey{}, rec), mwCtxKey{}, cs.c0)
	finals, panicked = guard("mw", func() []mwR {
		if realTransport {
			rec.netID = ch.net.nextID.Add(1)
			ch.net.recs.Store(rec.netID, rec)
			defer ch.net.recs.Delete(rec.netID)
			return []mwR{mwMsgR(ch.net.client.Roundtrip(ctx, mwMkReq(cs.m0)))}
		}
		if ch.client != nil {
			return []mwR{mwMsgR(ch.client.Roundtrip(ctx, mwMkReq(cs.m0)))}
		}
		if cs.kind == "srvitems" {
			resp := ch.exec.HandleRequest(ctx, mwMkBatchReq(cs.m0.tok, cs.items))
			if resp == nil {
				return []mwR{{mwNil, 0, mwNil}}
			}
			var rs []mwR
			for i := range resp.BatchItem {
				rs = append(rs, mwItemR(&resp.BatchItem[i], nil))
			}
			return rs
		}
		return []mwR{mwMsgR(ch.exec.HandleRequest(ctx, mwMkReq(cs.m0)), nil)}
	})
	if panicked != "" {
		return "panic " + panicKey(panicked), rec, finals, panicked
	}
	return mwRender(finals, rec.events), rec, finals, ""
}

// ---------------------------------------------------------------------------------------------
// parsing (the grammar of lean/Driver/Middleware.lean)

func mwParseNat(s string) (int, error) {
	v, err := strconv.Atoi(s)
	if err != nil || v < 0 || s == "" || s[0] == '+' {
		return 0, fmt.Errorf("bad number %q", s)
	}
	return v, nil
}

func mwParseTr(s string) (mwTr, error) {
	if len(s) < 2 || (s[0] != 't' && s[0] != 'k') {
		return mwTr{}, fmt.Errorf("bad transform %q", s)
	}
	v, err := mwParseNat(s[1:])
	return mwTr{konst: s[0] == 'k', v: v}, err
}

func mwParseOpt(s string) (int, error) {
	if s == "n" {
		return mwNil, nil
	}
	return mwParseNat(s)
}

func mwParseRet(s string) (mwRet, error) {
	switch {
	case s == "l", s == "e", s == "s":
		return mwRet{mode: s[0]}, nil
	case strings.HasPrefix(s, "F"):
		a, b, ok := strings.Cut(s[1:], ",")
		if ok {
			r := mwR{mwNil, 0, mwNil}
			var e1, e2, e3 error
			if a != "n" {
				t, o, hasOp := strings.Cut(a, "@")
				r.resp, e1 = mwParseNat(t)
				r.rop = 1
				if hasOp {
					r.rop, e2 = mwParseNat(o)
				}
			}
			r.err, e3 = mwParseOpt(b)
			if e1 == nil && e2 == nil && e3 == nil {
				return mwRet{mode: 'F', fixed: r}, nil
			}
		}
	}
	return mwRet{}, fmt.Errorf("bad return %q", s)
}

func mwParseAct(s string) (mwAct, error) {
	switch {
	case s == "c", s == "f":
		return mwAct{op: s}, nil
	case strings.HasPrefix(s, "m"), strings.HasPrefix(s, "x"):
		tr, err := mwParseTr(s[1:])
		return mwAct{op: s[:1], tr: tr}, err
	case strings.HasPrefix(s, "o"):
		v, err := mwParseNat(s[1:])
		return mwAct{op: "o", v: v}, err
	case strings.HasPrefix(s, "rf"), strings.HasPrefix(s, "ro"):
		rt, err := mwParseRet(s[2:])
		return mwAct{op: s[:2], ret: rt}, err
	case strings.HasPrefix(s, "r"):
		rt, err := mwParseRet(s[1:])
		return mwAct{op: "r", ret: rt}, err
	}
	return mwAct{}, fmt.Errorf("bad action %q", s)
}

func mwParseChain(s string) ([]mwStage, error) { return mwParseChainFrom(s, 1) }

func mwParseChainFrom(s string, first int) ([]mwStage, error) {
	if s == "-" {
		return nil, nil
	}
	var chain []mwStage
	for i, src := range strings.Split(s, "/") {
		st := mwStage{id: i + first}
		if src != "_" {
			for _, a := range strings.Split(src, ".") {
				act, err := mwParseAct(a)
				if err != nil {
					return nil, err
				}
				st.body = append(st.body, act)
			}
		}
		chain = append(chain, st)
	}
	return chain, nil
}

func mwParseOut(s string) (mwOut, error) {
	if len(s) >= 2 && (s[0] == 'o' || s[0] == 'e') {
		if v, err := mwParseNat(s[1:]); err == nil {
			return mwOut{ok: s[0] == 'o', v: v}, nil
		}
	}
	return mwOut{}, fmt.Errorf("bad outcome %q", s)
}

func mwParseCore(s string) (mwCore, error) {
	f := strings.Split(s, ":")
	if len(f) != 3 {
		return mwCore{}, fmt.Errorf("bad core %q", s)
	}
	var core mwCore
	var err error
	if f[0] != "-" {
		for _, o := range strings.Split(f[0], ",") {
			out, err := mwParseOut(o)
			if err != nil {
				return core, err
			}
			core.outs = append(core.outs, out)
		}
	}
	if core.dflt, err = mwParseOut(f[1]); err != nil {
		return core, err
	}
	if f[2] != "-" {
		for _, x := range strings.Split(f[2], ",") {
			v, err := mwParseNat(x)
			if err != nil {
				return core, fmt.Errorf("bad core %q", s)
			}
			core.rej = append(core.rej, v)
		}
	}
	return core, nil
}

func mwNewCase(kind, chainSrc, coreSrc string, m0 mwMsg, c0 int) (*mwCase, error) {
	return mwNewCaseX(kind, chainSrc, "-", coreSrc, m0, c0, nil)
}

// mwHdrMode: where the real code makes the batch context (set by the engine's probe before any case
// is built; replayed lines are run with the mode of the code they are replayed against).
var mwHdrMode int

func mwNewCaseX(kind, chainSrc, ichainSrc, coreSrc string, m0 mwMsg, c0 int, items []mwMsg) (*mwCase, error) {
	chain, err := mwParseChain(chainSrc)
	if err != nil {
		return nil, err
	}
	ichain, err := mwParseChainFrom(ichainSrc, 101)
	if err != nil {
		return nil, err
	}
	core, err := mwParseCore(coreSrc)
	if err != nil {
		return nil, err
	}
	switch kind {
	case "client", "srvmsg", "srvitem", "srvboth", "srvitems":
	default:
		return nil, fmt.Errorf("unknown kind %q", kind)
	}
	ops := []int{m0.op}
	for _, it := range items {
		ops = append(ops, it.op)
	}
	for _, st := range append(append([]mwStage{}, chain...), ichain...) {
		for _, a := range st.body {
			if a.op == "o" {
				ops = append(ops, a.v)
			}
		}
	}
	for _, op := range ops {
		if op < 1 || op > 3 {
			return nil, fmt.Errorf("the harness realises operations 1..3 only, not %d", op)
		}
	}
	return &mwCase{kind: kind, chain: chain, chainSrc: chainSrc, ichain: ichain, ichainSrc: ichainSrc, core: core, coreSrc: coreSrc,
		m0: m0, c0: c0, items: items, hm: mwHdrMode}, nil
}

func mwParseNats(s string, min, max int) ([]int, error) {
	parts := strings.Split(s, ",")
	if len(parts) < min || len(parts) > max {
		return nil, fmt.Errorf("bad numbers %q", s)
	}
	out := make([]int, len(parts))
	for i, p := range parts {
		v, err := mwParseNat(p)
		if err != nil {
			return nil, fmt.Errorf("bad numbers %q", s)
		}
		out[i] = v
	}
	return out, nil
}

func mwParseLine(l string) (*mwCase, error) {
	f := strings.Fields(l)
	switch {
	case len(f) == 5 && f[0] == "mw.both":
		ini, err := mwParseNats(f[4], 3, 4)
		if err != nil {
			return nil, err
		}
		return mwNewCaseX("srvboth", f[1], f[2], f[3], mwMsg{ini[0], ini[2]}, ini[1], nil)
	case len(f) == 5 && f[0] == "mw.items":
		ini, err := mwParseNats(f[3], 2, 2)
		if err != nil {
			return nil, err
		}
		var items []mwMsg
		for _, p := range strings.Split(f[4], ";") {
			t, o, ok := strings.Cut(p, "@")
			tok, e1 := mwParseNat(t)
			op, e2 := mwParseNat(o)
			if !ok || e1 != nil || e2 != nil {
				return nil, fmt.Errorf("bad item %q", p)
			}
			items = append(items, mwMsg{tok, op})
		}
		return mwNewCaseX("srvitems", f[1], "-", f[2], mwMsg{ini[1], 1}, ini[0], items)
	case len(f) >= 4 && f[0] == "mw.run":
		ini := []int{1, 1, 1}
		if len(f) >= 5 {
			got, err := mwParseNats(f[4], 2, 4)
			if err != nil {
				return nil, err
			}
			copy(ini, got[:min(len(got), 3)])
		}
		return mwNewCase(f[1], f[2], f[3], mwMsg{ini[0], ini[2]}, ini[1])
	}
	return nil, fmt.Errorf("not an mw line")
}

// ---------------------------------------------------------------------------------------------
// the engine

func init() {
	register(&Engine{
		Name: "mw",
		Rule: "(see also: batches of 2..5 items through every item chain; both server chains installed together; every chain of length <= 2 and a fifth of the longer ones registered in another way — one variadic call, one call per stage, split in two or three calls, CloneCtx, DialClusterContext — and with one of the library's own middlewares inserted; Client.Request / Batch / version negotiation through an installed chain; impl-side only: every server stage re-reads GetRequestHeader / GetProtocolVersion on the context IT received after each call of next and when it returns — unchanged whatever the inner stages executed; `# mw.overlap`: a hedging stage at every position h of chains of 1..4 (thorough 1..6) stages invokes next from another goroutine, that invocation is held at every depth h+1..core, the stage meanwhile invokes next again once / twice / from a third goroutine held elsewhere / returns and leaves the invocation behind, for the client chain, the server message chain, the item chain and every split of both — every invocation traverses the whole remainder once and gets its own answer; `# mw.alias`: two clients / executors configured from ONE caller-owned list passed variadically (length 0..3, spare capacity 0/1/3; one Option value shared by two DialContext calls; CloneCtx) plus 0..2 stages of their own, the caller then overwrites its lists and fills their spare capacity — each object runs what was registered on it, before and after) middleware chains as data: ALL chains of length 0..3 (quick) / 0..4 (thorough) over an alphabet of stage programs (pass-through, tag message and context, call twice / three times, retry while failed, short-circuit with a response / an error / (nil,nil), ignore or rewrite the inner result, return (nil,err), swallow the error, turn success into error, constant message / context, REWRITE THE OPERATION of the message to another routed operation / to an unrouted one, call with the original then with the rewritten operation) x handler scripts (always ok, fail n times then ok, always fail, refuse the unmodified message, alternate) x initial operation (two routed to distinct handlers, one unrouted) x {client chain, server message chain, server batch item chain}, plus random chains of length 4..8 of random programs and pass-through chains of 9..65 stages (one stage calling next twice, one tagging); every group of requests is run sequentially and then concurrently from 8 goroutines sharing the chain; distinct = distinct line; nontrivial = chain with at least two stages or a stage calling next other than once",
		Run:  runMw,
	})
}

// mwAlphabet: stage programs for position i (1-based): the position is the tag digit.
// level 0: the small alphabet used for the longest chains; 1: quick; 2: thorough.
func mwAlphabet(i int, level int) []string {
	d := strconv.Itoa(i)
	a := []string{
		"c",                         // pass-through
		"mt" + d + ".xt" + d + ".c", // tag message and context, pass on
		"c.c",                       // call twice, return the second result
		"c.f.f",                     // retry while failed, up to 3 calls (README retry middleware)
		"rF7" + d + ",n",            // short-circuit with a response
		"rFn," + d,                  // short-circuit with (nil, err) (README rate limiter)
		"c.rfe",                     // (nil, err) on failure (kmipserver.DebugMiddleware)
		"o2.c",                      // rewrite the operation to 2 (Revoke: handler 2)
		"o3.c",                      // rewrite the operation to 3 (Archive: no handler)
		"c.o1.mt" + d + ".c",        // call as received, then with operation 1 and a tagged message
	}
	if level >= 1 {
		a = append(a,
			"c.rF8"+d+"@2,n",      // ignore the inner result, return another (echoing operation 2)
			"c.mt"+d+".xt"+d+".c", // two calls with different messages / contexts
			"c.roFn,6",            // turn a success into an error
		)
	}
	if level >= 2 {
		a = append(a,
			"c.rs",                  // swallow the error
			"_",                     // (nil, nil) without calling
			"mk9"+d+".c",            // brand-new message
			"xk9"+d+".c",            // brand-new context value
			"c.c.c",                 // three unconditional calls
			"c.rF9"+d+",4",          // both a response and an error
			"mt"+d+".c.f.mt"+d+".f", // retry with a modified message
			"o1.c",                  // rewrite the operation to 1 (Activate: handler 1)
			"c.f.o2.f",              // retry, the last attempt with another operation
		)
	}
	return a
}

// mwCores: handler scripts; "@" stands for the initial message token of the request (a handler
// refusing the message unless a stage replaced it).
func mwCores(thorough bool) []string {
	c := []string{"-:o5:-", "e1,e2:o5:-", "-:e4:-", "-:o5:@"}
	if thorough {
		c = append(c, "e1:o5:-", "o5,e2:o6:-", "e1,e2,e3:o5:-")
	}
	return c
}

func mwRandomStage(r *rng.R, i int, allowMulti bool) string {
	d := strconv.Itoa(i)
	tr := func() string {
		if r.Chance(1, 4) {
			return "k" + strconv.Itoa(20+r.Intn(70))
		}
		return "t" + d
	}
	ret := func() string {
		switch r.Intn(5) {
		case 0:
			return "l"
		case 1:
			return "e"
		case 2:
			return "s"
		case 3:
			return "F" + strconv.Itoa(30+r.Intn(60)) + "@" + strconv.Itoa(r.Intn(4)) + ",n"
		}
		opts := []string{"Fn," + strconv.Itoa(1+r.Intn(8)), "Fn,n", "F" + strconv.Itoa(mwFailBase+r.Intn(9)) + ",n", "F0@3,n", "F4" + d + "," + d}
		return rng.Pick(r, opts)
	}
	n := 1 + r.Intn(5)
	calls, ms, xs := 0, 0, 0
	var acts []string
	for k := 0; k < n; k++ {
		switch r.Intn(10) {
		case 0:
			if ms == 0 { // at most one per stage: tokens stay far below 2^63
				acts = append(acts, "m"+tr())
				ms++
			}
		case 1:
			if xs == 0 {
				acts = append(acts, "x"+tr())
				xs++
			}
		case 2, 3, 4:
			if calls == 0 || allowMulti {
				acts = append(acts, "c")
				calls++
			}
		case 5:
			if allowMulti {
				acts = append(acts, "f")
			}
		case 6:
			acts = append(acts, "rf"+ret())
		case 7:
			acts = append(acts, "ro"+ret())
		case 8:
			if k == n-1 {
				acts = append(acts, "r"+ret())
			}
		case 9:
			acts = append(acts, "o"+strconv.Itoa(1+r.Intn(3)))
		}
	}
	if len(acts) == 0 {
		return "_"
	}
	return strings.Join(acts, ".")
}

type mwGroup struct {
	kind     string
	chainSrc string
	cases    []*mwCase
	extras   bool // also run the registration-shape and library-middleware variants of this chain
}

// mwRunGroup runs the requests of one chain on ONE real chain object: sequentially (these answers
// are the correspondence cases), then all of them again concurrently.
func mwRunGroup(ctx *Ctx, g *mwGroup, idx int) {
	if len(g.cases) == 0 {
		return
	}
	ch, err := mwBuild(g.cases[0], mwShapeDefault, 0)
	if err != nil {
		ctx.Res.Fail("mw: cannot build chain " + g.chainSrc + ": " + err.Error())
		return
	}
	defer ch.close()
	seq := make([]string, len(g.cases))
	for i, cs := range g.cases {
		line := cs.line()
		ctx.current = line
		answer, rec, finals, p := ch.run(cs, false, false)
		seq[i] = answer
		mwOracle(ctx, cs, line, answer, rec, finals, p)
		nontrivial := len(cs.chain)+len(cs.ichain) >= 2 || len(cs.items) >= 2
		rewrites := false
		for _, st := range append(append([]mwStage{}, cs.chain...), cs.ichain...) {
			k := 0
			for _, a := range st.body {
				if a.op == "c" || a.op == "f" {
					k++
				}
				if a.op == "o" {
					rewrites = true
				}
			}
			if k != 1 {
				nontrivial = true
			}
		}
		if mwRaceChild {
			line = "# " + line // no model in the race-enabled child
		}
		ctx.Add(line, answer, nontrivial, "C19")
		ctx.Res.Count("mw.kind=" + cs.kind)
		ctx.Res.Count(fmt.Sprintf("mw.len=%d", min(len(cs.chain)+len(cs.ichain), 9)))
		ctx.Res.Count(fmt.Sprintf("mw.handler-runs=%s", mwBucket(rec.calls)))
		ctx.Res.Count(fmt.Sprintf("mw.initial-op=%d", cs.m0.op))
		if cs.kind == "srvitems" {
			ctx.Res.Count(fmt.Sprintf("mw.batch-items=%d", min(len(cs.items), 6)))
		}
		if rewrites {
			ctx.Res.Count("mw.chain-rewrites-operation")
		}
		for _, e := range rec.events {
			if e.k == 'K' && e.m.op != cs.m0.op {
				ctx.Res.Count("mw.handler-ran-on-rewritten-operation")
				break
			}
		}
		for _, e := range rec.events {
			if e.k == 'K' && cs.kind == "srvmsg" && e.m.tok != cs.m0.tok {
				ctx.Res.Count("mw.handler-ran-on-substituted-message")
				break
			}
		}
	}
	// client: the same chain in front of the REAL transport (Client.doRountrip over a pipe)
	if ch.net != nil {
		for i, cs := range g.cases {
			ctx.current = cs.line() + " (real transport)"
			if got, _, _, _ := ch.run(cs, false, true); got != seq[i] {
				ctx.Res.Violate(report.Violation{Property: "C19", Oracle: "real-transport", Key: "mw:client:real-transport-differs",
					Detail: "chain ending in the real transport: " + mwClip(got) + " ; scripted transport: " + mwClip(seq[i]), Line: cs.line()})
			}
			ctx.Res.Count("mw.real-transport-requests")
		}
	}
	// concurrent: 8 goroutines share the chain; every request has its own recorder
	const workers = 8
	concurrently := func(realTransport bool) {
		// every worker runs every request of the group (starting at a different one), so that
		// workers x len(cases) runs overlap on the one chain
		conc := make([][]string, workers)
		var wg sync.WaitGroup
		for w := 0; w < workers; w++ {
			wg.Add(1)
			conc[w] = make([]string, len(g.cases))
			go func(w int) {
				defer wg.Done()
				for k := range g.cases {
					i := (k + w) % len(g.cases)
					conc[w][i], _, _, _ = ch.run(g.cases[i], true, realTransport)
				}
			}(w)
		}
		wg.Wait()
		for i, cs := range g.cases {
			for w := 0; w < workers; w++ {
				if conc[w][i] != seq[i] {
					ctx.Res.Violate(report.Violation{Property: "C19", Oracle: "concurrent-shared-chain", Key: "mw:" + cs.kind + ":concurrent-run-differs",
						Detail: "request run concurrently with others on the same chain: " + mwClip(conc[w][i]) + " ; alone: " + mwClip(seq[i]), Line: cs.line()})
					break
				}
			}
			ctx.Res.Count("mw.concurrent-requests")
		}
	}
	ctx.current = g.cases[0].line() + " (concurrent)"
	concurrently(false)
	if ch.net != nil {
		concurrently(true)
	}
	if g.extras {
		mwShapes(ctx, g, seq, idx)
		mwLibVariants(ctx, g, idx)
	}
}

// mwShapes: the same stages registered in another way must give the same chain.
func mwShapes(ctx *Ctx, g *mwGroup, seq []string, idx int) {
	shapes := []int{mwShapeVariadic, mwShapeSplit, mwShapeThree}
	if g.kind == "client" {
		shapes = append(shapes, mwShapeClone, mwShapeCluster)
	}
	shape := shapes[idx%len(shapes)]
	name := []string{"default", "variadic-or-one-per-stage", "split-in-two-calls", "clone", "dial-cluster", "three-calls"}[shape]
	ctx.current = g.cases[0].line() + " (registration shape " + name + ")"
	ch, p := guard("mw-build", func() *mwChain {
		c, err := mwBuild(g.cases[0], shape, idx/len(shapes))
		if err != nil {
			ctx.Res.Fail("mw: cannot build chain " + g.chainSrc + " in shape " + name + ": " + err.Error())
			return nil
		}
		return c
	})
	if p != "" {
		ctx.Res.Violate(report.Violation{Property: "C19", Oracle: "no-panic", Key: "mw:" + g.kind + ":registration-panic " + panicKey(p),
			Detail: "registering the middlewares (" + name + ") panicked: " + p, Line: g.cases[0].line()})
		return
	}
	if ch == nil {
		return
	}
	defer ch.close()
	for i, cs := range g.cases {
		if got, _, _, _ := ch.run(cs, false, false); got != seq[i] {
			ctx.Res.Violate(report.Violation{Property: "C19", Oracle: "registration-shape", Key: "mw:" + cs.kind + ":registration-shape-differs:" + name,
				Detail: "same stages registered as " + name + ": " + mwClip(got) + " ; registered the default way: " + mwClip(seq[i]), Line: cs.line()})
		}
		if ch.net != nil && shape != mwShapeVariadic {
			if got, _, _, _ := ch.run(cs, false, true); got != seq[i] {
				ctx.Res.Violate(report.Violation{Property: "C19", Oracle: "registration-shape", Key: "mw:" + cs.kind + ":registration-shape-differs:" + name + ":real-transport",
					Detail: "same stages registered as " + name + ", real transport: " + mwClip(got) + " ; default: " + mwClip(seq[i]), Line: cs.line()})
			}
		}
		ctx.Res.Count("mw.registration-shape=" + name)
	}
}

// mwLibVariants: the library's own middlewares inserted between the instrumented stages must behave as
// documented: call next exactly once with what they received (the reference interpreter mwLibRef).
func mwLibVariants(ctx *Ctx, g *mwGroup, idx int) {
	var libs []string
	switch g.kind {
	case "client":
		libs = []string{"cdebug", "timeout", "corr", "timeout0"}
	case "srvmsg", "srvboth":
		libs = []string{"sdebug"}
	default:
		return
	}
	lib := libs[idx%len(libs)]
	base := g.cases[0]
	pos := (idx / len(libs)) % (len(base.chain) + 1)
	withLib := func(cs *mwCase) *mwCase {
		c := *cs
		c.chain = append(append(append([]mwStage{}, cs.chain[:pos]...), mwStage{lib: lib}), cs.chain[pos:]...)
		return &c
	}
	ctx.current = base.line() + fmt.Sprintf(" (library middleware %s at position %d)", lib, pos)
	ch, err := mwBuild(withLib(base), mwShapeDefault, 0)
	if err != nil {
		ctx.Res.Fail("mw: cannot build chain with " + lib + ": " + err.Error())
		return
	}
	defer ch.close()
	for _, cs := range g.cases {
		lc := withLib(cs)
		line := fmt.Sprintf("# mw.lib %s@%d %s", lib, pos, cs.line())
		got, rec, finals, p := ch.run(lc, false, false)
		viol := func(key, detail string) {
			ctx.Res.Violate(report.Violation{Property: "C19", Oracle: "library-middleware", Key: "mw:" + cs.kind + ":" + lib + ":" + key, Detail: detail, Line: line})
		}
		if p != "" {
			viol("panic "+panicKey(p), "the chain panicked: "+p)
			continue
		}
		wantR, wantEv, _ := mwReference(lc, 0)
		if want := mwRender(wantR, wantEv); want != got {
			viol("not-a-single-faithful-call", "the library's "+lib+" between the stages: nested composition with a middleware that calls next exactly once with what it received gives "+mwClip(want)+" ; the library "+mwClip(got))
		}
		if o, msg, _ := mwCheckNested(lc, finals, rec.events); o != "" {
			viol("well-nested:"+o, msg)
		}
		if lib == "timeout" && rec.calls > 0 && !rec.sawDeadline {
			viol("context-not-derived", "the transport was reached without the deadline kmipclient.TimeoutMiddleware must put on the context it passes on")
		}
		if lib == "timeout0" && rec.sawDeadline {
			viol("context-not-passed", "TimeoutMiddleware(0) must pass the context unchanged, the transport saw a deadline")
		}
		ctx.Add(line, "ok", true, "C19")
		ctx.Res.Count("mw.library-middleware=" + lib)
	}
	ch.probe.mu.Lock()
	out, corr := ch.probe.debugOut.String(), ch.probe.corrCalls
	ch.probe.mu.Unlock()
	if (lib == "cdebug" || lib == "sdebug") && !strings.Contains(out, "Request:") {
		reached := false
		for _, cs := range g.cases {
			_ = cs
			reached = true
		}
		// the debug middleware is reached unless an outer stage short-circuits for every request
		if reached && pos == 0 {
			ctx.Res.Violate(report.Violation{Property: "C19", Oracle: "library-middleware", Key: "mw:" + g.kind + ":" + lib + ":nothing-logged",
				Detail: "the outermost " + lib + " middleware wrote nothing", Line: "# mw.lib " + base.line()})
		}
	}
	if lib == "corr" && corr != 0 {
		ctx.Res.Violate(report.Violation{Property: "C19", Oracle: "library-middleware", Key: "mw:client:corr:overwrote-value",
			Detail: fmt.Sprintf("CorrelationValueMiddleware generated %d values although every message carried one", corr), Line: "# mw.lib " + base.line()})
	}
}

func mwBucket(n int) string {
	switch {
	case n <= 3:
		return strconv.Itoa(n)
	case n <= 9:
		return "4-9"
	case n <= 27:
		return "10-27"
	}
	return "28+"
}

func mwClip(s string) string {
	if len(s) > 600 {
		return s[:600] + "…"
	}
	return s
}

// mwOracle: the C19 oracles on one real run.
func mwOracle(ctx *Ctx, cs *mwCase, line, answer string, rec *mwRec, finals []mwR, panicked string) {
	viol := func(oracle, key, detail string) {
		ctx.Res.Violate(report.Violation{Property: "C19", Oracle: oracle, Key: "mw:" + cs.kind + ":" + key, Detail: detail, Line: line})
	}
	if panicked != "" {
		viol("no-panic", "panic "+panicKey(panicked), "the chain panicked: "+panicked)
		return
	}
	for _, n := range rec.notes {
		viol("message-integrity", "inconsistent-message", n)
	}
	// 0. a stage keeps the context it was given: what the accessors report on it does not change while
	//    the inner stages / the core handler run (impl-side only: contexts are immutable values in the model)
	for _, d := range rec.ctxDrift {
		viol("stage-context-stable", "stage-context-rewritten-by-inner-stages", d)
	}
	// 1. nested composition predicts result and trace
	wantR, wantEv, _ := mwReference(cs, 0)
	if want := mwRender(wantR, wantEv); want != answer {
		key := "trace-differs"
		if mwRender(wantR, nil) != mwRender(finals, nil) {
			key = "result-differs"
		}
		viol("nested-composition", key, "nested composition gives "+mwClip(want)+" ; the library "+mwClip(answer))
	}
	// 2. the trace is one well-nested execution in registration order in which the innermost
	//    continuation acts on the message it was given (no knowledge of the programs)
	o, msg, hdr := mwCheckNested(cs, finals, rec.events)
	if o != "" {
		viol("well-nested:"+o, o, msg)
	}
	// 2'. … and the handlers' context reports the header of the message that is being executed
	if hdr != "" {
		ctx.Res.Violate(report.Violation{Property: "C19", Oracle: "handler-context-header", Key: "mw:srvmsg:handler-header-not-of-message-executed", Detail: hdr, Line: line})
	}
	// 3. call counts of unconditional chains
	if p, ok := mwStraightProduct(cs); ok && p != rec.calls {
		viol("call-count", "handler-runs", fmt.Sprintf("the handler ran %d times, the per-stage multiplicities give %d", rec.calls, p))
	}
	// 4. a batch: one response item per request item, every item through the whole chain
	if cs.kind == "srvitems" && len(finals) != len(cs.items) {
		viol("one-per-item", "item-count", fmt.Sprintf("%d response items for %d request items", len(finals), len(cs.items)))
	}
}

// mwRunRaceChild: every chain of length <= 2 of every kind, each group run sequentially and then from 8
// goroutines (scripted and real transport), plus a few longer random chains.
func mwRunRaceChild(ctx *Ctx) {
	mwOverlap(ctx) // invocations of next from several goroutines within one request
	idx := 0
	cores := mwCores(false)
	group := func(kind, chainSrc, ichainSrc string) {
		g := &mwGroup{kind: kind, chainSrc: chainSrc}
		for k, tmpl := range cores {
			m0, c0 := mwMsg{1 + (idx+k)%7, 1 + (idx/3+k)%3}, 1+(idx+2*k)%5
			var items []mwMsg
			if kind == "srvitems" {
				for j := 0; j < 3; j++ {
					items = append(items, mwMsg{10*(j+1) + m0.tok, 1 + (idx+j+k)%3})
				}
			}
			c, err := mwNewCaseX(kind, chainSrc, ichainSrc, strings.ReplaceAll(tmpl, "@", strconv.Itoa(m0.tok)), m0, c0, items)
			if err != nil {
				ctx.Res.Fail("mw: " + err.Error())
				return
			}
			g.cases = append(g.cases, c)
		}
		idx++
		mwRunGroup(ctx, g, idx)
	}
	a1 := mwAlphabet(1, 0)
	a2 := mwAlphabet(2, 0)
	for _, kind := range []string{"client", "srvmsg", "srvitem", "srvitems"} {
		group(kind, "-", "-")
		for _, p := range a1 {
			group(kind, p, "-")
			for _, q := range a2 {
				group(kind, p+"/"+q, "-")
			}
		}
	}
	for _, p := range a1 {
		for _, q := range mwAlphabet(5, 0) {
			group("srvboth", p, q)
		}
	}
}

func quietMwLogs() { slog.SetDefault(slog.New(slog.NewTextHandler(io.Discard, nil))) }

// mwProbeHdrMode: does a handler see the header of the message a message middleware passed on?
func mwProbeHdrMode() int {
	mode, _ := guard("mw-probe", func() int {
		seen := -1
		exec := kmipserver.NewBatchExecutor()
		exec.Use(func(next kmipserver.Next, ctx context.Context, msg *kmip.RequestMessage) (*kmip.ResponseMessage, error) {
			return next(ctx, mwMkReq(mwMsg{2, 1}))
		})
		exec.Route(kmip.OperationActivate, pwFunc(func(ctx context.Context, pl kmip.OperationPayload) (kmip.OperationPayload, error) {
			seen = mwAtoi(kmipserver.GetRequestHeader(ctx).ClientCorrelationValue)
			return &payloads.ActivateResponsePayload{}, nil
		}))
		exec.HandleRequest(context.Background(), mwMkReq(mwMsg{1, 1}))
		if seen == 2 {
			return 1
		}
		return 0
	})
	return mode
}

// mwRaceChildEnv: set in the copy of the harness built with -race that the thorough tier runs: only the
// part of the engine that exercises chains from several goroutines, no model lines.
const mwRaceChildEnv = "VERIF_MW_RACE_CHILD"

var mwRaceChild = os.Getenv(mwRaceChildEnv) != ""

// mwRaceRun: the concurrent phases again under the race detector (the model's theorem
// concurrent_run_independent says a chain run has no shared mutable state to be disturbed through; the
// race detector looks for such state in the real chain code, however narrow the window).
func mwRaceRun(ctx *Ctx) {
	if os.Getenv("VERIF_BIN_DIR") == "" {
		// keep the race-enabled copy beside the harness sources it was built from
		modDir, _ := cacheDirs()
		_ = os.Setenv("VERIF_BIN_DIR", filepath.Join(filepath.Dir(modDir), ".work", "bin"))
	}
	bin, note, fail := mwRaceBinary()
	if note != "" {
		ctx.Res.Count("mw." + strings.TrimPrefix(note, "cache."))
	}
	if fail != "" {
		ctx.Res.Fail("mw: " + fail)
		return
	}
	if bin == "" {
		return
	}
	dir, err := os.MkdirTemp("", "mwrace")
	if err != nil {
		ctx.Res.Fail("mw: " + err.Error())
		return
	}
	defer os.RemoveAll(dir)
	if strings.Contains(filepath.Base(bin), "harness-race-overlay-") {
		defer os.Remove(bin)
	}
	line := "# mw.race"
	ctx.current = line
	cctx, cancel := context.WithTimeout(context.Background(), 10*time.Minute)
	defer cancel()
	cmd := exec.CommandContext(cctx, bin, "-engine", "mw", "-tier", "quick", "-seed", "1", "-out", filepath.Join(dir, "race"))
	cmd.Env = append(os.Environ(), mwRaceChildEnv+"=1", "GORACE=halt_on_error=0 exitcode=66")
	var se bytes.Buffer
	cmd.Stderr = &se
	out, err := cmd.Output()
	stderr := se.String()
	switch {
	case strings.Contains(stderr, "WARNING: DATA RACE"):
		ctx.Res.Violate(report.Violation{Property: "C19", Oracle: "race-detector", Key: "mw:data-race:" + raceFirstFrame(stderr),
			Detail: "requests run from several goroutines through one chain, race-enabled build: " + truncate(stderr, 1500), Line: line})
	case err != nil && !strings.Contains(string(out), "engine=mw"):
		ctx.Res.Fail("mw: the race-enabled run failed: " + err.Error() + " " + truncate(stderr, 400))
	case strings.Contains(string(out), "engine=mw") && !strings.Contains(string(out), "violations=0"):
		// the child found what the parent finds too (or the known header finding): not repeated here
		ctx.Res.Count("mw.race.child-reported-violations")
	}
	ctx.Add(line, "ok", true, "C19")
	ctx.Res.Count("mw.race.run")
}

// mwRaceBinary: the race-enabled copy of this harness. Without a build overlay it is the one engine
// `cache` uses; with one (bin/mutate.sh) it is built with the same overlay, so that the library
// sources under test are the same in both copies.
func mwRaceBinary() (path, note, fail string) {
	overlay := ""
	for _, f := range strings.Fields(os.Getenv("GOFLAGS")) {
		if strings.HasPrefix(f, "-overlay=") {
			overlay = strings.TrimPrefix(f, "-overlay=")
		}
	}
	if overlay == "" {
		return cacheRaceBinary()
	}
	if os.Getenv("VERIF_CACHE_NORACE") != "" {
		return "", "cache.race-binary.disabled", ""
	}
	modDir, _ := cacheDirs()
	out := filepath.Join(os.Getenv("VERIF_BIN_DIR"), fmt.Sprintf("harness-race-overlay-%d", os.Getpid()))
	cmd := exec.Command("go", "build", "-race", "-tags", "verif", "-o", out, "./cmd/harness")
	cmd.Dir = modDir
	cmd.Env = append(os.Environ(), "CGO_ENABLED=1")
	if b, err := cmd.CombinedOutput(); err != nil {
		return "", "", "building the race-enabled harness with the overlay failed: " + err.Error() + ": " + truncate(string(b), 600)
	}
	return out, "cache.race-binary.built-with-overlay", ""
}

func runMw(ctx *Ctx) {
	quietMwLogs()
	mwHdrMode = mwProbeHdrMode()
	ctx.Res.Count(fmt.Sprintf("mw.header-mode=%d", mwHdrMode))
	if !mwRaceChild && len(ctx.Replay) == 0 {
		// the model of the code at HEAD (`runImpl`, theorem C19.header_go) must have the mode the real code probes as
		ctx.Add("mw.hdrmode go", fmt.Sprintf("ok %d", mwHdrMode), true, "C19")
	}
	if mwRaceChild {
		mwRunRaceChild(ctx)
		return
	}
	if ctx.Thor && len(ctx.Replay) == 0 {
		defer mwRaceRun(ctx)
	}
	if len(ctx.Replay) > 0 {
		for _, l := range ctx.Replay {
			if mwReplayExtra(ctx, l) {
				continue
			}
			if !strings.HasPrefix(l, "mw.run ") && !strings.HasPrefix(l, "mw.both ") && !strings.HasPrefix(l, "mw.items ") {
				continue
			}
			cs, err := mwParseLine(l)
			if err != nil {
				ctx.Res.Fail("replay: " + err.Error() + ": " + l)
				continue
			}
			mwRunGroup(ctx, &mwGroup{kind: cs.kind, chainSrc: cs.chainSrc, cases: []*mwCase{cs}, extras: true}, 0)
		}
		return
	}
	mwEntryPoints(ctx)
	mwOverlap(ctx)
	mwAlias(ctx)
	kinds := []string{"client", "srvmsg", "srvitem"}
	idx := 0
	// one group = one chain, one request per handler script, with varying initial tokens / operation
	group := func(kind, chainSrc, ichainSrc string, cores []string, extras bool) {
		g := &mwGroup{kind: kind, chainSrc: chainSrc, extras: extras}
		for k, tmpl := range cores {
			m0, c0 := mwMsg{1 + (idx+k)%7, 1 + (idx/3+k)%3}, 1+(idx+2*k)%5
			var items []mwMsg
			if kind == "srvitems" {
				// 2..5 items with distinct markers, operations cycling through routed / routed / unrouted
				n := 2 + (idx+k)%4
				for j := 0; j < n; j++ {
					items = append(items, mwMsg{10*(j+1) + m0.tok, 1 + (idx+j+k)%3})
				}
			}
			c, err := mwNewCaseX(kind, chainSrc, ichainSrc, strings.ReplaceAll(tmpl, "@", strconv.Itoa(m0.tok)), m0, c0, items)
			if err != nil {
				ctx.Res.Fail("mw: " + err.Error())
				return
			}
			g.cases = append(g.cases, c)
		}
		idx++
		mwRunGroup(ctx, g, idx)
	}
	// exhaustive part: every word of length maxLen over the alphabet
	var enum func(prefix []string, maxLen, level int, cores []string)
	enum = func(prefix []string, maxLen, level int, cores []string) {
		if len(prefix) == maxLen {
			src := "-"
			if len(prefix) > 0 {
				src = strings.Join(prefix, "/")
			}
			for _, kind := range kinds {
				// registration shapes and library middlewares: every chain of length <= 2, every 5th longer one
				group(kind, src, "-", cores, maxLen <= 2 || idx%5 == 0)
			}
			// the same item chain on batches of several items
			if maxLen <= 2 || idx%3 == 0 {
				group("srvitems", src, "-", cores, maxLen <= 2)
			}
			return
		}
		for _, p := range mwAlphabet(len(prefix)+1, level) {
			enum(append(append([]string{}, prefix...), p), maxLen, level, cores)
		}
	}
	level := 1
	if ctx.Thor {
		level = 2
	}
	for l := 0; l <= 3; l++ {
		enum(nil, l, level, mwCores(ctx.Thor))
	}
	if ctx.Thor {
		enum(nil, 4, 0, mwCores(false))
	}
	// both server chains installed: every pair (message chain of length <= 2, item chain of length <= 2)
	// over the small alphabet (thorough: the quick alphabet)
	bothLevel := 0
	if ctx.Thor {
		bothLevel = 1
	}
	var words func(maxLen, first int) []string
	words = func(maxLen, first int) []string {
		out := []string{"-"}
		var rec func(prefix []string)
		rec = func(prefix []string) {
			if len(prefix) > 0 {
				out = append(out, strings.Join(prefix, "/"))
			}
			if len(prefix) == maxLen {
				return
			}
			for _, p := range mwAlphabet(first+len(prefix), bothLevel) {
				rec(append(append([]string{}, prefix...), p))
			}
		}
		rec(nil)
		return out
	}
	mwords, iwords := words(ctx.N(1, 2), 1), words(ctx.N(1, 2), 5)
	for _, mc := range mwords {
		for _, ic := range iwords {
			if mc == "-" || ic == "-" {
				continue // one chain only: covered above
			}
			group("srvboth", mc, ic, mwCores(false), idx%4 == 0)
		}
	}
	// random longer chains of random programs
	r := ctx.R
	n := ctx.N(400, 6000)
	allKinds := []string{"client", "srvmsg", "srvitem", "srvitems", "srvboth"}
	for i := 0; i < n; i++ {
		l := 4 + r.Intn(5)
		multi := 0
		var stages []string
		for k := 1; k <= l; k++ {
			allow := multi < 3 && r.Chance(1, 2)
			s := mwRandomStage(r, k, allow)
			if strings.Count(s, "c")+strings.Count(s, "f") > 1 {
				multi++
			}
			stages = append(stages, s)
		}
		src := strings.Join(stages, "/")
		// keep the trace size reasonable
		probe, err := mwNewCase("client", src, "-:e4:-", mwMsg{1, 1}, 1)
		if err != nil {
			ctx.Res.Fail("mw: generator produced " + src + ": " + err.Error())
			continue
		}
		if _, _, over := mwReference(probe, 3000); over {
			ctx.Res.Count("mw.random-skipped-too-long")
			continue
		}
		kind := allKinds[i%5]
		nOuts := r.Intn(4)
		var outs []string
		for k := 0; k < nOuts; k++ {
			outs = append(outs, rng.Pick(r, []string{"e1", "e2", "o5", "o6", "e3"}))
		}
		script := "-"
		if len(outs) > 0 {
			script = strings.Join(outs, ",")
		}
		msrc, isrc := src, "-"
		if kind == "srvboth" {
			cut := 1 + r.Intn(l-1)
			msrc, isrc = strings.Join(stages[:cut], "/"), strings.Join(stages[cut:], "/")
		}
		group(kind, msrc, isrc, []string{script + ":" + rng.Pick(r, []string{"o5", "e4"}) + ":-", "-:o5:@", "e1,e2:o5:-"}, i%4 == 0)
		ctx.Res.Count("mw.random-chains")
	}
	// long chains (the property speaks of every chain; nothing in the chain code may depend on a depth bound):
	// pass-through stages, one stage in the middle calling next twice, the last one tagging the message
	for _, l := range []int{9, 10, 13, 16, 17, 25, 32, 33, 64, 65} {
		stages := make([]string, l)
		for k := range stages {
			stages[k] = "c"
		}
		stages[l/2] = "c.c"
		stages[l-1] = "mt7.xt3.c"
		for _, kind := range allKinds {
			msrc, isrc := strings.Join(stages, "/"), "-"
			if kind == "srvboth" {
				msrc, isrc = strings.Join(stages[:l/2], "/"), strings.Join(stages[l/2:], "/")
			}
			group(kind, msrc, isrc, []string{"-:o5:-", "e1:o5:-"}, l%2 == 1)
			ctx.Res.Count("mw.long-chains")
		}
	}
}
