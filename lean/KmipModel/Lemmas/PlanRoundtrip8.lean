/-
  C01 — stage 3 (continued): generic "head of the field list" steps for the structs that are encoded
  reflectively and decoded by hand, then Register / Export / Import payloads.
-/
import KmipModel.Lemmas.PlanRoundtrip7
namespace Kmip

/-- the normalisation and the encoder both succeed on a field list. -/
def FieldsRT (S : Schema) (n : Nat) (gs : List Field) (vs : List Val) (ver : Option Ver)
    (r : List Val) (w' : Option Ver) (items : List Item) : Prop :=
  normFields S n gs vs ver = some (r, w') ∧ encFields S n gs vs ver = .ok (items, w')

theorem FieldsRT.nil {S : Schema} {n : Nat} {vs : List Val} {ver : Option Ver} {r : List Val}
    {w' : Option Ver} {items : List Item} (h : FieldsRT S n [] vs ver r w' items) :
    vs = [] ∧ r = [] ∧ w' = ver ∧ items = [] := by
  obtain ⟨hx, he⟩ := h
  obtain ⟨rfl, rfl, rfl⟩ := normFields_nil_inv hx
  obtain ⟨m, rfl⟩ := normFields_succ_of_some hx
  rw [encFields_nil] at he
  simp only [Res.ok.injEq, Prod.mk.injEq] at he
  exact ⟨rfl, rfl, rfl, he.1.symm⟩

/-- a required field of a scalar kind. -/
theorem head_req_scalar (S : Schema) (n : Nat) (g : Field) (t : Nat) (hp : g.plainWith t = true)
    (hk : g.kind.scalar = true) (gs : List Field) (vs : List Val) (ver : Option Ver) (r : List Val)
    (w' : Option Ver) (items : List Item) (h : FieldsRT S (n + 1) (g :: gs) vs ver r w' items) :
    ∃ v v' vs1 r1 it b, vs = v :: vs1 ∧ r = v' :: r1 ∧ items = it :: b
      ∧ FieldsRT S n gs vs1 ver r1 w' b ∧ it.tag = t
      ∧ (it.InRange → ∀ (fd : Nat) (rs : List RawItem) (w0 : Option Ver),
          decK S (fd + 1) g.kind t (Cur.of (it.raw :: rs)) w0 = .ok (v', Cur.of rs, w0)) := by
  obtain ⟨hx, he⟩ := h
  cases vs with
  | nil => rw [normFields_cons_nil] at hx; contradiction
  | cons v vs1 =>
  rw [normFields_plain_cons S n g t hp] at hx
  rw [encFields_plain_cons S n g t hp] at he
  cases hn : normK S n g.kind t v ver with
  | none => simp only [hn] at hx; contradiction
  | some p =>
  obtain ⟨v', w0⟩ := p
  simp only [hn] at hx
  obtain ⟨hw, it, hen, ht, hd⟩ := scalar_field S n g.kind hk t v v' ver w0 hn
  subst hw
  simp only [hen, Res.ok_bind] at he
  cases hxr : normFields S n gs vs1 w0 with
  | none => simp only [hxr] at hx; contradiction
  | some q =>
  obtain ⟨r1, w1⟩ := q
  simp only [hxr] at hx
  obtain ⟨hr, hw1⟩ := pair_eq (Option.some.inj hx)
  subst hr hw1
  cases hb : encFields S n gs vs1 w0 with
  | ok q =>
    obtain ⟨b, w2⟩ := q
    simp only [hb, Res.ok_bind, Res.pure_eq, Res.ok.injEq, Prod.mk.injEq] at he
    obtain ⟨hi, hw2⟩ := he
    subst hi hw2
    exact ⟨v, v', vs1, r1, it, b, rfl, rfl, rfl, ⟨hxr, hb⟩, ht, hd⟩
  | err e => simp only [hb, Res.err_bind] at he; contradiction
  | panic m => simp only [hb, Res.panic_bind] at he; contradiction

/-- a required field of any (decodable) kind, by the induction hypothesis. -/
theorem head_req (S : Schema) (n : Nat) (hK : PK S n) (g : Field) (t : Nat) (hp : g.plainWith t = true)
    (gs : List Field) (vs : List Val) (ver : Option Ver) (r : List Val)
    (w' : Option Ver) (items : List Item) (h : FieldsRT S (n + 1) (g :: gs) vs ver r w' items) :
    ∃ v v' vs1 r1 a b w1, vs = v :: vs1 ∧ r = v' :: r1 ∧ items = a ++ b
      ∧ FieldsRT S n gs vs1 w1 r1 w' b ∧ (∀ it ∈ a, it.tag = t)
      ∧ (emitsOne g.kind v = true → a.length = 1)
      ∧ (S.decodable g.kind = true → Item.AllInRange a → ∀ (fd : Nat) (rs : List RawItem),
          v.depth ≤ fd → (emitsOne g.kind v = true ∨ htag rs ≠ t) →
          decK S fd g.kind t (Cur.of (a.map Item.raw ++ rs)) ver = .ok (v', Cur.of rs, w1)) := by
  obtain ⟨hx, he⟩ := h
  cases vs with
  | nil => rw [normFields_cons_nil] at hx; contradiction
  | cons v vs1 =>
  rw [normFields_plain_cons S n g t hp] at hx
  rw [encFields_plain_cons S n g t hp] at he
  cases hn : normK S n g.kind t v ver with
  | none => simp only [hn] at hx; contradiction
  | some p =>
  obtain ⟨v', w0⟩ := p
  simp only [hn] at hx
  obtain ⟨a, hen, _, _, hta, hla, _, hda⟩ := hK g.kind t v ver v' w0 hn
  simp only [hen, Res.ok_bind] at he
  cases hxr : normFields S n gs vs1 w0 with
  | none => simp only [hxr] at hx; contradiction
  | some q =>
  obtain ⟨r1, w1⟩ := q
  simp only [hxr] at hx
  obtain ⟨hr, hw1⟩ := pair_eq (Option.some.inj hx)
  subst hr hw1
  cases hb : encFields S n gs vs1 w0 with
  | ok q =>
    obtain ⟨b, w2⟩ := q
    simp only [hb, Res.ok_bind, Res.pure_eq, Res.ok.injEq, Prod.mk.injEq] at he
    obtain ⟨hi, hw2⟩ := he
    subst hi hw2
    exact ⟨v, v', vs1, r1, a, b, w0, rfl, rfl, rfl, ⟨hxr, hb⟩, hta, hla, hda⟩
  | err e => simp only [hb, Res.err_bind] at he; contradiction
  | panic m => simp only [hb, Res.panic_bind] at he; contradiction

/-- an `omitempty` field of a scalar kind, read with `d.Opt`. -/
theorem head_opt_scalar (S : Schema) (n : Nat) (g : Field) (t : Nat) (hp : g.optWith t = true)
    (hk : g.kind.scalar = true) (gs : List Field) (vs : List Val) (ver : Option Ver) (r : List Val)
    (w' : Option Ver) (items : List Item) (h : FieldsRT S (n + 1) (g :: gs) vs ver r w' items) :
    ∃ v v' vs1 r1 a b, vs = v :: vs1 ∧ r = v' :: r1 ∧ items = a ++ b
      ∧ FieldsRT S n gs vs1 ver r1 w' b ∧ (∀ it ∈ a, it.tag = t)
      ∧ (Item.AllInRange a → ∀ (fd : Nat) (rs : List RawItem) (w0 : Option Ver), htag rs ≠ t →
          decOpt S (fd + 2) g.kind t (Cur.of (a.map Item.raw ++ rs)) w0 = .ok (v', Cur.of rs, w0)) := by
  obtain ⟨hx, he⟩ := h
  cases vs with
  | nil => rw [normFields_cons_nil] at hx; contradiction
  | cons v vs1 =>
  rw [normFields_opt_cons S n g t hp] at hx
  rw [encFields_opt_cons S n g t hp] at he
  by_cases hz : v.isZero = true
  · simp only [hz, if_true] at hx he
    obtain ⟨hzk, hx⟩ := ite_eq_some hx
    cases hxr : normFields S n gs vs1 ver with
    | none => simp only [hxr] at hx; contradiction
    | some q =>
    obtain ⟨r1, w1⟩ := q
    simp only [hxr] at hx
    obtain ⟨hr, hw1⟩ := pair_eq (Option.some.inj hx)
    subst hr hw1
    simp only [Res.ok_bind] at he
    cases hb : encFields S n gs vs1 ver with
    | ok q =>
      obtain ⟨b, w2⟩ := q
      simp only [hb, Res.ok_bind, Res.pure_eq, Res.ok.injEq, Prod.mk.injEq] at he
      obtain ⟨hi, hw2⟩ := he
      subst hi hw2
      refine ⟨v, v, vs1, r1, [], b, rfl, rfl, rfl, ⟨hxr, hb⟩, (fun it hit => by cases hit), ?_⟩
      intro _ fd rs w0 hne
      simp only [List.map_nil, List.nil_append]
      rw [decOpt_absent S (fd + 1) g.kind t rs w0 hne, zeroOf_of_isZero S fd g.kind v hzk]
    | err e => simp only [hb, Res.err_bind] at he; contradiction
    | panic m => simp only [hb, Res.panic_bind] at he; contradiction
  · simp only [hz, Bool.false_eq_true, if_false] at hx he
    cases hn : normK S n g.kind t v ver with
    | none => simp only [hn] at hx; contradiction
    | some p =>
    obtain ⟨v', w0⟩ := p
    simp only [hn] at hx
    obtain ⟨hw, it, hen, ht, hd⟩ := scalar_field S n g.kind hk t v v' ver w0 hn
    subst hw
    simp only [hen, Res.ok_bind] at he
    cases hxr : normFields S n gs vs1 w0 with
    | none => simp only [hxr] at hx; contradiction
    | some q =>
    obtain ⟨r1, w1⟩ := q
    simp only [hxr] at hx
    obtain ⟨hr, hw1⟩ := pair_eq (Option.some.inj hx)
    subst hr hw1
    cases hb : encFields S n gs vs1 w0 with
    | ok q =>
      obtain ⟨b, w2⟩ := q
      simp only [hb, Res.ok_bind, Res.pure_eq, Res.ok.injEq, Prod.mk.injEq] at he
      obtain ⟨hi, hw2⟩ := he
      subst hi hw2
      refine ⟨v, v', vs1, r1, [it], b, rfl, rfl, rfl, ⟨hxr, hb⟩, ?_, ?_⟩
      · intro x hx'; rw [List.mem_singleton.1 hx']; exact ht
      · intro hr fd rs w3 _
        simp only [List.map_cons, List.map_nil, List.cons_append, List.nil_append]
        rw [decOpt_present S (fd + 1) g.kind t _ w3 (by show it.tag = t; exact ht)]
        exact hd ((Item.allInRange_singleton it).1 hr) fd rs w3
    | err e => simp only [hb, Res.err_bind] at he; contradiction
    | panic m => simp only [hb, Res.panic_bind] at he; contradiction

/-- the object field, last in its struct. -/
theorem head_obj (S : Schema) (hU : S.unambiguous = true) (n4 : Nat) (hK : PK S n4)
    (vs : List Val) (ver : Option Ver) (r : List Val) (w' : Option Ver) (items : List Item)
    (d : Nat) (x' : Val) (hr0 : r.getD 0 (.int 0) = .iface (some (d, x')))
    (h : FieldsRT S (n4 + 2) [objField] vs ver r w' items) :
    ∃ x, vs = [.iface (some (d, x))] ∧ r = [.iface (some (d, x'))]
      ∧ (∀ it ∈ items, it.tag = (S.dyn d).defTag) ∧ items.length = 1
      ∧ (Item.AllInRange items → ∀ (f : Nat) (rs : List RawItem), x.depth + 4 ≤ f →
          decDyn S f d 0 (Cur.of (items.map Item.raw ++ rs)) ver
            = .ok (.iface (some (d, x')), Cur.of rs, w')) := by
  obtain ⟨hx, he⟩ := h
  cases vs with
  | nil => rw [normFields_cons_nil] at hx; contradiction
  | cons v vs1 =>
  rw [normFields_obj_cons] at hx
  rw [encFields_obj_cons] at he
  cases hn : normK S (n4 + 1) .iface (dynTagOf S v) v ver with
  | none => simp only [hn] at hx; contradiction
  | some p =>
  obtain ⟨v', w0⟩ := p
  simp only [hn] at hx
  cases hxr : normFields S (n4 + 1) [] vs1 w0 with
  | none => simp only [hxr] at hx; contradiction
  | some q =>
  obtain ⟨r1, w1⟩ := q
  simp only [hxr] at hx
  obtain ⟨hr, hw1⟩ := pair_eq (Option.some.inj hx)
  subst hr hw1
  obtain ⟨hvs, hr1, hw⟩ := normFields_nil_inv hxr
  subst hvs hr1 hw
  simp only [List.getD_cons_zero] at hr0
  subst hr0
  obtain ⟨x, objI, hv, heo, hto, hlo, hdo⟩ := obj_step S hU n4 hK v ver d x' w1 hn
  subst hv
  simp only [heo, Res.ok_bind, encFields_nil, Res.pure_eq, Res.ok.injEq, Prod.mk.injEq, List.append_nil] at he
  obtain ⟨hi, -⟩ := he
  subst hi
  exact ⟨x, rfl, rfl, hto, hlo, hdo⟩


/-! ## What the schema guarantees about objects -/

theorem objectDyn_tag {S : Schema} (hU : S.unambiguous = true) {ot d : Nat} (h : S.objectDyn ot = some d) :
    (S.dyn d).defTag ∉ [T.attr, T.replaceExisting, T.keyWrapType] := by
  simp only [Schema.unambiguous, Bool.and_eq_true, List.all_eq_true] at hU
  unfold Schema.objectDyn lookupNat at h
  split at h
  · rename_i p hp
    have hmem := List.mem_of_find?_eq_some hp
    have := hU.2 p hmem
    simp only [Option.some.injEq] at h
    subst h
    simpa using this
  · contradiction

theorem objfields_fuel {S : Schema} {n : Nat} {vs : List Val} {w : Option Ver} {r : List Val × Option Ver}
    (h : normFields S n [objField] vs w = some r) : ∃ n4, n = n4 + 2 := by
  obtain ⟨m, rfl⟩ := normFields_succ_of_some h
  cases vs with
  | nil => rw [normFields_cons_nil] at h; contradiction
  | cons v vs1 =>
    rw [normFields_obj_cons] at h
    cases hn : normK S m .iface (dynTagOf S v) v w with
    | none => simp only [hn] at h; contradiction
    | some p =>
      obtain ⟨k, rfl⟩ := normK_succ_of_some hn
      exact ⟨k, rfl⟩

theorem decodable_slice_of {S : Schema} {k : Kind} (hd : k.definite = true) (h : S.decodable k = true) :
    S.decodable (.slice k) = true := by
  cases k <;> simp_all [Schema.decodable, Kind.base, Kind.definite, Kind.scalar]

theorem decodable_ptr_of {S : Schema} {k : Kind} (hd : k.definite = true) (h : S.decodable k = true) :
    S.decodable (.ptr k) = true := by
  cases k <;> simp_all [Schema.decodable, Kind.base, Kind.definite, Kind.scalar]


/-! ## RegisterRequestPayload -/

theorem decCustom_register (S : Schema) (n id tag : Nat) (c : Cur) (ver : Option Ver) :
    decCustom S (n + 1) Cust.registerRequest id tag c ver = (do
      let it ← c.expect 1 tag
      let c0 ← Cur.start it.val
      let (v, ver') ← (do
          let (ot, c1, v1) ← decK S n ((S.structDef id).fields.getD 0 fieldDflt).kind T.objectType c0 ver
          let (ta, c2, v2) ← decK S n ((S.structDef id).fields.getD 1 fieldDflt).kind T.templateAttribute c1 v1
          match S.objectDyn ot.asInt.toNat with
          | none => .err .other
          | some d => do
            let (obj, _, v3) ← decDyn S n d 0 c2 v2
            pure (Val.struct [ot, ta, obj], v3) : Res (Val × Option Ver))
      let c' ← c.next
      pure (v, c', ver')) := by
  rw [decCustom.eq_def]; rfl

set_option maxHeartbeats 1000000 in
theorem custdec_register (S : Schema) (hU : S.unambiguous = true) (n : Nat) (hK : ∀ m, m < n → PK S m)
    (id tag : Nat) (fs : List Val) (ver : Option Ver) (fs' : List Val) (ver' : Option Ver) (items : List Item)
    (g0 g1 : Field) (hF : (S.structDef id).fields = [g0, g1, objField])
    (h0 : g0.plainWith T.objectType = true) (h0k : g0.kind.isEnum = true)
    (h1 : g1.plainWith T.templateAttribute = true) (h1k : g1.kind.definite = true)
    (h1d : S.decodable g1.kind = true)
    (hx : normFields S n (S.structDef id).fields fs ver = some (fs', ver'))
    (hcok : customOk S Cust.registerRequest (.struct fs') = true)
    (he : encFields S n (S.structDef id).fields fs ver = .ok (items, ver'))
    (hr : (Item.struct tag items).InRange) (fd : Nat) (rs : List RawItem)
    (hfd : (Val.struct fs).depth ≤ fd + 1) :
    decCustom S fd Cust.registerRequest id tag (Cur.of ((Item.struct tag items).raw :: rs)) ver
      = .ok (.struct fs', Cur.of rs, ver') := by
  have hg0 : ((S.structDef id).fields.getD 0 fieldDflt).kind = g0.kind := by rw [hF]; rfl
  have hg1 : ((S.structDef id).fields.getD 1 fieldDflt).kind = g1.kind := by rw [hF]; rfl
  rw [hF] at hx he
  obtain ⟨n1, rfl⟩ := normFields_succ_of_some hx
  obtain ⟨v0, v0', vs1, r1, it0, b0, rfl, rfl, rfl, hrt1, ht0, hd0⟩ :=
    head_req_scalar S n1 g0 _ h0 (enum_scalar h0k) _ fs ver fs' ver' items ⟨hx, he⟩
  obtain ⟨n2, rfl⟩ := normFields_succ_of_some hrt1.1
  obtain ⟨v1, v1', vs2, r2, a1, b1, w1, rfl, rfl, rfl, hrt2, hta1, hla1, hda1⟩ :=
    head_req S n2 (hK n2 (by omega)) g1 _ h1 _ vs1 ver r1 ver' b0 hrt1
  obtain ⟨n4, rfl⟩ := objfields_fuel hrt2.1
  rw [customOk_register] at hcok
  simp only [Val.field, List.getD_cons_zero, List.getD_cons_succ] at hcok
  split at hcok
  · rename_i _ _ ot d x' hv2
    simp only [beq_iff_eq] at hcok
    obtain ⟨x, rfl, rfl, hto, hlo, hdo⟩ := head_obj S hU n4 (hK n4 (by omega)) vs2 w1 r2 ver' b1 d x' hv2 hrt2
    rw [Item.InRange] at hr
    obtain ⟨_, _, _, hin⟩ := hr
    have hi0 := (Item.allInRange_append [it0] (a1 ++ b1)).1 hin
    have hi1 := (Item.allInRange_append a1 b1).1 hi0.2
    simp only [Val.depth, Val.depthList] at hfd
    have hv1d := Val.depth_pos v1
    obtain ⟨f, rfl, hf⟩ := fuel_succ (by omega : 5 + 1 ≤ fd)
    obtain ⟨f1, rfl, hf1⟩ := fuel_succ (by omega : 4 + 1 ≤ f)
    have hone : emitsOne g1.kind v1 = true := by simp [emitsOne, h1k]
    rw [decCustom_register]
    have hexp : (Cur.of ((Item.struct tag (it0 :: (a1 ++ b1))).raw :: rs)).expect 1 tag
        = .ok (Item.struct tag _).raw := Cur.expect_of (.struct tag _) rs
    have hstart : Cur.start (Item.struct tag (it0 :: (a1 ++ b1))).raw.val
        = .ok (Cur.of ((it0 :: (a1 ++ b1)).map Item.raw)) := Cur.start_encList _ hin
    have hnext : (Cur.of ((Item.struct tag (it0 :: (a1 ++ b1))).raw :: rs)).next
        = .ok (Cur.of rs) := Cur.next_of _ rs
    simp only [hexp, Res.ok_bind, hstart, hnext, hg0, hg1]
    have hl : (it0 :: (a1 ++ b1)).map Item.raw = it0.raw :: (a1.map Item.raw ++ (b1.map Item.raw ++ [])) := by
      simp
    rw [hl, hd0 ((Item.allInRange_singleton it0).1 hi0.1) f1 _ ver]
    simp only [Res.ok_bind]
    rw [hda1 h1d hi1.1 (f1 + 1) _ (by omega) (Or.inl hone)]
    simp only [Res.ok_bind, Val.asInt, hcok]
    rw [hdo hi1.2 (f1 + 1) [] (by omega)]
    simp only [Res.ok_bind, Res.pure_eq]
  · contradiction

end Kmip
