/-
  Audit: list every theorem of a property namespace with the axioms it depends on, as JSON lines.
  Usage:  lake env lean --run Audit.lean C03      (imports are resolved at run time)
-/
import Lean
open Lean Elab

def allowedAxioms : List Name := [``propext, ``Classical.choice, ``Quot.sound]

unsafe def auditMain (args : List String) : IO UInt32 := do
  let prop := args.headD "C03"
  let modName := (`KmipModel.Props).str prop
  initSearchPath (← findSysroot)
  let env ← importModules #[{ module := modName }] {} (trustLevel := 1024)
  let ns := (`Kmip).str prop
  let mut bad := 0
  let mut count := 0
  let mut lines : Array String := #[]
  for (n, ci) in env.constants.toList do
    if !ns.isPrefixOf n then continue
    if n.isInternal then continue
    match ci with
    | .thmInfo _ =>
      let (axs, _) ← ((Lean.collectAxioms n : CoreM (Array Name)).toIO
          { fileName := "<audit>", fileMap := default } { env := env })
      let okAx := axs.all fun a => allowedAxioms.contains a
      if !okAx then bad := bad + 1
      count := count + 1
      let axStr := ", ".intercalate (axs.toList.map fun a => "\"" ++ a.toString ++ "\"")
      lines := lines.push s!"\{\"theorem\": \"{n}\", \"axioms\": [{axStr}], \"ok\": {okAx}}"
    | _ => pure ()
  for l in lines.qsort (· < ·) do
    IO.println l
  IO.println s!"\{\"summary\": true, \"property\": \"{prop}\", \"theorems\": {count}, \"bad_axioms\": {bad}}"
  return if bad == 0 then 0 else 1

unsafe def main (args : List String) : IO UInt32 := auditMain args
