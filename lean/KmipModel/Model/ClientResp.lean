/-
  Client-side interpretation of a server response — model of
    kmipclient/client.go  `BatchOpt`, `Batch`, `Request`, `Executor.ExecContext`, `BatchExec.ExecContext`,
                          `BatchResult.Unwrap`
    responses.go          `ResponseBatchItem.Err`
    ttlv/registry.go      `EnumStr`
    operations.go         `newResponsePayload` (which Go type a payload decoded from the wire has)

  The model starts where `Client.Roundtrip` returns: the response message is *data* (an abstract
  `RoundTrip`), so "any server answer" is a universally quantified argument. Only what the client code
  looks at is kept: the header batch count, and per item the operation, status, reason, message, and the
  dynamic Go type of the payload (`Payload`), plus — for DiscoverVersions — the version list it carries.

  Go panics are explicit: `resp[0]` of `Request` and `payloads[i]` of `BatchOpt` are `.panic` branches on the
  empty list (shown unreachable in Props/C12).
-/
import KmipModel.Gen.Registry
namespace Kmip.Resp

/-- `kmip.ProtocolVersion{Major, Minor}` (two int32 fields). -/
abbrev Ver := Int × Int

/-- a Go string as its bytes. -/
abbrev Msg := List Nat

/-- The dynamic Go type of an `OperationPayload` value, together with what its `Operation()` returns. -/
inductive Payload where
  | resp (op : Nat)      -- `*payloads.<Op>ResponsePayload`, the response type registered for `op`
  | req (op : Nat)       -- `*payloads.<Op>RequestPayload`, the request type registered for `op`
  | unknown (op : Nat)   -- `*kmip.UnknownPayload` with `opType = op`
  deriving DecidableEq, Repr, Inhabited

/-- `payload.Operation()`. -/
def Payload.operation : Payload → Nat
  | .resp o => o
  | .req o => o
  | .unknown o => o

/-- `kmip.ResponseBatchItem` as far as the client looks at it. `vers` is the `ProtocolVersion` list of the
    payload when the payload is a `*payloads.DiscoverVersionsResponsePayload` (ignored otherwise). -/
structure Item where
  op : Nat
  status : Nat
  reason : Nat
  msg : Msg
  payload : Option Payload
  vers : List Ver := []
  deriving DecidableEq, Repr, Inhabited

/-- What `Client.Roundtrip` returns: an error (transport failure, undecodable answer, context expiry,
    middleware error) or a response message (`Header.BatchCount` is an int32: it may be negative). -/
inductive RoundTrip where
  | fail
  | msg (hdrCount : Int) (items : List Item)
  deriving DecidableEq, Repr, Inhabited

/-- The string `ttlv.EnumStr` renders: the registered name (coded as a base-256 number) or the
    `0x%08X` form of the value. -/
inductive EStr where
  | name (code : Nat)
  | hex (v : Nat)
  deriving DecidableEq, Repr, Inhabited

/-- The three enumeration registries `Err()` consults: value ↦ name code. -/
structure Tables where
  ops : List (Nat × Nat)
  status : List (Nat × Nat)
  reasons : List (Nat × Nat)

/-- `ttlv.EnumStr`: the name when the value is registered, else the hex form. -/
def enumStr (tbl : List (Nat × Nat)) (v : Nat) : EStr :=
  match tbl.lookup v with
  | some n => .name n
  | none => .hex v

/-- One line of the error `BatchOpt` returns when it refuses a response (`errors.Join`). -/
inductive ItemErr where
  | item (op status reason : EStr) (msg : Msg)       -- `ResponseBatchItem.Err()` of a failed item
  | missingAt (i : Nat)                              -- "Missing response payload in batch item %d"
  | wrongOperationAt (got want : EStr) (i : Nat)     -- "Unexpected response payload for operation %q in
                                                     --  batch item %d, expected %q"
  deriving DecidableEq, Repr, Inhabited

/-- The `error` values the client returns. -/
inductive Err where
  | transport                                        -- error of `Roundtrip`
  | countMismatch                                    -- "Batch count mismatch"
  | item (op status reason : EStr) (msg : Msg)       -- `ResponseBatchItem.Err()`:
                                                     --  Operation %q failed (status=%q, reason=%q) %s
  | missingPayload                                   -- "Missing response payload"
  | wrongOperation (got want : EStr)                 -- "Unexpected response payload for operation …"
  | wrongType                                        -- "Unexpected response payload type %T"
  | build                                            -- "Request initialization failed"
  | negoCount                                        -- "Unexpected batch item count"
  | negoNoCommon                                     -- "… No common version found"
  | negoPayload                                      -- "… Unexpected response payload"
  | joined (lines : List ItemErr)                    -- `errors.Join(errs...)` of a refused batch response
  deriving DecidableEq, Repr, Inhabited

/-- Result of a client call: a value, a Go `error`, or a Go panic. -/
inductive Res (α : Type) where
  | ok (a : α)
  | err (e : Err)
  | panic
  deriving DecidableEq, Repr, Inhabited

def statusSuccess : Nat := 0
def statusFailed : Nat := 1
def reasonNotSupported : Nat := 5
def reasonInvalidMessage : Nat := 4
def opDiscover : Nat := 0x1E

/-- `ResponseBatchItem.Err()`: `nil` iff the status is Success. -/
def Item.err (t : Tables) (bi : Item) : Option Err :=
  if bi.status ≠ statusSuccess then
    some (.item (enumStr t.ops bi.op) (enumStr t.status bi.status) (enumStr t.reasons bi.reason) bi.msg)
  else none

/-- The loop of `BatchOpt` over `resp.BatchItem[i:]`, with `ops = payloads[i:]` (operations requested at
    the same positions): the lines for `errors.Join` and the `violation` flag. A failed item contributes
    its `Err()`; a successful item must carry a payload whose `Operation()` is the requested one.
    `none` = index out of range at `payloads[i]`. -/
def checkItems (t : Tables) : Nat → List Nat → List Item → Option (List ItemErr × Bool)
  | _, _, [] => some ([], false)
  | i, ops, bi :: rest =>
    if bi.status ≠ statusSuccess then
      match checkItems t (i + 1) ops.tail rest with
      | none => none
      | some r =>
        some (.item (enumStr t.ops bi.op) (enumStr t.status bi.status) (enumStr t.reasons bi.reason) bi.msg :: r.1, r.2)
    else
      match bi.payload with
      | none =>
        match checkItems t (i + 1) ops.tail rest with
        | none => none
        | some r => some (.missingAt i :: r.1, true)
      | some p =>
        match ops with
        | [] => none                                    -- `payloads[i]`: index out of range
        | o :: ops' =>
          match checkItems t (i + 1) ops' rest with
          | none => none
          | some r =>
            if p.operation ≠ o then
              some (.wrongOperationAt (enumStr t.ops p.operation) (enumStr t.ops o) i :: r.1, true)
            else some r

/-- `Client.BatchOpt` (= `Batch`, `BatchExec.ExecContext`) for the requested operations `reqOps`, once the
    round trip returned: count check, then the per-item check; a violation refuses the whole response. -/
def batchOpt (t : Tables) (reqOps : List Nat) : RoundTrip → Res (List Item)
  | .fail => .err .transport
  | .msg h items =>
    if h ≠ (items.length : Int) ∨ items.length ≠ reqOps.length then .err .countMismatch
    else
      match checkItems t 0 reqOps items with
      | none => .panic
      | some r => if r.2 then .err (.joined r.1) else .ok items

/-- `Client.Request` from `bi := resp[0]` on. (Since 3ff9e72 `BatchOpt` already refuses a successful item
    without the requested operation's payload, so the last two checks are now redundant; they are still in
    the code and in the model.) -/
def requestItem (t : Tables) (reqOp : Nat) (bi : Item) : Res Payload :=
  match bi.err t with
  | some e => .err e
  | none =>
    match bi.payload with
    | none => .err .missingPayload
    | some p =>
      if p.operation ≠ reqOp then .err (.wrongOperation (enumStr t.ops p.operation) (enumStr t.ops reqOp))
      else .ok p

/-- `Client.Request(ctx, payload)` with `payload.Operation() = reqOp`. -/
def request (t : Tables) (reqOp : Nat) (rt : RoundTrip) : Res Payload :=
  match batchOpt t [reqOp] rt with
  | .err e => .err e
  | .panic => .panic
  | .ok items =>
    match items with
    | [] => .panic                                    -- `resp[0]`: index out of range
    | bi :: _ => requestItem t reqOp bi

/-- `Executor[Req, Resp].ExecContext` where `Resp` is the response type registered for `reqOp`;
    `buildOk = false` models a builder carrying an initialisation error (no request is sent).
    The type assertion `resp.(Resp)` succeeds iff the dynamic type is exactly that response type. -/
def exec (t : Tables) (reqOp : Nat) (buildOk : Bool) (rt : RoundTrip) : Res Payload :=
  if !buildOk then .err .build
  else
    match request t reqOp rt with
    | .ok p => if p = .resp reqOp then .ok p else .err .wrongType
    | .err e => .err e
    | .panic => .panic

/-- `BatchResult.Unwrap`: the payloads positionally (`none` = nil element) and the list handed to
    `errors.Join` (empty list = nil error). -/
def unwrap (t : Tables) : List Item → List (Option Payload) × List Err
  | [] => ([], [])
  | bi :: rest =>
    let r := unwrap t rest
    (bi.payload :: r.1, match bi.err t with | some e => e :: r.2 | none => r.2)

/-- `client.Batch(ctx, payloads...)` (or a `.Then(...)` chain `.Exec()`) followed by `.Unwrap()`. -/
def batchUnwrap (t : Tables) (reqOps : List Nat) (rt : RoundTrip) : Res (List (Option Payload) × List Err) :=
  match batchOpt t reqOps rt with
  | .ok items => .ok (unwrap t items)
  | .err e => .err e
  | .panic => .panic

/-- `newResponsePayload(op)`: the Go type a payload *decoded from the wire* in an item announcing
    operation `op` has — the registered response type, else `*UnknownPayload`. -/
def respKind (reg : List Nat) (op : Nat) : Payload :=
  if op ∈ reg then .resp op else .unknown op

/-- A response as `ResponseBatchItem.TagDecodeTTLV` can produce it from bytes: a payload is only decoded
    when the item announces an operation, and its type is then chosen from that operation. (Responses
    fabricated in-process by a client middleware need not be of this shape.) -/
def WireShaped (reg : List Nat) : RoundTrip → Prop
  | .fail => True
  | .msg _ items => ∀ bi ∈ items, ∀ p, bi.payload = some p → bi.op ≠ 0 ∧ p = respKind reg bi.op

/-! ### Reference tables for the non-vacuity examples (a snapshot; names are base-256 numbers without the
    registry's leading 0x01). The tables the DRIVER evaluates with are the regenerated live registries, see
    `stdTables` below: renaming an enumeration value in the Go code is followed by the model. -/

def statusNames : List (Nat × Nat) := [
  (0x0, 23491492796789619),  -- Success
  (0x1, 412471119143380974025018302853309796),  -- OperationFailed
  (0x2, 105592606500705529350407504699601808999),  -- OperationPending
  (0x3, 412471119143380974025034851278614117)  -- OperationUndone
]

def reasonNames : List (Nat × Nat) := [
  (0x1, 22733120087395224772922404452),  -- ItemNotFound
  (0x2, 109523459022220103579976120770036393829),  -- ResponseTooLarge
  (0x3, 26928191511236989026737710286320747095438220794500158075533948268),  -- AuthenticationNotSuccessful
  (0x4, 1489367635952064155242763366000485),  -- InvalidMessage
  (0x5, 116100298654701375868509692528445577880096516367716),  -- OperationNotSupported
  (0x6, 93585266282895812522505313),  -- MissingData
  (0x7, 22725946593506838276317998180),  -- InvalidField
  (0x8, 1569883666966109200362382426874473502890812772),  -- FeatureNotSupported
  (0x9, 8365908188142662630530622162542648341732508342317597757938850882930),  -- OperationCanceledByRequester
  (0xA, 385055245450821467909411109671782273368391512677),  -- CryptographicFailure
  (0xB, 97596610287296961724036190376221568878),  -- IllegalOperation
  (0xC, 106864982508705315285607275342594663780),  -- PermissionDenied
  (0xD, 1610107646597087532288536722433380),  -- ObjectArchived
  (0xE, 97606832626976729849589867343420220531),  -- IndexOutOfBounds
  (0xF, 29598997947531248351304254595784897031093788574360522255373027899075728794980),  -- ApplicationNamespaceNotSupported
  (0x10, 473270758798557418899370481852963726289796033408009432753508),  -- KeyFormatTypeNotSupported
  (0x11, 520366701151224813417562059410702388208310503668422908984848264379786596),  -- KeyCompressionTypeNotSupported
  (0x12, 1548367606171107414863372917305338432035385202),  -- EncodingOptionError
  (0x13, 6567951249042039797446200725931810726702708),  -- KeyValueNotPresent
  (0x14, 1459693070678639715354112197588631099836360036),  -- AttestationRequired
  (0x15, 22273148661478267141023440501751788889444),  -- AttestationFailed
  (0x16, 1538388664259923506789),  -- Sensitive
  (0x17, 1590858259369766506213206407670885),  -- NotExtractable
  (0x18, 1770332079404548258008533482589184605333714035),  -- ObjectAlreadyExists
  (0x100, 1448087292265944342485108417458789)  -- GeneralFailure
]

def operationNames : List (Nat × Nat) := [
  (0x1, 74158606218341),  -- Create
  (0x2, 5343690741299795224247406782834),  -- CreateKeyPair
  (0x3, 5937265386364102002),  -- Register
  (0x4, 353886758265),  -- ReKey
  (0x5, 1261688618114651743609),  -- DeriveKey
  (0x6, 18970365693355641),  -- Certify
  (0x7, 1519929801407707309689),  -- ReCertify
  (0x8, 84041292412005),  -- Locate
  (0x9, 289514283883),  -- Check
  (0xA, 4679028),  -- Get
  (0xB, 5656598069001833702071679083891),  -- GetAttributes
  (0xC, 94901967628826668415736207472474026868),  -- GetAttributeList
  (0xD, 20237891664427001942870684773),  -- AddAttribute
  (0xE, 402066161009247567863839929398555749),  -- ModifyAttribute
  (0xF, 355133297790588191477093878916805733),  -- DeleteAttribute
  (0x10, 95970078506452248971801445),  -- ObtainLease
  (0x11, 6219495454346930557972001969181377360916334),  -- GetUsageAllocation
  (0x12, 4711737631466157157),  -- Activate
  (0x13, 90595732188005),  -- Revoke
  (0x14, 19251844965625721),  -- Destroy
  (0x15, 18421644765263461),  -- Archive
  (0x16, 23192425836471666),  -- Recover
  (0x17, 6224375359914210405),  -- Validate
  (0x18, 349861933689),  -- Query
  (0x19, 74085742896492),  -- Cancel
  (0x1A, 1349479532),  -- Poll
  (0x1B, 86240601400953),  -- Notify
  (0x1C, 5272948),  -- Put
  (0x1D, 25500228362478930923689699698),  -- ReKeyKeyPair
  (0x1E, 90935035238708913517775688916427304563),  -- DiscoverVersions
  (0x1F, 19543146794414196),  -- Encrypt
  (0x20, 19251776213053556),  -- Decrypt
  (0x21, 1399416686),  -- Sign
  (0x22, 433098486928679933664053570954684025),  -- SignatureVerify
  (0x23, 5062979),  -- MAC
  (0x24, 1425101991105251599993),  -- MACVerify
  (0x25, 99501577450172376531957349),  -- RNGRetrieve
  (0x26, 23167016339072356),  -- RNGSeed
  (0x27, 1214346088),  -- Hash
  (0x28, 1367984829772748156950127223465337),  -- CreateSplitKey
  (0x29, 23036579376391733047542375801),  -- JoinSplitKey
  (0x2A, 80734386614900),  -- Import
  (0x2B, 76383584744052)  -- Export
]

/-- snapshot of the operations with a registered (request, response) payload type pair. -/
def pinnedOps : List Nat :=
  [0x1, 0x2, 0x3, 0x4, 0x8, 0xA, 0xB, 0xC, 0xD, 0xE, 0xF, 0x10, 0x11, 0x12, 0x13, 0x14, 0x15, 0x16, 0x18,
   0x1D, 0x1E, 0x1F, 0x20, 0x21, 0x22, 0x2A, 0x2B]

def pinnedTables : Tables := { ops := operationNames, status := statusNames, reasons := reasonNames }

/-- the live registries of the current tree (REGENERATED by go/cmd/extract on every check: `ttlv.enumNames` of
    the Operation, Result Status and Result Reason enumerations; names packed with the registry's leading 0x01). -/
def stdTables : Tables :=
  { ops := Kmip.Gen.enum_42005C_byValue, status := Kmip.Gen.enum_42007F_byValue, reasons := Kmip.Gen.enum_42007E_byValue }

end Kmip.Resp
