/-
  Certificate obligations, parts 0..7 of 64 of the `patched` client system (kernel evaluation; 8 modules
  so that lake checks them in parallel; small parts keep the kernel's memory small).
  Assembled in `Lemmas/CliCert.lean`.
-/
import KmipModel.Model.CliConn
import KmipModel.Gen.CertCliConn
namespace Kmip.CliCert
open Kmip.CliLts Kmip.CliConn Kmip.Gen.CertCliConn

theorem paClosed0 : partClosed (sys patched) codec certPatched paP0 = true := by decide +kernel
theorem paSafe0 : partSafe codec (badFull patched) paP0 = true := by decide +kernel
theorem paClosed1 : partClosed (sys patched) codec certPatched paP1 = true := by decide +kernel
theorem paSafe1 : partSafe codec (badFull patched) paP1 = true := by decide +kernel
theorem paClosed2 : partClosed (sys patched) codec certPatched paP2 = true := by decide +kernel
theorem paSafe2 : partSafe codec (badFull patched) paP2 = true := by decide +kernel
theorem paClosed3 : partClosed (sys patched) codec certPatched paP3 = true := by decide +kernel
theorem paSafe3 : partSafe codec (badFull patched) paP3 = true := by decide +kernel
theorem paClosed4 : partClosed (sys patched) codec certPatched paP4 = true := by decide +kernel
theorem paSafe4 : partSafe codec (badFull patched) paP4 = true := by decide +kernel
theorem paClosed5 : partClosed (sys patched) codec certPatched paP5 = true := by decide +kernel
theorem paSafe5 : partSafe codec (badFull patched) paP5 = true := by decide +kernel
theorem paClosed6 : partClosed (sys patched) codec certPatched paP6 = true := by decide +kernel
theorem paSafe6 : partSafe codec (badFull patched) paP6 = true := by decide +kernel
theorem paClosed7 : partClosed (sys patched) codec certPatched paP7 = true := by decide +kernel
theorem paSafe7 : partSafe codec (badFull patched) paP7 = true := by decide +kernel

end Kmip.CliCert
