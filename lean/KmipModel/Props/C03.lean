/-
  C03 — the binary TTLV writer `enc` produces well-formed TTLV: every encoding has a length that is
  a multiple of 8, big integers are emitted as minimal-padded two's complement, the Go decode loop
  `bytesToBigInt` agrees with the two's complement specification on every non-empty input, and the
  independent strict specification parser reads every in-range encoding back to the same tree.
-/
import KmipModel.Lemmas.WireLemmas
namespace Kmip.C03
open Kmip

/-- 1. `padForLen` pads up to the next multiple of 8 with fewer than 8 bytes. -/
theorem padForLen_spec (l : Nat) : (l + padForLen l 8) % 8 = 0 ∧ padForLen l 8 < 8 :=
  ⟨padForLen_mod l, padForLen_lt l⟩

/-- 2. the bytes written for a big integer are a two's complement encoding of it. -/
theorem encodeBig_twos (v : Int) : twos (encodeBig v) = v :=
  twos_encodeBig v

/-- 3. … of positive length, a multiple of 8. -/
theorem encodeBig_shape (v : Int) : 0 < (encodeBig v).length ∧ (encodeBig v).length % 8 = 0 :=
  ⟨encodeBig_length_pos v, encodeBig_length_mod v⟩

/-- 4. the decoder's negate loop computes two's complement on every non-empty byte string
    (any length: over-long / non-minimal encodings included). -/
theorem bytesToBigInt_eq_twos (bs : Bytes) (h : bs ≠ []) : bytesToBigInt bs = twos bs :=
  bytesToBigInt_eq_twos_aux bs h

/-- 5. big integer round trip through the two Go loops. -/
theorem bytesToBigInt_encodeBig (v : Int) : bytesToBigInt (encodeBig v) = v := by
  rw [bytesToBigInt_eq_twos _ (encodeBig_ne_nil v), encodeBig_twos]

/-- 6. every encoding is 8-byte aligned. -/
theorem enc_len8 (t : Item) : (enc t).length % 8 = 0 :=
  enc_length_mod t

theorem encList_len8 (ts : List Item) : (encList ts).length % 8 = 0 :=
  encList_length_mod ts

/-- 7. the strict specification parser reads back every in-range encoding, leaving the rest. -/
theorem specParse_enc (t : Item) (h : t.InRange) (fuel : Nat) (hf : t.size ≤ fuel) (rest : Bytes) :
    specParse fuel (enc t ++ rest) = some (t, rest) :=
  specParse_enc_aux t h fuel hf rest

theorem specParseList_enc (ts : List Item) (h : Item.AllInRange ts) (fuel : Nat)
    (hf : Item.sizeList ts ≤ fuel) : specParseList fuel (encList ts) = some ts :=
  specParseList_enc_aux ts h fuel hf

/-- non-vacuity of `Item.InRange`: a nested tree with a negative int, big integers on both sides
    of a pad boundary, a text of length 3 and an empty structure. -/
def sample : Item :=
  .struct 0x420078 [.int 0x42000A (-1), .big 0x42000B (-128), .big 0x42000C (2 ^ 64),
    .text 0x42000D [0x61, 0x62, 0x63], .struct 0x42000E []]

example : sample.InRange := by
  have e1 : (encodeBig (-128)).length = 8 := by
    rw [encodeBig_neg _ (by decide)]
    simp [negBody, negPad, natToBytesBE, negEncLE, padForLen]
  have e2 : (encodeBig 18446744073709551616).length = 16 := by
    rw [encodeBig_pos _ (by decide)]
    simp [posPad, natToBytesBE, padForLen]
  simp [sample, Item.InRange, Item.AllInRange, inInt, enc, encList, hdr, e1, e2, padForLen]

/-- 8. the fuel `t.size` is bounded by the length of the encoding. -/
theorem size_le_length (t : Item) : t.size + 1 ≤ (enc t).length :=
  size_le_length_aux t

theorem sizeList_le_length (ts : List Item) : Item.sizeList ts ≤ 1 + (encList ts).length :=
  sizeList_le_length_aux ts

/-- 9. top-level strict decode of an encoding returns the tree. -/
theorem specDecode_enc (t : Item) (h : t.InRange) : specDecode (enc t) = some t := by
  have hs := size_le_length t
  have := specParse_enc t h ((enc t).length + 1) (by omega) []
  rw [List.append_nil] at this
  simp [specDecode, this]

/-- 10. `encodeBig` is the shortest 8-byte-aligned two's complement encoding of its value. -/
theorem encodeBig_minimal (v : Int) (bs : Bytes) (hne : bs ≠ []) (h8 : bs.length % 8 = 0)
    (hv : twos bs = v) : (encodeBig v).length ≤ bs.length :=
  encodeBig_minimal_aux v bs hne h8 hv

end Kmip.C03
