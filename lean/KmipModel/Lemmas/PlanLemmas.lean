/-
  Helper definitions and lemmas about the typed codec `KmipModel.Model.Plan`:
  * `Schema.decodeSafe` — the decidable well-formedness check under which the typed decoder never panics,
    and its soundness (`decode_noPanic_typed`, `unmarshal_noPanic`);
  * inversion lemmas for the `Res` monad, used by the C05/C06 property files;
  * the version-cell lemmas of the encoder (C05) and the dispatch lemmas of the hand-written decoders (C06).
  Core Lean only (`Lean.Elab.Tactic` is imported for one small proof-search tactic; nothing here is linked
  into the model executable).
-/
import Lean.Elab.Tactic
import KmipModel.Lemmas.ReaderLemmas
import KmipModel.Model.Plan
namespace Kmip

/-! ### `Res` helpers -/

theorem Res.noPanic_bind' {α β : Type} {x : Res α} {f : α → Res β} (hx : x.NoPanic)
    (hf : ∀ a, (f a).NoPanic) : (x >>= f).NoPanic :=
  Res.noPanic_bind hx (fun a _ => hf a)

theorem Res.bind_eq_ok {α β : Type} {x : Res α} {f : α → Res β} {b : β}
    (h : (x >>= f) = .ok b) : ∃ a, x = .ok a ∧ f a = .ok b := by
  cases x with
  | ok a => exact ⟨a, rfl, h⟩
  | err e => exact nomatch h
  | panic m => exact nomatch h

/-! ### C02 (typed layer): the decidable safety condition -/

/-- the kind can be handed to `decK` without reaching one of its panicking branches
    (`.iface`: reflective decode of a nil interface; `.i8`/`.i16`/`.unsupported`: no decoder). -/
def Kind.leafSafe : Kind → Bool
  | .iface | .i8 | .i16 | .unsupported => false
  | .ptr k => k.leafSafe
  | .slice k => k.leafSafe
  | _ => true

/-- a field of a reflectively decoded struct: safe kind, and not an untagged interface. -/
def Field.decSafe (f : Field) : Bool := f.kind.leafSafe && !f.dynTag

/-- `fk i` of `decCustom`: the kind of the i-th declared field (`.unsupported` when there is none). -/
@[reducible] def kindAt (fields : List Field) (i : Nat) : Kind :=
  (fields.getD i { tag := 0, kind := .unsupported }).kind

/-- the first `n` field kinds of the union-like struct with codec `code` exist and are safe. -/
def unionSafe (S : Schema) (code n : Nat) : Bool :=
  (List.range n).all fun i => ((customFieldKinds S code).getD i .unsupported).leafSafe

/-- what the hand-written decoder `code` needs from the declared fields of its struct (and from the
    union structs it decodes into). Codes without a decoder are unsafe (`decCustom` panics on them). -/
def customSafe (S : Schema) (fields : List Field) (code : Nat) : Bool :=
  if code = Cust.unknownPayload then true
  else if code = Cust.requestBatchItem then
    (kindAt fields 0).leafSafe && (kindAt fields 3).leafSafe
  else if code = Cust.responseBatchItem then
    (kindAt fields 0).leafSafe && (kindAt fields 2).leafSafe && (kindAt fields 3).leafSafe &&
      (kindAt fields 7).leafSafe
  else if code = Cust.attr then true
  else if code = Cust.credential then
    (kindAt fields 0).leafSafe && unionSafe S Cust.credentialValue 3
  else if code = Cust.keyBlock then
    (kindAt fields 0).leafSafe && (kindAt fields 1).leafSafe && (kindAt fields 3).leafSafe &&
      (kindAt fields 4).leafSafe && (kindAt fields 5).leafSafe && unionSafe S Cust.keyMaterial 8
  else if code = Cust.getResponse then (kindAt fields 0).leafSafe
  else if code = Cust.registerRequest then (kindAt fields 0).leafSafe && (kindAt fields 1).leafSafe
  else if code = Cust.exportResponse then (kindAt fields 0).leafSafe && (kindAt fields 2).leafSafe
  else if code = Cust.importRequest then (kindAt fields 2).leafSafe && (kindAt fields 3).leafSafe
  else false

/-- a struct definition is safe to decode: reflectively (all fields safe) or by its hand-written decoder. -/
def StructDef.decSafe (S : Schema) (d : StructDef) : Bool :=
  if d.decCustom then customSafe S d.fields d.custom else d.fields.all Field.decSafe

/-- **the typed decoder's well-formedness condition**: every struct is safe, every type that can sit
    behind an interface has a safe kind, and every dyn id the dispatch tables can produce is a valid
    index into `dyns` (an invalid id would decode as `.unsupported`). -/
def Schema.decodeSafe (S : Schema) : Bool :=
  S.structs.all (StructDef.decSafe S) &&
  S.dyns.all (fun dy => dy.kind.leafSafe) &&
  S.ops.all (fun p => decide (p.2.1 < S.dyns.length) && decide (p.2.2 < S.dyns.length)) &&
  S.objects.all (fun p => decide (p.2 < S.dyns.length)) &&
  S.attrs.all (fun p => decide (p.2 < S.dyns.length)) &&
  decide (S.unknownPayloadDyn < S.dyns.length) && decide (S.valueDyn < S.dyns.length)

/-! ### soundness of `decodeSafe` -/

theorem Kind.leafSafe_ptr {k : Kind} (h : (Kind.ptr k).leafSafe = true) : k.leafSafe = true := by
  rwa [Kind.leafSafe] at h
theorem Kind.leafSafe_slice {k : Kind} (h : (Kind.slice k).leafSafe = true) : k.leafSafe = true := by
  rwa [Kind.leafSafe] at h

theorem unionSafe_getD {S : Schema} {code n : Nat} (h : unionSafe S code n = true) {i : Nat}
    (hi : i < n) : ((customFieldKinds S code).getD i .unsupported).leafSafe = true := by
  unfold unionSafe at h
  rw [List.all_eq_true] at h
  exact h i (List.mem_range.2 hi)

structure Schema.DecodeSafe (S : Schema) : Prop where
  structs : ∀ d ∈ S.structs, StructDef.decSafe S d = true
  dyns : ∀ dy ∈ S.dyns, dy.kind.leafSafe = true
  ops : ∀ p ∈ S.ops, p.2.1 < S.dyns.length ∧ p.2.2 < S.dyns.length
  objects : ∀ p ∈ S.objects, p.2 < S.dyns.length
  attrs : ∀ p ∈ S.attrs, p.2 < S.dyns.length
  unknown : S.unknownPayloadDyn < S.dyns.length
  value : S.valueDyn < S.dyns.length

theorem Schema.decodeSafe_iff (S : Schema) : S.decodeSafe = true ↔ S.DecodeSafe := by
  unfold Schema.decodeSafe
  simp only [Bool.and_eq_true, List.all_eq_true, decide_eq_true_eq]
  constructor
  · rintro ⟨⟨⟨⟨⟨⟨h1, h2⟩, h3⟩, h4⟩, h5⟩, h6⟩, h7⟩
    exact ⟨h1, h2, h3, h4, h5, h6, h7⟩
  · rintro ⟨h1, h2, h3, h4, h5, h6, h7⟩
    exact ⟨⟨⟨⟨⟨⟨h1, h2⟩, h3⟩, h4⟩, h5⟩, h6⟩, h7⟩

theorem Schema.DecodeSafe.structDef {S : Schema} (h : S.DecodeSafe) (id : Nat) :
    StructDef.decSafe S (S.structDef id) = true := by
  unfold Schema.structDef
  rw [List.getD_eq_getElem?_getD]
  cases hg : S.structs[id]? with
  | none => rfl
  | some d => exact h.structs d (List.mem_of_getElem? hg)

theorem Schema.DecodeSafe.dyn {S : Schema} (h : S.DecodeSafe) {d : Nat} (hd : d < S.dyns.length) :
    (S.dyn d).kind.leafSafe = true := by
  unfold Schema.dyn
  rw [List.getD_eq_getElem?_getD, List.getElem?_eq_getElem hd]
  exact h.dyns _ (List.getElem_mem hd)

theorem lookupNat_mem {l : List (Nat × Nat)} {k v : Nat} (h : lookupNat l k = some v) :
    ∃ p ∈ l, p.1 = k ∧ p.2 = v := by
  unfold lookupNat at h
  cases hf : l.find? (fun p => p.1 == k) with
  | none => rw [hf] at h; exact nomatch h
  | some p =>
    rw [hf] at h
    have hp := List.find?_some hf
    refine ⟨p, List.mem_of_find?_eq_some hf, by simpa using hp, ?_⟩
    injection h

theorem Schema.DecodeSafe.payloadDyn {S : Schema} (h : S.DecodeSafe) (op : Nat) (r : Bool) :
    S.payloadDyn op r < S.dyns.length := by
  unfold Schema.payloadDyn
  cases hf : S.ops.find? (fun p => p.1 == op) with
  | none => exact h.unknown
  | some p =>
    obtain ⟨o, rq, rs⟩ := p
    have := h.ops _ (List.mem_of_find?_eq_some hf)
    cases r
    · exact this.1
    · exact this.2

theorem Schema.DecodeSafe.attrDyn {S : Schema} (h : S.DecodeSafe) (name : Bytes) :
    S.attrDyn name < S.dyns.length := by
  unfold Schema.attrDyn
  simp only
  split
  · exact h.value
  · split
    · rename_i d hl
      obtain ⟨p, hp, _, rfl⟩ := lookupNat_mem hl
      exact h.attrs p hp
    · exact h.value

theorem Schema.DecodeSafe.objectDyn {S : Schema} (h : S.DecodeSafe) {ot d : Nat}
    (ho : S.objectDyn ot = some d) : d < S.dyns.length := by
  unfold Schema.objectDyn at ho
  obtain ⟨p, hp, _, rfl⟩ := lookupNat_mem ho
  exact h.objects p hp

open Lean Elab Tactic Meta in
/-- depth-bounded backward search over the local hypotheses (reducible unification only, so that the
    recursive decoders are never unfolded). -/
partial def npSolve (depth : Nat) (g : MVarId) : MetaM Unit := g.withContext do
  try
    withReducible g.assumption
  catch _ =>
    if depth = 0 then throwError "npSolve: depth exhausted"
    for ld in (← getLCtx) do
      if ld.isImplementationDetail then continue
      let s ← saveState
      try
        let gs ← withReducible (g.apply ld.toExpr)
        for g' in gs do
          unless (← g'.isAssigned) do npSolve (depth - 1) g'
        return
      catch _ => s.restore
    throwError "npSolve: no hypothesis applies"

open Lean Elab Tactic Meta in
/-- close a `NoPanic` goal with a local hypothesis whose conclusion is `NoPanic`; its premises are
    searched among the hypotheses (depth 2). -/
elab "np_hyp" : tactic => withMainContext do
  let g ← getMainGoal
  for ld in (← getLCtx) do
    if ld.isImplementationDetail then continue
    let ty ← instantiateMVars ld.type
    if ty.getForallBody.isAppOf ``Res.NoPanic then
      let s ← saveState
      try
        let gs ← withReducible (g.apply ld.toExpr)
        for g' in gs do
          unless (← g'.isAssigned) do npSolve 2 g'
        replaceMainGoal []
        return
      catch _ => s.restore
  throwError "np_hyp: no hypothesis applies"

/-- one step of the syntactic "no panic" search: close a leaf, or peel a bind / match / if. -/
macro "np_step" : tactic => `(tactic| with_reducible first
  | exact Res.noPanic_ok _
  | exact Res.noPanic_err _
  | exact Res.noPanic_pure _
  | exact Cur.integer_noPanic _ _
  | exact Cur.longInteger_noPanic _ _
  | exact Cur.enum_noPanic _ _
  | exact Cur.bool_noPanic _ _
  | exact Cur.dateTime_noPanic _ _
  | exact Cur.interval_noPanic _ _
  | exact Cur.bigInteger_noPanic _ _
  | exact Cur.textString_noPanic _ _
  | exact Cur.byteString_noPanic _ _
  | exact Cur.expect_noPanic _ _ _
  | exact Cur.start_noPanic _
  | exact Cur.next_noPanic _
  | exact (decode_noPanic _).1 _ _
  | exact Cur.struct_noPanic _ _ _ (fun inner => (decode_noPanic _).2 inner)
  | np_hyp
  | refine Res.noPanic_bind' ?_ (fun _ => ?_)
  | split)
macro "np_auto" : tactic => `(tactic| repeat (any_goals np_step))

/-- the statement proved by induction on the fuel: under `DecodeSafe`, none of the eight mutually
    recursive typed decoders panics, on any cursor. -/
structure TypedNoPanic (S : Schema) (fuel : Nat) : Prop where
  decK : ∀ k tag c ver, Kind.leafSafe k = true → (decK S fuel k tag c ver).NoPanic
  decStruct : ∀ fields tag c ver, List.all fields Field.decSafe = true →
    (decStruct S fuel fields tag c ver).NoPanic
  decList : ∀ k tag c ver, Kind.leafSafe k = true → (decList S fuel k tag c ver).NoPanic
  decFields : ∀ fields c ver, List.all fields Field.decSafe = true →
    (decFields S fuel fields c ver).NoPanic
  decOpt : ∀ k tag c ver, Kind.leafSafe k = true → (decOpt S fuel k tag c ver).NoPanic
  decDyn : ∀ d tag c ver, d < S.dyns.length → (decDyn S fuel d tag c ver).NoPanic
  decCustom : ∀ code id tag c ver, customSafe S (S.structDef id).fields code = true →
    (decCustom S fuel code id tag c ver).NoPanic
  decKeyValue : ∀ fmt c ver, unionSafe S Cust.keyMaterial 8 = true →
    (decKeyValue S fuel fmt c ver).NoPanic

theorem typedNoPanic_zero (S : Schema) : TypedNoPanic S 0 := by
  constructor
  · intro k tag c ver _; rw [decK]; exact Res.noPanic_err _
  · intro fs tag c ver _; rw [decStruct]; exact Res.noPanic_err _
  · intro k tag c ver _; rw [decList]; exact Res.noPanic_err _
  · intro fs c ver _; rw [decFields]; exact Res.noPanic_err _
  · intro k tag c ver _; rw [decOpt]; exact Res.noPanic_err _
  · intro d tag c ver _; rw [decDyn]; exact Res.noPanic_err _
  · intro code id tag c ver _; rw [decCustom]; exact Res.noPanic_err _
  · intro fmt c ver _; rw [decKeyValue]; exact Res.noPanic_err _

end Kmip
