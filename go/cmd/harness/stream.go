package main

import (
	"encoding/hex"
	"errors"
	"fmt"
	"io"
	"strconv"
	"strings"

	"github.com/ovh/kmip-go/ttlv"

	"verifharness/internal/report"
	"verifharness/internal/tree"
)

var errTransport = errors.New("transport error")

type readEv struct {
	k       int
	withErr bool
}

// schedTransport delivers `wire` according to a schedule (same semantics as Kmip.Transport.read).
type schedTransport struct {
	wire     []byte
	pos      int
	sched    []readEv
	maxReq   int // largest len(p) ever requested
	requests int
}

func (t *schedTransport) Read(p []byte) (int, error) {
	t.requests++
	if len(p) > t.maxReq {
		t.maxReq = len(p)
	}
	rem := t.wire[t.pos:]
	if len(t.sched) == 0 {
		if len(rem) == 0 {
			return 0, errTransport
		}
		n := copy(p, rem)
		t.pos += n
		return n, nil
	}
	ev := t.sched[0]
	t.sched = t.sched[1:]
	if len(rem) == 0 {
		return 0, errTransport
	}
	n := min(ev.k, len(p), len(rem))
	copy(p, rem[:n])
	t.pos += n
	if ev.withErr {
		return n, errTransport
	}
	return n, nil
}
func (t *schedTransport) Write(p []byte) (int, error) { return len(p), nil }
func (t *schedTransport) Close() error                { return nil }

func renderSched(s []readEv) string {
	if len(s) == 0 {
		return "-"
	}
	parts := make([]string, len(s))
	for i, e := range s {
		parts[i] = strconv.Itoa(e.k)
		if e.withErr {
			parts[i] += "e"
		}
	}
	return strings.Join(parts, ",")
}

func parseSched(s string) []readEv {
	if s == "-" || s == "" {
		return nil
	}
	var out []readEv
	for _, p := range strings.Split(s, ",") {
		e := readEv{}
		if strings.HasSuffix(p, "e") {
			e.withErr = true
			p = p[:len(p)-1]
		}
		e.k, _ = strconv.Atoi(p)
		out = append(out, e)
	}
	return out
}

type streamExpect struct {
	msgs      []*tree.Item // the complete messages at the front of the wire
	lens      []int
	clean     bool // schedule is progressive and error-free, so every complete message must be delivered
	truncated bool // the wire ends inside a message
	tooBig    bool // the message after msgs announces more than max
}

// streamCase runs Recv repeatedly over the scheduled transport and renders the observable outcome.
func streamCase(ctx *Ctx, max int, wire []byte, sched []readEv, exp *streamExpect) {
	line := fmt.Sprintf("stream.recv %d %s %s", max, hexUp(wire), renderSched(sched))
	ctx.current = line
	tr := &schedTransport{wire: wire, sched: append([]readEv{}, sched...)}
	st := ttlv.NewStream(tr, max)
	var sb strings.Builder
	got := 0
	final := ""
	limit := len(wire)/8 + 2
	for i := 0; i < limit && final == ""; i++ {
		var v ttlv.Value
		before := tr.pos
		err, p := guard("Recv", func() error { return st.Recv(&v) })
		switch {
		case p != "":
			final = "panic"
			ctx.Res.Violate(report.Violation{Property: "C02", Oracle: "no-panic", Key: "stream:panic " + panicKey(p), Detail: p, Line: line})
		case err == nil:
			fmt.Fprintf(&sb, "m@%d ", tr.pos)
			if exp != nil && got < len(exp.msgs) {
				it, cerr := fromValue(v)
				if cerr != nil || !tree.Equal(it, exp.msgs[got]) {
					ctx.Res.Violate(report.Violation{Property: "C07", Oracle: "message-content", Key: "stream:wrong-message", Detail: fmt.Sprintf("Recv #%d returned a different message than sent", got), Line: line})
				}
				if tr.pos-before != exp.lens[got] {
					ctx.Res.Violate(report.Violation{Property: "C07", Oracle: "exact-consumption", Key: "stream:consumed-wrong-count", Detail: fmt.Sprintf("Recv #%d consumed %d bytes for a %d byte message", got, tr.pos-before, exp.lens[got]), Line: line})
				}
			} else if exp != nil {
				ctx.Res.Violate(report.Violation{Property: "C07", Oracle: "no-message-from-partial", Key: "stream:message-from-incomplete-data", Detail: "Recv returned a message although the stream holds no further complete message", Line: line})
			}
			got++
		case errors.Is(err, errTransport):
			final = "ioErr"
		case err == io.EOF || err == io.ErrUnexpectedEOF:
			final = "eof"
		case ttlv.IsErrEncoding(err) && strings.Contains(err.Error(), "too big"):
			final = "tooBig"
			if tr.pos-before > 8 {
				ctx.Res.Violate(report.Violation{Property: "C07", Oracle: "bounded-buffering", Key: "stream:too-big-buffered", Detail: fmt.Sprintf("oversized message rejected only after consuming %d bytes", tr.pos-before), Line: line})
			}
		default:
			final = "decErr"
		}
	}
	if final == "" {
		final = "more"
	}
	if max > 0 && tr.maxReq > max && tr.maxReq > 8 {
		ctx.Res.Violate(report.Violation{Property: "C07", Oracle: "bounded-buffering", Key: "stream:read-request-exceeds-max", Detail: fmt.Sprintf("a Read of %d bytes was requested with max=%d", tr.maxReq, max), Line: line})
	}
	if exp != nil && exp.clean && got < len(exp.msgs) {
		ctx.Res.Violate(report.Violation{Property: "C07", Oracle: "all-delivered", Key: "stream:message-lost", Detail: fmt.Sprintf("only %d of %d complete messages were delivered (%s)", got, len(exp.msgs), final), Line: line})
	}
	impl := fmt.Sprintf("ok %s%s pos=%d", sb.String(), final, tr.pos)
	ctx.Add(line, impl, len(wire) > 8, "C07")
	ctx.Res.Count("stream.final=" + final)
	ctx.Res.Count(fmt.Sprintf("stream.msgs=%d", min(got, 5)))
}

func init() {
	register(&Engine{
		Name: "stream",
		Rule: "sequences of 1..4 generic TTLV messages concatenated on a scripted transport x read schedules (1-byte reads, random chunk sizes, boundary-spanning chunks, data returned together with an error, zero-length reads, error-free exhausted schedule) x truncation at random offsets x announced lengths around the max; distinct = distinct line; nontrivial = wire longer than one header",
		Run:  runStream,
	})
}

func runStream(ctx *Ctx) {
	if len(ctx.Replay) > 0 {
		for _, l := range ctx.Replay {
			f := strings.Fields(l)
			if len(f) != 4 || f[0] != "stream.recv" {
				continue
			}
			max, _ := strconv.Atoi(f[1])
			if f[2] == "-" {
				f[2] = ""
			}
			wire, err := hex.DecodeString(f[2])
			if err != nil {
				continue
			}
			streamCase(ctx, max, wire, parseSched(f[3]), nil)
		}
		return
	}
	r := ctx.R
	opts := tree.GenOpts{MaxDepth: 3, MaxChildren: 4, MaxData: 30, MaxBigBits: 128}
	n := ctx.N(1200, 40000)
	for i := 0; i < n; i++ {
		nm := 1 + r.Intn(4)
		exp := &streamExpect{clean: true}
		var wire []byte
		for j := 0; j < nm; j++ {
			t := tree.Gen(r, opts, 0)
			if i%40 == 7 && j == 0 { // a message bigger than the initial 512-byte buffer
				t = &tree.Item{Kind: tree.KBytes, Tag: 0x420001, Data: r.Bytes(500 + r.Intn(600))}
			}
			e := t.Encode()
			exp.msgs = append(exp.msgs, t)
			exp.lens = append(exp.lens, len(e))
			wire = append(wire, e...)
		}
		max := 0
		switch r.Intn(4) {
		case 0:
			max = 1 << 20
		case 1: // exactly the largest message
			for _, l := range exp.lens {
				if l > max {
					max = l
				}
			}
		}
		// schedule
		var sched []readEv
		switch r.Intn(6) {
		case 0: // exhausted schedule: every read returns all that is requested
		case 1: // 1-byte reads
			for k := 0; k < len(wire); k++ {
				sched = append(sched, readEv{k: 1})
			}
		case 2, 3: // random chunks
			for k := 0; k < len(wire); k++ {
				sched = append(sched, readEv{k: 1 + r.Intn(24)})
			}
		case 4: // last bytes of the wire delivered together with an error (io.EOF-like)
			sched = append(sched, readEv{k: 8})
			total := 0
			for _, l := range exp.lens {
				total += l
			}
			for k := 0; k < 2*nm-2; k++ {
				sched = append(sched, readEv{k: 1 << 20})
			}
			sched = append(sched, readEv{k: 1 << 20, withErr: true})
		case 5: // errors / zero reads at random points
			exp.clean = false
			for k := 0; k < len(wire)/4+2; k++ {
				e := readEv{k: 1 + r.Intn(16)}
				if r.Chance(1, 12) {
					e.withErr = true
				}
				if r.Chance(1, 15) {
					e.k = 0
				}
				sched = append(sched, e)
			}
		}
		// variations of the wire
		switch r.Intn(5) {
		case 0: // truncate inside the last message
			last := exp.lens[nm-1]
			cut := len(wire) - last + r.Intn(last)
			wire = wire[:cut]
			exp.msgs, exp.lens = exp.msgs[:nm-1], exp.lens[:nm-1]
			exp.truncated = true
		case 1: // followed by an oversized announcement
			if max > 0 {
				big := []byte{0x42, 0x00, 0x01, 0x08, 0, 0, 0, 0}
				l := max - 8 + 1 + r.Intn(16)
				big[4], big[5], big[6], big[7] = byte(l>>24), byte(l>>16), byte(l>>8), byte(l)
				wire = append(wire, big...)
				wire = append(wire, r.Bytes(64)...)
				exp.tooBig = true
			}
		}
		streamCase(ctx, max, wire, sched, exp)
	}
	// large messages: buffer growth far beyond the initial 512 bytes, up to the server's 1 MiB limit
	sizes := []int{513, 4096, 65536, 73720, 73729, 100000, 300000}
	if ctx.Thor {
		sizes = append(sizes, 600000, 1048560)
	}
	for _, sz := range sizes {
		big := &tree.Item{Kind: tree.KBytes, Tag: 0x420001, Data: r.Bytes(sz)}
		small := tree.Gen(r, opts, 0)
		wire := append(big.Encode(), small.Encode()...)
		exp := &streamExpect{clean: true, msgs: []*tree.Item{big, small}, lens: []int{len(big.Encode()), len(small.Encode())}}
		for _, max := range []int{0, 1 << 20} {
			streamCase(ctx, max, wire, nil, exp)
			streamCase(ctx, max, wire, []readEv{{k: 8}, {k: 1000}, {k: 65536}, {k: 7}, {k: 1 << 20}, {k: 1 << 20}, {k: 1 << 20}, {k: 1 << 20}, {k: 1 << 20}}, exp)
		}
	}
	// announced lengths around the limit, exhaustively near the boundary
	for _, max := range []int{16, 24, 512, 520, 1024} {
		for l := max - 24; l <= max+8; l++ {
			if l < 0 {
				continue
			}
			hdr := []byte{0x42, 0x00, 0x01, 0x08, byte(l >> 24), byte(l >> 16), byte(l >> 8), byte(l)}
			wire := append(hdr, make([]byte, (l+7)/8*8)...)
			wire = append(wire, tree.Gen(r, opts, 0).Encode()...)
			streamCase(ctx, max, wire, nil, nil)
		}
	}
}
