/-
  L0 — bytes, big-endian words, padding.
  Model of the leaf helpers of ttlv/utils.go and ttlv/encoding_ttlv.go.
  Core Lean only (this file is linked into the `kmip-model` executable).
-/
namespace Kmip

abbrev Bytes := List UInt8

/-- `padForLen` of ttlv/utils.go: `(padSize - l%padSize) % padSize` (Go ints, `l ≥ 0`, `padSize > 0`). -/
def padForLen (l padSize : Nat) : Nat := (padSize - l % padSize) % padSize

/-- `l + padForLen(l, 8)` — `ttlvReader.paddedLen`. -/
def paddedLen (l : Nat) : Nat := l + padForLen l 8

/-- byte `i` (0 = least significant) of a natural number, as Go's `byte(n >> (8*i))`. -/
def byteAt (n i : Nat) : UInt8 := (n >>> (8 * i)).toUInt8

/-- `binary.BigEndian.AppendUint32(nil, uint32(n))`. -/
def be32 (n : Nat) : Bytes := [byteAt n 3, byteAt n 2, byteAt n 1, byteAt n 0]

/-- `binary.BigEndian.AppendUint64(nil, uint64(n))`. -/
def be64 (n : Nat) : Bytes :=
  [byteAt n 7, byteAt n 6, byteAt n 5, byteAt n 4, byteAt n 3, byteAt n 2, byteAt n 1, byteAt n 0]

/-- `writeTag`: three bytes, big endian, higher bits of the Go `int` are dropped. -/
def tag3 (t : Nat) : Bytes := [byteAt t 2, byteAt t 1, byteAt t 0]

/-- big-endian value of a byte string (`binary.BigEndian.UintNN`, `big.Int.SetBytes`). -/
def beVal : Bytes → Nat
  | bs => bs.foldl (fun acc b => acc * 256 + b.toNat) 0

/-- two's complement interpretation of a fixed-width big-endian word of `w` bits. -/
def signedOfNat (w : Nat) (n : Nat) : Int :=
  if n < 2 ^ (w - 1) then (n : Int) else (n : Int) - (2 ^ w : Nat)

/-- the unsigned `w`-bit pattern of a signed value: Go's `uintW(intW(v))`. -/
def unsignedOfInt (w : Nat) (v : Int) : Nat := (v % ((2 ^ w : Nat) : Int)).toNat

/-- minimal big-endian magnitude bytes — `big.Int.Bytes()` (empty for 0). Assumed behaviour of math/big. -/
def natToBytesBE (n : Nat) : Bytes :=
  if h : n = 0 then [] else natToBytesBE (n / 256) ++ [n.toUInt8]
decreasing_by omega

def hexDigit (n : Nat) : Char :=
  if n < 10 then Char.ofNat (48 + n) else Char.ofNat (55 + n)

def hexOfBytes (bs : Bytes) : String :=
  String.ofList (bs.flatMap fun b => [hexDigit (b.toNat / 16), hexDigit (b.toNat % 16)])

def hexVal (c : Char) : Option Nat :=
  if '0' ≤ c ∧ c ≤ '9' then some (c.toNat - 48)
  else if 'a' ≤ c ∧ c ≤ 'f' then some (c.toNat - 87)
  else if 'A' ≤ c ∧ c ≤ 'F' then some (c.toNat - 55)
  else none

def bytesOfHexChars : List Char → Option Bytes
  | [] => some []
  | [_] => none
  | a :: b :: rest => do
    let x ← hexVal a
    let y ← hexVal b
    let r ← bytesOfHexChars rest
    pure ((x * 16 + y).toUInt8 :: r)

/-- parse a hex string; `-` denotes the empty string. -/
def bytesOfHex (s : String) : Option Bytes :=
  if s = "-" then some [] else bytesOfHexChars s.toList

end Kmip
