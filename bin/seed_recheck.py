#!/usr/bin/env python3
"""
seed_recheck.py [Cxx-n ...]   (default: every directory of /verif/seeded)

Re-runs the property's check against /repo + seeded/<id>/patch.diff (bin/mutate.sh: go build -overlay, /repo
untouched) with the CURRENT machinery and the CURRENT /repo, and updates the check_* fields of
seeded/<id>/meta.json (the confirmation of the change itself, made when it was collected, is kept).
A patch that no longer applies because the code it changed was repaired or rewritten since is recorded as such.
Run from a clean checkout of /verif (SEED_EVAL_ROOT) so that work in progress does not interfere.
"""
import json
import os
import subprocess
import sys
import tempfile

VERIF = os.path.dirname(os.path.dirname(os.path.abspath(__file__)))
EVALROOT = os.environ.get("SEED_EVAL_ROOT", VERIF)
ENV = dict(os.environ, GOFLAGS="-mod=mod", GOPROXY="off")


def applies(patch):
    """does the patch still apply to /repo's working tree?"""
    # the same tool bin/mutate.sh applies it with (offsets and fuzz are tolerated), as a dry run: /repo is not modified
    p = subprocess.run(["patch", "-p1", "--dry-run", "-s", "-f", "-d", "/repo", "-i", patch], stdout=subprocess.PIPE, stderr=subprocess.STDOUT, text=True)
    return p.returncode == 0, p.stdout.strip()[-300:]


def run_check(prop, patch, tier):
    p = subprocess.run(["sh", os.path.join(EVALROOT, "bin", "mutate.sh"), patch, prop, tier], cwd=EVALROOT, env=ENV,
                       stdout=subprocess.PIPE, stderr=subprocess.STDOUT, text=True, timeout=7200)
    lines = [l for l in p.stdout.splitlines() if l.startswith("VIOLATION") or l.startswith(prop + " ")]
    caught = any(l.startswith("VIOLATION property=" + prop) for l in lines)
    with_input = caught and not any("no-failing-input-found" in l for l in lines if l.startswith("VIOLATION"))
    detail = None
    for l in lines:
        if l.startswith("VIOLATION"):
            for tok in l.split():
                if tok.startswith("replay="):
                    rp = os.path.join(EVALROOT, tok[7:])
                    if os.path.exists(rp):
                        r = json.load(open(rp))
                        detail = (r.get("violations") or r.get("no_longer_checks") or [None])[0]
    return caught, with_input, lines, detail


def main():
    ids = sys.argv[1:] or sorted(d for d in os.listdir(os.path.join(VERIF, "seeded")) if os.path.isdir(os.path.join(VERIF, "seeded", d)))
    head = subprocess.check_output(["git", "-C", "/repo", "log", "--format=%h", "-1"], text=True).strip()
    for sid in ids:
        d = os.path.join(VERIF, "seeded", sid)
        mp = os.path.join(d, "meta.json")
        if not os.path.exists(mp):
            continue
        meta = json.load(open(mp))
        prop = meta["property"]
        patch = os.path.join(d, "patch.diff")
        ok, why = applies(patch)
        if not ok:
            meta["recheck"] = {"repo_head": head, "applies": False, "note": "patch no longer applies to /repo HEAD (the code it changes was repaired or rewritten since it was collected): " + why}
            json.dump(meta, open(mp, "w"), indent=1)
            print(f"{sid}: patch no longer applies")
            continue
        tier = "quick"
        caught, with_input, lines, detail = run_check(prop, patch, tier)
        if not caught:
            tier = "thorough"
            caught, with_input, lines, detail = run_check(prop, patch, tier)
        if "first_evaluation" not in meta:
            meta["first_evaluation"] = {k: meta.get(k) for k in ("check_caught_it", "with_failing_input", "tier_needed")}
        meta.update({"check_caught_it": caught, "with_failing_input": with_input, "tier_needed": tier,
                     "check_output": lines, "first_violation": detail,
                     "recheck": {"repo_head": head, "applies": True}})
        json.dump(meta, open(mp, "w"), indent=1)
        print(f"{sid}: caught={caught} with_input={with_input} tier={tier}")
        sys.stdout.flush()


if __name__ == "__main__":
    main()
