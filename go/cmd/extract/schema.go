package main

import (
	"path/filepath"

	"verifharness/internal/schema"
)

// writeSchema regenerates Gen/Schema.lean (wire schema + dispatch tables) by reflection.
func writeSchema(outDir string) (bool, error) {
	s := schema.Build()
	return writeIfChanged(filepath.Join(outDir, "Schema.lean"), []byte(s.EmitLean()))
}
