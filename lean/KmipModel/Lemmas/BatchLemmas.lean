/-
  Lemmas about the batch executor model (`Kmip.Batch`).
-/
import KmipModel.Model.Batch
import KmipModel.Lemmas.PlaceholderLemmas
namespace Kmip.Batch
open Kmip.Placeholder

/-! ### one item -/

theorem runActs_clear (c : Val) (as : List PAct) :
    runActs c (as ++ [.clear]) = (0, (runActs c as).2) := by
  rw [runActs_append]; simp [runActs, stepCell]

/-- everything `executeItemWithMiddleware` does with one item, in the vocabulary of the properties. -/
theorem eiwm_spec (srv : Srv) (ph : Val) (it : Item) :
    (executeItemWithMiddleware srv ph it).ri = itemResult srv it ∧
    (executeItemWithMiddleware srv ph it).called = dispatched srv it ∧
    (executeItemWithMiddleware srv ph it).ph = (runActs ph (itemSteps srv it)).1 ∧
    (executeItemWithMiddleware srv ph it).obs = (runActs ph (itemSteps srv it)).2 := by
  obtain ⟨op, id, ext, disc, acts, out⟩ := it
  by_cases hext : ext = some true
  · subst hext
    simp [executeItemWithMiddleware, executeItem, handleBatchItemError, itemResult, fails,
      itemReason, dispatched, itemSteps, runActs, stepCell]
  · cases hr : srv.routed op <;> cases disc <;> cases out <;>
      simp [executeItemWithMiddleware, executeItem, callHandler, handleBatchItemError, itemResult,
        fails, itemReason, dispatched, itemSteps, runActs, stepCell, hext, hr, runActs_clear]


/-! ### the loop -/

theorem stoppedAt_zero (srv : Srv) (stop stopped : Bool) (items : List Item) :
    stoppedAt srv stop stopped items 0 = stopped := by
  simp [stoppedAt]

theorem stoppedAt_succ (srv : Srv) (stop stopped : Bool) (it : Item) (rest : List Item) (j : Nat) :
    stoppedAt srv stop stopped (it :: rest) (j + 1) =
      stoppedAt srv stop (if stopped then true else (fails srv it && stop)) rest j := by
  simp only [stoppedAt, List.take_succ_cons, List.any_cons]
  cases stopped <;> cases stop <;> cases fails srv it <;> simp

theorem any_take_iff (p : Item → Bool) (items : List Item) (j : Nat) :
    (items.take j).any p = true ↔ ∃ k it, k < j ∧ items[k]? = some it ∧ p it = true := by
  induction items generalizing j with
  | nil => simp
  | cons x xs ih =>
    cases j with
    | zero => simp
    | succ j =>
      simp only [List.take_succ_cons, List.any_cons, Bool.or_eq_true, ih]
      constructor
      · rintro (h | ⟨k, it, hk, hget, hp⟩)
        · exact ⟨0, x, by omega, by simp, h⟩
        · exact ⟨k + 1, it, by omega, by simpa using hget, hp⟩
      · rintro ⟨k, it, hk, hget, hp⟩
        cases k with
        | zero => simp at hget; subst hget; exact Or.inl hp
        | succ k => exact Or.inr ⟨k, it, by omega, by simpa using hget, hp⟩

theorem loop_cons_stopped (srv : Srv) (stop : Bool) (it : Item) (rest : List Item) (i : Nat)
    (ph : Val) :
    loop srv stop (it :: rest) i true ph =
      { loop srv stop rest (i + 1) true ph with
        items := canceled it :: (loop srv stop rest (i + 1) true ph).items } := by
  simp [loop]

theorem loop_cons_running (srv : Srv) (stop : Bool) (it : Item) (rest : List Item) (i : Nat)
    (ph : Val) :
    loop srv stop (it :: rest) i false ph =
      { items := itemResult srv it ::
          (loop srv stop rest (i + 1) (fails srv it && stop) (lastWrite ph (itemSteps srv it))).items,
        calls := (if dispatched srv it then [i] else []) ++
          (loop srv stop rest (i + 1) (fails srv it && stop) (lastWrite ph (itemSteps srv it))).calls,
        obs := (runActs ph (itemSteps srv it)).2.map (fun v => (i, v)) ++
          (loop srv stop rest (i + 1) (fails srv it && stop) (lastWrite ph (itemSteps srv it))).obs,
        ph := (loop srv stop rest (i + 1) (fails srv it && stop) (lastWrite ph (itemSteps srv it))).ph } := by
  obtain ⟨h1, h2, h3, h4⟩ := eiwm_spec srv ph it
  simp only [loop, Bool.false_eq_true, if_false, h1, h2, h3, h4, runActs_fst]
  rfl

theorem loop_items_length (srv : Srv) (stop : Bool) (items : List Item) (i : Nat) (stopped : Bool)
    (ph : Val) : (loop srv stop items i stopped ph).items.length = items.length := by
  induction items generalizing i stopped ph with
  | nil => simp [loop]
  | cons it rest ih =>
    cases stopped with
    | true => rw [loop_cons_stopped]; simp [ih]
    | false => rw [loop_cons_running]; simp [ih]

/-- the response item at every position. -/
theorem loop_items_get (srv : Srv) (stop : Bool) (items : List Item) (i : Nat) (stopped : Bool)
    (ph : Val) (j : Nat) :
    (loop srv stop items i stopped ph).items[j]? =
      items[j]?.map (fun it =>
        if stoppedAt srv stop stopped items j then canceled it else itemResult srv it) := by
  induction items generalizing i stopped ph j with
  | nil => simp [loop]
  | cons it rest ih =>
    cases j with
    | zero =>
      cases stopped with
      | true => rw [loop_cons_stopped]; simp [stoppedAt_zero]
      | false => rw [loop_cons_running]; simp [stoppedAt_zero]
    | succ j =>
      rw [stoppedAt_succ]
      cases stopped with
      | true => rw [loop_cons_stopped]; simp [ih]
      | false => rw [loop_cons_running]; simp [ih]

/-- which handlers run. -/
theorem loop_mem_calls (srv : Srv) (stop : Bool) (items : List Item) (i : Nat) (stopped : Bool)
    (ph : Val) (c : Nat) :
    c ∈ (loop srv stop items i stopped ph).calls ↔
      ∃ j it, c = i + j ∧ items[j]? = some it ∧ dispatched srv it = true ∧
        stoppedAt srv stop stopped items j = false := by
  induction items generalizing i stopped ph with
  | nil => simp [loop]
  | cons it rest ih =>
    cases stopped with
    | true =>
      rw [loop_cons_stopped]
      simp only [ih]
      constructor
      · rintro ⟨j, it', _, _, _, hs⟩; simp [stoppedAt] at hs
      · rintro ⟨j, it', _, _, _, hs⟩; simp [stoppedAt] at hs
    | false =>
      rw [loop_cons_running]
      simp only [List.mem_append, ih]
      constructor
      · rintro (h | ⟨j, it', hc, hget, hd, hs⟩)
        · by_cases hd : dispatched srv it = true
          · simp [hd] at h
            exact ⟨0, it, by omega, by simp, hd, by simp [stoppedAt_zero]⟩
          · simp [hd] at h
        · refine ⟨j + 1, it', by omega, by simpa using hget, hd, ?_⟩
          rw [stoppedAt_succ]; simpa using hs
      · rintro ⟨j, it', hc, hget, hd, hs⟩
        cases j with
        | zero =>
          simp at hget; subst hget
          left; simp [hd, hc]
        | succ j =>
          right
          rw [stoppedAt_succ] at hs
          exact ⟨j, it', by omega, by simpa using hget, hd, by simpa using hs⟩

theorem loop_calls_pairwise (srv : Srv) (stop : Bool) (items : List Item) (i : Nat)
    (stopped : Bool) (ph : Val) :
    List.Pairwise (· < ·) (loop srv stop items i stopped ph).calls := by
  induction items generalizing i stopped ph with
  | nil => simp [loop]
  | cons it rest ih =>
    cases stopped with
    | true => rw [loop_cons_stopped]; exact ih _ _ _
    | false =>
      rw [loop_cons_running]
      simp only
      rw [List.pairwise_append]
      refine ⟨by split <;> simp, ih _ _ _, ?_⟩
      intro a ha b hb
      rw [loop_mem_calls] at hb
      obtain ⟨j, _, hj, _⟩ := hb
      split at ha
      · simp at ha; omega
      · simp at ha

/-- when nothing stops the loop and every item reaches its handler, the handlers of all items run,
    in order. -/
theorem loop_calls_all (srv : Srv) (items : List Item) (i : Nat) (ph : Val)
    (hall : ∀ it ∈ items, dispatched srv it = true) :
    (loop srv false items i false ph).calls = List.range' i items.length := by
  induction items generalizing i ph with
  | nil => simp [loop]
  | cons it rest ih =>
    rw [loop_cons_running]
    simp only [Bool.and_false, hall it (by simp), if_true, List.length_cons, List.range'_succ]
    rw [ih]
    · simp
    · intro it' h; exact hall it' (by simp [h])

/-! ### placeholder accesses of the loop -/

theorem loop_obs_ph (srv : Srv) (stop : Bool) (items : List Item) (i : Nat) (stopped : Bool)
    (ph : Val) :
    (loop srv stop items i stopped ph).obs.map (·.2) =
        (runActs ph (loopSteps srv stop items stopped)).2 ∧
    (loop srv stop items i stopped ph).ph = (runActs ph (loopSteps srv stop items stopped)).1 := by
  induction items generalizing i stopped ph with
  | nil => simp [loop, loopSteps, runActs]
  | cons it rest ih =>
    cases stopped with
    | true =>
      rw [loop_cons_stopped]
      simpa [loopSteps] using ih (i + 1) true ph
    | false =>
      rw [loop_cons_running]
      simp only [loopSteps, Bool.false_eq_true, if_false, runActs_append, List.map_append,
        List.map_map, ← runActs_fst]
      have := ih (i + 1) (fails srv it && stop) (runActs ph (itemSteps srv it)).1
      refine ⟨?_, this.2⟩
      rw [this.1]
      congr 1
      simp [Function.comp_def]

theorem loop_obs_ge (srv : Srv) (stop : Bool) (items : List Item) (i : Nat) (stopped : Bool)
    (ph : Val) : ∀ e ∈ (loop srv stop items i stopped ph).obs, i ≤ e.1 := by
  induction items generalizing i stopped ph with
  | nil => simp [loop]
  | cons it rest ih =>
    cases stopped with
    | true =>
      rw [loop_cons_stopped]
      intro e he; have := ih (i + 1) true ph e he; omega
    | false =>
      rw [loop_cons_running]
      intro e he
      simp only [List.mem_append, List.mem_map] at he
      rcases he with ⟨v, _, rfl⟩ | he
      · exact Nat.le_refl _
      · have := ih _ _ _ e he; omega

theorem obsOfItem_of_gt (c : Nat) (obs : List (Nat × Val)) (h : ∀ e ∈ obs, c < e.1) :
    obsOfItem c obs = [] := by
  simp only [obsOfItem, List.map_eq_nil_iff, List.filter_eq_nil_iff]
  intro e he
  have := h e he
  simp; omega

/-- what the handler of item `j` reads: its own accesses run on a cell that holds the last value
    written by the accesses of the items before it. -/
theorem loop_obs_item (srv : Srv) (stop : Bool) (items : List Item) (i : Nat) (stopped : Bool)
    (ph : Val) (j : Nat) (it : Item) (hget : items[j]? = some it) :
    obsOfItem (i + j) (loop srv stop items i stopped ph).obs =
      if stoppedAt srv stop stopped items j then []
      else (runActs (lastWrite ph (loopSteps srv stop (items.take j) stopped))
              (itemSteps srv it)).2 := by
  induction items generalizing i stopped ph j with
  | nil => simp at hget
  | cons x rest ih =>
    cases j with
    | zero =>
      simp at hget; subst hget
      simp only [stoppedAt_zero, List.take_zero, loopSteps, lastWrite, writes, List.getLast?_nil,
        Option.getD_none, Nat.add_zero]
      cases stopped with
      | true =>
        rw [loop_cons_stopped]
        simp only [if_true]
        apply obsOfItem_of_gt
        intro e he; have := loop_obs_ge _ _ _ _ _ _ e he; omega
      | false =>
        rw [loop_cons_running]
        simp only [Bool.false_eq_true, if_false, obsOfItem, List.filter_append, List.map_append]
        have h2 := obsOfItem_of_gt i
          (loop srv stop rest (i + 1) (fails srv x && stop) (lastWrite ph (itemSteps srv x))).obs
          (by intro e he; have := loop_obs_ge _ _ _ _ _ _ e he; omega)
        simp only [obsOfItem] at h2
        rw [h2]
        simp [List.filter_map, Function.comp_def]
    | succ j =>
      simp only [List.getElem?_cons_succ] at hget
      rw [stoppedAt_succ, show i + (j + 1) = (i + 1) + j by omega]
      cases stopped with
      | true =>
        rw [loop_cons_stopped]
        simp only [if_true]
        rw [ih (i + 1) true ph j hget]
        simp [List.take_succ_cons, loopSteps]
      | false =>
        rw [loop_cons_running]
        simp only [Bool.false_eq_true, if_false, obsOfItem, List.filter_append, List.map_append]
        have h1 : (List.filter (fun e => e.1 == i + 1 + j)
            (List.map (fun v => (i, v)) (runActs ph (itemSteps srv x)).2)) = [] := by
          simp only [List.filter_eq_nil_iff, List.mem_map]
          rintro e ⟨v, _, rfl⟩; simp; omega
        rw [h1]
        have := ih (i + 1) (fails srv x && stop) (lastWrite ph (itemSteps srv x)) j hget
        simp only [obsOfItem] at this
        simp only [List.map_nil, List.nil_append, this, List.take_succ_cons, loopSteps,
          Bool.false_eq_true, if_false, lastWrite_append]

theorem loopSteps_take_succ (srv : Srv) (stop : Bool) (items : List Item) (stopped : Bool)
    (j : Nat) (it : Item) (hget : items[j]? = some it) :
    loopSteps srv stop (items.take (j + 1)) stopped =
      loopSteps srv stop (items.take j) stopped ++
        (if stoppedAt srv stop stopped items j then [] else itemSteps srv it) := by
  induction items generalizing stopped j with
  | nil => simp at hget
  | cons x rest ih =>
    cases j with
    | zero =>
      simp at hget; subst hget
      cases stopped <;> simp [loopSteps, stoppedAt_zero]
    | succ j =>
      simp only [List.getElem?_cons_succ] at hget
      rw [stoppedAt_succ]
      simp only [List.take_succ_cons, loopSteps]
      cases stopped with
      | true => simp only [if_true]; exact ih true j hget
      | false =>
        simp only [Bool.false_eq_true, if_false]
        rw [ih _ j hget, List.append_assoc]

/-- the observations of a cell run are the initial content, `""`, or values set by the run. -/
theorem runActs_obs_origin (c : Val) (as : List PAct) :
    ∀ v ∈ (runActs c as).2, v = c ∨ v = 0 ∨ PAct.set v ∈ as := by
  induction as generalizing c with
  | nil => simp [runActs]
  | cons a as ih =>
    intro v hv
    cases a with
    | read =>
      simp only [runActs, stepCell, Option.toList_some, List.cons_append, List.nil_append,
        List.mem_cons] at hv
      rcases hv with h | h
      · exact Or.inl h
      · rcases ih c v h with h | h | h
        · exact Or.inl h
        · exact Or.inr (Or.inl h)
        · exact Or.inr (Or.inr (by simp [h]))
    | set w =>
      simp only [runActs, stepCell, Option.toList_none, List.nil_append] at hv
      rcases ih w v hv with h | h | h
      · exact Or.inr (Or.inr (by simp [h]))
      · exact Or.inr (Or.inl h)
      · exact Or.inr (Or.inr (by simp [h]))
    | clear =>
      simp only [runActs, stepCell, Option.toList_none, List.nil_append] at hv
      rcases ih 0 v hv with h | h | h
      · exact Or.inr (Or.inl h)
      · exact Or.inr (Or.inl h)
      · exact Or.inr (Or.inr (by simp [h]))

/-! ### the first failed response item -/

/-- before the first failed response item nothing has stopped the loop. -/
theorem not_stopped_upto_first_failed (srv : Srv) (stop : Bool) (items : List Item) (i : Nat)
    (ph : Val) (k : Nat)
    (hfirst : ∀ j r, j < k → (loop srv stop items i false ph).items[j]? = some r → r.failed = false) :
    ∀ j, j ≤ k → stoppedAt srv stop false items j = false := by
  intro j
  induction j with
  | zero => intro _; simp [stoppedAt]
  | succ j ih =>
    intro hj
    have ihj := ih (by omega)
    cases hs : stoppedAt srv stop false items (j + 1) with
    | false => rfl
    | true =>
      exfalso
      simp only [stoppedAt, Bool.false_or, Bool.and_eq_true] at hs
      obtain ⟨hstop, hany⟩ := hs
      rw [any_take_iff] at hany
      obtain ⟨k', it, hk', hget, hfail⟩ := hany
      have hnot : ¬ k' < j := by
        intro hlt
        have : (items.take j).any (fails srv) = true := (any_take_iff _ _ _).2 ⟨k', it, hlt, hget, hfail⟩
        simp [stoppedAt, hstop, this] at ihj
      have hkj : k' = j := by omega
      subst hkj
      have hres := loop_items_get srv stop items i false ph k'
      rw [hget, ihj] at hres
      simp only [Option.map_some, Bool.false_eq_true, if_false] at hres
      have := hfirst k' _ (by omega) hres
      simp [itemResult, hfail] at this

/-- after the first failed response item the loop is stopped exactly when `stop` is on. -/
theorem stopped_after_first_failed (srv : Srv) (stop : Bool) (items : List Item) (i : Nat)
    (ph : Val) (k : Nat) (r : RItem)
    (hk : (loop srv stop items i false ph).items[k]? = some r) (hf : r.failed = true)
    (hfirst : ∀ j r, j < k → (loop srv stop items i false ph).items[j]? = some r → r.failed = false) :
    ∀ j, k < j → stoppedAt srv stop false items j = stop := by
  intro j hj
  have hns := not_stopped_upto_first_failed srv stop items i ph k hfirst k (Nat.le_refl _)
  rw [loop_items_get] at hk
  cases hget : items[k]? with
  | none => simp [hget] at hk
  | some it =>
    simp only [hget, hns, Option.map_some, Bool.false_eq_true, if_false, Option.some.injEq] at hk
    subst hk
    have hfail : fails srv it = true := by simpa [itemResult] using hf
    have : (items.take j).any (fails srv) = true := (any_take_iff _ _ _).2 ⟨k, it, hj, hget, hfail⟩
    simp [stoppedAt, this]

/-! ### the header checks -/

theorem eco_stop (opt : Nat) : ((if opt > 0 then opt else optContinue) == optStop) = (opt == optStop) := by
  by_cases h : opt > 0
  · simp [h]
  · have : opt = 0 := by omega
    subst this; decide

theorem execFull_accepted (srv : Srv) (req : Req) (h : Accepted srv req) :
    execFull srv req =
      { resp := { ver := req.ver, count := req.count,
                  items := (loop srv (req.opt == optStop) req.items 0 false 0).items },
        calls := (loop srv (req.opt == optStop) req.items 0 false 0).calls,
        obs := (loop srv (req.opt == optStop) req.items 0 false 0).obs,
        ph := (loop srv (req.opt == optStop) req.items 0 false 0).ph } := by
  obtain ⟨h1, h2, h3⟩ := h
  have h2' : (req.opt == optUndo) = false := by simpa using h2
  simp [execFull, handleRequest, h1, h2', h3, eco_stop]

/-- the error a rejected request is answered with. -/
def rejectErr (srv : Srv) (req : Req) : Err :=
  if !srv.supports req.ver then .typed reasonInvalidMessage
  else if req.opt == optUndo then .typed reasonFeatureNotSupported
  else .typed reasonInvalidMessage

theorem execFull_rejected (srv : Srv) (req : Req) (h : ¬ Accepted srv req) :
    execFull srv req = handleMessageError req (rejectErr srv req) := by
  unfold Accepted at h
  by_cases h1 : srv.supports req.ver = true
  · by_cases h2 : req.opt = optUndo
    · have h0 : 0 < optUndo := by decide
      simp [execFull, handleRequest, rejectErr, h1, h2, h0]
    · have h3 : req.count ≠ (req.items.length : Int) := fun h3 => h ⟨h1, h2, h3⟩
      have h2' : (req.opt == optUndo) = false := by simpa using h2
      simp [execFull, handleRequest, rejectErr, h1, h2', h3]
  · simp [execFull, handleRequest, rejectErr, h1]

/-! ### the loop around an arbitrary item chain (`loopG`) -/

theorem loopG_stopped (f : Nat → Val → Item → GItemOut) (stop : Bool) :
    ∀ (items : List Item) (i : Nat) (ph : Val),
      loopG f stop items i true ph = (items.map canceled, [])
  | [], _, _ => rfl
  | it :: rest, i, ph => by
    simp only [loopG, if_true, loopG_stopped f stop rest (i + 1) ph, List.map_cons]

theorem loopG_length (f : Nat → Val → Item → GItemOut) (stop : Bool) :
    ∀ (items : List Item) (i : Nat) (stopped : Bool) (ph : Val),
      (loopG f stop items i stopped ph).1.length = items.length
  | [], _, _, _ => rfl
  | it :: rest, i, stopped, ph => by
    cases stopped with
    | true => simp only [loopG, if_true, List.length_cons, loopG_length f stop rest]
    | false =>
      simp only [loopG, Bool.false_eq_true, if_false, List.length_cons, loopG_length f stop rest]

/-- the middleware-free loop is the generic loop around `plainItem`. -/
theorem loop_eq_loopG (srv : Srv) (stop : Bool) :
    ∀ (items : List Item) (i : Nat) (stopped : Bool) (ph : Val),
      (loop srv stop items i stopped ph).items = (loopG (plainItem srv) stop items i stopped ph).1
  | [], _, _, _ => rfl
  | it :: rest, i, stopped, ph => by
    cases stopped with
    | true =>
      simp only [loop, loopG, if_true]
      rw [loop_eq_loopG srv stop rest (i + 1) true ph]
    | false =>
      simp only [loop, loopG, Bool.false_eq_true, if_false, plainItem]
      rw [loop_eq_loopG srv stop rest (i + 1) _ _]

/-- Continue / unset: every item is handed to the chain exactly once, in order. -/
theorem loopG_continue (f : Nat → Val → Item → GItemOut) :
    ∀ (items : List Item) (i : Nat) (ph : Val),
      (loopG f false items i false ph).2 = List.range' i items.length
  | [], _, _ => rfl
  | it :: rest, i, ph => by
    simp only [loopG, Bool.false_eq_true, if_false, Bool.and_false, List.length_cons, List.range'_succ]
    rw [loopG_continue f rest (i + 1) _]

/-- Stop: with `k` the first failed item of the response, exactly the items `0..k` were handed to the chain, in
    order, each once; every later item is answered `canceled` (failed, echoing operation and id). -/
theorem loopG_stop (f : Nat → Val → Item → GItemOut) :
    ∀ (items : List Item) (i : Nat) (ph : Val) (k : Nat) (r : RItem),
      (loopG f true items i false ph).1[k]? = some r → r.failed = true →
      (∀ j r', j < k → (loopG f true items i false ph).1[j]? = some r' → r'.failed = false) →
      (loopG f true items i false ph).2 = List.range' i (k + 1) ∧
      ∀ j it, k < j → items[j]? = some it →
        (loopG f true items i false ph).1[j]? = some (canceled it)
  | [], _, _, k, r, hk, _, _ => by simp [loopG] at hk
  | it :: rest, i, ph, k, r, hk, hf, hfirst => by
    simp only [loopG, Bool.false_eq_true, if_false, Bool.and_true] at hk hfirst ⊢
    cases hfail : (f i ph it).ri.failed with
    | true =>
      have hk0 : k = 0 := by
        cases k with
        | zero => rfl
        | succ k' =>
          have := hfirst 0 (f i ph it).ri (Nat.succ_pos _) (by simp)
          rw [hfail] at this; cases this
      subst hk0
      rw [loopG_stopped]
      refine ⟨by simp [List.range'], ?_⟩
      intro j it' hj hget
      cases j with
      | zero => omega
      | succ j' =>
        simp only [List.getElem?_cons_succ] at hget ⊢
        rw [List.getElem?_map, hget]; rfl
    | false =>
      cases k with
      | zero =>
        simp only [List.getElem?_cons_zero, Option.some.injEq] at hk
        rw [← hk, hfail] at hf; cases hf
      | succ k' =>
        simp only [List.getElem?_cons_succ] at hk
        rw [hfail] at hk
        have ih := loopG_stop f rest (i + 1) (f i ph it).ph k' r (by simpa using hk) hf
          (fun j r' hj hr' => hfirst (j + 1) r' (by omega) (by
            simp only [List.getElem?_cons_succ]; rw [hfail]; simpa using hr'))
        refine ⟨by rw [ih.1]; exact (List.range'_succ (s := i) (n := k' + 1) (step := 1)).symm, ?_⟩
        intro j it' hj hget
        cases j with
        | zero => omega
        | succ j' =>
          simp only [List.getElem?_cons_succ] at hget ⊢
          exact ih.2 j' it' (by omega) hget

/-- Stop without a failed response item: every item was handed to the chain. -/
theorem loopG_stop_no_failure (f : Nat → Val → Item → GItemOut) :
    ∀ (items : List Item) (i : Nat) (ph : Val),
      (∀ (j : Nat) (r' : RItem), (loopG f true items i false ph).1[j]? = some r' → r'.failed = false) →
      (loopG f true items i false ph).2 = List.range' i items.length
  | [], _, _, _ => rfl
  | it :: rest, i, ph, h => by
    simp only [loopG, Bool.false_eq_true, if_false, Bool.and_true] at h ⊢
    have h0 : (f i ph it).ri.failed = false := h 0 _ (by simp)
    rw [h0] at h ⊢
    simp only [List.length_cons, List.range'_succ]
    rw [loopG_stop_no_failure f rest (i + 1) _ (fun j r' hr' => h (j + 1) r' (by simpa using hr'))]

end Kmip.Batch
