# Regenerates the coding section of CliConn.lean (`code`, `decode`, `wf`, the per-field omega lemmas and
# `roundtrip`) from the field table below. Run after changing the fields of `St` or the size of an
# enumeration:  python3 CliConn.coding.py   (rewrites the text between `def code` and `def codec`).
p='/verif/lean/KmipModel/Model/CliConn.lean'
s=open(p).read()
# (field, kind, radix): kind b = Bool, n = Nat (range-checked by `wf`), otherwise the enumeration's name
fields=[('has','b',2),('rp','RP',8),('wp','WP',20),('closed','b',2),('cause','n',3),('txNil','b',2),('txClosed','b',2),('netClosed','b',2),('errCh','n',4),('pend','n',4),('infl','n',4),('tainted','b',2),('kp','KP',20),('kres','n',3),('retry','n',4),('kctx','b',2),('cclosed','b',2),('cp','CP',6),('cref','b',2),('ntx','n',6),('clean','b',2),('born','b',2),('raced','b',2),('stale','b',2),('reused','b',2),('overflow','b',2),('panic','n',3)]
D=1
codeTerms=[]; decTerms=[]; wfTerms=[]; Ds=[]
for (f,k,r) in fields:
    Ds.append(D)
    if k=='b':
        v=f"s.{f}.toNat"; d=f"{f} := Nat.beq (Nat.mod (Nat.div n {D}) 2) 1"
    elif k=='n':
        v=f"s.{f}"; d=f"{f} := Nat.mod (Nat.div n {D}) {r}"; wfTerms.append(f"Nat.blt s.{f} {r}")
    else:
        v=f"s.{f}.toN"; d=f"{f} := {k}.ofN (Nat.mod (Nat.div n {D}) {r})"
    codeTerms.append(f"Nat.mul {v} {D}" if D>1 else v)
    decTerms.append(d)
    D*=r
def wrap(items,sep,indent):
    lines=[];cur=indent
    for i,it in enumerate(items):
        piece=it+(sep if i<len(items)-1 else '')
        if len(cur)+len(piece)>108:
            lines.append(cur.rstrip()); cur=indent
        cur+=piece+' '
    lines.append(cur.rstrip())
    return "\n".join(lines)
# nested Nat.add: a0 + (a1 + (a2 + ...))
def nest(ts):
    if len(ts)==1: return ts[0]
    return f"Nat.add ({ts[0]})\n  ({nest(ts[1:])})"
a=s.index("def code (s : St) : Nat :=")
b=s.index("def codec : Codec St")
# roundtrip proof
names=[f for f,_,_ in fields]
def nest2(ts):
    if len(ts)==1: return ts[0]
    return f"{ts[0]} + ({nest2(ts[1:])})"
vterms=[(f"v{i} * {Ds[i]}" if Ds[i]>1 else f"v{i}") for i in range(len(fields))]
vs=" ".join(f"v{i}" for i in range(len(fields)))
hs=" ".join(f"(h{i} : v{i} < {fields[i][2]})" for i in range(len(fields)))
flds=[]
for j,(f,k,r) in enumerate(fields):
    flds.append(("set_option linter.unusedVariables false in\n" if True else "")+f"theorem fld{j} ({vs} : Nat)\n    {hs} :\n    ({nest2(vterms)}) / {Ds[j]} % {r} = v{j} := by omega")
def val(f,k): return f"{f}.toNat" if k=='b' else (f if k=='n' else f"{f}.toN")
def bnd(f,k): return f"(toNat_lt2 {f})" if k=='b' else (f"h_{f}" if k=='n' else f"({k}.toN_lt {f})")
args=" ".join(val(f,k) if k=='n' else "("+val(f,k)+")" for f,k,_ in fields)+"\n      "+" ".join(bnd(f,k) for f,k,_ in fields)
pf=[]
pf.append("theorem roundtrip (s : St) (h : wf s = true) : decode (code s) = s := by")
pf.append("  obtain ⟨"+", ".join(names)+"⟩ := s")
pf.append("  simp only [wf, Bool.and_eq_true, Nat.blt_eq] at h")
nfields=[f for f,k,_ in fields if k=='n']
pat="h_"+nfields[0]
for f in nfields[1:]:
    pat=f"⟨{pat}, h_{f}⟩"
pf.append(f"  obtain {pat} := h")
pf.append("  unfold decode code")
pf.append("  rw [St.mk.injEq]")
pf.append("  simp only [Nat.add_eq, Nat.mul_eq, nat_div_eq, nat_mod_eq]")
pf.append("  refine ⟨"+", ".join("?_" for _ in fields)+"⟩")
for j,(f,k,r) in enumerate(fields):
    if k=='b':
        pf.append(f"  · rw [fld{j} {args}]; cases {f} <;> rfl")
    elif k=='n':
        pf.append(f"  · exact fld{j} {args}")
    else:
        pf.append(f"  · rw [fld{j} {args}]; exact {k}.ofN_toN {f}")
pf=flds+[""]+pf
new='''def code (s : St) : Nat :=
  '''+nest(codeTerms)+'''

def decode (n : Nat) : St :=
  { '''+wrap(decTerms,',','    ').lstrip()+''' }

/-- the numeric fields are within their radix (booleans and program counters always are). -/
def wf (s : St) : Bool :=
  '''+" && ".join(wfTerms)+'''

theorem nat_div_eq (a b : Nat) : Nat.div a b = a / b := rfl
theorem nat_mod_eq (a b : Nat) : Nat.mod a b = a % b := rfl
theorem toNat_lt2 (b : Bool) : b.toNat < 2 := by cases b <;> decide
theorem RP.toN_lt (x : RP) : x.toN < 8 := by cases x <;> decide
theorem WP.toN_lt (x : WP) : x.toN < 20 := by cases x <;> decide
theorem KP.toN_lt (x : KP) : x.toN < 20 := by cases x <;> decide
theorem CP.toN_lt (x : CP) : x.toN < 6 := by cases x <;> decide
theorem RP.ofN_toN (x : RP) : RP.ofN x.toN = x := by cases x <;> rfl
theorem WP.ofN_toN (x : WP) : WP.ofN x.toN = x := by cases x <;> rfl
theorem KP.ofN_toN (x : KP) : KP.ofN x.toN = x := by cases x <;> rfl
theorem CP.ofN_toN (x : CP) : CP.ofN x.toN = x := by cases x <;> rfl

'''+"\n".join(pf)+'''

'''
s=s[:a]+new+s[b:]
open(p,'w').write(s)
